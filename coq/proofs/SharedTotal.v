(* Totality of the Manager run on in-contract scripts over the unlocked alphabet WITH shared components (C12):
   inside the contract, for component ids that have a description, the model never returns Err.
   New with respect to ManagerTotal.v: SharedComponentsInfo::add / remove (si_add / si_remove index their vectors by the
   position of the shared id: Ok on well-formed infos, SharedProofs.si_add_total / si_remove_total), and the archetype
   lookup by (mask, shared info). *)
Require Import Coq.Lists.List Coq.NArith.NArith Coq.ZArith.ZArith Coq.Arith.Arith Coq.Bool.Bool Coq.micromega.Lia.
From Mustache Require Import Res Manager MgrSpec Refine.
From Mustache Require Skeleton.
From Mustache Require Import SkelSpec.
From Mustache.proofs Require Import ListLemmas SkelBasics SkelInv SkelSteps SkelMove SkelMain ClosureProofs
  ManagerBasics ManagerMoves ManagerProj ManagerInv ManagerMain ManagerWorlds ManagerTotal DepsFrame DepsClosure DepsInv DepsMain
  SharedProofs SharedKey SharedVals SharedFrame SharedInv SharedMain.
Import ListNotations.

(* ---------------------------------------------------------------------------------------- *)
(* the shape invariant does not see the shared info *)
Lemma twf_ha n a : twf n (ha a) <-> twf n a.
Proof. unfold twf, vwf, mreg. rewrite mitems_ha. cbn [ha am_chunk am_gver am_cver am_ents]. apply iff_refl. Qed.

Lemma TI_rk cis s : TI cis s -> TI cis (rk s).
Proof.
  intros [A B C]. constructor; [exact A|exact B|]. unfold rk. cbn [archs set_archs]. apply Forall_forall. intros a' Ha'.
  apply in_map_iff in Ha'. destruct Ha' as (a & <- & Ha). apply twf_ha. apply (proj1 (Forall_forall _ _) C a Ha).
Qed.

Lemma TI_of_rk cis s : TI cis (rk s) -> TI cis s.
Proof.
  intros [A B C]. constructor; [exact A|exact B|]. apply Forall_forall. intros a Ha. apply twf_ha.
  unfold rk in C. cbn [archs set_archs] in C. apply (proj1 (Forall_forall _ _) C (ha a)). apply in_map. exact Ha.
Qed.

Lemma TI_same cis s s' : TI cis s -> def_chunk s' = def_chunk s -> chunk_fns s' = chunk_fns s -> archs s' = archs s -> TI cis s'.
Proof. intros [A B C] E1 E2 E3. constructor; [rewrite E1; exact A|rewrite E2; exact B|rewrite E3; exact C]. Qed.

(* sizes and columns of an archetype, whatever its shared info *)
Definition awf0 (a : archetype) : Prop :=
  am_size a = length (am_ents a) /\ length (am_cols a) = length (mitems (am_mask a)).

Lemma awf0_new m sh cs : awf0 (new_arch m sh cs).
Proof. unfold awf0, new_arch. simpl. split; [reflexivity|]. rewrite repeat_length. apply mcount_eq. Qed.

Lemma SInv_awf0 cis s hs al x a : SInv cis s hs al x -> In a (archs s) -> awf0 a.
Proof.
  intros HS Ha. apply awf_ha. apply (proj1 (Forall_forall _ _) (mi_awf _ _ _ _ _ (sv_M _ _ _ _ _ HS))).
  unfold rk. cbn [archs set_archs]. apply in_map. exact Ha.
Qed.

(* ---------------------------------------------------------------------------------------- *)
(* getArchetype, by mask and shared info *)
Lemma get_arch_basic cis s m sh : TI cis s -> deps s = [] -> mreg (length cis) m ->
  exists s1 ai a_t, get_arch s m sh = Ok (s1, ai) /\ TI cis s1 /\ fr1 s1 = fr1 s /\
    nth_error (archs s1) ai = Some a_t /\ am_mask a_t = m /\
    (forall j a, nth_error (archs s) j = Some a -> nth_error (archs s1) j = Some a) /\
    (In a_t (archs s) \/ a_t = new_arch m sh (def_chunk s)).
Proof.
  intros [Hch Hf Hta] Hd Hm. rewrite (get_arch_eq s m sh Hd Hf).
  destruct (find_arch (archs s) m sh 0) as [i|] eqn:Ef.
  - destruct (find_arch_some _ _ _ _ _ Ef) as (_ & a & Hn & Hma & _). rewrite Nat.sub_0_r in Hn.
    exists s, i, a. split; [reflexivity|]. split; [constructor; assumption|]. split; [reflexivity|]. split; [exact Hn|].
    split; [exact Hma|]. split; [auto|]. left. eapply nth_error_In. exact Hn.
  - exists (set_archs s (archs s ++ [new_arch m sh (def_chunk s)])), (length (archs s)), (new_arch m sh (def_chunk s)).
    split; [reflexivity|]. split.
    { constructor; try assumption. cbn [archs set_archs]. apply Forall_app. split; [exact Hta|].
      constructor; [|constructor]. split; [|exact Hm]. unfold vwf, new_arch. simpl. split; [exact Hch|].
      split; [rewrite repeat_length; apply mcount_eq|]. intros idx Hi. lia. }
    split; [reflexivity|]. split; [cbn [archs set_archs]; apply nth_error_app_last|]. split; [reflexivity|].
    split; [|right; reflexivity]. intros j a Hj. cbn [archs set_archs]. rewrite nth_error_app1; [exact Hj|]. eapply nth_error_lt'. exact Hj.
Qed.

(* createWithOutInit, from the structure of any state with the same id table *)
Lemma create_id_total0 s s0 hs al : G (proj s0) hs al [] -> fr1 s = fr1 s0 ->
  exists s2 h, create_id s = Ok (s2, h) /\ N.to_nat (fst h) < length (locs s2).
Proof.
  intros HG F. pose proof (g_len HG) as Hlen. simpl in Hlen. rewrite !map_length in Hlen.
  destruct (fr2_slots _ _ (fr1_fr2 _ _ F)) as (Es & En & Ee). pose proof (fr1_locs _ _ F) as El.
  rewrite <- El, <- Es in Hlen.
  unfold create_id. destruct (empty_slots s) as [|e] eqn:Eem.
  - eexists. eexists. split; [reflexivity|]. cbn [fst locs set_locs]. rewrite app_length, Nat2N.id. simpl. lia.
  - assert (Hin : In (next_slot s) (W (proj s0))).
    { unfold W. cbn [Skeleton.empty_slots Skeleton.next_slot Skeleton.slots proj]. rewrite <- Ee, <- En, walk_S. left. reflexivity. }
    pose proof (g_free_range HG _ Hin) as Hr. simpl in Hr. rewrite map_length, <- Es in Hr.
    destruct (nth_error_ex (slots s) (N.to_nat (next_slot s)) Hr) as (sl & Hsl).
    rewrite (nth_res_some _ _ _ Hsl). cbn [bind locs set_slots set_free].
    rewrite upd_res_some' by (rewrite Hlen; exact Hr). cbn [bind].
    eexists. eexists. split; [reflexivity|]. cbn [fst locs set_locs]. rewrite upd_length, Hlen. exact Hr.
Qed.

(* an entity moves to another archetype *)
Lemma move_total0 cis s h ai a_t pai pidx pa skip :
  TI cis s -> awf0 pa -> awf0 a_t -> cinfos s = cis ->
  (forall p y, nth_error (am_ents pa) p = Some y -> N.to_nat (fst y) < length (locs s)) ->
  N.to_nat (fst h) < length (locs s) ->
  nth_error (archs s) pai = Some pa -> pidx < length (am_ents pa) ->
  nth_error (archs s) ai = Some a_t -> ai <> pai ->
  exists s2, external_move s ai h pai pidx skip = Ok s2 /\ TI cis s2 /\ length (locs s2) = length (locs s) /\
    exists a2, nth_error (archs s2) ai = Some a2 /\ am_mask a2 = am_mask a_t.
Proof.
  intros HT (Wpsz & Wpcols) (_ & Wtcols) Hcis Hids Hh Hpa Hpidx Hat Hne.
  destruct (external_move_total s ai h pai pidx skip a_t pa (length cis) Hat Hpa Hne
              (twf_nth _ _ _ _ (ti_archs _ _ HT) Hat) (twf_nth _ _ _ _ (ti_archs _ _ HT) Hpa))
    as (s2 & E & Hl & a2 & pa' & A & Ht2 & Htp & Em).
  { rewrite Hcis. reflexivity. }
  { exact Wpsz. }
  { exact Hpidx. }
  { exact Hh. }
  { exact Hids. }
  exists s2. split; [exact E|].
  destruct (external_move_ok _ _ _ _ _ _ _ _ _ Hat Hpa Wtcols Wpsz Wpcols E) as (_ & _ & _ & _ & _ & F & _).
  split; [apply (TI_upd2 cis s s2 ai a2 pai pa' HT (fr2_fr3 _ _ F) A Ht2 Htp)|]. split; [exact Hl|].
  exists a2. split; [|exact Em]. rewrite A, nth_error_upd_other by congruence. apply nth_error_upd_same. eapply nth_error_lt'. exact Hat.
Qed.

(* what the invariant says about a live handle, read on the state itself *)
Lemma live_facts cis s hs al x k : SInv cis s hs al x -> alive al k ->
  exists pai pidx pa,
    nth_error (locs s) (N.to_nat (fst (hnd hs k))) = Some {| l_arch := Some pai; l_idx := pidx |} /\
    nth_error (archs s) pai = Some pa /\ nth_error (am_ents pa) pidx = Some (hnd hs k) /\ awf0 pa /\ si_wf (am_shared pa) /\
    (forall p y, nth_error (am_ents pa) p = Some y -> N.to_nat (fst y) < length (locs s)).
Proof.
  intros HS Hal. destruct (alive_in _ _ Hal) as (key & Hin).
  destruct (live_m _ _ _ _ _ (mi_G _ _ _ _ _ (sv_M _ _ _ _ _ HS)) Hin) as (_ & ai & idx & a' & Hloc & Harch & _ & Hent).
  destruct (arch_rk_inv _ _ _ Harch) as (a & Ha & ->).
  exists ai, idx, a. split; [exact Hloc|]. split; [exact Ha|]. split; [exact Hent|].
  split; [apply (SInv_awf0 _ _ _ _ _ _ HS); eapply nth_error_In; exact Ha|].
  split; [destruct (SInv_hok _ _ _ _ _ _ _ HS Ha) as (_ & W & _); exact W|].
  exact (member_ids cis (rk s) hs al (xns x) ai (ha a) (sv_M _ _ _ _ _ HS) Harch).
Qed.

Lemma a_t_awf0 cis s hs al x a_t m sh cs : SInv cis s hs al x -> In a_t (archs s) \/ a_t = new_arch m sh cs -> awf0 a_t.
Proof. intros HS [H| ->]; [apply (SInv_awf0 _ _ _ _ _ _ HS H)|apply awf0_new]. Qed.

(* ---------------------------------------------------------------------------------------- *)
(* create (without shared types) *)
Lemma s_create cis s hs al x tid m via :
  SInv cis s hs al x -> TI cis s -> mreg (length cis) m ->
  exists s' h, step s (OCreate tid m [] via) = Ok (s', RHandle h) /\ TI cis s'.
Proof.
  intros HS HT Hm. destruct (SInv_ctl _ _ _ _ _ HS) as (Hl & Hc & Hd & _).
  rewrite (step_create_unlocked _ _ _ _ Hl).
  destruct (get_arch_basic cis s m si_null HT Hd Hm) as (s1 & ai & a_t & Ega & HT1 & F1 & Hat & Hmt & Hkeep & Hor).
  rewrite Ega. cbn [bind].
  destruct (create_id_total0 s1 (rk s) hs al (mi_G _ _ _ _ _ (sv_M _ _ _ _ _ HS)) F1) as (s2 & h & Ec & Hh). rewrite Ec. cbn [bind].
  destruct (create_id_frame _ _ _ Ec) as (A2 & F2). destruct (fr3_ctl _ _ F2) as (_ & _ & Eci & _).
  assert (Ha2 : nth_error (archs s2) ai = Some a_t) by (rewrite A2; exact Hat).
  destruct (arch_insert_total s2 ai a_t h 0%N (length cis) Ha2 (twf_nth _ _ _ _ (ti_archs _ _ HT1) Hat)) as (s3 & Ei & a3 & Ha3 & Ht3).
  { rewrite Eci, (fr1_cinfos _ _ F1), Hc. reflexivity. }
  { exact Hh. }
  rewrite Ei. cbn [bind]. exists s3, h. split; [reflexivity|].
  destruct (arch_insert_ok _ _ _ _ _ _ Ha2 (proj2 (a_t_awf0 _ _ _ _ _ _ _ _ _ HS Hor)) Ei) as (a3' & F3 & A3 & _).
  assert (a3' = a3).
  { rewrite A3, nth_error_upd_same in Ha3 by (eapply nth_error_lt'; exact Ha2). congruence. }
  subst a3'.
  apply (TI_upd cis s2 s3 ai a3); [|apply fr2_fr3; exact F3|exact A3|exact Ht3].
  destruct HT1 as [A B C]. destruct (fr3_ctl _ _ F2) as (_ & _ & _ & _ & _ & _ & _ & E1 & E2).
  constructor; [rewrite E1; exact A|rewrite E2; exact B|rewrite A2; exact C].
Qed.

(* destroyNow and the write through getComponent never read the shared info *)
Lemma s_destroy_now cis s hs al x tid k :
  SInv cis s hs al x -> TI cis s ->
  exists s', step s (ODestroyNow tid (hnd hs k)) = Ok (s', RNone) /\ TI cis s'.
Proof.
  intros HS HT. destruct (SInv_ctl _ _ _ _ _ HS) as (Hl & _).
  destruct (step_destroy_now_total cis (rk s) hs al (xns x) tid k (sv_M _ _ _ _ _ HS) (TI_rk _ _ HT)) as (s0 & E & HT0).
  rewrite (step_destroy_now_unlocked (rk s) _ _ Hl) in E. rewrite destroy_now_unlocked_rk in E.
  rewrite (step_destroy_now_unlocked _ _ _ Hl).
  destruct (destroy_now_unlocked s (hnd hs k)) as [s1|e] eqn:Ed; simpl in E; [|discriminate].
  inversion E; subst s0. cbn [bind]. exists s1. split; [reflexivity|apply TI_of_rk; exact HT0].
Qed.

Lemma s_set cis s hs al x k c z :
  SInv cis s hs al x -> TI cis s -> c < MASK_BITS ->
  exists s' p w, step s (OGetMut (hnd hs k) c (Some z)) = Ok (s', RCell p w) /\ TI cis s'.
Proof.
  intros HS HT Hc128.
  destruct (step_set_total cis (rk s) hs al (xns x) k c z (sv_M _ _ _ _ _ HS) (TI_rk _ _ HT) Hc128) as (s0 & p & w & E & HT0).
  change (get_mut (rk s) (hnd hs k) c (Some z) = Ok (s0, RCell p w)) in E. rewrite (get_mut_rk _ _ _ _ Hc128) in E.
  change (step s (OGetMut (hnd hs k) c (Some z))) with (get_mut s (hnd hs k) c (Some z)).
  destruct (get_mut s (hnd hs k) c (Some z)) as [[s1 o]|e] eqn:Eg; simpl in E; [|discriminate].
  inversion E; subst s0 o. exists s1, p, w. split; [reflexivity|apply TI_of_rk; exact HT0].
Qed.

(* ---------------------------------------------------------------------------------------- *)
(* the entity of a live handle moves to the archetype getArchetype answers with *)
Lemma relocate_total cis s hs al x k pai pidx pa m sh skip :
  SInv cis s hs al x -> TI cis s ->
  nth_error (locs s) (N.to_nat (fst (hnd hs k))) = Some {| l_arch := Some pai; l_idx := pidx |} ->
  nth_error (archs s) pai = Some pa -> nth_error (am_ents pa) pidx = Some (hnd hs k) -> awf0 pa ->
  (forall p y, nth_error (am_ents pa) p = Some y -> N.to_nat (fst y) < length (locs s)) ->
  mreg (length cis) m ->
  exists s1 ai a_t, get_arch s m sh = Ok (s1, ai) /\ TI cis s1 /\ nth_error (archs s1) ai = Some a_t /\ am_mask a_t = m /\
    (ai <> pai -> exists s2, external_move s1 ai (hnd hs k) pai pidx skip = Ok s2 /\ TI cis s2 /\
                     length (locs s2) = length (locs s) /\ exists a2, nth_error (archs s2) ai = Some a2 /\ am_mask a2 = m).
Proof.
  intros HS HT Hloc Hpa Hent Wp Hids Hm. destruct (SInv_ctl _ _ _ _ _ HS) as (_ & Hc & Hd & _).
  destruct (get_arch_basic cis s m sh HT Hd Hm) as (s1 & ai & a_t & Ega & HT1 & F1 & Hat & Hmt & Hkeep & Hor).
  exists s1, ai, a_t. split; [exact Ega|]. split; [exact HT1|]. split; [exact Hat|]. split; [exact Hmt|]. intros Hne.
  pose proof (fr1_locs _ _ F1) as Hl1.
  destruct (move_total0 cis s1 (hnd hs k) ai a_t pai pidx pa skip HT1 Wp (a_t_awf0 _ _ _ _ _ _ _ _ _ HS Hor)) as (s2 & Em & HT2 & Hl2 & a2 & Ha2 & Emask).
  { rewrite (fr1_cinfos _ _ F1). exact Hc. }
  { intros p y Hp. rewrite Hl1. apply (Hids p y Hp). }
  { rewrite Hl1. eapply nth_error_lt'. exact Hloc. }
  { apply Hkeep. exact Hpa. }
  { eapply nth_error_lt'. exact Hent. }
  { exact Hat. }
  { exact Hne. }
  exists s2. split; [exact Em|]. split; [exact HT2|]. split; [rewrite Hl2, Hl1; reflexivity|]. exists a2. split; [exact Ha2|]. rewrite Emask. exact Hmt.
Qed.

(* assign *)
Lemma s_assign cis s hs al x tid k c v typed :
  SInv cis s hs al x -> TI cis s -> c < MASK_BITS -> c < length cis ->
  alive_x x k = true -> x_viol (x_step_in x (XoAssign tid k c v)) = x_viol x ->
  exists s', step s (OAssign tid (hnd hs k) c (match v with Some z => AValue z | None => ADefault end) typed) = Ok (s', RNone) /\
             TI cis s'.
Proof.
  intros HS HT Hc128 Hc Hax Hviol.
  destruct (SInv_ctl _ _ _ _ _ HS) as (Hl & Hcis & Hd & Hxl & Hxd & Hxc & Hcnt & Hal).
  pose proof (proj2 (Hal k) Hax) as Halk. destruct (alive_in _ _ Halk) as (key & Hin).
  destruct (find_ent x k) as [e|] eqn:Hfe; [|apply alive_x_find in Hax; congruence].
  destruct (live_s _ _ _ _ _ _ _ _ HS Hin Hfe) as (Hk & pai & pidx & pa & Hloc & Hpa & Hkey & Hent & Hvm & _).
  assert (Hx : x_step_in x (XoAssign tid k c v) = x_assign x k c v).
  { unfold x_step_in, issued_b. rewrite Hcnt. apply Nat.ltb_lt in Hk. rewrite Hk, Hxl. reflexivity. }
  rewrite Hx in Hviol.
  assert (Hhc : has_comp (e_comps e) c = false).
  { destruct (has_comp (e_comps e) c) eqn:E; [|reflexivity]. unfold x_assign in Hviol. rewrite Hfe, E in Hviol. simpl in Hviol. lia. }
  assert (Hmc : mhas (am_mask pa) c = false).
  { rewrite <- (kmk_low (am_mask pa) (am_shared pa) c Hc128), <- ha_mask, <- (vmatch_has _ _ _ _ Hvm Hc128). exact Hhc. }
  destruct (live_facts _ _ _ _ _ k HS Halk) as (pai' & pidx' & pa' & Hloc' & Hpa' & _ & Wp & _ & Hids).
  rewrite Hloc in Hloc'. inversion Hloc'; subst pai' pidx'. rewrite Hpa in Hpa'. inversion Hpa'; subst pa'.
  destruct (twf_nth _ _ _ _ (ti_archs _ _ HT) Hpa) as (_ & Hregp).
  rewrite (step_assign_unlocked _ _ _ _ _ _ Hl).
  destruct (info_of_total s c) as (inf & Einf); [rewrite Hcis; exact Hc|]. rewrite Einf. cbn [bind].
  unfold assign_unlocked, loc_arch. rewrite (nth_res_some _ _ _ Hloc). cbn [bind l_arch l_idx].
  rewrite (nth_res_some _ _ _ Hpa). cbn [bind].
  match goal with |- context [external_move _ _ _ pai pidx ?sk] =>
    destruct (relocate_total cis s hs al x k pai pidx pa (madd (am_mask pa) c) (am_shared pa) sk HS HT Hloc Hpa Hent Wp Hids (mreg_madd _ _ _ Hregp Hc))
      as (s1 & ai & a_t & Ega & HT1 & Hat & Hmt & Hmove) end.
  rewrite Ega. cbn [bind].
  assert (Hne : ai <> pai).
  { intros ->. pose proof (get_arch_basic cis s (madd (am_mask pa) c) (am_shared pa) HT Hd (mreg_madd _ _ _ Hregp Hc)) as (s1' & ai' & a' & Ega' & _ & _ & _ & _ & Hkeep & _).
    rewrite Ega in Ega'. inversion Ega'; subst s1' ai'. rewrite (Hkeep pai pa Hpa) in Hat. inversion Hat; subst a_t.
    assert (E : mhas (madd (am_mask pa) c) c = false) by (rewrite <- Hmt; exact Hmc).
    rewrite mhas_madd, Nat.eqb_refl in E. discriminate. }
  destruct (Hmove Hne) as (s2 & Em & HT2 & Hl2 & a2 & Ha2 & Emask).
  rewrite Em. cbn [bind]. rewrite (nth_res_some _ _ _ Ha2). cbn [bind].
  destruct (nth_error_ex (locs s2) (N.to_nat (fst (hnd hs k)))) as (l2 & El2).
  { rewrite Hl2. eapply nth_error_lt'. exact Hloc. }
  rewrite (nth_res_some _ _ _ El2). cbn [bind].
  assert (Eci : cindex (am_mask a2) c = Some (length (filter (mhas (am_mask a2)) (seq 0 c)))).
  { unfold cindex. rewrite Emask, mhas_madd, Nat.eqb_refl. reflexivity. }
  rewrite Eci. cbn [bind]. destruct v as [z|]; [|exists s2; split; [reflexivity|exact HT2]].
  destruct (ci_hasval inf).
  - rewrite (write_cell_total _ _ _ _ _ (Some z) Ha2). cbn [bind].
    pose proof (TI_put cis s2 ai a2 (length (filter (mhas (am_mask a2)) (seq 0 c))) (l_idx l2) (Some z) HT2 Ha2) as HT3.
    destruct typed; eexists; (split; [reflexivity|]); [|exact HT3].
    apply TI_emit_if. apply TI_emit_if. exact HT3.
  - cbn [bind]. destruct typed; eexists; (split; [reflexivity|]); [|exact HT2].
    apply TI_emit_if. apply TI_emit_if. exact HT2.
Qed.

(* removeComponent *)
Lemma s_remove cis s hs al x tid k c typed :
  SInv cis s hs al x -> TI cis s -> (typed = true \/ alive_x x k = true) ->
  exists s', step s (ORemove tid (hnd hs k) c typed) = Ok (s', RNone) /\ TI cis s'.
Proof.
  intros HS HT Hctr. destruct (SInv_ctl _ _ _ _ _ HS) as (Hl & _).
  rewrite (step_remove_unlocked _ _ _ _ _ Hl).
  destruct (is_valid s (hnd hs k)) eqn:Ev.
  - rewrite andb_false_r.
    destruct (valid_find_s _ _ _ _ _ _ HS Ev) as (_ & Halk & _).
    destruct (live_facts _ _ _ _ _ k HS Halk) as (pai & pidx & pa & Hloc & Hpa & Hent & Wp & _ & Hids).
    unfold remove_unlocked. rewrite (nth_res_some _ _ _ Hloc). cbn [bind l_arch l_idx].
    rewrite (nth_res_some _ _ _ Hpa). cbn [bind].
    destruct (mhas (am_mask pa) c) eqn:Emc; cbn [negb]; [|cbn [bind]; exists s; split; [reflexivity|exact HT]].
    destruct (twf_nth _ _ _ _ (ti_archs _ _ HT) Hpa) as (_ & Hregp).
    destruct (relocate_total cis s hs al x k pai pidx pa (mdel (am_mask pa) c) (am_shared pa) 0%N HS HT Hloc Hpa Hent Wp Hids (mreg_mdel _ _ _ Hregp))
      as (s1 & ai & a_t & Ega & HT1 & Hat & Hmt & Hmove).
    rewrite Ega. cbn [bind].
    destruct (Nat.eqb_spec ai pai) as [->|Hne]; [cbn [bind]; exists s1; split; [reflexivity|exact HT1]|].
    destruct (Hmove Hne) as (s2 & Em & HT2 & _).
    rewrite Em. cbn [bind]. exists s2. split; [reflexivity|exact HT2].
  - assert (Ety : typed = true).
    { destruct Hctr as [E|E]; [exact E|]. apply alive_x_find in E. rewrite (dead_find_s _ _ _ _ _ _ HS Ev) in E. congruence. }
    subst typed. cbn [andb negb]. exists s. split; [reflexivity|exact HT].
Qed.

(* ---------------------------------------------------------------------------------------- *)
(* assignShared: a fresh instance is recorded and pooled, then the entity moves to the archetype of the new shared info *)
Definition np (s : mst) : mst := set_pool s [] [].

Lemma created_shared_np s sid inst : np (fst (created_shared s sid inst)) = np s.
Proof. rewrite created_shared_unfold. destruct (find _ _); reflexivity. Qed.

Lemma np_fields s s' : np s' = np s ->
  archs s' = archs s /\ locs s' = locs s /\ cinfos s' = cinfos s /\ deps s' = deps s /\ def_chunk s' = def_chunk s /\
  chunk_fns s' = chunk_fns s /\ slots s' = slots s.
Proof.
  intros H. repeat split.
  - apply (f_equal archs) in H. exact H.
  - apply (f_equal locs) in H. exact H.
  - apply (f_equal cinfos) in H. exact H.
  - apply (f_equal deps) in H. exact H.
  - apply (f_equal def_chunk) in H. exact H.
  - apply (f_equal chunk_fns) in H. exact H.
  - apply (f_equal slots) in H. exact H.
Qed.

(* the tail of assignShared / removeShared on a state that differs from s in the pool only *)
Lemma reshare_total cis s hs al x k s1 pai pidx pa sh :
  SInv cis s hs al x -> TI cis s -> np s1 = np s ->
  nth_error (locs s) (N.to_nat (fst (hnd hs k))) = Some {| l_arch := Some pai; l_idx := pidx |} ->
  nth_error (archs s) pai = Some pa -> nth_error (am_ents pa) pidx = Some (hnd hs k) -> awf0 pa ->
  (forall p y, nth_error (am_ents pa) p = Some y -> N.to_nat (fst y) < length (locs s)) ->
  exists s2 ai, get_arch s1 (am_mask pa) sh = Ok (s2, ai) /\ TI cis s2 /\
    (ai <> pai -> exists s3, external_move s2 ai (hnd hs k) pai pidx 0%N = Ok s3 /\ TI cis s3).
Proof.
  intros HS HT Hnp Hloc Hpa Hent Wp Hids. destruct (SInv_ctl _ _ _ _ _ HS) as (_ & Hc & Hd & _).
  destruct (np_fields _ _ Hnp) as (Ea & El & Eci & Ed & Edc & Ecf & _).
  assert (HT1 : TI cis s1) by (apply (TI_same cis s s1 HT Edc Ecf Ea)).
  destruct (twf_nth _ _ _ _ (ti_archs _ _ HT) Hpa) as (_ & Hregp).
  destruct (get_arch_basic cis s1 (am_mask pa) sh HT1 (eq_trans Ed Hd) Hregp) as (s2 & ai & a_t & Ega & HT2 & F2 & Hat & Hmt & Hkeep & Hor).
  exists s2, ai. split; [exact Ega|]. split; [exact HT2|]. intros Hne.
  pose proof (fr1_locs _ _ F2) as Hl2.
  assert (Wt : awf0 a_t).
  { destruct Hor as [Hin| ->]; [|apply awf0_new]. rewrite Ea in Hin. apply (SInv_awf0 _ _ _ _ _ _ HS Hin). }
  destruct (move_total0 cis s2 (hnd hs k) ai a_t pai pidx pa 0%N HT2 Wp Wt) as (s3 & Em & HT3 & _).
  { rewrite (fr1_cinfos _ _ F2), Eci. exact Hc. }
  { intros p y Hp. rewrite Hl2, El. apply (Hids p y Hp). }
  { rewrite Hl2, El. eapply nth_error_lt'. exact Hloc. }
  { apply Hkeep. rewrite Ea. exact Hpa. }
  { eapply nth_error_lt'. exact Hent. }
  { exact Hat. }
  { exact Hne. }
  exists s3. split; [exact Em|exact HT3].
Qed.

Lemma step_assign_shared_eq s h sid v : step s (OAssignShared h sid v) = (do s1 <- assign_shared s h sid v; Ok (s1, RNone)).
Proof. reflexivity. Qed.
Lemma step_remove_shared_eq s h sid : step s (ORemoveShared h sid) = (do r <- remove_shared s h sid; Ok (fst r, RBool (snd r))).
Proof. reflexivity. Qed.

Lemma s_assign_shared cis s hs al x k sid v :
  SInv cis s hs al x -> TI cis s -> alive_x x k = true ->
  exists s', step s (OAssignShared (hnd hs k) sid v) = Ok (s', RNone) /\ TI cis s'.
Proof.
  intros HS HT Hax. destruct (SInv_ctl _ _ _ _ _ HS) as (_ & _ & _ & _ & _ & _ & _ & Hal).
  pose proof (proj2 (Hal k) Hax) as Halk.
  destruct (live_facts _ _ _ _ _ k HS Halk) as (pai & pidx & pa & Hloc & Hpa & Hent & Wp & Wsh & Hids).
  rewrite step_assign_shared_eq. unfold assign_shared, new_inst. cbv beta iota. cbn [locs set_pool].
  rewrite (nth_res_some _ _ _ Hloc). cbn [bind].
  match goal with |- context [created_shared ?s0 sid ?fr] =>
    pose proof (created_shared_np s0 sid fr) as Hnp; destruct (created_shared s0 sid fr) as [s1 inst] end.
  cbn [fst] in Hnp. cbv beta iota. cbn [l_arch l_idx].
  assert (Hnp1 : np s1 = np s) by (rewrite Hnp; reflexivity).
  destruct (np_fields _ _ Hnp1) as (Ea & _). rewrite Ea, (nth_res_some _ _ _ Hpa). cbn [bind].
  destruct (si_add_total (am_shared pa) sid inst Wsh) as (sh & Esh). rewrite Esh. cbn [bind].
  destruct (reshare_total cis s hs al x k s1 pai pidx pa sh HS HT Hnp1 Hloc Hpa Hent Wp Hids) as (s2 & ai & Ega & HT2 & Hmove).
  rewrite Ega. cbn [bind].
  destruct (Nat.eqb_spec ai pai) as [->|Hne]; [cbn [bind]; exists s2; split; [reflexivity|exact HT2]|].
  destruct (Hmove Hne) as (s3 & Em & HT3). rewrite Em. cbn [bind]. exists s3. split; [reflexivity|exact HT3].
Qed.

Lemma s_remove_shared cis s hs al x k sid :
  SInv cis s hs al x -> TI cis s ->
  exists s' b, step s (ORemoveShared (hnd hs k) sid) = Ok (s', RBool b) /\ TI cis s'.
Proof.
  intros HS HT. rewrite step_remove_shared_eq. unfold remove_shared.
  destruct (is_valid s (hnd hs k)) eqn:Ev; cbn [negb]; [|cbn [bind fst snd]; exists s, false; split; [reflexivity|exact HT]].
  destruct (valid_find_s _ _ _ _ _ _ HS Ev) as (_ & Halk & _).
  destruct (live_facts _ _ _ _ _ k HS Halk) as (pai & pidx & pa & Hloc & Hpa & Hent & Wp & Wsh & Hids).
  rewrite (nth_res_some _ _ _ Hloc). cbn [bind l_arch l_idx]. rewrite (nth_res_some _ _ _ Hpa). cbn [bind].
  destruct (mhas (si_mask (am_shared pa)) sid); cbn [negb]; [|cbn [bind fst snd]; exists s, false; split; [reflexivity|exact HT]].
  destruct (si_remove_total (am_shared pa) sid Wsh) as (sh & Esh). rewrite Esh. cbn [bind].
  destruct (reshare_total cis s hs al x k s pai pidx pa sh HS HT eq_refl Hloc Hpa Hent Wp Hids) as (s2 & ai & Ega & HT2 & Hmove).
  rewrite Ega. cbn [bind].
  destruct (Nat.eqb_spec ai pai) as [->|Hne]; [cbn [bind fst snd]; exists s2, false; split; [reflexivity|exact HT2]|].
  destruct (Hmove Hne) as (s3 & Em & HT3). rewrite Em. cbn [bind fst snd]. exists s3, true. split; [reflexivity|exact HT3].
Qed.

(* ---------------------------------------------------------------------------------------- *)
(* one operation, the run *)
Lemma mstep_total_s cis typed s hs al x o :
  SInv cis s hs al x -> TI cis s -> alpha_s cis o = true -> reg_b cis o = true ->
  x_viol x = 0 -> x_viol (x_step x o) = 0 ->
  exists s' hs', mstep typed (s, hs) o = Ok (s', hs') /\ TI cis s' /\ length hs' = length hs + (if is_create o then 1 else 0).
Proof.
  intros HS HT Ha Hr Hv0 Hv1.
  destruct (SInv_ctl _ _ _ _ _ HS) as (_ & _ & _ & Hxl & _).
  unfold x_step in Hv1. destruct (out_of_contract x o) eqn:Eooc; [simpl in Hv1; lia|].
  destruct o; simpl in Ha; try discriminate; cbn [is_create].
  - (* create *)
    apply andb_true_iff in Ha. destruct Ha as (Hs & _). destruct sids; [|discriminate].
    destruct (s_create cis s hs al x tid m via_arch HS HT (mreg_b_ok _ _ Hr)) as (s1 & h & E & HT1).
    exists (set_log s1 []), (hs ++ [h]). split; [apply (mstep_of_step typed s hs (XoCreate tid m [] via_arch) s1 (RHandle h) E)|].
    split; [apply TI_set_log; exact HT1|]. rewrite app_length. reflexivity.
  - (* destroyNow *)
    destruct (s_destroy_now cis s hs al x tid k HS HT) as (s1 & E & HT1).
    exists (set_log s1 []), hs. split; [apply (mstep_of_step typed s hs (XoDestroyNow tid k) s1 RNone E)|].
    split; [apply TI_set_log; exact HT1|lia].
  - (* assign *)
    apply andb_true_iff in Ha. destruct Ha as (Hc & _). apply Nat.ltb_lt in Hc. cbn [reg_b] in Hr. apply Nat.ltb_lt in Hr.
    simpl in Eooc. rewrite Hxl in Eooc. apply negb_false_iff in Eooc.
    destruct (s_assign cis s hs al x tid k c v typed HS HT Hc Hr Eooc) as (s1 & E & HT1); [lia|].
    exists (set_log s1 []), hs. split; [apply (mstep_of_step typed s hs (XoAssign tid k c v) s1 RNone E)|].
    split; [apply TI_set_log; exact HT1|lia].
  - (* removeComponent *)
    simpl in Eooc. rewrite Hxl in Eooc.
    destruct (s_remove cis s hs al x tid k c typed0 HS HT) as (s1 & E & HT1).
    { destruct typed0; [left; reflexivity|right]. simpl in Eooc. apply negb_false_iff in Eooc. exact Eooc. }
    exists (set_log s1 []), hs. split; [apply (mstep_of_step typed s hs (XoRemove tid k c typed0) s1 RNone E)|].
    split; [apply TI_set_log; exact HT1|lia].
  - (* assignShared *)
    simpl in Eooc. apply orb_false_iff in Eooc. destruct Eooc as (Eal & _). apply negb_false_iff in Eal.
    destruct (s_assign_shared cis s hs al x k sid v HS HT Eal) as (s1 & E & HT1).
    exists (set_log s1 []), hs. split; [apply (mstep_of_step typed s hs (XoAssignShared k sid v) s1 RNone E)|].
    split; [apply TI_set_log; exact HT1|lia].
  - (* removeShared *)
    destruct (s_remove_shared cis s hs al x k sid HS HT) as (s1 & b & E & HT1).
    exists (set_log s1 []), hs. split; [apply (mstep_of_step typed s hs (XoRemoveShared k sid) s1 (RBool b) E)|].
    split; [apply TI_set_log; exact HT1|lia].
  - (* write through getComponent *)
    apply Nat.ltb_lt in Ha.
    destruct (s_set cis s hs al x k c v HS HT Ha) as (s1 & p & w & E & HT1).
    exists (set_log s1 []), hs. split; [apply (mstep_of_step typed s hs (XoSet k c v) s1 (RCell p w) E)|].
    split; [apply TI_set_log; exact HT1|lia].
Qed.

Lemma run_total_s cis typed : forall ops s hs al x,
  SInv cis s hs al x -> TI cis s -> cis_ok cis ->
  forallb (alpha_s cis) ops = true -> forallb (reg_b cis) ops = true ->
  x_viol x = 0 -> x_viol (fold_left x_step ops x) = 0 -> within (length hs + creates ops) ->
  exists s' hs', fold_res (mstep typed) ops (s, hs) = Ok (s', hs') /\ length hs' = length hs + creates ops.
Proof.
  induction ops as [|o t IH]; intros s hs al x HS HT Hok Ha Hr Hv0 Hv1 Hb.
  - exists s, hs. split; [reflexivity|]. unfold creates. simpl. lia.
  - cbn [forallb] in Ha, Hr. apply andb_true_iff in Ha. destruct Ha as (Ho & Ht). apply andb_true_iff in Hr. destruct Hr as (Hro & Hrt).
    cbn [fold_left] in Hv1.
    assert (Hv1' : x_viol (x_step x o) = 0).
    { pose proof (x_viol_run_mono_s cis t (x_step x o) Ht). lia. }
    destruct (mstep_total_s cis typed s hs al x o HS HT Ho Hro Hv0 Hv1') as (s1 & hs1 & E1 & HT1 & Hlen1).
    rewrite creates_cons in Hb.
    destruct (SInv_step cis typed s hs al x o s1 hs1 HS Hok Ho Hv0 Hv1' E1) as (al1 & HS1).
    { eapply within_le; [|exact Hb]. lia. }
    destruct (IH s1 hs1 al1 (x_step x o) HS1 HT1 Hok Ht Hrt Hv1' Hv1) as (s' & hs' & E & Hlen).
    { eapply within_le; [|exact Hb]. lia. }
    exists s', hs'. cbn [fold_res]. rewrite E1. cbn [bind]. split; [exact E|]. rewrite creates_cons. lia.
Qed.

Theorem shared_model_run_total typed n cis ops :
  cis_ok cis -> forallb (alpha_s cis) ops = true -> forallb (reg_b cis) ops = true ->
  x_viol (xrun n cis ops) = 0 -> within (creates ops) ->
  exists s hs, mrun typed n cis ops = Ok (s, hs) /\ length hs = creates ops.
Proof.
  intros Hok Ha Hr Hv Hb. unfold mrun. unfold xrun in Hv.
  destruct (run_total_s cis typed ops (init n cis) [] [] (x_init n cis) (SInv_init n cis) (TI_init n cis) Hok Ha Hr eq_refl Hv Hb)
    as (s & hs & E & Hlen).
  exists s, hs. split; [exact E|exact Hlen].
Qed.

Theorem shared_refines_total typed n cis ops :
  cis_ok cis -> forallb (alpha_s cis) ops = true -> forallb (reg_b cis) ops = true ->
  x_viol (xrun n cis ops) = 0 -> within (creates ops) ->
  refines_on typed n cis ops = true.
Proof.
  intros Hok Ha Hr Hv Hb. destruct (shared_model_run_total typed n cis ops Hok Ha Hr Hv Hb) as (s & hs & E & Hlen).
  apply (shared_refines_on typed n cis ops s hs Hok Ha E Hv). rewrite Hlen. exact Hb.
Qed.

Theorem shared_refinement_total typed n cis ops :
  cis_ok cis -> forallb (alpha_s cis) ops = true -> forallb (reg_b cis) ops = true ->
  x_viol (xrun n cis ops) = 0 -> within (creates ops) ->
  exists s hs, mrun typed n cis ops = Ok (s, hs) /\ length hs = x_count (xrun n cis ops) /\
  (forall k,
    match find_ent (xrun n cis ops) k with
    | Some e => exists e', abs_ent s k (nth k hs null_handle) = Some e' /\ ent_match e e' = true
    | None => abs_ent s k (nth k hs null_handle) = None
    end) /\
  (forall k e, find_ent (xrun n cis ops) k = Some e ->
     si_wf (shared_at s (nth k hs null_handle)) /\
     forall sid v, In (sid, v) (e_shared e) <-> exists i, si_get (shared_at s (nth k hs null_handle)) sid = Some i /\ inst_value s i = v) /\
  (forall k1 e1 k2 e2 sid i1 i2, find_ent (xrun n cis ops) k1 = Some e1 -> find_ent (xrun n cis ops) k2 = Some e2 ->
     si_get (shared_at s (nth k1 hs null_handle)) sid = Some i1 -> si_get (shared_at s (nth k2 hs null_handle)) sid = Some i2 ->
     (inst_value s i1 = inst_value s i2 <-> i1 = i2)).
Proof.
  intros Hok Ha Hr Hv Hb. destruct (shared_model_run_total typed n cis ops Hok Ha Hr Hv Hb) as (s & hs & E & Hlen).
  assert (Hb' : within (length hs)) by (rewrite Hlen; exact Hb).
  exists s, hs. split; [exact E|].
  destruct (shared_refinement typed n cis ops s hs Hok Ha E Hv Hb') as (Hc & Hk).
  split; [exact Hc|]. split; [exact Hk|]. apply (shared_instances typed n cis ops s hs Hok Ha E Hv Hb').
Qed.
