(* The refinement relation between a Skeleton run and the liveness specification (C01), and the step lemmas
   for the operations issued while the manager is not locked. *)
Require Import Coq.Lists.List Coq.NArith.NArith Coq.Arith.Arith Coq.Bool.Bool Coq.micromega.Lia.
From Mustache Require Import Res Skeleton SkelSpec SkelRun.
From Mustache.proofs Require Import ListLemmas SkelBasics SkelInv SkelSteps.
Import ListNotations.

(* ---- from model commands (handles) to specification commands (issue numbers) ---- *)
Fixpoint kidx (hs : list handle) (h : handle) : option nat :=
  match hs with
  | [] => None
  | x :: t => if handle_eqb x h then Some 0 else option_map S (kidx t h)
  end.

Definition abs_cmd (hs : list handle) (c : cmd) : option scmd :=
  match c with
  | CCreate h key => option_map (fun k => SCreate k key) (kidx hs h)
  | CDestroy h => option_map SDestroy (kidx hs h)
  | CDestroyNow h => option_map SDestroyNow (kidx hs h)
  end.

Fixpoint filter_map {A B} (f : A -> option B) (l : list A) : list B :=
  match l with [] => [] | x :: t => match f x with Some y => y :: filter_map f t | None => filter_map f t end end.

Definition abs_buf (hs : list handle) (b : list cmd) : list scmd := filter_map (abs_cmd hs) b.

Definition wf_cmd (hs : list handle) (c : cmd) : Prop :=
  match c with
  | CCreate h _ => In h hs
  | CDestroy h | CDestroyNow h => h = null_handle \/ In h hs
  end.

Lemma kidx_some hs h k : kidx hs h = Some k -> k < length hs /\ hnd hs k = h.
Proof.
  revert k. induction hs as [|x t IH]; intros k H; simpl in H; [discriminate|].
  destruct (handle_eqb x h) eqn:E.
  - inversion H; subst. apply handle_eqb_eq in E. simpl. split; [lia|assumption].
  - destruct (kidx t h) as [k'|]; [|discriminate]. simpl in H. inversion H; subst. destruct (IH k' eq_refl). simpl. split; [lia|assumption].
Qed.

Lemma kidx_none hs h : kidx hs h = None -> ~ In h hs.
Proof.
  induction hs as [|x t IH]; simpl; intros H; [tauto|]. destruct (handle_eqb x h) eqn:E; [discriminate|].
  destruct (kidx t h); [discriminate|]. intros [Hx|Hin]; [|apply IH; auto].
  apply handle_eqb_eq in Hx. congruence.
Qed.

Lemma kidx_hnd hs k : NoDup hs -> k < length hs -> kidx hs (hnd hs k) = Some k.
Proof.
  intros Hnd Hk. destruct (kidx hs (hnd hs k)) as [k'|] eqn:E.
  - destruct (kidx_some _ _ _ E) as (Hk' & Eh). f_equal. unfold hnd in Eh. apply (proj1 (NoDup_nth hs null_handle) Hnd); assumption.
  - exfalso. apply (kidx_none _ _ E). apply nth_In_hnd. assumption.
Qed.

Lemma kidx_app hs l h : In h hs -> kidx (hs ++ l) h = kidx hs h.
Proof.
  induction hs as [|x t IH]; simpl; intros H; [contradiction|]. destruct (handle_eqb x h) eqn:E; [reflexivity|].
  destruct H as [Hx|Hin]; [apply handle_eqb_eq in Hx; congruence|]. rewrite IH by assumption. reflexivity.
Qed.

Lemma kidx_app_none hs l h : ~ In h (hs ++ l) -> kidx (hs ++ l) h = None.
Proof. intros H. destruct (kidx (hs ++ l) h) as [k|] eqn:E; [|reflexivity]. destruct (kidx_some _ _ _ E) as (Hk & Eh). exfalso. apply H. rewrite <- Eh. apply nth_In_hnd. assumption. Qed.

Lemma abs_cmd_app hs l c : wf_cmd hs c -> ~ In null_handle (hs ++ l) -> abs_cmd (hs ++ l) c = abs_cmd hs c.
Proof.
  intros Hwf Hnn. assert (Hnn' : ~ In null_handle hs) by (intros H; apply Hnn; apply in_or_app; auto).
  destruct c as [h key|h|h]; simpl in *.
  - rewrite kidx_app by assumption. reflexivity.
  - destruct Hwf as [->|Hin]; [|rewrite kidx_app by assumption; reflexivity].
    rewrite kidx_app_none by assumption. destruct (kidx hs null_handle) eqn:E; [|reflexivity]. destruct (kidx_some _ _ _ E) as (A & B). exfalso. apply Hnn'. rewrite <- B. apply nth_In_hnd. assumption.
  - destruct Hwf as [->|Hin]; [|rewrite kidx_app by assumption; reflexivity].
    rewrite kidx_app_none by assumption. destruct (kidx hs null_handle) eqn:E; [|reflexivity]. destruct (kidx_some _ _ _ E) as (A & B). exfalso. apply Hnn'. rewrite <- B. apply nth_In_hnd. assumption.
Qed.

Lemma abs_buf_app hs l b : Forall (wf_cmd hs) b -> ~ In null_handle (hs ++ l) -> abs_buf (hs ++ l) b = abs_buf hs b.
Proof.
  intros Hwf Hnn. induction Hwf as [|c t Hc Ht IH]; [reflexivity|]. unfold abs_buf in *. simpl. rewrite abs_cmd_app by assumption. rewrite IH. reflexivity.
Qed.

Lemma filter_map_app {A B} (f : A -> option B) l1 l2 : filter_map f (l1 ++ l2) = filter_map f l1 ++ filter_map f l2.
Proof. induction l1 as [|x t IH]; simpl; [reflexivity|]. destruct (f x); simpl; rewrite IH; reflexivity. Qed.

(* in a buffer no command mentions a handle before the command that creates it *)
Definition creates_first (b : list cmd) : Prop :=
  forall b1 h key b2, b = b1 ++ CCreate h key :: b2 -> forall c, In c b1 -> cmd_handle c <> h.

(* ---- the relation ---- *)
Definition created (rem : list scmd) : list nat :=
  filter_map (fun c => match c with SCreate k _ => Some k | _ => None end) rem.

Record R (s : st) (hs : list handle) (sp : sst) : Prop := {
  r_G : G s hs (sp_alive sp) (concat (sp_bufs sp));
  r_count : length hs = sp_count sp;
  r_lock : lockc s = sp_lock sp;
  r_nthr : nthreads s = sp_nthr sp;
  r_bufs : sp_bufs sp = map (abs_buf hs) (bufs s);
  r_wf : Forall (Forall (wf_cmd hs)) (bufs s);
  r_unlocked : sp_lock sp = 0 -> Forall (fun b => b = []) (bufs s);
  r_created : NoDup (created (concat (sp_bufs sp)));
  r_marked_in : forall h, In h (marked s) -> h = null_handle \/ In h hs;
  r_marked_lt : forall k, In k (sp_marked sp) -> k < length hs;
  r_marked : forall k, k < length hs -> (In (hnd hs k) (marked s) <-> In k (sp_marked sp));
  r_slots : length (slots s) <= length hs;
  r_eid : sp_lock sp <> 0 -> (N.of_nat (length (slots s)) <= next_eid s)%N /\ (next_eid s <= N.of_nat (length hs))%N /\
                             forall h, In h hs -> (fst h < next_eid s)%N;
  r_cf : Forall creates_first (bufs s)
}.

Definition BOUND : N := 16777000%N.     (* below 2^24 - 2: the version field does not wrap within this many creations *)
Definition within (n : nat) : Prop := (N.of_nat n < BOUND)%N.

Lemma bound_ver n : within n -> (N.of_nat n + 1 < NULL_VER)%N.
Proof. unfold within, BOUND, NULL_VER. intros H. lia. Qed.
Lemma bound_id n : within n -> (N.of_nat n < NULL_ID)%N.
Proof. unfold within, BOUND, NULL_ID. intros H. lia. Qed.
Lemma within_le n m : n <= m -> within m -> within n.
Proof. unfold within. intros H1 H2. lia. Qed.

(* ---- small facts about the relation ---- *)
Lemma all_nil_concat {A} (l : list (list A)) : Forall (fun b => b = []) l -> concat l = [].
Proof. induction 1 as [|x t Hx Ht IH]; simpl; [reflexivity|]. subst. assumption. Qed.

Lemma all_nil_map_abs hs (l : list (list cmd)) : Forall (fun b => b = []) l -> Forall (fun b => b = []) (map (abs_buf hs) l).
Proof. induction 1 as [|x t Hx Ht IH]; simpl; constructor; [subst; reflexivity|assumption]. Qed.

Lemma all_nil_map_abs_eq hs hs' (l : list (list cmd)) : Forall (fun b => b = []) l -> map (abs_buf hs') l = map (abs_buf hs) l.
Proof. induction 1 as [|x t Hx Ht IH]; simpl; [reflexivity|]. subst. rewrite IH. reflexivity. Qed.

Lemma all_nil_wf hs (l : list (list cmd)) : Forall (fun b => b = []) l -> Forall (Forall (wf_cmd hs)) l.
Proof. induction 1 as [|x t Hx Ht IH]; constructor; [subst; constructor|assumption]. Qed.

Lemma R_rem_nil s hs sp : R s hs sp -> sp_lock sp = 0 -> concat (sp_bufs sp) = [].
Proof. intros HR Hl. rewrite (r_bufs _ _ _ HR). apply all_nil_concat. apply all_nil_map_abs. apply (r_unlocked _ _ _ HR Hl). Qed.

Lemma resolve_hnd hs k : resolve hs k = hnd hs k.
Proof. reflexivity. Qed.

Lemma hnd_not_null {X} s hs al rem k : GE X s hs al rem -> k < length hs -> hnd hs k <> null_handle.
Proof. intros HG Hk E. pose proof (g_hs_ver HG _ (nth_In_hnd hs k Hk)) as Hv. rewrite E in Hv. simpl in Hv. unfold NULL_VER in Hv. lia. Qed.

Lemma null_not_in {X} s hs al rem : GE X s hs al rem -> ~ In null_handle hs.
Proof. intros HG Hin. pose proof (g_hs_ver HG _ Hin) as Hv. simpl in Hv. unfold NULL_VER in Hv. lia. Qed.

Lemma forallb_negb_existsb {A} (f : A -> bool) l : forallb (fun x => negb (f x)) l = negb (existsb f l).
Proof. induction l as [|x t IH]; simpl; [reflexivity|]. rewrite IH, negb_orb. reflexivity. Qed.

(* ---- Create, not locked ---- *)
Lemma R_create_unlocked s hs sp tid key s' h :
  R s hs sp -> sp_lock sp = 0 -> within (S (length hs)) ->
  step s (Create tid key) = Ok (s', Some h) -> R s' (hs ++ [h]) (spec_step sp (SoCreate tid key)).
Proof.
  intros HR Hl0 Hb H. pose proof (R_rem_nil _ _ _ HR Hl0) as Hrem.
  destruct HR as [HG Hc Hl Hn Hbf Hwf Hu Hcr Hmi Hml Hm Hs He Hcf]. rewrite Hrem in HG.
  unfold step in H. rewrite Hl, Hl0 in H. destruct (get_arch s key) as [s1 ai] eqn:Ega.
  destruct (get_arch_G s hs _ _ key s1 ai HG Ega) as (HG1 & (a & Ha & Hk) & Es & El & En & Ee & Hctl1).
  apply bind_ok in H. destruct H as ((s2, h2) & Hci & H). apply bind_ok in H. destruct H as (s3 & Hai & H). inversion H; subst s3 h2; clear H.
  assert (Hidb : (N.of_nat (length (slots s1)) < NULL_ID)%N).
  { rewrite Es. apply bound_id. eapply within_le; [|exact Hb]. lia. }
  destruct (G_create s1 hs _ ai a key s2 h s' HG1 Ha Hk Hidb Hci Hai) as (HG3 & Hctl3 & Hs3 & Hs3').
  pose proof (same_ctl_trans _ _ _ Hctl1 Hctl3) as (C1 & C2 & C3 & C4 & C5).
  unfold spec_step. rewrite Hl0. simpl.
  constructor; simpl.
  - rewrite Hrem. rewrite <- Hc. exact HG3.
  - rewrite app_length. simpl. lia.
  - congruence.
  - congruence.
  - rewrite C3, Hbf. symmetry. apply all_nil_map_abs_eq. auto.
  - rewrite C3. apply all_nil_wf. auto.
  - intros _. rewrite C3. auto.
  - rewrite Hrem. constructor.
  - intros h' Hin. rewrite C4 in Hin. destruct (Hmi h' Hin); [left; assumption|right; apply in_or_app; auto].
  - intros k Hk'. rewrite app_length. simpl. pose proof (Hml k Hk'). lia.
  - intros k Hk'. rewrite app_length in Hk'. simpl in Hk'. rewrite C4. destruct (Nat.eq_dec k (length hs)) as [->|Hne].
    + rewrite hnd_app_last. split.
      * intros Hin. exfalso. destruct (Hmi h Hin) as [E|Hin'].
        -- eapply (null_not_in _ _ _ _ HG3). rewrite <- E. apply in_or_app. right. left. reflexivity.
        -- pose proof (g_hs_nodup HG3) as Hnd. apply NoDup_remove_2 in Hnd. rewrite app_nil_r in Hnd. contradiction.
      * intros Hin. pose proof (Hml _ Hin). lia.
    + rewrite hnd_app1 by lia. apply Hm. lia.
  - rewrite app_length. simpl. rewrite Es in Hs3. lia.
  - intros Hne. contradiction.
  - rewrite C3. assumption.
Qed.

(* ---- Destroy, not locked: the request waits for update() ---- *)
Lemma R_destroy_unlocked s hs sp tid k s' :
  R s hs sp -> sp_lock sp = 0 ->
  step s (Destroy tid (resolve hs k)) = Ok (s', None) -> R s' hs (spec_step sp (SoDestroy tid k)).
Proof.
  intros HR Hl0 H. destruct HR as [HG Hc Hl Hn Hbf Hwf Hu Hcr Hmi Hml Hm Hs He Hcf].
  unfold step in H. rewrite Hl, Hl0 in H. inversion H; subst s'; clear H. rewrite resolve_hnd.
  unfold spec_step. rewrite <- Hc. destruct (Nat.ltb_spec k (length hs)) as [Hk|Hk]; simpl.
  - rewrite Hl0. constructor; simpl; try assumption.
    + eapply G_same_core; [| | | | |exact HG]; reflexivity.
    + intros h Hin. apply set_insert_in in Hin. destruct Hin as [->|Hin]; [right; apply nth_In_hnd; assumption|auto].
    + intros k' [<-|Hin]; [assumption|auto].
    + intros k' Hk'. rewrite set_insert_in. split.
      * intros [E|Hin]; [left; symmetry; eapply (hnd_inj s hs _ _); eauto|right; apply Hm; assumption].
      * intros [<-|Hin]; [left; reflexivity|right; apply Hm; assumption].
  - rewrite hnd_beyond by assumption. constructor; simpl; try assumption.
    + eapply G_same_core; [| | | | |exact HG]; reflexivity.
    + intros h Hin. apply set_insert_in in Hin. destruct Hin as [->|Hin]; [left; reflexivity|auto].
    + intros k' Hk'. rewrite set_insert_in. split.
      * intros [E|Hin]; [exfalso; eapply (hnd_not_null s hs); eauto|apply Hm; assumption].
      * intros Hin. right. apply Hm; assumption.
Qed.

(* ---- DestroyNow, not locked ---- *)
Lemma R_destroy_now_unlocked s hs sp tid k s' :
  R s hs sp -> sp_lock sp = 0 -> within (length hs) ->
  step s (DestroyNow tid (resolve hs k)) = Ok (s', None) -> R s' hs (spec_step sp (SoDestroyNow tid k)).
Proof.
  intros HR Hl0 Hb H. destruct HR as [HG Hc Hl Hn Hbf Hwf Hu Hcr Hmi Hml Hm Hs He Hcf].
  unfold step in H. rewrite Hl, Hl0 in H. apply bind_ok in H. destruct H as (s1 & H1 & H). inversion H; subst s1; clear H.
  rewrite resolve_hnd in H1.
  unfold spec_step. rewrite <- Hc. destruct (Nat.ltb_spec k (length hs)) as [Hk|Hk]; simpl.
  - rewrite Hl0. destruct (G_destroy_now s s' hs _ _ k HG Hk (bound_ver _ Hb) H1) as (HG1 & (C1 & C2 & C3 & C4 & C5) & Hlen).
    constructor; simpl; try assumption; try congruence.
    + rewrite C3. assumption.
    + rewrite C4. assumption.
    + rewrite C4. assumption.
  - rewrite hnd_beyond in H1 by assumption. unfold destroy_now_unlocked in H1. rewrite is_valid_null in H1. inversion H1; subst s'.
    constructor; assumption.
Qed.

(* ---- clearArchetype (the model allows it in any lock state) ---- *)
Lemma R_clear_arch s hs sp key s' :
  R s hs sp -> within (length hs) ->
  step s (ClearArch key) = Ok (s', None) -> R s' hs (spec_step sp (SoClearArch key)).
Proof.
  intros HR Hb H. destruct HR as [HG Hc Hl Hn Hbf Hwf Hu Hcr Hmi Hml Hm Hs He Hcf].
  unfold step in H. destruct (get_arch s key) as [s1 ai] eqn:Ega.
  destruct (get_arch_G s hs _ _ key s1 ai HG Ega) as (HG1 & (a & Ha & Hk) & Es & El & En & Ee & Hctl1).
  apply bind_ok in H. destruct H as (s2 & Hca & H). inversion H; subst s2; clear H.
  destruct (G_clear_arch s1 s' hs _ _ ai a HG1 Ha (bound_ver _ Hb) Hca) as (HG2 & Hctl2 & Hlen).
  pose proof (same_ctl_trans _ _ _ Hctl1 Hctl2) as (C1 & C2 & C3 & C4 & C5).
  unfold spec_step. rewrite Hk in HG2.
  constructor; simpl; try assumption; try congruence; rewrite ?C3, ?C4; try assumption.
  intros Hne. rewrite C2, Hlen, Es. apply He. assumption.
Qed.

(* ---- update(), not locked ---- *)
Lemma R_update s hs sp s' :
  R s hs sp -> sp_lock sp = 0 -> within (length hs) ->
  step s Update = Ok (s', None) -> R s' hs (spec_step sp SoUpdate).
Proof.
  intros HR Hl0 Hb H. destruct HR as [HG Hc Hl Hn Hbf Hwf Hu Hcr Hmi Hml Hm Hs He Hcf].
  unfold step in H. rewrite Hl, Hl0 in H. apply bind_ok in H. destruct H as (s1 & H1 & H). inversion H; subst s'; clear H.
  assert (Hmi' : forall h, In h (marked s) -> h = null_handle \/ exists k, k < length hs /\ hnd hs k = h).
  { intros h Hin. destruct (Hmi h Hin) as [E|Hin']; [left; assumption|right; apply In_hnd; assumption]. }
  destruct (G_destroy_list hs _ (marked s) s _ s1 HG (bound_ver _ Hb) Hmi' H1) as (HG1 & (C1 & C2 & C3 & C4 & C5) & Hlen).
  assert (Eal : filter (not_in_marked hs (marked s)) (sp_alive sp) = fold_left kill (sp_marked sp) (sp_alive sp)).
  { rewrite fold_kill_filter. apply filter_ext_in. intros [k key] Hin. unfold not_in_marked. simpl.
    rewrite forallb_negb_existsb. f_equal. destruct (g_alive HG k key Hin) as (Hk & _).
    apply eq_iff_eq_true. rewrite !existsb_exists. split.
    - intros (h & Hh & E). apply handle_eqb_eq in E. subst h. exists k. split; [apply Hm; assumption|apply Nat.eqb_refl].
    - intros (k' & Hk' & E). apply Nat.eqb_eq in E. subst k'. exists (hnd hs k). split; [apply Hm; assumption|apply handle_eqb_eq; reflexivity]. }
  unfold spec_step. simpl. rewrite <- Eal.
  constructor; simpl; try assumption; try congruence; rewrite ?C3; try assumption; try tauto.
  eapply G_same_core; [| | | | |exact HG1]; reflexivity.
Qed.
