(* C02, extended unlocked alphabet: what the structural primitives of the Manager leave alone.
   `sim s s'`: the set of entities marked for deferred destruction and the list of archetype masks are the same.
   Precondition-free frame lemmas for every primitive, then for the operations of the alphabet alpha_b. *)
Require Import Coq.Lists.List Coq.NArith.NArith Coq.ZArith.ZArith Coq.Arith.Arith Coq.Bool.Bool Coq.micromega.Lia.
From Mustache Require Import Res Manager MgrSpec Refine.
From Mustache.proofs Require Import ListLemmas SkelBasics ClosureProofs ManagerBasics ManagerMoves.
Import ListNotations.

Definition masks (l : list archetype) : list mask := map am_mask l.
Definition sim (s s' : mst) : Prop := marked s' = marked s /\ masks (archs s') = masks (archs s).

Lemma sim_refl s : sim s s. Proof. split; reflexivity. Qed.
Lemma sim_trans a b c : sim a b -> sim b c -> sim a c.
Proof. intros (A1 & A2) (B1 & B2). split; congruence. Qed.

Lemma masks_upd l ai a a' : nth_error l ai = Some a -> am_mask a' = am_mask a -> masks (upd l ai a') = masks l.
Proof.
  revert ai. induction l as [|x t IH]; intros [|n] H E; simpl in *; try discriminate.
  - inversion H; subst. rewrite E. reflexivity.
  - f_equal. apply IH; assumption.
Qed.

Lemma sim_upd s s' ai a a' : nth_error (archs s) ai = Some a -> marked s' = marked s -> archs s' = upd (archs s) ai a' ->
  am_mask a' = am_mask a -> sim s s'.
Proof. intros Ha Hm A E. split; [exact Hm|]. rewrite A. eapply masks_upd; eassumption. Qed.

Lemma sim_set_arch s ai a a' : nth_error (archs s) ai = Some a -> am_mask a' = am_mask a -> sim s (set_arch s ai a').
Proof. intros Ha E. eapply sim_upd; [exact Ha|reflexivity|reflexivity|exact E]. Qed.

Lemma sim_olog s s' : olog s s' -> sim s s'.
Proof. intros (F & A). split; [apply (f_equal marked) in F; exact F|rewrite A; reflexivity]. Qed.

Lemma sim_fr1 s s' : fr1 s' = fr1 s -> marked s' = marked s.
Proof. intros F. apply (f_equal marked) in F. exact F. Qed.

Lemma sim_if_emit (b : bool) s e : sim s (if b then emit s e else s).
Proof. apply sim_olog. apply olog_if. Qed.

Lemma sim_set_locs s l : sim s (set_locs s l).
Proof. split; reflexivity. Qed.

Lemma fold_sim {A} (f : mst -> A -> res mst) l s s' :
  (forall st x st', f st x = Ok st' -> sim st st') -> fold_res f l s = Ok s' -> sim s s'.
Proof.
  intros Hf H. apply (fold_res_inv f (fun st => sim s st) l s s'); [apply sim_refl| |assumption].
  intros x st st' _ HP Hx. eapply sim_trans; [exact HP|]. eapply Hf. eassumption.
Qed.

(* ---- primitives ---- *)
Lemma write_cell_sim s ai ci slot v s' : write_cell s ai ci slot v = Ok s' -> sim s s'.
Proof. intros H. apply write_cell_ok in H. destruct H as (a & Ha & ->). eapply sim_set_arch; [exact Ha|reflexivity]. Qed.

Lemma update_location_sim s h l s' : update_location s h l = Ok s' -> sim s s'.
Proof. intros H. apply update_location_ok in H. destruct H as (_ & ->). apply sim_set_locs. Qed.

Lemma push_back_sim s ai h s1 idx : push_back s ai h = Ok (s1, idx) -> sim s s1.
Proof.
  intros H. unfold push_back in H. bd H a Ha. apply nth_res_ok in Ha.
  bd H a1 Ha1. apply vs_emplace_ok in Ha1. destruct Ha1 as (g & c & ->). inversion H; subst; clear H.
  eapply sim_set_arch; [exact Ha|reflexivity].
Qed.

Lemma construct_default_sim s ai c ci slot h udv s' : construct_default s ai c ci slot h udv = Ok s' -> sim s s'.
Proof.
  intros H. unfold construct_default in H. bd H inf Hinf. bd H s1 Hs1. inversion H; subst s'; clear H.
  eapply sim_trans; [|apply sim_if_emit].
  destruct (ci_create inf) as [v|].
  - bd Hs1 s2 Hs2. inversion Hs1; subst s1. eapply sim_trans; [eapply write_cell_sim; exact Hs2|apply sim_if_emit].
  - destruct (ci_default inf) as [v|].
    + destruct udv; [eapply write_cell_sim; exact Hs1|inversion Hs1; apply sim_refl].
    + inversion Hs1. apply sim_refl.
Qed.

Lemma call_destructor_sim s ai slot s' : call_destructor s ai slot = Ok s' -> sim s s'.
Proof.
  intros H. pose proof H as H0. unfold call_destructor in H. bd H a Ha. apply nth_res_ok in Ha.
  destruct (call_destructor_ok _ _ _ _ _ Ha H0) as (F & A). eapply sim_upd; [exact Ha|apply sim_fr1; exact F|exact A|reflexivity].
Qed.

Lemma pop_back_sim s ai s' : pop_back s ai = Ok s' -> sim s s'.
Proof.
  intros H. pose proof H as H0. unfold pop_back in H. bd H a Ha. apply nth_res_ok in Ha.
  destruct (pop_back_ok _ _ _ _ Ha H0) as (F & A). eapply sim_upd; [exact Ha|apply sim_fr1; exact F|exact A|reflexivity].
Qed.

Lemma vs_set_chunk_mask a v ch a' : vs_set_chunk a v ch = Ok a' -> am_mask a' = am_mask a.
Proof. intros H. apply vs_set_chunk_ok in H. destruct H as (g & c & ->). reflexivity. Qed.

Lemma internal_move_sim s ai src dst s' : internal_move s ai src dst = Ok s' -> sim s s'.
Proof.
  intros H. unfold internal_move in H. bd H a Ha. clear Ha. cbv zeta in H.
  bd H s1 Hs1.
  assert (S1 : sim s s1).
  { eapply fold_sim; [|exact Hs1]. intros st (ci, c) st' Hf. cbv beta iota in Hf. bd Hf inf Hinf. bd Hf a' Ha'. apply nth_res_ok in Ha'.
    cbv zeta in Hf. inversion Hf; subst st'. eapply sim_trans; [|apply sim_if_emit]. eapply sim_set_arch; [exact Ha'|reflexivity]. }
  bd H a1 Ha1. apply nth_res_ok in Ha1. bd H src_e Hsrc. bd H dst_e Hdst. bd H csrc Hcs. bd H cdst Hcd.
  bd H a2 Ha2. apply vs_set_chunk_mask in Ha2. bd H a3 Ha3. apply vs_set_chunk_mask in Ha3. cbv zeta in H.
  bd H s3 Hs3. apply update_location_sim in Hs3. bd H s4 Hs4. apply update_location_sim in Hs4.
  bd H a4 Ha4. apply nth_res_ok in Ha4. apply call_destructor_sim in H.
  eapply sim_trans; [exact S1|]. eapply sim_trans; [|exact H].
  eapply sim_trans; [|eapply sim_set_arch; [exact Ha4|reflexivity]].
  eapply sim_trans; [|exact Hs4]. eapply sim_trans; [|exact Hs3].
  eapply sim_set_arch; [exact Ha1|congruence].
Qed.

Lemma arch_remove_sim s ai idx h skip s' : arch_remove s ai idx h skip = Ok s' -> sim s s'.
Proof.
  intros H. unfold arch_remove in H. bd H a Ha. clear Ha. cbv zeta in H. bd H ent0 Hent. clear Hent.
  bd H s1 Hs1.
  assert (S1 : sim s s1).
  { apply sim_olog. eapply fold_olog; [|exact Hs1]. intros st c st' Hf. bd Hf inf Hinf. inversion Hf. apply olog_if. }
  eapply sim_trans; [exact S1|]. destruct (am_size a) as [|last]; [discriminate|].
  destruct (Nat.eqb idx last).
  - bd H s2 Hs2.
    assert (S2 : sim s1 s2) by (destruct (any_destroy s1 (am_mask a)); [eapply call_destructor_sim|eapply pop_back_sim]; eassumption).
    bd H a2 Ha2. apply nth_res_ok in Ha2. bd H ch Hch. bd H a3 Ha3. apply vs_set_chunk_mask in Ha3.
    apply update_location_sim in H. eapply sim_trans; [exact S2|]. eapply sim_trans; [|exact H].
    eapply sim_set_arch; [exact Ha2|exact Ha3].
  - eapply internal_move_sim. exact H.
Qed.

Lemma external_move_sim s ai h prev pidx skip s' : external_move s ai h prev pidx skip = Ok s' -> sim s s'.
Proof.
  intros H. unfold external_move in H. destruct (Nat.eqb ai prev); [discriminate|].
  bd H r Hr. destruct r as (s1, idx). apply push_back_sim in Hr. cbv beta iota in H.
  bd H a Ha. clear Ha. bd H pa Hpa. clear Hpa. cbv zeta in H. bd H s2 Hs2.
  assert (S2 : sim s1 s2).
  { eapply fold_sim; [|exact Hs2]. intros st (ci, c) st' Hf. cbv beta iota in Hf. bd Hf inf Hinf. bd Hf pa' Hpa'.
    destruct (cindex (am_mask pa') c) as [pci|].
    - destruct (Nat.ltb pidx (am_size pa')); [|discriminate]. bd Hf st1 Hw. inversion Hf; subst st'.
      eapply sim_trans; [eapply write_cell_sim; exact Hw|apply sim_if_emit].
    - match type of Hf with (if ?b then _ else _) = _ => destruct b end.
      + eapply construct_default_sim. exact Hf.
      + inversion Hf. apply sim_refl. }
  bd H pa2 Hpa2. bd H pent Hpent. bd H s3 Hs3. apply arch_remove_sim in Hs3. apply update_location_sim in H.
  eapply sim_trans; [exact Hr|]. eapply sim_trans; [exact S2|]. eapply sim_trans; [exact Hs3|exact H].
Qed.

Lemma arch_insert_sim s ai h skip s' : arch_insert s ai h skip = Ok s' -> sim s s'.
Proof.
  intros H. unfold arch_insert in H. bd H r Hr. destruct r as (s1, idx). apply push_back_sim in Hr. cbv beta iota in H.
  bd H a Ha. clear Ha. cbv zeta in H. bd H s2 Hs2.
  assert (S2 : sim s1 s2).
  { destruct (skip =? am_mask a)%N; [inversion Hs2; apply sim_refl|].
    bd Hs2 s15 Hf1. eapply sim_trans.
    - eapply fold_sim; [|exact Hf1]. intros st (ci, c) st' Hf. cbv beta iota in Hf. bd Hf inf Hinf.
      destruct (_ || ci_aa inf); [|inversion Hf; apply sim_refl].
      destruct (_ || negb (mhas skip c)); [eapply construct_default_sim; exact Hf|inversion Hf; apply sim_refl].
    - eapply fold_sim; [|exact Hs2]. intros st (ci, c) st' Hf. cbv beta iota in Hf. bd Hf inf Hinf.
      destruct (_ || ci_aa inf); [inversion Hf; apply sim_refl|].
      destruct (ci_default inf) as [v|]; [|inversion Hf; apply sim_refl].
      destruct (_ || negb (mhas skip c)); [eapply write_cell_sim; exact Hf|inversion Hf; apply sim_refl]. }
  bd H a2 Ha2. apply nth_res_ok in Ha2. bd H a3 Ha3. apply vs_emplace_ok in Ha3. destruct Ha3 as (g & cv & ->).
  apply update_location_sim in H.
  eapply sim_trans; [exact Hr|]. eapply sim_trans; [exact S2|]. eapply sim_trans; [|exact H].
  eapply sim_set_arch; [exact Ha2|reflexivity].
Qed.

Lemma create_id_sim s s2 h : create_id s = Ok (s2, h) -> sim s s2.
Proof.
  unfold create_id. destruct (empty_slots s) as [|e].
  - intros H. inversion H. split; reflexivity.
  - intros H. bd H sl Hsl. bd H ls Hls. inversion H. split; reflexivity.
Qed.

Lemma release_id_sim s h : sim s (release_id s h).
Proof. split; reflexivity. Qed.

Lemma destroy_now_sim s h s' : destroy_now_unlocked s h = Ok s' -> sim s s'.
Proof.
  unfold destroy_now_unlocked. destruct (is_valid s h); [|intros H; inversion H; apply sim_refl].
  intros H. bd H l Hl. bd H s1 Hs1. inversion H; subst s'. eapply sim_trans; [|apply release_id_sim].
  destruct (l_arch l) as [ai|]; [eapply arch_remove_sim; exact Hs1|inversion Hs1; apply sim_refl].
Qed.

(* ---- masks below the width of the bitset ---- *)
Definition mok (m : mask) : Prop := forall c, mhas m c = true -> c < MASK_BITS.
Definition Mok (s : mst) : Prop := Forall mok (masks (archs s)).

Lemma sim_Mok s s' : sim s s' -> Mok s -> Mok s'.
Proof. intros (_ & E) H. unfold Mok. rewrite E. exact H. Qed.

Lemma Mok_nth s ai a : Mok s -> nth_error (archs s) ai = Some a -> mok (am_mask a).
Proof.
  intros H Ha. unfold Mok in H. rewrite Forall_forall in H. apply H. unfold masks. apply in_map. eapply nth_error_In. exact Ha.
Qed.

Lemma mok_madd m c : mok m -> c < MASK_BITS -> mok (madd m c).
Proof. intros H Hc x Hx. rewrite mhas_madd in Hx. destruct (Nat.eq_dec x c) as [E|E]; [subst x; exact Hc|]. apply H. apply Nat.eqb_neq in E. rewrite E in Hx. exact Hx. Qed.

Lemma mok_mdel m c : mok m -> mok (mdel m c).
Proof. intros H x Hx. rewrite mhas_mdel in Hx. apply andb_true_iff in Hx. apply H. tauto. Qed.

Lemma mok_zero : mok 0%N.
Proof. intros c Hc. rewrite mhas_zero in Hc. discriminate. Qed.

Lemma get_arch_frame s m sh s1 ai : deps s = [] -> get_arch s m sh = Ok (s1, ai) ->
  marked s1 = marked s /\ (Mok s -> mok m -> Mok s1) /\
  (masks (archs s1) = masks (archs s) \/ masks (archs s1) = masks (archs s) ++ [m]).
Proof.
  intros Hd H. destruct (get_arch_ok _ _ _ _ _ Hd H) as [(-> & _)|(_ & _ & cs & ->)].
  - split; [reflexivity|]. split; [auto|left; reflexivity].
  - split; [reflexivity|]. split.
    + intros HM Hm. unfold Mok, masks. simpl. rewrite map_app. apply Forall_app. split; [exact HM|]. constructor; [exact Hm|constructor].
    + right. unfold masks. simpl. rewrite map_app. reflexivity.
Qed.

(* ---- the operations of alpha_b ---- *)
Lemma assign_unlocked_frame s h c sk s' r : deps s = [] -> assign_unlocked s h c sk = Ok (s', r) ->
  marked s' = marked s /\ (Mok s -> c < MASK_BITS -> Mok s').
Proof.
  intros Hd H. unfold assign_unlocked in H. bd H la Hla. destruct la as (pai, pidx). cbv beta iota in H.
  bd H pa Hpa. apply nth_res_ok in Hpa. cbv zeta in H. bd H rg Hga. destruct rg as (s1, ai). cbv beta iota in H.
  destruct (get_arch_frame _ _ _ _ _ Hd Hga) as (M1 & K1 & _).
  bd H s2 Hmv. apply external_move_sim in Hmv. bd H a Ha. bd H l Hl.
  destruct (cindex (am_mask a) c); [|discriminate]. inversion H; subst s' r; clear H.
  split; [rewrite (proj1 Hmv); exact M1|]. intros HM Hc. eapply sim_Mok; [exact Hmv|]. apply K1; [exact HM|].
  apply mok_madd; [|exact Hc]. eapply Mok_nth; eassumption.
Qed.

Lemma remove_unlocked_frame s h c s' : deps s = [] -> remove_unlocked s h c = Ok s' ->
  marked s' = marked s /\ (Mok s -> Mok s').
Proof.
  intros Hd H. unfold remove_unlocked in H. bd H l Hl. destruct (l_arch l) as [pai|]; [|inversion H; auto].
  bd H pa Hpa. apply nth_res_ok in Hpa. destruct (negb (mhas (am_mask pa) c)); [inversion H; auto|].
  bd H rg Hga. destruct rg as (s1, ai). cbv beta iota in H.
  destruct (get_arch_frame _ _ _ _ _ Hd Hga) as (M1 & K1 & _).
  assert (K : Mok s -> Mok s1) by (intros HM; apply K1; [exact HM|]; apply mok_mdel; eapply Mok_nth; eassumption).
  destruct (Nat.eqb ai pai); [inversion H; subst s'; auto|].
  apply external_move_sim in H. split; [rewrite (proj1 H); exact M1|]. intros HM. eapply sim_Mok; [exact H|auto].
Qed.

Lemma get_mut_sim s h c w s' out : get_mut s h c w = Ok (s', out) -> sim s s'.
Proof.
  unfold get_mut. destruct (negb (is_valid s h)); [intros H; inversion H; apply sim_refl|].
  intros H. bd H l Hl. destruct (l_arch l) as [ai|]; [|inversion H; apply sim_refl].
  bd H a Ha. apply nth_res_ok in Ha. destruct (cindex (am_mask a) c) as [ci|]; [|inversion H; apply sim_refl].
  bd H ch Hch. bd H a1 Ha1. apply vs_set_one_ok in Ha1. destruct Ha1 as (g & cv & ->). cbv zeta in H. inversion H; subst s' out.
  eapply sim_set_arch; [exact Ha|]. destruct w; reflexivity.
Qed.

Lemma sim_set_log s l : sim s (set_log s l).
Proof. split; reflexivity. Qed.
