(* C13: the invariant of the unlocked refinement (ManagerInv.MInv) generalised to declared dependencies.
   The model state with its table erased (nd) and the specification state with its table erased (xnd) satisfy MInv;
   the two tables are EQUAL (the code stores per master the already closed set, and so does MgrSpec.x_add_dep); the
   table is well formed; the component set of every live entity is closed under the table. *)
Require Import Coq.Lists.List Coq.NArith.NArith Coq.ZArith.ZArith Coq.Arith.Arith Coq.Bool.Bool Coq.micromega.Lia.
From Mustache Require Import Res Manager MgrSpec Refine.
From Mustache Require Skeleton.
From Mustache Require Import SkelSpec.
From Mustache.proofs Require Import ListLemmas SkelBasics SkelInv SkelSteps SkelMove ClosureProofs ManagerBasics ManagerMoves ManagerProj
  ManagerInv DepsFrame DepsClosure.
Import ListNotations.

Definition nd (s : mst) : mst := sd [] s.
Definition xnd (x : xst) : xst := xw_deps x [].

Record DInv (cis : list cinfo) (s : mst) (hs : list handle) (al : list (nat * N)) (x : xst) : Prop := {
  di_M : MInv cis (nd s) hs al (xnd x);
  di_deps : deps s = x_deps x;
  di_dwf : dwf (deps s);
  di_keys : forall k key, In (k, key) al -> closed (deps s) key /\ lowm key
}.

Lemma DInv_set_log cis s hs al x l : DInv cis s hs al x -> DInv cis (set_log s l) hs al x.
Proof. intros [A B C D]. constructor; try assumption. exact (MInv_set_log cis (nd s) hs al (xnd x) l A). Qed.

(* the facts of MInv, read on the state itself *)
Lemma DInv_ctl cis s hs al x : DInv cis s hs al x ->
  lockc s = 0 /\ cinfos s = cis /\ x_lock x = 0 /\ x_cinfos x = cis /\ x_count x = length hs /\
  (forall k, alive al k <-> alive_x x k = true) /\ Forall awf (archs s).
Proof.
  intros HD. pose proof (di_M _ _ _ _ _ HD) as [HG Hawf Hl Hdp Hc Hxl Hxd Hxc Hcnt Hsl Hal Hv].
  split; [exact Hl|]. split; [exact Hc|]. split; [exact Hxl|]. split; [exact Hxc|]. split; [exact Hcnt|]. split; [exact Hal|exact Hawf].
Qed.

Lemma live_vmatch_d cis s hs al x k key e : DInv cis s hs al x -> In (k, key) al -> find_ent x k = Some e ->
  k < length hs /\ exists ai idx a,
    nth_error (locs s) (N.to_nat (fst (hnd hs k))) = Some {| l_arch := Some ai; l_idx := idx |} /\
    nth_error (archs s) ai = Some a /\ am_mask a = key /\ nth_error (am_ents a) idx = Some (hnd hs k) /\ vmatch e a idx.
Proof. intros HD Hin Hfe. exact (live_vmatch cis (nd s) hs al (xnd x) k key e (di_M _ _ _ _ _ HD) Hin Hfe). Qed.

Lemma valid_find_d cis s hs al x k : DInv cis s hs al x -> is_valid s (hnd hs k) = true ->
  k < length hs /\ alive al k /\ exists e, find_ent x k = Some e.
Proof. intros HD Hv. exact (valid_find cis (nd s) hs al (xnd x) k (di_M _ _ _ _ _ HD) Hv). Qed.

Lemma dead_find_d cis s hs al x k : DInv cis s hs al x -> is_valid s (hnd hs k) = false -> find_ent x k = None.
Proof. intros HD Hv. exact (dead_find cis (nd s) hs al (xnd x) k (di_M _ _ _ _ _ HD) Hv). Qed.

(* ---------------------------------------------------------------------------------------- *)
(* the specification's structural commands with a table *)
Lemma x_create_dep x k m T : lowm m -> closure (x_deps x) m = T -> sub m T ->
  xfr (x_create x k m []) = xfr x /\
  x_ents (x_create x k m []) =
    put_ent (x_ents x) {| e_k := k; e_comps := map (fun c => (c, default_cell (x_cinfos x) c)) (mitems T); e_shared := [] |}.
Proof.
  intros Hl HT Hsub. unfold x_create.
  set (cs0 := map (fun c => (c, default_cell (x_cinfos x) c)) (mitems m)).
  assert (Hk0 : map fst cs0 = mitems m) by (unfold cs0; rewrite map_map; simpl; apply map_id).
  destruct (widen_spec x k cs0 m T Hk0 Hl HT Hsub) as (W1 & W2).
  destruct (widen x k cs0) as [cs att]. simpl fst in W1, W2. split; [reflexivity|]. simpl. f_equal. f_equal.
  apply keyed_ext.
  - rewrite W1, map_map. simpl. symmetry. apply map_id.
  - rewrite W1. apply mitems_nodup.
  - intros c v Hin. assert (Hc : In c (mitems T)) by (rewrite <- W1; apply in_map_iff; exists (c, v); auto).
    assert (Ev : v = default_cell (x_cinfos x) c).
    { apply W2 in Hin. destruct Hin as [Hin|(_ & _ & _ & E)]; [|exact E]. unfold cs0 in Hin. apply in_map_iff in Hin.
      destruct Hin as (c' & E & _). inversion E. reflexivity. }
    subst v. apply in_map_iff. exists c. auto.
Qed.

Lemma x_assign_dep x k c v e : find_ent x k = Some e -> has_comp (e_comps e) c = false ->
  xfr (x_assign x k c v) = xfr x /\
  x_ents (x_assign x k c v) = put_ent (x_ents x)
     {| e_k := k;
        e_comps := fst (widen x k (insert_comp (e_comps e) c (match v with Some z => Some z | None => default_cell (x_cinfos x) c end)));
        e_shared := e_shared e |}.
Proof. intros Hf Hh. unfold x_assign. rewrite Hf, Hh. destruct (widen x k _) as [cs att]. split; reflexivity. Qed.

Lemma x_remove_dep x k c e : find_ent x k = Some e -> has_comp (e_comps e) c = true ->
  mhas (closure (x_deps x) (comp_mask (filter (fun p => negb (Nat.eqb (fst p) c)) (e_comps e)))) c = false ->
  xfr (x_remove x k c) = xfr x /\
  x_ents (x_remove x k c) = put_ent (x_ents x)
     {| e_k := k; e_comps := filter (fun p => negb (Nat.eqb (fst p) c)) (e_comps e); e_shared := e_shared e |}.
Proof. intros Hf Hh Hm. unfold x_remove. rewrite Hf, Hh, Hm. simpl. split; reflexivity. Qed.

Lemma x_remove_noop x k c e : find_ent x k = Some e -> has_comp (e_comps e) c = true ->
  mhas (closure (x_deps x) (comp_mask (filter (fun p => negb (Nat.eqb (fst p) c)) (e_comps e)))) c = true ->
  x_remove x k c = x.
Proof. intros Hf Hh Hm. unfold x_remove. rewrite Hf, Hh, Hm. reflexivity. Qed.

Lemma xfr_xnd y : xfr (xnd y) = xnd (xfr y). Proof. reflexivity. Qed.
Lemma x_ents_xnd y : x_ents (xnd y) = x_ents y. Proof. reflexivity. Qed.
Lemma find_ent_xnd y k : find_ent (xnd y) k = find_ent y k. Proof. reflexivity. Qed.

Lemma xnd_kill x k : x_kill (xnd x) k = xnd (x_kill x k).
Proof. unfold x_kill. change (find_ent (xnd x) k) with (find_ent x k). destruct (find_ent x k); reflexivity. Qed.

(* ---------------------------------------------------------------------------------------- *)
(* the deps field along the operations *)
Lemma write_cell_deps s ai ci slot v s' : write_cell s ai ci slot v = Ok s' -> deps s' = deps s.
Proof. intros H. apply write_cell_ok in H. destruct H as (a & _ & ->). reflexivity. Qed.

Lemma external_move_deps s ai h prev pidx skip s' : external_move s ai h prev pidx skip = Ok s' -> deps s' = deps s.
Proof. apply (comm_deps (fun st => external_move st ai h prev pidx skip)). intros d. apply external_move_sd. Qed.

Lemma arch_insert_deps s ai h skip s' : arch_insert s ai h skip = Ok s' -> deps s' = deps s.
Proof. apply (comm_deps (fun st => arch_insert st ai h skip)). intros d. apply arch_insert_sd. Qed.

Lemma create_id_deps s s' h : create_id s = Ok (s', h) -> deps s' = deps s.
Proof. apply (comm_deps1 create_id). intros d. apply create_id_sd. Qed.

Lemma destroy_now_deps s h s' : destroy_now_unlocked s h = Ok s' -> deps s' = deps s.
Proof. apply (comm_deps (fun st => destroy_now_unlocked st h)). intros d. apply destroy_now_unlocked_sd. Qed.

Lemma get_mut_deps s h c w s' o : get_mut s h c w = Ok (s', o) -> deps s' = deps s.
Proof. apply (comm_deps1 (fun st => get_mut st h c w)). intros d. apply get_mut_sd. Qed.

(* ---------------------------------------------------------------------------------------- *)
(* create *)
Lemma step_create_nd s tid m via s' out ex : lockc s = 0 -> extra_components s m = Ok ex ->
  step s (OCreate tid m [] via) = Ok (s', out) ->
  step (nd s) (OCreate tid (munion m ex) [] via) = Ok (nd s', out) /\ deps s' = deps s.
Proof.
  intros Hl Hex H. rewrite (step_create_unlocked _ _ _ _ Hl) in H.
  bd H r Hga. destruct r as (s1, ai). cbv beta iota in H. bd H r2 Hcid. destruct r2 as (s2, h). cbv beta iota in H.
  bd H s3 Hins. inversion H; subst s' out; clear H.
  split.
  - rewrite (step_create_unlocked (nd s) _ _ _ Hl). unfold nd. rewrite (get_arch_nd _ _ _ _ _ _ Hex Hga), bind_Ok. cbv beta iota.
    rewrite create_id_sd, (rmap_ok _ _ _ Hcid), bind_Ok. unfold sd1. cbn [fst snd]. cbv beta iota.
    rewrite arch_insert_sd, (rmap_ok _ _ _ Hins), bind_Ok. reflexivity.
  - rewrite (arch_insert_deps _ _ _ _ _ Hins), (create_id_deps _ _ _ Hcid). apply (get_arch_deps _ _ _ _ _ Hga).
Qed.

Lemma DInv_create cis s hs al x tid m via s' out :
  DInv cis s hs al x -> cis_ok cis -> within (S (length hs)) -> lowm m ->
  step s (OCreate tid m [] via) = Ok (s', out) ->
  exists h, out = RHandle h /\
    DInv cis s' (hs ++ [h]) (al ++ [(length hs, closure (deps s) m)]) (x_step_in x (XoCreate tid m [] via)).
Proof.
  intros HD Hok Hb Hlm H. pose proof HD as [HI Hdeps Hdwf Hkeys].
  destruct (DInv_ctl _ _ _ _ _ HD) as (Hl & Hc & Hxl & Hxc & Hcnt & Hal & Hawf).
  assert (Hex : exists ex, extra_components s m = Ok ex).
  { rewrite (step_create_unlocked _ _ _ _ Hl) in H. bd H r Hga. destruct r as (s1, ai). eapply get_arch_ex. exact Hga. }
  destruct Hex as (ex & Hex). pose proof (closure_eq s m ex Hdwf Hex) as Hcl.
  destruct (step_create_nd _ _ _ _ _ _ _ Hl Hex H) as (Hnd & Hdp).
  destruct (MInv_create cis (nd s) hs al (xnd x) tid (munion m ex) via (nd s') out HI Hok Hb Hnd) as (h & -> & HI').
  exists h. split; [reflexivity|]. rewrite Hcl.
  assert (Hx : x_step_in x (XoCreate tid m [] via) = x_create (xw_count x (S (x_count x))) (x_count x) m []).
  { unfold x_step_in. rewrite Hxl. reflexivity. }
  assert (Hx0 : x_step_in (xnd x) (XoCreate tid (munion m ex) [] via) = x_create (xw_count (xnd x) (S (x_count x))) (x_count x) (munion m ex) []).
  { unfold x_step_in. change (x_lock (xnd x)) with (x_lock x). rewrite Hxl. reflexivity. }
  assert (Hcl' : closure (x_deps (xw_count x (S (x_count x)))) m = munion m ex) by (simpl; rewrite <- Hdeps; exact Hcl).
  destruct (x_create_dep (xw_count x (S (x_count x))) (x_count x) m (munion m ex) Hlm Hcl' (sub_union_l _ _)) as (F1 & E1).
  destruct (x_create_eq (xw_count (xnd x) (S (x_count x))) (x_count x) (munion m ex) [] eq_refl) as (F0 & E0).
  rewrite Hx. rewrite Hx0 in HI'. constructor.
  - eapply MInv_ext; [exact HI'| |].
    + rewrite F0, xfr_xnd, F1. reflexivity.
    + intros k. rewrite !find_ent_findk, x_ents_xnd, E1, E0. reflexivity.
  - rewrite Hdp, Hdeps. destruct (xfr_fields _ _ F1) as (_ & X2 & _). rewrite X2. reflexivity.
  - rewrite Hdp. exact Hdwf.
  - intros k key Hin. rewrite Hdp. apply in_app_or in Hin. destruct Hin as [Hin|[E|[]]]; [apply (Hkeys k key Hin)|].
    inversion E; subst. split; [apply (extra_components_least_fixpoint s m ex Hex)|].
    apply lowm_union; [exact Hlm|eapply extra_low; eassumption].
Qed.

(* ---------------------------------------------------------------------------------------- *)
(* destroyNow *)
Lemma DInv_destroy_now cis s hs al x tid k s' out :
  DInv cis s hs al x -> within (length hs) ->
  step s (ODestroyNow tid (hnd hs k)) = Ok (s', out) ->
  out = RNone /\ DInv cis s' hs (kill al k) (x_step_in x (XoDestroyNow tid k)).
Proof.
  intros HD Hb H. pose proof HD as [HI Hdeps Hdwf Hkeys].
  destruct (DInv_ctl _ _ _ _ _ HD) as (Hl & Hc & Hxl & Hxc & Hcnt & Hal & Hawf).
  rewrite (step_destroy_now_unlocked _ _ _ Hl) in H. bd H s1 Hd. inversion H; subst s' out; clear H.
  assert (Hnd : step (nd s) (ODestroyNow tid (hnd hs k)) = Ok (nd s1, RNone)).
  { rewrite (step_destroy_now_unlocked (nd s) _ _ Hl). unfold nd. rewrite destroy_now_unlocked_sd, (rmap_ok _ _ _ Hd). reflexivity. }
  destruct (MInv_destroy_now cis (nd s) hs al (xnd x) tid k (nd s1) RNone HI Hb Hnd) as (_ & HI').
  split; [reflexivity|].
  assert (Hx : x_step_in (xnd x) (XoDestroyNow tid k) = xnd (x_step_in x (XoDestroyNow tid k))).
  { unfold x_step_in. change (issued_b (xnd x) k) with (issued_b x k). change (x_lock (xnd x)) with (x_lock x). rewrite Hxl.
    destruct (negb (issued_b x k)); [reflexivity|apply xnd_kill]. }
  rewrite Hx in HI'. pose proof (destroy_now_deps _ _ _ Hd) as Hdp.
  assert (Hxd : x_deps (x_step_in x (XoDestroyNow tid k)) = x_deps x).
  { unfold x_step_in. rewrite Hxl. destruct (negb (issued_b x k)); [reflexivity|]. destruct (x_kill_eq x k) as (F & _).
    destruct (xfr_fields _ _ F) as (_ & X2 & _). exact X2. }
  constructor; [exact HI'|congruence|congruence|].
  intros k' key Hin. rewrite Hdp. apply kill_in in Hin. apply (Hkeys k' key). tauto.
Qed.

(* ---------------------------------------------------------------------------------------- *)
(* write through getComponent<T>() *)
Lemma DInv_set cis s hs al x k c z s' out :
  DInv cis s hs al x -> c < MASK_BITS ->
  step s (OGetMut (hnd hs k) c (Some z)) = Ok (s', out) ->
  (exists p w, out = RCell p w) /\ DInv cis s' hs al (x_step_in x (XoSet k c z)).
Proof.
  intros HD Hc128 H. pose proof HD as [HI Hdeps Hdwf Hkeys].
  assert (Hg : get_mut s (hnd hs k) c (Some z) = Ok (s', out)) by exact H.
  assert (Hnd : step (nd s) (OGetMut (hnd hs k) c (Some z)) = Ok (nd s', out)).
  { change (get_mut (nd s) (hnd hs k) c (Some z) = Ok (nd s', out)). unfold nd. rewrite get_mut_sd, (rmap_ok _ _ _ Hg). reflexivity. }
  destruct (MInv_set cis (nd s) hs al (xnd x) k c z (nd s') out HI Hc128 Hnd) as (Ho & HI').
  split; [exact Ho|].
  assert (Hx : x_step_in (xnd x) (XoSet k c z) = xnd (x_step_in x (XoSet k c z))).
  { unfold x_step_in. rewrite find_ent_xnd. destruct (find_ent x k) as [e|]; [|reflexivity]. destruct (has_comp (e_comps e) c); reflexivity. }
  rewrite Hx in HI'. pose proof (get_mut_deps _ _ _ _ _ _ Hg) as Hdp.
  assert (Hxd : x_deps (x_step_in x (XoSet k c z)) = x_deps x).
  { unfold x_step_in. destruct (find_ent x k) as [e|]; [|reflexivity]. destruct (has_comp (e_comps e) c); reflexivity. }
  constructor; [exact HI'|congruence|congruence|]. intros k' key Hin. rewrite Hdp. apply (Hkeys k' key Hin).
Qed.

(* ---------------------------------------------------------------------------------------- *)
(* declaration *)
Definition ents_closed (x : xst) : bool :=
  forallb (fun e => N.eqb (closure (x_deps x) (comp_mask (e_comps e))) (comp_mask (e_comps e))) (x_ents x).

Lemma step_dep s c m : step s (ODep c m) = (do s1 <- add_dependency s c m; Ok (s1, RNone)).
Proof. reflexivity. Qed.

Lemma DInv_dep cis s hs al x c m s' out :
  DInv cis s hs al x -> c < MASK_BITS -> lowm m -> ents_closed (x_step_in x (XoDep c m)) = true ->
  step s (ODep c m) = Ok (s', out) ->
  out = RNone /\ DInv cis s' hs al (x_step_in x (XoDep c m)).
Proof.
  intros HD Hc128 Hlm Hec H. pose proof HD as [HI Hdeps Hdwf Hkeys].
  destruct (DInv_ctl _ _ _ _ _ HD) as (Hl & Hc & Hxl & Hxc & Hcnt & Hal & Hawf).
  rewrite step_dep in H. bd H s1 Hadd. inversion H; subst s' out; clear H. split; [reflexivity|].
  unfold add_dependency in Hadd. bd Hadd exm Hex. inversion Hadd; subst s1; clear Hadd.
  pose proof (closure_eq s m exm Hdwf Hex) as Hcl.
  set (old := match dep_find (deps s) c with Some m0 => m0 | None => 0%N end) in *.
  assert (Hd' : dep_set (deps s) c (munion old (munion m exm)) = x_deps (x_step_in x (XoDep c m))).
  { unfold x_step_in. simpl. unfold x_add_dep. rewrite <- Hdeps, Hcl. reflexivity. }
  assert (Hold : lowm old).
  { unfold old. destruct (dep_find (deps s) c) as [m0|] eqn:Ef; [|apply lowm_zero]. apply dep_find_in in Ef.
    destruct Hdwf as (_ & Hf). rewrite Forall_forall in Hf. apply (Hf _ Ef). }
  assert (Hwf' : dwf (dep_set (deps s) c (munion old (munion m exm)))).
  { apply dep_set_wf; [exact Hdwf|exact Hc128|]. apply lowm_union; [exact Hold|]. apply lowm_union; [exact Hlm|exact (extra_low s m exm Hdwf Hlm Hex)]. }
  constructor.
  - exact HI.
  - exact Hd'.
  - exact Hwf'.
  - intros k key Hin. destruct (Hkeys k key Hin) as (_ & Hlow). split; [|exact Hlow].
    change (deps (set_deps s (dep_set (deps s) c (munion old (munion m exm))))) with (dep_set (deps s) c (munion old (munion m exm))).
    rewrite Hd'. assert (Ha : alive al k) by (unfold alive; apply in_map_iff; exists (k, key); auto).
    apply Hal in Ha. apply alive_x_find in Ha. destruct (find_ent x k) as [e|] eqn:Hfe; [|congruence].
    destruct (live_vmatch_d _ _ _ _ _ _ _ _ HD Hin Hfe) as (_ & ai & idx & a & _ & _ & Hkey & _ & (Hm & _)).
    assert (Ecm : comp_mask (e_comps e) = key) by (apply comp_mask_keys; [rewrite Hm, Hkey; reflexivity|exact Hlow]).
    unfold ents_closed in Hec. rewrite forallb_forall in Hec.
    assert (Hine : In e (x_ents (x_step_in x (XoDep c m)))).
    { unfold find_ent in Hfe. apply find_some in Hfe. exact (proj1 Hfe). }
    specialize (Hec e Hine). apply N.eqb_eq in Hec. rewrite Ecm in Hec. apply closure_fix_closed. exact Hec.
Qed.

(* ---------------------------------------------------------------------------------------- *)
(* assign: the entity moves to the archetype of the CLOSED set; the dependents it lacked get their default cells *)
Lemma nodup_map_index {A B} (f : A -> B) l i j a b : NoDup (map f l) ->
  nth_error l i = Some a -> nth_error l j = Some b -> f a = f b -> i = j.
Proof.
  intros Hnd Hi Hj E. apply (proj1 (NoDup_nth_error (map f l)) Hnd).
  - rewrite map_length. apply nth_error_Some. congruence.
  - rewrite !nth_error_map, Hi, Hj. simpl. congruence.
Qed.

Lemma DInv_emit cis s hs al x ev : DInv cis s hs al x -> DInv cis (emit s ev) hs al x.
Proof. apply DInv_set_log. Qed.

Lemma DInv_assign cis s hs al x tid k c v typed s' out :
  DInv cis s hs al x -> c < MASK_BITS ->
  (forall z inf, v = Some z -> nth_error cis c = Some inf -> ci_hasval inf = true) ->
  alive_x x k = true -> x_viol (x_step_in x (XoAssign tid k c v)) = x_viol x ->
  step s (OAssign tid (hnd hs k) c (match v with Some z => AValue z | None => ADefault end) typed) = Ok (s', out) ->
  out = RNone /\ exists al', DInv cis s' hs al' (x_step_in x (XoAssign tid k c v)).
Proof.
  intros HD Hc128 Hhv Hax Hviol H. pose proof HD as [HI Hdeps Hdwf Hkeys].
  destruct (DInv_ctl _ _ _ _ _ HD) as (Hl & Hc & Hxl & Hxc & Hcnt & Hal & Hawf).
  destruct (alive_in _ _ (proj2 (Hal k) Hax)) as (key & Hin).
  destruct (find_ent x k) as [e|] eqn:Hfe; [|apply alive_x_find in Hax; congruence].
  destruct (live_vmatch_d _ _ _ _ _ _ _ _ HD Hin Hfe) as (Hk & pai & pidx & pa & Hloc & Hpa & Hkey & Hent & Hvm).
  destruct (Hkeys k key Hin) as (Hclk & Hlowk).
  assert (Hx : x_step_in x (XoAssign tid k c v) = x_assign x k c v).
  { unfold x_step_in, issued_b. rewrite Hcnt. apply Nat.ltb_lt in Hk. rewrite Hk, Hxl. reflexivity. }
  rewrite Hx in *.
  assert (Hhc : has_comp (e_comps e) c = false).
  { destruct (has_comp (e_comps e) c) eqn:E; [|reflexivity]. unfold x_assign in Hviol. rewrite Hfe, E in Hviol. simpl in Hviol. lia. }
  destruct (x_assign_dep x k c v e Hfe Hhc) as (Fx & Ex). rewrite Hxc in Ex.
  destruct (xfr_fields _ _ Fx) as (_ & Xd & _).
  assert (Hmc : mhas (am_mask pa) c = false) by (rewrite <- (vmatch_has _ _ _ _ Hvm Hc128); exact Hhc).
  (* the model step *)
  rewrite (step_assign_unlocked _ _ _ _ _ _ Hl) in H. bd H inf Hinf. apply info_of_ok in Hinf. rewrite Hc in Hinf.
  bd H r Hr. destruct r as (s2, ((ai, ci), slot)). cbv beta iota in H.
  unfold assign_unlocked in Hr. bd Hr la Hla.
  assert (Ela : la = (pai, pidx)).
  { unfold loc_arch in Hla. rewrite (nth_res_some _ _ _ Hloc) in Hla. bok Hla. simpl in Hla. inversion Hla. reflexivity. }
  subst la. cbv beta iota in Hr. rewrite (nth_res_some _ _ _ Hpa) in Hr. bok Hr. cbv zeta in Hr.
  destruct (awf_nth _ _ _ Hawf Hpa) as (Wp1 & _). rewrite Wp1 in Hr.
  bd Hr rg Hga. destruct rg as (s_g, ai'). cbv beta iota in Hr.
  destruct (get_arch_ex _ _ _ _ _ Hga) as (exm & Hex).
  set (m0 := madd (am_mask pa) c) in *. set (T := munion m0 exm).
  assert (Hlm0 : lowm m0) by (apply lowm_madd; [rewrite Hkey; exact Hlowk|exact Hc128]).
  assert (HclT : closure (x_deps x) m0 = T) by (rewrite <- Hdeps; apply closure_eq; assumption).
  assert (Hga' : get_arch (nd s) T si_null = Ok (nd s_g, ai')) by (apply get_arch_nd; assumption).
  destruct (MInv_get_arch _ _ _ _ _ _ _ _ HI Hga') as (HIg & Fg & Hkeep & a_t & Hat & Hmt).
  bd Hr s2' Hmv. bd Hr a2' Ha2'. apply nth_res_ok in Ha2'. bd Hr l2 Hl2. apply nth_res_ok in Hl2.
  destruct (cindex (am_mask a2') c) as [ci'|] eqn:Eci; [|discriminate]. inversion Hr; subst s2' ai' ci' slot; clear Hr.
  match type of Hmv with external_move _ _ _ _ _ ?sk = _ => set (skip := sk) in * end.
  assert (Hmv' : external_move (nd s_g) ai (hnd hs k) pai pidx skip = Ok (nd s2)).
  { unfold nd. rewrite external_move_sd, (rmap_ok _ _ _ Hmv). reflexivity. }
  (* the component lists of the specification *)
  destruct Hvm as (Hm0 & Hs0 & Hv0).
  assert (Hkeys_i : forall w, map fst (insert_comp (e_comps e) c w) = mitems m0).
  { intros w. rewrite map_fst_insert_comp, Hm0. symmetry. apply mitems_madd. exact Hc128. }
  assert (HW : forall w, map fst (fst (widen x k (insert_comp (e_comps e) c w))) = mitems T /\
     forall c' v', In (c', v') (fst (widen x k (insert_comp (e_comps e) c w))) <->
       In (c', v') (insert_comp (e_comps e) c w) \/
       (mhas m0 c' = false /\ c' < MASK_BITS /\ mhas T c' = true /\ v' = default_cell cis c')).
  { intros w. rewrite <- Hxc. apply (widen_spec x k _ m0 T (Hkeys_i w) Hlm0 HclT). apply sub_union_l. }
  set (cmid := match v with Some _ => None | None => default_cell cis c end).
  set (e_mid := {| e_k := k; e_comps := fst (widen x k (insert_comp (e_comps e) c cmid)); e_shared := e_shared e |}).
  assert (Hloc_g : nth_error (locs (nd s_g)) (N.to_nat (fst (hnd hs k))) = Some {| l_arch := Some pai; l_idx := pidx |})
    by (rewrite (fr1_locs _ _ Fg); exact Hloc).
  assert (Hpa_g : nth_error (archs (nd s_g)) pai = Some pa) by (apply Hkeep; exact Hpa).
  assert (Hnew : forall a2, am_mask a2 = am_mask a_t ->
     (forall ci c0, nth_error (mitems (am_mask a_t)) ci = Some c0 ->
        (forall pci, cindex (am_mask pa) c0 = Some pci -> get_cell a2 ci (length (am_ents a_t)) = get_cell pa pci pidx) /\
        (cindex (am_mask pa) c0 = None -> mhas skip c0 = false ->
         cell_le (default_cell cis c0) (get_cell a2 ci (length (am_ents a_t))) = true)) ->
     vmatch e_mid a2 (length (am_ents a_t))).
  { intros a2 Em2 Hcells. destruct (HW cmid) as (W1 & W2).
    split; [simpl; rewrite W1, Em2, Hmt; reflexivity|]. split; [exact Hs0|]. simpl. intros c' v' Hin'.
    assert (Hi' : In c' (mitems (am_mask a_t))) by (rewrite Hmt, <- W1; apply in_map_iff; exists (c', v'); auto).
    apply In_nth_error in Hi'. destruct Hi' as (ci' & Hci'). destruct (Hcells ci' c' Hci') as (Hmoved & Hdflt).
    unfold acell. rewrite Em2, (nth_cindex _ _ _ Hci').
    apply W2 in Hin'. destruct Hin' as [Hin'|(Hn0 & _ & _ & ->)].
    - apply insert_comp_cases in Hin'; [|rewrite Hkeys_i; apply mitems_nodup]. destruct Hin' as [(-> & ->)|(Hnc & Hin')].
      + unfold cmid. destruct v as [z|]; [reflexivity|]. apply Hdflt; [apply cindex_none_has; exact Hmc|apply mhas_zero].
      + specialize (Hv0 c' v' Hin'). unfold acell in Hv0. destruct (cindex (am_mask pa) c') as [pci|] eqn:Epci.
        * rewrite (Hmoved pci eq_refl). exact Hv0.
        * exfalso. apply cindex_none_has in Epci.
          assert (Hi : In c' (mitems (am_mask pa))) by (rewrite <- Hm0; apply in_map_iff; exists (c', v'); auto).
          apply mitems_in in Hi. destruct Hi. congruence.
    - (* a dependent the entity did not have: default-constructed whatever the skip mask of the assignment says *)
      apply Hdflt.
      + apply cindex_none_has. unfold m0 in Hn0. rewrite mhas_madd in Hn0. apply orb_false_iff in Hn0. tauto.
      + unfold skip. clear - Hn0. destruct v as [z'|]; [destruct typed; [exact Hn0|apply mhas_zero]|apply mhas_zero]. }
  destruct (MInv_move cis (nd s_g) hs al (xnd x) k key e ai a_t pai pidx pa skip (nd s2) e_mid HIg Hin Hfe eq_refl Hloc_g Hpa_g Hent Hat Hmv' Hnew)
    as (HI2 & a2 & Ha2 & Em2 & Hent2 & Hloc2).
  assert (Ha2s : nth_error (archs s2) ai = Some a2) by exact Ha2.
  assert (Hloc2s : nth_error (locs s2) (N.to_nat (fst (hnd hs k))) = Some {| l_arch := Some ai; l_idx := length (am_ents a_t) |}) by exact Hloc2.
  rewrite Ha2s in Ha2'. inversion Ha2'; subst a2'. rewrite Hloc2s in Hl2. inversion Hl2; subst l2. simpl l_idx in H.
  assert (Hdp2 : deps s2 = deps s) by (rewrite (external_move_deps _ _ _ _ _ _ _ Hmv); apply (get_arch_deps _ _ _ _ _ Hga)).
  assert (HcT : mhas T c = true) by (unfold T, m0; rewrite mhas_union, mhas_madd, Nat.eqb_refl; reflexivity).
  (* the final invariant, once the MInv part is there *)
  assert (Hfin : forall s3, MInv cis (nd s3) hs (retag al k (am_mask a_t)) (xnd (x_assign x k c v)) -> deps s3 = deps s ->
                 DInv cis s3 hs (retag al k (am_mask a_t)) (x_assign x k c v)).
  { intros s3 HM3 Hd3. constructor; [exact HM3|congruence|congruence|].
    intros k' key' Hin'. rewrite Hd3. apply retag_in in Hin'. destruct Hin' as [(_ & -> & _)|(_ & Hin')]; [|apply (Hkeys k' key' Hin')].
    rewrite Hmt. split; [apply (extra_components_least_fixpoint s m0 exm Hex)|].
    apply lowm_union; [exact Hlm0|exact (extra_low s m0 exm Hdwf Hlm0 Hex)]. }
  destruct v as [z|].
  - (* a value is written *)
    rewrite (Hhv z inf eq_refl Hinf) in H. bd H s3 Hw. apply write_cell_ok in Hw. destruct Hw as (a2'' & Ha2'' & ->).
    rewrite Ha2s in Ha2''. inversion Ha2''; subst a2''.
    assert (Hci_lt : ci < length (am_cols a2)).
    { destruct (awf_nth _ _ _ (mi_awf _ _ _ _ _ HI2) Ha2) as (_ & _ & W). rewrite W. apply (cindex_lt _ _ _ Hc128 Eci). }
    set (s3 := set_arch s2 ai (put_cell a2 ci (length (am_ents a_t)) (Some z))).
    assert (HI3 : MInv cis (nd s3) hs (retag al k (am_mask a_t))
                    (xput (xput (xnd x) e_mid) {| e_k := k; e_comps := insert_comp (e_comps e_mid) c (Some z); e_shared := e_shared e_mid |})).
    { eapply (MInv_put cis (nd s2) hs _ (xput (xnd x) e_mid) k (am_mask a_t) e_mid ai (length (am_ents a_t)) a2 ci c z); try eassumption.
      - eapply retag_same. exact Hin.
      - rewrite xput_find. simpl. rewrite Nat.eqb_refl. reflexivity.
      - reflexivity.
      - reflexivity.
      - apply ab1_ab2. apply ab1_put.
      - apply put_cell_cols_length.
      - intros ci' slot [Hn|Hn]; [apply get_put_other_col|apply get_put_other_slot]; congruence.
      - apply get_put_same. exact Hci_lt. }
    assert (EW : insert_comp (e_comps e_mid) c (Some z) = fst (widen x k (insert_comp (e_comps e) c (Some z)))).
    { destruct (HW None) as (A1 & A2). destruct (HW (Some z)) as (B1 & B2). simpl e_comps. unfold cmid.
      assert (Hk1 : map fst (insert_comp (fst (widen x k (insert_comp (e_comps e) c None))) c (Some z)) = mitems T).
      { rewrite map_fst_insert_comp, A1, <- (mitems_madd _ _ Hc128). apply mitems_madd_present. exact HcT. }
      apply keyed_ext.
      - rewrite Hk1, B1. reflexivity.
      - rewrite Hk1. apply mitems_nodup.
      - intros c' v' Hin'. apply insert_comp_cases in Hin'; [|rewrite Hk1; apply mitems_nodup]. apply B2.
        destruct Hin' as [(-> & ->)|(Hnc & Hin')]; [left; apply insert_comp_has|].
        apply A2 in Hin'. destruct Hin' as [Hin'|Hd']; [left|right; exact Hd'].
        apply insert_comp_weak in Hin'. destruct Hin' as [(E & _)|Hin']; [congruence|]. apply insert_comp_keep; assumption. }
    assert (HI4 : MInv cis (nd s3) hs (retag al k (am_mask a_t)) (xnd (x_assign x k c (Some z)))).
    { eapply MInv_ext; [exact HI3|rewrite xfr_xnd, Fx; reflexivity|]. intros k'. rewrite find_ent_xnd, find_ent_findk, Ex, findk_put, !xput_find. rewrite EW. simpl.
      destruct (Nat.eqb k' k); reflexivity. }
    assert (HD4 : DInv cis s3 hs (retag al k (am_mask a_t)) (x_assign x k c (Some z))) by (apply Hfin; [exact HI4|exact Hdp2]).
    destruct typed; inversion H; subst s' out; (split; [reflexivity|]); eexists.
    + destruct (ci_aa inf), (ci_ev inf); repeat apply DInv_emit; exact HD4.
    + exact HD4.
  - (* default construction *)
    inversion H; subst s' out. split; [reflexivity|]. eexists. apply Hfin; [|exact Hdp2].
    eapply MInv_ext; [exact HI2|rewrite xfr_xnd, Fx; reflexivity|].
    intros k'. rewrite find_ent_xnd, find_ent_findk, Ex, findk_put, xput_find. reflexivity.
Qed.

(* ---------------------------------------------------------------------------------------- *)
(* removeComponent: the target set is closed again; a dependent of a present master comes back, so the entity stays *)
Lemma DInv_remove cis s hs al x tid k c typed s' out :
  DInv cis s hs al x -> c < MASK_BITS -> (typed = true \/ alive_x x k = true) ->
  step s (ORemove tid (hnd hs k) c typed) = Ok (s', out) ->
  out = RNone /\ exists al', DInv cis s' hs al' (x_step_in x (XoRemove tid k c typed)).
Proof.
  intros HD Hc128 Hctr H. pose proof HD as [HI Hdeps Hdwf Hkeys].
  destruct (DInv_ctl _ _ _ _ _ HD) as (Hl & Hc & Hxl & Hxc & Hcnt & Hal & Hawf).
  rewrite (step_remove_unlocked _ _ _ _ _ Hl) in H.
  assert (Hx : x_step_in x (XoRemove tid k c typed) = if negb (issued_b x k) then x else x_remove x k c).
  { unfold x_step_in. rewrite Hxl. reflexivity. }
  rewrite Hx. clear Hx.
  destruct (is_valid s (hnd hs k)) eqn:Ev.
  - (* the handle is alive *)
    destruct (valid_find_d _ _ _ _ _ _ HD Ev) as (Hk & Ha & e & Hfe). destruct (alive_in _ _ Ha) as (key & Hin).
    unfold issued_b. rewrite Hcnt. apply Nat.ltb_lt in Hk. rewrite Hk. simpl negb. cbv iota.
    rewrite andb_false_r in H. bd H s1 Hr. inversion H; subst s' out; clear H. split; [reflexivity|].
    destruct (live_vmatch_d _ _ _ _ _ _ _ _ HD Hin Hfe) as (_ & pai & pidx & pa & Hloc & Hpa & Hkey & Hent & Hvm).
    destruct (Hkeys k key Hin) as (Hclk & Hlowk).
    unfold remove_unlocked in Hr. rewrite (nth_res_some _ _ _ Hloc) in Hr. bok Hr. simpl l_arch in Hr. cbv iota in Hr.
    rewrite (nth_res_some _ _ _ Hpa) in Hr. bok Hr. simpl l_idx in Hr.
    pose proof (vmatch_has _ _ _ _ Hvm Hc128) as Hhas.
    destruct (mhas (am_mask pa) c) eqn:Emc; simpl negb in Hr; cbv iota in Hr.
    + destruct (awf_nth _ _ _ Hawf Hpa) as (Wp1 & _). rewrite Wp1 in Hr.
      bd Hr rg Hga. destruct rg as (s_g, ai). cbv beta iota in Hr.
      destruct (get_arch_ex _ _ _ _ _ Hga) as (exm & Hex).
      set (m0 := mdel (am_mask pa) c) in *. set (T := munion m0 exm).
      assert (Hlm0 : lowm m0) by (apply lowm_mdel; rewrite Hkey; exact Hlowk).
      assert (HclT : closure (x_deps x) m0 = T) by (rewrite <- Hdeps; apply closure_eq; assumption).
      assert (Hsub0 : sub m0 (am_mask pa)).
      { intros y Hy. unfold m0 in Hy. rewrite mhas_mdel in Hy. apply andb_true_iff in Hy. tauto. }
      assert (HsubT : sub T (am_mask pa)) by (apply (closed_sub_closure s m0 exm _ Hex); [rewrite Hkey; exact Hclk|exact Hsub0]).
      assert (Hga' : get_arch (nd s) T si_null = Ok (nd s_g, ai)) by (apply get_arch_nd; assumption).
      destruct (MInv_get_arch _ _ _ _ _ _ _ _ HI Hga') as (HIg & Fg & Hkeep & a_t & Hat & Hmt).
      assert (Hpa_g : nth_error (archs (nd s_g)) pai = Some pa) by (apply Hkeep; exact Hpa).
      pose proof (get_arch_deps _ _ _ _ _ Hga) as Hdpg.
      destruct Hvm as (Hm0 & Hs0 & Hv0).
      set (rest := filter (fun p : nat * cell => negb (Nat.eqb (fst p) c)) (e_comps e)).
      assert (Hkr : map fst rest = mitems m0) by (unfold rest, m0; rewrite map_fst_filter, Hm0; symmetry; apply mitems_mdel).
      assert (Ecm : comp_mask rest = m0) by (apply comp_mask_keys; assumption).
      destruct (mhas T c) eqn:EcT.
      * (* c is required by what stays: the closed target is the entity's own set *)
        assert (ET : T = am_mask pa).
        { apply sub_antisym; [exact HsubT|]. intros y Hy. destruct (Nat.eq_dec y c) as [->|Hne]; [exact EcT|].
          unfold T. rewrite mhas_union. unfold m0. rewrite mhas_mdel, Hy. apply Nat.eqb_neq in Hne. rewrite Hne. reflexivity. }
        assert (Eai : ai = pai).
        { apply (nodup_map_index am_mask (archs (nd s_g)) ai pai a_t pa); [|exact Hat|exact Hpa_g|congruence].
          pose proof (g_arch_keys (mi_G _ _ _ _ _ HIg)) as Hnd. simpl in Hnd. rewrite map_map in Hnd. exact Hnd. }
        subst ai. rewrite Nat.eqb_refl in Hr. inversion Hr; subst s1.
        rewrite (x_remove_noop x k c e Hfe Hhas); [|fold rest; rewrite Ecm, HclT; exact EcT].
        exists al. constructor; [|congruence|congruence|intros k' key' Hin'; rewrite Hdpg; apply (Hkeys k' key' Hin')].
        exact HIg.
      * (* c goes: nothing that stays requires it, and the rest is closed as it is *)
        assert (ET : T = m0).
        { apply sub_antisym; [|apply sub_union_l]. intros y Hy. unfold m0. rewrite mhas_mdel, (HsubT y Hy). simpl.
          destruct (Nat.eqb_spec y c) as [->|Hne]; [congruence|reflexivity]. }
        rewrite ET in Hmt.
        destruct (Nat.eqb_spec ai pai) as [->|Hne].
        { exfalso. rewrite Hpa_g in Hat. inversion Hat; subst a_t.
          assert (E : mhas m0 c = true) by (rewrite <- Hmt; exact Emc).
          unfold m0 in E. rewrite mhas_mdel, Nat.eqb_refl, andb_false_r in E. discriminate. }
        assert (Hloc_g : nth_error (locs (nd s_g)) (N.to_nat (fst (hnd hs k))) = Some {| l_arch := Some pai; l_idx := pidx |})
          by (rewrite (fr1_locs _ _ Fg); exact Hloc).
        set (e_new := {| e_k := k; e_comps := rest; e_shared := e_shared e |}).
        assert (Hnew : forall a2, am_mask a2 = am_mask a_t ->
           (forall ci c0, nth_error (mitems (am_mask a_t)) ci = Some c0 ->
              (forall pci, cindex (am_mask pa) c0 = Some pci -> get_cell a2 ci (length (am_ents a_t)) = get_cell pa pci pidx) /\
              (cindex (am_mask pa) c0 = None -> mhas 0%N c0 = false ->
               cell_le (default_cell cis c0) (get_cell a2 ci (length (am_ents a_t))) = true)) ->
           vmatch e_new a2 (length (am_ents a_t))).
        { intros a2 Em2 Hcells.
          assert (Hkeys2 : map fst (e_comps e_new) = mitems (am_mask a2)) by (simpl; rewrite Hkr, Em2, Hmt; reflexivity).
          split; [exact Hkeys2|]. split; [exact Hs0|]. intros c' v' Hin'.
          assert (Hi' : In c' (mitems (am_mask a_t))) by (rewrite <- Em2, <- Hkeys2; apply in_map_iff; exists (c', v'); auto).
          apply In_nth_error in Hi'. destruct Hi' as (ci' & Hci'). destruct (Hcells ci' c' Hci') as (Hmoved & _).
          unfold acell. rewrite Em2, (nth_cindex _ _ _ Hci'). simpl in Hin'. apply filter_In in Hin'. destruct Hin' as (Hin' & _).
          specialize (Hv0 c' v' Hin'). unfold acell in Hv0. destruct (cindex (am_mask pa) c') as [pci|] eqn:Epci.
          - rewrite (Hmoved pci eq_refl). exact Hv0.
          - exfalso. apply cindex_none_has in Epci.
            assert (Hi : In c' (mitems (am_mask pa))) by (rewrite <- Hm0; apply in_map_iff; exists (c', v'); auto).
            apply mitems_in in Hi. destruct Hi. congruence. }
        assert (Hr' : external_move (nd s_g) ai (hnd hs k) pai pidx 0%N = Ok (nd s1)).
        { unfold nd. rewrite external_move_sd, (rmap_ok _ _ _ Hr). reflexivity. }
        destruct (MInv_move cis (nd s_g) hs al (xnd x) k key e ai a_t pai pidx pa 0%N (nd s1) e_new HIg Hin Hfe eq_refl Hloc_g Hpa_g Hent Hat Hr' Hnew) as (HI2 & _).
        destruct (x_remove_dep x k c e Hfe Hhas) as (Fx & Ex); [fold rest; rewrite Ecm, HclT; exact EcT|].
        destruct (xfr_fields _ _ Fx) as (_ & Xd & _).
        pose proof (external_move_deps _ _ _ _ _ _ _ Hr) as Hdp1.
        eexists. constructor.
        -- eapply MInv_ext; [exact HI2|rewrite xfr_xnd, Fx; reflexivity|].
           intros k'. rewrite find_ent_xnd, find_ent_findk, Ex, findk_put, xput_find. reflexivity.
        -- congruence.
        -- congruence.
        -- intros k' key' Hin'. rewrite Hdp1, Hdpg. apply retag_in in Hin'. destruct Hin' as [(_ & -> & _)|(_ & Hin')]; [|apply (Hkeys k' key' Hin')].
           rewrite Hmt, <- ET. split; [apply (extra_components_least_fixpoint s m0 exm Hex)|rewrite ET; exact Hlm0].
    + inversion Hr; subst s1. rewrite (x_remove_absent _ _ _ _ Hfe Hhas). eauto.
  - (* the handle is not alive *)
    pose proof (dead_find_d _ _ _ _ _ _ HD Ev) as Hfe.
    assert (Ety : typed = true).
    { destruct Hctr as [E|E]; [exact E|]. apply alive_x_find in E. congruence. }
    subst typed. simpl in H. inversion H; subst s' out. split; [reflexivity|]. exists al.
    destruct (negb (issued_b x k)); [exact HD|]. unfold x_remove. rewrite Hfe. exact HD.
Qed.
