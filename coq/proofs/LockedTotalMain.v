(* C05 / C02: totality of the Manager run on in-contract scripts over the alphabet WITH lock / unlock
   (ManagerLockedMain.alphaL_b): the hypothesis `mrun typed n cis ops = Ok (s, hs)` of the locked refinement theorems is
   discharged, as ManagerTotal.v does for the unlocked alphabet.

   Invariant LT = the refinement relation LR (ManagerLocked.v) + the shape invariant TI (ManagerTotal.v) + the recorded
   commands name described component ids only (cmd_reg) + while locked there is one buffer per thread.
   Forward lemmas: the recording operations (create / destroy / destroyNow / assign with its temporary / remove while
   locked), lock, nested unlock, destroy() and update() while not locked, the write through getComponent<T>() in any
   lock state; the operations of the C02 alphabet while not locked come from ManagerTotal.mstep_total, the flush from
   LockedTotalFlush.flush_total.

   Contract besides x_viol = 0 and reg_b: at every unlock that flushes, every pack satisfies pack_ar
   (LockedTotalPack.v) -- ar_guard, checked on the MODEL's buffers (ar_script) or, sufficient, on the SPECIFICATION's
   (LockedTotalSpec.v). *)
Require Import Coq.Lists.List Coq.NArith.NArith Coq.ZArith.ZArith Coq.Arith.Arith Coq.Bool.Bool Coq.micromega.Lia.
From Mustache Require Import Res Manager MgrSpec Refine.
From Mustache Require Skeleton.
From Mustache Require Import SkelSpec.
From Mustache.proofs Require Import ListLemmas SkelBasics SkelInv SkelSteps SkelRefine SkelLocked SkelFlush SkelMove SkelMoveRem SkelMain ClosureProofs
  ManagerBasics ManagerMoves ManagerProj ManagerInv ManagerMain ManagerWorlds ManagerTotal ManagerLInv ManagerPack ManagerFlush ManagerLocked
  ManagerLockedMain LockedTotalPack LockedTotalFlush.
From Mustache.proofs Require ManagerDeferred.
Import ListNotations.

(* ---------------------------------------------------------------------------------------- *)
Record LT (cis : list cinfo) (s : mst) (hs : list handle) (x : xst) : Prop := {
  lt_R : LR cis s hs x;
  lt_T : TI cis s;
  lt_reg : Forall (Forall (cmd_reg (length cis))) (bufs s);
  lt_len : lockc s <> 0 -> length (bufs s) = nthreads s
}.

(* what the recording operations leave untouched *)
Definition recf (s s' : mst) : Prop :=
  archs s' = archs s /\ def_chunk s' = def_chunk s /\ chunk_fns s' = chunk_fns s /\ lockc s' = lockc s /\ nthreads s' = nthreads s.

Lemma recf_refl s : recf s s.
Proof. repeat split. Qed.
Lemma recf_trans a b c : recf a b -> recf b c -> recf a c.
Proof. intros (A1 & A2 & A3 & A4 & A5) (B1 & B2 & B3 & B4 & B5). repeat split; congruence. Qed.
Lemma recf_with_rec s e b t l : recf s (ManagerDeferred.with_rec s e b t l).
Proof. repeat split. Qed.
Lemma with_rec_nthreads s e b t l : nthreads (ManagerDeferred.with_rec s e b t l) = nthreads s.
Proof. reflexivity. Qed.
Lemma recf_set_log s l : recf s (set_log s l).
Proof. repeat split. Qed.
Lemma recf_emit_if s (b : bool) e : recf s (if b then emit s e else s).
Proof. destruct b; repeat split. Qed.
Lemma recf_fr4 s s' : fr4 s' = fr4 s -> archs s' = archs s -> recf s s'.
Proof. intros F A. destruct (fr4_fields _ _ F) as (E1 & _ & _ & _ & E5 & _ & _ & _ & E9 & E10). repeat split; assumption. Qed.

Lemma TI_recf cis s s' : TI cis s -> recf s s' -> TI cis s'.
Proof. intros H (A & B & C & _). apply (TI_same cis s); assumption. Qed.

Lemma reg_push n (bs : list (list acmd)) tid b c : Forall (Forall (cmd_reg n)) bs -> nth_error bs tid = Some b -> cmd_reg n c ->
  Forall (Forall (cmd_reg n)) (upd bs tid (b ++ [c])).
Proof.
  intros H Hb Hc. apply Forall_upd; [exact H|]. apply Forall_app. split; [|constructor; [exact Hc|constructor]].
  apply (proj1 (Forall_forall _ _) H). eapply nth_error_In. exact Hb.
Qed.

(* no recorded command goes through the null handle (true as long as every handle used while locked has been issued) *)
Definition NNl (bs : list (list acmd)) : Prop := Forall (Forall (fun c => cmd_handle c <> null_handle)) bs.

Definition xiss_guard (x : xst) (o : xop) : bool :=
  match o with
  | XoDestroy _ k | XoDestroyNow _ k | XoAssign _ k _ _ | XoRemove _ k _ _ => Nat.eqb (x_lock x) 0 || issued_b x k
  | _ => true
  end.

Lemma nn_push (bs : list (list acmd)) tid b c : NNl bs -> nth_error bs tid = Some b -> cmd_handle c <> null_handle ->
  NNl (upd bs tid (b ++ [c])).
Proof.
  intros H Hb Hc. apply Forall_upd; [exact H|]. apply Forall_app. split; [|constructor; [exact Hc|constructor]].
  apply (proj1 (Forall_forall _ _) H). eapply nth_error_In. exact Hb.
Qed.

Lemma all_nil_nn (l : list (list acmd)) : Forall (fun b => b = []) l -> NNl l.
Proof. intros H. eapply Forall_impl; [|exact H]. simpl. intros b ->. constructor. Qed.

Lemma iss_nonnull cis s hs x k n : LR cis s hs x -> x_lock x = S n -> Nat.eqb (x_lock x) 0 || issued_b x k = true ->
  resolve hs k <> null_handle.
Proof.
  intros HR El H. destruct (lr_inv _ _ _ _ HR) as (al & HI). rewrite El in H. simpl in H. unfold issued_b in H.
  rewrite (li_count _ _ _ _ _ _ HI) in H. apply Nat.ltb_lt in H. rewrite resolve_hnd.
  apply (hnd_not_null _ _ _ _ _ (li_G _ _ _ _ _ _ HI) H).
Qed.

(* the invariant after an operation that records (or changes nothing of the buffers) *)
Lemma LT_intro cis s hs x s' hs' x' bs :
  LT cis s hs x -> LR cis s' hs' x' -> TI cis s' -> bufs s' = bs -> Forall (Forall (cmd_reg (length cis))) bs ->
  (lockc s' <> 0 -> length bs = nthreads s') -> LT cis s' hs' x'.
Proof. intros _ HR HT <- Hreg Hlen. constructor; assumption. Qed.

(* ---------------------------------------------------------------------------------------- *)
(* the command buffers: forward lemmas *)
Lemma push_cmd_total s tid c b : nth_error (bufs s) tid = Some b ->
  push_cmd s tid c = Ok (ManagerDeferred.with_rec s (next_eid s) (upd (bufs s) tid (b ++ [c])) (tmps s) (log s)).
Proof. intros Hb. unfold push_cmd. rewrite (nth_res_some _ _ _ Hb). reflexivity. Qed.

Lemma create_locked_total s tid m sh b : nth_error (bufs s) tid = Some b -> exists s' h, create_locked s tid m sh = Ok (s', h).
Proof.
  intros Hb. unfold create_locked.
  rewrite (push_cmd_total (set_eid s (next_eid s + 1)%N) tid _ b) by exact Hb. cbn [bind]. eauto.
Qed.

Lemma assign_locked_total s tid h c sk b tl : c < length (cinfos s) ->
  nth_error (bufs s) tid = Some b -> nth_error (tmps s) tid = Some tl -> exists s' n, assign_locked s tid h c sk = Ok (s', n).
Proof.
  intros Hc Hb Htl. unfold assign_locked. destruct (info_of_total s c Hc) as (inf & Einf). rewrite Einf. cbn [bind].
  rewrite (nth_res_some _ _ _ Htl). cbn [bind].
  destruct (ci_create inf) as [v|]; [destruct sk; [|destruct (ci_ev inf)]|];
    (erewrite push_cmd_total by exact Hb); cbn [bind]; eauto.
Qed.

Lemma write_tmp_total s tid n v tl : nth_error (tmps s) tid = Some tl -> n < length tl -> exists s', write_tmp s tid n v = Ok s'.
Proof.
  intros Htl Hn. unfold write_tmp. rewrite (nth_res_some _ _ _ Htl). cbn [bind]. rewrite upd_res_some' by exact Hn. cbn [bind]. eauto.
Qed.

(* ---------------------------------------------------------------------------------------- *)
(* what step does while locked *)
Lemma step_create_locked s tid m via n : lockc s = S n ->
  step s (OCreate tid m [] via) =
  (if via then do r <- get_arch s m si_null; let '(s1, ai) := r in do a <- nth_res (archs s1) ai;
               do r2 <- create_locked s1 tid (am_mask a) (am_shared a); Ok (fst r2, RHandle (snd r2))
   else do r <- create_locked s tid m si_null; Ok (fst r, RHandle (snd r))).
Proof. intros Hl. unfold step, make_shared_info. cbn [fold_res]. rewrite bind_Ok. rewrite Hl. destruct via; reflexivity. Qed.

Lemma step_push_locked s n : lockc s = S n ->
  (forall tid h, step s (ODestroy tid h) = do s1 <- push_cmd s tid (ADestroy h); Ok (s1, RNone)) /\
  (forall tid h, step s (ODestroyNow tid h) = do s1 <- push_cmd s tid (ADestroyNow h); Ok (s1, RNone)) /\
  (forall tid h c ty, step s (ORemove tid h c ty) = do s1 <- push_cmd s tid (ARemove h c); Ok (s1, RNone)).
Proof. intros Hl. repeat split; intros; unfold step; rewrite Hl; reflexivity. Qed.

Lemma step_unlock_flush s : lockc s <= 1 -> step s OUnlock = do s2 <- flush (set_lock s 0); Ok (s2, RBool true).
Proof.
  intros Hl. unfold step, do_unlock. cbn [lockc set_lock].
  assert (E : pred (lockc s) = 0) by lia. rewrite E. destruct (flush (set_lock s 0)) as [s2|e]; reflexivity.
Qed.

Lemma tid_in_bufs cis s hs x tid : LT cis s hs x -> lockc s <> 0 -> tid_ok x tid = true ->
  exists b tl, nth_error (bufs s) tid = Some b /\ nth_error (tmps s) tid = Some tl.
Proof.
  intros HL Hl Ht. pose proof (lt_R _ _ _ _ HL) as HR. unfold tid_ok in Ht. apply Nat.ltb_lt in Ht.
  rewrite <- (lr_nthr _ _ _ _ HR), <- (lt_len _ _ _ _ HL Hl) in Ht.
  destruct (F3_length _ _ _ _ (lr_bufs _ _ _ _ HR)) as (L1 & _).
  destruct (nth_error_ex (bufs s) tid Ht) as (b & Hb). destruct (nth_error_ex (tmps s) tid) as (tl & Htl); [rewrite L1; exact Ht|].
  exists b, tl. auto.
Qed.

(* ---------------------------------------------------------------------------------------- *)
(* the write through getComponent<T>() on the locked invariant *)
Lemma step_set_total_l cis s hs al rem x k c z :
  LInv cis s hs al rem x -> TI cis s -> c < MASK_BITS ->
  exists s' p w, step s (OGetMut (hnd hs k) c (Some z)) = Ok (s', RCell p w) /\ TI cis s'.
Proof.
  intros HI HT Hc128. rewrite step_getmut.
  destruct (is_valid s (hnd hs k)) eqn:Ev; cbn [negb]; [|exists s; eexists; eexists; split; [reflexivity|exact HT]].
  destruct (valid_find_l _ _ _ _ _ _ _ HI Ev) as (Hk & Hal & _). destruct (alive_in _ _ Hal) as (key & Hin).
  destruct (live_l _ _ _ _ _ _ (li_G _ _ _ _ _ _ HI) Hin) as (_ & ai & idx & a & Hloc & Harch & _ & Hent).
  rewrite (nth_res_some _ _ _ Hloc). cbn [bind l_arch l_idx]. rewrite (nth_res_some _ _ _ Harch). cbn [bind].
  destruct (cindex (am_mask a) c) as [ci|] eqn:Eci; [|exists s; eexists; eexists; split; [reflexivity|exact HT]].
  pose proof (twf_nth _ _ _ _ (ti_archs _ _ HT) Harch) as Ht. pose proof Ht as (Hv & Hreg). pose proof Hv as (Hch & Hg & _).
  rewrite (chunk_at_total a idx Hch). cbn [bind].
  pose proof (cindex_lt _ _ _ Hc128 Eci) as Hci. pose proof (vwf_cover a idx Hv (nth_error_lt' _ _ _ Hent)) as Hcov.
  destruct (vs_set_one_total a (wv s) (idx / am_chunk a) ci) as (g & cv & E & Lg & Lc); [lia|lia|].
  rewrite E. cbn [bind]. eexists. eexists. eexists. split; [reflexivity|].
  apply (TI_upd cis s _ ai (put_cell (with_vers a g cv) ci idx (Some z)) HT); [reflexivity|reflexivity|].
  apply twf_put. split; [|exact Hreg].
  apply (vwf_mono a _ Hv); cbn [am_chunk am_mask am_gver am_cver am_ents with_vers]; try reflexivity; [exact Lg|rewrite Lc; apply le_n].
Qed.

(* update(): the marked entities are destroyed one after the other *)
Lemma destroy_list_total cis hs rem : forall m s al x,
  LInv cis s hs al rem x -> TI cis s -> within (length hs) -> (forall h, In h m -> h = null_handle \/ In h hs) ->
  exists s', fold_res destroy_now_unlocked m s = Ok s' /\ TI cis s'.
Proof.
  induction m as [|h m IH]; intros s al x HI HT Hb Hm.
  - exists s. split; [reflexivity|exact HT].
  - cbn [fold_res]. destruct (Hm h (or_introl eq_refl)) as [->|Hin].
    + rewrite destroy_now_null. cbn [bind]. apply (IH s al x HI HT Hb). intros h' Hh'. apply Hm. right. exact Hh'.
    + destruct (In_hnd _ _ Hin) as (k & Hk & Eh). rewrite <- Eh.
      destruct (destroy_now_total_l cis s hs al rem x k HI HT) as (s1 & E & HT1). rewrite E. cbn [bind].
      destruct (LInv_destroy_now cis s hs al rem x k s1 HI Hb Hk E) as (HI1 & _).
      apply (IH s1 _ _ HI1 HT1 Hb). intros h' Hh'. apply Hm. right. exact Hh'.
Qed.

(* ---------------------------------------------------------------------------------------- *)
(* the contract, on the model's buffers: checked when an unlock flushes *)
Definition ar_guard (s : mst) (o : xop) : bool :=
  match o with XoUnlock => Nat.ltb 1 (lockc s) || packs_ar s | _ => true end.

Lemma all_nil_reg n (l : list (list acmd)) : Forall (fun b => b = []) l -> Forall (Forall (cmd_reg n)) l.
Proof. intros H. eapply Forall_impl; [|exact H]. simpl. intros b ->. constructor. Qed.

Lemma not_ooc' x o : x_viol x = 0 -> x_viol (x_step x o) = 0 -> out_of_contract x o = false.
Proof. intros H0 H1. apply not_ooc. congruence. Qed.

(* ---------------------------------------------------------------------------------------- *)
(* one operation *)
Lemma mstepL_total cis typed s hs x o :
  LT cis s hs x -> cis_ok cis -> alphaL_b cis o = true -> reg_b cis o = true ->
  x_viol x = 0 -> x_viol (x_step x o) = 0 -> ar_guard s o = true ->
  within (length hs + (if ManagerTotal.is_create o then 1 else 0)) ->
  exists s' hs', mstep typed (s, hs) o = Ok (s', hs') /\ LT cis s' hs' (x_step x o) /\
                 length hs' = length hs + (if ManagerTotal.is_create o then 1 else 0) /\
                 (NNl (bufs s) -> xiss_guard x o = true -> NNl (bufs s')).
Proof.
  intros HL Hok Ha Hr Hv0 Hv1 Hg Hb.
  pose proof (lt_R _ _ _ _ HL) as HR. pose proof (lt_T _ _ _ _ HL) as HT. pose proof (lt_reg _ _ _ _ HL) as Hreg.
  pose proof (lr_lock _ _ _ _ HR) as Hlk. pose proof (not_ooc' x o Hv0 Hv1) as Hooc.
  (* from `the step returns Ok` and the shape facts of the new state to the conclusion *)
  assert (Fin : forall s1 out, step s (concretize typed hs o) = Ok (s1, out) ->
            (match out with RHandle _ => ManagerTotal.is_create o = true | _ => ManagerTotal.is_create o = false end) ->
            TI cis s1 -> Forall (Forall (cmd_reg (length cis))) (bufs s1) -> (lockc s1 <> 0 -> length (bufs s1) = nthreads s1) ->
            (LR cis (set_log s1 []) (match out with RHandle h => hs ++ [h] | _ => hs end) (x_step x o) ->
             NNl (bufs s) -> xiss_guard x o = true -> NNl (bufs s1)) ->
            exists s' hs', mstep typed (s, hs) o = Ok (s', hs') /\ LT cis s' hs' (x_step x o) /\
                           length hs' = length hs + (if ManagerTotal.is_create o then 1 else 0) /\
                           (NNl (bufs s) -> xiss_guard x o = true -> NNl (bufs s'))).
  { intros s1 out Est Hout HT1 Hreg1 Hlen1 Hnn1.
    pose proof (mstep_of_step typed s hs o s1 out Est) as Em.
    set (hs' := match out with RHandle h => hs ++ [h] | _ => hs end) in *.
    assert (Hlen : length hs' = length hs + (if ManagerTotal.is_create o then 1 else 0)).
    { unfold hs'. destruct out; rewrite ?Hout, ?app_length; simpl; lia. }
    assert (HR' : LR cis (set_log s1 []) hs' (x_step x o)).
    { apply (LR_step cis typed s hs x o _ hs' HR Hok Ha Hv0 Hv1 Em). rewrite Hlen. exact Hb. }
    exists (set_log s1 []), hs'. split; [exact Em|]. split; [|split; [exact Hlen|exact (Hnn1 HR')]].
    constructor; [exact HR'|apply TI_set_log; exact HT1|exact Hreg1|exact Hlen1]. }
  destruct (x_lock x) as [|n] eqn:El.
  - (* ---- not locked ---- *)
    assert (Hl0 : lockc s = 0) by congruence.
    destruct (LR_MInv _ _ _ _ HR El) as (al & HM).
    assert (Hc02 : alpha_b cis o = true ->
              exists s' hs', mstep typed (s, hs) o = Ok (s', hs') /\ LT cis s' hs' (x_step x o) /\
                             length hs' = length hs + (if ManagerTotal.is_create o then 1 else 0) /\
                             (NNl (bufs s) -> xiss_guard x o = true -> NNl (bufs s'))).
    { intros Ha2. destruct (mstep_total cis typed s hs al x o HM HT Ha2 Hr Hv0 Hv1) as (s' & hs' & Em & HT' & Hlen).
      destruct (mstep_unlocked_frame cis typed s hs al x o s' hs' HM Ha2 Em) as (F & _ & _).
      destruct (fr4_fields _ _ F) as (E1 & _ & _ & _ & E5 & E6 & _).
      exists s', hs'. split; [exact Em|]. split; [|split; [exact Hlen|intros H _; rewrite E6; exact H]].
      constructor; [|exact HT'|rewrite E6; exact Hreg|intros Hl; congruence].
      apply (LR_step cis typed s hs x o s' hs' HR Hok Ha Hv0 Hv1 Em). rewrite Hlen. exact Hb. }
    destruct o; simpl in Ha; try discriminate.
    + apply Hc02. exact Ha.
    + (* destroy(): the request waits for update() *)
      cbn [concretize] in Fin. apply (Fin (set_marked s (set_insert (marked s) (resolve hs k))) RNone).
      * unfold step. rewrite Hl0. reflexivity.
      * reflexivity.
      * apply TI_set_marked. exact HT.
      * exact Hreg.
      * intros Hl. exfalso. apply Hl. exact Hl0.
      * intros _ H _. exact H.
    + apply Hc02. reflexivity.
    + (* update() *)
      pose proof HR as [(al0 & HI) _ _ _ _ _ _ (M1 & _) _ _].
      set (s0 := set_wv (inc_wv s) (wv (inc_wv s)) (Some (wv (inc_wv s)))).
      assert (HI0 : LInv cis s0 hs al0 (xrem (concat (x_bufs x))) x) by (eapply LInv_frame; [| | | | | | |exact HI]; reflexivity).
      assert (Hb0 : within (length hs)) by (eapply within_le; [|exact Hb]; lia).
      destruct (destroy_list_total cis hs _ (marked s) s0 al0 x HI0 (TI_same cis s s0 HT eq_refl eq_refl eq_refl) Hb0 M1) as (s2 & E2 & HT2).
      destruct (LInv_destroy_list cis hs _ (marked s) s0 al0 x s2 HI0 Hb0 M1 E2) as (_ & _ & _ & F & _).
      destruct (fr4_fields _ _ F) as (E1 & _ & _ & _ & E5 & E6 & _).
      cbn [concretize] in Fin. apply (Fin (set_marked s2 []) RNone).
      * rewrite (step_update_unlocked s Hl0). fold s0. rewrite E2. reflexivity.
      * reflexivity.
      * apply TI_set_marked. exact HT2.
      * cbn [bufs set_marked]. rewrite E6. exact Hreg.
      * cbn [lockc set_marked]. rewrite E1. intros Hl. exfalso. apply Hl. exact Hl0.
      * intros _ H _. cbn [bufs set_marked]. rewrite E6. exact H.
    + (* lock() *)
      cbn [concretize] in Fin. apply (Fin (do_lock s) RNone); [reflexivity|reflexivity| | | |]; unfold do_lock; rewrite Hl0.
      * apply (TI_same cis s); [exact HT|reflexivity|reflexivity|reflexivity].
      * cbn [bufs set_eid set_bufs set_lock]. apply Forall_resize; [exact Hreg|constructor].
      * intros _. cbn [bufs nthreads set_eid set_bufs set_lock]. apply ManagerBasics.resize_length.
      * intros _ H _. cbn [bufs set_eid set_bufs set_lock]. apply Forall_resize; [exact H|constructor].
    + (* unlock() without lock(): an empty flush *)
      assert (Ex : x_step x XoUnlock = x_flush (xw_lock x 0)).
      { unfold x_step. simpl out_of_contract. cbv iota. unfold x_step_in. rewrite El. reflexivity. }
      assert (Hb0 : within (length hs)) by (eapply within_le; [|exact Hb]; lia).
      assert (Hpk : packs_ar s = true) by (simpl in Hg; rewrite Hl0 in Hg; exact Hg).
      destruct (flush_total cis s hs x HR Hok Hb0) as (s2 & Efl & HT2 & Eb2 & El2 & _); [rewrite <- Ex; congruence|exact HT|exact Hreg|exact Hpk|].
      cbn [concretize] in Fin. apply (Fin s2 (RBool true)).
      * rewrite step_unlock_flush by lia. rewrite Efl. reflexivity.
      * reflexivity.
      * exact HT2.
      * rewrite Eb2. apply all_nil_reg. apply all_nil_map_nil.
      * intros Hl. exfalso. apply Hl. exact El2.
      * intros _ _ _. rewrite Eb2. apply all_nil_nn. apply all_nil_map_nil.
    + apply Hc02. exact Ha.
    + apply Hc02. exact Ha.
    + apply Hc02. exact Ha.
  - (* ---- locked ---- *)
    assert (Hl1 : lockc s = S n) by congruence.
    assert (Hlne : lockc s <> 0) by (rewrite Hl1; discriminate).
    pose proof (lt_len _ _ _ _ HL Hlne) as Hlen.
    destruct (step_push_locked s n Hl1) as (Sd & Sdn & Srm).
    (* a command pushed to the caller's buffer *)
    assert (Push : forall tid c, tid_ok x tid = true -> cmd_reg (length cis) c ->
              exists s1, push_cmd s tid c = Ok s1 /\ TI cis s1 /\ Forall (Forall (cmd_reg (length cis))) (bufs s1) /\
                         (lockc s1 <> 0 -> length (bufs s1) = nthreads s1) /\
                         (cmd_handle c <> null_handle -> NNl (bufs s) -> NNl (bufs s1))).
    { intros tid c Ht Hc. destruct (tid_in_bufs cis s hs x tid HL Hlne Ht) as (b & tl & Hbuf & _).
      eexists. split; [apply (push_cmd_total s tid c b Hbuf)|]. split; [apply (TI_recf cis s); [exact HT|apply recf_with_rec]|].
      split; [rewrite ManagerDeferred.with_rec_bufs; apply reg_push; assumption|].
      split; [intros _; rewrite ManagerDeferred.with_rec_bufs, upd_length; exact Hlen|].
      intros Hnn H. rewrite ManagerDeferred.with_rec_bufs. apply nn_push; assumption. }
    destruct o; simpl in Ha; try discriminate.
    + (* create *)
      destruct sids; [|discriminate]. simpl in Hooc. rewrite El in Hooc. apply negb_false_iff in Hooc.
      cbn [reg_b] in Hr. apply mreg_b_ok in Hr.
      cbn [concretize] in Fin. rewrite (step_create_locked s tid m via_arch n Hl1) in Fin.
      destruct (tid_in_bufs cis s hs x tid HL Hlne Hooc) as (b & tl & Hbuf & _).
      destruct via_arch.
      * pose proof HR as [(al0 & HI) _ _ _ _ _ _ _ _ _].
        destruct (get_arch_TI cis s m HT (li_deps _ _ _ _ _ _ HI) Hr) as (s1 & ai & Ega & HT1).
        destruct (LR_get_arch cis s hs x m s1 ai HR Ega) as (_ & F1 & a & Ha1 & Hm & Hsh).
        destruct (fr4_fields _ _ (fr1_fr4 _ _ F1)) as (E1 & _ & _ & _ & E5 & E6 & _).
        assert (Hbuf1 : nth_error (bufs s1) tid = Some b) by (rewrite E6; exact Hbuf).
        destruct (create_locked_total s1 tid (am_mask a) (am_shared a) b Hbuf1) as (s2 & h & Ecl).
        destruct (ManagerDeferred.create_locked_spec _ _ _ _ _ _ Ecl) as (_ & b' & Hb' & Es2).
        rewrite Hbuf1 in Hb'. inversion Hb'; subst b'; clear Hb'.
        apply (Fin s2 (RHandle h)).
        -- rewrite Ega. cbn [bind]. rewrite (nth_res_some _ _ _ Ha1). cbn [bind]. rewrite Ecl. reflexivity.
        -- reflexivity.
        -- rewrite Es2. apply (TI_recf cis s1); [exact HT1|apply recf_with_rec].
        -- rewrite Es2, ManagerDeferred.with_rec_bufs, E6. apply reg_push; [exact Hreg|exact Hbuf|]. simpl. rewrite Hm. exact Hr.
        -- intros _. rewrite Es2, ManagerDeferred.with_rec_bufs, upd_length, E6, with_rec_nthreads, E5. exact Hlen.
        -- intros HR' H _. rewrite Es2, ManagerDeferred.with_rec_bufs, E6. apply nn_push; [exact H|exact Hbuf|].
           cbn [cmd_handle]. destruct (lr_inv _ _ _ _ HR') as (al' & HI'). rewrite <- (hnd_app_last hs h).
           apply (hnd_not_null _ _ _ _ _ (li_G _ _ _ _ _ _ HI')). rewrite app_length. cbn [length]. rewrite Nat.add_1_r. apply Nat.lt_succ_diag_r.
      * destruct (create_locked_total s tid m si_null b Hbuf) as (s2 & h & Ecl).
        destruct (ManagerDeferred.create_locked_spec _ _ _ _ _ _ Ecl) as (_ & b' & Hb' & Es2).
        rewrite Hbuf in Hb'. inversion Hb'; subst b'; clear Hb'.
        apply (Fin s2 (RHandle h)).
        -- rewrite Ecl. reflexivity.
        -- reflexivity.
        -- rewrite Es2. apply (TI_recf cis s); [exact HT|apply recf_with_rec].
        -- rewrite Es2, ManagerDeferred.with_rec_bufs. apply reg_push; [exact Hreg|exact Hbuf|]. simpl. exact Hr.
        -- intros _. rewrite Es2, ManagerDeferred.with_rec_bufs, upd_length, with_rec_nthreads. exact Hlen.
        -- intros HR' H _. rewrite Es2, ManagerDeferred.with_rec_bufs. apply nn_push; [exact H|exact Hbuf|].
           cbn [cmd_handle]. destruct (lr_inv _ _ _ _ HR') as (al' & HI'). rewrite <- (hnd_app_last hs h).
           apply (hnd_not_null _ _ _ _ _ (li_G _ _ _ _ _ _ HI')). rewrite app_length. cbn [length]. rewrite Nat.add_1_r. apply Nat.lt_succ_diag_r.
    + (* destroy *)
      simpl in Hooc. rewrite El in Hooc. apply negb_false_iff in Hooc.
      destruct (Push tid (ADestroy (resolve hs k)) Hooc I) as (s1 & Ep & HT1 & Hreg1 & Hlen1 & Hnn1).
      cbn [concretize] in Fin. apply (Fin s1 RNone); [rewrite Sd, Ep; reflexivity|reflexivity|assumption|assumption|assumption|].
      intros _ H Hi. apply Hnn1; [|exact H]. apply (iss_nonnull cis s hs x k n HR El Hi).
    + (* destroyNow *)
      simpl in Hooc. rewrite El in Hooc. apply negb_false_iff in Hooc.
      destruct (Push tid (ADestroyNow (resolve hs k)) Hooc I) as (s1 & Ep & HT1 & Hreg1 & Hlen1 & Hnn1).
      cbn [concretize] in Fin. apply (Fin s1 RNone); [rewrite Sdn, Ep; reflexivity|reflexivity|assumption|assumption|assumption|].
      intros _ H Hi. apply Hnn1; [|exact H]. apply (iss_nonnull cis s hs x k n HR El Hi).
    + (* update() while locked is outside the contract *)
      exfalso. unfold out_of_contract in Hooc. rewrite El in Hooc. discriminate.
    + (* nested lock() *)
      cbn [concretize] in Fin. apply (Fin (do_lock s) RNone); [reflexivity|reflexivity| | | |]; unfold do_lock; rewrite Hl1.
      * apply (TI_same cis s); [exact HT|reflexivity|reflexivity|reflexivity].
      * exact Hreg.
      * intros _. exact Hlen.
      * intros _ H _. exact H.
    + destruct n as [|n'].
      * (* the outermost unlock(): the flush *)
        assert (Ex : x_step x XoUnlock = x_flush (xw_lock x 0)).
        { unfold x_step. simpl out_of_contract. cbv iota. unfold x_step_in. rewrite El. reflexivity. }
        assert (Hb0 : within (length hs)) by (eapply within_le; [|exact Hb]; lia).
        assert (Hpk : packs_ar s = true) by (simpl in Hg; rewrite Hl1 in Hg; exact Hg).
        destruct (flush_total cis s hs x HR Hok Hb0) as (s2 & Efl & HT2 & Eb2 & El2 & _); [rewrite <- Ex; congruence|exact HT|exact Hreg|exact Hpk|].
        cbn [concretize] in Fin. apply (Fin s2 (RBool true)).
        -- rewrite step_unlock_flush by lia. rewrite Efl. reflexivity.
        -- reflexivity.
        -- exact HT2.
        -- rewrite Eb2. apply all_nil_reg. apply all_nil_map_nil.
        -- intros Hl. exfalso. apply Hl. exact El2.
        -- intros _ _ _. rewrite Eb2. apply all_nil_nn. apply all_nil_map_nil.
      * (* a nested unlock() *)
        cbn [concretize] in Fin. apply (Fin (set_lock s (S n')) (RBool false)).
        -- apply (ManagerIsolation.nested_unlock_does_not_flush s n' Hl1).
        -- reflexivity.
        -- apply (TI_same cis s); [exact HT|reflexivity|reflexivity|reflexivity].
        -- exact Hreg.
        -- intros _. exact Hlen.
        -- intros _ H _. exact H.
    + (* assign: the temporary *)
      apply andb_true_iff in Ha. destruct Ha as (Hc & Hhv). apply Nat.ltb_lt in Hc.
      cbn [reg_b] in Hr. apply Nat.ltb_lt in Hr.
      simpl in Hooc. rewrite El in Hooc. apply negb_false_iff in Hooc.
      destruct (tid_in_bufs cis s hs x tid HL Hlne Hooc) as (b & tl & Hbuf & Htl).
      pose proof HR as [(al0 & HI) _ _ _ _ _ _ _ _ _]. pose proof (li_cis _ _ _ _ _ _ HI) as Hcis.
      assert (Htid : tid < length (tmps s)) by (eapply nth_error_lt'; exact Htl).
      cbn [concretize] in Fin. rewrite (ManagerDeferred.step_assign_locked s tid _ c _ typed n Hl1) in Fin.
      destruct (info_of_total s c) as (inf & Einf); [rewrite Hcis; exact Hr|]. rewrite Einf in Fin. cbn [bind] in Fin.
      match type of Fin with context [assign_locked s tid ?h c ?sk] =>
        destruct (assign_locked_total s tid h c sk b tl) as (s1 & nn & Eal); [rewrite Hcis; exact Hr|exact Hbuf|exact Htl|] end.
      destruct (ManagerDeferred.assign_locked_spec _ _ _ _ _ _ _ Eal) as (inf' & b' & tl' & _ & Hb' & Htl' & -> & Es1).
      rewrite Hbuf in Hb'. inversion Hb'; subst b'; clear Hb'. rewrite Htl in Htl'. inversion Htl'; subst tl'; clear Htl'.
      rewrite Eal in Fin. cbn [bind fst snd] in Fin.
      assert (R1 : recf s s1) by (rewrite Es1; apply recf_with_rec).
      assert (B1 : bufs s1 = upd (bufs s) tid (b ++ [AAssign (resolve hs k) c (length tl)])) by (rewrite Es1; reflexivity).
      assert (Concl : forall sF, recf s sF -> bufs sF = bufs s1 ->
                TI cis sF /\ Forall (Forall (cmd_reg (length cis))) (bufs sF) /\ (lockc sF <> 0 -> length (bufs sF) = nthreads sF) /\
                (NNl (bufs s) -> xiss_guard x (XoAssign tid k c v) = true -> NNl (bufs sF))).
      { intros sF RF BF. split; [apply (TI_recf cis s); assumption|]. rewrite BF, B1.
        split; [apply reg_push; [exact Hreg|exact Hbuf|exact Hr]|].
        split; [intros _; rewrite upd_length; destruct RF as (_ & _ & _ & _ & E); rewrite E; exact Hlen|].
        intros H Hi. apply nn_push; [exact H|exact Hbuf|]. apply (iss_nonnull cis s hs x k n HR El Hi). }
      destruct v as [z|].
      * assert (K : exists s2, (if ci_hasval inf then write_tmp s1 tid (length tl) (Some z) else Ok s1) = Ok s2 /\ recf s s2 /\ bufs s2 = bufs s1).
        { destruct (ci_hasval inf); [|exists s1; auto].
          assert (Htl1 : nth_error (tmps s1) tid = Some (tl ++ [ManagerDeferred.al_value inf' typed])).
          { rewrite Es1, ManagerDeferred.with_rec_tmps. apply nth_error_upd_same. exact Htid. }
          destruct (write_tmp_total s1 tid (length tl) (Some z) _ Htl1) as (s2 & Ew); [rewrite app_length; simpl; lia|].
          destruct (ManagerDeferred.write_tmp_spec _ _ _ _ _ Ew) as (tl2 & _ & _ & Es2).
          exists s2. split; [exact Ew|]. rewrite Es2. split; [eapply recf_trans; [exact R1|apply recf_with_rec]|reflexivity]. }
        destruct K as (s2 & Ew & R2 & B2). rewrite Ew in Fin. cbn [bind] in Fin.
        match type of Fin with forall s1' out', Ok (?sF, RNone) = _ -> _ =>
          destruct (Concl sF) as (C1 & C2 & C3 & C4);
            [destruct typed; [eapply recf_trans; [exact R2|apply recf_emit_if]|exact R2]
            |destruct typed; [destruct (ci_ev inf)|]; exact B2
            |apply (Fin sF RNone eq_refl eq_refl C1 C2 C3 (fun _ => C4))] end.
      * destruct (Concl s1 R1 eq_refl) as (C1 & C2 & C3 & C4). apply (Fin s1 RNone eq_refl eq_refl C1 C2 C3 (fun _ => C4)).
    + (* removeComponent *)
      simpl in Hooc. rewrite El in Hooc. apply negb_false_iff in Hooc.
      destruct (Push tid (ARemove (resolve hs k) c) Hooc I) as (s1 & Ep & HT1 & Hreg1 & Hlen1 & Hnn1).
      cbn [concretize] in Fin. apply (Fin s1 RNone); [rewrite Srm, Ep; reflexivity|reflexivity|assumption|assumption|assumption|].
      intros _ H Hi. apply Hnn1; [|exact H]. apply (iss_nonnull cis s hs x k n HR El Hi).
    + (* the write through getComponent<T>() is immediate *)
      apply Nat.ltb_lt in Ha. pose proof HR as [(al0 & HI) _ _ _ _ _ _ _ _ _].
      cbn [concretize] in Fin. rewrite resolve_hnd in Fin.
      destruct (step_set_total_l cis s hs al0 _ x k c v HI HT Ha) as (s1 & p & w & E & HT1).
      destruct (fr_getmut _ _ _ _ _ _ E) as (F & _). destruct (fr4_fields _ _ F) as (E1 & _ & _ & _ & E5 & E6 & _).
      apply (Fin s1 (RCell p w) E); [reflexivity|exact HT1|rewrite E6; exact Hreg|intros _; rewrite E6, E5; exact Hlen|].
      intros _ H _. rewrite E6. exact H.
Qed.

(* ---------------------------------------------------------------------------------------- *)
(* the run; the contract is checked on the model's buffers whenever an unlock flushes (a run that ended in Err
   earlier would not be asked anything more: the theorem shows there is none) *)
Fixpoint ar_run (typed : bool) (ops : list xop) (st : mst * list handle) : bool :=
  match ops with
  | [] => true
  | o :: t => ar_guard (fst st) o && match mstep typed st o with Ok st' => ar_run typed t st' | Err _ => true end
  end.
Definition ar_script (typed : bool) (n : nat) (cis : list cinfo) (ops : list xop) : bool := ar_run typed ops (init n cis, []).

Lemma LT_init n cis : LT cis (init n cis) [] (x_init n cis).
Proof. constructor; [apply LR_init|apply TI_init|constructor|intros H; exfalso; apply H; reflexivity]. Qed.

Lemma runL_total cis typed : forall ops s hs x,
  LT cis s hs x -> cis_ok cis -> forallb (alphaL_b cis) ops = true -> forallb (reg_b cis) ops = true ->
  x_viol x = 0 -> x_viol (fold_left x_step ops x) = 0 -> ar_run typed ops (s, hs) = true ->
  within (length hs + creates ops) ->
  exists s' hs', fold_res (mstep typed) ops (s, hs) = Ok (s', hs') /\ length hs' = length hs + creates ops /\
                 LT cis s' hs' (fold_left x_step ops x).
Proof.
  induction ops as [|o t IH]; intros s hs x HL Hok Ha Hr Hv0 Hv1 Hg Hb.
  - exists s, hs. split; [reflexivity|]. split; [unfold creates; simpl; lia|exact HL].
  - cbn [forallb] in Ha, Hr. apply andb_true_iff in Ha. destruct Ha as (Ho & Ht). apply andb_true_iff in Hr. destruct Hr as (Hro & Hrt).
    cbn [fold_left] in Hv1 |- *. cbn [ar_run fst] in Hg. apply andb_true_iff in Hg. destruct Hg as (Hgo & Hgt).
    assert (Hv1' : x_viol (x_step x o) = 0).
    { pose proof (x_viol_runL_mono cis t (x_step x o) Ht). lia. }
    rewrite creates_cons in Hb.
    destruct (mstepL_total cis typed s hs x o HL Hok Ho Hro Hv0 Hv1' Hgo) as (s1 & hs1 & E1 & HL1 & Hlen1 & _).
    { eapply within_le; [|exact Hb]. lia. }
    rewrite E1 in Hgt.
    destruct (IH s1 hs1 (x_step x o) HL1 Hok Ht Hrt Hv1' Hv1 Hgt) as (s' & hs' & E & Hlen & HL').
    { eapply within_le; [|exact Hb]. lia. }
    exists s', hs'. cbn [fold_res]. rewrite E1. cbn [bind]. split; [exact E|]. split; [rewrite creates_cons; lia|exact HL'].
Qed.

(* for every script over the alphabet with lock / unlock that names described component ids only, stays inside the
   contract (x_viol = 0) and whose packs satisfy pack_ar at every flush, the model run does not end in Err *)
Theorem locked_run_total_packs typed n cis ops :
  cis_ok cis -> forallb (alphaL_b cis) ops = true -> forallb (reg_b cis) ops = true ->
  x_viol (xrun n cis ops) = 0 -> within (creates ops) -> ar_script typed n cis ops = true ->
  exists s hs, mrun typed n cis ops = Ok (s, hs) /\ length hs = creates ops.
Proof.
  intros Hok Ha Hr Hv Hb Hg. unfold mrun. unfold xrun in Hv.
  destruct (runL_total cis typed ops (init n cis) [] (x_init n cis) (LT_init n cis) Hok Ha Hr eq_refl Hv Hg Hb) as (s & hs & E & Hlen & _).
  exists s, hs. split; [exact E|exact Hlen].
Qed.

Theorem locked_refines_total_packs typed n cis ops :
  cis_ok cis -> forallb (alphaL_b cis) ops = true -> forallb (reg_b cis) ops = true ->
  x_viol (xrun n cis ops) = 0 -> within (creates ops) -> ar_script typed n cis ops = true ->
  refines_on typed n cis ops = true.
Proof.
  intros Hok Ha Hr Hv Hb Hg. destruct (locked_run_total_packs typed n cis ops Hok Ha Hr Hv Hb Hg) as (s & hs & E & Hlen).
  apply (locked_refines_on typed n cis ops s hs Hok Ha E Hv). rewrite Hlen. exact Hb.
Qed.

(* ... and the reached state satisfies the invariant (relation, shapes, registered commands) *)
Theorem locked_run_total_LT typed n cis ops :
  cis_ok cis -> forallb (alphaL_b cis) ops = true -> forallb (reg_b cis) ops = true ->
  x_viol (xrun n cis ops) = 0 -> within (creates ops) -> ar_script typed n cis ops = true ->
  exists s hs, mrun typed n cis ops = Ok (s, hs) /\ length hs = creates ops /\ LT cis s hs (xrun n cis ops).
Proof.
  intros Hok Ha Hr Hv Hb Hg. unfold mrun. unfold xrun in *.
  destruct (runL_total cis typed ops (init n cis) [] (x_init n cis) (LT_init n cis) Hok Ha Hr eq_refl Hv Hg Hb) as (s & hs & E & Hlen & HL).
  exists s, hs. split; [exact E|]. split; [exact Hlen|exact HL].
Qed.

Theorem locked_run_LT typed n cis ops s hs :
  cis_ok cis -> forallb (alphaL_b cis) ops = true -> forallb (reg_b cis) ops = true ->
  x_viol (xrun n cis ops) = 0 -> within (creates ops) -> ar_script typed n cis ops = true ->
  mrun typed n cis ops = Ok (s, hs) -> LT cis s hs (xrun n cis ops).
Proof.
  intros Hok Ha Hr Hv Hb Hg H. destruct (locked_run_total_LT typed n cis ops Hok Ha Hr Hv Hb Hg) as (s' & hs' & E & _ & HL).
  rewrite E in H. inversion H; subst. exact HL.
Qed.
