Require Import Coq.Lists.List Coq.NArith.NArith Coq.Arith.Arith Coq.Bool.Bool Coq.micromega.Lia Coq.Sorting.Permutation.
From Mustache Require Import Worlds.
From Mustache.proofs Require Import ListLemmas.
Import ListNotations.
Local Open Scope N_scope.

(* every id below next is either in the pool or live, exactly once; next counts them *)
Definition WInv (s : wst) : Prop :=
  NoDup (w_pool s ++ w_live s) /\
  (forall x, In x (w_pool s ++ w_live s) -> x < w_next s) /\
  N.of_nat (length (w_pool s ++ w_live s)) = w_next s /\
  w_next s <= 1024.

Lemma pool_insert_in l x y : In y (pool_insert l x) <-> y = x \/ In y l.
Proof.
  induction l as [|a t IH]; simpl.
  - intuition.
  - destruct (N.eqb_spec x a).
    + subst. simpl. intuition.
    + destruct (x <? a); simpl; [intuition|]. rewrite IH. intuition.
Qed.

Lemma pool_insert_nodup l x : NoDup l -> ~ In x l -> NoDup (pool_insert l x).
Proof.
  induction l as [|a t IH]; intros Hn Hx; simpl.
  - constructor; [intros []|constructor].
  - destruct (N.eqb_spec x a); [subst; exfalso; apply Hx; left; reflexivity|].
    destruct (x <? a).
    + constructor; assumption.
    + inversion Hn; subst. constructor.
      * rewrite pool_insert_in. intros [E|E]; [congruence|contradiction].
      * apply IH; [assumption|]. intros H; apply Hx; right; assumption.
Qed.

Lemma pool_insert_length l x : ~ In x l -> length (pool_insert l x) = S (length l).
Proof.
  induction l as [|a t IH]; intros Hx; simpl; [reflexivity|].
  destruct (N.eqb_spec x a); [subst; exfalso; apply Hx; left; reflexivity|].
  destruct (x <? a); simpl; [reflexivity|]. rewrite IH; [reflexivity|]. intros H; apply Hx; right; assumption.
Qed.

Lemma remove_first_in l x y : NoDup l -> (In y (remove_first l x) <-> In y l /\ y <> x).
Proof.
  induction l as [|a t IH]; intros Hn; simpl; [intuition|].
  inversion Hn; subst.
  destruct (N.eqb_spec x a).
  - subst. split; [intros H; split; [right; assumption|intros ->; contradiction] | intros [[E|E] Hne]; [congruence|assumption]].
  - simpl. rewrite IH by assumption. split; [intros [E|[E1 E2]]; [subst; split; [left; reflexivity|congruence]|split; [right; assumption|assumption]]
                                            | intros [[E|E] Hne]; [left; assumption|right; split; assumption]].
Qed.

Lemma remove_first_nodup l x : NoDup l -> NoDup (remove_first l x).
Proof.
  induction l as [|a t IH]; intros Hn; simpl; [constructor|]. inversion Hn; subst.
  destruct (x =? a); [assumption|]. constructor; [|apply IH; assumption].
  rewrite remove_first_in by assumption. intros [H _]; contradiction.
Qed.

Lemma remove_first_length l x : In x l -> length (remove_first l x) = pred (length l).
Proof.
  induction l as [|a t IH]; intros Hx; simpl; [contradiction|].
  destruct (N.eqb_spec x a); [reflexivity|]. destruct Hx as [E|E]; [congruence|].
  simpl. rewrite IH by assumption. destruct t; [contradiction|reflexivity].
Qed.

Lemma existsb_eqb_in id l : existsb (N.eqb id) l = true <-> In id l.
Proof.
  rewrite existsb_exists. split; [intros (x & Hx & E); apply N.eqb_eq in E; subst; assumption | intros H; exists id; split; [assumption|apply N.eqb_refl]].
Qed.

Lemma winv_init : WInv w_init.
Proof. unfold WInv, w_init; simpl. repeat split; [constructor | intros x [] | lia]. Qed.

Lemma winv_step s o s' r : WInv s -> op_ok s o = true -> w_step s o = (s', r) -> WInv s'.
Proof.
  intros (Hnd & Hlt & Hlen & Hmax) Hok Hstep. destruct o as [|id]; simpl in *.
  - apply Nat.ltb_lt in Hok.
    destruct (w_pool s) as [|x t] eqn:Ep; inversion Hstep; subst; clear Hstep; unfold WInv; simpl in *.
    + (* fresh id = next *)
      assert (Hn : w_next s < 1024).
      { rewrite <- Hlen. unfold MAX_WORLDS in Hok. lia. }
      rewrite N.mod_small by lia.
      repeat split.
      * constructor; [|assumption]. intros Hin. apply Hlt in Hin. lia.
      * intros y [E|E]; [subst; lia | apply Hlt in E; lia].
      * rewrite <- Hlen. lia.
      * lia.
    + (* smallest id of the pool *)
      repeat split.
      * eapply Permutation_NoDup; [apply Permutation_middle|assumption].
      * intros y Hy. apply Hlt. apply in_app_or in Hy. destruct Hy as [Hy|[Hy|Hy]].
        -- right; apply in_or_app; left; assumption.
        -- left; assumption.
        -- right; apply in_or_app; right; assumption.
      * rewrite <- Hlen. rewrite !app_length. simpl. lia.
      * assumption.
  - apply existsb_eqb_in in Hok. inversion Hstep; subst; clear Hstep. unfold WInv; simpl.
    destruct (nodup_app_inv _ _ Hnd) as (Hnpool & Hnl & Hdis).
    assert (Hnp : ~ In id (w_pool s)) by (intros Hin; exact (Hdis _ Hin Hok)).
    repeat split.
    + apply nodup_app_intro; [apply pool_insert_nodup; assumption | apply remove_first_nodup; assumption |].
      intros y Hy Hy2. rewrite pool_insert_in in Hy. rewrite remove_first_in in Hy2 by assumption.
      destruct Hy2 as [Hy2 Hne]. destruct Hy as [E|E]; [congruence|]. exact (Hdis _ E Hy2).
    + intros y Hy. apply Hlt. apply in_app_or in Hy. destruct Hy as [Hy|Hy].
      * rewrite pool_insert_in in Hy. destruct Hy as [E|E]; [subst; apply in_or_app; right; assumption | apply in_or_app; left; assumption].
      * rewrite remove_first_in in Hy by assumption. apply in_or_app; right; tauto.
    + rewrite <- Hlen. rewrite !app_length. rewrite pool_insert_length by assumption.
      rewrite remove_first_length by assumption. destruct (w_live s); [contradiction|simpl; lia].
    + assumption.
Qed.

(* the id a creation returns is below 1024 and differs from every live world's id *)
Lemma new_id_fresh s s' i : WInv s -> op_ok s WNew = true -> w_step s WNew = (s', Some i) ->
  i < 1024 /\ ~ In i (w_live s) /\ In i (w_live s').
Proof.
  intros Hinv Hok Hstep. pose proof (winv_step s WNew s' (Some i) Hinv Hok Hstep) as (Hnd' & Hlt' & _ & Hmax').
  destruct Hinv as (Hnd & Hlt & Hlen & Hmax). simpl in *.
  destruct (w_pool s) as [|x t] eqn:Ep; inversion Hstep; subst; clear Hstep; simpl in *.
  - repeat split; [|intros Hin; apply Hlt in Hin; lia|left; reflexivity].
    apply Nat.ltb_lt in Hok. unfold MAX_WORLDS in Hok. lia.
  - repeat split; [|inversion Hnd; subst; intros Hin; apply H1; apply in_or_app; right; assumption|left; reflexivity].
    assert (i < w_next s) by (apply Hlt; left; reflexivity). lia.
Qed.

Lemma run_inv : forall ops s s' ids, WInv s -> w_run s ops = Some (s', ids) ->
  WInv s' /\ Forall (fun i => i < 1024) ids.
Proof.
  induction ops as [|o t IH]; intros s s' ids Hinv Hrun; simpl in Hrun.
  - inversion Hrun; subst. split; [assumption|constructor].
  - destruct (op_ok s o) eqn:Hok; [|discriminate].
    destruct (w_step s o) as [s1 r] eqn:Hstep.
    destruct (w_run s1 t) as [[s2 ids2]|] eqn:Hr; [|discriminate].
    inversion Hrun; subst; clear Hrun.
    pose proof (winv_step _ _ _ _ Hinv Hok Hstep) as Hinv1.
    destruct (IH _ _ _ Hinv1 Hr) as (Hinv2 & Hall).
    split; [assumption|].
    destruct r as [i|]; [|assumption]. constructor; [|assumption].
    destruct o; [|simpl in Hstep; inversion Hstep].
    exact (proj1 (new_id_fresh _ _ _ Hinv Hok Hstep)).
Qed.
