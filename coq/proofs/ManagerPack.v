(* C05: one command pack (the consecutive commands of one thread on one entity) against the specification's
   one-command-at-a-time meaning.
   - crel / brel: the relation between the model's recorded commands (handles, numbered temporaries) and the
     specification's (issue numbers, assigned values); commands through the null handle (a handle not issued yet)
     are recorded by the model and mean nothing;
   - the specification side: what a command does to a live / a dead entity; the violation counter never decreases;
   - pack_loop_sim: the mask loop of applyCommandPack against the fold of x_cmd over the commands of the pack;
   - wr_fold: the loop that move-constructs the assigned temporaries into the archetype: the value written through
     write_tmp is the value that arrives in the cell (the last assignment of a component wins). *)
Require Import Coq.Lists.List Coq.NArith.NArith Coq.ZArith.ZArith Coq.Arith.Arith Coq.Bool.Bool Coq.micromega.Lia.
From Mustache Require Import Res Manager MgrSpec Refine.
From Mustache Require Skeleton.
From Mustache Require Import SkelSpec.
From Mustache.proofs Require Import ListLemmas SkelBasics SkelInv SkelSteps SkelRefine SkelLocked SkelFlush SkelMove SkelMoveRem ClosureProofs
  ManagerBasics ManagerMoves ManagerProj ManagerInv ManagerMain ManagerLInv.
Import ListNotations.

(* ---------------------------------------------------------------------------------------- *)
(* recorded commands: model against specification *)
Definition cellof (cis : list cinfo) (c : nat) (v : option Z) : cell :=
  match v with Some z => Some z | None => default_cell cis c end.

Definition crel (cis : list cinfo) (hs : list handle) (tl : list cell) (c : acmd) (xc : xcmd) : Prop :=
  match c, xc with
  | ACreate h ha m sh, XCreate k m' sh' =>
    k < length hs /\ hnd hs k = h /\ m' = m /\ sh' = [] /\ sh = si_null /\ ha = negb (m =? 0)%N
  | ADestroy h, XDestroy k => k < length hs /\ hnd hs k = h
  | ADestroyNow h, XDestroyNow k => k < length hs /\ hnd hs k = h
  | ARemove h c, XRemove k c' => k < length hs /\ hnd hs k = h /\ c' = c /\ c < MASK_BITS
  | AAssign h c n, XAssign k c' v =>
    k < length hs /\ hnd hs k = h /\ c' = c /\ c < MASK_BITS /\ nth_error tl n = Some (cellof cis c v)
  | _, _ => False
  end.

Definition is_create (c : acmd) : bool := match c with ACreate _ _ _ _ => true | _ => false end.

Inductive brel (cis : list cinfo) (hs : list handle) (tl : list cell) : list acmd -> list xcmd -> Prop :=
| br_nil : brel cis hs tl [] []
| br_skip c b xb : cmd_handle c = null_handle -> is_create c = false -> brel cis hs tl b xb -> brel cis hs tl (c :: b) xb
| br_cons c xc b xb : crel cis hs tl c xc -> brel cis hs tl b xb -> brel cis hs tl (c :: b) (xc :: xb).

Definition xkey (xc : xcmd) : nat :=
  match xc with XCreate k _ _ | XDestroy k | XDestroyNow k | XAssign k _ _ | XRemove k _ => k end.
Definition x_is_create (xc : xcmd) : bool := match xc with XCreate _ _ _ => true | _ => false end.

Lemma crel_key cis hs tl c xc : crel cis hs tl c xc ->
  xkey xc < length hs /\ hnd hs (xkey xc) = cmd_handle c /\ x_is_create xc = is_create c.
Proof. destruct c, xc; simpl; try contradiction; intros H; decompose [and] H; auto. Qed.

Lemma brel_app cis hs tl b xb b' xb' : brel cis hs tl b xb -> brel cis hs tl b' xb' -> brel cis hs tl (b ++ b') (xb ++ xb').
Proof. intros H H'. induction H; simpl; [exact H'|apply br_skip; assumption|apply br_cons; assumption]. Qed.

Lemma brel_app_inv cis hs tl p : forall r xb, brel cis hs tl (p ++ r) xb ->
  exists xp xr, xb = xp ++ xr /\ brel cis hs tl p xp /\ brel cis hs tl r xr.
Proof.
  induction p as [|c p IH]; intros r xb H; simpl in H.
  - exists [], xb. split; [reflexivity|]. split; [constructor|exact H].
  - inversion H as [|c' b' xb' Hn Hc Hb|c' xc b' xb' Hc Hb]; subst.
    + destruct (IH _ _ Hb) as (xp & xr & -> & Hp & Hr). exists xp, xr. split; [reflexivity|]. split; [apply br_skip; assumption|exact Hr].
    + destruct (IH _ _ Hb) as (xp & xr & -> & Hp & Hr). exists (xc :: xp), xr. split; [reflexivity|]. split; [apply br_cons; assumption|exact Hr].
Qed.

Lemma crel_mono cis hs tl h tl' c xc : crel cis hs tl c xc -> crel cis (hs ++ [h]) (tl ++ tl') c xc.
Proof.
  destruct c, xc; simpl; try contradiction; intros H; decompose [and] H; rewrite app_length, hnd_app1 by assumption;
    repeat (split; [first [assumption|lia]|]); try assumption; try lia.
  rewrite nth_error_app1; [assumption|]. apply nth_error_Some. congruence.
Qed.

Lemma crel_tl cis hs tl tl' c xc : crel cis hs tl c xc -> crel cis hs (tl ++ tl') c xc.
Proof.
  destruct c, xc; simpl; try contradiction; intros H; decompose [and] H; repeat (split; [assumption|]); try assumption.
  rewrite nth_error_app1; [assumption|]. apply nth_error_Some. congruence.
Qed.

Lemma brel_mono cis hs tl h tl' b xb : brel cis hs tl b xb -> brel cis (hs ++ [h]) (tl ++ tl') b xb.
Proof. induction 1; [constructor|apply br_skip; assumption|apply br_cons; [apply crel_mono; assumption|assumption]]. Qed.

Lemma brel_tl cis hs tl tl' b xb : brel cis hs tl b xb -> brel cis hs (tl ++ tl') b xb.
Proof. induction 1; [constructor|apply br_skip; assumption|apply br_cons; [apply crel_tl; assumption|assumption]]. Qed.

(* every recorded handle is the null handle or an issued one *)
Lemma brel_handles cis hs tl b xb : brel cis hs tl b xb -> forall c, In c b -> cmd_handle c = null_handle \/ In (cmd_handle c) hs.
Proof.
  induction 1 as [|c b xb Hn Hc Hb IH|c xc b xb Hc Hb IH]; intros c' Hin; [contradiction| |].
  - destruct Hin as [<-|Hin]; [left; exact Hn|apply IH; exact Hin].
  - destruct Hin as [<-|Hin]; [|apply IH; exact Hin]. destruct (crel_key _ _ _ _ _ Hc) as (Hk & E & _). right. rewrite <- E. apply nth_In_hnd. exact Hk.
Qed.

(* the commands of a run on one issued handle are related one to one; those of a run on the null handle mean nothing *)
Lemma brel_issued cis hs tl h : h <> null_handle -> forall b xb, Forall (fun c => cmd_handle c = h) b -> brel cis hs tl b xb ->
  Forall2 (crel cis hs tl) b xb.
Proof.
  intros Hn b xb Hall H. induction H as [|c b xb Hnull Hc Hb IH|c xc b xb Hc Hb IH]; [constructor| |].
  - inversion Hall; subst. congruence.
  - inversion Hall; subst. constructor; [exact Hc|apply IH; assumption].
Qed.

Lemma brel_null cis hs tl s al rem : G s hs al rem -> forall b xb, Forall (fun c => cmd_handle c = null_handle) b -> brel cis hs tl b xb -> xb = [].
Proof.
  intros HG b xb Hall H. induction H as [|c b xb Hnull Hc Hb IH|c xc b xb Hc Hb IH]; [reflexivity| |].
  - inversion Hall; subst. apply IH. assumption.
  - inversion Hall as [|? ? Hh Ht]; subst. destruct (crel_key _ _ _ _ _ Hc) as (Hk & E & _). exfalso.
    apply (hnd_not_null _ _ _ _ _ HG Hk). rewrite E. exact Hh.
Qed.

(* ---------------------------------------------------------------------------------------- *)
(* the specification side *)
(* everything of the abstract state but the entities, the attachment counters and the marked set *)
Definition xfm (x : xst) : xst := xw_marked (xfr x) [].
Lemma xfr_xfm x x' : xfr x' = xfr x -> xfm x' = xfm x.
Proof. intros H. unfold xfm. rewrite H. reflexivity. Qed.
Lemma xfm_fields x x' : xfm x' = xfm x ->
  x_lock x' = x_lock x /\ x_deps x' = x_deps x /\ x_cinfos x' = x_cinfos x /\ x_count x' = x_count x /\ x_viol x' = x_viol x /\
  x_bufs x' = x_bufs x /\ x_nthr x' = x_nthr x.
Proof.
  intros H. repeat split.
  - apply (f_equal x_lock) in H. exact H.
  - apply (f_equal x_deps) in H. exact H.
  - apply (f_equal x_cinfos) in H. exact H.
  - apply (f_equal x_count) in H. exact H.
  - apply (f_equal x_viol) in H. exact H.
  - apply (f_equal x_bufs) in H. exact H.
  - apply (f_equal x_nthr) in H. exact H.
Qed.

(* x' differs from x at most in entity k, the attachment counters and the marked set *)
Definition xsame (k : nat) (x x' : xst) : Prop := xfm x' = xfm x /\ forall k', k' <> k -> find_ent x' k' = find_ent x k'.
Lemma xsame_refl k x : xsame k x x. Proof. split; reflexivity. Qed.
Lemma xsame_trans k a b c : xsame k a b -> xsame k b c -> xsame k a c.
Proof. intros (A1 & A2) (B1 & B2). split; [congruence|]. intros k' Hk. rewrite B2, A2 by exact Hk. reflexivity. Qed.

Lemma x_viol_cmd_le x xc : x_viol x <= x_viol (x_cmd x xc).
Proof.
  destruct xc; simpl.
  - rewrite x_viol_create. lia.
  - destruct (alive_x x k); simpl; lia.
  - rewrite x_viol_kill. lia.
  - apply x_viol_assign.
  - rewrite x_viol_remove. lia.
Qed.

Lemma x_viol_fold_le : forall l x, x_viol x <= x_viol (fold_left x_cmd l x).
Proof. induction l as [|c t IH]; intros x; simpl; [lia|]. pose proof (x_viol_cmd_le x c). pose proof (IH (x_cmd x c)). lia. Qed.

Lemma x_viol_bufs_le : forall l x, x_viol x <= x_viol (fold_left (fun st b => fold_left x_cmd b st) l x).
Proof. induction l as [|b t IH]; intros x; simpl; [lia|]. pose proof (x_viol_fold_le b x). pose proof (IH (fold_left x_cmd b x)). lia. Qed.

Lemma viol_head x xc l : x_viol (fold_left x_cmd l (x_cmd x xc)) = x_viol x ->
  x_viol (x_cmd x xc) = x_viol x /\ x_viol (fold_left x_cmd l (x_cmd x xc)) = x_viol (x_cmd x xc).
Proof. intros H. pose proof (x_viol_cmd_le x xc). pose proof (x_viol_fold_le l (x_cmd x xc)). lia. Qed.

Lemma viol_app x l1 l2 : x_viol (fold_left x_cmd (l1 ++ l2) x) = x_viol x ->
  x_viol (fold_left x_cmd l1 x) = x_viol x /\ x_viol (fold_left x_cmd l2 (fold_left x_cmd l1 x)) = x_viol (fold_left x_cmd l1 x).
Proof. rewrite fold_left_app. intros H. pose proof (x_viol_fold_le l1 x). pose proof (x_viol_fold_le l2 (fold_left x_cmd l1 x)). lia. Qed.

(* a command on an entity that is not alive means nothing *)
Lemma x_cmd_dead x xc : x_is_create xc = false -> find_ent x (xkey xc) = None -> x_cmd x xc = x.
Proof.
  destruct xc; simpl; intros Hc Hf; try discriminate.
  - unfold alive_x. rewrite Hf. reflexivity.
  - unfold x_kill. rewrite Hf. reflexivity.
  - unfold x_assign. rewrite Hf. reflexivity.
  - unfold x_remove. rewrite Hf. reflexivity.
Qed.

Lemma x_fold_dead k : forall l x, Forall (fun xc => x_is_create xc = false /\ xkey xc = k) l -> find_ent x k = None -> fold_left x_cmd l x = x.
Proof.
  induction l as [|xc t IH]; intros x Hl Hf; simpl; [reflexivity|]. inversion Hl as [|? ? (Hc & Hk) Ht]; subst.
  rewrite x_cmd_dead by assumption. apply IH; assumption.
Qed.

(* the commands of a run on handle h = #k *)
Lemma crel_on cis hs tl h k : NoDup hs -> k < length hs -> hnd hs k = h ->
  forall t xt, Forall2 (crel cis hs tl) t xt -> Forall (fun c => cmd_handle c = h) t -> Forall (fun c => is_create c = false) t ->
  Forall (fun xc => x_is_create xc = false /\ xkey xc = k) xt.
Proof.
  intros Hnd Hk Eh t xt H. induction H as [|c xc t xt Hc Ht IH]; intros Hall Hnc; [constructor|].
  inversion Hall; subst. inversion Hnc; subst. constructor; [|apply IH; assumption].
  destruct (crel_key _ _ _ _ _ Hc) as (Hk' & E & Ec). split; [congruence|].
  apply (proj1 (NoDup_nth hs Skeleton.null_handle) Hnd); [exact Hk'|exact Hk|]. fold (hnd hs (xkey xc)). fold (hnd hs k). congruence.
Qed.

Lemma filter_notin (l : list nat) c : ~ In c l -> filter (fun x => negb (Nat.eqb x c)) l = l.
Proof.
  induction l as [|y t IH]; intros H; simpl; [reflexivity|]. destruct (Nat.eqb_spec y c) as [->|Hne]; simpl.
  - exfalso. apply H. left. reflexivity.
  - f_equal. apply IH. intros Hin. apply H. right. exact Hin.
Qed.

Lemma set_marked_id s : set_marked s (marked s) = s.
Proof. destruct s; reflexivity. Qed.

Lemma mset_insert_eq l h : Manager.set_insert l h = Skeleton.set_insert l h.
Proof. induction l as [|x t IH]; simpl; [reflexivity|]. rewrite IH. reflexivity. Qed.

Lemma MR_insert_m hs m sm k : NoDup hs -> k < length hs -> MR hs m sm -> MR hs (Manager.set_insert m (hnd hs k)) (k :: sm).
Proof. intros. rewrite mset_insert_eq. apply MR_insert; assumption. Qed.

(* ---------------------------------------------------------------------------------------- *)
(* the value the last assign command of component c in a run carries *)
Fixpoint last_asg (tl : list cell) (t : list acmd) (c : nat) : option cell :=
  match t with
  | [] => None
  | AAssign _ c' n :: t' =>
    match last_asg tl t' c with Some w => Some w | None => if Nat.eqb c' c then Some (nth n tl None) else None end
  | _ :: t' => last_asg tl t' c
  end.

Definition is_some {A} (o : option A) : bool := match o with Some _ => true | None => false end.

(* ---------------------------------------------------------------------------------------- *)
(* the mask loop of applyCommandPack against the commands of the pack, one at a time *)
Lemma pack_loop_sim cis hs tl create h k : NoDup hs -> k < length hs -> hnd hs k = h ->
  forall t xt s fm am s3 final assigned fin x e,
  Forall2 (crel cis hs tl) t xt -> Forall (fun c => cmd_handle c = h) t -> Forall (fun c => is_create c = false) t ->
  x_deps x = [] -> x_cinfos x = cis -> find_ent x k = Some e -> map fst (e_comps e) = mitems fm ->
  MR hs (marked s) (x_marked x) ->
  x_viol (fold_left x_cmd xt x) = x_viol x ->
  pack_loop create h t s fm am = Ok (s3, final, assigned, fin) ->
  xsame k x (fold_left x_cmd xt x) /\
  exists m', MR hs m' (x_marked (fold_left x_cmd xt x)) /\
    (fin = false -> s3 = set_marked s m' /\ exists e', find_ent (fold_left x_cmd xt x) k = Some e' /\
        map fst (e_comps e') = mitems final /\ e_shared e' = e_shared e /\
        (forall c, mhas assigned c = mhas am c || is_some (last_asg tl t c)) /\
        (forall c v, In (c, v) (e_comps e') -> match last_asg tl t c with Some w => v = w | None => In (c, v) (e_comps e) end)) /\
    (fin = true -> (if create then s3 = release_id (set_marked s m') h else destroy_now_unlocked (set_marked s m') h = Ok s3) /\
                   find_ent (fold_left x_cmd xt x) k = None).
Proof.
  intros Hnd Hk Eh t. induction t as [|c t IH]; intros xt s fm am s3 final assigned fin x e HR Hall Hnc Hxd Hxc Hfe Hkeys Hmr Hviol H.
  - inversion HR; subst xt. simpl in *. inversion H; subst s3 final assigned fin. split; [apply xsame_refl|].
    exists (marked s). split; [exact Hmr|]. split; [|discriminate]. intros _. split; [symmetry; apply set_marked_id|].
    exists e. split; [exact Hfe|]. split; [exact Hkeys|]. split; [reflexivity|]. split; [intros c; rewrite orb_false_r; reflexivity|auto].
  - inversion HR as [|c' xc t' xt' Hc HRt]; subst c' t' xt. inversion Hall as [|c1 t1 Hch Hallt]; subst c1 t1. inversion Hnc as [|c1 t1 Hcc Hnct]; subst c1 t1.
    simpl fold_left in *. destruct (viol_head _ _ _ Hviol) as (Hv1 & Hv2).
    assert (Ekey : xkey xc = k).
    { destruct (crel_key _ _ _ _ _ Hc) as (Hk' & E & _). apply (proj1 (NoDup_nth hs Skeleton.null_handle) Hnd); [exact Hk'|exact Hk|].
      fold (hnd hs (xkey xc)). fold (hnd hs k). congruence. }
    destruct c as [h' ha m sh|h'|h'|h' c|h' c n]; [discriminate| | | |]; destruct xc as [k0 m0 sh0|k0|k0|k0 c0 v0|k0 c0]; simpl in Hc; try contradiction;
      simpl in Ekey; subst k0.
    + (* destroy: the entity is marked *)
      destruct Hc as (_ & Eh'). simpl in H. simpl x_cmd in *.
      assert (Hal : alive_x x k = true) by (apply alive_x_find; congruence). rewrite Hal in *.
      assert (Hmr1 : MR hs (marked (set_marked s (set_insert (marked s) h'))) (x_marked (xw_marked x (k :: x_marked x)))).
      { simpl. rewrite <- Eh'. apply MR_insert_m; assumption. }
      destruct (IH xt' _ fm am s3 final assigned fin (xw_marked x (k :: x_marked x)) e HRt Hallt Hnct Hxd Hxc Hfe Hkeys Hmr1 Hv2 H)
        as (Hs & m' & Hm' & Hf & Ht).
      split; [eapply xsame_trans; [|exact Hs]; split; reflexivity|]. exists m'. split; [exact Hm'|]. split; [exact Hf|exact Ht].
    + (* destroyNow: the rest of the pack means nothing *)
      simpl x_cmd in *. destruct (x_kill_eq x k) as (Fx & Hfind).
      assert (Hdead : find_ent (x_kill x k) k = None) by (rewrite Hfind, Nat.eqb_refl; reflexivity).
      rewrite (x_fold_dead k xt' (x_kill x k)); [|eapply crel_on; eassumption|exact Hdead].
      assert (Hs : xsame k x (x_kill x k)).
      { split; [apply xfr_xfm; exact Fx|]. intros k' Hne. rewrite Hfind. apply Nat.eqb_neq in Hne. rewrite Hne. reflexivity. }
      split; [exact Hs|]. exists (marked s). assert (Em : x_marked (x_kill x k) = x_marked x) by (apply (f_equal x_marked) in Fx; exact Fx).
      rewrite Em. split; [exact Hmr|]. rewrite set_marked_id. simpl in H. destruct create.
      * inversion H; subst. split; [discriminate|]. intros _. split; [reflexivity|exact Hdead].
      * bd H s1 Hd. inversion H; subst. split; [discriminate|]. intros _. split; [exact Hd|exact Hdead].
    + (* removeComponent *)
      destruct Hc as (_ & Eh' & -> & Hc128). simpl in H. simpl x_cmd in *.
      destruct (has_comp (e_comps e) c) eqn:Hhas.
      * destruct (x_remove_eq x k c e Hxd Hfe Hhas) as (Fx & Ex).
        set (e1 := {| e_k := k; e_comps := filter (fun p => negb (Nat.eqb (fst p) c)) (e_comps e); e_shared := e_shared e |}) in *.
        assert (Hf1 : forall k', find_ent (x_remove x k c) k' = if Nat.eqb k' k then Some e1 else find_ent x k').
        { intros k'. rewrite find_ent_findk, Ex, findk_put. reflexivity. }
        destruct (xfr_fields _ _ Fx) as (X1 & X2 & X3 & X4 & X5).
        assert (Hkeys1 : map fst (e_comps e1) = mitems (mdel fm c)) by (simpl; rewrite map_fst_filter, Hkeys, mitems_mdel; reflexivity).
        assert (Hmr1 : MR hs (marked s) (x_marked (x_remove x k c))) by (apply (f_equal x_marked) in Fx; simpl in Fx; rewrite Fx; exact Hmr).
        destruct (IH xt' s (mdel fm c) am s3 final assigned fin (x_remove x k c) e1 HRt Hallt Hnct) as (Hs & m' & Hm' & Hf & Ht);
          [congruence|congruence|rewrite Hf1, Nat.eqb_refl; reflexivity|exact Hkeys1|exact Hmr1|exact Hv2|exact H|].
        split; [eapply xsame_trans; [|exact Hs]; split; [apply xfr_xfm; exact Fx|intros k' Hne; rewrite Hf1; apply Nat.eqb_neq in Hne; rewrite Hne; reflexivity]|].
        exists m'. split; [exact Hm'|]. split; [|exact Ht]. intros Ef. destruct (Hf Ef) as (Es3 & e' & He' & Hk' & Hsh' & Has & Hvals).
        split; [exact Es3|]. exists e'. split; [exact He'|]. split; [exact Hk'|]. split; [exact Hsh'|]. split; [exact Has|].
        intros c1 v1 Hin. specialize (Hvals c1 v1 Hin). simpl. destruct (last_asg tl t c1); [exact Hvals|]. simpl in Hvals. apply filter_In in Hvals. tauto.
      * rewrite (x_remove_absent _ _ _ _ Hfe Hhas) in *.
        assert (Hkeys1 : map fst (e_comps e) = mitems (mdel fm c)).
        { rewrite mitems_mdel, <- Hkeys. symmetry. apply filter_notin. intros Hin. apply has_comp_in in Hin. congruence. }
        apply (IH xt' s (mdel fm c) am s3 final assigned fin x e HRt Hallt Hnct Hxd Hxc Hfe Hkeys1 Hmr Hv2 H).
    + (* assign *)
      destruct Hc as (_ & Eh' & -> & Hc128 & Htmp). simpl in H. simpl x_cmd in *.
      assert (Hhas : has_comp (e_comps e) c = false).
      { destruct (has_comp (e_comps e) c) eqn:E; [|reflexivity]. exfalso. unfold x_assign in Hv1. rewrite Hfe, E in Hv1. simpl in Hv1. lia. }
      destruct (x_assign_eq x k c v0 e Hxd Hfe Hhas) as (Fx & Ex). rewrite Hxc in Ex. fold (cellof cis c v0) in Ex.
      set (e1 := {| e_k := k; e_comps := insert_comp (e_comps e) c (cellof cis c v0); e_shared := e_shared e |}) in *.
      assert (Hf1 : forall k', find_ent (x_assign x k c v0) k' = if Nat.eqb k' k then Some e1 else find_ent x k').
      { intros k'. rewrite find_ent_findk, Ex, findk_put. reflexivity. }
      destruct (xfr_fields _ _ Fx) as (X1 & X2 & X3 & X4 & X5).
      assert (Hkeys1 : map fst (e_comps e1) = mitems (madd fm c)) by (simpl; rewrite map_fst_insert_comp, Hkeys, mitems_madd by exact Hc128; reflexivity).
      assert (Hmr1 : MR hs (marked s) (x_marked (x_assign x k c v0))) by (apply (f_equal x_marked) in Fx; simpl in Fx; rewrite Fx; exact Hmr).
      destruct (IH xt' s (madd fm c) (madd am c) s3 final assigned fin (x_assign x k c v0) e1 HRt Hallt Hnct) as (Hs & m' & Hm' & Hf & Ht);
        [congruence|congruence|rewrite Hf1, Nat.eqb_refl; reflexivity|exact Hkeys1|exact Hmr1|exact Hv2|exact H|].
      split; [eapply xsame_trans; [|exact Hs]; split; [apply xfr_xfm; exact Fx|intros k' Hne; rewrite Hf1; apply Nat.eqb_neq in Hne; rewrite Hne; reflexivity]|].
      exists m'. split; [exact Hm'|]. split; [|exact Ht]. intros Ef. destruct (Hf Ef) as (Es3 & e' & He' & Hk' & Hsh' & Has & Hvals).
      split; [exact Es3|]. exists e'. split; [exact He'|]. split; [exact Hk'|]. split; [exact Hsh'|]. split.
      * intros c1. rewrite Has, mhas_madd. simpl. rewrite (Nat.eqb_sym c c1).
        destruct (last_asg tl t c1); simpl; [rewrite !orb_true_r; reflexivity|]. destruct (Nat.eqb c1 c), (mhas am c1); reflexivity.
      * intros c1 v1 Hin. specialize (Hvals c1 v1 Hin). simpl. destruct (last_asg tl t c1); [exact Hvals|].
        simpl in Hvals. apply insert_comp_weak in Hvals. destruct (Nat.eqb_spec c c1) as [<-|Hne].
        -- destruct Hvals as [(_ & ->)|Hin']; [symmetry; apply (nth_error_nth _ _ _ Htmp)|].
           exfalso. assert (Hh : has_comp (e_comps e) c = true) by (apply has_comp_in; apply in_map_iff; exists (c, v1); auto). congruence.
        -- destruct Hvals as [(E & _)|Hin']; [congruence|exact Hin'].
Qed.

(* ---------------------------------------------------------------------------------------- *)
(* the last loop of applyCommandPack: every assign command move-constructs its temporary into the archetype *)
Definition wr_step (tid : nat) (h : handle) (ai : nat) (a : archetype) (idx : nat) (st : mst) (c : acmd) : res mst :=
  match c with
  | AAssign _ cid n =>
    do inf <- info_of st cid;
    match cindex (am_mask a) cid with
    | None => Err NullDeref
    | Some ci =>
      do tl <- nth_res (tmps st) tid;
      do v <- nth_res tl n;
      do st1 <- write_cell st ai ci idx v;
      let dst := PArch ai cid idx in
      let st2 := if ci_mctor inf && ci_ev inf then emit st1 (EvMC (ci_pal inf) dst (PTmp (epoch st * 64 + tid) n)) else st1 in
      Ok (if ci_aa inf then emit st2 (EvAA (ci_pal inf) dst h) else st2)
    end
  | _ => Ok st
  end.

Lemma fr1_tmps s s' : fr1 s' = fr1 s -> tmps s' = tmps s.
Proof. intros H. apply (f_equal tmps) in H. exact H. Qed.

Lemma acell_put a ci idx v c cid : c < MASK_BITS -> cid < MASK_BITS -> cindex (am_mask a) cid = Some ci ->
  length (am_cols a) = length (mitems (am_mask a)) ->
  acell (put_cell a ci idx v) c idx = if Nat.eqb cid c then v else acell a c idx.
Proof.
  intros Hc Hcid Hci Hlen. unfold acell. change (am_mask (put_cell a ci idx v)) with (am_mask a).
  destruct (Nat.eqb_spec cid c) as [<-|Hne].
  - rewrite Hci. apply get_put_same. rewrite Hlen. apply (cindex_lt _ _ _ Hcid Hci).
  - destruct (cindex (am_mask a) c) as [ci'|] eqn:E; [|reflexivity]. apply get_put_other_col.
    intros <-. apply Hne. eapply cindex_inj; eassumption.
Qed.

Lemma wr_fold tid h ai a idx tl s a0 : nth_error (archs s) ai = Some a0 -> am_mask a0 = am_mask a ->
  length (am_cols a0) = length (mitems (am_mask a)) -> nth_error (tmps s) tid = Some tl ->
  forall p st a_st s',
  Forall (fun c => match c with AAssign _ cid _ => cid < MASK_BITS | _ => True end) p ->
  cells_of s ai idx a0 st a_st ->
  fold_res (wr_step tid h ai a idx) p st = Ok s' ->
  exists a', cells_of s ai idx a0 s' a' /\
    forall c, c < MASK_BITS -> acell a' c idx = match last_asg tl p c with Some w => w | None => acell a_st c idx end.
Proof.
  intros Ha0 Em Hlen Htl p. induction p as [|c p IH]; intros st a_st s' Hp Hc H.
  - simpl in H. inversion H; subst s'. exists a_st. split; [exact Hc|]. intros c _. reflexivity.
  - simpl in H. bd H st1 H1. inversion Hp as [|c1 p1 Hc128 Hp']; subst c1 p1.
    destruct c as [h' ha m sh|h'|h'|h' c|h' cid n]; simpl in H1;
      try (inversion H1; subst st1; destruct (IH st a_st s' Hp' Hc H) as (a' & Hc' & Hv); exists a'; split; [exact Hc'|exact Hv]).
    bd H1 inf Hinf. destruct (cindex (am_mask a) cid) as [ci|] eqn:Eci; [|discriminate].
    bd H1 tl' Htl'. apply nth_res_ok in Htl'. rewrite (fr1_tmps _ _ (proj1 Hc)), Htl in Htl'. inversion Htl'; subst tl'.
    bd H1 v Hv. apply nth_res_ok in Hv. bd H1 st2 Hw.
    destruct (cells_of_write _ _ _ _ _ _ _ _ _ Ha0 Hc Hw) as (-> & Hc2).
    assert (Hc3 : cells_of s ai idx a0 st1 (put_cell a_st ci idx v)).
    { inversion H1; subst st1. eapply cells_of_olog; [exact Hc2|]. eapply olog_trans; apply olog_if. }
    destruct (IH st1 _ s' Hp' Hc3 H) as (a' & Hc' & Hvals). exists a'. split; [exact Hc'|].
    intros c Hc1. rewrite (Hvals c Hc1). simpl. destruct (last_asg tl p c); [reflexivity|].
    destruct Hc as (_ & _ & Hab & Hcl & _).
    assert (Ems : am_mask a_st = am_mask a) by (apply ab1_ab2 in Hab; destruct (ab2_fields _ _ Hab) as (E & _); congruence).
    rewrite (acell_put a_st ci idx v c cid Hc1 Hc128); [|rewrite Ems; exact Eci|rewrite Ems; congruence].
    destruct (Nat.eqb cid c); [symmetry; apply (nth_error_nth _ _ _ Hv)|reflexivity].
Qed.

(* ---------------------------------------------------------------------------------------- *)
(* applyCommandPack, unfolded *)
Lemma apply_pack_create_eq tid s h ha m sh t :
  apply_pack tid s (ACreate h ha m sh :: t) =
  (do s2 <- minstall s h;
   do ex <- (if ha then extra_components s m else Ok 0%N);
   do r <- pack_loop true h t s2 (if ha then munion m ex else 0%N) 0%N;
   let '(s3, final, assigned, fin) := r in
   if fin then Ok s3 else
   do ra <- get_arch s3 final (if ha then sh else si_null);
   let '(s4, ai) := ra in
   do s5 <- arch_insert s4 ai h assigned;
   do l <- nth_res (locs s5) (N.to_nat (fst h));
   do a <- nth_res (archs s5) ai;
   fold_res (wr_step tid h ai a (l_idx l)) (ACreate h ha m sh :: t) s5).
Proof.
  unfold apply_pack, minstall. cbn [cmd_handle].
  destruct (upd_res _ _ _) as [sl|er]; [|reflexivity]. rewrite !bind_Ok.
  destruct (if ha then extra_components s m else Ok 0%N) as [ex|er]; [|reflexivity]. rewrite !bind_Ok. reflexivity.
Qed.

Lemma apply_pack_other_eq tid s c0 t : is_create c0 = false ->
  apply_pack tid s (c0 :: t) =
  (if is_valid s (cmd_handle c0) then
     do la <- loc_arch s (cmd_handle c0);
     do a0 <- nth_res (archs s) (fst la);
     do r <- pack_loop false (cmd_handle c0) (c0 :: t) s (am_mask a0) 0%N;
     let '(s3, final, assigned, fin) := r in
     if fin then Ok s3 else
     do ra <- get_arch s3 final (am_shared a0);
     let '(s4, ai) := ra in
     do s5 <- (if negb (am_mask a0 =? final)%N then
                 do la' <- loc_arch s4 (cmd_handle c0);
                 if Nat.eqb (fst la') ai then Ok s4 else external_move s4 ai (cmd_handle c0) (fst la') (snd la') final
               else Ok s4);
     do l <- nth_res (locs s5) (N.to_nat (fst (cmd_handle c0)));
     do a <- nth_res (archs s5) ai;
     fold_res (wr_step tid (cmd_handle c0) ai a (l_idx l)) (c0 :: t) s5
   else Ok s).
Proof.
  intros Hc. destruct c0 as [h ha m sh|h|h|h c|h c n]; [discriminate| | | |]; unfold apply_pack; cbn [cmd_handle];
    (destruct (is_valid s h); [|reflexivity]; destruct (loc_arch s h) as [la|er]; [|reflexivity]; rewrite !bind_Ok;
     destruct (nth_res (archs s) (fst la)) as [a0|er]; [|reflexivity]; rewrite !bind_Ok; reflexivity).
Qed.
