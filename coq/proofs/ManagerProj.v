(* The structural part of a Manager state (slots, free list, locations, entity lists of the archetypes) is a
   Skeleton state; the structural primitives of the Manager act on it exactly as the Skeleton's do.  This carries
   the invariant G of the Skeleton proof (C01) over to the Manager (C02). *)
Require Import Coq.Lists.List Coq.NArith.NArith Coq.ZArith.ZArith Coq.Arith.Arith Coq.Bool.Bool Coq.micromega.Lia.
From Mustache Require Import Res Manager MgrSpec Refine.
From Mustache Require Skeleton.
From Mustache Require Import SkelSpec.
From Mustache.proofs Require Import ListLemmas SkelBasics SkelInv SkelSteps SkelMove ClosureProofs ManagerBasics ManagerMoves.
Import ListNotations.

Definition pslot (x : slot) : Skeleton.slot := {| Skeleton.s_id := s_id x; Skeleton.s_ver := s_ver x |}.
Definition ploc (x : loc) : Skeleton.loc := {| Skeleton.l_arch := l_arch x; Skeleton.l_idx := l_idx x |}.
Definition parch (a : archetype) : Skeleton.arch := {| Skeleton.a_key := am_mask a; Skeleton.a_ents := am_ents a |}.
Definition proj (s : mst) : Skeleton.st :=
  {| Skeleton.slots := map pslot (slots s); Skeleton.locs := map ploc (locs s); Skeleton.next_slot := next_slot s;
     Skeleton.empty_slots := empty_slots s; Skeleton.archs := map parch (archs s); Skeleton.lockc := lockc s;
     Skeleton.next_eid := next_eid s; Skeleton.bufs := []; Skeleton.marked := marked s; Skeleton.nthreads := nthreads s |}.

Lemma ploc_inv l ai idx : ploc l = {| Skeleton.l_arch := Some ai; Skeleton.l_idx := idx |} -> l = {| l_arch := Some ai; l_idx := idx |}.
Proof. destruct l as [la li]. unfold ploc. simpl. intros H. inversion H. reflexivity. Qed.

Lemma pslot_inv sl i v : pslot sl = {| Skeleton.s_id := i; Skeleton.s_ver := v |} -> sl = {| s_id := i; s_ver := v |}.
Proof. destruct sl as [a b]. unfold pslot. simpl. intros H. inversion H. reflexivity. Qed.

Lemma nth_error_map_inv {A B} (f : A -> B) l i b : nth_error (map f l) i = Some b -> exists a, nth_error l i = Some a /\ f a = b.
Proof. rewrite nth_error_map. destruct (nth_error l i) as [a|]; simpl; intros H; inversion H. eauto. Qed.

Lemma proj_is_valid s h : Skeleton.is_valid (proj s) h = is_valid s h.
Proof.
  unfold Skeleton.is_valid, is_valid. change (Skeleton.is_null h) with (is_null h). destruct (is_null h); [reflexivity|].
  unfold proj. cbn [Skeleton.slots]. rewrite nth_error_map. destruct (nth_error (slots s) (N.to_nat (fst h))); reflexivity.
Qed.

(* a state that differs from s in the locations and the archetypes (and the log) only *)
Lemma proj_fr2 s s' : fr2 s' = fr2 s ->
  proj s' = Skeleton.set_archs (Skeleton.set_locs (proj s) (map ploc (locs s'))) (map parch (archs s')).
Proof.
  intros H. destruct (fr2_slots _ _ H) as (E1 & E2 & E3). destruct (fr3_ctl _ _ (fr2_fr3 _ _ H)) as (E4 & _ & _ & _ & E5 & E6 & E7 & _).
  unfold proj, Skeleton.set_archs, Skeleton.set_locs. simpl. rewrite E1, E2, E3, E4, E5, E6, E7. reflexivity.
Qed.

Lemma proj_fr1 s s' : fr1 s' = fr1 s -> proj s' = Skeleton.set_archs (proj s) (map parch (archs s')).
Proof.
  intros H. rewrite (proj_fr2 _ _ (fr1_fr2 _ _ H)). rewrite (fr1_locs _ _ H). reflexivity.
Qed.

Lemma proj_set_log s l : proj (set_log s l) = proj s.
Proof. reflexivity. Qed.

(* ---- evaluation of the Skeleton's primitives ---- *)
Lemma sk_arch_insert_eval sk ai h a :
  nth_error (Skeleton.archs sk) ai = Some a -> N.to_nat (fst h) < length (Skeleton.locs sk) ->
  Skeleton.arch_insert sk ai h =
  Ok (Skeleton.set_locs (Skeleton.set_archs sk (upd (Skeleton.archs sk) ai
          {| Skeleton.a_key := Skeleton.a_key a; Skeleton.a_ents := Skeleton.a_ents a ++ [h] |}))
        (upd (Skeleton.locs sk) (N.to_nat (fst h)) {| Skeleton.l_arch := Some ai; Skeleton.l_idx := length (Skeleton.a_ents a) |})).
Proof.
  intros Ha Hlt. unfold Skeleton.arch_insert. rewrite (nth_res_some _ _ _ Ha). simpl.
  unfold Skeleton.update_location. simpl. unfold upd_res. apply Nat.ltb_lt in Hlt. rewrite Hlt. reflexivity.
Qed.

Lemma sk_arch_remove_last sk ai h a last :
  nth_error (Skeleton.archs sk) ai = Some a -> length (Skeleton.a_ents a) = S last -> N.to_nat (fst h) < length (Skeleton.locs sk) ->
  Skeleton.arch_remove sk ai last h =
  Ok (Skeleton.set_locs (Skeleton.set_archs sk (upd (Skeleton.archs sk) ai
          {| Skeleton.a_key := Skeleton.a_key a; Skeleton.a_ents := removelast (Skeleton.a_ents a) |}))
        (upd (Skeleton.locs sk) (N.to_nat (fst h)) Skeleton.default_loc)).
Proof.
  intros Ha El Hlt. unfold Skeleton.arch_remove. rewrite (nth_res_some _ _ _ Ha). simpl. rewrite El, Nat.eqb_refl.
  unfold Skeleton.update_location. simpl. unfold upd_res. apply Nat.ltb_lt in Hlt. rewrite Hlt. reflexivity.
Qed.

Lemma sk_arch_remove_swap sk ai idx h a last src dst :
  nth_error (Skeleton.archs sk) ai = Some a -> length (Skeleton.a_ents a) = S last -> idx <> last ->
  nth_error (Skeleton.a_ents a) last = Some src -> nth_error (Skeleton.a_ents a) idx = Some dst ->
  N.to_nat (fst dst) < length (Skeleton.locs sk) -> N.to_nat (fst src) < length (Skeleton.locs sk) ->
  Skeleton.arch_remove sk ai idx h =
  Ok (Skeleton.set_archs (Skeleton.set_locs sk
          (upd (upd (Skeleton.locs sk) (N.to_nat (fst dst)) Skeleton.default_loc) (N.to_nat (fst src))
               {| Skeleton.l_arch := Some ai; Skeleton.l_idx := idx |}))
        (upd (Skeleton.archs sk) ai
          {| Skeleton.a_key := Skeleton.a_key a; Skeleton.a_ents := removelast (upd (Skeleton.a_ents a) idx src) |})).
Proof.
  intros Ha El Hne Hsrc Hdst Hl1 Hl2. unfold Skeleton.arch_remove. rewrite (nth_res_some _ _ _ Ha). simpl. rewrite El.
  apply Nat.eqb_neq in Hne. rewrite Hne. rewrite (nth_res_some _ _ _ Hsrc). simpl. rewrite (nth_res_some _ _ _ Hdst). simpl.
  unfold Skeleton.update_location. simpl. unfold upd_res. apply Nat.ltb_lt in Hl1. rewrite Hl1. simpl.
  rewrite upd_length. apply Nat.ltb_lt in Hl2. rewrite Hl2. simpl. reflexivity.
Qed.

(* ---- the Manager's primitives on the projection ---- *)
Lemma proj_create_id s s2 h : create_id s = Ok (s2, h) -> Skeleton.create_id (proj s) = Ok (proj s2, h).
Proof.
  unfold create_id, Skeleton.create_id. cbn [Skeleton.empty_slots proj]. destruct (empty_slots s) as [|e].
  - intros H. inversion H; subst. unfold proj. simpl. rewrite !map_app, map_length. reflexivity.
  - intros H. bd H sl Hsl. apply nth_res_ok in Hsl. bd H ls Hls. apply upd_res_ok in Hls. destruct Hls as (Hlt & ->).
    inversion H; subst; clear H.
    assert (E1 : nth_res (Skeleton.slots (proj s)) (N.to_nat (Skeleton.next_slot (proj s))) = Ok (pslot sl))
      by (apply nth_res_some; simpl; apply map_nth_error; exact Hsl).
    rewrite E1, bind_Ok. simpl. unfold upd_res. rewrite map_length.
    simpl in Hlt. apply Nat.ltb_lt in Hlt. rewrite Hlt. simpl. unfold proj. simpl. rewrite !map_upd. reflexivity.
Qed.

Lemma proj_release_id s h : proj (release_id s h) = Skeleton.release_id (proj s) h.
Proof.
  unfold release_id, Skeleton.release_id, proj. simpl. rewrite map_length.
  destruct (Nat.ltb (N.to_nat (fst h)) (length (slots s))); simpl; rewrite map_upd; [reflexivity|].
  rewrite map_resize. reflexivity.
Qed.

Lemma ab3_parch a a' ents : ab3 a' = ab3 a -> am_ents a' = ents ->
  parch a' = {| Skeleton.a_key := Skeleton.a_key (parch a); Skeleton.a_ents := ents |}.
Proof. intros H E. destruct (ab3_fields _ _ H) as (Em & _). unfold parch. simpl. rewrite Em, E. reflexivity. Qed.

Lemma proj_arch_insert s s' ai h a a3 :
  nth_error (archs s) ai = Some a -> fr2 s' = fr2 s -> archs s' = upd (archs s) ai a3 ->
  N.to_nat (fst h) < length (locs s) -> locs s' = upd (locs s) (N.to_nat (fst h)) {| l_arch := Some ai; l_idx := length (am_ents a) |} ->
  ab3 a3 = ab3 a -> am_ents a3 = am_ents a ++ [h] ->
  Skeleton.arch_insert (proj s) ai h = Ok (proj s').
Proof.
  intros Ha F A Hlt L Hab He.
  rewrite (sk_arch_insert_eval (proj s) ai h (parch a)); [|simpl; apply map_nth_error; exact Ha|simpl; rewrite map_length; exact Hlt].
  rewrite (proj_fr2 _ _ F), A, L. rewrite !map_upd. rewrite (ab3_parch _ _ _ Hab He). reflexivity.
Qed.

Lemma proj_arch_remove s s' ai idx h a a' :
  nth_error (archs s) ai = Some a -> fr2 s' = fr2 s -> archs s' = upd (archs s) ai a' ->
  removed ai idx h a a' (locs s) (locs s') -> Skeleton.arch_remove (proj s) ai idx h = Ok (proj s').
Proof.
  intros Ha F A (last & El & Hab & Hcl & Hz & [(-> & He & Hc & Hlt & L)|(Hne & src & dst & Hsrc & Hdst & He & Hc1 & Hc2 & Hl1 & Hl2 & L)]).
  - rewrite (sk_arch_remove_last (proj s) ai h (parch a) last); [|simpl; apply map_nth_error; exact Ha|exact El|simpl; rewrite map_length; exact Hlt].
    rewrite (proj_fr2 _ _ F), A, L. rewrite !map_upd. rewrite (ab3_parch _ _ _ Hab He). reflexivity.
  - rewrite (sk_arch_remove_swap (proj s) ai idx h (parch a) last src dst);
      [|simpl; apply map_nth_error; exact Ha|exact El|exact Hne|exact Hsrc|exact Hdst|simpl; rewrite map_length; exact Hl1|simpl; rewrite map_length; exact Hl2].
    rewrite (proj_fr2 _ _ F), A, L. rewrite !map_upd. rewrite (ab3_parch _ _ _ Hab He). reflexivity.
Qed.

(* ---- well-formed archetypes of the Manager ---- *)
Definition awf (a : archetype) : Prop :=
  am_shared a = si_null /\ am_size a = length (am_ents a) /\ length (am_cols a) = length (mitems (am_mask a)).

Lemma awf_new m cs : awf (new_arch m si_null cs).
Proof. unfold awf, new_arch. simpl. split; [reflexivity|]. split; [reflexivity|]. rewrite repeat_length. apply mcount_eq. Qed.

Lemma awf_nth l ai a : Forall awf l -> nth_error l ai = Some a -> awf a.
Proof. intros H Hn. eapply (proj1 (Forall_forall _ _) H). eapply nth_error_In. eassumption. Qed.

Lemma awf_inserted a a3 h : awf a -> ab3 a3 = ab3 a -> am_ents a3 = am_ents a ++ [h] ->
  am_size a3 = Nat.max (am_size a) (S (length (am_ents a))) -> length (am_cols a3) = length (am_cols a) -> awf a3.
Proof.
  intros (A & B & C) Hab He Hz Hl. destruct (ab3_fields _ _ Hab) as (Em & Es & _). unfold awf.
  rewrite Es, Em, He, Hz, Hl, B, app_length. simpl. split; [exact A|]. split; [lia|exact C].
Qed.

Lemma awf_removed ai idx h a a' l0 l' : awf a -> removed ai idx h a a' l0 l' -> awf a'.
Proof.
  intros (A & B & C) (last & El & Hab & Hcl & Hz & Hcase). destruct (ab3_fields _ _ Hab) as (Em & Es & _). unfold awf.
  rewrite Es, Em, Hcl, Hz. split; [exact A|]. split; [|exact C].
  destruct Hcase as [(_ & He & _)|(_ & src & dst & _ & _ & He & _)]; rewrite He, removelast_length, ?upd_length, El; reflexivity.
Qed.
