(* C04/C07, entity level, step 1: job_filter for a job that processes everything -- no version filter (empty check
   mask) or a version filter on its first run (last = null).  On a state whose archetypes have a positive version-chunk
   size the filter returns Ok, changes nothing but version stamps, and hands over, for every non-empty archetype that
   has the required components (in archetype order), ONE record whose blocks select the positions 0..population-1. *)
Require Import Coq.Lists.List Coq.NArith.NArith Coq.ZArith.ZArith Coq.Arith.Arith Coq.Bool.Bool Coq.micromega.Lia.
From Mustache Require Import Res Iter Manager.
From Mustache.proofs Require Import ListLemmas IterProofs IterCover VersionProofs ManagerBasics.
Import ListNotations.

(* the job looks at everything: it never ran, or it has no version filter *)
Definition jfull (j : job) : Prop := j_last j = WV_NULL \/ j_check j = 0%N.

Lemma mitems_zero : mitems 0%N = [].
Proof. vm_compute. reflexivity. Qed.

Lemma jfull_check j a : jfull j -> j_last j = WV_NULL \/ jcheck j a = [].
Proof.
  intros [H|H]; [left; exact H|right]. unfold jcheck. rewrite H. unfold comp_indices. rewrite mitems_zero. reflexivity.
Qed.

Lemma need_flag_full vers base check last : last = WV_NULL \/ check = [] -> need_flag vers base check last = true.
Proof. intros H. apply need_flag_true. destruct H; auto. Qed.

Lemma filter_chunks_full nc check set_ last cur : last = WV_NULL \/ check = [] ->
  forall todo chunk cv, snd (filter_chunks nc check set_ last cur chunk todo cv) = repeat true todo.
Proof.
  intros H. induction todo as [|t IH]; intros chunk cv; [reflexivity|].
  rewrite filter_chunks_S. cbn [snd repeat]. rewrite IH, need_flag_full by exact H. reflexivity.
Qed.

(* ---- the blocks when every version chunk is flagged ---- *)
Definition nchunks (a : archetype) : nat := S ((length (am_ents a) - 1) / am_chunk a).
Definition fblocks (a : archetype) : list (nat * nat) :=
  filter_blocks (am_chunk a) (length (am_ents a)) (repeat true (nchunks a)).

Lemma fblocks_sel a : 0 < am_chunk a -> 0 < length (am_ents a) ->
  selected_of_blocks (fblocks a) = seq 0 (length (am_ents a)).
Proof.
  intros Hc Hs. unfold fblocks. rewrite blocks_exact by (try assumption; apply repeat_length).
  unfold selected_spec. apply forallb_filter_id. apply forallb_forall. intros i Hi. apply in_seq in Hi.
  apply nth_repeat'. unfold nchunks. apply Nat.lt_succ_r. apply Nat.div_le_mono; lia.
Qed.

Lemma fblocks_chain a : 0 < am_chunk a -> 0 < length (am_ents a) -> chain 0 (fblocks a) (length (am_ents a)).
Proof. intros Hc Hs. unfold fblocks. apply filter_blocks_chain; try assumption. apply repeat_length. Qed.

Lemma fblocks_count a : 0 < am_chunk a -> 0 < length (am_ents a) -> blocks_count (fblocks a) = length (am_ents a).
Proof. intros Hc Hs. rewrite blocks_count_sel, fblocks_sel, seq_length by assumption. reflexivity. Qed.

Lemma jblocks_full j cur a : jfull j -> jblocks j cur a = fblocks a.
Proof.
  intros H. unfold jblocks, jchunks, fblocks, nchunks. rewrite filter_chunks_full by (apply jfull_check; exact H). reflexivity.
Qed.

Lemma jmatch_size j a : jmatch j a = true -> 0 < length (am_ents a).
Proof. unfold jmatch. intros H. apply andb_true_iff in H. destruct H as (H & _). apply Nat.ltb_lt in H. exact H. Qed.

(* ---- the record of a matching archetype ---- *)
Definition full_rec (ai : nat) (a : archetype) : farch :=
  {| fa_arch := ai; fa_blocks := fblocks a; fa_count := length (am_ents a); fa_size := am_size a; fa_cap := 0 |}.

Fixpoint full_list (j : job) (k : nat) (l : list archetype) : list farch :=
  match l with
  | [] => []
  | a :: t => (if jmatch j a then [full_rec k a] else []) ++ full_list j (S k) t
  end.

Lemma jf_step_full_match j st fas ai a : jfull j -> nth_error (archs st) ai = Some a -> 0 < am_chunk a -> jmatch j a = true ->
  exists g c, jf_step j (st, fas) ai = Ok (set_arch st ai (with_vers a g c), fas ++ [full_rec ai a]).
Proof.
  intros Hf Hn Hc Hm. exists (stamp_set (am_gver a) 0 (jset j a) (wv st)), (fst (jchunks j (wv st) a)).
  rewrite jf_step_eq, Hn, Hm. cbn [negb]. rewrite need_flag_full by (apply jfull_check; exact Hf). cbn [negb].
  pose proof (jmatch_size _ _ Hm) as Hs.
  rewrite (jblocks_full j (wv st) a Hf), (fblocks_count a Hc Hs).
  destruct (am_chunk a) as [|k] eqn:Ek; [lia|].
  destruct (length (am_ents a)) as [|n] eqn:El; [lia|]. unfold full_rec. rewrite El. reflexivity.
Qed.

Lemma jf_step_full_nomatch j st fas ai a : nth_error (archs st) ai = Some a -> jmatch j a = false ->
  jf_step j (st, fas) ai = Ok (st, fas).
Proof. intros Hn Hm. rewrite jf_step_eq, Hn, Hm. reflexivity. Qed.

(* ---- what the filter leaves of the state: everything but version stamps ---- *)
Definition av (a : archetype) : archetype := with_vers a [] [].
Definition stamps_only (s s1 : mst) : Prop := set_archs s1 [] = set_archs s [] /\ map av (archs s1) = map av (archs s).

Lemma stamps_only_refl s : stamps_only s s.
Proof. split; reflexivity. Qed.
Lemma stamps_only_trans a b c : stamps_only a b -> stamps_only b c -> stamps_only a c.
Proof. intros (A1 & A2) (B1 & B2). split; congruence. Qed.

Lemma av_fields a1 a : av a1 = av a ->
  am_mask a1 = am_mask a /\ am_shared a1 = am_shared a /\ am_ents a1 = am_ents a /\ am_cols a1 = am_cols a /\
  am_size a1 = am_size a /\ am_chunk a1 = am_chunk a.
Proof.
  intros H. repeat split.
  - apply (f_equal am_mask) in H. exact H.
  - apply (f_equal am_shared) in H. exact H.
  - apply (f_equal am_ents) in H. exact H.
  - apply (f_equal am_cols) in H. exact H.
  - apply (f_equal am_size) in H. exact H.
  - apply (f_equal am_chunk) in H. exact H.
Qed.

Lemma stamps_only_nth s s1 ai a : stamps_only s s1 -> nth_error (archs s) ai = Some a ->
  exists a1, nth_error (archs s1) ai = Some a1 /\ av a1 = av a.
Proof.
  intros (_ & Hm) Hn. pose proof (f_equal (fun l => nth_error l ai) Hm) as E. cbv beta in E.
  rewrite !nth_error_map, Hn in E. destruct (nth_error (archs s1) ai) as [a1|]; [|discriminate].
  exists a1. split; [reflexivity|]. simpl in E. congruence.
Qed.

Lemma stamps_only_nth_inv s s1 ai a1 : stamps_only s s1 -> nth_error (archs s1) ai = Some a1 ->
  exists a, nth_error (archs s) ai = Some a /\ av a1 = av a.
Proof.
  intros (_ & Hm) Hn. pose proof (f_equal (fun l => nth_error l ai) Hm) as E. cbv beta in E.
  rewrite !nth_error_map, Hn in E. destruct (nth_error (archs s) ai) as [a|]; [|discriminate].
  exists a. split; [reflexivity|]. simpl in E. congruence.
Qed.

Lemma map_av_nth l l' ai a' : map av l' = map av l -> nth_error l' ai = Some a' ->
  exists a, nth_error l ai = Some a /\ av a' = av a.
Proof.
  intros Hm Hn. pose proof (f_equal (fun l => nth_error l ai) Hm) as E. cbv beta in E.
  rewrite !nth_error_map, Hn in E. destruct (nth_error l ai) as [a|]; [|discriminate].
  exists a. split; [reflexivity|]. simpl in E. congruence.
Qed.

(* every job, whatever its filter: the filter changes version stamps only *)
Lemma jf_step_stamps j st fas ai st1 fas1 : jf_step j (st, fas) ai = Ok (st1, fas1) -> stamps_only st st1.
Proof.
  rewrite jf_step_eq. destruct (nth_error (archs st) ai) as [a|] eqn:Hn; [|discriminate].
  assert (Hset : forall g c, stamps_only st (set_arch st ai (with_vers a g c))).
  { intros g c. split; [reflexivity|]. unfold set_arch. cbn [archs set_archs]. rewrite map_upd.
    change (av (with_vers a g c)) with (av a). apply upd_same_id. apply map_nth_error. exact Hn. }
  destruct (negb (jmatch j a)); [intros H; inversion H; subst; apply stamps_only_refl|].
  destruct (negb (need_flag _ _ _ _)); [intros H; inversion H; subst; apply Hset|].
  destruct (am_chunk a); [discriminate|]. intros H; inversion H; subst. apply Hset.
Qed.

Lemma jf_fold_stamps j : forall l st fas st1 fas1,
  fold_res (jf_step j) l (st, fas) = Ok (st1, fas1) -> stamps_only st st1.
Proof.
  induction l as [|ai t IH]; intros st fas st1 fas1 H.
  - simpl in H. inversion H; subst. apply stamps_only_refl.
  - cbn [fold_res] in H. destruct (jf_step j (st, fas) ai) as [[st' fas']|e] eqn:E; [|discriminate]. cbn [bind] in H.
    eapply stamps_only_trans; [eapply jf_step_stamps; exact E|eapply IH; exact H].
Qed.

Theorem job_filter_stamps s j s1 fas : job_filter s j = Ok (s1, fas) -> stamps_only s s1.
Proof. rewrite job_filter_unfold. apply jf_fold_stamps. Qed.

Lemma upd_mid {A} (pre : list A) a t x : upd (pre ++ a :: t) (length pre) x = pre ++ x :: t.
Proof. induction pre as [|y pre IH]; simpl; [reflexivity|]. rewrite IH. reflexivity. Qed.

Lemma jf_fold_full j : jfull j -> forall l pre st fas,
  archs st = pre ++ l -> Forall (fun a => 0 < am_chunk a) l ->
  exists st1, fold_res (jf_step j) (seq (length pre) (length l)) (st, fas) = Ok (st1, fas ++ full_list j (length pre) l) /\
              stamps_only st st1.
Proof.
  intros Hf. induction l as [|a t IH]; intros pre st fas Harchs Hch.
  - exists st. simpl. rewrite app_nil_r. split; [reflexivity|apply stamps_only_refl].
  - inversion Hch as [|? ? Hca Hct]; subst.
    assert (Hn : nth_error (archs st) (length pre) = Some a) by (rewrite Harchs; apply nth_error_mid).
    cbn [length seq fold_res full_list].
    destruct (jmatch j a) eqn:Em.
    + destruct (jf_step_full_match j st fas (length pre) a Hf Hn Hca Em) as (g & c & E). rewrite E. cbn [bind].
      assert (El : length (pre ++ [with_vers a g c]) = S (length pre)) by (rewrite app_length; simpl; lia).
      destruct (IH (pre ++ [with_vers a g c]) (set_arch st (length pre) (with_vers a g c)) (fas ++ [full_rec (length pre) a])) as (st1 & Efold & Hso).
      * unfold set_arch. cbn [archs set_archs]. rewrite Harchs, upd_mid, <- app_assoc. reflexivity.
      * exact Hct.
      * rewrite El in Efold. exists st1. split; [rewrite Efold, <- app_assoc; reflexivity|].
        eapply stamps_only_trans; [|exact Hso]. split; [reflexivity|].
        unfold set_arch. cbn [archs set_archs]. rewrite Harchs, upd_mid, !map_app. reflexivity.
    + rewrite (jf_step_full_nomatch j st fas (length pre) a Hn Em). cbn [bind].
      assert (El : length (pre ++ [a]) = S (length pre)) by (rewrite app_length; simpl; lia).
      destruct (IH (pre ++ [a]) st fas) as (st1 & Efold & Hso).
      * rewrite Harchs, <- app_assoc. reflexivity.
      * exact Hct.
      * rewrite El in Efold. exists st1. split; [exact Efold|exact Hso].
Qed.

(* THE FILTER of a job that processes everything *)
Theorem job_filter_full s j : jfull j -> Forall (fun a => 0 < am_chunk a) (archs s) ->
  exists s1, job_filter s j = Ok (s1, full_list j 0 (archs s)) /\ stamps_only s s1.
Proof.
  intros Hf Hch. rewrite job_filter_unfold.
  destruct (jf_fold_full j Hf (archs s) [] s [] eq_refl Hch) as (s1 & E & Hso). exists s1. split; [exact E|exact Hso].
Qed.

(* ---- the records ---- *)
Lemma full_list_in j l : forall k fa, In fa (full_list j k l) <->
  exists i a, nth_error l i = Some a /\ jmatch j a = true /\ fa = full_rec (k + i) a.
Proof.
  induction l as [|a t IH]; intros k fa; cbn [full_list].
  - split; [intros []|intros (i & a & H & _); destruct i; discriminate].
  - rewrite in_app_iff, IH. split.
    + intros [H|(i & a' & Hn & Hm & E)].
      * destruct (jmatch j a) eqn:Em; [|destruct H]. destruct H as [<-|[]]. exists 0, a. rewrite Nat.add_0_r. auto.
      * exists (S i), a'. rewrite Nat.add_succ_r. auto.
    + intros (i & a' & Hn & Hm & E). destruct i as [|i].
      * simpl in Hn. inversion Hn; subst a'. left. rewrite Hm, Nat.add_0_r in *. left. auto.
      * right. exists i, a'. rewrite Nat.add_succ_r in E. auto.
Qed.

Lemma full_list_nodup j l : forall k, NoDup (map fa_arch (full_list j k l)).
Proof.
  induction l as [|a t IH]; intros k; cbn [full_list]; [constructor|].
  assert (Hlb : ~ In k (map fa_arch (full_list j (S k) t))).
  { intros H. apply in_map_iff in H. destruct H as (fa & E & Hin). apply full_list_in in Hin.
    destruct Hin as (i & a' & _ & _ & ->). simpl in E. lia. }
  destruct (jmatch j a); simpl; [constructor; [exact Hlb|apply IH]|apply IH].
Qed.

Definition with_cap (cap : nat) (a : farch) : farch :=
  {| fa_arch := fa_arch a; fa_blocks := fa_blocks a; fa_count := fa_count a; fa_size := fa_size a; fa_cap := cap |}.

Lemma full_rec_wf cap k j a : 0 < cap -> 0 < am_chunk a -> am_size a = length (am_ents a) -> jmatch j a = true ->
  fa_wf (with_cap cap (full_rec k a)).
Proof.
  intros Hcap Hc Hz Hm. pose proof (jmatch_size _ _ Hm) as Hs. unfold fa_wf, with_cap, full_rec. cbn [fa_blocks fa_size fa_count fa_cap].
  rewrite Hz, (fblocks_count a Hc Hs). split; [apply fblocks_chain; assumption|]. split; [reflexivity|]. split; assumption.
Qed.

Lemma full_list_wf cap j l : 0 < cap -> Forall (fun a => 0 < am_chunk a /\ am_size a = length (am_ents a)) l ->
  forall k, Forall fa_wf (map (with_cap cap) (full_list j k l)).
Proof.
  intros Hcap H. induction H as [|a t (Hc & Hz) Ht IH]; intros k; cbn [full_list]; [constructor|].
  rewrite map_app. apply Forall_app. split; [|apply IH].
  destruct (jmatch j a) eqn:Em; [|constructor]. constructor; [|constructor]. eapply full_rec_wf; eassumption.
Qed.
