(* Proofs about the Manager model: isolation while locked (C05) and harmlessness of dead handles (C09). *)
Require Import Coq.Lists.List Coq.NArith.NArith Coq.ZArith.ZArith Coq.Arith.Arith Coq.Bool.Bool Coq.micromega.Lia.
From Mustache Require Import Res Manager.
Import ListNotations.

(* everything queries and iteration can observe: all of the state except the command buffers with their
   temporaries, the id counter used while locked, the table of shared values allocated by callers, and the
   event log of the instrumented component types *)
Record observable := {
  ob_slots : list slot; ob_locs : list loc; ob_next_slot : N; ob_empty : nat; ob_archs : list archetype;
  ob_marked : list handle; ob_deps : list (nat * mask); ob_pool : list (list nat); ob_wv : N; ob_cached : option N;
  ob_lock : nat; ob_def_chunk : nat; ob_chunk_fns : list (nat * nat * mask)
}.

Definition observe (s : mst) : observable :=
  {| ob_slots := slots s; ob_locs := locs s; ob_next_slot := next_slot s; ob_empty := empty_slots s; ob_archs := archs s;
     ob_marked := marked s; ob_deps := deps s; ob_pool := pool s; ob_wv := wv s; ob_cached := cached s;
     ob_lock := lockc s; ob_def_chunk := def_chunk s; ob_chunk_fns := chunk_fns s |}.

(* the structural operations of C05, as issued from any thread *)
Definition is_structural (o : op) : bool :=
  match o with
  | OCreate _ _ _ false | ODestroy _ _ | ODestroyNow _ _ | OAssign _ _ _ _ _ | ORemove _ _ _ _ => true
  | _ => false
  end.

Lemma push_cmd_observe s tid c s' : push_cmd s tid c = Ok s' -> observe s' = observe s.
Proof.
  unfold push_cmd, bind. destruct (nth_res (bufs s) tid); [|discriminate]. intros E; inversion E; reflexivity.
Qed.

Lemma make_shared_info_observe sids : forall s sh s' sh',
  fold_res (fun (x : mst * shared_info) sid =>
      let '(st, sh) := x in
      let '(st1, i) := new_inst st sid 0%Z in
      do sh' <- si_add sh sid i; Ok (st1, sh')) sids (s, sh) = Ok (s', sh') -> observe s' = observe s.
Proof.
  induction sids as [|sid t IH]; intros s sh s' sh' H; cbn [fold_res] in H.
  - inversion H; reflexivity.
  - unfold bind in H at 1. unfold new_inst in H at 1. unfold bind in H at 1.
    destruct (si_add sh sid (length (insts s))) eqn:E; [|discriminate].
    apply IH in H. rewrite H. reflexivity.
Qed.

Lemma write_tmp_observe s tid n v s' : write_tmp s tid n v = Ok s' -> observe s' = observe s.
Proof.
  unfold write_tmp, bind. destruct (nth_res (tmps s) tid) as [tl|]; [|discriminate].
  destruct (upd_res tl n v); [|discriminate]. intros E; inversion E; reflexivity.
Qed.

Lemma emit_observe s e : observe (emit s e) = observe s.
Proof. reflexivity. Qed.

Lemma assign_locked_observe s tid h c sk s' n :
  assign_locked s tid h c sk = Ok (s', n) -> observe s' = observe s.
Proof.
  unfold assign_locked, bind. destruct (info_of s c) as [inf|]; [|discriminate].
  destruct (nth_res (tmps s) tid) as [tl|]; [|discriminate].
  destruct (ci_create inf) as [x|].
  - destruct sk.
    + destruct (push_cmd s tid (AAssign h c (length tl))) eqn:E; [|discriminate].
      intros H; inversion H; subst. apply push_cmd_observe in E. rewrite <- E. reflexivity.
    + destruct (ci_ev inf).
      * destruct (push_cmd (emit s (EvC (ci_pal inf) (PTmp (epoch s * 64 + tid) (length tl)))) tid (AAssign h c (length tl))) eqn:E; [|discriminate].
        intros H; inversion H; subst. apply push_cmd_observe in E. rewrite emit_observe in E. rewrite <- E. reflexivity.
      * destruct (push_cmd s tid (AAssign h c (length tl))) eqn:E; [|discriminate].
        intros H; inversion H; subst. apply push_cmd_observe in E. rewrite <- E. reflexivity.
  - destruct (push_cmd s tid (AAssign h c (length tl))) eqn:E; [|discriminate].
    intros H; inversion H; subst. apply push_cmd_observe in E. rewrite <- E. reflexivity.
Qed.

(* C05, first sentence: an operation issued while the manager is locked changes nothing observable *)
Theorem isolation_while_locked s o s' r :
  lockc s <> 0 -> is_structural o = true -> step s o = Ok (s', r) -> observe s' = observe s.
Proof.
  intros Hl Hs Hstep. destruct (lockc s) as [|n] eqn:El; [congruence|]. clear Hl.
  destruct o; simpl in Hs; try discriminate; simpl in Hstep.
  - (* create *)
    destruct via_arch; [discriminate|].
    unfold make_shared_info in Hstep. unfold bind in Hstep at 1.
    match type of Hstep with context[fold_res ?f ?l ?i] => destruct (fold_res f l i) as [[s0 sh]|] eqn:E end; [|discriminate].
    apply make_shared_info_observe in E.
    assert (El0 : lockc s0 = S n) by (rewrite <- El; change (ob_lock (observe s0) = ob_lock (observe s)); rewrite E; reflexivity).
    rewrite El0 in Hstep.
    unfold create_locked, bind in Hstep.
    match type of Hstep with context[push_cmd ?a ?b ?c] => destruct (push_cmd a b c) eqn:E2 end; [|discriminate].
    simpl in Hstep. inversion Hstep; subst. apply push_cmd_observe in E2. rewrite E2, <- E. reflexivity.
  - rewrite El in Hstep. unfold bind in Hstep. destruct (push_cmd s tid (ADestroy h)) eqn:E; [|discriminate].
    inversion Hstep; subst. eapply push_cmd_observe; eassumption.
  - rewrite El in Hstep. unfold bind in Hstep. destruct (push_cmd s tid (ADestroyNow h)) eqn:E; [|discriminate].
    inversion Hstep; subst. eapply push_cmd_observe; eassumption.
  - (* assign *)
    unfold bind in Hstep at 1. destruct (info_of s c) as [inf|]; [|discriminate].
    rewrite El in Hstep. unfold bind in Hstep at 1.
    match type of Hstep with context[assign_locked ?a ?b ?c ?d ?e] => destruct (assign_locked a b c d e) as [[s1 k]|] eqn:E end; [|discriminate].
    apply assign_locked_observe in E.
    destruct v.
    + inversion Hstep; subst; assumption.
    + unfold bind in Hstep.
      destruct (ci_hasval inf).
      * destruct (write_tmp s1 tid k (Some v)) eqn:E2; [|discriminate].
        apply write_tmp_observe in E2.
        destruct typed; [destruct (ci_ev inf); destruct (ci_aa inf)|]; inversion Hstep; subst;
          rewrite ?emit_observe; congruence.
      * destruct typed; [destruct (ci_ev inf); destruct (ci_aa inf)|]; inversion Hstep; subst;
          rewrite ?emit_observe; congruence.
  - rewrite El in Hstep. unfold bind in Hstep. destruct (push_cmd s tid (ARemove h c)) eqn:E; [|discriminate].
    inversion Hstep; subst. eapply push_cmd_observe; eassumption.
Qed.

(* lock / unlock counting: only the outermost unlock flushes *)
Theorem nested_unlock_does_not_flush s n :
  lockc s = S (S n) -> step s OUnlock = Ok (set_lock s (S n), RBool false).
Proof. intros H. simpl. unfold do_unlock. simpl. rewrite H. reflexivity. Qed.

(* ------------------------------------------------------------------------------------------ *)
(* C09: checked entry points through a handle that is not valid do nothing                      *)
Lemma destroy_now_invalid s h : is_valid s h = false -> destroy_now_unlocked s h = Ok s.
Proof. intros H. unfold destroy_now_unlocked. rewrite H. reflexivity. Qed.

Theorem harmless_unlocked s h :
  lockc s = 0 -> is_valid s h = false ->
  (forall tid, step s (ODestroyNow tid h) = Ok (s, RNone)) /\
  (forall tid c, step s (ORemove tid h c true) = Ok (s, RNone)) /\
  (forall c, step s (OGetConst h c) = Ok (s, RCell false None)) /\
  (forall c w, step s (OGetMut h c w) = Ok (s, RCell false None)) /\
  (forall c, step s (OHas h c) = Ok (s, RBool false)) /\
  (forall c, step s (OMarkDirty h c) = Ok (s, RNone)) /\
  step s (OClone h) = Ok (s, RNullHandle) /\
  (forall sid, step s (ORemoveShared h sid) = Ok (s, RBool false)).
Proof.
  intros Hl Hv. repeat split; intros; simpl; rewrite ?Hl; unfold remove_shared, get_mut, mark_dirty, bind; rewrite ?destroy_now_invalid by assumption;
    rewrite ?Hv; simpl; reflexivity.
Qed.

(* destroy() of a dead handle only records a request, which update() then drops *)
Lemma fold_destroy_invalid : forall l s, (forall h, In h l -> is_valid s h = false) ->
  fold_res destroy_now_unlocked l s = Ok s.
Proof.
  induction l as [|h t IH]; intros s H; simpl; [reflexivity|].
  rewrite destroy_now_invalid by (apply H; left; reflexivity). simpl. apply IH. intros; apply H; right; assumption.
Qed.

(* recorded under lock: at unlock the pack of a dead target is skipped entirely *)
Theorem dead_target_pack_skipped tid s c t :
  (match c with ACreate _ _ _ _ => False | _ => True end) ->
  is_valid s (cmd_handle c) = false -> apply_pack tid s (c :: t) = Ok s.
Proof.
  intros Hc Hv. unfold apply_pack. destruct c; try contradiction; simpl in Hv |- *; rewrite Hv; reflexivity.
Qed.
