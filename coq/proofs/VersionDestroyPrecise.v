(* C11 over histories WITH DESTRUCTION: chunk precision.
   Job jn ran and had work; then any proper script without a run of jn (accesses, updates, runs of other jobs, creations
   into fresh or recycled slots, destroyNow); then jn runs again: every entity it is handed lies in a version chunk whose
   stamp of a CHECKED component was written in between (stamped_in_d) -- by a mutable access / dirty mark, by the run of a
   job writing that component, by an arrival, and now also by a DEPARTURE (the version chunk of the removed entity's slot)
   or a RELOCATION (the version chunk the last member left): op_stamps_d. *)
Require Import Coq.Lists.List Coq.NArith.NArith Coq.ZArith.ZArith Coq.Arith.Arith Coq.Bool.Bool Coq.micromega.Lia.
From Mustache Require Import Res Iter Manager.
From Mustache.proofs Require Import ListLemmas SkelBasics ClosureProofs ManagerBasics ManagerMoves ManagerDeferred
  IterProofs IterCover VersionProofs VersionHistory VersionDestroyArch VersionDestroyInv VersionDestroyStep VersionDestroyHist.
Import ListNotations.

(* operation o, executed in state st, writes the stamp of (archetype ai, version chunk k, component index i) *)
Definition op_stamps_d (st : vstate) (o : vopd) (ai k i : nat) : Prop :=
  match o with
  | VOld o' => op_stamps st o' ai k i
  | VDestroyNow _ h =>
    (* Archetype::remove stamps every component of the version chunk of the removed entity's slot and of the version
       chunk of the last slot (whose member is moved into the hole, unless it is the removed one) *)
    exists l a, is_valid (fst st) h = true /\ nth_error (locs (fst st)) (N.to_nat (fst h)) = Some l /\ l_arch l = Some ai /\
      nth_error (archs (fst st)) ai = Some a /\ (k = l_idx l / am_chunk a \/ k = (length (am_ents a) - 1) / am_chunk a)
  end.

Inductive stamped_in_d (ai k i : nat) : vstate -> list vopd -> Prop :=
| sid_here st o rest : op_stamps_d st o ai k i -> stamped_in_d ai k i st (o :: rest)
| sid_later st o st' out_ rest : dstep st o = Ok (st', out_) -> stamped_in_d ai k i st' rest -> stamped_in_d ai k i st (o :: rest).

Lemma stamped_in_d_cases ai k i : forall ops st, stamped_in_d ai k i st ops ->
  exists pre o post st_o, ops = pre ++ o :: post /\ drun pre st = Ok st_o /\ op_stamps_d st_o o ai k i.
Proof.
  intros ops st H. induction H as [st o rest Ho|st o st' out_ rest Hs _ IH].
  - exists [], o, rest, st. auto.
  - destruct IH as (pre & o' & post & st_o & -> & Hr & Ho). exists (o :: pre), o', post, st_o.
    split; [reflexivity|]. split; [|assumption]. cbn [drun]. rewrite Hs. cbn [bind fst]. assumption.
Qed.

(* ------------------------------------------------------------------------------------------ *)
(* the operations of the old alphabet other than creation: where the new stamps come from        *)
Lemma stamp_source_nc s js o st' out_ ai a :
  VInvD (s, js) -> not_create o -> vstep (s, js) o = Ok (st', out_) -> nth_error (archs s) ai = Some a ->
  exists a', nth_error (archs (fst st')) ai = Some a' /\ grows a a' /\ stamp_src a a' (op_stamps (s, js) o ai).
Proof.
  intros HI Hnc H Ha. pose proof HI as [I1 I2 I3 I4 I5 I6 I7 I8 I9]. cbn [fst snd] in *.
  assert (Hsame : exists a', nth_error (archs s) ai = Some a' /\ grows a a' /\ stamp_src a a' (op_stamps (s, js) o ai)).
  { exists a. split; [assumption|]. split; [apply grows_refl|]. intro p. left. reflexivity. }
  assert (Hstamp : forall h c s', (forall k i, (exists idx a0, touch s h c ai idx a0 i /\ k = idx / am_chunk a0) -> op_stamps (s, js) o ai k i) ->
            stamps_entity s h c s' ->
            exists a', nth_error (archs s') ai = Some a' /\ grows a a' /\ stamp_src a a' (op_stamps (s, js) o ai)).
  { intros h c s' Hop [(-> & _)|(ai0 & idx & a0 & ci & a1 & a2 & Ht & Hcs & Hv & E1 & E2 & E3 & E4 & E5 & E6 & ->)]; [exact Hsame|].
    pose proof Ht as (_ & _ & Ha0 & Hci).
    destruct (Nat.eq_dec ai ai0) as [->|Hne].
    - rewrite Ha in Ha0. inversion Ha0; subst a0; clear Ha0.
      destruct (stamp_one_okd (wv s) a _ _ a1 a2 (Forall_nth_error _ _ _ _ I5 Ha) Hv E1 E2 E3 E4 E5 E6) as (_ & (Sh & _) & K3 & _ & _ & K6 & _).
      exists a2. split; [cbn [archs set_arch set_archs]; apply nth_error_upd_same; apply nth_error_Some; congruence|].
      split; [apply same_shape_grows; assumption|].
      intro p. destruct (Nat.eq_dec p (length (am_gver a) * (idx / am_chunk a) + ci)) as [->|Hne]; [right|left; apply K6; assumption].
      exists (idx / am_chunk a), ci. split; [assumption|]. split; [reflexivity|]. apply Hop. exists idx, a. auto.
    - exists a. split; [cbn [archs set_arch set_archs]; rewrite nth_error_upd_other by congruence; assumption|].
      split; [apply grows_refl|]. intro p. left. reflexivity. }
  destruct o as [world|h c w|h c|h c|h c|jn' par tov wk cap|tid m sids via].
  - cbn [vstep] in H. rewrite (step_update_eq s world I1 I2) in H. cbn [bind fst snd] in H. inversion H; subst st' out_; clear H.
    cbn [fst archs set_marked set_wv]. destruct world; exact Hsame.
  - cbn [vstep] in H. bd H r Hr. destruct r as [s' o']. cbn [fst snd] in H. inversion H; subst st' out_; clear H. cbn [fst].
    eapply Hstamp; [|eapply step_getmut_effect; eassumption]. intros k i Hx. exact Hx.
  - cbn [vstep] in H. bd H r Hr. destruct r as [s' o']. cbn [fst snd] in H. inversion H; subst st' out_; clear H. cbn [fst].
    eapply Hstamp; [|eapply step_markdirty_effect; eassumption]. intros k i Hx. exact Hx.
  - cbn [vstep] in H. bd H r Hr. destruct r as [s' o']. cbn [fst snd] in H. inversion H; subst st' out_; clear H.
    apply step_getconst_effect in Hr. subst s'. exact Hsame.
  - cbn [vstep] in H. bd H r Hr. destruct r as [s' o']. cbn [fst snd] in H. inversion H; subst st' out_; clear H.
    apply step_has_effect in Hr. subst s'. exact Hsame.
  - destruct (vstep_run_cases _ _ _ _ _ _ _ _ _ I1 I3 H) as (j' & s1 & fas0 & Hj' & Hf & Hcases).
    destruct (job_filter_state _ _ _ _ Hf) as (E1 & Ewv & Elen & Hpt).
    destruct (Hpt _ _ Ha) as (a' & Ha' & Hrel).
    pose proof (Forall_nth_error _ _ _ _ I5 Ha) as Hok. destruct (jf_rel_okd _ _ _ _ Hok Hrel) as (_ & (Sh & _)).
    assert (G : exists a', nth_error (archs s1) ai = Some a' /\ grows a a' /\ stamp_src a a' (op_stamps (s, js) (VRun jn' par tov wk cap) ai)).
    { exists a'. split; [assumption|]. split; [apply same_shape_grows; assumption|]. intro p.
      destruct Hrel as [->|(-> & Hm & Hg)]; [left; reflexivity|]. unfold filtered. cbn [with_vers am_cver]. unfold jchunks.
      destruct Hok as [W1 W2 W3 W4 W5 W6 W7].
      assert (Hsize : 0 < length (am_ents a)).
      { unfold jmatch in Hm. apply andb_true_iff in Hm. destruct Hm as (Hm & _). apply Nat.ltb_lt in Hm. exact Hm. }
      assert (Hcs : 0 < am_chunk a) by (apply W6; destruct (am_ents a); [simpl in Hsize; lia|discriminate]).
      destruct (filter_chunks_nth (length (am_gver a)) (jcheck j' a) (jset j' a) (j_last j') (wv s)
                  (S ((length (am_ents a) - 1) / am_chunk a)) 0 (am_cver a) p) as [E|(_ & k0 & i0 & Hk0 & Hi0 & Hp & Hfl)]; [left; exact E|right].
      exists k0, i0. split; [apply (lt_all_in _ _ _ (jset_lt j' a W1) Hi0)|]. split; [exact Hp|].
      cbn [op_stamps fst snd]. exists j', a, (am_chunk a * k0).
      destruct (filter_chunks_spec _ _ _ (j_last j') (wv s) (jcheck_lt j' a W1) (jset_lt j' a W1)
                  (S ((length (am_ents a) - 1) / am_chunk a)) 0 (am_cver a)) as (_ & _ & H3 & _).
      rewrite (H3 k0 Hk0) in Hfl.
      assert (Hdiv : am_chunk a * k0 / am_chunk a = k0) by (rewrite Nat.mul_comm; apply Nat.div_mul; lia).
      assert (Hlt : am_chunk a * k0 < length (am_ents a)).
      { assert (am_chunk a * k0 <= am_chunk a * ((length (am_ents a) - 1) / am_chunk a)) by (apply Nat.mul_le_mono_l; lia).
        pose proof (Nat.mul_div_le (length (am_ents a) - 1) (am_chunk a) ltac:(lia)). lia. }
      split; [assumption|]. split; [assumption|]. split; [assumption|]. split; [assumption|]. split; [|symmetry; exact Hdiv].
      split; [assumption|]. split; [assumption|]. rewrite Hdiv. exact Hfl. }
    destruct Hcases as [(_ & -> & ->)|(_ & per_task & vis & s3 & _ & _ & U1 & _ & _ & _ & _ & _ & _ & _ & _ & -> & ->)]; cbn [fst].
    + exact G.
    + rewrite U1. exact G.
  - contradiction.
Qed.

Lemma vstep_nc_len s js o st' out_ :
  VInvD (s, js) -> not_create o -> vstep (s, js) o = Ok (st', out_) -> length (archs (fst st')) = length (archs s).
Proof.
  intros HI Hnc H. pose proof HI as [I1 I2 I3 I4 I5 I6 I7 I8 I9]. cbn [fst snd] in *.
  assert (Hstamp : forall h c s', stamps_entity s h c s' -> length (archs s') = length (archs s)).
  { intros h c s' [(-> & _)|(ai0 & idx & a0 & ci & a1 & a2 & _ & _ & _ & _ & _ & _ & _ & _ & _ & ->)]; [reflexivity|].
    cbn [archs set_arch set_archs]. apply upd_length. }
  destruct o as [world|h c w|h c|h c|h c|jn' par tov wk cap|tid m sids via].
  - cbn [vstep] in H. rewrite (step_update_eq s world I1 I2) in H. cbn [bind fst snd] in H. inversion H; subst st' out_; clear H.
    cbn [fst archs set_marked set_wv]. destruct world; reflexivity.
  - cbn [vstep] in H. bd H r Hr. destruct r as [s' o']. cbn [fst snd] in H. inversion H; subst st' out_; clear H. cbn [fst].
    eapply Hstamp. eapply step_getmut_effect. eassumption.
  - cbn [vstep] in H. bd H r Hr. destruct r as [s' o']. cbn [fst snd] in H. inversion H; subst st' out_; clear H. cbn [fst].
    eapply Hstamp. eapply step_markdirty_effect. eassumption.
  - cbn [vstep] in H. bd H r Hr. destruct r as [s' o']. cbn [fst snd] in H. inversion H; subst st' out_; clear H.
    apply step_getconst_effect in Hr. subst s'. reflexivity.
  - cbn [vstep] in H. bd H r Hr. destruct r as [s' o']. cbn [fst snd] in H. inversion H; subst st' out_; clear H.
    apply step_has_effect in Hr. subst s'. reflexivity.
  - destruct (vstep_run_cases _ _ _ _ _ _ _ _ _ I1 I3 H) as (j' & s1 & fas0 & Hj' & Hf & Hcases).
    destruct (job_filter_state _ _ _ _ Hf) as (E1 & Ewv & Elen & Hpt).
    destruct Hcases as [(_ & -> & ->)|(_ & per_task & vis & s3 & _ & _ & U1 & _ & _ & _ & _ & _ & _ & _ & _ & -> & ->)]; cbn [fst].
    + exact Elen.
    + rewrite U1. exact Elen.
  - contradiction.
Qed.

(* ------------------------------------------------------------------------------------------ *)
(* one operation of the extended alphabet: every stamp of the new state is at most the stamp of the same (archetype,
   version chunk, component) before, or the operation wrote it *)
Theorem stamp_source_d st o st' out_ :
  VInvD st -> (wv (fst st) + 1 < WV_NULL)%N -> properb (fst st) o = true -> dstep st o = Ok (st', out_) ->
  forall ai a' k i, nth_error (archs (fst st')) ai = Some a' -> i < length (am_gver a') ->
    (nth (length (am_gver a') * k + i) (am_cver a') 0 <= stampof (fst st) ai k i)%N \/ op_stamps_d st o ai k i.
Proof.
  intros HI Hb Hp H ai a' k i Ha' Hi. destruct st as [s js]. cbn [fst] in *. destruct o as [o|tid h].
  - cbn [dstep] in H. cbn [op_stamps_d].
    assert (Hdec : not_create o \/ exists tid m sids via, o = VCreate tid m sids via).
    { destruct o; try (left; exact I). right. eauto. }
    destruct Hdec as [Hnc|(tid & m & sids & via & ->)].
    + pose proof (vstep_nc_len _ _ _ _ _ HI Hnc H) as Elen.
      assert (Hai : ai < length (archs s)) by (rewrite <- Elen; apply nth_error_Some; congruence).
      destruct (nth_error (archs s) ai) as [a|] eqn:Ha; [|apply nth_error_None in Ha; lia].
      destruct (stamp_source_nc _ _ _ _ _ _ _ HI Hnc H Ha) as (a'' & Ha'' & (_ & _ & _ & Eg) & Hsrc).
      rewrite Ha' in Ha''. inversion Ha''; subst a''; clear Ha''.
      unfold stampof. rewrite Ha. rewrite Eg in *.
      destruct (Hsrc (length (am_gver a) * k + i)) as [E|(k' & i' & Hi' & Hpos & Hop)].
      * left. rewrite E. apply N.le_refl.
      * right. destruct (row_pos_unique _ _ _ _ _ Hi Hi' Hpos) as (-> & ->). exact Hop.
    + cbn [vstep] in H. bd H r Hr. destruct r as [s' o']. cbn [fst snd] in H. inversion H; subst st' out_; clear H. cbn [fst] in Ha'.
      destruct (create_d _ _ _ _ _ _ _ _ HI Hr) as (_ & _ & _ & h & ai1 & a3 & idx & -> & Ha3 & _ & _ & _ & _ & Hloc & Hsrc).
      destruct (Hsrc _ _ k i Ha' Hi) as [L|(-> & ->)]; [left; exact L|right].
      cbn [op_stamps fst]. eexists s', h, _, a3. split; [exact Hr|]. split; [exact Hloc|]. cbn [l_arch l_idx]. auto.
  - cbn [dstep] in H. bd H r Hr. destruct r as [s' o']. cbn [fst snd] in H. inversion H; subst st' out_; clear H. cbn [fst] in Ha'.
    destruct (destroy_d _ _ _ _ _ _ HI Hp Hr) as (_ & _ & _ & [(-> & _)|(l & ai_h & A & A' & Hv & Hl & Hla & HA & Hh & Earchs & Hrem)]).
    { left. unfold stampof. rewrite Ha'. apply N.le_refl. }
    rewrite Earchs in Ha'. destruct (Nat.eq_dec ai ai_h) as [->|Hne].
    2:{ left. rewrite nth_error_upd_other in Ha' by congruence. unfold stampof. rewrite Ha'. apply N.le_refl. }
    rewrite nth_error_upd_same in Ha' by (apply nth_error_Some; congruence). inversion Ha'; subst a'; clear Ha'.
    destruct Hrem as (last & El & Hle & Em & Ek & Hcs & El' & Es & _ & _ & (R1 & R2 & R3 & R4 & R5)).
    assert (Eg : length (am_gver A') = length (am_gver A)) by (rewrite R1; apply map_length). rewrite Eg in *.
    destruct (Nat.eq_dec k (last / am_chunk A)) as [E1|N1].
    { right. cbn [op_stamps_d fst]. exists l, A. repeat (split; [assumption|]). right. rewrite El. replace (S last - 1) with last by lia. exact E1. }
    destruct (Nat.eq_dec k (l_idx l / am_chunk A)) as [E2|N2].
    { right. cbn [op_stamps_d fst]. exists l, A. repeat (split; [assumption|]). left. exact E2. }
    left. rewrite R4; [|intros [F|F]; contradiction|exact Hi]. unfold stampof. rewrite HA. apply N.le_refl.
Qed.

(* every archetype keeps its index and its mask *)
Lemma dstep_mask st o st' out_ :
  VInvD st -> (wv (fst st) + 1 < WV_NULL)%N -> properb (fst st) o = true -> dstep st o = Ok (st', out_) ->
  forall k a, nth_error (archs (fst st)) k = Some a -> exists a', nth_error (archs (fst st')) k = Some a' /\ am_mask a' = am_mask a.
Proof.
  intros HI Hb Hp H k a Ha. destruct o as [o|tid h].
  - cbn [dstep] in H. destruct (vstep_inv_d _ _ _ _ HI Hb H) as (_ & (Fa & _) & _).
    destruct (Fa _ _ Ha) as (a' & Ha' & ((Em & _) & _)). eauto.
  - destruct st as [s js]. cbn [dstep] in H. bd H r Hr. destruct r as [s' o']. cbn [fst snd] in H. inversion H; subst st' out_; clear H. cbn [fst] in *.
    destruct (destroy_d _ _ _ _ _ _ HI Hp Hr) as (_ & _ & _ & [(-> & _)|(l & ai_h & A & A' & _ & _ & _ & HA & _ & Earchs & Hrem)]); [eauto|].
    rewrite Earchs. destruct (Nat.eq_dec k ai_h) as [->|Hne].
    + rewrite HA in Ha. inversion Ha; subst a. exists A'. split; [apply nth_error_upd_same; apply nth_error_Some; congruence|].
      destruct Hrem as (last & _ & _ & Em & _). exact Em.
    + exists a. rewrite nth_error_upd_other by congruence. auto.
Qed.

Lemma drun_mask : forall ops st st',
  VInvD st -> (wv (fst st) + N.of_nat (length ops) < WV_NULL)%N -> proper_run ops st = true -> drun ops st = Ok st' ->
  forall k a, nth_error (archs (fst st)) k = Some a -> exists a', nth_error (archs (fst st')) k = Some a' /\ am_mask a' = am_mask a.
Proof.
  induction ops as [|o t IH]; intros st st' HI Hb Hp H k a Ha.
  - simpl in H. inversion H; subst. eauto.
  - cbn [drun] in H. cbn [proper_run] in Hp. apply andb_true_iff in Hp. destruct Hp as (Hp1 & Hp2).
    bd H r Hr. destruct r as [st1 o1]. rewrite Hr in Hp2. cbn [fst] in H, Hp2. cbn [length] in Hb.
    destruct (dstep_inv _ _ _ _ HI ltac:(lia) Hp1 Hr) as (I1 & W1). pose proof (wv_effect_d_le _ _ _ _ W1) as Hle.
    destruct (dstep_mask _ _ _ _ HI ltac:(lia) Hp1 Hr _ _ Ha) as (a1 & Ha1 & E1).
    destruct (IH _ _ I1 ltac:(lia) Hp2 H _ _ Ha1) as (a' & Ha' & E'). exists a'. split; [assumption|congruence].
Qed.

(* scripts: every stamp of the final state is at most the stamp of the same (archetype, version chunk, component) in the
   initial state, or some operation of the script wrote it *)
Theorem stamp_source_run_d : forall ops st st',
  VInvD st -> (wv (fst st) + N.of_nat (length ops) < WV_NULL)%N -> proper_run ops st = true -> drun ops st = Ok st' ->
  forall ai a' k i, nth_error (archs (fst st')) ai = Some a' -> i < length (am_gver a') ->
    (nth (length (am_gver a') * k + i) (am_cver a') 0 <= stampof (fst st) ai k i)%N \/ stamped_in_d ai k i st ops.
Proof.
  induction ops as [|o t IH]; intros st st' HI Hb Hp H ai a' k i Ha' Hi.
  - simpl in H. inversion H; subst. left. unfold stampof. rewrite Ha'. apply N.le_refl.
  - cbn [drun] in H. pose proof Hp as Hp0. cbn [proper_run] in Hp. apply andb_true_iff in Hp. destruct Hp as (Hp1 & Hp2).
    bd H r Hr. destruct r as [st1 o1]. rewrite Hr in Hp2. cbn [fst] in H, Hp2. cbn [length] in Hb.
    destruct (dstep_inv _ _ _ _ HI ltac:(lia) Hp1 Hr) as (I1 & W1). pose proof (wv_effect_d_le _ _ _ _ W1) as Hle.
    assert (Hb2 : (wv (fst st1) + N.of_nat (length t) < WV_NULL)%N) by lia.
    destruct (IH _ _ I1 Hb2 Hp2 H ai a' k i Ha' Hi) as [L|R]; [|right; eapply sid_later; eassumption].
    unfold stampof in L. destruct (nth_error (archs (fst st1)) ai) as [a1|] eqn:Ha1.
    2:{ left. eapply N.le_trans; [exact L|apply N.le_0_l]. }
    destruct (drun_mask _ _ _ I1 Hb2 Hp2 H _ _ Ha1) as (a'' & Ha'' & Em). rewrite Ha' in Ha''. inversion Ha''; subst a''; clear Ha''.
    destruct (drun_inv _ _ _ I1 Hb2 Hp2 H) as (I' & _).
    assert (Eg : length (am_gver a1) = length (am_gver a')).
    { rewrite (ad_wf _ _ (Forall_nth_error _ _ _ _ (vd_archs _ I1) Ha1)), (ad_wf _ _ (Forall_nth_error _ _ _ _ (vd_archs _ I') Ha')), Em. reflexivity. }
    destruct (stamp_source_d _ _ _ _ HI ltac:(lia) Hp1 Hr ai a1 k i Ha1 ltac:(rewrite Eg; exact Hi)) as [L1|R1].
    + left. eapply N.le_trans; [exact L|exact L1].
    + right. apply sid_here. exact R1.
Qed.

(* ------------------------------------------------------------------------------------------ *)
(* right after a run that had work no stamp is ahead of the job's new last version *)
Lemma after_work_d s js jn j par tov wk cap st1 out_ h0 :
  VInvD (s, js) -> (wv s + 1 < WV_NULL)%N -> nth_error js jn = Some j ->
  vstep (s, js) (VRun jn par tov wk cap) = Ok (st1, out_) -> handed out_ h0 ->
  nth_error (snd st1) jn = Some (relast j (wv s)) /\ wv (fst st1) = (wv s + 1)%N /\
  (forall ai k i, (stampof (fst st1) ai k i <= wv s)%N) /\ exists vis, out_ = RJob (wv s) vis.
Proof.
  intros HI Hb Hj H Hh. pose proof HI as [I1 I2 I3 I4 I5 I6 I7 I8 I9]. cbn [fst snd] in *.
  destruct (vstep_run_cases _ _ _ _ _ _ _ _ _ I1 I3 H) as (j' & s1 & fas0 & Hj' & Hf & Hcases).
  rewrite Hj in Hj'. inversion Hj'; subst j'; clear Hj'.
  destruct (job_filter_state _ _ _ _ Hf) as (E1 & Ewv & Elen & Hpt).
  destruct Hcases as [(_ & _ & ->)|(_ & per_task & vis & s3 & _ & _ & U1 & U2 & _ & _ & _ & _ & _ & _ & _ & -> & ->)].
  { destruct Hh as (v & e & [] & _). }
  cbn [fst snd]. split; [apply nth_error_upd_same; apply nth_error_Some; congruence|].
  split; [rewrite U2; apply inc_nowrap; assumption|]. split; [|eauto].
  intros ai k i. unfold stampof. rewrite U1. destruct (nth_error (archs s1) ai) as [a'|] eqn:Ha'; [|apply N.le_0_l].
  assert (Hi : ai < length (archs s)) by (rewrite <- Elen; apply nth_error_Some; congruence).
  destruct (nth_error (archs s) ai) as [a|] eqn:Ha; [|apply nth_error_None in Ha; lia].
  destruct (Hpt _ _ Ha) as (a'' & Ha'' & Hrel). rewrite Ha' in Ha''. inversion Ha''; subst a''; clear Ha''.
  destruct (jf_rel_okd _ _ _ _ (Forall_nth_error _ _ _ _ I5 Ha) Hrel) as (Hok' & _).
  apply le_all_nth. exact (ad_cver _ _ Hok').
Qed.

(* the job checks some component in every archetype it can match *)
Definition always_checks (j : job) : Prop :=
  forall a, mmatch (am_mask a) (job_required_mask j) = true -> jcheck j a <> [].

Lemma mmatch_has m r c : mmatch m r = true -> mhas r c = true -> mhas m c = true.
Proof.
  unfold mmatch, mhas. intros H Hr. apply N.eqb_eq in H. rewrite <- H in Hr. rewrite N.land_spec in Hr.
  apply andb_true_iff in Hr. exact (proj1 Hr).
Qed.

(* e.g. a job that checks a component it requires *)
Lemma always_checks_intro j c : c < MASK_BITS -> mhas (j_check j) c = true -> mhas (job_required_mask j) c = true -> always_checks j.
Proof.
  intros Hc Hchk Hreq a Hm. pose proof (mmatch_has _ _ _ Hm Hreq) as Hmc.
  assert (Hci : cindex (am_mask a) c = Some (length (filter (mhas (am_mask a)) (seq 0 c)))) by (unfold cindex; rewrite Hmc; reflexivity).
  assert (Hin : In (length (filter (mhas (am_mask a)) (seq 0 c))) (jcheck j a)).
  { unfold jcheck. eapply comp_indices_intro; [|exact Hci]. apply mitems_in. auto. }
  intro F. rewrite F in Hin. destruct Hin.
Qed.

(* C11, chunk precision over histories with destruction *)
Theorem C11_precise_d_core st0 jn j p0 t0 w0 c0 st1 out0 h0 mid st2 par tov wk cap st3 out_ h :
  VInvD st0 -> (wv (fst st0) + N.of_nat (length mid) + 2 < WV_NULL)%N ->
  nth_error (snd st0) jn = Some j -> always_checks j ->
  vstep st0 (VRun jn p0 t0 w0 c0) = Ok (st1, out0) -> handed out0 h0 ->
  no_run_d jn mid -> proper_run mid st1 = true -> drun mid st1 = Ok st2 -> 0 < cap ->
  vstep st2 (VRun jn par tov wk cap) = Ok (st3, out_) -> handed out_ h ->
  exists ai a idx i, nth_error (archs (fst st2)) ai = Some a /\ nth_error (am_ents a) idx = Some h /\
    jmatch j a = true /\ In i (jcheck j a) /\ stamped_in_d ai (idx / am_chunk a) i st1 mid.
Proof.
  destruct st0 as [s0 js0]. intros HI Hb Hj Hac H1 Hh0 Hno Hp H2 Hcap H3 Hh. cbn [fst snd] in *.
  assert (Hb0 : (wv (fst (s0, js0)) + 1 < WV_NULL)%N) by (cbn [fst]; lia).
  destruct (vstep_inv_d _ _ _ _ HI Hb0 H1) as (I1 & _ & _). cbn [fst] in Hb0.
  destruct (after_work_d _ _ _ _ _ _ _ _ _ _ _ HI Hb0 Hj H1 Hh0) as (Hj1 & Hwv1 & Hq1 & _).
  assert (Hb1 : (wv (fst st1) + N.of_nat (length mid) < WV_NULL)%N) by lia.
  destruct (drun_inv _ _ _ I1 Hb1 Hp H2) as (I2 & _).
  pose proof (drun_keeps_job jn _ _ _ I1 Hb1 Hp H2 Hno) as Ejob. rewrite Hj1 in Ejob.
  destruct st2 as [s2 js2]. cbn [fst snd] in *.
  destruct (run_handed_char_d _ _ _ _ _ _ _ _ _ I2 Hcap H3) as (j2 & Hj2 & Hchar). rewrite Ejob in Hj2. inversion Hj2; subst j2; clear Hj2.
  apply Hchar in Hh. destruct Hh as (ai & a2 & idx & Ha2 & Hm2 & (Hidx & _ & Hfl) & Hent).
  rewrite jmatch_relast in Hm2. rewrite jcheck_relast in Hfl. cbn [relast j_last] in Hfl.
  pose proof (Forall_nth_error _ _ _ _ (vd_archs _ I2) Ha2) as Hok2. cbn [fst] in Hok2.
  assert (Hmm : mmatch (am_mask a2) (job_required_mask j) = true).
  { unfold jmatch in Hm2. apply andb_true_iff in Hm2. exact (proj2 Hm2). }
  apply need_flag_true in Hfl. destruct Hfl as [E|[E|(i & Hi & Hlt)]].
  { exfalso. unfold WV_NULL in *. lia. }
  { exfalso. exact (Hac a2 Hmm E). }
  exists ai, a2, idx, i. split; [assumption|]. split; [assumption|]. split; [assumption|]. split; [assumption|].
  assert (Hig : i < length (am_gver a2)) by (apply (lt_all_in _ _ _ (jcheck_lt j a2 (ad_wf _ _ Hok2)) Hi)).
  destruct (stamp_source_run_d _ _ _ I1 Hb1 Hp H2 ai a2 (idx / am_chunk a2) i Ha2 Hig) as [L|R]; [|exact R].
  exfalso. specialize (Hq1 ai (idx / am_chunk a2) i). lia.
Qed.

Theorem C11_precise_d_pop n cis setup s0 js pre st0 jn j p0 t0 w0 c0 st1 out0 h0 mid st2 par tov wk cap st3 out_ h :
  population n cis setup s0 -> fresh_jobs js ->
  (N.of_nat (length pre) + N.of_nat (length mid) + 2 < WV_NULL)%N ->
  proper_run pre (s0, js) = true -> drun pre (s0, js) = Ok st0 ->
  nth_error (snd st0) jn = Some j -> always_checks j ->
  vstep st0 (VRun jn p0 t0 w0 c0) = Ok (st1, out0) -> handed out0 h0 ->
  no_run_d jn mid -> proper_run mid st1 = true -> drun mid st1 = Ok st2 -> 0 < cap ->
  vstep st2 (VRun jn par tov wk cap) = Ok (st3, out_) -> handed out_ h ->
  exists ai a idx i, nth_error (archs (fst st2)) ai = Some a /\ nth_error (am_ents a) idx = Some h /\
    jmatch j a = true /\ In i (jcheck j a) /\ stamped_in_d ai (idx / am_chunk a) i st1 mid.
Proof.
  intros Hp Hj Hb Hppre Hpre. assert (Hbp : (N.of_nat (length pre) < WV_NULL)%N) by lia.
  destruct (history_invariants_d _ _ _ _ _ _ _ Hp Hj Hbp Hppre Hpre) as (I0 & W0).
  intros. eapply (C11_precise_d_core st0 jn j p0 t0 w0 c0 st1 out0 h0 mid st2 par tov wk cap st3 out_ h); try eassumption. lia.
Qed.
