(* Dispatcher LTS, second invariant: every task is run AT MOST ONCE, ids are FIFO positions, serial queues finish in
   submission order, nothing is run by a worker after the join, concurrently running tasks have distinct thread ids.
   Strengthens DispatcherProofs.Inv (which gives: every popped task is finished or held; serial exclusivity). *)
Require Import Coq.Lists.List Coq.Arith.Arith Coq.Bool.Bool Coq.micromega.Lia.
From Mustache Require Import Dispatcher.
From Mustache.proofs Require Import ListLemmas DispatcherProofs.
Import ListNotations.

(* ---- vocabulary ---- *)
(* the thread id a holder's task observes: worker k has id k+1, the external (helping) thread has id 0 *)
Definition tid (h : option nat) : nat := match h with Some t => S t | None => 0 end.

Definition task_eq_dec (a b : nat * nat) : {a = b} + {a <> b}.
Proof. decide equality; apply Nat.eq_dec. Defined.

(* the ids of queue q in the order they finished, most recent first *)
Definition fin_of (s : dst) (q : nat) : list nat := map snd (filter (fun p => Nat.eqb (fst p) q) (finished s)).

Fixpoint down (n : nat) : list nat := match n with 0 => [] | S k => k :: down k end.

Definition all_exited (s : dst) : Prop := forall t w, nth_error (workers s) t = Some w -> w = WExited.

Lemma down_rev_seq n : down n = rev (seq 0 n).
Proof. induction n as [|n IH]; [reflexivity|]. rewrite seq_S, rev_app_distr. simpl. f_equal. assumption. Qed.

Lemma in_down n id : In id (down n) <-> id < n.
Proof. induction n as [|n IH]; simpl; [lia|]. rewrite IH. lia. Qed.

Lemma is_fin_In s q id : is_fin s q id = true <-> In (q, id) (finished s).
Proof.
  unfold is_fin. rewrite existsb_exists. split.
  - intros ((a, b) & Hin & E). simpl in E. apply andb_true_iff in E. destruct E as (E1 & E2).
    apply Nat.eqb_eq in E1. apply Nat.eqb_eq in E2. subst. assumption.
  - intros Hin. exists (q, id). split; [assumption|]. simpl. rewrite !Nat.eqb_refl. reflexivity.
Qed.

Lemma in_fin_of s q id : In id (fin_of s q) <-> In (q, id) (finished s).
Proof.
  unfold fin_of. rewrite in_map_iff. split.
  - intros ((a, b) & E & Hin). simpl in E. subst. apply filter_In in Hin. destruct Hin as (Hin & E). simpl in E.
    apply Nat.eqb_eq in E. subst. assumption.
  - intros Hin. exists (q, id). split; [reflexivity|]. apply filter_In. split; [assumption|]. simpl. apply Nat.eqb_refl.
Qed.

(* a thread holds one task *)
Lemma holds_fun s h q1 id1 q2 id2 : holds s h q1 id1 -> holds s h q2 id2 -> q1 = q2 /\ id1 = id2.
Proof. destruct h as [t|]; simpl; intros R1 R2; rewrite R1 in R2; inversion R2; auto. Qed.

Lemma upd_same {A} (l : list A) i x : nth_error l i = Some x -> upd l i x = l.
Proof. revert i; induction l as [|a l IH]; intros [|i] H; simpl in *; try discriminate; [inversion H; reflexivity|f_equal; auto]. Qed.

(* what of a queue the second invariant looks at *)
Definition qkey (qu : queue) : nat * bool := (q_pop qu, q_serial qu).

Lemma qkey_corr (l l' : list queue) q qu' : map qkey l' = map qkey l -> nth_error l' q = Some qu' ->
  exists qu, nth_error l q = Some qu /\ q_pop qu = q_pop qu' /\ q_serial qu = q_serial qu'.
Proof.
  intros E H. apply (map_nth_error qkey) in H. rewrite E, nth_error_map in H.
  destruct (nth_error l q) as [qu|]; simpl in H; [|discriminate]. exists qu. unfold qkey in H. inversion H. auto.
Qed.

Lemma qkey_upd (l : list queue) q qu x : nth_error l q = Some qu -> qkey x = qkey qu -> map qkey (upd l q x) = map qkey l.
Proof.
  revert q; induction l as [|a l IH]; intros [|q] H E; simpl in *; try discriminate.
  - inversion H; subst. rewrite E. reflexivity.
  - f_equal. auto.
Qed.

Lemma lt_pop_upd (l : list queue) q qu x q' id :
  nth_error l q = Some qu -> q_pop qu <= q_pop x ->
  (exists a, nth_error l q' = Some a /\ id < q_pop a) -> exists b, nth_error (upd l q x) q' = Some b /\ id < q_pop b.
Proof.
  intros Hq Hle (a & Ha & Hlt). destruct (Nat.eq_dec q q') as [E|Hne].
  - subst q'. exists x. split; [eapply nth_error_upd_same; eassumption|]. rewrite Hq in Ha. inversion Ha; subst. lia.
  - exists a. split; [rewrite nth_error_upd_other by assumption; assumption|assumption].
Qed.

(* ---- the second invariant ---- *)
Record Inv2 (s : dst) : Prop := {
  i2_nodup : NoDup (finished s);
  i2_notfin : forall h q id, holds s h q id -> ~ In (q, id) (finished s);
  i2_uniq : forall h1 h2 q id, holds s h1 q id -> holds s h2 q id -> h1 = h2;
  i2_runlt : forall h q id, holds s h q id -> exists qu, nth_error (queues s) q = Some qu /\ id < q_pop qu;
  i2_finlt : forall q id, In (q, id) (finished s) -> exists qu, nth_error (queues s) q = Some qu /\ id < q_pop qu;
  (* a serial queue's running job is the last one popped *)
  i2_top : forall q qu h id, nth_error (queues s) q = Some qu -> q_serial qu = true -> holds s h q id -> S id = q_pop qu;
  (* the jobs of a serial queue finished in the order 0, 1, 2, ... *)
  i2_order : forall q qu, nth_error (queues s) q = Some qu -> q_serial qu = true -> exists n, fin_of s q = down n
}.

Lemma init_no_holds nw ns h q id : ~ holds (d_init nw ns) h q id.
Proof. destruct h as [t|]; simpl; intros R; [apply nth_error_repeat in R|]; discriminate. Qed.

Lemma inv2_init nw ns : Inv2 (d_init nw ns).
Proof.
  constructor.
  - constructor.
  - intros h q id R. exfalso. exact (init_no_holds _ _ _ _ _ R).
  - intros h1 h2 q id R. exfalso. exact (init_no_holds _ _ _ _ _ R).
  - intros h q id R. exfalso. exact (init_no_holds _ _ _ _ _ R).
  - intros q id [].
  - intros q qu h id _ _ R. exfalso. exact (init_no_holds _ _ _ _ _ R).
  - intros q qu _ _. exists 0. reflexivity.
Qed.

(* a step that changes neither who holds what, nor finished, nor any queue's pop counter / kind *)
Lemma inv2_neutral s s' :
  Inv2 s -> (forall h q id, holds s' h q id <-> holds s h q id) ->
  map qkey (queues s') = map qkey (queues s) -> finished s' = finished s -> Inv2 s'.
Proof.
  intros H2 Hh Hk Hf. constructor.
  - rewrite Hf. apply i2_nodup; assumption.
  - intros h q id R. rewrite Hf. apply Hh in R. eapply i2_notfin; eassumption.
  - intros h1 h2 q id R1 R2. apply Hh in R1. apply Hh in R2. eapply i2_uniq; eassumption.
  - intros h q id R. apply Hh in R. destruct (i2_runlt s H2 h q id R) as (qu & Hq & Hlt).
    destruct (qkey_corr _ _ q qu (eq_sym Hk) Hq) as (qu' & Hq' & Ep & _). exists qu'. split; [assumption|lia].
  - intros q id Hin. rewrite Hf in Hin. destruct (i2_finlt s H2 q id Hin) as (qu & Hq & Hlt).
    destruct (qkey_corr _ _ q qu (eq_sym Hk) Hq) as (qu' & Hq' & Ep & _). exists qu'. split; [assumption|lia].
  - intros q qu' h id Hq' Hs R. apply Hh in R. destruct (qkey_corr _ _ q qu' Hk Hq') as (qu & Hq & Ep & Es).
    rewrite <- Ep. eapply (i2_top s H2 q qu h id Hq); [congruence|assumption].
  - intros q qu' Hq' Hs. destruct (qkey_corr _ _ q qu' Hk Hq') as (qu & Hq & Ep & Es).
    unfold fin_of. rewrite Hf. apply (i2_order s H2 q qu Hq). congruence.
Qed.

(* a holder h0 (holding nothing before) starts task (q, pop) *)
Lemma inv2_pop s s' q qu h0 :
  Inv s -> Inv2 s -> nth_error (queues s) q = Some qu -> q_runnable qu = true ->
  queues s' = upd (queues s) q (pop_q qu) -> finished s' = finished s ->
  (forall h q' id, holds s' h q' id <-> (h = h0 /\ q' = q /\ id = q_pop qu) \/ (h <> h0 /\ holds s h q' id)) ->
  Inv2 s'.
Proof.
  intros HI H2 Hq Hrun Hqs Hf Hh.
  destruct (runnable_facts qu Hrun) as (_ & Hunl).
  assert (Hnew : nth_error (queues s') q = Some (pop_q qu)) by (rewrite Hqs; eapply nth_error_upd_same; eassumption).
  assert (Hmono : forall q' id, (exists a, nth_error (queues s) q' = Some a /\ id < q_pop a) ->
                                exists b, nth_error (queues s') q' = Some b /\ id < q_pop b).
  { intros q' id Hx. rewrite Hqs. eapply lt_pop_upd; [eassumption|simpl; lia|assumption]. }
  assert (Hnotold : forall h, ~ holds s h q (q_pop qu)).
  { intros h R. destruct (i2_runlt s H2 h _ _ R) as (a & Ha & Hlt). rewrite Hq in Ha. inversion Ha; subst. lia. }
  constructor.
  - rewrite Hf. apply i2_nodup; assumption.
  - intros h q' id R. rewrite Hf. apply Hh in R. destruct R as [(_ & Eq' & Eid)|(_ & R)].
    + subst q' id. intros Hin. destruct (i2_finlt s H2 _ _ Hin) as (a & Ha & Hlt). rewrite Hq in Ha. inversion Ha; subst. lia.
    + eapply i2_notfin; eassumption.
  - intros h1 h2 q' id R1 R2. apply Hh in R1. apply Hh in R2.
    destruct R1 as [(E1 & Eq1 & Eid1)|(N1 & R1)]; destruct R2 as [(E2 & Eq2 & Eid2)|(N2 & R2)].
    + congruence.
    + subst q' id. exfalso. eapply Hnotold; eassumption.
    + subst q' id. exfalso. eapply Hnotold; eassumption.
    + eapply i2_uniq; eassumption.
  - intros h q' id R. apply Hh in R. destruct R as [(_ & Eq' & Eid)|(_ & R)].
    + subst q' id. exists (pop_q qu). split; [assumption|simpl; lia].
    + apply Hmono. eapply i2_runlt; eassumption.
  - intros q' id Hin. rewrite Hf in Hin. apply Hmono. eapply i2_finlt; eassumption.
  - intros q' qu' h id Hq' Hs R. apply Hh in R. rewrite Hqs in Hq'. apply queues_upd_cases in Hq'.
    destruct Hq' as [(Eq' & Equ')|(Hne & Hq')].
    + subst q' qu'. simpl in Hs. simpl. destruct R as [(_ & _ & Eid)|(_ & R)]; [congruence|].
      exfalso. eapply (inv_lock s HI q qu Hq Hunl Hs id). exists h. exact R.
    + destruct R as [(_ & E & _)|(_ & R)]; [congruence|]. eapply i2_top; eassumption.
  - intros q' qu' Hq' Hs. unfold fin_of. rewrite Hf. rewrite Hqs in Hq'. apply queues_upd_cases in Hq'.
    destruct Hq' as [(Eq' & Equ')|(Hne & Hq')].
    + subst q' qu'. simpl in Hs. exact (i2_order s H2 q qu Hq Hs).
    + exact (i2_order s H2 q' qu' Hq' Hs).
Qed.

(* a holder h0 finishes the task (q, id0) it holds *)
Lemma inv2_end s s' q qu h0 id0 :
  Inv s -> Inv2 s -> nth_error (queues s) q = Some qu -> holds s h0 q id0 ->
  queues s' = upd (queues s) q (end_q qu) -> finished s' = (q, id0) :: finished s ->
  (forall h q' id, holds s' h q' id <-> (h <> h0 /\ holds s h q' id)) ->
  Inv2 s'.
Proof.
  intros HI H2 Hq Hheld Hqs Hf Hh.
  assert (Hmono : forall q' id, (exists a, nth_error (queues s) q' = Some a /\ id < q_pop a) ->
                                exists b, nth_error (queues s') q' = Some b /\ id < q_pop b).
  { intros q' id Hx. rewrite Hqs. eapply lt_pop_upd; [eassumption|simpl; lia|assumption]. }
  constructor.
  - rewrite Hf. constructor; [eapply i2_notfin; eassumption|apply i2_nodup; assumption].
  - intros h q' id R. apply Hh in R. destruct R as (Hne & R). rewrite Hf. intros [E|Hin].
    + inversion E; subst. apply Hne. eapply i2_uniq; eassumption.
    + eapply i2_notfin; eassumption.
  - intros h1 h2 q' id R1 R2. apply Hh in R1. apply Hh in R2. destruct R1 as (_ & R1). destruct R2 as (_ & R2).
    eapply i2_uniq; eassumption.
  - intros h q' id R. apply Hh in R. destruct R as (_ & R). apply Hmono. eapply i2_runlt; eassumption.
  - intros q' id Hin. rewrite Hf in Hin. apply Hmono. destruct Hin as [E|Hin].
    + inversion E; subst. eapply i2_runlt; eassumption.
    + eapply i2_finlt; eassumption.
  - intros q' qu' h id Hq' Hs R. apply Hh in R. destruct R as (_ & R). rewrite Hqs in Hq'. apply queues_upd_cases in Hq'.
    destruct Hq' as [(Eq' & Equ')|(Hne & Hq')].
    + subst q' qu'. simpl in Hs. simpl. eapply (i2_top s H2 q qu); eassumption.
    + eapply i2_top; eassumption.
  - intros q' qu' Hq' Hs. rewrite Hqs in Hq'. apply queues_upd_cases in Hq'. unfold fin_of. rewrite Hf. simpl.
    destruct Hq' as [(Eq' & Equ')|(Hne & Hq')].
    + subst q' qu'. simpl in Hs. rewrite Nat.eqb_refl. simpl.
      destruct (i2_order s H2 q qu Hq Hs) as (n & En). exists (S n). simpl. fold (fin_of s q). rewrite En. f_equal.
      pose proof (i2_top s H2 q qu h0 id0 Hq Hs Hheld) as Etop.
      destruct (lt_eq_lt_dec id0 n) as [[Hlt|E]|Hgt]; [exfalso|assumption|exfalso].
      * apply (i2_notfin s H2 h0 q id0 Hheld). apply in_fin_of. rewrite En. apply in_down. assumption.
      * destruct (inv_acct s HI q qu n Hq ltac:(lia)) as [F|(h & R)].
        -- apply is_fin_In in F. apply in_fin_of in F. rewrite En in F. apply in_down in F. lia.
        -- pose proof (i2_top s H2 q qu h n Hq Hs R). lia.
    + apply Nat.eqb_neq in Hne. rewrite Hne. exact (i2_order s H2 q' qu' Hq' Hs).
Qed.

(* ---- every accepted event preserves the second invariant ---- *)
Theorem inv2_step strict s e s' : Inv s -> Inv2 s -> dstep strict s e = Some s' -> Inv2 s'.
Proof.
  intros HI H2 H. destruct e; simpl in H.
  - (* submit *)
    destruct (nth_error (queues s) q) as [qu|] eqn:Eq; [|discriminate]. inversion H; subst; clear H.
    apply (inv2_neutral s _ H2); [|simpl; eapply qkey_upd; [eassumption|reflexivity]|reflexivity].
    intros h qa ida. apply holds_set_q.
  - (* worker at loop top *)
    destruct (nth_error (workers s) (pred t)) as [[| | |]|]; try discriminate. destruct (Nat.eqb t 0); inversion H; subst; assumption.
  - (* wait enter *)
    destruct (nth_error (workers s) (pred t)) as [[| | |]|] eqn:Ew; try discriminate.
    destruct (negb (Nat.eqb t 0) && negb (existsb q_runnable (queues s)) && Nat.eqb count (S (waiting s))); [|discriminate].
    inversion H; subst; clear H. apply (inv2_neutral s _ H2); [|reflexivity|reflexivity].
    intros h qa ida. rewrite holds_set_wait. apply (holds_upd_idle s (pred t) WIdle WWaiting h qa ida Ew); auto with disp.
  - (* wait exit *)
    destruct (nth_error (workers s) (pred t)) as [[| | |]|] eqn:Ew; try discriminate.
    inversion H; subst; clear H. apply (inv2_neutral s _ H2); [|reflexivity|reflexivity].
    intros h qa ida. rewrite holds_set_wait. apply (holds_upd_idle s (pred t) WWaiting WIdle h qa ida Ew); auto with disp.
  - (* worker pop *)
    destruct (nth_error (workers s) (pred t)) as [[| | |]|] eqn:Ew; try discriminate.
    destruct (nth_error (queues s) q) as [qu|] eqn:Eq; [|discriminate].
    destruct (negb (Nat.eqb t 0) && q_runnable qu) eqn:Eg; [|discriminate]. apply andb_true_iff in Eg. destruct Eg as (_ & Hrun).
    inversion H; subst; clear H.
    apply (inv2_pop s _ q qu (Some (pred t)) HI H2 Eq Hrun); [reflexivity|reflexivity|].
    intros h qa ida. rewrite holds_set_q. rewrite (holds_upd_worker s (pred t) WIdle _ h qa ida Ew). split.
    + intros [(-> & E)|(N & R)]; [inversion E; left; auto|right; auto].
    + intros [(-> & -> & ->)|(N & R)]; [left; auto|right; auto].
  - (* worker end *)
    destruct (nth_error (workers s) (pred t)) as [[| |q' id|]|] eqn:Ew; try discriminate.
    destruct (nth_error (queues s) q) as [qu|] eqn:Eq; [|discriminate].
    destruct (Nat.eqb_spec q q') as [->|]; [|discriminate]. inversion H; subst; clear H.
    apply (inv2_end s _ q' qu (Some (pred t)) id HI H2 Eq Ew); [reflexivity|reflexivity|].
    intros h qa ida. rewrite holds_add_fin, holds_set_q. rewrite (holds_upd_worker s (pred t) _ WIdle h qa ida Ew). split.
    + intros [(_ & E)|(N & R)]; [discriminate|auto].
    + intros (N & R). right. auto.
  - (* worker exit under the lock *)
    destruct (nth_error (workers s) (pred t)) as [[| | |]|] eqn:Ew; try discriminate. destruct (term s); [|discriminate].
    inversion H; subst; clear H. apply (inv2_neutral s _ H2); [|reflexivity|reflexivity].
    intros h qa ida. apply (holds_upd_idle s (pred t) WIdle WExited h qa ida Ew); auto with disp.
  - (* worker function returns *)
    destruct (nth_error (workers s) (pred t)) as [[| | |]|] eqn:Ew; try discriminate;
      (destruct (term s && negb (Nat.eqb t 0)); [|discriminate]); inversion H; subst; clear H;
      (apply (inv2_neutral s _ H2); [|reflexivity|reflexivity]); intros h qa ida.
    + apply (holds_upd_idle s (pred t) WIdle WExited h qa ida Ew); auto with disp.
    + apply (holds_upd_idle s (pred t) WExited WExited h qa ida Ew); auto with disp.
  - (* helper enters wait() *)
    destruct (helper s) eqn:Eh; try discriminate. destruct (nth_error (queues s) q); [|discriminate].
    inversion H; subst; clear H. apply (inv2_neutral s _ H2); [|reflexivity|reflexivity].
    intros h qa ida. apply holds_set_h_idle; [rewrite Eh|]; intros a b E; discriminate.
  - (* helper observes the queue empty *)
    destruct (helper s) as [|q'| |] eqn:Eh; try discriminate. destruct (nth_error (queues s) q) as [qu|] eqn:Eq; [|discriminate].
    destruct (Nat.eqb q q' && negb (q_nonempty qu)); [|discriminate].
    inversion H; subst; clear H. apply (inv2_neutral s _ H2); [|reflexivity|reflexivity].
    intros h qa ida. apply holds_set_h_idle; [rewrite Eh|]; intros a b E; discriminate.
  - (* helper finds the serial queue busy *)
    destruct (helper s) as [|q'| |] eqn:Eh; try discriminate. destruct (nth_error (queues s) q) as [qu|]; [|discriminate].
    destruct (Nat.eqb q q' && q_locked qu); inversion H; subst; assumption.
  - (* helper pop *)
    destruct (helper s) as [|q'| |] eqn:Eh; try discriminate. destruct (nth_error (queues s) q) as [qu|] eqn:Eq; [|discriminate].
    destruct (Nat.eqb q q' && q_runnable qu) eqn:Eg; [|discriminate]. apply andb_true_iff in Eg. destruct Eg as (_ & Hrun).
    inversion H; subst; clear H.
    apply (inv2_pop s _ q qu None HI H2 Eq Hrun); [reflexivity|reflexivity|].
    intros h qa ida. rewrite holds_set_q, holds_set_h. split.
    + intros [(-> & E)|(N & R)]; [inversion E; left; auto|right; auto].
    + intros [(-> & -> & ->)|(N & R)]; [left; auto|right; auto].
  - (* helper end *)
    destruct (helper s) as [| |q' id|] eqn:Eh; try discriminate. destruct (nth_error (queues s) q) as [qu|] eqn:Eq; [|discriminate].
    destruct (Nat.eqb_spec q q') as [->|]; [|discriminate]. inversion H; subst; clear H.
    apply (inv2_end s _ q' qu None id HI H2 Eq Eh); [reflexivity|reflexivity|].
    intros h qa ida. rewrite holds_add_fin, holds_set_q, holds_set_h. split.
    + intros [(_ & E)|(N & R)]; [discriminate|auto].
    + intros (N & R). right. auto.
  - (* unsuccessful barrier read *)
    destruct (helper s); inversion H; subst; assumption.
  - (* barrier pass *)
    assert (G : forall sx, sx = set_h s HOut -> h_not_running (helper s) -> Inv2 sx).
    { intros sx -> Hn. apply (inv2_neutral s _ H2); [|reflexivity|reflexivity].
      intros h qa ida. apply holds_set_h_idle; [assumption|intros a b E; discriminate]. }
    destruct (helper s) as [|q'| |q' obs] eqn:Eh; try discriminate; destruct (nth_error (queues s) q) as [qu|]; try discriminate.
    + destruct (Nat.eqb q q' && term s && negb strict); [|discriminate]. inversion H; subst. apply G; [reflexivity|intros a b E; discriminate].
    + destruct (negb (Nat.eqb q q')); [discriminate|].
      destruct strict.
      * destruct (q_serial qu).
        -- destruct (q_locked qu); [discriminate|]. inversion H; subst. apply G; [reflexivity|intros a b E; discriminate].
        -- destruct (Nat.eqb (waiting s) (length (workers s))); [|discriminate]. inversion H; subst. apply G; [reflexivity|intros a b E; discriminate].
      * destruct (all_fin_below s q obs); [|discriminate]. inversion H; subst. apply G; [reflexivity|intros a b E; discriminate].
  - (* terminate *)
    inversion H; subst; clear H. apply (inv2_neutral s _ H2); [|reflexivity|reflexivity].
    intros h qa ida. destruct h; simpl; tauto.
  - (* clear *)
    destruct (queues s) as [|qu ql] eqn:Eql; [discriminate|]. inversion H; subst; clear H.
    apply (inv2_neutral s _ H2); [|simpl; rewrite Eql; reflexivity|reflexivity].
    intros h qa ida. apply holds_set_q.
  - (* joined *)
    destruct (forallb (fun w => wstate_eqb w WExited) (workers s)); [|discriminate]. inversion H; subst; clear H.
    apply (inv2_neutral s _ H2); [|reflexivity|reflexivity].
    intros h qa ida. destruct h; simpl; tauto.
Qed.

Theorem inv2_run strict : forall tr s s', Inv s -> Inv2 s -> drun strict s tr = Some s' -> Inv2 s'.
Proof.
  induction tr as [|e t IH]; intros s s' HI H2 H; simpl in H; [inversion H; subst; assumption|].
  destruct (dstep strict s e) as [s1|] eqn:E; [|discriminate].
  eapply IH; [eapply inv_step; eassumption|eapply inv2_step; eassumption|eassumption].
Qed.

Lemma reach_inv strict nw ns tr s : drun strict (d_init nw ns) tr = Some s -> Inv s /\ Inv2 s.
Proof.
  intros H. split; [exact (inv_run strict tr _ _ (inv_init nw ns) H)|exact (inv2_run strict tr _ _ (inv_init nw ns) (inv2_init nw ns) H)].
Qed.

(* ---- teardown: joined => every worker has exited; an exited worker => terminate was set ---- *)
Record TInv (s : dst) : Prop := {
  t_joined : joined s = true -> all_exited s;
  t_exited : forall t, nth_error (workers s) t = Some WExited -> term s = true
}.

Lemma tinv_init nw ns : TInv (d_init nw ns).
Proof. constructor; simpl; [discriminate|]. intros t R. apply nth_error_repeat in R. discriminate. Qed.

Lemma tinv_upd_worker s s' pt w0 w1 :
  TInv s -> nth_error (workers s) pt = Some w0 -> workers s' = upd (workers s) pt w1 ->
  term s' = term s -> joined s' = joined s -> (w1 = WExited -> term s = true) -> (w0 = WExited -> w1 = WExited) -> TInv s'.
Proof.
  intros HT Hw Ews Et Ej H1 H0. constructor.
  - rewrite Ej. intros J t w R. pose proof (t_joined s HT J) as Hall. rewrite Ews, nth_error_upd in R.
    destruct (Nat.eqb pt t && Nat.ltb pt (length (workers s))).
    + inversion R; subst. apply H0. eapply Hall; eassumption.
    + eapply Hall; eassumption.
  - intros t R. rewrite Et. rewrite Ews, nth_error_upd in R.
    destruct (Nat.eqb pt t && Nat.ltb pt (length (workers s))).
    + inversion R. auto.
    + eapply t_exited; eassumption.
Qed.

Lemma tinv_same s s' : TInv s -> workers s' = workers s -> joined s' = joined s -> (term s = true -> term s' = true) -> TInv s'.
Proof.
  intros HT Ew Ej Et. constructor.
  - rewrite Ej. intros J t w R. rewrite Ew in R. eapply (t_joined s HT J); eassumption.
  - intros t R. rewrite Ew in R. apply Et. eapply t_exited; eassumption.
Qed.

Lemma forallb_exited l : forallb (fun w => wstate_eqb w WExited) l = true -> forall t w, nth_error l t = Some w -> w = WExited.
Proof.
  intros H t w R. rewrite forallb_forall in H. apply nth_error_In in R. apply H in R. destruct w; try discriminate. reflexivity.
Qed.

(* case analysis on an accepted step: split every match of the step function *)
Ltac dmatch H :=
  repeat (match type of H with context [match ?x with _ => _ end] => destruct x eqn:? end; try discriminate).

Theorem tinv_step strict s e s' : TInv s -> dstep strict s e = Some s' -> TInv s'.
Proof.
  intros HT H. destruct e; unfold dstep in H; dmatch H; inversion H; subst; clear H; try assumption;
    try (apply (tinv_same s); [assumption|reflexivity|reflexivity|simpl; auto]; fail);
    try (match goal with Hw : nth_error (workers s) _ = Some _ |- _ =>
           eapply (tinv_upd_worker s _ _ _ _ HT Hw); [reflexivity|reflexivity|reflexivity|try discriminate|try discriminate; auto] end).
  - (* EWExit *) intros _. assumption.
  - (* EWDone, from WIdle *) intros _. match goal with Hg : _ && _ = true |- _ => apply andb_true_iff in Hg; destruct Hg as (Hg & _); exact Hg end.
  - (* EWDone, from WExited *) intros _. match goal with Hg : _ && _ = true |- _ => apply andb_true_iff in Hg; destruct Hg as (Hg & _); exact Hg end.
  - (* EJoined *) constructor; simpl.
    + intros _ t w R. simpl in R. eapply forallb_exited; eassumption.
    + apply t_exited. assumption.
Qed.

Theorem tinv_run strict : forall tr s s', TInv s -> drun strict s tr = Some s' -> TInv s'.
Proof.
  induction tr as [|e t IH]; intros s s' HT H; simpl in H; [inversion H; subst; assumption|].
  destruct (dstep strict s e) as [s1|] eqn:E; [|discriminate]. eapply IH; [eapply tinv_step; eassumption|eassumption].
Qed.

(* the events of the worker loop other than the return of the worker function *)
Definition worker_loop_event (e : event) : bool :=
  match e with EWTop _ | EWWaitEnter _ _ | EWWaitExit _ | EWPop _ _ | EWEnd _ _ | EWExit _ => true | _ => false end.
Definition is_hend (e : event) : bool := match e with EHEnd _ => true | _ => false end.

(* once every worker has exited: no event of a worker loop is accepted, the workers never change, and the only event
   that adds to finished is the end of a task run by the external thread inside wait() *)
Lemma exited_step strict s e s' : all_exited s -> dstep strict s e = Some s' ->
  worker_loop_event e = false /\ workers s' = workers s /\
  (finished s' = finished s /\ is_hend e = false \/
   exists q id, e = EHEnd q /\ helper s = HRunning q id /\ finished s' = (q, id) :: finished s).
Proof.
  intros Hall H. destruct e; unfold dstep in H; dmatch H; inversion H; subst; clear H;
    try (match goal with Hw : nth_error (workers _) _ = Some _ |- _ => apply Hall in Hw; discriminate end);
    (split; [reflexivity|split; [try reflexivity|try (left; split; reflexivity)]]).
  - (* EWDone from WExited *) simpl. apply upd_same. assumption.
  - (* EHEnd *) right. match goal with Hq : Nat.eqb _ _ = true |- _ => apply Nat.eqb_eq in Hq; subst end. eauto.
Qed.

Lemma exited_run strict : forall tr s s', all_exited s -> drun strict s tr = Some s' ->
  workers s' = workers s /\ (forall e, In e tr -> worker_loop_event e = false) /\
  exists l, finished s' = l ++ finished s /\ length l = length (filter is_hend tr).
Proof.
  induction tr as [|e t IH]; intros s s' Hall H; simpl in H.
  - inversion H; subst. split; [reflexivity|]. split; [intros e []|]. exists []. split; reflexivity.
  - destruct (dstep strict s e) as [s1|] eqn:E; [|discriminate].
    destruct (exited_step strict s e s1 Hall E) as (Hev & Hw & Hfin).
    assert (Hall1 : all_exited s1) by (unfold all_exited; rewrite Hw; exact Hall).
    destruct (IH s1 s' Hall1 H) as (Hw' & Hev' & l & Hl & Hlen).
    split; [congruence|]. split; [intros e' [<-|Hin]; auto|].
    destruct Hfin as [(Hf & Hh)|(q & id & -> & _ & Hf)].
    + exists l. simpl. rewrite Hh. rewrite <- Hf. auto.
    + exists (l ++ [(q, id)]). simpl. rewrite Hl, Hf, <- app_assoc. split; [reflexivity|]. rewrite app_length. simpl. lia.
Qed.

Lemma dstep_workers_length strict s e s' : dstep strict s e = Some s' -> length (workers s') = length (workers s).
Proof.
  intros H. destruct e; unfold dstep in H; dmatch H; inversion H; subst; clear H; simpl; rewrite ?upd_length; reflexivity.
Qed.

Lemma drun_workers_length strict : forall tr s s', drun strict s tr = Some s' -> length (workers s') = length (workers s).
Proof.
  induction tr as [|e t IH]; intros s s' H; simpl in H; [inversion H; reflexivity|].
  destruct (dstep strict s e) as [s1|] eqn:E; [|discriminate]. rewrite (IH _ _ H). eapply dstep_workers_length; eassumption.
Qed.

Lemma barrier_pass_fin strict s q s' : dstep strict s (EBarrierPass q) = Some s' -> finished s' = finished s.
Proof. intros H. unfold dstep in H; dmatch H; inversion H; subst; reflexivity. Qed.

(* ==== the theorems about every reachable state ==== *)
Section Reachable.
  Variables (strict : bool) (nw ns : nat) (tr : list event) (s : dst).
  Hypothesis Hreach : drun strict (d_init nw ns) tr = Some s.

  Let HI : Inv s := proj1 (reach_inv strict nw ns tr s Hreach).
  Let H2 : Inv2 s := proj2 (reach_inv strict nw ns tr s Hreach).

  (* 1. at most once *)
  Theorem once_nodup : NoDup (finished s).
  Proof. exact (i2_nodup s H2). Qed.

  Theorem once_count : forall q id, count_occ task_eq_dec (finished s) (q, id) <= 1.
  Proof. intros q id. apply (proj1 (NoDup_count_occ task_eq_dec (finished s)) (i2_nodup s H2)). Qed.

  Theorem running_not_finished : forall h q id, holds s h q id -> is_fin s q id = false.
  Proof.
    intros h q id R. destruct (is_fin s q id) eqn:E; [|reflexivity]. apply is_fin_In in E.
    exfalso. exact (i2_notfin s H2 h q id R E).
  Qed.

  Theorem one_thread_per_task : forall h1 h2 q id, holds s h1 q id -> holds s h2 q id -> h1 = h2.
  Proof. exact (i2_uniq s H2). Qed.

  (* 2. ids are FIFO positions: started = popped, and a started task is finished or running, never both *)
  Theorem started_iff_popped : forall q qu id, nth_error (queues s) q = Some qu ->
    (id < q_pop qu <-> (is_fin s q id = true \/ runner s q id)).
  Proof.
    intros q qu id Hq. split; [apply (inv_acct s HI q qu id Hq)|].
    intros [F|(h & R)].
    - apply is_fin_In in F. destruct (i2_finlt s H2 q id F) as (a & Ha & Hlt). congruence.
    - destruct (i2_runlt s H2 h q id R) as (a & Ha & Hlt). congruence.
  Qed.

  Theorem started_has_queue : forall q id, is_fin s q id = true \/ runner s q id ->
    exists qu, nth_error (queues s) q = Some qu /\ id < q_pop qu.
  Proof.
    intros q id [F|(h & R)]; [apply is_fin_In in F; exact (i2_finlt s H2 q id F)|exact (i2_runlt s H2 h q id R)].
  Qed.

  (* exactly once, once nobody is running it any more *)
  Theorem exactly_once_when_ended : forall q qu id, nth_error (queues s) q = Some qu -> id < q_pop qu -> ~ runner s q id ->
    count_occ task_eq_dec (finished s) (q, id) = 1.
  Proof.
    intros q qu id Hq Hid Hn. destruct (inv_acct s HI q qu id Hq Hid) as [F|R]; [|contradiction].
    apply is_fin_In in F. exact (proj1 (NoDup_count_occ' task_eq_dec (finished s)) (i2_nodup s H2) (q, id) F).
  Qed.

  (* 3. serial queues *)
  Theorem serial_running_is_last_popped : forall q qu h id, nth_error (queues s) q = Some qu -> q_serial qu = true ->
    holds s h q id -> S id = q_pop qu.
  Proof. exact (i2_top s H2). Qed.

  Theorem serial_one_running : forall q qu h1 h2 id1 id2, nth_error (queues s) q = Some qu -> q_serial qu = true ->
    holds s h1 q id1 -> holds s h2 q id2 -> h1 = h2 /\ id1 = id2.
  Proof.
    intros q qu h1 h2 id1 id2 Hq Hs R1 R2. pose proof (inv_single s HI q qu Hq Hs h1 h2 id1 id2 R1 R2) as E. subst h2.
    split; [reflexivity|]. exact (proj2 (holds_fun s h1 q id1 q id2 R1 R2)).
  Qed.

  (* when job id of a serial queue has finished or is running, every earlier job of the queue has finished *)
  Theorem serial_prefix_finished : forall q qu id id', nth_error (queues s) q = Some qu -> q_serial qu = true ->
    is_fin s q id = true \/ runner s q id -> id' < id -> is_fin s q id' = true.
  Proof.
    intros q qu id id' Hq Hs Hst Hlt.
    assert (Hid : id < q_pop qu).
    { destruct (started_has_queue q id Hst) as (a & Ha & Hl). congruence. }
    destruct (inv_acct s HI q qu id' Hq ltac:(lia)) as [F|(h & R)]; [assumption|].
    pose proof (i2_top s H2 q qu h id' Hq Hs R). lia.
  Qed.

  (* the jobs of a serial queue finished in submission order: the finish log of the queue, oldest first, is 0,1,..,n-1 *)
  Theorem serial_finish_order : forall q qu, nth_error (queues s) q = Some qu -> q_serial qu = true ->
    exists n, rev (fin_of s q) = seq 0 n /\ (q_pop qu = n \/ q_pop qu = S n).
  Proof.
    intros q qu Hq Hs. destruct (i2_order s H2 q qu Hq Hs) as (n & En). exists n. split.
    - rewrite En, down_rev_seq. apply rev_involutive.
    - assert (Hle : n <= q_pop qu).
      { destruct n as [|n]; [lia|]. assert (Hin : In n (fin_of s q)) by (rewrite En; simpl; auto).
        apply in_fin_of in Hin. destruct (i2_finlt s H2 q n Hin) as (a & Ha & Hl). rewrite Hq in Ha. inversion Ha; subst. lia. }
      destruct (Nat.eq_dec (q_pop qu) n) as [|Hne]; [left; assumption|right].
      destruct (inv_acct s HI q qu n Hq ltac:(lia)) as [F|(h & R)].
      + apply is_fin_In in F. apply in_fin_of in F. rewrite En in F. apply in_down in F. lia.
      + pose proof (i2_top s H2 q qu h n Hq Hs R). lia.
  Qed.

  (* 5. thread ids *)
  Theorem tid_distinct : forall h1 h2 q1 id1 q2 id2, holds s h1 q1 id1 -> holds s h2 q2 id2 ->
    (q1, id1) <> (q2, id2) -> tid h1 <> tid h2.
  Proof.
    intros h1 h2 q1 id1 q2 id2 R1 R2 Hne E. apply Hne.
    assert (h1 = h2) by (destruct h1, h2; simpl in E; congruence). subst h2.
    destruct (holds_fun s h1 q1 id1 q2 id2 R1 R2). congruence.
  Qed.

  Theorem tid_range : forall h q id, holds s h q id -> tid h <= nw.
  Proof.
    intros h q id R. rewrite <- (repeat_length WIdle nw). change (repeat WIdle nw) with (workers (d_init nw ns)).
    rewrite <- (drun_workers_length strict tr _ _ Hreach). destruct h as [t|]; simpl in *; [|lia].
    assert (Hlt : t < length (workers s)) by (apply nth_error_Some; congruence). lia.
  Qed.

  (* 4. teardown *)
  Theorem joined_all_exited : joined s = true -> all_exited s.
  Proof. exact (t_joined s (tinv_run strict tr _ _ (tinv_init nw ns) Hreach)). Qed.

  Theorem joined_no_worker_runs : joined s = true -> forall t q id, ~ holds s (Some t) q id.
  Proof. intros J t q id R. simpl in R. apply (joined_all_exited J) in R. discriminate. Qed.

  Theorem joined_terminated : joined s = true -> 0 < nw -> term s = true.
  Proof.
    intros J Hnw. pose proof (tinv_run strict tr _ _ (tinv_init nw ns) Hreach) as HT.
    assert (Hlen : length (workers s) = nw).
    { rewrite (drun_workers_length strict tr _ _ Hreach). simpl. apply repeat_length. }
    destruct (nth_error (workers s) 0) as [w|] eqn:E.
    - pose proof (joined_all_exited J 0 w E). subst w. exact (t_exited s HT 0 E).
    - apply nth_error_None in E. lia.
  Qed.

  (* after the join: whatever happens next, no worker-loop event is accepted, the workers stay exited, and finished grows
     by exactly one entry per EHEnd event (a task the external thread itself ran inside a later wait()) *)
  Theorem after_join : joined s = true -> forall tr2 s2, drun strict s tr2 = Some s2 ->
    workers s2 = workers s /\ (forall e, In e tr2 -> worker_loop_event e = false) /\
    exists l, finished s2 = l ++ finished s /\ length l = length (filter is_hend tr2).
  Proof. intros J tr2 s2 Hr. exact (exited_run strict tr2 s s2 (joined_all_exited J) Hr). Qed.

  Theorem after_join_nothing_runs : joined s = true -> forall tr2 s2, drun strict s tr2 = Some s2 ->
    (forall q, ~ In (EHEnd q) tr2) -> finished s2 = finished s.
  Proof.
    intros J tr2 s2 Hr Hno. destruct (after_join J tr2 s2 Hr) as (_ & _ & l & Hl & Hlen).
    assert (E : filter is_hend tr2 = []).
    { destruct (filter is_hend tr2) as [|e r] eqn:Ef; [reflexivity|exfalso].
      assert (Hin : In e (filter is_hend tr2)) by (rewrite Ef; simpl; auto).
      apply filter_In in Hin. destruct Hin as (Hin & He). destruct e; try discriminate. exact (Hno q Hin). }
    rewrite E in Hlen. destruct l; [assumption|discriminate].
  Qed.
End Reachable.

(* exactly once by the time wait() returns: when the barrier passes in the model of the code, every task of the queue
   submitted before the waiter observed it empty occurs exactly once in finished (before and after the pass) *)
Theorem exactly_once_at_wait_return nw ns tr s q s' :
  drun true (d_init nw ns) tr = Some s -> dstep true s (EBarrierPass q) = Some s' ->
  exists obs, helper s = HBarrier q obs /\ finished s' = finished s /\
              forall id, id < obs -> count_occ task_eq_dec (finished s') (q, id) = 1.
Proof.
  intros Hr Hs. destruct (reach_inv true nw ns tr s Hr) as (HI & H2).
  destruct (barrier_pass_complete s q s' HI Hs) as (obs & Eh & Hall). exists obs. split; [assumption|].
  pose proof (barrier_pass_fin true s q s' Hs) as Ef. split; [assumption|]. intros id Hid. rewrite Ef.
  pose proof (proj1 (all_fin_below_spec s q obs) Hall id Hid) as F. apply is_fin_In in F.
  exact (proj1 (NoDup_count_occ' task_eq_dec (finished s)) (i2_nodup s H2) (q, id) F).
Qed.
