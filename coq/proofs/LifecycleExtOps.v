(* C03, history level, extended unlocked alphabet: one operation at a time.
   For every operation that ManagerExtMain.alpha_e adds to ManagerMain.alpha_b -- destroy (deferred), update,
   clearArchetype, clear, clone, builder edits -- the events it logs are accepted by the bracket checker from the set
   of occupied tracked cells and lead to the set of occupied tracked cells of the new state
   (LifecycleHist.lstep_post, the statement LifecycleHist.LStep proves for alpha_b). *)
Require Import Coq.Lists.List Coq.NArith.NArith Coq.ZArith.ZArith Coq.Arith.Arith Coq.Bool.Bool Coq.micromega.Lia.
From Mustache Require Import Res Manager MgrSpec Refine.
From Mustache Require Skeleton.
From Mustache Require Import SkelSpec.
From Mustache.proofs Require Import ListLemmas SkelBasics SkelInv SkelSteps SkelMove SkelRefine SkelMain ClosureProofs
  ManagerBasics ManagerMoves ManagerProj ManagerInv ManagerMain ManagerWorlds
  ManagerExtFrames ManagerExtInv ManagerExtClear ManagerExtClone ManagerExtBuild ManagerExtMain
  LifecycleProofs LifecycleLang LifecycleHist LifecycleExtLang.
Import ListNotations.

(* ------------------------------------------------------------------------------------------ *)
(* A. composing lstep_post                                                                     *)
Lemma lstep_post_tr cis t evs s s' L L' : tr t evs s s' -> lc_run (destroy_pals cis) L evs = Some L' ->
  (forall p, In p L' <-> aplace cis (archs s') p) -> lstep_post cis s s' L.
Proof.
  intros T Hr HL'. exists evs, L'. split; [exact (tr_log _ _ _ _ T)|]. destruct T as (_ & _ & _ & _ & _ & B & T').
  split; [exact B|]. split; [exact T'|]. split; [exact Hr|exact HL'].
Qed.

(* a prefix that logs nothing *)
Lemma lstep_post_pre cis s0 s s' L : log s = log s0 -> bufs s = bufs s0 -> tmps s = tmps s0 ->
  lstep_post cis s s' L -> lstep_post cis s0 s' L.
Proof.
  intros E1 E2 E3 (evs & L' & Hlg & Hb & Ht & Hr & HL'). exists evs, L'. rewrite <- E1, <- E2, <- E3. auto.
Qed.

(* a suffix that logs nothing and keeps the cells *)
Lemma lstep_post_post cis s s1 s2 L : lstep_post cis s s1 L -> log s2 = log s1 -> bufs s2 = bufs s1 -> tmps s2 = tmps s1 ->
  (forall p, aplace cis (archs s2) p <-> aplace cis (archs s1) p) -> lstep_post cis s s2 L.
Proof.
  intros (evs & L' & Hlg & Hb & Ht & Hr & HL') E1 E2 E3 P. exists evs, L'. rewrite E1, E2, E3.
  split; [exact Hlg|]. split; [exact Hb|]. split; [exact Ht|]. split; [exact Hr|]. intros p. rewrite P. apply HL'.
Qed.

(* a logging transition first *)
Lemma lstep_post_step cis t evs s s1 s' L L1 : tr t evs s s1 -> lc_run (destroy_pals cis) L evs = Some L1 ->
  lstep_post cis s1 s' L1 -> lstep_post cis s s' L.
Proof.
  intros T Hr (evs2 & L' & Hlg & Hb & Ht & Hr2 & HL'). exists (evs ++ evs2), L'.
  split; [rewrite Hlg, (tr_log _ _ _ _ T), rev_app_distr, app_assoc; reflexivity|].
  destruct T as (_ & _ & _ & _ & _ & B & T'). split; [congruence|]. split; [congruence|].
  split; [rewrite lc_run_app, Hr; exact Hr2|exact HL'].
Qed.

Lemma lstep_post_trans cis s s1 s2 L : lstep_post cis s s1 L ->
  (forall L1, (forall p, In p L1 <-> aplace cis (archs s1) p) -> lstep_post cis s1 s2 L1) -> lstep_post cis s s2 L.
Proof.
  intros (evs & L1 & Hlg & Hb & Ht & Hr & HL1) H2. destruct (H2 L1 HL1) as (evs2 & L' & Hlg2 & Hb2 & Ht2 & Hr2 & HL').
  exists (evs ++ evs2), L'. split; [rewrite Hlg2, Hlg, rev_app_distr, app_assoc; reflexivity|].
  split; [congruence|]. split; [congruence|]. split; [rewrite lc_run_app, Hr; exact Hr2|exact HL'].
Qed.

(* ------------------------------------------------------------------------------------------ *)
(* B. destroy (deferred) and update                                                            *)
Lemma L_destroy cis s hs al x tid h s' out L : MInv cis s hs al x -> step s (ODestroy tid h) = Ok (s', out) ->
  (forall p, In p L <-> aplace cis (archs s) p) -> lstep_post cis s s' L.
Proof.
  intros HI H HL. rewrite (step_destroy_unlocked _ _ _ (mi_lock _ _ _ _ _ HI)) in H. inversion H; subst s' out.
  apply lstep_post_same; [reflexivity|reflexivity|reflexivity| |exact HL]. intros p. split; intros Hp; exact Hp.
Qed.

(* update applies the deferred destroys: each is a destroyNow *)
Lemma L_destroy_list cis hs : lc_cis_ok cis -> within (length hs) -> forall m s al x s' L,
  MInv cis s hs al x -> (forall h, In h m -> exists k, hnd hs k = h) ->
  fold_res destroy_now_unlocked m s = Ok s' -> (forall p, In p L <-> aplace cis (archs s) p) -> lstep_post cis s s' L.
Proof.
  intros Hok Hb. induction m as [|h t IH]; intros s al x s' L HI Hm H HL; cbn [fold_res] in H.
  - inversion H; subst s'. apply lstep_post_same; [reflexivity|reflexivity|reflexivity|tauto|exact HL].
  - bd H s1 H1. destruct (Hm h (or_introl eq_refl)) as (k & <-).
    assert (Hst : step s (ODestroyNow 0 (hnd hs k)) = Ok (s1, RNone)).
    { rewrite (step_destroy_now_unlocked _ _ _ (mi_lock _ _ _ _ _ HI)), H1. reflexivity. }
    destruct (MInv_destroy_now cis s hs al x 0 k s1 RNone HI Hb Hst) as (_ & HI1).
    eapply lstep_post_trans; [exact (LStep_destroy_now cis s hs al x 0 k s1 RNone L Hok HI Hst HL)|].
    intros L1 HL1. eapply IH; [exact HI1| |exact H|exact HL1]. intros h' Hh'. apply Hm. right. exact Hh'.
Qed.

Lemma L_update cis s hs al x s' out L : lc_cis_ok cis -> MInvE cis s hs al x -> within (length hs) ->
  step s (OUpdate true) = Ok (s', out) -> (forall p, In p L <-> aplace cis (archs s) p) -> lstep_post cis s s' L.
Proof.
  intros Hok [HI HM Hw Hmi Hml Hmk] Hb H HL. rewrite (step_update _ (mi_lock _ _ _ _ _ HI)) in H.
  bd H s2 Hf. inversion H; subst s' out; clear H.
  match type of Hf with fold_res _ _ ?S = _ => set (sw := S) in * end.
  assert (HIw : MInv cis sw hs al x) by (eapply MInv_core; [exact HI|reflexivity..]).
  assert (Hm' : forall h, In h (marked s) -> exists k, hnd hs k = h).
  { intros h Hin. destruct (Hmi h Hin) as [->|Hin']; [exists (length hs); apply hnd_beyond; apply Nat.le_refl|].
    destruct (In_hnd _ _ Hin') as (k & _ & E). eauto. }
  assert (HLw : forall p, In p L <-> aplace cis (archs sw) p) by exact HL.
  pose proof (L_destroy_list cis hs Hok Hb (marked s) sw al x s2 L HIw Hm' Hf HLw) as P.
  apply (lstep_post_pre cis s sw); [reflexivity|reflexivity|reflexivity|].
  apply (lstep_post_post cis sw s2); [exact P|reflexivity|reflexivity|reflexivity|]. intros p. split; intros Hp; exact Hp.
Qed.

(* ------------------------------------------------------------------------------------------ *)
(* C. clearArchetype and clear                                                                 *)
Lemma L_clear_idx cis s hs al x ai a s' L : lc_cis_ok cis -> MInv cis s hs al x -> nth_error (archs s) ai = Some a ->
  clear_archetype s ai = Ok s' -> (forall p, In p L <-> aplace cis (archs s) p) -> lstep_post cis s s' L.
Proof.
  intros Hok HI Ha H HL. destruct (awf_nth _ _ _ (mi_awf _ _ _ _ _ HI) Ha) as (_ & W2 & _).
  destruct (clear_archetype_ok _ _ _ _ Ha W2 H) as (_ & A & _ & _).
  destruct (clear_archetype_tr _ _ _ H) as (a' & Ha' & T). rewrite Ha in Ha'. inversion Ha'; subst a'.
  rewrite (mi_cis _ _ _ _ _ HI) in T.
  destruct (lc_clear_sound cis Hok (archs s) ai a L Ha W2 HL) as (L' & Hr & HL').
  eapply lstep_post_tr; [exact T|exact Hr|]. rewrite A. exact HL'.
Qed.

Lemma L_clear_arch cis s hs al x m s' out L : lc_cis_ok cis -> MInv cis s hs al x ->
  step s (OClearArch m []) = Ok (s', out) -> (forall p, In p L <-> aplace cis (archs s) p) -> lstep_post cis s s' L.
Proof.
  intros Hok HI H HL. rewrite step_clear_arch in H. bd H r Hga. destruct r as (s1, ai). cbv beta iota in H.
  bd H s2 Hc. inversion H; subst s' out; clear H.
  destruct (MInv_get_arch _ _ _ _ _ _ _ _ HI Hga) as (HI1 & _ & _ & a & Ha & _).
  destruct (get_arch_aplace _ _ _ _ _ _ _ _ HI Hga) as (G1 & B1 & T1 & P1).
  apply (lstep_post_pre cis s s1); [exact G1|exact B1|exact T1|].
  eapply L_clear_idx; [exact Hok|exact HI1|exact Ha|exact Hc|]. intros p. rewrite HL. symmetry. apply P1.
Qed.

Lemma L_clear cis s hs al x s' out L : lc_cis_ok cis -> MInvE cis s hs al x -> within (length hs) ->
  step s OClear = Ok (s', out) -> (forall p, In p L <-> aplace cis (archs s) p) -> lstep_post cis s s' L.
Proof.
  intros Hok HE Hb H HL. pose proof (me_inv _ _ _ _ _ HE) as HI. rewrite step_clear in H. bd H s1 Hc.
  inversion H; subst s' out; clear H.
  pose proof (clear_all_tr _ _ Hc) as T. rewrite (mi_cis _ _ _ _ _ HI) in T.
  unfold clear_all in Hc.
  destruct (clear_fold cis hs (seq 0 (length (archs s))) s al x s1 HE Hb) as (al' & x' & _ & _ & Hlen & Hemp); [|exact Hc|].
  { intros j Hj. apply in_seq in Hj. lia. }
  destruct (run_clear_all cis (archs s) Hok (mi_awf _ _ _ _ _ HI) (seq 0 (length (archs s))) L (seq_NoDup _ _)) as (L' & Hr & HL').
  { intros ai c i _ Hp. apply HL. exact Hp. }
  eapply lstep_post_tr; [exact T|exact Hr|]. intros p. rewrite HL'. split.
  - intros (Hp & Hno). exfalso. apply HL in Hp. apply Hno. destruct p as [ai c i|]; [|contradiction].
    exists ai, c, i. split; [|split; [reflexivity|exact Hp]].
    destruct Hp as (a & Ha & _). apply in_seq. split; [lia|]. simpl. apply nth_error_Some. congruence.
  - intros Hp. exfalso. destruct p as [ai c i|]; [|contradiction]. destruct Hp as (a & Ha & _ & Hi & _).
    destruct (Hemp ai) as (a0 & Ha0 & He0).
    { left. apply in_seq. split; [lia|]. simpl. rewrite <- Hlen. apply nth_error_Some. congruence. }
    rewrite Ha in Ha0. inversion Ha0; subst a0. rewrite He0 in Hi. simpl in Hi. lia.
Qed.

(* ------------------------------------------------------------------------------------------ *)
(* D. clone                                                                                    *)
Lemma clone_entity_tr s ai src dst sidx s' : clone_entity s ai src dst sidx = Ok s' ->
  exists a, nth_error (archs s) ai = Some a /\
    tr [ai] (clone_events (cinfos s) ai (length (am_ents a)) sidx (mitems (am_mask a))) s s'.
Proof.
  unfold clone_entity. intros H. bind_inv H r Hpb. destruct r as (s1, didx). apply push_back_tr in Hpb.
  destruct Hpb as (a & Ha & -> & T0). bind_inv H s2 Hul. apply (update_location_tr [ai]) in Hul.
  bind_inv H a1 Ha1. apply nth_res_ok in Ha1.
  pose proof (tr_trans_nil_r _ _ _ _ _ T0 Hul) as T02.
  assert (Em : am_mask a1 = am_mask a) by (exact (tr_mask_at _ _ _ _ _ _ _ T02 Ha Ha1)).
  exists a. split; [exact Ha|]. rewrite Em in H.
  apply (fold_tr [ai] _ (fun st x => clone_one (cinfos st) ai (length (am_ents a)) sidx (snd x))) in H.
  - eapply tr_trans_nil_l; [exact T02|]. unfold clone_events. rewrite <- (flat_map_combine_seq _ (mitems (am_mask a)) 0).
    rewrite (tr_cis _ _ _ _ T02) in H. exact H.
  - intros st [ci c] st' Hb. cbn [snd]. bind_inv Hb inf Hi. apply info_of_ok in Hi.
    unfold clone_one, on_info. rewrite Hi. destruct (negb (ci_clone inf)); [discriminate|].
    bind_inv Hb a' Ha'. bind_inv Hb st1 Hw. apply write_cell_tr in Hw. inversion Hb; subst st'.
    eapply tr_trans_nil_l; [exact Hw|apply tr_if_emit].
  - intros st st' e x (E & _). rewrite E. reflexivity.
Qed.

Lemma L_clone cis s hs al x k s' out L : lc_cis_ok cis -> MInv cis s hs al x ->
  step s (OClone (hnd hs k)) = Ok (s', out) -> (forall p, In p L <-> aplace cis (archs s) p) -> lstep_post cis s s' L.
Proof.
  intros Hok HI H HL. rewrite (step_clone_unlocked _ _ (mi_lock _ _ _ _ _ HI)) in H.
  destruct (is_valid s (hnd hs k)) eqn:Ev; simpl negb in H; cbv iota in H.
  - destruct (valid_find _ _ _ _ _ _ HI Ev) as (Hk & Hal & e & Hfe). destruct (alive_in _ _ Hal) as (key & Hin).
    destruct (live_vmatch _ _ _ _ _ _ _ _ HI Hin Hfe) as (_ & ai & idx & a & Hloc & Harch & Hkey & Hent & Hvm).
    assert (Ela : loc_arch s (hnd hs k) = Ok (ai, idx)) by (unfold loc_arch; rewrite (nth_res_some _ _ _ Hloc); reflexivity).
    rewrite Ela in H. bok H. bd H r Hcid. destruct r as (s1, d). cbv beta iota in H. bd H s2 Hcl. inversion H; subst s' out; clear H.
    destruct (create_id_frame _ _ _ Hcid) as (A2 & F2). destruct (create_id_log _ _ _ Hcid) as (G2 & B2 & T2).
    assert (Ha1 : nth_error (archs s1) ai = Some a) by (rewrite A2; exact Harch).
    destruct (awf_nth _ _ _ (mi_awf _ _ _ _ _ HI) Harch) as (W1 & W2 & W3).
    assert (Hidx : idx < length (am_ents a)) by (apply nth_error_Some; congruence).
    destruct (clone_entity_ok _ _ _ _ _ _ _ Ha1 W3 Hidx Hcl) as (a3 & _ & A3 & _ & _ & Hab & He & _).
    destruct (ab3_fields _ _ Hab) as (Em & _).
    destruct (clone_entity_tr _ _ _ _ _ _ Hcl) as (a' & Ha' & T). rewrite Ha1 in Ha'. inversion Ha'; subst a'.
    assert (Ec : cinfos s1 = cis).
    { destruct (fr3_ctl _ _ F2) as (_ & _ & E & _). rewrite E. exact (mi_cis _ _ _ _ _ HI). }
    rewrite Ec in T.
    assert (Hai : ai < length (archs s1)) by (apply nth_error_Some; congruence).
    destruct (lc_clone_sound cis Hok (archs s1) (archs s2) ai a a3 idx L Ha1) as (L' & Hr & HL').
    + rewrite A3. apply nth_error_upd_same. exact Hai.
    + intros j Hj. rewrite A3. apply nth_error_upd_other. congruence.
    + exact Em.
    + rewrite He, app_length. simpl. lia.
    + exact Hidx.
    + intros p. rewrite HL, A2. tauto.
    + apply (lstep_post_pre cis s s1); [exact G2|exact B2|exact T2|]. eapply lstep_post_tr; [exact T|exact Hr|exact HL'].
  - inversion H; subst s' out. apply lstep_post_same; [reflexivity|reflexivity|reflexivity|tauto|exact HL].
Qed.

(* ------------------------------------------------------------------------------------------ *)
(* E. builder edits                                                                            *)
(* initComponent with one constructor argument: a value construction and the afterAssign callback on the entity's cell *)
Lemma init_component_tr cis s h c z s' : init_component_arch s h c z = Ok s' ->
  exists inf l ai, nth_error (cinfos s) c = Some inf /\ nth_error (locs s) (N.to_nat (fst h)) = Some l /\ l_arch l = Some ai /\
    tr [ai] ((if ci_ev inf then [EvV (ci_pal inf) (PArch ai c (l_idx l))] else []) ++
             (if ci_aa inf then [EvAA (ci_pal inf) (PArch ai c (l_idx l)) h] else [])) s s' /\
    locs s' = locs s /\ (forall p, aplace cis (archs s') p <-> aplace cis (archs s) p).
Proof.
  unfold init_component_arch. intros H. bd H inf Hinf. apply info_of_ok in Hinf. bd H la Hla. destruct la as (ai, slot).
  unfold loc_arch in Hla. bd Hla l Hl. apply nth_res_ok in Hl. destruct (l_arch l) as [ai'|] eqn:El; [|discriminate].
  inversion Hla; subst ai' slot. cbv beta iota in H. bd H a Ha.
  destruct (cindex (am_mask a) c) as [ci|]; [|discriminate]. bd H s1 Hw. cbv zeta in H. inversion H; subst s'; clear H.
  exists inf, l, ai. split; [exact Hinf|]. split; [exact Hl|]. split; [exact El|].
  assert (T1 : tr [ai] [] s s1) by (destruct (ci_hasval inf); [eapply write_cell_tr; exact Hw|inversion Hw; apply tr_refl]).
  assert (L1 : locs s1 = locs s).
  { destruct (ci_hasval inf); [|inversion Hw; reflexivity]. apply write_cell_ok in Hw. destruct Hw as (a0 & _ & ->). reflexivity. }
  assert (P1 : forall p, aplace cis (archs s1) p <-> aplace cis (archs s) p).
  { destruct (ci_hasval inf); [eapply write_cell_aplace; exact Hw|inversion Hw; tauto]. }
  split; [|split].
  - eapply tr_trans_nil_l; [exact T1|]. eapply tr_trans; apply tr_if_emit.
  - destruct (ci_aa inf), (ci_ev inf); exact L1.
  - intros p. rewrite <- P1. destruct (ci_aa inf), (ci_ev inf); tauto.
Qed.

(* initComponents: the cells (ai, c, n) of the assigned components c are the ones still unconstructed *)
Lemma L_init_fold cis h ai n : lc_cis_ok cis -> forall assigns s s' L,
  cinfos s = cis ->
  nth_error (locs s) (N.to_nat (fst h)) = Some {| l_arch := Some ai; l_idx := n |} ->
  NoDup (map fst assigns) ->
  (forall c, In c (map fst assigns) -> tcomp cis c = true -> aplace cis (archs s) (PArch ai c n)) ->
  fold_res (fun st (a0 : nat * Z) => init_component_arch st h (fst a0) (snd a0)) assigns s = Ok s' ->
  (forall p, In p L <-> (aplace cis (archs s) p /\ ~ exists c, p = PArch ai c n /\ In c (map fst assigns))) ->
  lstep_post cis s s' L.
Proof.
  intros Hok. induction assigns as [|(c, z) t IH]; intros s s' L Hc Hloc Hnd Hpl H HL; cbn [fold_res] in H.
  - inversion H; subst s'. apply lstep_post_same; [reflexivity|reflexivity|reflexivity|tauto|].
    intros p. rewrite HL. split; [tauto|]. intros Hp. split; [exact Hp|]. intros (c & _ & []).
  - bd H s1 H1. cbn [fst snd] in H1. cbn [map fst] in Hnd, Hpl, HL. apply NoDup_cons_iff in Hnd. destruct Hnd as (Hni & Hnd').
    destruct (init_component_tr cis _ _ _ _ _ H1) as (inf & l & ai0 & Hinf & Hl & El & T & L1 & P1).
    rewrite Hloc in Hl. inversion Hl; subst l. simpl in El. inversion El; subst ai0. cbn [l_idx] in T. rewrite Hc in Hinf.
    destruct (lc_value_pending cis Hok (archs s) ai c n (map fst t) inf h L Hinf Hni) as (L2 & Hr2 & HL2).
    + intros Ht. apply Hpl; [left; reflexivity|exact Ht].
    + exact HL.
    + eapply lstep_post_step; [exact T|exact Hr2|]. apply (IH s1 s' L2).
      * rewrite (tr_cis _ _ _ _ T). exact Hc.
      * rewrite L1. exact Hloc.
      * exact Hnd'.
      * intros c' Hc' Ht'. apply P1. apply Hpl; [right; exact Hc'|exact Ht'].
      * exact H.
      * intros p. rewrite HL2, P1. reflexivity.
Qed.

Lemma in_mask_of_list l c : mhas (mask_of_list l) c = true <-> In c l.
Proof.
  rewrite mhas_mask_of_list, existsb_exists. split.
  - intros (x & Hx & E). apply Nat.eqb_eq in E. subst x. exact Hx.
  - intros H. exists c. split; [exact H|apply Nat.eqb_refl].
Qed.

Lemma in_assigns_fst (assigns : list (nat * Z)) c : In c (map fst assigns) <-> exists z, In (c, z) assigns.
Proof.
  rewrite in_map_iff. split.
  - intros ((c0, z0) & E & Hin). simpl in E. subst c0. eauto.
  - intros (z & Hin). exists (c, z). auto.
Qed.

(* the builder on an existing entity: external move with the assigned components skipped, then initComponents *)
Lemma L_build_some cis s hs al x tid k assigns removes s' out L :
  lc_cis_ok cis -> MInvE cis s hs al x -> assigns_ok cis assigns -> NoDup (map fst assigns) ->
  alive_x x k = true -> out_of_contract x (XoBuild tid (Some k) assigns removes) = false ->
  x_viol (x_step_in x (XoBuild tid (Some k) assigns removes)) = x_viol x ->
  step s (OBuild tid (Some (hnd hs k)) assigns removes) = Ok (s', out) ->
  (forall p, In p L <-> aplace cis (archs s) p) -> lstep_post cis s s' L.
Proof.
  intros Hlok HE Hok Hnd Hax Hooc Hviol H HL. pose proof HE as [HI HM Hw Hmi Hml Hmk].
  pose proof HI as [HG Hawf Hl Hdp Hc Hxl Hxd Hxc Hcnt Hsl Hal Hv].
  destruct (alive_in _ _ (proj2 (Hal k) Hax)) as (key & Hin).
  destruct (find_ent x k) as [e|] eqn:Hfe; [|apply alive_x_find in Hax; congruence].
  simpl in Hooc. rewrite Hxl, Hfe in Hooc. apply orb_false_iff in Hooc. destruct Hooc as (Hooc & Hchg).
  apply orb_false_iff in Hooc. destruct Hooc as (Hdisj & _).
  destruct (live_vmatch _ _ _ _ _ _ _ _ HI Hin Hfe) as (Hk & pai & pidx & pa & Hloc & Hpa & Hkey & Hent & Hvm).
  rewrite (x_build_some _ _ _ _ _ Hxl) in Hviol. rewrite xrmv_viol in Hviol.
  destruct (xasg_spec k assigns x e Hw Hfe Hviol) as (_ & _ & _ & Habs).
  rewrite (step_build_some _ _ _ _ _ Hl) in H. bd H s3 Hb. inversion H; subst s' out; clear H.
  unfold build_update_unlocked in Hb. cbv zeta in Hb. bd Hb la Hla.
  assert (Ela : la = (pai, pidx)).
  { unfold loc_arch in Hla. rewrite (nth_res_some _ _ _ Hloc) in Hla. bok Hla. simpl in Hla. inversion Hla. reflexivity. }
  subst la. cbv beta iota in Hb. rewrite (nth_res_some _ _ _ Hpa) in Hb. bok Hb.
  destruct (awf_nth _ _ _ Hawf Hpa) as (Wp1 & Wp2 & Wp3). rewrite Wp1 in Hb. change (si_merge si_null si_null) with si_null in Hb.
  bd Hb rg Hga. destruct rg as (s_g, ai). cbv beta iota in Hb.
  remember (mask_of_list (map fst assigns)) as skip eqn:Eskip.
  remember (minter (munion skip (am_mask pa)) (minverse (mask_of_list removes))) as m eqn:Em.
  destruct (MInv_get_arch _ _ _ _ _ _ _ _ HI Hga) as (HIg & Fg & Hkeep & a_t & Hat & Hmt).
  destruct (get_arch_aplace _ _ _ _ _ _ _ _ HI Hga) as (G1 & B1 & T1 & P1).
  bd Hb s2 Hmv.
  assert (Hpa_g : nth_error (archs s_g) pai = Some pa) by (apply Hkeep; exact Hpa).
  destruct (Nat.eqb_spec ai pai) as [Esame|_].
  { exfalso. subst ai. assert (Eat : a_t = pa) by congruence. subst a_t.
    refine (build_mask_changes (e_comps e) (am_mask pa) assigns removes (proj1 Hvm) _ Habs Hdisj Hchg _).
    - intros c z Hcz. apply (Hok c z Hcz).
    - rewrite <- Eskip, <- Em. symmetry. exact Hmt. }
  (* the assigned components: below 128, absent from the source archetype, not removed *)
  assert (Hasg : forall c, In c (map fst assigns) ->
            c < MASK_BITS /\ mhas (am_mask pa) c = false /\ mhas skip c = true /\ mhas m c = true).
  { intros c Hcin. pose proof Hcin as Hcin'. apply in_assigns_fst in Hcin. destruct Hcin as (z & Hz).
    destruct (Hok c z Hz) as (Hc128 & _).
    assert (Hpm : mhas (am_mask pa) c = false).
    { destruct (mhas (am_mask pa) c) eqn:E; [|reflexivity]. exfalso.
      assert (Hh : has_comp (e_comps e) c = true) by (apply has_comp_in; rewrite (proj1 Hvm); apply mitems_in; auto).
      rewrite (Habs c z Hz) in Hh. discriminate. }
    assert (Hsk : mhas skip c = true) by (rewrite Eskip; apply in_mask_of_list; exact Hcin').
    assert (Hnr : existsb (Nat.eqb c) removes = false).
    { destruct (existsb (Nat.eqb c) removes) eqn:E; [|reflexivity]. exfalso.
      assert (X : existsb (fun a : nat * Z => existsb (Nat.eqb (fst a)) removes) assigns = true)
        by (apply existsb_exists; exists (c, z); split; [exact Hz|exact E]).
      rewrite X in Hdisj. discriminate. }
    split; [exact Hc128|]. split; [exact Hpm|]. split; [exact Hsk|].
    rewrite Em, mhas_minter, mhas_minverse, mhas_union, Hsk, mhas_mask_of_list, Hnr.
    apply Nat.ltb_lt in Hc128. rewrite Hc128. reflexivity. }
  assert (HLg : forall p, In p L <-> aplace cis (archs s_g) p) by (intros p; rewrite HL; symmetry; apply P1).
  destruct (LStep_move cis s_g hs al x pai pidx pa ai a_t (hnd hs k) skip s2 L Hlok HIg Hpa_g Hat Hmv HLg)
    as (evs & L2 & T & Hr2 & HL2 & (a2 & Ha2 & Em2 & Ee2) & Hloc2).
  apply (lstep_post_pre cis s s_g); [exact G1|exact B1|exact T1|]. eapply lstep_post_step; [exact T|exact Hr2|].
  apply (L_init_fold cis (hnd hs k) ai (length (am_ents a_t)) Hlok assigns s2 s3 L2).
  - rewrite (tr_cis _ _ _ _ T). exact (mi_cis _ _ _ _ _ HIg).
  - exact Hloc2.
  - exact Hnd.
  - intros c Hcin Ht. destruct (Hasg c Hcin) as (Hc128 & _ & _ & Hmc).
    exists a2. split; [exact Ha2|]. split; [|split; [lia|exact Ht]]. rewrite Em2, Hmt. apply mitems_in. auto.
  - exact Hb.
  - intros p. rewrite HL2. split; intros (Hp & Hno); (split; [exact Hp|]).
    + intros (c & E & Hcin). apply Hno. exists c. destruct (Hasg c Hcin) as (_ & A & B & _). auto.
    + intros (c & E & _ & Hs0). apply Hno. exists c. split; [exact E|]. apply in_mask_of_list. rewrite <- Eskip. exact Hs0.
Qed.

(* the builder on a new entity: createWithOutInit inserts without constructing anything, then initComponents *)
Lemma L_build_new cis s hs al x tid a0 assigns0 removes s' out L :
  lc_cis_ok cis -> MInvE cis s hs al x -> assigns_ok cis (a0 :: assigns0) -> NoDup (map fst (a0 :: assigns0)) ->
  step s (OBuild tid None (a0 :: assigns0) removes) = Ok (s', out) ->
  (forall p, In p L <-> aplace cis (archs s) p) -> lstep_post cis s s' L.
Proof.
  intros Hlok HE Hok Hnd H HL. pose proof HE as [HI HM Hw Hmi Hml Hmk].
  pose proof HI as [HG Hawf Hl Hdp Hc Hxl Hxd Hxc Hcnt Hsl Hal Hv].
  remember (a0 :: assigns0) as assigns eqn:Eas.
  rewrite Eas in H. rewrite (step_build_none_cons _ _ _ _ _ Hl) in H. rewrite <- Eas in H.
  bd H r Hcid1. destruct r as (s1, d). cbv beta iota in H.
  remember (mask_of_list (map fst assigns)) as m eqn:Em.
  bd H r2 Hga1. destruct r2 as (s2, ai). cbv beta iota in H. bd H s3 Hins. bd H s4 Hinit. inversion H; subst s' out; clear H.
  destruct (get_arch_create_comm _ _ _ _ _ _ _ Hdp Hcid1 Hga1) as (sg & Hga & Hcid).
  destruct (MInv_get_arch _ _ _ _ _ _ _ _ HI Hga) as (HIg & Fg & Hkeep & a_t & Hat & Hmt).
  destruct (get_arch_aplace _ _ _ _ _ _ _ _ HI Hga) as (G1 & B1 & T1 & P1).
  destruct (create_id_frame _ _ _ Hcid) as (A2 & F2). destruct (create_id_log _ _ _ Hcid) as (G2 & B2 & T2).
  assert (Hat2 : nth_error (archs s2) ai = Some a_t) by (rewrite A2; exact Hat).
  destruct (awf_nth _ _ _ (mi_awf _ _ _ _ _ HIg) Hat) as (Wt1 & Wt2 & Wt3).
  destruct (arch_insert_ok _ _ _ _ _ _ Hat2 Wt3 Hins) as (a3 & F3 & A3 & Hlt & L3 & Hab & He & _).
  destruct (ab3_fields _ _ Hab) as (Em3 & _).
  destruct (arch_insert_tr _ _ _ _ _ Hins) as (a' & Ha' & T). rewrite Hat2 in Ha'. inversion Ha'; subst a'. clear Ha'.
  rewrite Hmt, N.eqb_refl in T.
  assert (Ec2 : cinfos s2 = cis).
  { destruct (fr3_ctl _ _ F2) as (_ & _ & E & _). rewrite E. exact (mi_cis _ _ _ _ _ HIg). }
  assert (Hai : ai < length (archs s2)) by (apply nth_error_Some; congruence).
  assert (Ha3 : nth_error (archs s3) ai = Some a3) by (rewrite A3; apply nth_error_upd_same; exact Hai).
  assert (Hoth : forall j, j <> ai -> nth_error (archs s3) j = nth_error (archs s2) j).
  { intros j Hj. rewrite A3. apply nth_error_upd_other. congruence. }
  assert (Ee3 : length (am_ents a3) = S (length (am_ents a_t))) by (rewrite He, app_length; simpl; lia).
  pose proof (aplace_grow cis (archs s2) (archs s3) ai a_t a3 Hat2 Ha3 Hoth Em3 Ee3) as Hgrow.
  assert (HL2 : forall p, In p L <-> aplace cis (archs s2) p) by (intros p; rewrite HL, A2; symmetry; apply P1).
  assert (Hasg : forall c, In c (map fst assigns) <-> In c (mitems (am_mask a_t))).
  { intros c. rewrite Hmt, mitems_in, Em, in_mask_of_list. split; [|tauto]. intros Hcin. split; [|exact Hcin].
    apply in_assigns_fst in Hcin. destruct Hcin as (z & Hz). apply (Hok c z Hz). }
  apply (lstep_post_pre cis s s2); [congruence|congruence|congruence|].
  eapply lstep_post_step; [exact T|reflexivity|].
  apply (L_init_fold cis d ai (length (am_ents a_t)) Hlok assigns s3 s4 L).
  - rewrite (tr_cis _ _ _ _ T). exact Ec2.
  - rewrite L3. apply nth_error_upd_same. exact Hlt.
  - exact Hnd.
  - intros c Hcin Ht. apply Hgrow. right. exists c. split; [apply Hasg; exact Hcin|]. split; [exact Ht|reflexivity].
  - exact Hinit.
  - intros p. rewrite Hgrow, HL2. split.
    + intros Hp. split; [left; exact Hp|]. intros (c & -> & _). destruct Hp as (a0' & Ha0' & _ & Hi & _).
      rewrite Hat2 in Ha0'. inversion Ha0'; subst a0'. lia.
    + intros ([Hp|(c & Hc0 & _ & ->)] & Hno); [exact Hp|]. exfalso. apply Hno. exists c. split; [reflexivity|apply Hasg; exact Hc0].
Qed.
