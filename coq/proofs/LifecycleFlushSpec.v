(* C03, history level, flushed sections: the contract `no component removed and assigned afterwards within one pack`
   read off the SPECIFICATION's buffers (no run of the model needed).
   xra walks a buffer of the specification; a run of commands on one issue number is at least as long as the packs of
   the model (commands through handles that were not issued yet are not recorded by the specification and split the
   model's packs), so the check on the specification's buffers implies the check on the model's (xra_packs_ok).
   xra_script: the check at every unlock that flushes, along the run of the specification. *)
Require Import Coq.Lists.List Coq.NArith.NArith Coq.ZArith.ZArith Coq.Arith.Arith Coq.Bool.Bool Coq.micromega.Lia.
From Mustache Require Import Res Manager MgrSpec Refine.
From Mustache Require Skeleton.
From Mustache Require Import SkelSpec.
From Mustache.proofs Require Import ListLemmas SkelBasics SkelInv SkelSteps SkelRefine SkelLocked SkelFlush SkelMove SkelMoveRem SkelMain ClosureProofs
  ManagerBasics ManagerMoves ManagerProj ManagerInv ManagerMain ManagerLInv ManagerPack ManagerFlush ManagerLocked ManagerLockedMain
  LifecycleProofs LifecycleLang LifecycleHist LifecycleLocked LifecycleFlushLang LifecycleFlushPack LifecycleFlushMain.
From Mustache.proofs Require ManagerDeferred.
Import ListNotations.

Fixpoint xra (cur : option nat) (removed : list nat) (b : list xcmd) : bool :=
  match b with
  | [] => true
  | xc :: t =>
    let k := xkey xc in
    let R := match cur with Some k0 => if Nat.eqb k0 k then removed else [] | None => [] end in
    match xc with
    | XRemove _ c => xra (Some k) (c :: R) t
    | XAssign _ c _ => negb (existsb (Nat.eqb c) R) && xra (Some k) R t
    | _ => xra (Some k) R t
    end
  end.
Definition xpacks_ok (x : xst) : bool := forallb (xra None []) (x_bufs x).

(* ---- ra_ok along a pack ---- *)
Definition rems (l : list acmd) : list nat := flat_map (fun c => match c with ARemove _ x => [x] | _ => [] end) l.

Lemma ra_ok_app : forall l1 l2 R0, ra_ok R0 (l1 ++ l2) = ra_ok R0 l1 && ra_ok (rev (rems l1) ++ R0) l2.
Proof.
  induction l1 as [|c t IH]; intros l2 R0; [reflexivity|].
  destruct c as [h0 ha m0 sh0|h0|h0|h0 x|h0 x n]; simpl; try apply IH.
  - rewrite IH, <- app_assoc. reflexivity.
  - rewrite IH, andb_assoc. reflexivity.
Qed.

Lemma ra_ok_mono : forall l R R', (forall c, In c R' -> In c R) -> ra_ok R l = true -> ra_ok R' l = true.
Proof.
  induction l as [|c t IH]; intros R R' Hs H; [reflexivity|].
  destruct c as [h0 ha m0 sh0|h0|h0|h0 x|h0 x n]; simpl in *; try (eapply IH; eassumption).
  - apply (IH (x :: R)); [|exact H]. intros c [<-|Hc]; [left; reflexivity|right; apply Hs; exact Hc].
  - apply andb_true_iff in H. destruct H as (H1 & H2). apply andb_true_iff. split; [|eapply IH; eassumption].
    apply negb_true_iff in H1. apply negb_true_iff. destruct (existsb (Nat.eqb x) R') eqn:E; [|reflexivity].
    apply existsb_eqb_in in E. apply Hs in E. apply existsb_eqb_in in E. congruence.
Qed.

Lemma rems_app l1 l2 : rems (l1 ++ l2) = rems l1 ++ rems l2.
Proof. apply flat_map_app. Qed.

(* ---- the current pack of split_packs against the state of xra ---- *)
Section Packs.
Variables (cis : list cinfo) (hs : list handle) (tl : list cell).
Hypothesis Hnd : NoDup hs.
Hypothesis Hnn : forall k, k < length hs -> hnd hs k <> null_handle.

Definition cur_ok (cur : list acmd) (ko : option nat) (R : list nat) : Prop :=
  cur = [] \/
  (cur <> [] /\ Forall (fun c => cmd_handle c = null_handle) cur) \/
  (cur <> [] /\ exists k, ko = Some k /\ k < length hs /\ Forall (fun c => cmd_handle c = hnd hs k) cur /\
     ra_ok [] (rev cur) = true /\ forall c, In c (rems (rev cur)) -> In c R).

Lemma cur_ok_pack cur ko R : cur <> [] -> cur_ok cur ko R -> pack_ra (rev cur) = true.
Proof.
  intros Hne [E|[(_ & Hall)|(_ & k & _ & _ & _ & Hra & _)]]; [congruence| |].
  - unfold pack_ra. destruct (rev cur) as [|c0 t] eqn:E; [reflexivity|].
    assert (Hin : In c0 cur) by (apply in_rev; rewrite E; left; reflexivity).
    rewrite (proj1 (Forall_forall _ _) Hall c0 Hin). reflexivity.
  - unfold pack_ra. destruct (rev cur) as [|c0 t]; [reflexivity|]. rewrite Hra. apply orb_true_r.
Qed.

Lemma xra_packs : forall b xb, brel cis hs tl b xb -> forall cur ko R, cur_ok cur ko R -> xra ko R xb = true ->
  forallb pack_ra (split_packs b cur) = true.
Proof.
  induction 1 as [|c b xb Hnull Hcc Hb IH|c xc b xb Hc Hb IH]; intros cur ko R Hcur Hx.
  - destruct cur as [|c0 cur']; [reflexivity|]. cbn [split_packs forallb]. rewrite (cur_ok_pack (c0 :: cur') ko R); [reflexivity|discriminate|exact Hcur].
  - (* a command through the null handle *)
    assert (Hnew : cur_ok [c] ko R) by (right; left; split; [discriminate|constructor; [exact Hnull|constructor]]).
    destruct cur as [|c0 cur']; cbn [split_packs].
    + apply (IH [c] ko R Hnew Hx).
    + destruct (handle_eqb (cmd_handle c0) (cmd_handle c)) eqn:E.
      * apply ManagerDeferred.handle_eqb_eq in E. apply (IH (c :: c0 :: cur') ko R); [|exact Hx].
        right. left. split; [discriminate|]. constructor; [exact Hnull|].
        destruct Hcur as [E0|[(_ & Hall)|(_ & k & _ & Hk & Hall & _)]]; [discriminate|exact Hall|].
        exfalso. pose proof (Forall_inv Hall) as E1. cbv beta in E1. apply (Hnn k Hk). transitivity (cmd_handle c0); [symmetry; exact E1|rewrite E; exact Hnull].
      * cbn [forallb]. rewrite (cur_ok_pack (c0 :: cur') ko R); [|discriminate|exact Hcur]. apply (IH [c] ko R Hnew Hx).
  - (* a command of the specification's buffer *)
    destruct (crel_key _ _ _ _ _ Hc) as (Hk & Eh & _). set (k := xkey xc) in *.
    set (R1 := match ko with Some k0 => if Nat.eqb k0 k then R else [] | None => [] end).
    (* the state of xra after this command, and what it demands of the command *)
    assert (Hstep : exists R2, xra (Some k) R2 xb = true /\ (forall x, In x R1 -> In x R2) /\ (forall x, In x (rems [c]) -> In x R2) /\
                      forall Rm, (forall x, In x Rm -> In x R1) -> ra_ok Rm [c] = true).
    { cbn [xra] in Hx. fold k in Hx. fold R1 in Hx.
      destruct c as [h0 ha m0 sh0|h0|h0|h0 x|h0 x n]; destruct xc as [k1 m1 sh1|k1|k1|k1 c1 v1|k1 c1]; simpl in Hc; try contradiction.
      - exists R1. split; [exact Hx|]. split; [auto|]. split; [intros x []|reflexivity].
      - exists R1. split; [exact Hx|]. split; [auto|]. split; [intros x []|reflexivity].
      - exists R1. split; [exact Hx|]. split; [auto|]. split; [intros x []|reflexivity].
      - destruct Hc as (_ & _ & -> & _). exists (x :: R1). split; [exact Hx|]. split; [intros y Hy; right; exact Hy|].
        split; [intros y [<-|[]]; left; reflexivity|reflexivity].
      - destruct Hc as (_ & _ & -> & _). apply andb_true_iff in Hx. destruct Hx as (Hx1 & Hx2). exists R1. split; [exact Hx2|]. split; [auto|].
        split; [intros y []|]. intros Rm Hs. simpl. rewrite andb_true_r. apply negb_true_iff in Hx1. apply negb_true_iff.
        destruct (existsb (Nat.eqb x) Rm) eqn:E; [|reflexivity]. apply existsb_eqb_in in E. apply Hs in E. apply existsb_eqb_in in E. congruence. }
    destruct Hstep as (R2 & Hx2 & HR12 & Hrc & Hcok).
    assert (Hnew : cur_ok [c] (Some k) R2).
    { right. right. split; [discriminate|]. exists k. split; [reflexivity|]. split; [exact Hk|]. split; [constructor; [symmetry; exact Eh|constructor]|].
      simpl rev. split; [apply Hcok; intros x []|exact Hrc]. }
    destruct cur as [|c0 cur']; cbn [split_packs].
    + apply (IH [c] (Some k) R2 Hnew Hx2).
    + destruct (handle_eqb (cmd_handle c0) (cmd_handle c)) eqn:E.
      * apply ManagerDeferred.handle_eqb_eq in E. apply (IH (c :: c0 :: cur') (Some k) R2); [|exact Hx2].
        destruct Hcur as [E0|[(_ & Hall)|(_ & k0 & Eko & Hk0 & Hall & Hra & Hrs)]]; [discriminate| |].
        -- exfalso. pose proof (Forall_inv Hall) as E1. cbv beta in E1. apply (Hnn k Hk). transitivity (cmd_handle c); [exact Eh|rewrite <- E; exact E1].
        -- assert (k0 = k).
           { pose proof (Forall_inv Hall) as E1. cbv beta in E1. apply (proj1 (NoDup_nth hs Skeleton.null_handle) Hnd); [exact Hk0|exact Hk|].
             fold (hnd hs k0). fold (hnd hs k). transitivity (cmd_handle c0); [symmetry; exact E1|rewrite E; symmetry; exact Eh]. }
           subst k0. assert (ER : R1 = R) by (unfold R1; rewrite Eko, Nat.eqb_refl; reflexivity).
           right. right. split; [discriminate|]. exists k. split; [reflexivity|]. split; [exact Hk|].
           split; [constructor; [symmetry; exact Eh|exact Hall]|]. change (rev (c :: c0 :: cur')) with (rev (c0 :: cur') ++ [c]). split.
           ++ rewrite ra_ok_app, Hra. simpl andb. apply Hcok. intros x Hx0. rewrite app_nil_r in Hx0. apply in_rev in Hx0. rewrite ER. apply Hrs. exact Hx0.
           ++ intros x Hx0. rewrite rems_app in Hx0. apply in_app_or in Hx0. destruct Hx0 as [Hx0|Hx0]; [apply HR12; rewrite ER; apply Hrs; exact Hx0|apply Hrc; exact Hx0].
      * cbn [forallb]. rewrite (cur_ok_pack (c0 :: cur') ko R); [|discriminate|exact Hcur]. apply (IH [c] (Some k) R2 Hnew Hx2).
Qed.

End Packs.

Lemma xra_packs_ok cis s hs x : LR cis s hs x -> xpacks_ok x = true -> packs_ok s = true.
Proof.
  intros HR Hx. destruct (lr_inv _ _ _ _ HR) as (al & HI). pose proof (li_G _ _ _ _ _ _ HI) as HG.
  pose proof (g_hs_nodup HG) as Hnd. assert (Hnn : forall k, k < length hs -> hnd hs k <> null_handle) by (intros k Hk; exact (hnd_not_null _ _ _ _ k HG Hk)).
  unfold packs_ok, xpacks_ok in *. pose proof (lr_bufs _ _ _ _ HR) as H3. clear HR HI HG. revert Hx.
  generalize dependent (x_bufs x). generalize (bufs s). generalize (tmps s). intros tls bs xbs H3.
  induction H3 as [|tl b xb tls bs xbs Hb H3 IH]; intros Hx; [reflexivity|]. simpl in Hx |- *. apply andb_true_iff in Hx. destruct Hx as (Hx1 & Hx2).
  rewrite (xra_packs cis hs tl Hnd Hnn b xb Hb [] None []); [apply IH; exact Hx2|left; reflexivity|exact Hx1].
Qed.

(* ---- along a script ---- *)
Definition xguard (x : xst) (o : xop) : bool :=
  match o with XoUnlock => Nat.ltb 1 (x_lock x) || xpacks_ok x | _ => true end.
Fixpoint xra_run (ops : list xop) (x : xst) : bool :=
  match ops with [] => true | o :: t => xguard x o && xra_run t (x_step x o) end.
Definition xra_script (n : nat) (cis : list cinfo) (ops : list xop) : bool := xra_run ops (x_init n cis).

Lemma xguard_flush_guard cis s hs x o : LR cis s hs x -> xguard x o = true -> flush_guard s o = true.
Proof.
  intros HR H. destruct o; try reflexivity. simpl in *. rewrite (lr_lock _ _ _ _ HR).
  destruct (Nat.ltb 1 (x_lock x)); [reflexivity|]. simpl in *. eapply xra_packs_ok; eassumption.
Qed.

Lemma xra_ra_run cis typed : forall ops s hs x hist s' hs' hist',
  HL cis s hs x hist -> cis_ok cis -> lc_cis_ok cis -> forallb (alphaL_b cis) ops = true -> x_viol x = 0 ->
  x_viol (fold_left x_step ops x) = 0 -> xra_run ops x = true ->
  fold_res (hstep typed) ops (s, hs, hist) = Ok (s', hs', hist') -> within (length hs') ->
  ra_run typed ops (s, hs) = true.
Proof.
  induction ops as [|o t IH]; intros s hs x hist s' hs' hist' HH Hok Hlok Ha Hv0 Hv1 Hra H Hb; cbn [fold_res forallb fold_left ra_run xra_run fst] in *; [reflexivity|].
  apply andb_true_iff in Ha. destruct Ha as (Ho & Ht). apply andb_true_iff in Hra. destruct Hra as (Hg & Hra).
  bd H r H1. destruct r as ((s1, hs1), hist1).
  assert (Hv1' : x_viol (x_step x o) = 0).
  { pose proof (x_viol_runL_mono cis t (x_step x o) Ht). lia. }
  pose proof (xguard_flush_guard cis s hs x o (hl_R _ _ _ _ _ HH) Hg) as Hg'.
  rewrite Hg', (hstep_mstep _ _ _ _ _ _ _ _ H1). simpl andb.
  assert (HH1 : HL cis s1 hs1 (x_step x o) hist1).
  { apply (HL_step cis typed s hs x hist o s1 hs1 hist1 HH Hok Hlok Ho Hv0 Hv1' Hg' H1). eapply within_le; [|exact Hb]. eapply hfold_mono. exact H. }
  apply (IH s1 hs1 (x_step x o) hist1 s' hs' hist' HH1 Hok Hlok Ht Hv1' Hv1 Hra H Hb).
Qed.

(* the contract checked on the specification implies the contract checked on the model *)
Theorem xra_script_ra_script typed n cis ops s hs hist :
  cis_ok cis -> lc_cis_ok cis -> forallb (alphaL_b cis) ops = true ->
  hrun typed n cis ops = Ok (s, hs, hist) -> x_viol (xrun n cis ops) = 0 -> within (length hs) ->
  xra_script n cis ops = true -> ra_script typed n cis ops = true.
Proof.
  intros Hok Hlok Ha Hrun Hviol Hb Hra. unfold hrun in Hrun. unfold xrun in *. unfold ra_script, xra_script in *.
  apply (xra_ra_run cis typed ops _ _ _ _ _ _ _ (HL_init n cis) Hok Hlok Ha eq_refl Hviol Hra Hrun Hb).
Qed.

Theorem history_flush_spec typed n cis ops s hs hist :
  cis_ok cis -> lc_cis_ok cis -> forallb (alphaL_b cis) ops = true ->
  hrun typed n cis ops = Ok (s, hs, hist) -> x_viol (xrun n cis ops) = 0 -> within (length hs) -> xra_script n cis ops = true ->
  lc_ok (destroy_pals cis) hist = true /\
  (forall p, In p (lc_live (destroy_pals cis) hist) <-> (live_comp_place cis s hs (xrun n cis ops) p \/ parked cis s p)) /\
  (lockc s = 0 -> forall p, In p (lc_live (destroy_pals cis) hist) <-> live_comp_place cis s hs (xrun n cis ops) p).
Proof.
  intros Hok Hlok Ha Hrun Hviol Hb Hra. apply (history_flush typed); try assumption. eapply xra_script_ra_script; eassumption.
Qed.

Theorem history_flush_teardown_spec typed n cis ops s hs hist s' r :
  cis_ok cis -> lc_cis_ok cis -> forallb (alphaL_b cis) ops = true ->
  hrun typed n cis ops = Ok (s, hs, hist) -> x_viol (xrun n cis ops) = 0 -> within (length hs) -> xra_script n cis ops = true ->
  step s OTeardown = Ok (s', r) ->
  lc_ok (destroy_pals cis) (hist ++ rev (log s')) = true /\ lc_live (destroy_pals cis) (hist ++ rev (log s')) = [].
Proof.
  intros Hok Hlok Ha Hrun Hviol Hb Hra. apply (history_flush_teardown typed n cis ops s hs hist); try assumption. eapply xra_script_ra_script; eassumption.
Qed.

Theorem history_flush_every_point_spec typed n cis ops1 ops2 s hs hist :
  cis_ok cis -> lc_cis_ok cis -> forallb (alphaL_b cis) (ops1 ++ ops2) = true ->
  hrun typed n cis (ops1 ++ ops2) = Ok (s, hs, hist) -> x_viol (xrun n cis (ops1 ++ ops2)) = 0 -> within (length hs) ->
  xra_script n cis (ops1 ++ ops2) = true ->
  exists s1 hs1 hist1, hrun typed n cis ops1 = Ok (s1, hs1, hist1) /\
    lc_ok (destroy_pals cis) hist1 = true /\
    (forall p, In p (lc_live (destroy_pals cis) hist1) <-> (live_comp_place cis s1 hs1 (xrun n cis ops1) p \/ parked cis s1 p)) /\
    (lockc s1 = 0 -> forall p, In p (lc_live (destroy_pals cis) hist1) <-> live_comp_place cis s1 hs1 (xrun n cis ops1) p) /\
    (forall s' r, step s1 OTeardown = Ok (s', r) ->
       lc_ok (destroy_pals cis) (hist1 ++ rev (log s')) = true /\ lc_live (destroy_pals cis) (hist1 ++ rev (log s')) = []).
Proof.
  intros Hok Hlok Ha Hrun Hviol Hb Hra. apply history_flush_every_point with (ops2 := ops2) (s := s) (hs := hs) (hist := hist); try assumption.
  eapply xra_script_ra_script; eassumption.
Qed.
