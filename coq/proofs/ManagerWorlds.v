(* C02: from the pointwise refinement (ManagerMain.unlocked_refinement) to the statement of Refine.v itself:
   worlds_match (x_ents spec) (abs model) = true, i.e. refines_on = true, for the unlocked alphabet.
   Needs: the insertion sort of the specification's entities is the list of entities by issue number. *)
Require Import Coq.Lists.List Coq.NArith.NArith Coq.ZArith.ZArith Coq.Arith.Arith Coq.Bool.Bool Coq.micromega.Lia.
Require Import Coq.Sorting.Sorted.
From Mustache Require Import Res Manager MgrSpec Refine.
From Mustache.proofs Require Import ListLemmas ManagerBasics ManagerMoves ManagerProj ManagerInv ManagerMain.
Import ListNotations.

Definition klt (a b : ent) : Prop := e_k a < e_k b.
Definition SS (l : list ent) : Prop := StronglySorted klt l.

(* ---- two strictly sorted lists with the same members are equal ---- *)
Lemma SS_unique : forall l1 l2, SS l1 -> SS l2 -> (forall e, In e l1 <-> In e l2) -> l1 = l2.
Proof.
  induction l1 as [|a t1 IH]; intros l2 H1 H2 Hm.
  - destruct l2 as [|b t2]; [reflexivity|]. exfalso. apply (proj2 (Hm b)). left. reflexivity.
  - destruct l2 as [|b t2]; [exfalso; apply (proj1 (Hm a)); left; reflexivity|].
    apply StronglySorted_inv in H1. destruct H1 as (S1 & F1). apply StronglySorted_inv in H2. destruct H2 as (S2 & F2).
    rewrite Forall_forall in F1, F2.
    assert (Eab : a = b).
    { destruct (proj1 (Hm a) (or_introl eq_refl)) as [E|Ha]; [congruence|].
      destruct (proj2 (Hm b) (or_introl eq_refl)) as [E|Hb]; [congruence|].
      pose proof (F2 a Ha). pose proof (F1 b Hb). unfold klt in *. lia. }
    subst b. f_equal. apply IH; [exact S1|exact S2|]. intros e. split; intros He.
    + destruct (proj1 (Hm e) (or_intror He)) as [E|H]; [|exact H]. subst e. pose proof (F1 a He). unfold klt in *. lia.
    + destruct (proj2 (Hm e) (or_intror He)) as [E|H]; [|exact H]. subst e. pose proof (F2 a He). unfold klt in *. lia.
Qed.

(* ---- insertion sort ---- *)
Lemma insert_ent_in l e x : In x (insert_ent l e) <-> x = e \/ In x l.
Proof.
  induction l as [|y t IH]; simpl; [intuition|].
  destruct (Nat.leb (e_k e) (e_k y)); simpl; [intuition|]. rewrite IH. intuition.
Qed.

Lemma insert_ent_SS l e : SS l -> ~ In (e_k e) (map e_k l) -> SS (insert_ent l e).
Proof.
  induction l as [|y t IH]; intros Hs Hf; simpl.
  - constructor; [constructor|constructor].
  - apply StronglySorted_inv in Hs. destruct Hs as (St & Ft). rewrite Forall_forall in Ft.
    destruct (Nat.leb_spec (e_k e) (e_k y)) as [Hle|Hgt].
    + assert (Hlt : e_k e < e_k y) by (simpl in Hf; lia).
      constructor; [constructor; [exact St|apply Forall_forall; exact Ft]|].
      apply Forall_forall. intros z [<-|Hz]; [exact Hlt|]. pose proof (Ft z Hz). unfold klt in *. lia.
    + constructor.
      * apply IH; [exact St|]. intros Hin. apply Hf. right. exact Hin.
      * apply Forall_forall. intros z Hz. apply insert_ent_in in Hz. destruct Hz as [->|Hz]; [exact Hgt|apply Ft; exact Hz].
Qed.

Lemma sort_fold : forall l acc, NoDup (map e_k l) -> (forall e, In e l -> ~ In (e_k e) (map e_k acc)) -> SS acc ->
  SS (fold_left insert_ent l acc) /\ forall x, In x (fold_left insert_ent l acc) <-> In x l \/ In x acc.
Proof.
  induction l as [|e t IH]; intros acc Hnd Hfresh Hs; simpl.
  - split; [exact Hs|]. intuition.
  - inversion Hnd as [|? ? Hni Hnd']; subst.
    destruct (IH (insert_ent acc e) Hnd') as (S' & M').
    + intros e' He' Hin. apply in_map_iff in Hin. destruct Hin as (z & Ez & Hz). apply insert_ent_in in Hz. destruct Hz as [->|Hz].
      * apply Hni. rewrite Ez. apply in_map. exact He'.
      * apply (Hfresh e' (or_intror He')). rewrite <- Ez. apply in_map. exact Hz.
    + apply insert_ent_SS; [exact Hs|]. apply Hfresh. left. reflexivity.
    + split; [exact S'|]. intros x. rewrite M', insert_ent_in. intuition.
Qed.

Lemma sort_ents_spec l : NoDup (map e_k l) -> SS (sort_ents l) /\ forall x, In x (sort_ents l) <-> In x l.
Proof.
  intros Hnd. unfold sort_ents. destruct (sort_fold l [] Hnd) as (S & M).
  - intros e _ [].
  - constructor.
  - split; [exact S|]. intros x. rewrite M. simpl. tauto.
Qed.

(* ---- the entities by issue number ---- *)
Definition opt_ent (x : xst) (k : nat) : list ent := match find_ent x k with Some e => [e] | None => [] end.
Definition ordered_from (x : xst) (a len : nat) : list ent := flat_map (opt_ent x) (seq a len).

Lemma ordered_in x : forall len a e, In e (ordered_from x a len) <-> exists k, a <= k < a + len /\ find_ent x k = Some e.
Proof.
  intros len a e. unfold ordered_from. rewrite in_flat_map. split.
  - intros (k & Hk & He). apply in_seq in Hk. exists k. split; [lia|]. unfold opt_ent in He. destruct (find_ent x k); [destruct He as [<-|[]]; reflexivity|contradiction].
  - intros (k & Hk & He). exists k. split; [apply in_seq; lia|]. unfold opt_ent. rewrite He. left. reflexivity.
Qed.

Lemma ordered_SS x : forall len a, SS (ordered_from x a len).
Proof.
  induction len as [|len IH]; intros a; [constructor|].
  change (ordered_from x a (S len)) with (opt_ent x a ++ ordered_from x (S a) len).
  unfold opt_ent. destruct (find_ent x a) as [e|] eqn:E; simpl; [|apply IH].
  constructor; [apply IH|]. apply Forall_forall. intros z Hz. apply ordered_in in Hz. destruct Hz as (k & Hk & Hfz).
  unfold klt. rewrite (findk_key _ _ _ E), (findk_key _ _ _ Hfz). lia.
Qed.

Lemma findk_nodup l e : NoDup (map e_k l) -> In e l -> findk l (e_k e) = Some e.
Proof.
  induction l as [|y t IH]; intros Hnd Hin; [contradiction|]. inversion Hnd as [|? ? Hni Hnd']; subst. unfold findk. simpl.
  destruct Hin as [->|Hin]; [rewrite Nat.eqb_refl; reflexivity|].
  destruct (Nat.eqb_spec (e_k y) (e_k e)) as [E|E]; [exfalso; apply Hni; rewrite E; apply in_map; exact Hin|].
  apply IH; assumption.
Qed.

(* well-formed entity table of the specification *)
Definition xwf (x : xst) : Prop :=
  x_lock x = 0 /\ x_deps x = [] /\ NoDup (map e_k (x_ents x)) /\ forall e, In e (x_ents x) -> e_k e < x_count x.

Lemma sorted_is_ordered x : xwf x -> sort_ents (x_ents x) = ordered_from x 0 (x_count x).
Proof.
  intros (_ & _ & Hnd & Hlt). destruct (sort_ents_spec _ Hnd) as (S & M).
  apply SS_unique; [exact S|apply ordered_SS|]. intros e. rewrite M, ordered_in. split.
  - intros He. exists (e_k e). split; [pose proof (Hlt e He); lia|]. apply findk_nodup; assumption.
  - intros (k & _ & Hf). unfold find_ent in Hf. apply find_some in Hf. tauto.
Qed.

(* ---- the entity table stays well formed along scripts of the alphabet ---- *)
Lemma drop_ent_keys l k : map e_k (drop_ent l k) = filter (fun k' => negb (Nat.eqb k' k)) (map e_k l).
Proof. unfold drop_ent. induction l as [|y t IH]; simpl; [reflexivity|]. destruct (negb (Nat.eqb (e_k y) k)); simpl; rewrite IH; reflexivity. Qed.

Lemma put_ent_nodup l e : NoDup (map e_k l) -> NoDup (map e_k (put_ent l e)).
Proof.
  intros Hnd. unfold put_ent. rewrite map_app, drop_ent_keys. simpl. apply NoDup_app_intro_single; [apply NoDup_filter; exact Hnd|].
  intros Hin. apply filter_In in Hin. destruct Hin as (_ & Hb). rewrite Nat.eqb_refl in Hb. discriminate.
Qed.

Lemma put_ent_in l e z : In z (put_ent l e) -> z = e \/ In z l.
Proof.
  unfold put_ent, drop_ent. intros H. apply in_app_or in H. destruct H as [H|[<-|[]]]; [|left; reflexivity].
  apply filter_In in H. right. tauto.
Qed.

Lemma xwf_put x x' e : xwf x -> xfr x' = xfr x -> x_ents x' = put_ent (x_ents x) e -> e_k e < x_count x -> xwf x'.
Proof.
  intros (A & B & C & D) F E Hk. destruct (xfr_fields _ _ F) as (X1 & X2 & X3 & X4 & X5).
  split; [congruence|]. split; [congruence|]. rewrite E, X4. split; [apply put_ent_nodup; exact C|].
  intros z Hz. apply put_ent_in in Hz. destruct Hz as [->|Hz]; [exact Hk|apply D; exact Hz].
Qed.

Lemma find_ent_lt x k e : xwf x -> find_ent x k = Some e -> k < x_count x.
Proof.
  intros (_ & _ & _ & D) H. pose proof (findk_key _ _ _ H) as Ek. unfold find_ent in H. apply find_some in H. destruct H as (H & _).
  rewrite <- Ek. apply D. exact H.
Qed.

Lemma xwf_step cis x o : xwf x -> alpha_b cis o = true -> xwf (x_step x o).
Proof.
  intros Hw Ha. pose proof Hw as (Hl & Hd & Hnd & Hlt). unfold x_step. destruct (out_of_contract x o); [exact Hw|].
  destruct o; simpl in Ha; try discriminate; unfold x_step_in; rewrite ?Hl.
  - (* create *)
    destruct (x_create_eq (xw_count x (S (x_count x))) (x_count x) m (map (fun sid => (sid, 0%Z)) sids) Hd) as (F & E).
    destruct (xfr_fields _ _ F) as (X1 & X2 & X3 & X4 & X5). simpl in X1, X2, X3, X4, X5.
    split; [congruence|]. split; [congruence|]. rewrite E, X4. simpl x_ents. split; [apply put_ent_nodup; exact Hnd|].
    intros z Hz. apply put_ent_in in Hz. destruct Hz as [->|Hz]; [simpl; lia|]. pose proof (Hlt z Hz). lia.
  - (* destroyNow *)
    destruct (negb (issued_b x k)); [exact Hw|]. unfold x_kill. destruct (find_ent x k); [|exact Hw].
    split; [exact Hl|]. split; [exact Hd|]. simpl. split.
    + rewrite drop_ent_keys. apply NoDup_filter. exact Hnd.
    + intros z Hz. unfold drop_ent in Hz. apply filter_In in Hz. apply Hlt. tauto.
  - (* assign *)
    destruct (negb (issued_b x k)); [exact Hw|]. destruct (find_ent x k) as [e|] eqn:Hf.
    + destruct (has_comp (e_comps e) c) eqn:Hh.
      * unfold x_assign. rewrite Hf, Hh. exact Hw.
      * destruct (x_assign_eq x k c v e Hd Hf Hh) as (F & E). eapply xwf_put; [exact Hw|exact F|exact E|]. simpl. eapply find_ent_lt; eassumption.
    + unfold x_assign. rewrite Hf. exact Hw.
  - (* remove *)
    destruct (negb (issued_b x k)); [exact Hw|]. destruct (find_ent x k) as [e|] eqn:Hf.
    + destruct (has_comp (e_comps e) c) eqn:Hh.
      * destruct (x_remove_eq x k c e Hd Hf Hh) as (F & E). eapply xwf_put; [exact Hw|exact F|exact E|]. simpl. eapply find_ent_lt; eassumption.
      * rewrite (x_remove_absent _ _ _ _ Hf Hh). exact Hw.
    + unfold x_remove. rewrite Hf. exact Hw.
  - (* set *)
    destruct (find_ent x k) as [e|] eqn:Hf; [|exact Hw]. destruct (has_comp (e_comps e) c); [|exact Hw].
    eapply xwf_put; [exact Hw|reflexivity|reflexivity|]. simpl. eapply find_ent_lt; eassumption.
Qed.

Lemma xwf_run cis : forall ops x, xwf x -> forallb (alpha_b cis) ops = true -> xwf (fold_left x_step ops x).
Proof.
  induction ops as [|o t IH]; intros x Hw Ha; simpl in *; [exact Hw|]. apply andb_true_iff in Ha. destruct Ha as (Ho & Ht).
  apply IH; [apply (xwf_step cis); assumption|exact Ht].
Qed.

Lemma xwf_init n cis : xwf (x_init n cis).
Proof. split; [reflexivity|]. split; [reflexivity|]. split; [constructor|intros e []]. Qed.

(* ---- the observed world, entity by entity ---- *)
Definition ematch (e e' : ent) : Prop := ent_match e e' = true.

Lemma abs_from_match s x : forall suffix a,
  (forall j, j < length suffix ->
     match find_ent x (a + j) with
     | Some e => exists e', abs_ent s (a + j) (nth j suffix null_handle) = Some e' /\ ent_match e e' = true
     | None => abs_ent s (a + j) (nth j suffix null_handle) = None
     end) ->
  Forall2 ematch (ordered_from x a (length suffix)) (abs_from s a suffix).
Proof.
  induction suffix as [|h t IH]; intros a H; [constructor|].
  change (ordered_from x a (length (h :: t))) with (opt_ent x a ++ ordered_from x (S a) (length t)).
  assert (Ht : Forall2 ematch (ordered_from x (S a) (length t)) (abs_from s (S a) t)).
  { apply IH. intros j Hj. specialize (H (S j) ltac:(simpl; lia)). replace (a + S j) with (S a + j) in H by lia. exact H. }
  specialize (H 0 ltac:(simpl; lia)). rewrite Nat.add_0_r in H. simpl nth in H. simpl abs_from. unfold opt_ent.
  destruct (find_ent x a) as [e|].
  - destruct H as (e' & -> & Hm). simpl. constructor; [exact Hm|exact Ht].
  - rewrite H. exact Ht.
Qed.

Lemma Forall2_worlds sp impl : Forall2 ematch sp impl ->
  Nat.eqb (length sp) (length impl) && forallb (fun p => ent_match (fst p) (snd p)) (combine sp impl) = true.
Proof.
  induction 1 as [|e e' t t' Hm Ht IH]; [reflexivity|]. simpl. apply andb_true_iff in IH. destruct IH as (I1 & I2).
  rewrite I1. simpl. unfold ematch in Hm. rewrite Hm, I2. reflexivity.
Qed.

(* the statement of Refine.v, for the unlocked alphabet *)
Theorem unlocked_refines_on typed n cis ops s hs :
  cis_ok cis -> forallb (alpha_b cis) ops = true ->
  mrun typed n cis ops = Ok (s, hs) -> x_viol (xrun n cis ops) = 0 -> within (length hs) ->
  refines_on typed n cis ops = true.
Proof.
  intros Hok Ha Hrun Hviol Hb. destruct (unlocked_refinement typed n cis ops s hs Hok Ha Hrun Hviol Hb) as (Hcnt & Hpt).
  unfold refines_on. rewrite Hrun, Hviol. simpl. unfold worlds_match.
  assert (Hw : xwf (xrun n cis ops)) by (apply (xwf_run cis); [apply xwf_init|exact Ha]).
  rewrite (sorted_is_ordered _ Hw), <- Hcnt. apply Forall2_worlds. unfold abs. apply abs_from_match.
  intros j Hj. simpl. apply Hpt.
Qed.
