(* C02, extended unlocked alphabet, part (b): clearArchetype and clear.
   The structural part is the Skeleton's clear_arch (SkelSteps.G_clear_arch); the entities of the cleared archetype are
   exactly the entities of the specification whose component set is the archetype's mask. *)
Require Import Coq.Lists.List Coq.NArith.NArith Coq.ZArith.ZArith Coq.Arith.Arith Coq.Bool.Bool Coq.micromega.Lia.
From Mustache Require Import Res Manager MgrSpec Refine.
From Mustache Require Skeleton.
From Mustache Require Import SkelSpec.
From Mustache.proofs Require Import ListLemmas SkelBasics SkelInv SkelSteps SkelMove SkelRefine ClosureProofs
  ManagerBasics ManagerMoves ManagerProj ManagerInv ManagerMain ManagerWorlds ManagerExtFrames ManagerExtInv.
Import ListNotations.

(* ---------------------------------------------------------------------------------------- *)
(* clear_one / the release loop on the projection *)
Definition ctl3 (s s' : mst) : Prop := lockc s' = lockc s /\ deps s' = deps s /\ cinfos s' = cinfos s.

Lemma clear_one_proj s h s' : clear_one s h = Ok s' ->
  Skeleton.clear_one (proj s) h = Ok (proj s') /\ archs s' = archs s /\ marked s' = marked s /\ ctl3 s s'.
Proof.
  intros H. unfold clear_one in H. cbv zeta in H. bd H l Hl. apply nth_res_ok in Hl.
  bd H ls Hls. apply upd_res_ok in Hls. destruct Hls as (Hlt & ->).
  bd H sl Hsl. apply upd_res_ok in Hsl. destruct Hsl as (Hlt2 & ->). inversion H; subst s'; clear H.
  split; [|split; [reflexivity|split; [reflexivity|repeat split]]].
  unfold Skeleton.clear_one. cbn [Skeleton.locs proj].
  assert (E1 : nth_res (map ploc (locs s)) (N.to_nat (fst h)) = Ok (ploc l)) by (apply nth_res_some; apply map_nth_error; exact Hl).
  rewrite E1, bind_Ok. unfold upd_res. rewrite map_length. apply Nat.ltb_lt in Hlt. rewrite Hlt. rewrite bind_Ok.
  cbn [Skeleton.slots Skeleton.set_locs Skeleton.empty_slots Skeleton.next_slot proj]. rewrite map_length.
  cbn [slots set_locs] in Hlt2. apply Nat.ltb_lt in Hlt2. rewrite Hlt2. rewrite bind_Ok.
  unfold proj. cbn. rewrite !map_upd. reflexivity.
Qed.

Lemma clear_fold_proj l : forall s s', fold_res clear_one l s = Ok s' ->
  fold_res Skeleton.clear_one l (proj s) = Ok (proj s') /\ archs s' = archs s /\ marked s' = marked s /\ ctl3 s s'.
Proof.
  induction l as [|h t IH]; intros s s' H; simpl in H.
  - inversion H; subst s'. simpl. repeat split.
  - bd H s1 H1. destruct (clear_one_proj _ _ _ H1) as (P1 & A1 & M1 & (C1 & C2 & C3)).
    destruct (IH _ _ H) as (P2 & A2 & M2 & (D1 & D2 & D3)). simpl. rewrite P1, bind_Ok.
    split; [exact P2|]. split; [congruence|]. split; [congruence|]. repeat split; congruence.
Qed.

Lemma olog_fold_emit {A} (f : A -> event) l : forall s, olog s (fold_left (fun st' i => emit st' (f i)) l s).
Proof. induction l as [|i t IH]; intros s; simpl; [apply olog_refl|]. eapply olog_trans; [apply olog_emit|apply IH]. Qed.

Lemma arch_clear_ok s ai a s' : nth_error (archs s) ai = Some a -> am_size a = length (am_ents a) -> arch_clear s ai = Ok s' ->
  fr1 s' = fr1 s /\ archs s' = upd (archs s) ai (with_size (with_ents a []) 0).
Proof.
  intros Ha Hsz H. unfold arch_clear in H. rewrite (nth_res_some _ _ _ Ha) in H. bok H.
  destruct (am_ents a) as [|e0 t] eqn:Ee.
  - inversion H; subst s'. split; [reflexivity|]. symmetry. apply upd_same_id. rewrite Ha. f_equal.
    destruct a; simpl in *. subst. reflexivity.
  - cbv zeta in H. bd H s1 Hs1. apply fold_olog in Hs1.
    2:{ intros st c st' Hf. bd Hf inf Hinf. inversion Hf. destruct (ci_destroy inf && ci_ev inf); [apply olog_fold_emit|apply olog_refl]. }
    destruct Hs1 as (F1 & A1). rewrite A1, (nth_res_some _ _ _ Ha) in H. bok H. inversion H; subst s'. simpl. rewrite A1.
    split; [exact F1|reflexivity].
Qed.

Lemma clear_archetype_ok s ai a s' : nth_error (archs s) ai = Some a -> am_size a = length (am_ents a) ->
  clear_archetype s ai = Ok s' ->
  Skeleton.clear_arch (proj s) ai = Ok (proj s') /\ archs s' = upd (archs s) ai (with_size (with_ents a []) 0) /\
  marked s' = marked s /\ ctl3 s s'.
Proof.
  intros Ha Hsz H. unfold clear_archetype in H. rewrite (nth_res_some _ _ _ Ha) in H. bok H. bd H s1 Hf.
  destruct (clear_fold_proj _ _ _ Hf) as (P1 & A1 & M1 & (C1 & C2 & C3)).
  assert (Ha1 : nth_error (archs s1) ai = Some a) by (rewrite A1; exact Ha).
  destruct (arch_clear_ok _ _ _ _ Ha1 Hsz H) as (F2 & A2).
  destruct (fr3_ctl _ _ (fr2_fr3 _ _ (fr1_fr2 _ _ F2))) as (E1 & E2 & E3 & _ & _ & E6 & _).
  split; [|split; [rewrite A2, A1; reflexivity|split; [congruence|repeat split; congruence]]].
  unfold Skeleton.clear_arch. cbn [Skeleton.archs proj].
  assert (E : nth_res (map parch (archs s)) ai = Ok (parch a)) by (apply nth_res_some; apply map_nth_error; exact Ha).
  rewrite E, bind_Ok. cbn [Skeleton.a_ents parch]. rewrite P1, bind_Ok.
  rewrite (proj_fr1 _ _ F2), A2, map_upd. reflexivity.
Qed.

(* ---------------------------------------------------------------------------------------- *)
(* the specification's clearArchetype *)
Definition cl_hit (m : mask) (e : ent) : bool :=
  N.eqb (comp_mask (e_comps e)) m && (match e_shared e with [] => true | _ => false end).

Lemma x_clear_find x m k : xwf x ->
  find_ent (x_step_in x (XoClearArch m [])) k =
  match find_ent x k with Some e => if cl_hit m e then None else Some e | None => None end.
Proof.
  intros (_ & Hd & Hnd & _). unfold x_step_in. rewrite !find_ent_findk. cbn [x_ents xw_ents].
  rewrite findk_filter by exact Hnd. rewrite Hd, closure_nil. destruct (findk (x_ents x) k) as [e|]; [|reflexivity].
  unfold cl_hit. destruct (_ && _); reflexivity.
Qed.

Lemma xwf_filter x (P : ent -> bool) : xwf x -> xwf (xw_ents x (filter P (x_ents x))).
Proof.
  intros (A & B & C & D). split; [exact A|]. split; [exact B|]. cbn [x_ents xw_ents x_count]. split.
  - clear - C. induction (x_ents x) as [|e t IH]; simpl; [constructor|]. inversion C as [|? ? Hni Hnd]; subst.
    destruct (P e); simpl; [|apply IH; exact Hnd]. constructor; [|apply IH; exact Hnd].
    intros Hin. apply Hni. apply in_map_iff in Hin. destruct Hin as (z & Ez & Hz). apply filter_In in Hz. apply in_map_iff. exists z. tauto.
  - intros e He. apply filter_In in He. apply D. tauto.
Qed.

(* the component set and the shared values of a live entity, read off its archetype *)
Lemma live_mask cis s hs al x k key e : MInvE cis s hs al x -> In (k, key) al -> find_ent x k = Some e ->
  comp_mask (e_comps e) = key /\ e_shared e = [].
Proof.
  intros HE Hin Hfe. destruct (live_vmatch _ _ _ _ _ _ _ _ (me_inv _ _ _ _ _ HE) Hin Hfe) as (_ & ai & idx & a & _ & Ha & Hkey & _ & (Hm & Hs & _)).
  split; [|exact Hs]. rewrite <- Hkey. apply comp_mask_mitems; [exact Hm|]. eapply Mok_nth; [apply (me_mok _ _ _ _ _ HE)|exact Ha].
Qed.

(* ---------------------------------------------------------------------------------------- *)
(* clearArchetype of the archetype at index ai *)
Lemma MInvE_clear_idx cis s hs al x ai a s' :
  MInvE cis s hs al x -> within (length hs) -> nth_error (archs s) ai = Some a -> clear_archetype s ai = Ok s' ->
  archs s' = upd (archs s) ai (with_size (with_ents a []) 0) /\
  exists al', MInvE cis s' hs al' (x_step_in x (XoClearArch (am_mask a) [])).
Proof.
  intros HE Hb Ha H. pose proof HE as [HI HM Hw Hmi Hml Hmk].
  pose proof HI as [HG Hawf Hl Hdp Hc Hxl Hxd Hxc Hcnt Hsl Hal Hv].
  destruct (awf_nth _ _ _ Hawf Ha) as (W1 & W2 & W3).
  destruct (clear_archetype_ok _ _ _ _ Ha W2 H) as (Hp & A & Mk & (C1 & C2 & C3)).
  split; [exact A|].
  assert (Hpa : nth_error (Skeleton.archs (proj s)) ai = Some (parch a)) by (simpl; apply map_nth_error; exact Ha).
  destruct (G_clear_arch (proj s) (proj s') hs al [] ai (parch a) HG Hpa (bound_ver _ Hb) Hp) as (HG' & _ & Hlen).
  cbn [Skeleton.a_key parch] in HG'. unfold proj in Hlen. cbn [Skeleton.slots] in Hlen. rewrite !map_length in Hlen.
  set (m := am_mask a) in *.
  set (al' := filter (fun p : nat * N => negb (N.eqb (snd p) m)) al) in *.
  assert (Hai : ai < length (archs s)) by (apply nth_error_Some; congruence).
  pose proof (x_clear_find x m) as Hfind.
  exists al'. constructor.
  - constructor.
    + exact HG'.
    + rewrite A. apply Forall_upd; [exact Hawf|]. unfold awf. cbn [am_shared am_size am_ents am_cols am_mask with_size with_ents length]. split; [exact W1|]. split; [reflexivity|exact W3].
    + congruence.
    + congruence.
    + congruence.
    + exact Hxl.
    + exact Hxd.
    + exact Hxc.
    + exact Hcnt.
    + rewrite Hlen. exact Hsl.
    + intros k. rewrite alive_x_find, (Hfind k Hw). split.
      * intros Hk. destruct (alive_in _ _ Hk) as (key & Hin). unfold al' in Hin. apply filter_In in Hin. destruct Hin as (Hin & Hne). simpl in Hne.
        assert (Hax : alive_x x k = true) by (apply Hal; unfold alive; apply in_map_iff; exists (k, key); auto).
        apply alive_x_find in Hax. destruct (find_ent x k) as [e|] eqn:Hfe; [|congruence].
        destruct (live_mask _ _ _ _ _ _ _ _ HE Hin Hfe) as (Em & Es). unfold cl_hit. rewrite Em.
        apply negb_true_iff in Hne. rewrite Hne. simpl. discriminate.
      * intros Hk. destruct (find_ent x k) as [e|] eqn:Hfe; [|congruence].
        assert (Hak : alive al k) by (apply Hal; apply alive_x_find; congruence).
        destruct (alive_in _ _ Hak) as (key & Hin). destruct (live_mask _ _ _ _ _ _ _ _ HE Hin Hfe) as (Em & Es).
        unfold cl_hit in Hk. rewrite Em, Es in Hk. destruct (N.eqb key m) eqn:Ek; [simpl in Hk; congruence|].
        unfold alive. apply in_map_iff. exists (k, key). split; [reflexivity|]. unfold al'. apply filter_In. split; [exact Hin|]. simpl. rewrite Ek. reflexivity.
    + intros ai' a' idx h Ha' Hh. rewrite A in Ha'. destruct (Nat.eq_dec ai' ai) as [->|Hne].
      * rewrite nth_error_upd_same in Ha' by exact Hai. inversion Ha'; subst a'. cbn [am_ents with_size with_ents] in Hh. destruct idx; discriminate.
      * rewrite nth_error_upd_other in Ha' by congruence.
        destruct (Hv ai' a' idx h Ha' Hh) as (k & e & Hk & Eh & Hfe & Hvm). exists k, e. split; [exact Hk|]. split; [exact Eh|]. split; [|exact Hvm].
        rewrite (Hfind k Hw), Hfe. destruct Hvm as (Hm' & Hs' & _).
        assert (Em : comp_mask (e_comps e) = am_mask a') by (apply comp_mask_mitems; [exact Hm'|eapply Mok_nth; eassumption]).
        unfold cl_hit. rewrite Em. destruct (N.eqb_spec (am_mask a') m) as [E|E]; [|reflexivity]. exfalso. apply Hne.
        apply (arch_key_index (map parch (archs s)) ai' ai (parch a') (parch a) (g_arch_keys HG)); [apply map_nth_error; exact Ha'|apply map_nth_error; exact Ha|exact E].
  - unfold Mok. rewrite A. rewrite (masks_upd _ _ a _ Ha) by reflexivity. exact HM.
  - unfold x_step_in. apply xwf_filter. exact Hw.
  - rewrite Mk. exact Hmi.
  - exact Hml.
  - intros k Hk. rewrite Mk. apply Hmk. exact Hk.
Qed.

Lemma step_clear_arch s m : step s (OClearArch m []) =
  (do r <- get_arch s m si_null; let '(s1, ai) := r in do s2 <- clear_archetype s1 ai; Ok (s2, RNone)).
Proof. reflexivity. Qed.

Lemma MInvE_get_arch cis s hs al x m s1 ai : MInvE cis s hs al x -> mok m -> get_arch s m si_null = Ok (s1, ai) ->
  MInvE cis s1 hs al x /\ fr1 s1 = fr1 s /\
  (forall j a', nth_error (archs s) j = Some a' -> nth_error (archs s1) j = Some a') /\
  exists a, nth_error (archs s1) ai = Some a /\ am_mask a = m.
Proof.
  intros [HI HM Hw Hmi Hml Hmk] Hm H.
  destruct (MInv_get_arch _ _ _ _ _ _ _ _ HI H) as (HI1 & F1 & Hkeep & Hex).
  destruct (get_arch_frame _ _ _ _ _ (mi_deps _ _ _ _ _ HI) H) as (Mk & K & _).
  split; [|auto]. constructor; try assumption.
  - apply K; assumption.
  - rewrite Mk. exact Hmi.
  - intros k Hk. rewrite Mk. apply Hmk. exact Hk.
Qed.

Lemma MInvE_clear_arch cis s hs al x m s' out :
  MInvE cis s hs al x -> within (length hs) -> mok m -> step s (OClearArch m []) = Ok (s', out) ->
  out = RNone /\ exists al', MInvE cis s' hs al' (x_step_in x (XoClearArch m [])).
Proof.
  intros HE Hb Hm H. rewrite step_clear_arch in H. bd H r Hga. destruct r as (s1, ai). cbv beta iota in H.
  bd H s2 Hc. inversion H; subst s' out; clear H. split; [reflexivity|].
  destruct (MInvE_get_arch _ _ _ _ _ _ _ _ HE Hm Hga) as (HE1 & _ & _ & a & Ha & Em).
  destruct (MInvE_clear_idx _ _ _ _ _ _ _ _ HE1 Hb Ha Hc) as (_ & al' & HE2). rewrite Em in HE2. eauto.
Qed.

(* ---------------------------------------------------------------------------------------- *)
(* clear(): every archetype in index order *)
Definition xctl (x : xst) := (x_lock x, x_deps x, x_cinfos x, x_count x, x_marked x).
Definition emp (s : mst) (j : nat) : Prop := exists a, nth_error (archs s) j = Some a /\ am_ents a = [].

Lemma clear_fold cis hs : forall l s al x s',
  MInvE cis s hs al x -> within (length hs) -> (forall j, In j l -> j < length (archs s)) ->
  fold_res clear_archetype l s = Ok s' ->
  exists al' x', MInvE cis s' hs al' x' /\ xctl x' = xctl x /\ length (archs s') = length (archs s) /\
    (forall j, In j l \/ emp s j -> emp s' j).
Proof.
  induction l as [|ai t IH]; intros s al x s' HE Hb Hl H; simpl in H.
  - inversion H; subst s'. exists al, x. split; [exact HE|]. split; [reflexivity|]. split; [reflexivity|]. intros j [[]|Hj]. exact Hj.
  - bd H s1 H1. assert (Hai : ai < length (archs s)) by (apply Hl; left; reflexivity).
    destruct (nth_error (archs s) ai) as [a|] eqn:Ha; [|apply nth_error_None in Ha; lia].
    destruct (MInvE_clear_idx _ _ _ _ _ _ _ _ HE Hb Ha H1) as (A1 & al1 & HE1).
    assert (Hlen1 : length (archs s1) = length (archs s)) by (rewrite A1; apply upd_length).
    destruct (IH s1 al1 _ s' HE1 Hb) as (al' & x' & HE' & Hx' & Hlen' & Hemp); [|exact H|].
    { intros j Hj. rewrite Hlen1. apply Hl. right. exact Hj. }
    exists al', x'. split; [exact HE'|]. split; [rewrite Hx'; reflexivity|]. split; [congruence|].
    intros j Hj. apply Hemp.
    destruct (Nat.eq_dec j ai) as [->|Hne].
    + right. eexists. split; [rewrite A1; apply nth_error_upd_same; exact Hai|reflexivity].
    + destruct Hj as [[E|Hj]|(a0 & Ha0 & He0)]; [congruence|left; exact Hj|].
      right. exists a0. split; [rewrite A1, nth_error_upd_other by congruence; exact Ha0|exact He0].
Qed.

Lemma step_clear s : step s OClear = (do s1 <- clear_all s; Ok (s1, RNone)).
Proof. reflexivity. Qed.

Lemma MInvE_clear cis s hs al x s' out :
  MInvE cis s hs al x -> within (length hs) -> step s OClear = Ok (s', out) ->
  out = RNone /\ exists al', MInvE cis s' hs al' (x_step_in x XoClear).
Proof.
  intros HE Hb H. rewrite step_clear in H. bd H s1 Hc. inversion H; subst s' out; clear H. split; [reflexivity|].
  unfold clear_all in Hc.
  destruct (clear_fold cis hs (seq 0 (length (archs s))) s al x s1 HE Hb) as (al' & x' & HE' & Hx' & Hlen & Hemp); [|exact Hc|].
  { intros j Hj. apply in_seq in Hj. lia. }
  pose proof HE' as [HI' HM' Hw' Hmi' Hml' Hmk'].
  assert (Hnone : forall k, find_ent x' k = None).
  { intros k. apply alive_x_false. destruct (alive_x x' k) eqn:E; [exfalso|reflexivity].
    apply (mi_alive _ _ _ _ _ HI') in E. destruct (alive_in _ _ E) as (key & Hin).
    destruct (live_m _ _ _ _ _ (mi_G _ _ _ _ _ HI') Hin) as (_ & ai & idx & a & _ & Ha & _ & Hent).
    assert (Hai : ai < length (archs s)) by (rewrite <- Hlen; apply nth_error_Some; congruence).
    destruct (Hemp ai) as (a0 & Ha0 & He0); [left; apply in_seq; lia|].
    rewrite Ha in Ha0. inversion Ha0; subst a0. rewrite He0 in Hent. destruct idx; discriminate. }
  unfold xctl in Hx'. inversion Hx' as [[X1 X2 X3 X4 X5]].
  exists al'. unfold x_step_in. constructor.
  - eapply MInv_ext2; [exact HI'| | | | |]; simpl; try congruence. intros k. rewrite Hnone. reflexivity.
  - exact HM'.
  - destruct Hw' as (A & B & _ & _). split; [simpl; congruence|]. split; [simpl; congruence|]. simpl. split; [constructor|intros e []].
  - exact Hmi'.
  - intros k Hk. simpl in Hk. rewrite <- X5 in Hk. apply Hml'. exact Hk.
  - intros k Hk. simpl. rewrite <- X5. apply Hmk'. exact Hk.
Qed.
