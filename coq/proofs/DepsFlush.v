(* C13 / C05: the flush at the outermost unlock WITH a dependency table.  The invariant of the locked refinement
   (ManagerLInv.LInv, which bakes in "no dependencies") is transported along "erase the table" (DepsInv.nd / xnd): the
   structural primitives commute with the erasure (DepsFrame.v), only getArchetype reads the table, and asking the
   erased state for the CLOSED set finds the same archetype.  What is new is the pack: one final mask closed once
   (DepsPack.pack_loop_sim_d) under the condition DepsAlgebra.run_ok on the commands of the pack. *)
Require Import Coq.Lists.List Coq.NArith.NArith Coq.ZArith.ZArith Coq.Arith.Arith Coq.Bool.Bool Coq.micromega.Lia.
From Mustache Require Import Res Manager MgrSpec Refine.
From Mustache Require Skeleton.
From Mustache Require Import SkelSpec.
From Mustache.proofs Require Import ListLemmas SkelBasics SkelInv SkelSteps SkelRefine SkelLocked SkelFlush SkelMove SkelMoveRem ClosureProofs
  ManagerBasics ManagerMoves ManagerProj ManagerInv ManagerMain ManagerLInv ManagerPack ManagerFlush ManagerLocked
  DepsFrame DepsClosure DepsInv DepsTotal DepsAlgebra DepsPack.
From Mustache.proofs Require ManagerDeferred.
Import ListNotations.

(* ---------------------------------------------------------------------------------------- *)
(* frames of a state and of the state with its table erased *)
Lemma sd_nd_id s : sd (deps s) (nd s) = s.
Proof. destruct s; reflexivity. Qed.
Lemma fr1_sd d s : fr1 (sd d s) = sd d (fr1 s). Proof. reflexivity. Qed.
Lemma fr2_sd d s : fr2 (sd d s) = sd d (fr2 s). Proof. reflexivity. Qed.
Lemma fr4_sd d s : fr4 (sd d s) = sd d (fr4 s). Proof. reflexivity. Qed.

Lemma fr1_of_nd a b : fr1 (nd a) = fr1 (nd b) -> deps a = deps b -> fr1 a = fr1 b.
Proof. intros F D. rewrite <- (sd_nd_id a), <- (sd_nd_id b), !fr1_sd, F, D. reflexivity. Qed.
Lemma fr2_of_nd a b : fr2 (nd a) = fr2 (nd b) -> deps a = deps b -> fr2 a = fr2 b.
Proof. intros F D. rewrite <- (sd_nd_id a), <- (sd_nd_id b), !fr2_sd, F, D. reflexivity. Qed.
Lemma fr4_of_nd a b : fr4 (nd a) = fr4 (nd b) -> deps a = deps b -> fr4 a = fr4 b.
Proof. intros F D. rewrite <- (sd_nd_id a), <- (sd_nd_id b), !fr4_sd, F, D. reflexivity. Qed.

(* ---------------------------------------------------------------------------------------- *)
(* the invariant of the locked refinement with a table *)
Definition keysok (d : list (nat * mask)) (al : list (nat * N)) : Prop := forall k key, In (k, key) al -> closed d key /\ lowm key.
Definition remlow (rem : list scmd) : Prop := forall k key, In (SCreate k key) rem -> lowm key.

Record DLI (cis : list cinfo) (s : mst) (hs : list handle) (al : list (nat * N)) (rem : list scmd) (x : xst) : Prop := {
  dl_L : LInv cis (nd s) hs al rem (xnd x);
  dl_deps : deps s = x_deps x;
  dl_dwf : dwf (deps s);
  dl_keys : keysok (deps s) al;
  dl_rem : remlow rem
}.

Record DFInv (cis : list cinfo) (s : mst) (hs : list handle) (x : xst) (rem : list scmd) : Prop := {
  df_inv : exists al, DLI cis s hs al rem x;
  df_created : NoDup (created rem);
  df_mr : MR hs (marked s) (x_marked x);
  df_ids : forall h, In h hs -> N.to_nat (fst h) < length hs
}.

(* ---------------------------------------------------------------------------------------- *)
(* the write loop commutes with the erasure *)
Lemma wr_step_sd d tid h ai a idx st c : wr_step tid h ai a idx (sd d st) c = rmap (sd d) (wr_step tid h ai a idx st c).
Proof.
  destruct c as [h' ha m sh|h'|h'|h' c|h' cid n]; try reflexivity. unfold wr_step. rewrite info_of_sd. apply bind_same. intros inf.
  destruct (cindex (am_mask a) cid) as [ci|]; [|reflexivity]. cbn [sd set_deps tmps epoch].
  apply bind_same. intros tl0. apply bind_same. intros v. apply (bind_comm (sd d)); [apply write_cell_sd|]. intros st1.
  destruct (ci_mctor inf && ci_ev inf), (ci_aa inf); reflexivity.
Qed.

Lemma wr_fold_nd tid h ai a idx p s5 s6 : fold_res (wr_step tid h ai a idx) p s5 = Ok s6 ->
  fold_res (wr_step tid h ai a idx) p (nd s5) = Ok (nd s6) /\ deps s6 = deps s5.
Proof.
  intros H. split.
  - unfold nd. rewrite (fold_res_sd [] (wr_step tid h ai a idx)); [rewrite H; reflexivity|]. intros st c. apply wr_step_sd.
  - apply (comm_deps (fun st => fold_res (wr_step tid h ai a idx) p st)); [|exact H]. intros d0. apply fold_res_sd. intros st c. apply wr_step_sd.
Qed.

Lemma wr_do_asg tid h ai a5 tl p s5 s6 : nth_error (archs s5) ai = Some a5 ->
  (do l <- nth_res (locs s5) (N.to_nat (fst h)); do a <- nth_res (archs s5) ai; fold_res (wr_step tid h ai a (l_idx l)) p s5) = Ok s6 ->
  forall c, is_some (last_asg tl p c) = true -> mhas (am_mask a5) c = true.
Proof.
  intros Ha H. bd H l Hl. rewrite (nth_res_some _ _ _ Ha), bind_Ok in H. eapply wr_fold_asg. exact H.
Qed.

Lemma finish_write_d cis tid tl h s5 hs al rem x5 k key ai a5 idx p e' s6 :
  LInv cis (nd s5) hs al rem x5 -> In (k, key) al -> hnd hs k = h ->
  nth_error (archs s5) ai = Some a5 -> nth_error (am_ents a5) idx = Some h ->
  nth_error (locs s5) (N.to_nat (fst h)) = Some {| l_arch := Some ai; l_idx := idx |} ->
  nth_error (tmps s5) tid = Some tl -> Forall asg_ok p ->
  e_k e' = k -> map fst (e_comps e') = mitems (am_mask a5) -> e_shared e' = [] ->
  (forall c v, In (c, v) (e_comps e') -> match last_asg tl p c with Some w => v = w | None => cell_le v (acell a5 c idx) = true end) ->
  (do l <- nth_res (locs s5) (N.to_nat (fst h)); do a <- nth_res (archs s5) ai; fold_res (wr_step tid h ai a (l_idx l)) p s5) = Ok s6 ->
  LInv cis (nd s6) hs al rem (xput x5 e') /\ fr1 s6 = fr1 s5 /\ deps s6 = deps s5.
Proof.
  intros HI Hin Eh Ha Hent Hloc Htl Hp Hek Hkeys Hsh Hvals H.
  rewrite (nth_res_some _ _ _ Hloc), bind_Ok, (nth_res_some _ _ _ Ha), bind_Ok in H. simpl l_idx in H.
  destruct (wr_fold_nd _ _ _ _ _ _ _ _ H) as (Hn & Hd).
  destruct (finish_write cis tid tl h (nd s5) hs al rem x5 k key ai a5 idx p e' (nd s6) HI Hin Eh Ha Hent Hloc Htl Hp Hek Hkeys Hsh Hvals) as (HI6 & F6).
  - change (locs (nd s5)) with (locs s5). change (archs (nd s5)) with (archs s5).
    rewrite (nth_res_some _ _ _ Hloc), bind_Ok, (nth_res_some _ _ _ Ha), bind_Ok. simpl l_idx. exact Hn.
  - split; [exact HI6|]. split; [apply fr1_of_nd; assumption|exact Hd].
Qed.

(* the erased state: the same fields but the table *)
Lemma nd_fields s : slots (nd s) = slots s /\ locs (nd s) = locs s /\ archs (nd s) = archs s /\ cinfos (nd s) = cinfos s /\
  tmps (nd s) = tmps s /\ marked (nd s) = marked s /\ deps (nd s) = [].
Proof. repeat split. Qed.

Lemma keysok_retag d al k key : keysok d al -> closed d key -> lowm key -> keysok d (retag al k key).
Proof.
  intros H Hc Hl k' key' Hin. apply retag_in in Hin. destruct Hin as [(_ & -> & _)|(_ & Hin)]; [split; assumption|apply (H k' key' Hin)].
Qed.

Lemma keysok_kill d al k : keysok d al -> keysok d (kill al k).
Proof. intros H k' key' Hin. apply kill_in in Hin. apply (H k' key'). tauto. Qed.

Lemma keysok_app d al k key : keysok d al -> closed d key -> lowm key -> keysok d (al ++ [(k, key)]).
Proof.
  intros H Hc Hl k' key' Hin. apply in_app_or in Hin. destruct Hin as [Hin|[E|[]]]; [apply (H k' key' Hin)|]. inversion E; subst. split; assumption.
Qed.

(* ---------------------------------------------------------------------------------------- *)
(* a pack on an entity that exists already (or a handle that is not alive any more) *)
Lemma F_pack_other_d cis tid tl s hs x k h c0 t xp rem' s' :
  DFInv cis s hs x rem' -> within (length hs) -> nth_error (tmps s) tid = Some tl ->
  k < length hs -> hnd hs k = h ->
  Forall2 (crel cis hs tl) (c0 :: t) xp -> Forall (fun c => cmd_handle c = h) (c0 :: t) -> Forall (fun c => is_create c = false) (c0 :: t) ->
  run_ok (x_deps x) [] xp = true ->
  x_viol (fold_left x_cmd xp x) = x_viol x ->
  apply_pack tid s (c0 :: t) = Ok s' ->
  DFInv cis s' hs (fold_left x_cmd xp x) rem' /\ fr4 s' = fr4 s.
Proof.
  intros [(al & [HI Hdeps Hdwf Hko Hrl]) Hcr Hmr Hids] Hb Htl Hk Eh HR Hall Hnc Hrun Hviol H.
  pose proof HI as [HG Hawf0 Hdp Hc0' Hxd0 Hxc0 Hcnt0 Hsl Hal Hv].
  assert (Hawf : Forall awf (archs s)) by exact Hawf0.
  assert (Hc : cinfos s = cis) by exact Hc0'.
  assert (Hxc : x_cinfos x = cis) by exact Hxc0.
  assert (Hcnt : x_count x = length hs) by exact Hcnt0.
  assert (Hd : dwf (x_deps x)) by (rewrite <- Hdeps; exact Hdwf).
  assert (Hc0 : cmd_handle c0 = h) by (inversion Hall; assumption).
  assert (Hc0c : is_create c0 = false) by (inversion Hnc; assumption).
  rewrite (apply_pack_other_eq _ _ _ _ Hc0c), Hc0 in H.
  pose proof (crel_on cis hs tl h k (g_hs_nodup HG) Hk Eh _ _ HR Hall Hnc) as Hon.
  destruct (is_valid s h) eqn:Ev.
  2:{ (* not alive: the pack is skipped and its commands mean nothing *)
      inversion H; subst s'. rewrite <- Eh in Ev. assert (Hfd : find_ent x k = None) by exact (dead_find_l _ _ _ _ _ _ _ HI Hk Ev).
      rewrite (x_fold_dead k xp x Hon Hfd). split; [constructor; try assumption; exists al; constructor; assumption|reflexivity]. }
  rewrite <- Eh in Ev. destruct (valid_find_l _ _ _ _ _ _ _ HI Ev) as (_ & Ha & _). destruct (alive_in _ _ Ha) as (key & Hin).
  destruct (live_vmatch_l _ _ _ _ _ _ _ _ HI Hin) as (_ & e0 & pai & pidx & pa & Hfe0 & Hloc0 & Hpa0 & Hkey & Hent & Hvm).
  assert (Hfe : find_ent x k = Some e0) by exact Hfe0.
  assert (Hloc : nth_error (locs s) (N.to_nat (fst (hnd hs k))) = Some {| l_arch := Some pai; l_idx := pidx |}) by exact Hloc0.
  assert (Hpa : nth_error (archs s) pai = Some pa) by exact Hpa0.
  destruct (Hko k key Hin) as (Hclk & Hlowk). rewrite Hdeps in Hclk.
  rewrite Eh in Hloc, Hent.
  rewrite (loc_arch_some _ _ _ _ Hloc), bind_Ok in H. simpl fst in H. rewrite (nth_res_some _ _ _ Hpa), bind_Ok in H.
  bd H r Hloop. destruct r as (((s3, final), assigned), fin).
  destruct Hvm as (Hkeys0 & Hsh0 & Hvals0).
  destruct (pack_loop_sim_d cis (x_deps x) hs tl false h k Hd (g_hs_nodup HG) Hk Eh (c0 :: t) xp s (am_mask pa) 0%N s3 final assigned fin x e0 (am_mask pa) []
              HR Hall Hnc eq_refl Hxc Hfe Hkeys0) as (Hsame & m' & Hm' & Hff & Hft);
    [rewrite Hkey; exact Hlowk|rewrite Hkey; exact Hclk|apply sub_refl|rewrite munion_zero; apply cl_ext; exact Hd|intros y Hy; left; exact Hy|exact Hrun|exact Hmr|exact Hviol|exact Hloop|].
  set (x' := fold_left x_cmd xp x) in *.
  destruct Hsame as (Fm & Hoth). destruct (xfm_fields _ _ Fm) as (Y1 & Y2 & Y3 & Y4 & Y5 & Y6 & Y7).
  assert (HIm : LInv cis (nd (set_marked s m')) hs al rem' (xnd x)) by (eapply LInv_frame; [| | | | | | |exact HI]; reflexivity).
  assert (Hawfm : Forall awf (archs (set_marked s m'))) by exact Hawf.
  destruct fin.
  - (* destroyed by the pack *)
    destruct (Hft eq_refl) as (Hdn & Hdead). inversion H; subst s3; clear H. rewrite <- Eh in Hdn.
    assert (Hdn' : destroy_now_unlocked (nd (set_marked s m')) (hnd hs k) = Ok (nd s')).
    { unfold nd. rewrite destroy_now_unlocked_sd, (rmap_ok _ _ _ Hdn). reflexivity. }
    destruct (LInv_destroy_now cis _ hs al rem' (xnd x) k _ HIm Hb Hk Hdn') as (HI' & _ & _).
    destruct (destroy_now_fr _ _ _ Hawfm Hdn) as (F' & M' & _).
    pose proof (destroy_now_deps _ _ _ Hdn) as Hdp'. simpl in Hdp'.
    destruct (x_kill_eq (xnd x) k) as (_ & Hfk).
    split; [constructor|rewrite F'; apply fr4_set_marked].
    + exists (kill al k). constructor.
      * eapply LInv_ext; [exact HI'| | | |].
        -- unfold x_kill. destruct (find_ent (xnd x) k); reflexivity.
        -- unfold x_kill. destruct (find_ent (xnd x) k); simpl; congruence.
        -- unfold x_kill. destruct (find_ent (xnd x) k); simpl; congruence.
        -- intros k'. rewrite Hfk. destruct (Nat.eqb_spec k' k) as [->|Hne]; [exact Hdead|apply Hoth; exact Hne].
      * congruence.
      * rewrite Hdp'. exact Hdwf.
      * rewrite Hdp'. apply keysok_kill. exact Hko.
      * exact Hrl.
    + exact Hcr.
    + rewrite M'. exact Hm'.
    + exact Hids.
  - destruct (Hff eq_refl) as (Es3 & e' & sm' & He' & Hk' & Hl' & Hc' & Hfs & Hsc' & Hsh' & Has & Hfin & HK & Hvals). subst s3.
    destruct (awf_nth _ _ _ Hawf Hpa) as (Wsh & _). rewrite Wsh in H.
    bd H ra Hga. destruct ra as (s4, ai). cbv beta iota in H. bd H s5 Hmv.
    destruct (get_arch_ex _ _ _ _ _ Hga) as (exm & Hex).
    assert (HclT : closure (x_deps x) final = munion final exm).
    { rewrite <- Hdeps. apply (closure_eq (set_marked s m') final exm); [exact Hdwf|exact Hex]. }
    remember (munion final exm) as T eqn:EqT in *.
    assert (Hga' : get_arch (nd (set_marked s m')) T si_null = Ok (nd s4, ai)) by (rewrite EqT; apply get_arch_nd; assumption).
    pose proof (get_arch_deps _ _ _ _ _ Hga) as Hdp4. simpl in Hdp4.
    destruct (LInv_get_arch cis _ hs al rem' (xnd x) T _ ai HIm Hga') as (HI4 & F4 & Hkeep & a_t & Hat0 & Hmt).
    assert (Hat : nth_error (archs s4) ai = Some a_t) by exact Hat0.
    assert (Hpa4 : nth_error (archs s4) pai = Some pa) by (apply (Hkeep pai pa); exact Hpa).
    assert (Hloc4 : nth_error (locs s4) (N.to_nat (fst h)) = Some {| l_arch := Some pai; l_idx := pidx |}).
    { pose proof (fr1_locs _ _ F4) as E. simpl in E. rewrite E. exact Hloc. }
    assert (Htl4 : nth_error (tmps s4) tid = Some tl) by (pose proof (fr1_tmps _ _ F4) as E; simpl in E; rewrite E; exact Htl).
    assert (Hek' : e_k e' = k) by (apply (findk_key _ _ _ He')).
    assert (Hasg : Forall asg_ok (c0 :: t)) by (eapply crel_asg_ok; exact HR).
    assert (Hm4 : marked s4 = m') by (pose proof (fr3_marked _ _ (fr2_fr3 _ _ (fr1_fr2 _ _ F4))) as E; exact E).
    assert (Ff4 : fr4 s4 = fr4 s).
    { rewrite <- (fr4_set_marked s m'). apply fr4_of_nd; [apply fr1_fr4; exact F4|exact Hdp4]. }
    assert (Has0 : forall c, mhas assigned c = is_some (last_asg tl (c0 :: t) c)) by (intros c; rewrite Has, mhas_zero; reflexivity).
    assert (Hsets : forall a5, am_mask a5 = T -> (forall c, is_some (last_asg tl (c0 :: t) c) = true -> mhas (am_mask a5) c = true) -> sm' = T).
    { intros a5 Em5 Hin5. apply (final_sets_equal (x_deps x) final assigned sm' T Hd Hc' Hfs Hsc'); [symmetry; exact HclT|].
      intros c Hc5. rewrite <- Em5. apply Hin5. rewrite <- Has0. exact Hc5. }
    assert (Hshe : e_shared e' = []) by congruence.
    assert (Hextx : forall al5 s6 x5, LInv cis (nd s6) hs al5 rem' (xput x5 e') -> x_deps x5 = [] -> x_cinfos x5 = cis -> x_count x5 = length hs ->
              (forall k', k' <> k -> find_ent x5 k' = find_ent x k') -> LInv cis (nd s6) hs al5 rem' (xnd x')).
    { intros al5 s6 x5 HI6 Z1 Z2 Z3 Z4. eapply LInv_ext; [exact HI6|simpl; congruence|simpl; congruence|simpl; congruence|].
      intros k'. rewrite xput_find, Hek'. destruct (Nat.eqb_spec k' k) as [->|Hne]; [exact He'|].
      change (find_ent (xnd x') k') with (find_ent x' k'). rewrite (Hoth k' Hne), (Z4 k' Hne). reflexivity. }
    (* the pack leaves the entity in its archetype: the assigned values are written in place *)
    assert (Hinplace : s5 = s4 -> am_mask pa = T -> ai = pai -> DFInv cis s' hs x' rem' /\ fr4 s' = fr4 s).
    { intros -> ET ->.
      assert (EsT : sm' = T) by (apply (Hsets pa ET); apply (wr_do_asg tid h pai pa tl _ s4 s' Hpa4 H)).
      destruct (finish_write_d cis tid tl h s4 hs al rem' (xnd x) k key pai pa pidx (c0 :: t) e' s' HI4 Hin Eh Hpa4 Hent Hloc4 Htl4 Hasg Hek')
        as (HI6 & F6 & D6); [rewrite ET, <- EsT; exact Hk'|exact Hshe| |exact H|].
      { intros c v Hcv. specialize (Hvals c v Hcv). destruct (last_asg tl (c0 :: t) c); [exact Hvals|].
        destruct Hvals as [A|(A & _)]; [apply Hvals0; exact A|]. exfalso.
        destruct (keys_has _ _ _ _ Hk' Hcv) as (B & _). rewrite EsT, <- ET in B. congruence. }
      split; [constructor|rewrite (fr1_fr4 _ _ F6); exact Ff4].
      * exists al. constructor.
        -- apply (Hextx al s' (xnd x) HI6 eq_refl Hxc Hcnt). reflexivity.
        -- congruence.
        -- rewrite D6, Hdp4. exact Hdwf.
        -- rewrite D6, Hdp4. exact Hko.
        -- exact Hrl.
      * exact Hcr.
      * rewrite (fr3_marked _ _ (fr2_fr3 _ _ (fr1_fr2 _ _ F6))), Hm4. exact Hm'.
      * exact Hids. }
    assert (Hsame_arch : am_mask pa = T -> ai = pai).
    { intros ET. pose proof (g_arch_keys (li_G _ _ _ _ _ _ HI4)) as Hndk. simpl in Hndk.
      apply (arch_key_index _ ai pai (parch a_t) (parch pa) Hndk); [apply map_nth_error; exact Hat|apply map_nth_error; exact Hpa4|simpl; congruence]. }
    destruct (N.eqb_spec (am_mask pa) final) as [Emf|Emf]; simpl negb in Hmv; cbv iota in Hmv.
    + (* the raw final mask is the entity's own (closed) set *)
      inversion Hmv; subst s5; clear Hmv.
      assert (ET : am_mask pa = T).
      { rewrite <- HclT, <- Emf. symmetry. apply cl_fix; [exact Hd|rewrite Hkey; exact Hclk]. }
      apply Hinplace; [reflexivity|exact ET|apply Hsame_arch; exact ET].
    + rewrite (loc_arch_some _ _ _ _ Hloc4), bind_Ok in Hmv. simpl fst in Hmv. simpl snd in Hmv.
      destruct (Nat.eqb_spec pai ai) as [<-|Hnai].
      { (* the closure of the final mask is the entity's own set again (a dependent of a master that stays was removed) *)
        inversion Hmv; subst s5; clear Hmv. rewrite Hpa4 in Hat. inversion Hat; subst a_t. apply Hinplace; [reflexivity|exact Hmt|reflexivity]. }
      (* the entity moves to the archetype of the closed final set *)
      rewrite <- Eh in Hmv, Hloc4, Hent.
      assert (Hmv' : external_move (nd s4) ai (hnd hs k) pai pidx final = Ok (nd s5)).
      { unfold nd. rewrite external_move_sd, (rmap_ok _ _ _ Hmv). reflexivity. }
      pose proof (external_move_deps _ _ _ _ _ _ _ Hmv) as Hdp5.
      remember {| e_k := k;
                  e_comps := map (fun c => (c, if mhas (am_mask pa) c || mhas final c then None else default_cell cis c)) (mitems T);
                  e_shared := [] |} as e_new eqn:Een.
      assert (Hkn : map fst (e_comps e_new) = mitems T) by (rewrite Een, e_comps_mk; apply map_fst_pair).
      destruct (LInv_move cis (nd s4) hs al rem' (xnd x) k key ai a_t pai pidx pa final (nd s5) e_new HI4 Hin) as (HI5 & F5 & a2 & Ha20 & Em2 & Hent2 & Hloc20 & Hcopy);
        [rewrite Een; reflexivity|exact Hloc4|exact Hpa4|exact Hent|exact Hat|exact Hmv'| |].
      { intros a2 Em2 Hcells. split; [rewrite Hkn, Em2, Hmt; reflexivity|]. split; [rewrite Een; reflexivity|].
        intros c v Hcv. rewrite Een, e_comps_mk in Hcv. apply in_map_iff in Hcv. destruct Hcv as (c1 & E & Hc1). inversion E; subst c1 v; clear E.
        destruct (mhas (am_mask pa) c || mhas final c) eqn:Eo; [reflexivity|]. apply orb_false_iff in Eo. destruct Eo as (Eo1 & Eo2).
        rewrite <- Hmt in Hc1. apply In_nth_error in Hc1. destruct Hc1 as (ci & Hci).
        unfold acell. rewrite Em2, (nth_cindex _ _ _ Hci). apply (proj2 (Hcells ci c Hci)); [apply cindex_none_has; exact Eo1|exact Eo2]. }
      assert (Ha2 : nth_error (archs s5) ai = Some a2) by exact Ha20.
      assert (Hloc2 : nth_error (locs s5) (N.to_nat (fst (hnd hs k))) = Some {| l_arch := Some ai; l_idx := length (am_ents a_t) |}) by exact Hloc20.
      assert (EsT : sm' = T).
      { apply (Hsets a2); [congruence|]. rewrite Eh in Hloc2. apply (wr_do_asg tid h ai a2 tl _ s5 s' Ha2 H). }
      assert (Hin5 : In (k, am_mask a_t) (retag al k (am_mask a_t))) by (eapply retag_same; exact Hin).
      (* the cells of the entity in its new archetype, read back through the invariant *)
      destruct (live_vmatch_l _ _ _ _ _ _ _ _ HI5 Hin5) as (_ & en & ai5 & idx5 & a5 & Hfen & Hl5 & Ha5 & _ & _ & Hvm5).
      rewrite xput_find in Hfen. rewrite Een in Hfen at 1. rewrite e_k_mk, Nat.eqb_refl in Hfen. inversion Hfen; subst en; clear Hfen.
      rewrite Hloc20 in Hl5. inversion Hl5; subst ai5 idx5; clear Hl5. rewrite Ha20 in Ha5. inversion Ha5; subst a5; clear Ha5.
      destruct Hvm5 as (_ & _ & Hvn).
      rewrite Eh in Hent2, Hloc2.
      assert (Htl5 : nth_error (tmps s5) tid = Some tl).
      { destruct (fr4_fields _ _ (fr2_fr4 _ _ F5)) as (_ & _ & _ & _ & _ & _ & T5 & _). simpl in T5. congruence. }
      destruct (finish_write_d cis tid tl h s5 hs _ rem' (xput (xnd x) e_new) k (am_mask a_t) ai a2 (length (am_ents a_t)) (c0 :: t) e' s'
                  HI5 Hin5 Eh Ha2 Hent2 Hloc2 Htl5 Hasg Hek')
        as (HI6 & F6 & D6); [rewrite Em2, Hmt, <- EsT; exact Hk'|exact Hshe| |exact H|].
      { intros c v Hcv. pose proof (Hvals c v Hcv) as Hv'. pose proof (Hfin c) as Hfc.
        destruct (last_asg tl (c0 :: t) c) eqn:Ela; [exact Hv'|].
        destruct Hv' as [A|(A & B)].
        - pose proof (Hvals0 c v A) as Hle.
          assert (Hip : In c (mitems (am_mask pa))) by (rewrite <- Hkeys0; apply in_map_iff; exists (c, v); auto).
          assert (Hit : In c (mitems (am_mask a_t))) by (rewrite Hmt, <- EsT, <- Hk'; apply in_map_iff; exists (c, v); auto).
          apply In_nth_error in Hip. destruct Hip as (pci & Hpci). apply In_nth_error in Hit. destruct Hit as (ci & Hci).
          unfold acell in *. rewrite Em2, (nth_cindex _ _ _ Hci). rewrite (nth_cindex _ _ _ Hpci) in Hle.
          rewrite (Hcopy ci c Hci pci (nth_cindex _ _ _ Hpci)). exact Hle.
        - subst v. apply Hvn. rewrite Een, e_comps_mk. apply in_map_iff. exists c. split.
          + rewrite A. destruct (mhas final c) eqn:Ef; [|reflexivity]. exfalso. destruct (Hfc eq_refl) as [C|C]; [congruence|discriminate].
          + rewrite <- EsT, <- Hk'. apply in_map_iff. exists (c, default_cell cis c). auto. }
      assert (Hdps : deps s' = deps s) by congruence.
      split; [constructor|].
      * exists (retag al k (am_mask a_t)). constructor.
        -- apply (Hextx _ s' (xput (xnd x) e_new) HI6 eq_refl Hxc Hcnt). intros k' Hne. rewrite xput_find. rewrite Een at 1. rewrite e_k_mk.
           apply Nat.eqb_neq in Hne. rewrite Hne. reflexivity.
        -- congruence.
        -- rewrite Hdps. exact Hdwf.
        -- rewrite Hdps. apply keysok_retag; [exact Hko| |].
           ++ rewrite Hmt, Hdeps, <- HclT. apply cl_closed. exact Hd.
           ++ rewrite Hmt, <- EsT. exact Hl'.
        -- exact Hrl.
      * exact Hcr.
      * rewrite (fr3_marked _ _ (fr2_fr3 _ _ (fr1_fr2 _ _ F6))).
        pose proof (fr3_marked _ _ (fr2_fr3 _ _ F5)) as E5. simpl in E5. rewrite E5, Hm4. exact Hm'.
      * exact Hids.
      * rewrite (fr1_fr4 _ _ F6). rewrite <- Ff4. apply fr4_of_nd; [apply fr2_fr4; exact F5|exact Hdp5].
Qed.

(* ---------------------------------------------------------------------------------------- *)
(* a pack that begins with the creation of its entity: the recorded mask is closed when the pack is applied, the final
   mask once more *)
Lemma F_pack_create_d cis tid tl s hs x k m ha sh h t xt rem' s' :
  DFInv cis s hs x (SCreate k m :: rem') -> cis_ok cis -> nth_error (tmps s) tid = Some tl ->
  k < length hs -> hnd hs k = h -> sh = si_null -> ha = negb (m =? 0)%N ->
  Forall2 (crel cis hs tl) t xt -> Forall (fun c => cmd_handle c = h) t -> Forall (fun c => is_create c = false) t ->
  run_ok (x_deps x) [] xt = true ->
  x_viol (fold_left x_cmd xt (x_cmd x (XCreate k m []))) = x_viol x ->
  apply_pack tid s (ACreate h ha m sh :: t) = Ok s' ->
  DFInv cis s' hs (fold_left x_cmd xt (x_cmd x (XCreate k m []))) rem' /\ fr4 s' = fr4 s.
Proof.
  intros [(al & [HI Hdeps Hdwf Hko Hrl]) Hcr Hmr Hids] Hok Htl Hk Eh -> Eha HR Hall Hnc Hrun Hviol H.
  rewrite (x_cmd_create x k m []) in Hviol |- *.
  pose proof HI as [HG Hawf0 Hdp Hc0' Hxd0 Hxc0 Hcnt0 Hsl Hal Hv].
  assert (Hawf : Forall awf (archs s)) by exact Hawf0.
  assert (Hc : cinfos s = cis) by exact Hc0'.
  assert (Hxc : x_cinfos x = cis) by exact Hxc0.
  assert (Hcnt : x_count x = length hs) by exact Hcnt0.
  assert (Hd : dwf (x_deps x)) by (rewrite <- Hdeps; exact Hdwf).
  assert (Hlm : lowm m) by (apply (Hrl k m); left; reflexivity).
  remember (SCreate k m :: rem') as rem eqn:Erem.
  assert (Hpk : pend rem k) by (exists m; rewrite Erem; left; reflexivity).
  assert (Hcr2 : NoDup (k :: created rem')) by (rewrite Erem in Hcr; exact Hcr). inversion Hcr2 as [|x0 l0 Hknot Hcr']; subst x0 l0.
  assert (Hp : forall k', pend rem' k' <-> pend rem k' /\ k' <> k).
  { intros k'. rewrite Erem. split.
    - intros Hp'. split; [destruct Hp' as (key' & Hi'); exists key'; right; exact Hi'|]. intros ->. apply Hknot. apply created_in. exact Hp'.
    - intros ((key' & [E|Hi']) & Hne); [inversion E; congruence|exists key'; exact Hi']. }
  assert (Hrl' : remlow rem') by (intros k' key' Hi'; apply (Hrl k' key'); rewrite Erem; right; exact Hi').
  destruct (g_pend HG k Hpk) as (_ & Hna & Hv0 & _ & _).
  destruct h as [i v]. rewrite Eh in Hv0. simpl in Hv0. subst v.
  assert (Hfk0 : find_ent x k = None).
  { apply alive_x_false. destruct (alive_x x k) eqn:E; [|reflexivity]. exfalso. apply Hna. apply Hal. exact E. }
  (* the model *)
  rewrite apply_pack_create_eq in H. bd H s2 Hinst. bd H ex0 Hex0.
  assert (ET0 : (if ha then munion m ex0 else 0%N) = closure (x_deps x) m).
  { destruct ha.
    - rewrite <- Hdeps. symmetry. apply (closure_eq s m ex0 Hdwf Hex0).
    - symmetry in Eha. apply negb_false_iff in Eha. apply N.eqb_eq in Eha. subst m. symmetry. apply cl_zero. exact Hd. }
  assert (Esh0 : (if ha then si_null else si_null) = si_null) by (destruct ha; reflexivity).
  rewrite ET0, Esh0 in H. remember (closure (x_deps x) m) as T0 eqn:EqT0 in *.
  bd H r Hloop. destruct r as (((s3, final), assigned), fin).
  assert (Hlen : length (locs s) = length (slots s)).
  { pose proof (g_len HG) as E. simpl in E. rewrite !map_length in E. exact E. }
  destruct (minstall_facts s (i, 0%N) s2 Hlen Hinst) as (I1 & I2 & I3 & I4 & I5 & I6 & I7 & In2 & Ie2 & Ia2 & If2 & Im2).
  simpl fst in *. simpl snd in *.
  (* the specification *)
  destruct (x_create_dep x k m T0 Hlm (eq_sym EqT0)) as (Fx & Ex); [rewrite EqT0; apply cl_ext; exact Hd|]. rewrite Hxc in Ex.
  remember {| e_k := k; e_comps := map (fun c => (c, default_cell cis c)) (mitems T0); e_shared := [] |} as e0 eqn:Ee0 in *.
  remember (x_create x k m []) as x1 eqn:Ex1 in *.
  assert (Hf1 : forall k', find_ent x1 k' = if Nat.eqb k' k then Some e0 else find_ent x k').
  { intros k'. rewrite find_ent_findk, Ex, findk_put. rewrite Ee0 at 1. rewrite e_k_mk. reflexivity. }
  destruct (xfr_fields _ _ Fx) as (X1 & X2 & X3 & X4 & X5).
  assert (Hkeys0 : map fst (e_comps e0) = mitems T0) by (rewrite Ee0, e_comps_mk; apply map_fst_pair).
  assert (Hmr1 : MR hs (marked s2) (x_marked x1)).
  { rewrite Im2, Ex1, x_marked_create. exact Hmr. }
  assert (Hviol1 : x_viol (fold_left x_cmd xt x1) = x_viol x1) by (rewrite X5; exact Hviol).
  assert (HlT0 : lowm T0) by (rewrite EqT0; apply cl_low; assumption).
  assert (HcT0 : closed (x_deps x) T0) by (rewrite EqT0; apply cl_closed; exact Hd).
  destruct (pack_loop_sim_d cis (x_deps x) hs tl true (i, 0%N) k Hd (g_hs_nodup HG) Hk Eh t xt s2 T0 0%N s3 final assigned fin x1 e0 T0 [] HR Hall Hnc)
    as (Hsame & m' & Hm' & Hff & Hft);
    [exact X2|congruence|rewrite Hf1, Nat.eqb_refl; reflexivity|exact Hkeys0|exact HlT0|exact HcT0|apply sub_refl|rewrite munion_zero; apply cl_ext; exact Hd
    |intros y Hy; left; exact Hy|exact Hrun|exact Hmr1|exact Hviol1|exact Hloop|].
  remember (fold_left x_cmd xt x1) as x' eqn:Ex' in *.
  destruct Hsame as (Fm & Hoth). destruct (xfm_fields _ _ Fm) as (Y1 & Y2 & Y3 & Y4 & Y5 & Y6 & Y7).
  assert (Hi_lt : N.to_nat i < length (slots s2)) by (apply nth_error_Some; congruence).
  assert (Hslots_bound : length (slots s2) <= length hs).
  { rewrite I7. assert (Hin : In (i, 0%N) hs) by (rewrite <- Eh; apply nth_In_hnd; exact Hk). pose proof (Hids _ Hin) as Hb. simpl in Hb.
    assert (Hsl' : length (slots s) <= length hs) by exact Hsl. lia. }
  destruct (fr4_fields _ _ If2) as (_ & D2 & C2 & _ & _ & _ & T2 & _).
  assert (Hxd' : x_deps x' = x_deps x) by congruence.
  destruct fin.
  - (* destroyed in the same pack *)
    destruct (Hft eq_refl) as (Es3 & Hdead). inversion H; subst s'; clear H. subst s3.
    assert (Hb : (N.to_nat i <? length (slots s2)) = true) by (apply Nat.ltb_lt; exact Hi_lt).
    assert (HI' : LInv cis (nd (release_id (set_marked s2 m') (i, 0%N))) hs al rem' (xnd x)).
    { eapply (LInv_stillborn cis (nd s) _ hs al rem rem' (xnd x) k i HI Hpk Hp Eh); unfold nd, sd, release_id; simpl; rewrite ?Hb, ?upd_length.
      - exact I1.
      - exact I2.
      - exact Hslots_bound.
      - rewrite nth_error_upd_same by exact Hi_lt. rewrite Ie2, In2. reflexivity.
      - intros j Hj Hjl. rewrite nth_error_upd_other by congruence. apply I4; assumption.
      - intros j Hj H1 H2. rewrite nth_error_upd_other by congruence. apply I5; assumption.
      - reflexivity.
      - rewrite Ie2. reflexivity.
      - exact Ia2.
      - intros j _ Hj. apply I6. exact Hj.
      - reflexivity.
      - exact C2. }
    split; [constructor|].
    + exists al. constructor.
      * eapply LInv_ext; [exact HI'|reflexivity|simpl; congruence|simpl; congruence|].
        intros k'. change (find_ent (xnd x') k') with (find_ent x' k'). change (find_ent (xnd x) k') with (find_ent x k').
        destruct (Nat.eq_dec k' k) as [->|Hne]; [congruence|]. rewrite (Hoth k' Hne), Hf1. apply Nat.eqb_neq in Hne. rewrite Hne. reflexivity.
      * unfold release_id. simpl. congruence.
      * unfold release_id. simpl. rewrite D2. exact Hdwf.
      * unfold release_id. simpl. rewrite D2. exact Hko.
      * exact Hrl'.
    + exact Hcr'.
    + unfold release_id. simpl. exact Hm'.
    + exact Hids.
    + rewrite fr4_release, fr4_set_marked. exact If2.
  - (* it enters the archetype of the closed final set *)
    destruct (Hff eq_refl) as (Es3 & e' & sm' & He' & Hk' & Hl' & Hc' & Hfs & Hsc' & Hsh' & Has & Hfin & HK & Hvals). subst s3.
    bd H ra Hga. destruct ra as (s4, ai). cbv beta iota in H. bd H s5 Hins.
    destruct (get_arch_ex _ _ _ _ _ Hga) as (exm & Hex).
    assert (HclT : closure (x_deps x) final = munion final exm).
    { rewrite <- Hdeps, <- D2. apply (closure_eq (set_marked s2 m') final exm); [simpl; rewrite D2; exact Hdwf|exact Hex]. }
    remember (munion final exm) as T eqn:EqT in *.
    assert (Hga' : get_arch (nd (set_marked s2 m')) T si_null = Ok (nd s4, ai)) by (rewrite EqT; apply get_arch_nd; assumption).
    pose proof (get_arch_deps _ _ _ _ _ Hga) as Hdp4. simpl in Hdp4.
    destruct (LInv_get_arch_indep cis (nd s) hs al rem (xnd x) (nd (set_marked s2 m')) T (nd s4) ai HI) as (F4 & sa & HIa & Ea4 & Fa & _ & a & Ha & Hma);
      [exact Ia2|reflexivity|exact Hga'|].
    assert (Ha4 : nth_error (archs s4) ai = Some a) by (change (archs s4) with (archs (nd s4)); rewrite Ea4; exact Ha).
    destruct (awf_nth _ _ _ (li_awf _ _ _ _ _ _ HIa) Ha) as (Wsh & Wsz & Wcl).
    destruct (arch_insert_ok _ _ _ _ _ _ Ha4 Wcl Hins) as (a3 & F5 & A5 & Hlt5 & L5 & Hab & He & Hz & Hcl & Hcells & Hdef).
    simpl fst in *.
    destruct (fr2_slots _ _ (fr1_fr2 _ _ F4)) as (S4 & N4 & E4). simpl in S4, N4, E4.
    pose proof (fr1_locs _ _ F4) as L4. simpl in L4.
    destruct (fr2_slots _ _ F5) as (S5 & N5 & E5).
    destruct (fr2_slots _ _ (fr1_fr2 _ _ Fa)) as (Sa & Na & Ea). simpl in Sa, Na, Ea. pose proof (fr1_locs _ _ Fa) as La. simpl in La.
    destruct (fr3_ctl _ _ (fr2_fr3 _ _ (fr1_fr2 _ _ Fa))) as (_ & Da & Ca & _). simpl in Da, Ca.
    destruct (fr3_ctl _ _ (fr2_fr3 _ _ F5)) as (_ & D5 & C5 & _).
    destruct (fr3_ctl _ _ (fr2_fr3 _ _ (fr1_fr2 _ _ F4))) as (_ & _ & C4 & _). simpl in C4.
    destruct (ab3_fields _ _ Hab) as (Em3 & _).
    remember {| e_k := k; e_comps := map (fun c => (c, @None Z)) (mitems T); e_shared := [] |} as e_ins eqn:Eei.
    assert (HI5 : LInv cis (nd s5) hs (al ++ [(k, am_mask a)]) rem' (xput (xnd x) e_ins)).
    { apply (LInv_activate cis sa (nd s5) hs al rem rem' (xnd x) k i ai a a3 e_ins HIa Hpk Hp Eh);
        cbn [nd sd set_deps slots locs next_slot empty_slots archs deps cinfos]; rewrite ?S5, ?S4, ?N5, ?N4, ?E5, ?E4, ?Sa, ?Na, ?Ea, ?La; try assumption.
      - rewrite L5, upd_length, L4. exact I1.
      - rewrite A5. change (archs s4) with (archs (nd s4)). rewrite Ea4. reflexivity.
      - rewrite L5, L4. apply nth_error_upd_same. rewrite L4 in Hlt5. exact Hlt5.
      - intros j Hj Hjl. rewrite L5, L4, nth_error_upd_other by congruence. apply I6. exact Hjl.
      - symmetry. exact Da.
      - congruence.
      - rewrite Eei. reflexivity.
      - split; [rewrite Eei, e_comps_mk, map_map, Em3, Hma; simpl; apply map_id|]. split; [rewrite Eei; reflexivity|].
        rewrite Eei, e_comps_mk. intros c v Hin. apply in_map_iff in Hin. destruct Hin as (c1 & E & _). inversion E; subst. reflexivity. }
    assert (Hin5 : In (k, am_mask a) (al ++ [(k, am_mask a)])) by (apply in_or_app; right; left; reflexivity).
    assert (Ha5 : nth_error (archs s5) ai = Some a3) by (rewrite A5; apply nth_error_upd_same; apply nth_error_Some; congruence).
    assert (Hent5 : nth_error (am_ents a3) (length (am_ents a)) = Some (i, 0%N)) by (rewrite He; apply nth_error_app_last).
    assert (Hloc5 : nth_error (locs s5) (N.to_nat i) = Some {| l_arch := Some ai; l_idx := length (am_ents a) |}).
    { rewrite L5. apply nth_error_upd_same. exact Hlt5. }
    assert (Htl5 : nth_error (tmps s5) tid = Some tl).
    { destruct (fr4_fields _ _ (fr2_fr4 _ _ F5)) as (_ & _ & _ & _ & _ & _ & T5 & _).
      destruct (fr4_fields _ _ (fr1_fr4 _ _ F4)) as (_ & _ & _ & _ & _ & _ & T4 & _). simpl in T4. congruence. }
    assert (Hek' : e_k e' = k) by (apply (findk_key _ _ _ He')).
    assert (Hp5 : Forall asg_ok (ACreate (i, 0%N) ha m si_null :: t)) by (constructor; [exact I|eapply crel_asg_ok; exact HR]).
    assert (EsT : sm' = T).
    { apply (final_sets_equal (x_deps x) final assigned sm' T Hd Hc' Hfs Hsc'); [symmetry; exact HclT|].
      intros c Hc5. rewrite <- Hma, <- Em3. apply (wr_do_asg tid (i, 0%N) ai a3 tl _ s5 s' Ha5 H). simpl last_asg.
      rewrite Has, mhas_zero in Hc5. exact Hc5. }
    destruct (finish_write_d cis tid tl (i, 0%N) s5 hs _ rem' (xput (xnd x) e_ins) k (am_mask a) ai a3 (length (am_ents a)) (ACreate (i, 0%N) ha m si_null :: t) e' s'
                HI5 Hin5 Eh Ha5 Hent5 Hloc5 Htl5 Hp5 Hek')
      as (HI6 & F6 & D6); [rewrite Em3, Hma, <- EsT; exact Hk'|rewrite Hsh', Ee0; reflexivity| |exact H|].
    { intros c v Hcv. specialize (Hvals c v Hcv). simpl last_asg. pose proof (Has c) as Hasc.
      destruct (last_asg tl t c) as [w|]; [exact Hvals|]. rewrite mhas_zero in Hasc. cbn [is_some orb] in Hasc.
      assert (Ev : v = default_cell cis c).
      { destruct Hvals as [A|(_ & A)]; [|exact A]. rewrite Ee0, e_comps_mk in A. apply in_default_comps in A. tauto. }
      subst v.
      assert (Hi : In c (mitems (am_mask a))).
      { rewrite Hma, <- EsT, <- Hk'. apply in_map_iff. exists (c, default_cell cis c). auto. }
      apply In_nth_error in Hi. destruct Hi as (ci & Hci).
      unfold acell. rewrite Em3, (nth_cindex _ _ _ Hci).
      destruct (nth_error cis c) as [inf|] eqn:Einf; [|unfold default_cell; rewrite Einf; reflexivity].
      apply (default_cell_ok cis c inf _ Hok Einf). apply (Hdef ci c inf Hci Hasc). congruence. }
    assert (Hdps : deps s' = deps s) by congruence.
    split; [constructor|].
    + exists (al ++ [(k, am_mask a)]). constructor.
      * eapply LInv_ext; [exact HI6|reflexivity|simpl; congruence|simpl; congruence|].
        intros k'. change (find_ent (xnd x') k') with (find_ent x' k'). rewrite !xput_find, Hek'. rewrite Eei at 1. rewrite e_k_mk.
        change (find_ent (xnd x) k') with (find_ent x k').
        destruct (Nat.eqb_spec k' k) as [->|Hne]; [exact He'|].
        rewrite (Hoth k' Hne), Hf1. apply Nat.eqb_neq in Hne. rewrite Hne. reflexivity.
      * congruence.
      * rewrite Hdps. exact Hdwf.
      * rewrite Hdps. apply keysok_app; [exact Hko| |].
        -- rewrite Hma, Hdeps, <- HclT. apply cl_closed. exact Hd.
        -- rewrite Hma, <- EsT. exact Hl'.
      * exact Hrl'.
    + exact Hcr'.
    + rewrite (fr3_marked _ _ (fr2_fr3 _ _ (fr1_fr2 _ _ F6))), (fr3_marked _ _ (fr2_fr3 _ _ F5)).
      pose proof (fr3_marked _ _ (fr2_fr3 _ _ (fr1_fr2 _ _ F4))) as E4'. simpl in E4'. rewrite E4'. exact Hm'.
    + exact Hids.
    + rewrite (fr1_fr4 _ _ F6), (fr2_fr4 _ _ F5). rewrite <- If2, <- (fr4_set_marked s2 m'). apply fr4_of_nd; [apply fr1_fr4; exact F4|exact Hdp4].
Qed.

(* ---------------------------------------------------------------------------------------- *)
(* the commands of one pack are on one entity *)
Lemma brel_keys {X} cis hs tl (sk : Skeleton.st) al rem h p xp : GE X sk hs al rem -> allh h p -> brel cis hs tl p xp ->
  xp = [] \/ exists k, Forall (fun xc => xkey xc = k) xp.
Proof.
  intros HG Hall HB. destruct (handle_null_dec h) as [->|Hnn].
  - left. induction HB as [|c b xb Hnull Hc Hb IH|c xc b xb Hc Hb IH]; [reflexivity| |].
    + inversion Hall; subst. apply IH. assumption.
    + exfalso. inversion Hall as [|? ? Hh Ht]; subst. destruct (crel_key _ _ _ _ _ Hc) as (Hk & E & _).
      assert (Hin : In (hnd hs (xkey xc)) hs) by (apply nth_In_hnd; exact Hk). rewrite E, Hh in Hin.
      exact (null_not_in _ _ _ _ HG Hin).
  - pose proof (brel_issued cis hs tl h Hnn _ _ Hall HB) as HR.
    assert (Hk : Forall (fun xc => xkey xc < length hs /\ hnd hs (xkey xc) = h) xp).
    { clear HB. induction HR as [|c xc t xt Hc Ht IH]; [constructor|]. inversion Hall as [|? ? Hh Hall']; subst.
      constructor; [|apply IH; exact Hall']. destruct (crel_key _ _ _ _ _ Hc) as (A & B & _). split; [exact A|congruence]. }
    destruct xp as [|xc0 xt]; [left; reflexivity|right]. exists (xkey xc0).
    inversion Hk as [|? ? (A0 & B0) Hk']; subst. apply Forall_forall. intros xc Hin.
    destruct (proj1 (Forall_forall _ _) Hk xc Hin) as (A & B). eapply (hnd_inj _ hs _ _ _ _ HG); [exact A|exact A0|congruence].
Qed.

Lemma DFInv_deps cis s hs x rem : DFInv cis s hs x rem -> deps s = x_deps x.
Proof. intros [(al & HD) _ _ _]. exact (dl_deps _ _ _ _ _ _ HD). Qed.

Lemma fr4_deps s s' : fr4 s' = fr4 s -> deps s' = deps s.
Proof. intros H. apply (fr4_fields _ _ H). Qed.

(* ---- one pack ---- *)
Lemma F_pack_d cis tid tl s hs x h p xp rem' s' :
  DFInv cis s hs x (xrem xp ++ rem') -> cis_ok cis -> within (length hs) -> nth_error (tmps s) tid = Some tl ->
  p <> [] -> allh h p -> brel cis hs tl p xp -> mcf p ->
  run_ok (x_deps x) [] xp = true ->
  x_viol (fold_left x_cmd xp x) = x_viol x ->
  apply_pack tid s p = Ok s' ->
  DFInv cis s' hs (fold_left x_cmd xp x) rem' /\ fr4 s' = fr4 s.
Proof.
  intros HF Hok Hb Htl Hne Hall HB Hcf Hrun Hviol H. destruct p as [|c0 t]; [congruence|].
  pose proof HF as [(al & [HI _ _ _ _]) _ _ _]. pose proof (li_G _ _ _ _ _ _ HI) as HG.
  destruct (handle_null_dec h) as [->|Hnn].
  - (* commands through the null handle *)
    assert (Exp : xp = []) by (eapply brel_null; eassumption). subst xp.
    assert (Hc0 : is_create c0 = false) by (inversion HB; assumption).
    assert (Eh0 : cmd_handle c0 = null_handle) by (inversion Hall; assumption).
    rewrite (apply_pack_other_eq _ _ _ _ Hc0), Eh0, is_valid_null_m in H. inversion H; subst s'. split; [exact HF|reflexivity].
  - pose proof (brel_issued cis hs tl h Hnn _ _ Hall HB) as HR.
    inversion HR as [|c' xc0 t' xt Hc0 HRt]; subst c' t' xp.
    destruct (crel_key _ _ _ _ _ Hc0) as (Hk & Eh & Ecr).
    assert (Eh0 : cmd_handle c0 = h) by (inversion Hall; assumption). rewrite Eh0 in Eh.
    pose proof (mcf_tail _ _ _ Hcf Hall) as Hnct.
    assert (Hallt : allh h t) by (inversion Hall; assumption).
    pose proof (crel_on cis hs tl h (xkey xc0) (g_hs_nodup HG) Hk Eh _ _ HRt Hallt Hnct) as Hont.
    assert (Ext : xrem xt = []).
    { apply xrem_nocreate. eapply Forall_impl; [|exact Hont]. simpl. intros a (A & _). exact A. }
    assert (Hother : is_create c0 = false -> DFInv cis s' hs (fold_left x_cmd (xc0 :: xt) x) rem' /\ fr4 s' = fr4 s).
    { intros Hcc. assert (Hnc : Forall (fun c => is_create c = false) (c0 :: t)) by (constructor; [exact Hcc|exact Hnct]).
      assert (Exp : xrem (xc0 :: xt) = []).
      { apply xrem_nocreate. constructor; [congruence|]. eapply Forall_impl; [|exact Hont]. simpl. intros a (A & _). exact A. }
      rewrite Exp in HF. simpl app in HF. apply (F_pack_other_d cis tid tl s hs x (xkey xc0) h _ t _ rem' s' HF Hb Htl Hk Eh HR Hall Hnc Hrun Hviol H). }
    destruct c0 as [h' ha m sh|h'|h'|h' c|h' c n]; try (apply Hother; reflexivity).
    destruct xc0 as [k m0 sh0|k|k|k c1 v1|k c1]; simpl in Hc0; try contradiction.
    destruct Hc0 as (_ & _ & -> & -> & -> & Eha). simpl in Eh0. subst h'. simpl xkey in *.
    rewrite fold_left_cons in Hviol |- *. rewrite xrem_create, Ext in HF. rewrite <- app_comm_cons, app_nil_l in HF.
    simpl in Hrun.
    apply (F_pack_create_d cis tid tl s hs x k m ha si_null h t xt rem' s' HF Hok Htl Hk Eh eq_refl Eha HRt Hallt Hnct Hrun Hviol H).
Qed.

(* ---- the packs of one buffer, in log order ---- *)
Lemma F_packs_d cis tid tl hs : forall ps s x xb rem' s' prev X,
  Forall (fun p => p <> [] /\ exists h, allh h p) ps -> mcf (concat ps) -> brel cis hs tl (concat ps) xb ->
  cis_ok cis -> within (length hs) -> nth_error (tmps s) tid = Some tl ->
  DFInv cis s hs x (xrem xb ++ rem') -> buf_ok (x_deps x) prev X xb = true ->
  x_viol (fold_left x_cmd xb x) = x_viol x ->
  fold_res (apply_pack tid) ps s = Ok s' ->
  DFInv cis s' hs (fold_left x_cmd xb x) rem' /\ fr4 s' = fr4 s.
Proof.
  induction ps as [|p ps IH]; intros s x xb rem' s' prev X Hu Hcf HB Hok Hb Htl HF Hbuf Hviol H.
  - simpl in *. inversion H; subst s'. inversion HB; subst xb. simpl in *. split; [exact HF|reflexivity].
  - simpl in H. bd H s1 Hp. inversion Hu as [|p' ps' (Hne & h & Hall) Hu']; subst p' ps'. simpl in Hcf, HB.
    destruct (brel_app_inv _ _ _ _ _ _ HB) as (xp & xr & -> & HBp & HBr).
    rewrite xrem_app, <- app_assoc in HF. destruct (viol_app _ _ _ Hviol) as (V1 & V2). rewrite fold_left_app.
    pose proof HF as [(al & [HI _ _ _ _]) _ _ _]. pose proof (li_G _ _ _ _ _ _ HI) as HG.
    assert (Hb2 : run_ok (x_deps x) [] xp = true /\ exists prev' X', buf_ok (x_deps x) prev' X' xr = true).
    { destruct (brel_keys cis hs tl _ al _ h p xp HG Hall HBp) as [->|(k & Hkk)]; [split; [reflexivity|eauto]|].
      destruct xp as [|xc0 xt]; [split; [reflexivity|eauto]|].
      destruct (buf_ok_run (x_deps x) k (xc0 :: xt) xr prev X Hkk) as (A & X' & B); [discriminate|exact Hbuf|]. split; [exact A|eauto]. }
    destruct Hb2 as (Hrun & prev' & X' & Hbuf').
    destruct (F_pack_d cis tid tl s hs x h p xp (xrem xr ++ rem') s1 HF Hok Hb Htl Hne Hall HBp (mcf_app_l _ _ Hcf) Hrun V1 Hp) as (HF1 & F1).
    assert (Htl1 : nth_error (tmps s1) tid = Some tl).
    { destruct (fr4_fields _ _ F1) as (_ & _ & _ & _ & _ & _ & T & _). congruence. }
    assert (Ed1 : x_deps (fold_left x_cmd xp x) = x_deps x).
    { rewrite <- (DFInv_deps _ _ _ _ _ HF1), <- (DFInv_deps _ _ _ _ _ HF). apply fr4_deps. exact F1. }
    destruct (IH s1 _ xr rem' s' prev' X' Hu' (mcf_app_r _ _ Hcf) HBr Hok Hb Htl1 HF1) as (HF2 & F2); [rewrite Ed1; exact Hbuf'|exact V2|exact H|].
    split; [exact HF2|congruence].
Qed.

(* ---- applyStorage ---- *)
Lemma F_storage_d cis tid tl hs b s x xb rem' s' :
  mcf b -> brel cis hs tl b xb -> cis_ok cis -> within (length hs) -> nth_error (tmps s) tid = Some tl ->
  DFInv cis s hs x (xrem xb ++ rem') -> buf_ok (x_deps x) None [] xb = true ->
  x_viol (fold_left x_cmd xb x) = x_viol x ->
  apply_storage s (tid, b) = Ok s' ->
  DFInv cis s' hs (fold_left x_cmd xb x) rem' /\ fr4 s' = fr4 s.
Proof.
  intros Hcf HB Hok Hb Htl HF Hbuf Hviol H. rewrite ManagerDeferred.apply_storage_unfold in H. bd H s1 Hp.
  destruct (ManagerDeferred.split_packs_correct b) as (Ec & Hu & _).
  assert (Hu' : Forall (fun p => p <> [] /\ exists h, allh h p) (split_packs b [])).
  { eapply Forall_impl; [|exact Hu]. simpl. intros p (Hne & Hun). split; [exact Hne|apply uniform_allh; assumption]. }
  rewrite <- Ec in Hcf, HB.
  destruct (F_packs_d cis tid tl hs _ s x xb rem' s1 None [] Hu' Hcf HB Hok Hb Htl HF Hbuf Hviol Hp) as (HF1 & F1).
  destruct (destroy_tmps_olog _ _ _ _ H) as (Fo & Ao).
  split; [|rewrite (fr1_fr4 _ _ Fo); exact F1].
  destruct HF1 as [(al & [HI1 D1 W1 K1 R1]) C1 M1 I1].
  assert (Ed : deps s' = deps s1) by (apply (f_equal deps) in Fo; exact Fo).
  constructor; [exists al; constructor|exact C1| |exact I1].
  - eapply LInv_fr1; [| |exact HI1]; [unfold nd; rewrite !fr1_sd, Fo; reflexivity|exact Ao].
  - congruence.
  - rewrite Ed. exact W1.
  - rewrite Ed. exact K1.
  - exact R1.
  - rewrite (fr3_marked _ _ (fr2_fr3 _ _ (fr1_fr2 _ _ Fo))). exact M1.
Qed.

(* ---- all buffers, in thread order ---- *)
Lemma F_buffers_d cis hs : forall bs tls xbs n s x s',
  F3 (brel cis hs) tls bs xbs -> Forall mcf bs ->
  (forall j tl, nth_error tls j = Some tl -> nth_error (tmps s) (n + j) = Some tl) ->
  cis_ok cis -> within (length hs) ->
  DFInv cis s hs x (xrem (concat xbs)) -> forallb (buf_ok (x_deps x) None []) xbs = true ->
  x_viol (fold_left (fun st b => fold_left x_cmd b st) xbs x) = x_viol x ->
  fold_res apply_storage (combine (seq n (length bs)) bs) s = Ok s' ->
  DFInv cis s' hs (fold_left (fun st b => fold_left x_cmd b st) xbs x) [] /\ fr4 s' = fr4 s.
Proof.
  induction bs as [|b bs IH]; intros tls xbs n s x s' H3 Hcf Ht Hok Hb HF Hbo Hviol H.
  - inversion H3; subst. simpl in *. inversion H; subst s'. split; [exact HF|reflexivity].
  - inversion H3 as [|tl b' xb tls' bs' xbs' HB H3']; subst. inversion Hcf as [|? ? Hcfb Hcfr]; subst.
    cbn [length seq combine fold_res] in H. bd H s1 Hst. cbn [fold_left concat] in HF, Hviol |- *. rewrite xrem_app in HF.
    simpl in Hbo. apply andb_true_iff in Hbo. destruct Hbo as (Hbo1 & Hbo2).
    assert (V : x_viol (fold_left x_cmd xb x) = x_viol x /\
                x_viol (fold_left (fun st b => fold_left x_cmd b st) xbs' (fold_left x_cmd xb x)) = x_viol (fold_left x_cmd xb x)).
    { pose proof (x_viol_fold_le xb x). pose proof (x_viol_bufs_le xbs' (fold_left x_cmd xb x)). lia. }
    destruct V as (V1 & V2).
    assert (Htl : nth_error (tmps s) n = Some tl) by (rewrite <- (Nat.add_0_r n); apply Ht; reflexivity).
    destruct (F_storage_d cis n tl hs b s x xb _ s1 Hcfb HB Hok Hb Htl HF Hbo1 V1 Hst) as (HF1 & F1).
    assert (Ed1 : x_deps (fold_left x_cmd xb x) = x_deps x).
    { rewrite <- (DFInv_deps _ _ _ _ _ HF1), <- (DFInv_deps _ _ _ _ _ HF). apply fr4_deps. exact F1. }
    destruct (IH tls' xbs' (S n) s1 (fold_left x_cmd xb x) s' H3' Hcfr) as (HF2 & F2); try assumption.
    + intros j tl' Hj. destruct (fr4_fields _ _ F1) as (_ & _ & _ & _ & _ & _ & T & _). rewrite T.
      replace (S n + j) with (n + S j) by lia. apply Ht. exact Hj.
    + rewrite Ed1. exact Hbo2.
    + split; [exact HF2|congruence].
Qed.
