(* The invariant relating a Manager state to the abstract world of MgrSpec (C02), for the operations issued while
   the manager is not locked, without dependencies and shared components:
   structure (the Skeleton invariant G on the projection) + well-formed archetypes + the VALUE clause: the cells
   stored at the slot of every member of every archetype are the values the specification gives that entity. *)
Require Import Coq.Lists.List Coq.NArith.NArith Coq.ZArith.ZArith Coq.Arith.Arith Coq.Bool.Bool Coq.micromega.Lia.
From Mustache Require Import Res Manager MgrSpec Refine.
From Mustache Require Skeleton.
From Mustache Require Import SkelSpec.
From Mustache.proofs Require Import ListLemmas SkelBasics SkelInv SkelSteps SkelMove ClosureProofs ManagerBasics ManagerMoves ManagerProj.
Import ListNotations.

(* ---------------------------------------------------------------------------------------- *)
(* the specification without dependencies *)
Lemma closure_fuel_nil f m : closure_fuel f [] m = m.
Proof. destruct f; simpl; [reflexivity|]. unfold dep_step. simpl. rewrite N.eqb_refl. reflexivity. Qed.
Lemma closure_nil m : closure [] m = m.
Proof. apply closure_fuel_nil. Qed.

Lemma comp_mask_has_gen cs : forall m0 c,
  mhas (fold_left (fun m (p : nat * cell) => madd m (fst p)) cs m0) c = mhas m0 c || has_comp cs c.
Proof.
  induction cs as [|p t IH]; intros m0 c; simpl; [rewrite orb_false_r; reflexivity|].
  rewrite IH, mhas_madd. rewrite (Nat.eqb_sym c (fst p)). destruct (mhas m0 c), (Nat.eqb (fst p) c); reflexivity.
Qed.

Lemma comp_mask_has cs c : mhas (comp_mask cs) c = has_comp cs c.
Proof. unfold comp_mask. rewrite comp_mask_has_gen, mhas_zero. reflexivity. Qed.

Lemma has_comp_in cs c : has_comp cs c = true <-> In c (map fst cs).
Proof.
  unfold has_comp. rewrite existsb_exists, in_map_iff. split.
  - intros (p & Hp & E). apply Nat.eqb_eq in E. exists p. auto.
  - intros (p & E & Hp). exists p. split; [exact Hp|apply Nat.eqb_eq; exact E].
Qed.

Lemma widen_nil x k cs : x_deps x = [] -> widen x k cs = (cs, []).
Proof.
  intros Hd. unfold widen. rewrite Hd, closure_nil.
  assert (H : forall l, (forall c, In c l -> has_comp cs c = true) ->
     fold_left (fun (acc : list (nat * cell) * list (nat * nat)) c =>
        if has_comp (fst acc) c then acc
        else (insert_comp (fst acc) c (default_cell (x_cinfos x) c), snd acc ++ [(k, c)])) l (cs, []) = (cs, [])).
  { induction l as [|c t IH]; intros Hl; simpl; [reflexivity|]. rewrite (Hl c) by (left; reflexivity). apply IH. intros c' Hc'. apply Hl. right. exact Hc'. }
  apply H. intros c Hc. apply mitems_in in Hc. destruct Hc as (_ & Hc). rewrite comp_mask_has in Hc. exact Hc.
Qed.

Definition findk (l : list ent) (k : nat) : option ent := find (fun e => Nat.eqb (e_k e) k) l.

Lemma findk_app l1 l2 k : findk (l1 ++ l2) k = match findk l1 k with Some e => Some e | None => findk l2 k end.
Proof. unfold findk. induction l1 as [|a t IH]; simpl; [reflexivity|]. destruct (Nat.eqb (e_k a) k); [reflexivity|exact IH]. Qed.

Lemma findk_drop l k0 k : findk (drop_ent l k0) k = if Nat.eqb k k0 then None else findk l k.
Proof.
  unfold findk, drop_ent. induction l as [|a t IH]; simpl; [destruct (Nat.eqb k k0); reflexivity|].
  destruct (Nat.eqb_spec (e_k a) k0) as [E0|E0]; simpl.
  - rewrite IH. destruct (Nat.eqb_spec k k0) as [E1|E1]; [reflexivity|]. destruct (Nat.eqb_spec (e_k a) k); [congruence|reflexivity].
  - destruct (Nat.eqb_spec (e_k a) k) as [E2|E2].
    + destruct (Nat.eqb_spec k k0); [congruence|reflexivity].
    + exact IH.
Qed.

Lemma findk_put l e k : findk (put_ent l e) k = if Nat.eqb k (e_k e) then Some e else findk l k.
Proof.
  unfold put_ent. rewrite findk_app, findk_drop. destruct (Nat.eqb_spec k (e_k e)) as [->|Hne].
  - unfold findk. simpl. rewrite Nat.eqb_refl. reflexivity.
  - destruct (findk l k) as [e'|]; [reflexivity|]. unfold findk. simpl. destruct (Nat.eqb_spec (e_k e) k); [congruence|reflexivity].
Qed.

Lemma findk_key l k e : findk l k = Some e -> e_k e = k.
Proof. unfold findk. intros H. apply find_some in H. destruct H as (_ & H). apply Nat.eqb_eq. exact H. Qed.

Lemma find_ent_findk x k : find_ent x k = findk (x_ents x) k.
Proof. reflexivity. Qed.

Lemma alive_x_find x k : alive_x x k = true <-> find_ent x k <> None.
Proof. unfold alive_x. destruct (find_ent x k); split; intros H; congruence. Qed.

Lemma alive_x_false x k : alive_x x k = false <-> find_ent x k = None.
Proof. unfold alive_x. destruct (find_ent x k); split; intros H; congruence. Qed.

(* everything of the abstract state but the entities and the attachment counters *)
Definition xfr (s : xst) : xst := xw_att (xw_ents s []) [] [].
Lemma xfr_fields s s' : xfr s' = xfr s ->
  x_lock s' = x_lock s /\ x_deps s' = x_deps s /\ x_cinfos s' = x_cinfos s /\ x_count s' = x_count s /\ x_viol s' = x_viol s.
Proof.
  intros H. repeat split.
  - apply (f_equal x_lock) in H. exact H.
  - apply (f_equal x_deps) in H. exact H.
  - apply (f_equal x_cinfos) in H. exact H.
  - apply (f_equal x_count) in H. exact H.
  - apply (f_equal x_viol) in H. exact H.
Qed.

Lemma x_create_eq s k m sh : x_deps s = [] ->
  xfr (x_create s k m sh) = xfr s /\
  x_ents (x_create s k m sh) = put_ent (x_ents s) {| e_k := k; e_comps := map (fun c => (c, default_cell (x_cinfos s) c)) (mitems m); e_shared := sh |}.
Proof. intros Hd. unfold x_create. rewrite (widen_nil _ _ _ Hd). split; reflexivity. Qed.

Lemma x_kill_eq s k : xfr (x_kill s k) = xfr s /\ forall k', find_ent (x_kill s k) k' = if Nat.eqb k' k then None else find_ent s k'.
Proof.
  unfold x_kill. destruct (find_ent s k) as [e|] eqn:E.
  - split; [reflexivity|]. intros k'. rewrite find_ent_findk. simpl. apply findk_drop.
  - split; [reflexivity|]. intros k'. destruct (Nat.eqb_spec k' k) as [->|Hne]; [exact E|reflexivity].
Qed.

Lemma x_assign_eq s k c v e : x_deps s = [] -> find_ent s k = Some e -> has_comp (e_comps e) c = false ->
  xfr (x_assign s k c v) = xfr s /\
  x_ents (x_assign s k c v) = put_ent (x_ents s)
     {| e_k := k; e_comps := insert_comp (e_comps e) c (match v with Some z => Some z | None => default_cell (x_cinfos s) c end);
        e_shared := e_shared e |}.
Proof. intros Hd Hf Hh. unfold x_assign. rewrite Hf, Hh, (widen_nil _ _ _ Hd). split; reflexivity. Qed.

Lemma has_comp_filter cs c : has_comp (filter (fun p : nat * cell => negb (Nat.eqb (fst p) c)) cs) c = false.
Proof.
  unfold has_comp. induction cs as [|p t IH]; simpl; [reflexivity|].
  destruct (Nat.eqb (fst p) c) eqn:E; simpl; [exact IH|]. rewrite E. exact IH.
Qed.

Lemma x_remove_eq s k c e : x_deps s = [] -> find_ent s k = Some e -> has_comp (e_comps e) c = true ->
  xfr (x_remove s k c) = xfr s /\
  x_ents (x_remove s k c) = put_ent (x_ents s)
     {| e_k := k; e_comps := filter (fun p => negb (Nat.eqb (fst p) c)) (e_comps e); e_shared := e_shared e |}.
Proof.
  intros Hd Hf Hh. unfold x_remove. rewrite Hf, Hh, Hd, closure_nil, comp_mask_has, has_comp_filter. simpl. split; reflexivity.
Qed.

Lemma x_remove_absent s k c e : find_ent s k = Some e -> has_comp (e_comps e) c = false -> x_remove s k c = s.
Proof. intros Hf Hh. unfold x_remove. rewrite Hf, Hh. reflexivity. Qed.

(* ---------------------------------------------------------------------------------------- *)
(* the structure of a Manager state, read off the Skeleton invariant on its projection *)
Lemma live_m s hs al k key : G (proj s) hs al [] -> In (k, key) al ->
  k < length hs /\ exists ai idx a,
    nth_error (locs s) (N.to_nat (fst (hnd hs k))) = Some {| l_arch := Some ai; l_idx := idx |} /\
    nth_error (archs s) ai = Some a /\ am_mask a = key /\ nth_error (am_ents a) idx = Some (hnd hs k).
Proof.
  intros HG Hin. destruct (g_alive HG k key Hin) as (Hk & _ & _ & ai & idx & a & Hl & Ha & Hkey & He).
  split; [exact Hk|]. simpl in Hl, Ha.
  apply nth_error_map_inv in Hl. destruct Hl as (l & Hl & El). apply ploc_inv in El. subst l.
  apply nth_error_map_inv in Ha. destruct Ha as (a0 & Ha & Ea). subst a. simpl in Hkey, He.
  exists ai, idx, a0. auto.
Qed.

Lemma members_m s hs al ai a idx h : G (proj s) hs al [] -> nth_error (archs s) ai = Some a -> nth_error (am_ents a) idx = Some h ->
  exists k, In (k, am_mask a) al /\ k < length hs /\ hnd hs k = h /\
            nth_error (locs s) (N.to_nat (fst h)) = Some {| l_arch := Some ai; l_idx := idx |}.
Proof.
  intros HG Ha He.
  destruct (g_arch_members HG ai (parch a) idx h (noex_no _ _)) as (k & A & B & C & D); [simpl; apply map_nth_error; exact Ha|exact He|].
  exists k. split; [exact A|]. split; [exact B|]. split; [exact C|]. simpl in D.
  apply nth_error_map_inv in D. destruct D as (l & Hl & El). apply ploc_inv in El. subst l. exact Hl.
Qed.

Lemma valid_m s hs al k : G (proj s) hs al [] -> k < length hs -> (is_valid s (hnd hs k) = true <-> alive al k).
Proof. intros HG Hk. rewrite <- proj_is_valid. apply (G_valid _ hs al [] k HG Hk). Qed.

Lemma is_valid_null_m s : is_valid s null_handle = false.
Proof. reflexivity. Qed.

(* ---------------------------------------------------------------------------------------- *)
(* the invariant *)
Definition vmatch (e : ent) (a : archetype) (idx : nat) : Prop :=
  map fst (e_comps e) = mitems (am_mask a) /\ e_shared e = [] /\
  forall c v, In (c, v) (e_comps e) -> cell_le v (acell a c idx) = true.

Definition Vals (s : mst) (hs : list handle) (x : xst) : Prop :=
  forall ai a idx h, nth_error (archs s) ai = Some a -> nth_error (am_ents a) idx = Some h ->
  exists k e, k < length hs /\ hnd hs k = h /\ find_ent x k = Some e /\ vmatch e a idx.

Record MInv (cis : list cinfo) (s : mst) (hs : list handle) (al : list (nat * N)) (x : xst) : Prop := {
  mi_G : G (proj s) hs al [];
  mi_awf : Forall awf (archs s);
  mi_lock : lockc s = 0;
  mi_deps : deps s = [];
  mi_cis : cinfos s = cis;
  mi_xlock : x_lock x = 0;
  mi_xdeps : x_deps x = [];
  mi_xcis : x_cinfos x = cis;
  mi_count : x_count x = length hs;
  mi_slots : length (slots s) <= length hs;
  mi_alive : forall k, alive al k <-> alive_x x k = true;
  mi_vals : Vals s hs x
}.

Lemma MInv_set_log cis s hs al x l : MInv cis s hs al x -> MInv cis (set_log s l) hs al x.
Proof. intros [A B C D E F G0 H I J K L]. constructor; assumption. Qed.

(* the cells of a member are read through the mask and the columns below the component count only *)
Lemma vmatch_transfer e a idx a' idx' : vmatch e a idx -> am_mask a' = am_mask a ->
  (forall ci, ci < length (mitems (am_mask a)) -> get_cell a' ci idx' = get_cell a ci idx) -> vmatch e a' idx'.
Proof.
  intros (Hm & Hs & Hv) Em Hc. split; [rewrite Em; exact Hm|]. split; [exact Hs|].
  intros c v Hin. specialize (Hv c v Hin). unfold acell in *. rewrite Em.
  destruct (cindex (am_mask a) c) as [ci|] eqn:Ec; [|exact Hv].
  rewrite Hc; [exact Hv|]. apply cindex_nth in Ec.
  - apply nth_error_Some. congruence.
  - assert (Hi : In c (mitems (am_mask a))) by (rewrite <- Hm; apply in_map_iff; exists (c, v); auto).
    apply mitems_in in Hi. tauto.
Qed.

Definition cis_ok (cis : list cinfo) : Prop :=
  Forall (fun i => ci_create i = None -> ci_aa i = true -> ci_default i = None) cis.

Definition BOUND : N := 16777000%N.
Definition within (n : nat) : Prop := (N.of_nat n < BOUND)%N.

(* ---------------------------------------------------------------------------------------- *)
(* getArchetype *)
Lemma si_eqb_null : si_eqb si_null si_null = true.
Proof. reflexivity. Qed.

Lemma MInv_get_arch cis s hs al x m s1 ai : MInv cis s hs al x -> get_arch s m si_null = Ok (s1, ai) ->
  MInv cis s1 hs al x /\ fr1 s1 = fr1 s /\
  (forall j a', nth_error (archs s) j = Some a' -> nth_error (archs s1) j = Some a') /\
  exists a, nth_error (archs s1) ai = Some a /\ am_mask a = m.
Proof.
  intros HI H. destruct (get_arch_ok _ _ _ _ _ (mi_deps _ _ _ _ _ HI) H) as [(-> & a & Ha & Hm & _)|(Hf & -> & cs & ->)].
  - split; [exact HI|]. split; [reflexivity|]. split; [auto|]. exists a. auto.
  - destruct HI as [HG Hawf Hl Hd Hc Hxl Hxd Hxc Hcnt Hsl Hal Hv].
    split; [|split; [reflexivity|split]].
    + constructor; try assumption.
      * change (proj (set_archs s (archs s ++ [new_arch m si_null cs])))
          with (Skeleton.set_archs (proj s) (map parch (archs s ++ [new_arch m si_null cs]))).
        rewrite map_app. apply (G_new_arch (proj s) hs al [] m HG).
        intros a Ha. simpl in Ha. apply in_map_iff in Ha. destruct Ha as (a0 & <- & Ha0). simpl. intros E.
        apply (find_arch_none _ _ _ _ Hf a0 Ha0). split; [exact E|].
        destruct (proj1 (Forall_forall _ _) Hawf a0 Ha0) as (Esh & _). rewrite Esh. reflexivity.
      * simpl. apply Forall_app. split; [exact Hawf|]. constructor; [apply awf_new|constructor].
      * intros ai' a' idx h Ha' Hh. simpl in Ha'. destruct (Nat.lt_ge_cases ai' (length (archs s))) as [Hlt|Hge].
        -- rewrite nth_error_app1 in Ha' by exact Hlt. apply (Hv ai' a' idx h Ha' Hh).
        -- rewrite nth_error_app2 in Ha' by exact Hge. destruct (ai' - length (archs s)) as [|n]; simpl in Ha'.
           ++ inversion Ha'; subst a'. simpl in Hh. destruct idx; discriminate.
           ++ destruct n; discriminate.
    + intros j a' Hj. simpl. rewrite nth_error_app1; [exact Hj|]. apply nth_error_Some. congruence.
    + exists (new_arch m si_null cs). simpl. split; [apply nth_error_app_last|reflexivity].
Qed.

(* ---------------------------------------------------------------------------------------- *)
(* what step does for the operations of the unlocked alphabet *)
Lemma step_create_unlocked s tid m via : lockc s = 0 ->
  step s (OCreate tid m [] via) =
  (do r <- get_arch s m si_null; let '(s1, ai) := r in do r2 <- create_id s1; let '(s2, h) := r2 in
   do s3 <- arch_insert s2 ai h 0%N; Ok (s3, RHandle h)).
Proof. intros Hl. unfold step, make_shared_info. cbn [fold_res]. rewrite bind_Ok. rewrite Hl. reflexivity. Qed.

Lemma step_destroy_now_unlocked s tid h : lockc s = 0 ->
  step s (ODestroyNow tid h) = (do s1 <- destroy_now_unlocked s h; Ok (s1, RNone)).
Proof. intros Hl. unfold step. rewrite Hl. reflexivity. Qed.

Lemma step_assign_unlocked s tid h c v typed : lockc s = 0 ->
  step s (OAssign tid h c v typed) =
    (do inf <- info_of s c;
     do r <- assign_unlocked s h c (match v with AValue _ => typed | ADefault => false end);
      let '(s1, (ai, ci, slot)) := r in
      match v with
      | ADefault => Ok (s1, RNone)
      | AValue x =>
        do s2 <- (if ci_hasval inf then write_cell s1 ai ci slot (Some x) else Ok s1);
        if typed then
          Ok (if ci_aa inf then emit (if ci_ev inf then emit s2 (EvV (ci_pal inf) (PArch ai c slot)) else s2) (EvAA (ci_pal inf) (PArch ai c slot) h)
              else (if ci_ev inf then emit s2 (EvV (ci_pal inf) (PArch ai c slot)) else s2), RNone)
        else Ok (s2, RNone)
      end).
Proof. intros Hl. unfold step. rewrite Hl. reflexivity. Qed.

Lemma step_remove_unlocked s tid h c typed : lockc s = 0 ->
  step s (ORemove tid h c typed) =
    (if typed && negb (is_valid s h) then Ok (s, RNone) else do s1 <- remove_unlocked s h c; Ok (s1, RNone)).
Proof. intros Hl. unfold step. rewrite Hl. reflexivity. Qed.

(* ---------------------------------------------------------------------------------------- *)
(* create *)
Lemma create_id_frame s s2 h : create_id s = Ok (s2, h) -> archs s2 = archs s /\ fr3 s2 = fr3 s.
Proof.
  unfold create_id. destruct (empty_slots s) as [|e].
  - intros H. inversion H. split; reflexivity.
  - intros H. bd H sl Hsl. bd H ls Hls. inversion H. split; reflexivity.
Qed.

Lemma Vals_hnd_app s hs h x : Vals s hs x -> Vals s (hs ++ [h]) x.
Proof.
  intros Hv ai a idx h' Ha Hh. destruct (Hv ai a idx h' Ha Hh) as (k & e & Hk & Eh & Hf & Hm).
  exists k, e. rewrite app_length, hnd_app1 by exact Hk. split; [lia|auto].
Qed.

Lemma default_cell_ok cis c inf v : cis_ok cis -> nth_error cis c = Some inf ->
  match ci_create inf with
  | Some x => v = Some x
  | None => ci_aa inf = false -> forall x, ci_default inf = Some x -> v = Some x
  end -> cell_le (default_cell cis c) v = true.
Proof.
  intros Hok Hinf Hv. rewrite (default_cell_of _ _ _ Hinf). unfold default_of.
  assert (Hc : ci_create inf = None -> ci_aa inf = true -> ci_default inf = None).
  { apply (proj1 (Forall_forall _ _) Hok inf). eapply nth_error_In. eassumption. }
  destruct (ci_create inf) as [x|]; [subst v; apply cell_le_refl_some|].
  destruct (ci_default inf) as [x|] eqn:Ed; [|reflexivity].
  destruct (ci_aa inf) eqn:Eaa; [specialize (Hc eq_refl eq_refl); discriminate|].
  rewrite (Hv eq_refl x eq_refl). apply cell_le_refl_some.
Qed.

Lemma MInv_create cis s hs al x tid m via s' out :
  MInv cis s hs al x -> cis_ok cis -> within (S (length hs)) ->
  step s (OCreate tid m [] via) = Ok (s', out) ->
  exists h, out = RHandle h /\ MInv cis s' (hs ++ [h]) (al ++ [(length hs, m)]) (x_step_in x (XoCreate tid m [] via)).
Proof.
  intros HI Hok Hb H. rewrite (step_create_unlocked _ _ _ _ (mi_lock _ _ _ _ _ HI)) in H.
  bd H r Hga. destruct r as (s1, ai). cbv beta iota in H. bd H r2 Hcid. destruct r2 as (s2, h). cbv beta iota in H.
  bd H s3 Hins. inversion H; subst s' out; clear H. exists h. split; [reflexivity|].
  destruct (MInv_get_arch _ _ _ _ _ _ _ _ HI Hga) as (HI1 & F1 & _ & a & Ha & Hm). clear HI Hga.
  destruct HI1 as [HG Hawf Hl Hd Hc Hxl Hxd Hxc Hcnt Hsl Hal Hv].
  destruct (create_id_frame _ _ _ Hcid) as (A2 & F2).
  assert (Ha2 : nth_error (archs s2) ai = Some a) by (rewrite A2; exact Ha).
  assert (Hwa : awf a) by (eapply awf_nth; eassumption).
  destruct (arch_insert_ok _ _ _ _ _ _ Ha2 (proj2 (proj2 Hwa)) Hins)
    as (a3 & F3 & A3 & Hlt & L3 & Hab & He & Hz & Hcl & Hcells & Hdef).
  (* structure *)
  assert (HG3 : G (proj s3) (hs ++ [h]) (al ++ [(length hs, m)]) [] /\ length (Skeleton.slots (proj s3)) <= S (length (Skeleton.slots (proj s1)))).
  { destruct (G_create (proj s1) hs al ai (parch a) m (proj s2) h (proj s3) HG) as (A & _ & B & _).
    - simpl. apply map_nth_error. exact Ha.
    - exact Hm.
    - simpl. rewrite map_length. unfold within, BOUND, Skeleton.NULL_ID in *. lia.
    - apply proj_create_id. exact Hcid.
    - eapply proj_arch_insert; eassumption.
    - split; assumption. }
  destruct HG3 as (HG3 & Hsl3). simpl in Hsl3. rewrite !map_length in Hsl3.
  destruct (fr3_ctl _ _ (fr2_fr3 _ _ F3)) as (E1 & E2 & E3 & _). destruct (fr3_ctl _ _ F2) as (E4 & E5 & E6 & _).
  (* the abstract step *)
  assert (Hx : x_step_in x (XoCreate tid m [] via) = x_create (xw_count x (S (x_count x))) (x_count x) m []).
  { unfold x_step_in. rewrite Hxl. reflexivity. }
  destruct (x_create_eq (xw_count x (S (x_count x))) (x_count x) m [] Hxd) as (Fx & Ex).
  destruct (xfr_fields _ _ Fx) as (X1 & X2 & X3 & X4 & X5). simpl in X1, X2, X3, X4, X5.
  assert (Hfind : forall k, find_ent (x_step_in x (XoCreate tid m [] via)) k =
             if Nat.eqb k (length hs) then Some {| e_k := length hs; e_comps := map (fun c => (c, default_cell cis c)) (mitems m); e_shared := [] |}
             else find_ent x k).
  { intros k. rewrite Hx, find_ent_findk, Ex, findk_put. simpl. rewrite Hcnt, Hxc. reflexivity. }
  rewrite Hx. constructor.
  - exact HG3.
  - rewrite A3. apply Forall_upd; [rewrite A2; exact Hawf|]. eapply awf_inserted; eassumption.
  - congruence.
  - congruence.
  - congruence.
  - congruence.
  - congruence.
  - congruence.
  - rewrite X4, Hcnt, app_length. simpl. lia.
  - rewrite app_length. simpl. lia.
  - intros k. unfold alive. rewrite map_app, in_app_iff. simpl. rewrite alive_x_find. rewrite <- Hx, Hfind.
    destruct (Nat.eqb_spec k (length hs)) as [->|Hne].
    + split; [intros _; discriminate|intros _; right; left; reflexivity].
    + rewrite <- alive_x_find, <- Hal. unfold alive. split; [intros [H|[H|[]]]; [exact H|congruence]|intros H; left; exact H].
  - (* values *)
    intros ai' a' idx' h' Ha' Hh'. rewrite <- Hx. rewrite A3 in Ha'.
    assert (Hold : forall a0 idx0, nth_error (archs s1) ai' = Some a0 -> nth_error (am_ents a0) idx0 = Some h' ->
              am_mask a' = am_mask a0 -> (forall ci, ci < length (mitems (am_mask a0)) -> get_cell a' ci idx' = get_cell a0 ci idx0) ->
              exists k e, k < length (hs ++ [h]) /\ hnd (hs ++ [h]) k = h' /\ find_ent (x_step_in x (XoCreate tid m [] via)) k = Some e /\ vmatch e a' idx').
    { intros a0 idx0 Ha0 Hh0 Em Hc0. destruct (Hv ai' a0 idx0 h' Ha0 Hh0) as (k & e & Hk & Eh & Hf & Hvm).
      exists k, e. rewrite app_length, hnd_app1 by exact Hk. split; [lia|]. split; [exact Eh|].
      split; [rewrite Hfind; destruct (Nat.eqb_spec k (length hs)); [lia|exact Hf]|].
      eapply vmatch_transfer; eassumption. }
    destruct (Nat.eq_dec ai' ai) as [->|Hna].
    + rewrite nth_error_upd_same in Ha' by (apply nth_error_Some; congruence). inversion Ha'; subst a'.
      destruct (ab3_fields _ _ Hab) as (Em & _).
      rewrite He in Hh'. destruct (Nat.lt_ge_cases idx' (length (am_ents a))) as [Hlt'|Hge].
      * rewrite nth_error_app1 in Hh' by exact Hlt'. apply (Hold a idx'); [exact Ha|exact Hh'|exact Em|].
        intros ci _. apply Hcells. lia.
      * assert (idx' = length (am_ents a)).
        { assert (idx' < length (am_ents a ++ [h])) by (apply nth_error_Some; congruence). rewrite app_length in H. simpl in H. lia. }
        subst idx'. rewrite nth_error_app_last in Hh'. inversion Hh'; subst h'.
        exists (length hs). eexists. rewrite app_length, hnd_app_last. split; [simpl; lia|]. split; [reflexivity|].
        split; [rewrite Hfind, Nat.eqb_refl; reflexivity|].
        split; [simpl; rewrite map_map, Em, Hm; simpl; apply map_id|]. split; [reflexivity|].
        simpl. intros c v Hin. apply in_map_iff in Hin. destruct Hin as (c0 & E & Hc0). inversion E; subst c0 v; clear E.
        rewrite <- Hm, <- Em in Hc0. apply In_nth_error in Hc0. destruct Hc0 as (ci & Hci).
        unfold acell. rewrite (nth_cindex _ _ _ Hci).
        destruct (nth_error cis c) as [inf|] eqn:Einf; [|unfold default_cell; rewrite Einf; reflexivity].
        apply (default_cell_ok cis c inf _ Hok Einf). rewrite Em in Hci. apply (Hdef ci c inf Hci (mhas_zero c)). congruence.
    + rewrite nth_error_upd_other in Ha' by congruence. rewrite A2 in Ha'.
      apply (Hold a' idx' Ha' Hh' eq_refl). reflexivity.
Qed.

(* ---------------------------------------------------------------------------------------- *)
(* destroyNow *)
Lemma proj_destroy_now s h s1 ai idx a a' :
  is_valid s h = true -> nth_error (locs s) (N.to_nat (fst h)) = Some {| l_arch := Some ai; l_idx := idx |} ->
  nth_error (archs s) ai = Some a -> fr2 s1 = fr2 s -> archs s1 = upd (archs s) ai a' -> removed ai idx h a a' (locs s) (locs s1) ->
  Skeleton.destroy_now_unlocked (proj s) h = Ok (proj (release_id s1 h)).
Proof.
  intros Hv Hl Ha F A Hrm. unfold Skeleton.destroy_now_unlocked. rewrite proj_is_valid, Hv.
  assert (E : nth_res (Skeleton.locs (proj s)) (N.to_nat (fst h)) = Ok (ploc {| l_arch := Some ai; l_idx := idx |})).
  { apply nth_res_some. simpl. apply map_nth_error. exact Hl. }
  rewrite E, bind_Ok. simpl Skeleton.l_arch. cbv iota. simpl Skeleton.l_idx.
  rewrite (proj_arch_remove _ _ _ _ _ _ _ Ha F A Hrm), bind_Ok. rewrite proj_release_id. reflexivity.
Qed.

Lemma MInv_destroy_now cis s hs al x tid k s' out :
  MInv cis s hs al x -> within (length hs) ->
  step s (ODestroyNow tid (hnd hs k)) = Ok (s', out) ->
  out = RNone /\ MInv cis s' hs (kill al k) (x_step_in x (XoDestroyNow tid k)).
Proof.
  intros HI Hb H. rewrite (step_destroy_now_unlocked _ _ _ (mi_lock _ _ _ _ _ HI)) in H.
  bd H s1 Hd. inversion H; subst s' out; clear H. split; [reflexivity|].
  pose proof HI as [HG Hawf Hl Hdp Hc Hxl Hxd Hxc Hcnt Hsl Hal Hv].
  assert (Hx : x_step_in x (XoDestroyNow tid k) = if negb (issued_b x k) then x else x_kill x k).
  { unfold x_step_in. rewrite Hxl. reflexivity. }
  rewrite Hx. unfold issued_b. rewrite Hcnt.
  unfold destroy_now_unlocked in Hd.
  destruct (Nat.ltb_spec k (length hs)) as [Hk|Hk]; simpl negb; cbv iota.
  2:{ rewrite hnd_beyond in Hd by exact Hk. change (is_valid s Skeleton.null_handle) with (is_valid s null_handle) in Hd.
      rewrite is_valid_null_m in Hd. inversion Hd; subst s1.
      rewrite kill_not_alive; [exact HI|]. intros Ha. unfold alive in Ha. apply in_map_iff in Ha. destruct Ha as ((k0, key) & E & Hin).
      simpl in E. subst k0. destruct (g_alive HG k key Hin) as (Hlt & _). exact (Nat.lt_irrefl _ (Nat.lt_le_trans _ _ _ Hlt Hk)). }
  destruct (is_valid s (hnd hs k)) eqn:Ev.
  - assert (Ha : alive al k) by (apply (valid_m _ _ _ _ HG Hk); exact Ev).
    pose proof Ha as Ha'. unfold alive in Ha'. apply in_map_iff in Ha'. destruct Ha' as ((k0, key) & E & Hin). simpl in E. subst k0.
    destruct (live_m _ _ _ _ _ HG Hin) as (_ & ai & idx & a & Hloc & Harch & Hkey & Hent).
    rewrite (nth_res_some _ _ _ Hloc) in Hd. bok Hd. simpl l_arch in Hd. cbv iota in Hd. simpl l_idx in Hd.
    bd Hd s2 Hrm. inversion Hd; subst s1; clear Hd.
    assert (Hwa : awf a) by (eapply awf_nth; eassumption).
    destruct (arch_remove_ok _ _ _ _ _ _ _ Harch (proj1 (proj2 Hwa)) (proj2 (proj2 Hwa)) Hrm) as (a' & F2 & A2 & Hrmd).
    destruct (G_destroy_now (proj s) (proj (release_id s2 (hnd hs k))) hs al [] k HG Hk) as (HG' & _ & Hlen').
    { assert (Hb' : (N.of_nat (length hs) + 1 < 16777215)%N) by (unfold within, BOUND in Hb; lia). exact Hb'. }
    { eapply proj_destroy_now; eassumption. }
    unfold proj in Hlen'. cbn [Skeleton.slots] in Hlen'. rewrite !map_length in Hlen'.
    destruct (x_kill_eq x k) as (Fx & Hfind). destruct (xfr_fields _ _ Fx) as (X1 & X2 & X3 & X4 & X5).
    destruct (fr3_ctl _ _ (fr2_fr3 _ _ F2)) as (E1 & E2 & E3 & _).
    constructor.
    + exact HG'.
    + change (archs (release_id s2 (hnd hs k))) with (archs s2). rewrite A2. apply Forall_upd; [exact Hawf|]. eapply awf_removed; eassumption.
    + change (lockc (release_id s2 (hnd hs k))) with (lockc s2). congruence.
    + change (deps (release_id s2 (hnd hs k))) with (deps s2). congruence.
    + change (cinfos (release_id s2 (hnd hs k))) with (cinfos s2). congruence.
    + congruence.
    + congruence.
    + congruence.
    + congruence.
    + rewrite Hlen'. exact Hsl.
    + intros k'. rewrite kill_alive, alive_x_find, Hfind. destruct (Nat.eqb_spec k' k) as [->|Hne].
      * split; [intros (_ & Hc'); congruence|intros Hc'; congruence].
      * rewrite <- alive_x_find, <- Hal. tauto.
    + (* values *)
      intros ai' a'' idx' h' Ha'' Hh'. change (archs (release_id s2 (hnd hs k))) with (archs s2) in Ha''.
      (* the member is alive in the new state and is not k *)
      destruct (members_m _ _ _ _ _ _ _ HG' Ha'' Hh') as (k'' & Hin'' & Hk'' & Eh'' & _).
      apply kill_in in Hin''. destruct Hin'' as (_ & Hnk).
      assert (Hold : forall a0 idx0, nth_error (archs s) ai' = Some a0 -> nth_error (am_ents a0) idx0 = Some h' ->
                am_mask a'' = am_mask a0 -> (forall ci, ci < length (mitems (am_mask a0)) -> get_cell a'' ci idx' = get_cell a0 ci idx0) ->
                exists k0 e, k0 < length hs /\ hnd hs k0 = h' /\ find_ent (x_kill x k) k0 = Some e /\ vmatch e a'' idx').
      { intros a0 idx0 Ha0 Hh0 Em Hc0. destruct (Hv ai' a0 idx0 h' Ha0 Hh0) as (k0 & e & Hk0 & Eh0 & Hf & Hvm).
        assert (k0 = k'') by (eapply (hnd_inj _ hs _ _ _ _ HG'); [exact Hk0|exact Hk''|congruence]). subst k0.
        exists k'', e. split; [exact Hk''|]. split; [exact Eh''|].
        split; [rewrite Hfind; destruct (Nat.eqb_spec k'' k); [congruence|exact Hf]|]. eapply vmatch_transfer; eassumption. }
      rewrite A2 in Ha''. destruct (Nat.eq_dec ai' ai) as [->|Hna].
      * rewrite nth_error_upd_same in Ha'' by (apply nth_error_Some; congruence). inversion Ha''; subst a''.
        destruct (removed_members _ _ _ _ _ _ _ Hrmd idx' h' Hh') as (old & _ & Hold_e & Hold_c & _).
        destruct Hrmd as (_ & _ & Hab & _). destruct (ab3_fields _ _ Hab) as (Em & _).
        apply (Hold a old Harch Hold_e Em Hold_c).
      * rewrite nth_error_upd_other in Ha'' by congruence. apply (Hold a'' idx' Ha'' Hh' eq_refl). reflexivity.
  - inversion Hd; subst s1. assert (Hna : ~ alive al k) by (intros Ha; apply (valid_m _ _ _ _ HG Hk) in Ha; congruence).
    rewrite kill_not_alive by exact Hna.
    assert (Hf : find_ent x k = None) by (apply alive_x_false; destruct (alive_x x k) eqn:E; [exfalso; apply Hna; apply Hal; exact E|reflexivity]).
    unfold x_kill. rewrite Hf. exact HI.
Qed.

(* ---------------------------------------------------------------------------------------- *)
(* the invariant reads the abstract state through find_ent and the control fields only *)
Definition xput (x : xst) (e : ent) : xst := xw_ents x (put_ent (x_ents x) e).

Lemma xput_find x e k : find_ent (xput x e) k = if Nat.eqb k (e_k e) then Some e else find_ent x k.
Proof. rewrite find_ent_findk. simpl. apply findk_put. Qed.
Lemma xput_xfr x e : xfr (xput x e) = xfr x.
Proof. reflexivity. Qed.

Lemma MInv_ext cis s hs al x x' : MInv cis s hs al x -> xfr x' = xfr x -> (forall k, find_ent x' k = find_ent x k) -> MInv cis s hs al x'.
Proof.
  intros [HG Hawf Hl Hdp Hc Hxl Hxd Hxc Hcnt Hsl Hal Hv] Fx Hf. destruct (xfr_fields _ _ Fx) as (X1 & X2 & X3 & X4 & X5).
  constructor; try assumption; try congruence.
  - intros k. rewrite Hal. unfold alive_x. rewrite Hf. tauto.
  - intros ai a idx h Ha Hh. destruct (Hv ai a idx h Ha Hh) as (k & e & A & B & C & D). exists k, e. rewrite Hf. auto.
Qed.

Lemma insert_comp_twice cs c v1 v2 : insert_comp (insert_comp cs c v1) c v2 = insert_comp cs c v2.
Proof.
  induction cs as [|(c', v') t IH]; simpl.
  - rewrite Nat.eqb_refl. reflexivity.
  - destruct (Nat.eqb_spec c c') as [->|Hne]; simpl.
    + rewrite Nat.eqb_refl. reflexivity.
    + destruct (Nat.ltb_spec c c') as [Hlt|Hge]; simpl.
      * rewrite Nat.eqb_refl. reflexivity.
      * apply Nat.eqb_neq in Hne. rewrite Hne. apply Nat.ltb_ge in Hge. rewrite Hge. rewrite IH. reflexivity.
Qed.

Lemma insert_comp_has cs c v : In (c, v) (insert_comp cs c v).
Proof.
  induction cs as [|(c', v') t IH]; simpl; [left; reflexivity|].
  destruct (Nat.eqb c c'); [left; reflexivity|]. destruct (Nat.ltb c c'); [left; reflexivity|right; exact IH].
Qed.

Lemma insert_comp_weak cs c v c' v' : In (c', v') (insert_comp cs c v) -> (c' = c /\ v' = v) \/ In (c', v') cs.
Proof.
  induction cs as [|(c0, v0) t IH]; simpl.
  - intros [E|[]]. inversion E. auto.
  - destruct (Nat.eqb c c0).
    + intros [E|H]; [inversion E; auto|right; right; exact H].
    + destruct (Nat.ltb c c0).
      * intros [E|H]; [inversion E; auto|right; exact H].
      * intros [E|H]; [right; left; exact E|]. destruct (IH H) as [H'|H']; [left; exact H'|right; right; exact H'].
Qed.

Lemma nodup_keys_value {A} (l : list (nat * A)) c v v' : NoDup (map fst l) -> In (c, v) l -> In (c, v') l -> v = v'.
Proof.
  induction l as [|(c0, v0) t IH]; simpl; intros Hnd H1 H2; [contradiction|]. inversion Hnd as [|? ? Hni Hnd']; subst.
  destruct H1 as [E1|H1], H2 as [E2|H2].
  - congruence.
  - inversion E1; subst. exfalso. apply Hni. apply in_map_iff. exists (c, v'). auto.
  - inversion E2; subst. exfalso. apply Hni. apply in_map_iff. exists (c, v). auto.
  - apply IH; assumption.
Qed.

Lemma insert_comp_cases cs c v c' v' : NoDup (map fst (insert_comp cs c v)) -> In (c', v') (insert_comp cs c v) ->
  (c' = c /\ v' = v) \/ (c' <> c /\ In (c', v') cs).
Proof.
  intros Hnd Hin. destruct (Nat.eq_dec c' c) as [->|Hne].
  - left. split; [reflexivity|]. eapply nodup_keys_value; [exact Hnd|exact Hin|apply insert_comp_has].
  - destruct (insert_comp_weak _ _ _ _ _ Hin) as [(E & _)|H]; [congruence|right; auto].
Qed.

Lemma mitems_madd_present m c : mhas m c = true -> mitems (madd m c) = mitems m.
Proof.
  intros H. unfold mitems. apply filter_ext. intros x. rewrite mhas_madd. destruct (Nat.eqb_spec x c) as [->|Hne]; [rewrite H; reflexivity|reflexivity].
Qed.

Lemma cindex_inj m c1 c2 ci : c1 < MASK_BITS -> c2 < MASK_BITS -> cindex m c1 = Some ci -> cindex m c2 = Some ci -> c1 = c2.
Proof. intros H1 H2 E1 E2. apply cindex_nth in E1; [|exact H1]. apply cindex_nth in E2; [|exact H2]. congruence. Qed.

Lemma vmatch_lt e a idx c v : vmatch e a idx -> In (c, v) (e_comps e) -> c < MASK_BITS /\ mhas (am_mask a) c = true.
Proof.
  intros (Hm & _) Hin. assert (Hi : In c (mitems (am_mask a))) by (rewrite <- Hm; apply in_map_iff; exists (c, v); auto).
  apply mitems_in in Hi. exact Hi.
Qed.

Lemma vmatch_has e a idx c : vmatch e a idx -> c < MASK_BITS -> has_comp (e_comps e) c = mhas (am_mask a) c.
Proof.
  intros (Hm & _) Hc. apply eq_iff_eq_true. rewrite has_comp_in, Hm, mitems_in. tauto.
Qed.

(* two members of archetypes with the same handle sit at the same place *)
Lemma member_unique s hs al ai1 a1 idx1 ai2 a2 idx2 h : G (proj s) hs al [] ->
  nth_error (archs s) ai1 = Some a1 -> nth_error (am_ents a1) idx1 = Some h ->
  nth_error (archs s) ai2 = Some a2 -> nth_error (am_ents a2) idx2 = Some h -> ai1 = ai2 /\ idx1 = idx2.
Proof.
  intros HG A1 H1 A2 H2. destruct (members_m _ _ _ _ _ _ _ HG A1 H1) as (_ & _ & _ & _ & L1).
  destruct (members_m _ _ _ _ _ _ _ HG A2 H2) as (_ & _ & _ & _ & L2). rewrite L1 in L2. inversion L2. auto.
Qed.

(* ---------------------------------------------------------------------------------------- *)
(* writing one cell of a live entity (the write of a typed assign, and OGetMut with a value) *)
Lemma MInv_put cis s hs al x k key e ai idx a ci c v a' s' :
  MInv cis s hs al x -> In (k, key) al -> find_ent x k = Some e ->
  nth_error (archs s) ai = Some a -> nth_error (am_ents a) idx = Some (hnd hs k) ->
  cindex (am_mask a) c = Some ci -> c < MASK_BITS ->
  fr1 s' = fr1 s -> archs s' = upd (archs s) ai a' -> ab2 a' = ab2 a -> length (am_cols a') = length (am_cols a) ->
  (forall ci' slot, ci' <> ci \/ slot <> idx -> get_cell a' ci' slot = get_cell a ci' slot) -> get_cell a' ci idx = Some v ->
  MInv cis s' hs al (xput x {| e_k := k; e_comps := insert_comp (e_comps e) c (Some v); e_shared := e_shared e |}).
Proof.
  intros [HG Hawf Hl Hdp Hc Hxl Hxd Hxc Hcnt Hsl Hal Hv] Hin Hfe Ha Hent Hci Hc128 F A Hab Hcl Hoth Hnew.
  destruct (ab2_fields _ _ Hab) as (Em & Esh & Ee & Ez & Ech).
  assert (Hai : ai < length (archs s)) by (apply nth_error_Some; congruence).
  assert (Hproj : proj s' = proj s).
  { rewrite (proj_fr1 _ _ F), A, map_upd. assert (E : parch a' = parch a) by (unfold parch; rewrite Em, Ee; reflexivity).
    rewrite E. rewrite upd_same_id by (apply map_nth_error; exact Ha). destruct s; reflexivity. }
  destruct (fr3_ctl _ _ (fr2_fr3 _ _ (fr1_fr2 _ _ F))) as (E1 & E2 & E3 & _).
  destruct (fr2_slots _ _ (fr1_fr2 _ _ F)) as (E4 & _).
  assert (Hk : k < length hs) by (destruct (live_m _ _ _ _ _ HG Hin); assumption).
  constructor; try (simpl; congruence).
  - rewrite A. apply Forall_upd; [exact Hawf|]. destruct (awf_nth _ _ _ Hawf Ha) as (W1 & W2 & W3). unfold awf. rewrite Esh, Ez, Ee, Hcl, Em. auto.
  - intros k'. rewrite Hal, !alive_x_find, xput_find. simpl. destruct (Nat.eqb_spec k' k) as [->|Hne]; [|tauto].
    rewrite Hfe. split; intros _; discriminate.
  - intros ai' a'' idx' h' Ha'' Hh'. rewrite A in Ha''.
    destruct (Nat.eq_dec ai' ai) as [->|Hna].
    + rewrite nth_error_upd_same in Ha'' by exact Hai. inversion Ha''; subst a''. rewrite Ee in Hh'.
      destruct (Hv ai a idx' h' Ha Hh') as (k0 & e0 & Hk0 & Eh0 & Hf0 & Hvm0).
      destruct (Nat.eq_dec idx' idx) as [->|Hni].
      * assert (Ehh : h' = hnd hs k) by (rewrite Hent in Hh'; congruence).
        assert (k0 = k) by (eapply (hnd_inj _ hs _ _ _ _ HG); [exact Hk0|exact Hk|rewrite Eh0; exact Ehh]). subst k0. rewrite Hfe in Hf0. inversion Hf0; subst e0.
        exists k. eexists. split; [exact Hk|]. split; [exact Eh0|]. split; [rewrite xput_find; simpl; rewrite Nat.eqb_refl; reflexivity|].
        destruct Hvm0 as (Hm0 & Hs0 & Hv0).
        assert (Hkeys : map fst (insert_comp (e_comps e) c (Some v)) = mitems (am_mask a)).
        { rewrite map_fst_insert_comp, Hm0, <- (mitems_madd _ _ Hc128). apply mitems_madd_present. eapply cindex_some_has. exact Hci. }
        split; [simpl; rewrite Em; exact Hkeys|]. split; [exact Hs0|]. simpl. intros c' v' Hin'.
        apply insert_comp_cases in Hin'; [|rewrite Hkeys; apply mitems_nodup].
        unfold acell. rewrite Em. destruct Hin' as [(-> & ->)|(Hnc & Hin')].
        -- rewrite Hci, Hnew. apply cell_le_refl_some.
        -- specialize (Hv0 c' v' Hin'). unfold acell in Hv0. destruct (cindex (am_mask a) c') as [ci'|] eqn:Eci'; [|exact Hv0].
           rewrite Hoth; [exact Hv0|]. left. intros ->. apply Hnc.
           assert (c' < MASK_BITS) by (assert (Hi : In c' (mitems (am_mask a))) by (rewrite <- Hm0; apply in_map_iff; exists (c', v'); auto); apply mitems_in in Hi; tauto).
           eapply cindex_inj; eassumption.
      * assert (Hnk : k0 <> k).
        { intros ->. rewrite Eh0 in Hent. destruct (member_unique _ _ _ _ _ _ _ _ _ _ HG Ha Hh' Ha Hent). congruence. }
        exists k0, e0. split; [exact Hk0|]. split; [exact Eh0|].
        split; [rewrite xput_find; simpl; destruct (Nat.eqb_spec k0 k); [congruence|exact Hf0]|].
        eapply vmatch_transfer; [exact Hvm0|exact Em|]. intros ci' _. apply Hoth. right. exact Hni.
    + rewrite nth_error_upd_other in Ha'' by congruence.
      destruct (Hv ai' a'' idx' h' Ha'' Hh') as (k0 & e0 & Hk0 & Eh0 & Hf0 & Hvm0).
      assert (Hnk : k0 <> k).
      { intros ->. rewrite Eh0 in Hent. destruct (member_unique _ _ _ _ _ _ _ _ _ _ HG Ha'' Hh' Ha Hent). congruence. }
      exists k0, e0. split; [exact Hk0|]. split; [exact Eh0|].
      split; [rewrite xput_find; simpl; destruct (Nat.eqb_spec k0 k); [congruence|exact Hf0]|exact Hvm0].
Qed.

(* ---------------------------------------------------------------------------------------- *)
(* a live entity moves to another archetype (assign / removeComponent): its values follow it *)
Lemma MInv_move cis s hs al x k key e ai a_t pai pidx pa skip s2 e_new :
  MInv cis s hs al x -> In (k, key) al -> find_ent x k = Some e -> e_k e_new = k ->
  nth_error (locs s) (N.to_nat (fst (hnd hs k))) = Some {| l_arch := Some pai; l_idx := pidx |} ->
  nth_error (archs s) pai = Some pa -> nth_error (am_ents pa) pidx = Some (hnd hs k) ->
  nth_error (archs s) ai = Some a_t ->
  external_move s ai (hnd hs k) pai pidx skip = Ok s2 ->
  (forall a2, am_mask a2 = am_mask a_t ->
     (forall ci c, nth_error (mitems (am_mask a_t)) ci = Some c ->
        (forall pci, cindex (am_mask pa) c = Some pci -> get_cell a2 ci (length (am_ents a_t)) = get_cell pa pci pidx) /\
        (cindex (am_mask pa) c = None -> mhas skip c = false ->
         cell_le (default_cell cis c) (get_cell a2 ci (length (am_ents a_t))) = true)) ->
     vmatch e_new a2 (length (am_ents a_t))) ->
  MInv cis s2 hs (retag al k (am_mask a_t)) (xput x e_new) /\
  exists a2, nth_error (archs s2) ai = Some a2 /\ am_mask a2 = am_mask a_t /\
     nth_error (am_ents a2) (length (am_ents a_t)) = Some (hnd hs k) /\
     nth_error (locs s2) (N.to_nat (fst (hnd hs k))) = Some {| l_arch := Some ai; l_idx := length (am_ents a_t) |}.
Proof.
  intros HI Hin Hfe Hek Hloc Hpa Hent Hat Hmv Hnew.
  pose proof HI as [HG Hawf Hl Hdp Hc Hxl Hxd Hxc Hcnt Hsl Hal Hv].
  destruct (awf_nth _ _ _ Hawf Hat) as (Wt1 & Wt2 & Wt3). destruct (awf_nth _ _ _ Hawf Hpa) as (Wp1 & Wp2 & Wp3).
  destruct (external_move_ok _ _ _ _ _ _ _ _ _ Hat Hpa Wt3 Wp2 Wp3 Hmv)
    as (Hne & a2 & pa' & pent & l3 & F & A & Hpent & Hrm & Hlt & L & Hab & He & Hz & Hcl & Hcells & Hval).
  rewrite Hent in Hpent. inversion Hpent; subst pent; clear Hpent.
  destruct (ab3_fields _ _ Hab) as (Em & _).
  assert (Hai : ai < length (archs s)) by (apply nth_error_Some; congruence).
  assert (Hpai : pai < length (archs s)) by (apply nth_error_Some; congruence).
  assert (EA : forall j, nth_error (archs s2) j = if Nat.eqb j pai then Some pa' else if Nat.eqb j ai then Some a2 else nth_error (archs s) j).
  { intros j. rewrite A. destruct (Nat.eqb_spec j pai) as [->|Hjp].
    - apply nth_error_upd_same. rewrite upd_length. exact Hpai.
    - rewrite nth_error_upd_other by congruence. destruct (Nat.eqb_spec j ai) as [->|Hja].
      + apply nth_error_upd_same. exact Hai.
      + apply nth_error_upd_other. congruence. }
  (* structure *)
  assert (HG2 : G (proj s2) hs (retag al k (am_mask a_t)) []).
  { pose (s_mid := set_locs (set_archs s (upd (archs s) pai pa')) l3).
    assert (E_rm : Skeleton.arch_remove (proj s) pai pidx (hnd hs k) = Ok (proj s_mid)).
    { apply (proj_arch_remove s s_mid pai pidx (hnd hs k) pa pa' Hpa); [reflexivity|reflexivity|exact Hrm]. }
    assert (E_ins : Skeleton.arch_insert (proj s_mid) ai (hnd hs k) = Ok (proj s2)).
    { apply (proj_arch_insert s_mid s2 ai (hnd hs k) a_t a2).
      - simpl. rewrite nth_error_upd_other by congruence. exact Hat.
      - rewrite F. reflexivity.
      - simpl. rewrite A. apply upd_comm. exact Hne.
      - exact Hlt.
      - exact L.
      - exact Hab.
      - exact He. }
    apply (map_nth_error ploc) in Hloc. apply (map_nth_error parch) in Hpa, Hat.
    clear - HG Hin Hloc Hpa Hent Hat E_rm E_ins Hne. destruct (hnd hs k) as [i v] eqn:Eh.
    eapply (G_move (proj s) (proj s_mid) (proj s2) hs al k key (am_mask a_t) i v pai pidx (parch pa) ai (parch a_t));
      try eassumption; reflexivity. }
  assert (Hk : k < length hs) by (destruct (live_m _ _ _ _ _ HG Hin); assumption).
  destruct (fr3_ctl _ _ (fr2_fr3 _ _ F)) as (E1 & E2 & E3 & _). destruct (fr2_slots _ _ F) as (E4 & _).
  assert (Hwa2 : awf a2).
  { apply (awf_inserted a_t a2 (hnd hs k)); [split; [|split]| | | |]; assumption. }
  split.
  - constructor; try (simpl; congruence).
    + rewrite A. apply Forall_upd; [apply Forall_upd; [exact Hawf|exact Hwa2]|]. eapply awf_removed; [|exact Hrm]. split; [|split]; assumption.
    + intros k'. rewrite retag_alive, Hal, !alive_x_find, xput_find. rewrite Hek. destruct (Nat.eqb_spec k' k) as [->|Hnk]; [|tauto].
      rewrite Hfe. split; intros _; discriminate.
    + (* values *)
      intros ai' a'' idx' h' Ha'' Hh'. rewrite EA in Ha''.
      assert (Hold : forall aj a0 idx0, nth_error (archs s) aj = Some a0 -> nth_error (am_ents a0) idx0 = Some h' ->
                (aj <> pai \/ idx0 <> pidx) ->
                am_mask a'' = am_mask a0 -> (forall ci, ci < length (mitems (am_mask a0)) -> get_cell a'' ci idx' = get_cell a0 ci idx0) ->
                exists k0 e0, k0 < length hs /\ hnd hs k0 = h' /\ find_ent (xput x e_new) k0 = Some e0 /\ vmatch e0 a'' idx').
      { intros aj a0 idx0 Ha0 Hh0 Hpos Em0 Hc0. destruct (Hv aj a0 idx0 h' Ha0 Hh0) as (k0 & e0 & Hk0 & Eh0 & Hf0 & Hvm0).
        assert (Hnk : k0 <> k).
        { intros ->. rewrite Eh0 in Hent. destruct (member_unique _ _ _ _ _ _ _ _ _ _ HG Ha0 Hh0 Hpa Hent). destruct Hpos; congruence. }
        exists k0, e0. split; [exact Hk0|]. split; [exact Eh0|].
        split; [rewrite xput_find, Hek; destruct (Nat.eqb_spec k0 k); [congruence|exact Hf0]|].
        eapply vmatch_transfer; eassumption. }
      destruct (Nat.eqb_spec ai' pai) as [->|Hnp].
      * inversion Ha''; subst a''.
        destruct (removed_members _ _ _ _ _ _ _ Hrm idx' h' Hh') as (old & Hop & Hold_e & Hold_c & _).
        destruct Hrm as (_ & _ & Habp & _). destruct (ab3_fields _ _ Habp) as (Emp & _).
        apply (Hold pai pa old Hpa Hold_e (or_intror Hop) Emp Hold_c).
      * destruct (Nat.eqb_spec ai' ai) as [->|Hna].
        -- inversion Ha''; subst a''.
           assert (Hlt2 : idx' < length (am_ents a2)) by (apply nth_error_Some; rewrite Hh'; discriminate).
           rewrite He, app_length in Hlt2. simpl in Hlt2. rewrite He in Hh'.
           destruct (Nat.lt_ge_cases idx' (length (am_ents a_t))) as [Hlt'|Hge].
           ++ rewrite nth_error_app1 in Hh' by exact Hlt'.
              apply (Hold ai a_t idx' Hat Hh' (or_introl Hne) Em). intros ci _. apply Hcells. lia.
           ++ assert (idx' = length (am_ents a_t)) by lia.
              subst idx'. rewrite nth_error_app_last in Hh'. inversion Hh'; subst h'.
              exists k, e_new. split; [exact Hk|]. split; [reflexivity|].
              split; [rewrite xput_find, Hek, Nat.eqb_refl; reflexivity|].
              apply (Hnew a2 Em). intros ci c Hn. rewrite <- Hc. apply (Hval ci c Hn).
        -- apply (Hold ai' a'' idx' Ha'' Hh' (or_introl Hnp) eq_refl). reflexivity.
  - exists a2. split; [rewrite EA; apply Nat.eqb_neq in Hne; rewrite Hne, Nat.eqb_refl; reflexivity|]. split; [exact Em|].
    split; [rewrite He; apply nth_error_app_last|]. rewrite L. apply nth_error_upd_same. exact Hlt.
Qed.

(* ---------------------------------------------------------------------------------------- *)
(* assign *)
Lemma MInv_emit cis s hs al x ev : MInv cis s hs al x -> MInv cis (emit s ev) hs al x.
Proof. apply MInv_set_log. Qed.

Lemma alive_in al k : alive al k -> exists key, In (k, key) al.
Proof. unfold alive. intros H. apply in_map_iff in H. destruct H as ((k0, key) & E & Hin). simpl in E. subst k0. eauto. Qed.

(* the specification entity of a live handle is the one matched at its slot *)
Lemma live_vmatch cis s hs al x k key e : MInv cis s hs al x -> In (k, key) al -> find_ent x k = Some e ->
  k < length hs /\ exists ai idx a,
    nth_error (locs s) (N.to_nat (fst (hnd hs k))) = Some {| l_arch := Some ai; l_idx := idx |} /\
    nth_error (archs s) ai = Some a /\ am_mask a = key /\ nth_error (am_ents a) idx = Some (hnd hs k) /\ vmatch e a idx.
Proof.
  intros HI Hin Hfe. destruct (live_m _ _ _ _ _ (mi_G _ _ _ _ _ HI) Hin) as (Hk & ai & idx & a & Hl & Ha & Hkey & Hent).
  split; [exact Hk|]. exists ai, idx, a. repeat (split; [assumption|]).
  destruct (mi_vals _ _ _ _ _ HI ai a idx _ Ha Hent) as (k0 & e0 & Hk0 & Eh0 & Hf0 & Hvm0).
  assert (k0 = k) by (eapply (hnd_inj _ hs _ _ _ _ (mi_G _ _ _ _ _ HI)); eassumption). subst k0. congruence.
Qed.

Lemma MInv_assign cis s hs al x tid k c v typed s' out :
  MInv cis s hs al x -> c < MASK_BITS ->
  (forall z inf, v = Some z -> nth_error cis c = Some inf -> ci_hasval inf = true) ->
  alive_x x k = true -> x_viol (x_step_in x (XoAssign tid k c v)) = x_viol x ->
  step s (OAssign tid (hnd hs k) c (match v with Some z => AValue z | None => ADefault end) typed) = Ok (s', out) ->
  out = RNone /\ exists al', MInv cis s' hs al' (x_step_in x (XoAssign tid k c v)).
Proof.
  intros HI Hc128 Hhv Hax Hviol H.
  pose proof HI as [HG Hawf Hl Hdp Hc Hxl Hxd Hxc Hcnt Hsl Hal Hv].
  destruct (alive_in _ _ (proj2 (Hal k) Hax)) as (key & Hin).
  destruct (find_ent x k) as [e|] eqn:Hfe; [|apply alive_x_find in Hax; congruence].
  destruct (live_vmatch _ _ _ _ _ _ _ _ HI Hin Hfe) as (Hk & pai & pidx & pa & Hloc & Hpa & Hkey & Hent & Hvm).
  assert (Hx : x_step_in x (XoAssign tid k c v) = x_assign x k c v).
  { unfold x_step_in, issued_b. rewrite Hcnt. apply Nat.ltb_lt in Hk. rewrite Hk, Hxl. reflexivity. }
  rewrite Hx in *.
  assert (Hhc : has_comp (e_comps e) c = false).
  { destruct (has_comp (e_comps e) c) eqn:E; [|reflexivity]. unfold x_assign in Hviol. rewrite Hfe, E in Hviol. simpl in Hviol. lia. }
  destruct (x_assign_eq x k c v e Hxd Hfe Hhc) as (Fx & Ex). rewrite Hxc in Ex.
  assert (Hmc : mhas (am_mask pa) c = false) by (rewrite <- (vmatch_has _ _ _ _ Hvm Hc128); exact Hhc).
  (* the model step *)
  rewrite (step_assign_unlocked _ _ _ _ _ _ Hl) in H. bd H inf Hinf. apply info_of_ok in Hinf. rewrite Hc in Hinf.
  bd H r Hr. destruct r as (s2, ((ai, ci), slot)). cbv beta iota in H.
  unfold assign_unlocked in Hr. bd Hr la Hla.
  assert (Ela : la = (pai, pidx)).
  { unfold loc_arch in Hla. rewrite (nth_res_some _ _ _ Hloc) in Hla. bok Hla. simpl in Hla. inversion Hla. reflexivity. }
  subst la. cbv beta iota in Hr. rewrite (nth_res_some _ _ _ Hpa) in Hr. bok Hr. cbv zeta in Hr.
  destruct (awf_nth _ _ _ Hawf Hpa) as (Wp1 & _). rewrite Wp1 in Hr.
  bd Hr rg Hga. destruct rg as (s_g, ai'). cbv beta iota in Hr.
  destruct (MInv_get_arch _ _ _ _ _ _ _ _ HI Hga) as (HIg & Fg & Hkeep & a_t & Hat & Hmt).
  bd Hr s2' Hmv. bd Hr a2' Ha2'. apply nth_res_ok in Ha2'. bd Hr l2 Hl2. apply nth_res_ok in Hl2.
  destruct (cindex (am_mask a2') c) as [ci'|] eqn:Eci; [|discriminate]. inversion Hr; subst s2' ai' ci' slot; clear Hr.
  set (cmid := match v with Some _ => None | None => default_cell cis c end).
  set (e_mid := {| e_k := k; e_comps := insert_comp (e_comps e) c cmid; e_shared := e_shared e |}).
  assert (Hloc_g : nth_error (locs s_g) (N.to_nat (fst (hnd hs k))) = Some {| l_arch := Some pai; l_idx := pidx |})
    by (rewrite (fr1_locs _ _ Fg); exact Hloc).
  assert (Hpa_g : nth_error (archs s_g) pai = Some pa) by (apply Hkeep; exact Hpa).
  match type of Hmv with external_move _ _ _ _ _ ?sk = _ => set (skip := sk) in * end.
  assert (Hnew : forall a2, am_mask a2 = am_mask a_t ->
     (forall ci c0, nth_error (mitems (am_mask a_t)) ci = Some c0 ->
        (forall pci, cindex (am_mask pa) c0 = Some pci -> get_cell a2 ci (length (am_ents a_t)) = get_cell pa pci pidx) /\
        (cindex (am_mask pa) c0 = None -> mhas skip c0 = false ->
         cell_le (default_cell cis c0) (get_cell a2 ci (length (am_ents a_t))) = true)) ->
     vmatch e_mid a2 (length (am_ents a_t))).
  { (* the entity at its new slot *)
    intros a2 Em2 Hcells. destruct Hvm as (Hm0 & Hs0 & Hv0).
    assert (Hkeys : map fst (insert_comp (e_comps e) c cmid) = mitems (am_mask a2)).
    { rewrite map_fst_insert_comp, Hm0, Em2, Hmt. symmetry. apply mitems_madd. exact Hc128. }
    split; [exact Hkeys|]. split; [exact Hs0|]. simpl. intros c' v' Hin'.
    assert (Hi' : In c' (mitems (am_mask a_t))) by (rewrite <- Em2, <- Hkeys; apply in_map_iff; exists (c', v'); auto).
    apply In_nth_error in Hi'. destruct Hi' as (ci' & Hci'). destruct (Hcells ci' c' Hci') as (Hmoved & Hdflt).
    unfold acell. rewrite Em2, (nth_cindex _ _ _ Hci').
    apply insert_comp_cases in Hin'; [|rewrite Hkeys; apply mitems_nodup]. destruct Hin' as [(-> & ->)|(Hnc & Hin')].
    - unfold cmid. destruct v as [z|]; [reflexivity|]. apply Hdflt; [apply cindex_none_has; exact Hmc|apply mhas_zero].
    - specialize (Hv0 c' v' Hin'). unfold acell in Hv0. destruct (cindex (am_mask pa) c') as [pci|] eqn:Epci.
      + rewrite (Hmoved pci eq_refl). exact Hv0.
      + exfalso. apply cindex_none_has in Epci.
        assert (Hi : In c' (mitems (am_mask pa))) by (rewrite <- Hm0; apply in_map_iff; exists (c', v'); auto).
        apply mitems_in in Hi. destruct Hi. congruence. }
  destruct (MInv_move cis s_g hs al x k key e ai a_t pai pidx pa skip s2 e_mid HIg Hin Hfe eq_refl Hloc_g Hpa_g Hent Hat Hmv Hnew)
    as (HI2 & a2 & Ha2 & Em2 & Hent2 & Hloc2).
  rewrite Ha2 in Ha2'. inversion Ha2'; subst a2'. rewrite Hloc2 in Hl2. inversion Hl2; subst l2. simpl l_idx in H.
  destruct v as [z|].
  - (* a value is written *)
    rewrite (Hhv z inf eq_refl Hinf) in H. bd H s3 Hw. apply write_cell_ok in Hw. destruct Hw as (a2'' & Ha2'' & ->).
    rewrite Ha2 in Ha2''. inversion Ha2''; subst a2''.
    assert (Hci_lt : ci < length (am_cols a2)).
    { destruct (awf_nth _ _ _ (mi_awf _ _ _ _ _ HI2) Ha2) as (_ & _ & W). rewrite W. apply (cindex_lt _ _ _ Hc128 Eci). }
    assert (HI3 : MInv cis (set_arch s2 ai (put_cell a2 ci (length (am_ents a_t)) (Some z))) hs (retag al k (am_mask a_t))
                    (xput (xput x e_mid) {| e_k := k; e_comps := insert_comp (e_comps e_mid) c (Some z); e_shared := e_shared e_mid |})).
    { eapply (MInv_put cis s2 hs _ (xput x e_mid) k (am_mask a_t) e_mid ai (length (am_ents a_t)) a2 ci c z); try eassumption.
      - eapply retag_same. exact Hin.
      - rewrite xput_find. simpl. rewrite Nat.eqb_refl. reflexivity.
      - reflexivity.
      - reflexivity.
      - apply ab1_ab2. apply ab1_put.
      - apply put_cell_cols_length.
      - intros ci' slot [Hn|Hn]; [apply get_put_other_col|apply get_put_other_slot]; congruence.
      - apply get_put_same. exact Hci_lt. }
    assert (HI4 : MInv cis (set_arch s2 ai (put_cell a2 ci (length (am_ents a_t)) (Some z))) hs (retag al k (am_mask a_t)) (x_assign x k c (Some z))).
    { eapply MInv_ext; [exact HI3|rewrite Fx; reflexivity|]. intros k'. rewrite find_ent_findk, Ex, findk_put, !xput_find. simpl.
      rewrite insert_comp_twice. destruct (Nat.eqb k' k); reflexivity. }
    destruct typed; inversion H; subst s' out; (split; [reflexivity|]); eexists.
    + destruct (ci_aa inf), (ci_ev inf); repeat apply MInv_emit; exact HI4.
    + exact HI4.
  - (* default construction *)
    inversion H; subst s' out. split; [reflexivity|]. eexists. eapply MInv_ext; [exact HI2|rewrite Fx; reflexivity|].
    intros k'. rewrite find_ent_findk, Ex, findk_put, xput_find. reflexivity.
Qed.

(* ---------------------------------------------------------------------------------------- *)
(* removeComponent *)
Lemma map_fst_filter (cs : list (nat * cell)) c :
  map fst (filter (fun p => negb (Nat.eqb (fst p) c)) cs) = filter (fun x => negb (Nat.eqb x c)) (map fst cs).
Proof. induction cs as [|p t IH]; simpl; [reflexivity|]. destruct (negb (Nat.eqb (fst p) c)); simpl; rewrite IH; reflexivity. Qed.

Lemma dead_find cis s hs al x k : MInv cis s hs al x -> is_valid s (hnd hs k) = false -> find_ent x k = None.
Proof.
  intros HI Hv. apply alive_x_false. destruct (alive_x x k) eqn:E; [|reflexivity]. exfalso.
  apply (mi_alive _ _ _ _ _ HI) in E. destruct (alive_in _ _ E) as (key & Hin).
  destruct (live_m _ _ _ _ _ (mi_G _ _ _ _ _ HI) Hin) as (Hk & _).
  apply (valid_m _ _ _ _ (mi_G _ _ _ _ _ HI) Hk) in E. congruence.
Qed.

Lemma valid_find cis s hs al x k : MInv cis s hs al x -> is_valid s (hnd hs k) = true ->
  k < length hs /\ alive al k /\ exists e, find_ent x k = Some e.
Proof.
  intros HI Hv. destruct (Nat.lt_ge_cases k (length hs)) as [Hk|Hk].
  - split; [exact Hk|]. assert (Ha : alive al k) by (apply (valid_m _ _ _ _ (mi_G _ _ _ _ _ HI) Hk); exact Hv).
    split; [exact Ha|]. apply (mi_alive _ _ _ _ _ HI) in Ha. apply alive_x_find in Ha. destruct (find_ent x k) as [e|]; [eauto|congruence].
  - rewrite hnd_beyond in Hv by exact Hk. discriminate.
Qed.

Lemma MInv_remove cis s hs al x tid k c typed s' out :
  MInv cis s hs al x -> c < MASK_BITS -> (typed = true \/ alive_x x k = true) ->
  step s (ORemove tid (hnd hs k) c typed) = Ok (s', out) ->
  out = RNone /\ exists al', MInv cis s' hs al' (x_step_in x (XoRemove tid k c typed)).
Proof.
  intros HI Hc128 Hctr H.
  pose proof HI as [HG Hawf Hl Hdp Hc Hxl Hxd Hxc Hcnt Hsl Hal Hv].
  rewrite (step_remove_unlocked _ _ _ _ _ Hl) in H.
  assert (Hx : x_step_in x (XoRemove tid k c typed) = if negb (issued_b x k) then x else x_remove x k c).
  { unfold x_step_in. rewrite Hxl. reflexivity. }
  rewrite Hx. clear Hx.
  destruct (is_valid s (hnd hs k)) eqn:Ev.
  - (* the handle is alive *)
    destruct (valid_find _ _ _ _ _ _ HI Ev) as (Hk & Ha & e & Hfe). destruct (alive_in _ _ Ha) as (key & Hin).
    unfold issued_b. rewrite Hcnt. apply Nat.ltb_lt in Hk. rewrite Hk. simpl negb. cbv iota.
    rewrite andb_false_r in H. bd H s1 Hr. inversion H; subst s' out; clear H. split; [reflexivity|].
    destruct (live_vmatch _ _ _ _ _ _ _ _ HI Hin Hfe) as (_ & pai & pidx & pa & Hloc & Hpa & Hkey & Hent & Hvm).
    unfold remove_unlocked in Hr. rewrite (nth_res_some _ _ _ Hloc) in Hr. bok Hr. simpl l_arch in Hr. cbv iota in Hr.
    rewrite (nth_res_some _ _ _ Hpa) in Hr. bok Hr. simpl l_idx in Hr.
    pose proof (vmatch_has _ _ _ _ Hvm Hc128) as Hhas.
    destruct (mhas (am_mask pa) c) eqn:Emc; simpl negb in Hr; cbv iota in Hr.
    + destruct (awf_nth _ _ _ Hawf Hpa) as (Wp1 & _). rewrite Wp1 in Hr.
      bd Hr rg Hga. destruct rg as (s_g, ai). cbv beta iota in Hr.
      destruct (MInv_get_arch _ _ _ _ _ _ _ _ HI Hga) as (HIg & Fg & Hkeep & a_t & Hat & Hmt).
      assert (Hpa_g : nth_error (archs s_g) pai = Some pa) by (apply Hkeep; exact Hpa).
      destruct (Nat.eqb_spec ai pai) as [->|Hne].
      { exfalso. rewrite Hpa_g in Hat. inversion Hat; subst a_t.
        assert (E : mhas (mdel (am_mask pa) c) c = true) by (rewrite <- Hmt; exact Emc).
        rewrite mhas_mdel, Nat.eqb_refl, andb_false_r in E. discriminate. }
      assert (Hloc_g : nth_error (locs s_g) (N.to_nat (fst (hnd hs k))) = Some {| l_arch := Some pai; l_idx := pidx |})
        by (rewrite (fr1_locs _ _ Fg); exact Hloc).
      set (e_new := {| e_k := k; e_comps := filter (fun p => negb (Nat.eqb (fst p) c)) (e_comps e); e_shared := e_shared e |}).
      assert (Hnew : forall a2, am_mask a2 = am_mask a_t ->
         (forall ci c0, nth_error (mitems (am_mask a_t)) ci = Some c0 ->
            (forall pci, cindex (am_mask pa) c0 = Some pci -> get_cell a2 ci (length (am_ents a_t)) = get_cell pa pci pidx) /\
            (cindex (am_mask pa) c0 = None -> mhas 0%N c0 = false ->
             cell_le (default_cell cis c0) (get_cell a2 ci (length (am_ents a_t))) = true)) ->
         vmatch e_new a2 (length (am_ents a_t))).
      { intros a2 Em2 Hcells. destruct Hvm as (Hm0 & Hs0 & Hv0).
        assert (Hkeys : map fst (e_comps e_new) = mitems (am_mask a2)).
        { simpl. rewrite map_fst_filter, Hm0, Em2, Hmt. symmetry. apply mitems_mdel. }
        split; [exact Hkeys|]. split; [exact Hs0|]. intros c' v' Hin'.
        assert (Hi' : In c' (mitems (am_mask a_t))) by (rewrite <- Em2, <- Hkeys; apply in_map_iff; exists (c', v'); auto).
        apply In_nth_error in Hi'. destruct Hi' as (ci' & Hci'). destruct (Hcells ci' c' Hci') as (Hmoved & _).
        unfold acell. rewrite Em2, (nth_cindex _ _ _ Hci'). simpl in Hin'. apply filter_In in Hin'. destruct Hin' as (Hin' & _).
        specialize (Hv0 c' v' Hin'). unfold acell in Hv0. destruct (cindex (am_mask pa) c') as [pci|] eqn:Epci.
        - rewrite (Hmoved pci eq_refl). exact Hv0.
        - exfalso. apply cindex_none_has in Epci.
          assert (Hi : In c' (mitems (am_mask pa))) by (rewrite <- Hm0; apply in_map_iff; exists (c', v'); auto).
          apply mitems_in in Hi. destruct Hi. congruence. }
      destruct (MInv_move cis s_g hs al x k key e ai a_t pai pidx pa 0%N s1 e_new HIg Hin Hfe eq_refl Hloc_g Hpa_g Hent Hat Hr Hnew) as (HI2 & _).
      destruct (x_remove_eq x k c e Hxd Hfe Hhas) as (Fx & Ex).
      eexists. eapply MInv_ext; [exact HI2|rewrite Fx; reflexivity|].
      intros k'. rewrite find_ent_findk, Ex, findk_put, xput_find. reflexivity.
    + inversion Hr; subst s1. rewrite (x_remove_absent _ _ _ _ Hfe Hhas). eauto.
  - (* the handle is not alive *)
    pose proof (dead_find _ _ _ _ _ _ HI Ev) as Hfe.
    assert (Ety : typed = true).
    { destruct Hctr as [E|E]; [exact E|]. apply alive_x_find in E. congruence. }
    subst typed. simpl in H. inversion H; subst s' out. split; [reflexivity|]. exists al.
    destruct (negb (issued_b x k)); [exact HI|]. unfold x_remove. rewrite Hfe. exact HI.
Qed.

(* ---------------------------------------------------------------------------------------- *)
(* getComponent<T>() with a write *)
Lemma step_getmut s h c w :
  step s (OGetMut h c w) =
    (if negb (is_valid s h) then Ok (s, RCell false None) else
    do l <- nth_res (locs s) (N.to_nat (fst h));
    match l_arch l with
    | None => Ok (s, RCell false None)
    | Some ai =>
      do a <- nth_res (archs s) ai;
      match cindex (am_mask a) c with
      | None => Ok (s, RCell false None)
      | Some ci =>
        do ch <- chunk_at a (l_idx l);
        do a1 <- vs_set_one a (wv s) ch ci;
        let a2 := match w with Some x => put_cell a1 ci (l_idx l) (Some x) | None => a1 end in
        Ok (set_arch s ai a2, RCell true (get_cell a2 ci (l_idx l)))
      end
    end).
Proof. reflexivity. Qed.

Lemma MInv_set cis s hs al x k c z s' out :
  MInv cis s hs al x -> c < MASK_BITS ->
  step s (OGetMut (hnd hs k) c (Some z)) = Ok (s', out) ->
  (exists p w, out = RCell p w) /\ MInv cis s' hs al (x_step_in x (XoSet k c z)).
Proof.
  intros HI Hc128 H. pose proof HI as [HG Hawf Hl Hdp Hc Hxl Hxd Hxc Hcnt Hsl Hal Hv].
  rewrite step_getmut in H. unfold x_step_in.
  destruct (is_valid s (hnd hs k)) eqn:Ev; simpl negb in H; cbv iota in H.
  - destruct (valid_find _ _ _ _ _ _ HI Ev) as (Hk & Ha & e & Hfe). destruct (alive_in _ _ Ha) as (key & Hin).
    destruct (live_vmatch _ _ _ _ _ _ _ _ HI Hin Hfe) as (_ & ai & idx & a & Hloc & Harch & Hkey & Hent & Hvm).
    rewrite (nth_res_some _ _ _ Hloc) in H. bok H. simpl l_arch in H. cbv iota in H. simpl l_idx in H.
    rewrite (nth_res_some _ _ _ Harch) in H. bok H.
    rewrite Hfe. rewrite (vmatch_has _ _ _ _ Hvm Hc128).
    destruct (cindex (am_mask a) c) as [ci|] eqn:Eci.
    + rewrite (cindex_some_has _ _ _ Eci). bd H ch Hch. bd H a1 Ha1. apply vs_set_one_ok in Ha1. destruct Ha1 as (g & cv & ->).
      cbv zeta in H. inversion H; subst s' out; clear H. split; [eauto|].
      assert (Hci_lt : ci < length (am_cols a)).
      { destruct (awf_nth _ _ _ Hawf Harch) as (_ & _ & W). rewrite W. apply (cindex_lt _ _ _ Hc128 Eci). }
      eapply (MInv_put cis s hs al x k key e ai idx a ci c z); try eassumption.
      * reflexivity.
      * reflexivity.
      * reflexivity.
      * rewrite put_cell_cols_length. reflexivity.
      * intros ci' slot [Hn|Hn]; [rewrite get_put_other_col by congruence|rewrite get_put_other_slot by congruence]; reflexivity.
      * apply get_put_same. exact Hci_lt.
    + apply cindex_none_has in Eci. rewrite Eci. inversion H; subst s' out. split; [eauto|exact HI].
  - inversion H; subst s' out. rewrite (dead_find _ _ _ _ _ _ HI Ev). split; [eauto|exact HI].
Qed.
