(* C12: the refinement theorem for the Manager on the unlocked alphabet WITH shared components
   (create without shared types, destroyNow, assign, removeComponent, write through getComponent,
   assignShared, removeShared), by induction over scripts. *)
Require Import Coq.Lists.List Coq.NArith.NArith Coq.ZArith.ZArith Coq.Arith.Arith Coq.Bool.Bool Coq.micromega.Lia.
From Mustache Require Import Res Manager MgrSpec Refine.
From Mustache Require Skeleton.
From Mustache Require Import SkelSpec.
From Mustache.proofs Require Import ListLemmas SkelBasics SkelInv SkelSteps SkelMove SkelMain ClosureProofs
  ManagerBasics ManagerMoves ManagerProj ManagerInv ManagerMain ManagerWorlds DepsFrame DepsClosure DepsInv DepsMain
  SharedProofs SharedKey SharedVals SharedFrame SharedInv.
Import ListNotations.

(* the operations covered: those of ManagerMain.alpha_b, with creation masks inside the 128 bits of the bitset and
   without shared types at creation, plus assignShared / removeShared (any shared type, any value) *)
Definition alpha_s (cis : list cinfo) (o : xop) : bool :=
  match o with
  | XoCreate _ m sids _ => (match sids with [] => true | _ => false end) && lowmb m
  | XoAssignShared _ _ _ => true
  | XoRemoveShared _ _ => true
  | _ => alpha_b cis o
  end.

Lemma x_viol_step_mono_s cis x o : alpha_s cis o = true -> x_viol x <= x_viol (x_step x o).
Proof.
  intros Ha. destruct o; try (apply (x_viol_step_mono cis); exact Ha).
  - unfold x_step. destruct (out_of_contract x _); [simpl; lia|]. unfold x_step_in.
    destruct (x_lock x); [rewrite x_viol_create|rewrite x_viol_push]; simpl; lia.
  - unfold x_step. destruct (out_of_contract x _); [simpl; lia|]. unfold x_step_in. destruct (find_ent x k); simpl; lia.
  - unfold x_step. destruct (out_of_contract x _); [simpl; lia|]. unfold x_step_in. destruct (find_ent x k); simpl; lia.
Qed.

Lemma x_viol_run_mono_s cis : forall ops x, forallb (alpha_s cis) ops = true -> x_viol x <= x_viol (fold_left x_step ops x).
Proof.
  induction ops as [|o t IH]; intros x Ha; simpl in *; [lia|]. apply andb_true_iff in Ha. destruct Ha as (Ho & Ht).
  pose proof (x_viol_step_mono_s cis x o Ho). pose proof (IH (x_step x o) Ht). lia.
Qed.

(* ---- one step ---- *)
Lemma SInv_step cis typed s hs al x o s' hs' :
  SInv cis s hs al x -> cis_ok cis -> alpha_s cis o = true -> x_viol x = 0 -> x_viol (x_step x o) = 0 ->
  mstep typed (s, hs) o = Ok (s', hs') -> within (length hs') ->
  exists al', SInv cis s' hs' al' (x_step x o).
Proof.
  intros HS Hok Ha Hv0 Hv1 H Hb. unfold mstep in H. bd H r Hst. destruct r as (s1, out). inversion H; subst s' hs'; clear H.
  destruct (SInv_ctl _ _ _ _ _ HS) as (Hl & Hc & Hd & Hxl & Hxd & Hxc & Hcnt & Hal).
  unfold x_step in *. destruct (out_of_contract x o) eqn:Eooc; [simpl in Hv1; lia|].
  assert (Hb0 : within (length hs)).
  { eapply within_le; [|exact Hb]. destruct out; rewrite ?app_length; simpl; lia. }
  destruct o; simpl in Ha; try discriminate; cbn [concretize] in Hst.
  - (* create *)
    apply andb_true_iff in Ha. destruct Ha as (Hs & Hlm). destruct sids; [|discriminate]. apply lowmb_ok in Hlm.
    destruct (step_create_out _ _ _ _ _ _ Hl Hst) as (h & ->).
    rewrite app_length in Hb. simpl in Hb. replace (length hs + 1) with (S (length hs)) in Hb by lia.
    destruct (SInv_create cis s hs al x tid m via_arch s1 _ HS Hok Hb Hlm Hst) as (h' & E & HS'). inversion E; subst h'.
    eexists. apply SInv_set_log. exact HS'.
  - (* destroyNow *)
    rewrite resolve_hnd in Hst. destruct (SInv_destroy_now cis s hs al x tid k s1 out HS) as (-> & HS'); [|exact Hst|].
    + exact Hb0.
    + eexists. apply SInv_set_log. exact HS'.
  - (* assign *)
    apply andb_true_iff in Ha. destruct Ha as (Hc' & Hhv). apply Nat.ltb_lt in Hc'.
    rewrite resolve_hnd in Hst. simpl in Eooc. rewrite Hxl in Eooc. apply negb_false_iff in Eooc.
    destruct (SInv_assign cis s hs al x tid k c v typed s1 out HS Hc') as (-> & al' & HS'); [|exact Eooc|lia|exact Hst|].
    + intros z inf -> Hinf. rewrite Hinf in Hhv. exact Hhv.
    + exists al'. apply SInv_set_log. exact HS'.
  - (* removeComponent *)
    apply Nat.ltb_lt in Ha. rewrite resolve_hnd in Hst. simpl in Eooc. rewrite Hxl in Eooc.
    destruct (SInv_remove cis s hs al x tid k c typed0 s1 out HS Ha) as (-> & al' & HS'); [|exact Hst|].
    + destruct typed0; [left; reflexivity|right]. simpl in Eooc. apply negb_false_iff in Eooc. exact Eooc.
    + exists al'. apply SInv_set_log. exact HS'.
  - (* assignShared *)
    rewrite resolve_hnd in Hst. simpl in Eooc. apply orb_false_iff in Eooc. destruct Eooc as (Eal & _). apply negb_false_iff in Eal.
    destruct (SInv_assign_shared cis s hs al x k sid v s1 out HS Eal Hst) as (-> & al' & HS').
    exists al'. apply SInv_set_log. exact HS'.
  - (* removeShared *)
    rewrite resolve_hnd in Hst. destruct (SInv_remove_shared cis s hs al x k sid s1 out HS Hst) as ((b & ->) & al' & HS').
    exists al'. apply SInv_set_log. exact HS'.
  - (* write through getComponent *)
    apply Nat.ltb_lt in Ha. rewrite resolve_hnd in Hst.
    destruct (SInv_set cis s hs al x k c v s1 out HS Ha Hst) as ((p & w & ->) & HS').
    exists al. apply SInv_set_log. exact HS'.
Qed.

Lemma SInv_run cis typed : forall ops s hs al x s' hs',
  SInv cis s hs al x -> cis_ok cis -> forallb (alpha_s cis) ops = true -> x_viol x = 0 ->
  x_viol (fold_left x_step ops x) = 0 ->
  fold_res (mstep typed) ops (s, hs) = Ok (s', hs') -> within (length hs') ->
  exists al', SInv cis s' hs' al' (fold_left x_step ops x).
Proof.
  induction ops as [|o t IH]; intros s hs al x s' hs' HS Hok Ha Hv0 Hv1 H Hb; simpl in *.
  - inversion H; subst. eauto.
  - apply andb_true_iff in Ha. destruct Ha as (Ho & Ht). bd H r H1. destruct r as (s1, hs1).
    assert (Hv1' : x_viol (x_step x o) = 0).
    { pose proof (x_viol_run_mono_s cis t (x_step x o) Ht). lia. }
    destruct (SInv_step cis typed s hs al x o s1 hs1 HS Hok Ho Hv0 Hv1' H1) as (al1 & HS1).
    { eapply within_le; [|exact Hb]. eapply mrun_mono. exact H. }
    apply (IH s1 hs1 al1 (x_step x o) s' hs' HS1 Hok Ht Hv1' Hv1 H Hb).
Qed.

Lemma SInv_init n cis : SInv cis (init n cis) [] [] (x_init n cis).
Proof.
  constructor.
  - exact (MInv_init n cis).
  - reflexivity.
  - constructor.
  - apply init_pool_wf.
  - intros sid i Hi. rewrite pool_of_nil in Hi by reflexivity. destruct Hi.
  - intros k key e [].
Qed.

(* ---- what queries observe ---- *)
Lemma acell_ha a c slot : c < MASK_BITS -> acell (ha a) c slot = acell a c slot.
Proof. intros Hc. unfold acell. rewrite ha_mask, (cindex_kmk _ _ _ Hc). destruct (cindex (am_mask a) c); reflexivity. Qed.

Lemma SInv_abs_alive cis s hs al x k e : SInv cis s hs al x -> find_ent x k = Some e ->
  exists e', abs_ent s k (hnd hs k) = Some e' /\ ent_match e e' = true.
Proof.
  intros HS Hfe. destruct (SInv_ctl _ _ _ _ _ HS) as (_ & _ & _ & _ & _ & _ & _ & Hal).
  assert (Ha : alive al k) by (apply Hal; apply alive_x_find; congruence).
  destruct (alive_in _ _ Ha) as (key & Hin).
  destruct (live_s _ _ _ _ _ _ _ _ HS Hin Hfe) as (Hk & ai & idx & a & Hloc & Harch & Hkey & Hent & (Hm & _ & Hv) & Hsh).
  cbn [erase e_comps] in Hm, Hv. rewrite mitems_ha in Hm.
  assert (Ev : is_valid s (hnd hs k) = true) by (apply (valid_m (rk s) _ _ _ (mi_G _ _ _ _ _ (sv_M _ _ _ _ _ HS)) Hk); exact Ha).
  unfold abs_ent. rewrite Ev, Hloc. simpl l_arch. cbv iota. rewrite Harch. simpl l_idx. cbv zeta.
  eexists. split; [reflexivity|]. unfold ent_match. simpl.
  rewrite (findk_key _ _ _ Hfe), Nat.eqb_refl. simpl. fold (shvals s (am_shared a)). rewrite Hsh, shared_match_refl, andb_true_r.
  rewrite abs_comps_acell. apply comps_match_ok; [exact Hm|]. intros c v Hcv. specialize (Hv c v Hcv).
  rewrite acell_ha in Hv; [exact Hv|]. assert (Hi : In c (mitems (am_mask a))) by (rewrite <- Hm; apply in_map_iff; exists (c, v); auto).
  apply mitems_in in Hi. tauto.
Qed.

Lemma SInv_abs_dead cis s hs al x k : SInv cis s hs al x -> find_ent x k = None -> abs_ent s k (hnd hs k) = None.
Proof.
  intros HS Hfe. unfold abs_ent. destruct (is_valid s (hnd hs k)) eqn:Ev; [|reflexivity].
  destruct (valid_find_s _ _ _ _ _ _ HS Ev) as (_ & _ & e & He). congruence.
Qed.

Theorem shared_refinement typed n cis ops s hs :
  cis_ok cis -> forallb (alpha_s cis) ops = true ->
  mrun typed n cis ops = Ok (s, hs) -> x_viol (xrun n cis ops) = 0 -> within (length hs) ->
  length hs = x_count (xrun n cis ops) /\
  forall k,
    match find_ent (xrun n cis ops) k with
    | Some e => exists e', abs_ent s k (nth k hs null_handle) = Some e' /\ ent_match e e' = true
    | None => abs_ent s k (nth k hs null_handle) = None
    end.
Proof.
  intros Hok Ha Hrun Hviol Hb. unfold mrun in Hrun. unfold xrun in *.
  destruct (SInv_run cis typed ops _ _ _ _ _ _ (SInv_init n cis) Hok Ha eq_refl Hviol Hrun Hb) as (al & HS).
  generalize dependent (fold_left x_step ops (x_init n cis)). intros X _ HS.
  destruct (SInv_ctl _ _ _ _ _ HS) as (_ & _ & _ & _ & _ & _ & Hcnt & _).
  split; [symmetry; exact Hcnt|]. intros k.
  destruct (find_ent X k) as [e|] eqn:Hfe.
  - apply (SInv_abs_alive _ _ _ _ _ _ _ HS Hfe).
  - apply (SInv_abs_dead _ _ _ _ _ _ HS Hfe).
Qed.

(* ---- the entity table of the specification stays well formed ---- *)
Lemma xwf2_step_s cis x o : x_lock x = 0 -> xwf2 x -> alpha_s cis o = true -> xwf2 (x_step x o) /\ x_lock (x_step x o) = 0.
Proof.
  intros Hl Hw Ha. destruct o; try (apply (xwf2_step cis); [exact Hl|exact Hw|exact Ha]); try discriminate.
  - unfold x_step. destruct (out_of_contract x _); [split; [exact Hw|exact Hl]|]. unfold x_step_in.
    destruct (find_ent x k) as [e|] eqn:Hf; [|split; [exact Hw|exact Hl]]. split; [|exact Hl].
    eapply xwf2_put; [exact Hw|reflexivity|simpl; lia|]. simpl. eapply find_ent_lt2; eassumption.
  - unfold x_step. destruct (out_of_contract x _); [split; [exact Hw|exact Hl]|]. unfold x_step_in.
    destruct (find_ent x k) as [e|] eqn:Hf; [|split; [exact Hw|exact Hl]]. split; [|exact Hl].
    eapply xwf2_put; [exact Hw|reflexivity|simpl; lia|]. simpl. eapply find_ent_lt2; eassumption.
Qed.

Lemma xwf2_run_s cis : forall ops x, x_lock x = 0 -> xwf2 x -> forallb (alpha_s cis) ops = true ->
  xwf2 (fold_left x_step ops x) /\ x_lock (fold_left x_step ops x) = 0.
Proof.
  induction ops as [|o t IH]; intros x Hl Hw Ha; simpl in *; [split; assumption|]. apply andb_true_iff in Ha. destruct Ha as (Ho & Ht).
  destruct (xwf2_step_s cis x o Hl Hw Ho) as (Hw' & Hl'). apply IH; assumption.
Qed.

(* the statement of Refine.v, for the unlocked alphabet with shared components *)
Theorem shared_refines_on typed n cis ops s hs :
  cis_ok cis -> forallb (alpha_s cis) ops = true ->
  mrun typed n cis ops = Ok (s, hs) -> x_viol (xrun n cis ops) = 0 -> within (length hs) ->
  refines_on typed n cis ops = true.
Proof.
  intros Hok Ha Hrun Hviol Hb. destruct (shared_refinement typed n cis ops s hs Hok Ha Hrun Hviol Hb) as (Hcnt & Hpt).
  unfold refines_on. rewrite Hrun, Hviol. simpl. unfold worlds_match.
  destruct (xwf2_run_s cis ops (x_init n cis) eq_refl) as (Hw & Hl); [split; [constructor|intros e []]|exact Ha|].
  unfold xrun in *. rewrite (sorted_is_ordered_d _ Hl Hw), <- Hcnt. apply Forall2_worlds. unfold abs. apply abs_from_match.
  intros j Hj. simpl. apply Hpt.
Qed.

(* ---- instances: what an entity reports, and one instance per distinct value ---- *)
(* the shared info of the archetype an entity lives in *)
Definition shared_at (s : mst) (h : handle) : shared_info :=
  match nth_error (locs s) (N.to_nat (fst h)) with
  | Some l => match l_arch l with
              | Some ai => match nth_error (archs s) ai with Some a => am_shared a | None => si_null end
              | None => si_null
              end
  | None => si_null
  end.

Lemma SInv_instances cis s hs al x : SInv cis s hs al x ->
  (forall k e, find_ent x k = Some e ->
     si_wf (shared_at s (hnd hs k)) /\
     forall sid v, In (sid, v) (e_shared e) <-> exists i, si_get (shared_at s (hnd hs k)) sid = Some i /\ inst_value s i = v) /\
  (forall k1 e1 k2 e2 sid i1 i2, find_ent x k1 = Some e1 -> find_ent x k2 = Some e2 ->
     si_get (shared_at s (hnd hs k1)) sid = Some i1 -> si_get (shared_at s (hnd hs k2)) sid = Some i2 ->
     (inst_value s i1 = inst_value s i2 <-> i1 = i2)).
Proof.
  intros HS. destruct (SInv_ctl _ _ _ _ _ HS) as (_ & _ & _ & _ & _ & _ & _ & Hal).
  assert (Hat : forall k e, find_ent x k = Some e -> exists ai a, nth_error (archs s) ai = Some a /\ shared_at s (hnd hs k) = am_shared a /\
                 e_shared e = shvals s (am_shared a)).
  { intros k e Hfe. assert (Ha : alive al k) by (apply Hal; apply alive_x_find; congruence).
    destruct (alive_in _ _ Ha) as (key & Hin).
    destruct (live_s _ _ _ _ _ _ _ _ HS Hin Hfe) as (_ & ai & idx & a & Hloc & Harch & _ & _ & _ & Hsh).
    exists ai, a. split; [exact Harch|]. split; [|exact Hsh]. unfold shared_at. rewrite Hloc. simpl. rewrite Harch. reflexivity. }
  split.
  - intros k e Hfe. destruct (Hat k e Hfe) as (ai & a & Harch & -> & Hsh). destruct (SInv_hok _ _ _ _ _ _ _ HS Harch) as (_ & W & _).
    split; [exact W|]. intros sid v. rewrite Hsh. apply shvals_in. exact W.
  - intros k1 e1 k2 e2 sid i1 i2 Hf1 Hf2 G1 G2. split; [|intros ->; reflexivity]. intros Ev.
    destruct (Hat k1 e1 Hf1) as (ai1 & a1 & Ha1 & E1 & _). destruct (Hat k2 e2 Hf2) as (ai2 & a2 & Ha2 & E2 & _). rewrite E1 in G1. rewrite E2 in G2.
    destruct (SInv_hok _ _ _ _ _ _ _ HS Ha1) as (_ & _ & T1 & P1). destruct (SInv_hok _ _ _ _ _ _ _ HS Ha2) as (_ & _ & T2 & P2).
    assert (D1 : In i1 (si_data (am_shared a1))) by (rewrite si_get_lookup in G1; apply lookup_some_in in G1; tauto).
    assert (D2 : In i2 (si_data (am_shared a2))) by (rewrite si_get_lookup in G2; apply lookup_some_in in G2; tauto).
    specialize (P1 i1 D1). specialize (P2 i2 D2). rewrite (T1 _ _ G1) in P1. rewrite (T2 _ _ G2) in P2.
    destruct (sv_pool _ _ _ _ _ HS) as (Hinj & _). destruct (Hinj sid) as (_ & Hu). apply Hu; assumption.
Qed.

Theorem shared_instances typed n cis ops s hs :
  cis_ok cis -> forallb (alpha_s cis) ops = true ->
  mrun typed n cis ops = Ok (s, hs) -> x_viol (xrun n cis ops) = 0 -> within (length hs) ->
  (forall k e, find_ent (xrun n cis ops) k = Some e ->
     si_wf (shared_at s (nth k hs null_handle)) /\
     forall sid v, In (sid, v) (e_shared e) <-> exists i, si_get (shared_at s (nth k hs null_handle)) sid = Some i /\ inst_value s i = v) /\
  (forall k1 e1 k2 e2 sid i1 i2, find_ent (xrun n cis ops) k1 = Some e1 -> find_ent (xrun n cis ops) k2 = Some e2 ->
     si_get (shared_at s (nth k1 hs null_handle)) sid = Some i1 -> si_get (shared_at s (nth k2 hs null_handle)) sid = Some i2 ->
     (inst_value s i1 = inst_value s i2 <-> i1 = i2)).
Proof.
  intros Hok Ha Hrun Hviol Hb. unfold mrun in Hrun. unfold xrun in *.
  destruct (SInv_run cis typed ops _ _ _ _ _ _ (SInv_init n cis) Hok Ha eq_refl Hviol Hrun Hb) as (al & HS).
  exact (SInv_instances _ _ _ _ _ HS).
Qed.
