(* C01 -- a handle is valid exactly while the entity it was issued for is alive.
   The Skeleton (coq/Skeleton.v, tied to entity_manager.{hpp,cpp} by the correspondence runs of ./check C01) driven by
   ANY script over create / destroy / destroyNow / clearArchetype / update / lock / unlock, from any thread ids,
   answers every validity query exactly as the liveness specification (coq/SkelSpec.v) does, for every handle ever
   issued; no handle is issued twice.  Hypothesis: fewer than 16 777 000 handles issued (the 24-bit version field does
   not wrap before that -- the property text excludes wrap-around), and the model run does not end in Err (an Err of the
   model is a crash/throw of the code: update() while locked, thread id beyond the buffers). *)
Require Import Coq.Lists.List Coq.NArith.NArith.
From Mustache Require Import Res Skeleton SkelSpec SkelRun.
From Mustache.proofs Require Import SkelInv SkelRefine SkelMain.
Import ListNotations.

Theorem C01_validity_is_liveness : forall n ops s hs,
  srun n ops = Ok (s, hs) -> (N.of_nat (length hs) < 16777000)%N ->
  length hs = sp_count (spec_run n ops) /\
  NoDup hs /\
  forall k, k < length hs -> is_valid s (nth k hs null_handle) = alive_b (spec_run n ops) k.
Proof. exact validity_is_liveness. Qed.
Print Assumptions C01_validity_is_liveness.

(* the whole relation: free list, locations, archetype membership, command buffers, deferred-destroy set *)
Theorem C01_refinement : forall n ops s hs,
  srun n ops = Ok (s, hs) -> (N.of_nat (length hs) < 16777000)%N -> R s hs (spec_run n ops).
Proof. exact skeleton_refines_spec. Qed.
Print Assumptions C01_refinement.

(* a recycled id is reissued only with a version that no earlier handle of that id carried *)
Theorem C01_recycled_versions_fresh : forall n ops s hs i j,
  srun n ops = Ok (s, hs) -> (N.of_nat (length hs) < 16777000)%N ->
  i < length hs -> j < length hs -> i <> j -> fst (nth i hs null_handle) = fst (nth j hs null_handle) ->
  snd (nth i hs null_handle) <> snd (nth j hs null_handle).
Proof.
  intros n ops s hs i j H Hb Hi Hj Hne Hid Hver.
  destruct (validity_is_liveness n ops s hs H Hb) as (_ & Hnd & _).
  apply Hne. apply (proj1 (NoDup_nth hs null_handle) Hnd); try assumption.
  destruct (nth i hs null_handle), (nth j hs null_handle). simpl in *. congruence.
Qed.
Print Assumptions C01_recycled_versions_fresh.

(* the hypotheses are satisfiable on a run that recycles ids, defers under lock and clears an archetype *)
Example C01_nonvacuous :
  exists s hs, srun 4 [SoCreate 0 1; SoCreate 0 1; SoDestroyNow 0 0; SoLock; SoCreate 1 1; SoDestroy 2 1; SoDestroyNow 1 2; SoCreate 0 2;
                       SoUnlock; SoCreate 0 1; SoUpdate; SoClearArch 2; SoCreate 0 2]%N = Ok (s, hs)
               /\ (N.of_nat (length hs) < 16777000)%N /\ map (is_valid s) hs = [false; false; false; false; true; true].
Proof. eexists. eexists. split; [vm_compute; reflexivity|]. split; vm_compute; reflexivity. Qed.
