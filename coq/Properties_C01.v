(* C01 -- placeholder while the refinement proof is being built: see proofs/SkeletonProofs.v *)
Require Import Coq.Lists.List Coq.NArith.NArith.
From Mustache Require Import Res Skeleton SkelSpec SkelRun.
Import ListNotations.

Example C01_example_run :
  exists s hs, srun 4 [SoCreate 0 1; SoCreate 0 1; SoDestroyNow 0 0; SoLock; SoCreate 1 1; SoUnlock; SoCreate 0 1]%N = Ok (s, hs)
               /\ map (is_valid s) hs = [false; true; true; true].
Proof. eexists. eexists. split. vm_compute. reflexivity. vm_compute. reflexivity. Qed.
Print Assumptions C01_example_run.
