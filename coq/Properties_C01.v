(* C01 -- a handle is valid exactly while the entity it was issued for is alive.
   The Skeleton (coq/Skeleton.v, tied to entity_manager.{hpp,cpp} by the correspondence runs of ./check C01) driven by
   ANY script over create / destroy / destroyNow / clearArchetype / update / lock / unlock, from any thread ids,
   answers every validity query exactly as the liveness specification (coq/SkelSpec.v) does, for every handle ever
   issued; no handle is issued twice.  Hypothesis: fewer than 16 777 000 handles issued (the 24-bit version field does
   not wrap before that -- the property text excludes wrap-around), and the model run does not end in Err (an Err of the
   model is a crash/throw of the code: update() while locked, thread id beyond the buffers). *)
Require Import Coq.Lists.List Coq.NArith.NArith.
From Mustache Require Import Res Skeleton SkelSpec SkelRun.
From Mustache.proofs Require Import SkelInv SkelRefine SkelMain SkelTotal.
Import ListNotations.

Theorem C01_validity_is_liveness : forall n ops s hs,
  srun n ops = Ok (s, hs) -> (N.of_nat (length hs) < 16777000)%N ->
  length hs = sp_count (spec_run n ops) /\
  NoDup hs /\
  forall k, k < length hs -> is_valid s (nth k hs null_handle) = alive_b (spec_run n ops) k.
Proof. exact validity_is_liveness. Qed.
Print Assumptions C01_validity_is_liveness.

(* the whole relation: free list, locations, archetype membership, command buffers, deferred-destroy set *)
Theorem C01_refinement : forall n ops s hs,
  srun n ops = Ok (s, hs) -> (N.of_nat (length hs) < 16777000)%N -> R s hs (spec_run n ops).
Proof. exact skeleton_refines_spec. Qed.
Print Assumptions C01_refinement.

(* a recycled id is reissued only with a version that no earlier handle of that id carried *)
Theorem C01_recycled_versions_fresh : forall n ops s hs i j,
  srun n ops = Ok (s, hs) -> (N.of_nat (length hs) < 16777000)%N ->
  i < length hs -> j < length hs -> i <> j -> fst (nth i hs null_handle) = fst (nth j hs null_handle) ->
  snd (nth i hs null_handle) <> snd (nth j hs null_handle).
Proof.
  intros n ops s hs i j H Hb Hi Hj Hne Hid Hver.
  destruct (validity_is_liveness n ops s hs H Hb) as (_ & Hnd & _).
  apply Hne. apply (proj1 (NoDup_nth hs null_handle) Hnd); try assumption.
  destruct (nth i hs null_handle), (nth j hs null_handle). simpl in *. congruence.
Qed.
Print Assumptions C01_recycled_versions_fresh.

(* the hypotheses are satisfiable on a run that recycles ids, defers under lock and clears an archetype *)
Example C01_nonvacuous :
  exists s hs, srun 4 [SoCreate 0 1; SoCreate 0 1; SoDestroyNow 0 0; SoLock; SoCreate 1 1; SoDestroy 2 1; SoDestroyNow 1 2; SoCreate 0 2;
                       SoUnlock; SoCreate 0 1; SoUpdate; SoClearArch 2; SoCreate 0 2]%N = Ok (s, hs)
               /\ (N.of_nat (length hs) < 16777000)%N /\ map (is_valid s) hs = [false; false; false; false; true; true].
Proof. eexists. eexists. split; [vm_compute; reflexivity|]. split; vm_compute; reflexivity. Qed.

(* the model run never ends in Err inside the contract, so the theorems above are not vacuous anywhere in it.
   Contract (proofs/SkelTotal.v: in_contract, op_ok), judged in the specification state reached by each prefix:
   update() only while not locked; create / destroy / destroyNow issued while locked use a thread id < n (the number
   of command buffers).  bounded: the script issues fewer than 16 777 000 handles. *)
Theorem C01_model_run_total : forall n ops,
  in_contract n ops -> bounded ops -> exists s hs, srun n ops = Ok (s, hs).
Proof. exact srun_total. Qed.
Print Assumptions C01_model_run_total.

(* ... and the run that exists is related to the specification *)
Theorem C01_model_run_total_refines : forall n ops,
  in_contract n ops -> bounded ops -> exists s hs, srun n ops = Ok (s, hs) /\ R s hs (spec_run n ops).
Proof. exact srun_total_refines. Qed.
Print Assumptions C01_model_run_total_refines.

(* the contract is satisfiable on a script with nested locks, several threads, recycled ids and clearArchetype under lock;
   each clause is necessary (outside it the model returns Err) *)
Example C01_contract_nonvacuous : in_contract 4 demo_script /\ bounded demo_script.
Proof. exact srun_total_nonvacuous. Qed.
Example C01_update_while_locked_errs : srun 4 [SoLock; SoUpdate] = Err (Throw 2).
Proof. exact update_while_locked_errs. Qed.
Example C01_tid_beyond_buffers_errs : srun 4 [SoLock; SoDestroy 4 0] = Err OobIndex.
Proof. exact tid_beyond_buffers_errs. Qed.
