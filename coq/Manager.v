(* Manager: the faithful executable model of EntityManager + Archetype + VersionStorage + TemporalStorage
   with component values, shared components, dependencies, version stamps and a lifecycle event log.
   Written to mirror the C++ on the current tree line by line (file:line references at each function).
   Tier B of the correspondence compares every part of this state with the implementation after
   every operation.  NO PROOFS in this file. *)
Require Import Coq.Lists.List Coq.NArith.NArith Coq.ZArith.ZArith Coq.Arith.Arith Coq.Bool.Bool.
From Mustache Require Import Res Iter.
Import ListNotations.
Local Open Scope N_scope.

(* ---------------------------------------------------------------------------------------- *)
(* component masks: std::bitset<128> as N                                                    *)
Definition mask := N.
Definition MASK_BITS : nat := 128.
Definition mhas (m : mask) (c : nat) : bool := N.testbit m (N.of_nat c).
Definition madd (m : mask) (c : nat) : mask := N.setbit m (N.of_nat c).
Definition mdel (m : mask) (c : nat) : mask := N.clearbit m (N.of_nat c).
Definition mset (m : mask) (c : nat) (b : bool) : mask := if b then madd m c else mdel m c.
Definition munion (a b : mask) : mask := N.lor a b.
Definition minter (a b : mask) : mask := N.land a b.
Definition minverse (m : mask) : mask := N.ldiff (N.ones 128) m.
Definition mmatch (m rhs : mask) : bool := N.land m rhs =? rhs.          (* isMatch *)
Definition mitems (m : mask) : list nat := filter (mhas m) (seq 0 MASK_BITS).
Definition mcount (m : mask) : nat := length (mitems m).
(* index of component c inside an archetype with mask m (component_id_to_component_index) *)
Definition cindex (m : mask) (c : nat) : option nat :=
  if mhas m c then Some (length (filter (mhas m) (seq 0 c))) else None.

(* ---------------------------------------------------------------------------------------- *)
(* component descriptions (ComponentInfo as far as the manager uses it)                      *)
Record cinfo := {
  ci_pal : nat;              (* palette number, only used to label events *)
  ci_ev : bool;              (* lifecycle functions of this type write to the event log *)
  ci_hasval : bool;          (* the type carries a value the driver can read *)
  ci_create : option Z;      (* functions.create present: the value it writes *)
  ci_move : bool;            (* functions.move (move-assign) present *)
  ci_mctor : bool;           (* functions.move_constructor present *)
  ci_destroy : bool;
  ci_default : option Z;     (* default_value non-empty *)
  ci_aa : bool;              (* after_assign *)
  ci_br : bool;              (* before_remove *)
  ci_clone : bool;           (* functions.clone present *)
  ci_copy : bool
}.

Definition handle := (N * N)%type.
Definition VER_MOD : N := 16777216.
Definition NULL_ID : N := 1073741823.
Definition NULL_VER : N := 16777215.
Definition WV_NULL : N := 4294967295.
Definition WV_MOD : N := 4294967296.
Definition null_handle : handle := (NULL_ID, NULL_VER).
Definition handle_eqb (a b : handle) : bool := (fst a =? fst b) && (snd a =? snd b).
Definition is_null (h : handle) : bool := handle_eqb h null_handle.

(* places of component instances, for the lifecycle log *)
Inductive place := PArch (a : nat) (cid : nat) (slot : nat) | PTmp (epoch : nat) (n : nat).
Inductive event :=
| EvC (pal : nat) (p : place)                     (* default construction (functions.create) *)
| EvV (pal : nat) (p : place)                     (* construction from a value (typed assign with arguments) *)
| EvCP (pal : nat) (dst src : place)
| EvMC (pal : nat) (dst src : place)
| EvMA (pal : nat) (dst src : place)
| EvD (pal : nat) (p : place)
| EvAA (pal : nat) (p : place) (h : handle)
| EvBR (pal : nat) (p : place) (h : handle).

(* shared components *)
Record shared_info := { si_mask : mask; si_ids : list nat; si_data : list nat (* instance numbers *) }.
Definition si_null : shared_info := {| si_mask := 0; si_ids := []; si_data := [] |}.

Fixpoint index_of (l : list nat) (x : nat) (i : nat) : option nat :=
  match l with [] => None | y :: t => if Nat.eqb x y then Some i else index_of t x (S i) end.
Fixpoint remove_at {A} (l : list A) (i : nat) : list A :=
  match l, i with [], _ => [] | _ :: t, O => t | h :: t, S i' => h :: remove_at t i' end.

(* component_mask.hpp:161-169 *)
Definition si_add (s : shared_info) (id inst : nat) : res shared_info :=
  if mhas (si_mask s) id then
    match index_of (si_ids s) id 0 with
    | Some i => if Nat.ltb i (length (si_data s)) then Ok {| si_mask := si_mask s; si_ids := si_ids s; si_data := upd (si_data s) i inst |}
                else Err OobIndex
    | None => Err OobIndex      (* data_[null index] *)
    end
  else Ok {| si_mask := madd (si_mask s) id; si_ids := si_ids s ++ [id]; si_data := si_data s ++ [inst] |}.
(* component_mask.hpp:171-178 *)
Definition si_remove (s : shared_info) (id : nat) : res shared_info :=
  if mhas (si_mask s) id then
    match index_of (si_ids s) id 0 with
    | Some i => Ok {| si_mask := mdel (si_mask s) id; si_ids := remove_at (si_ids s) i; si_data := remove_at (si_data s) i |}
    | None => Err OobIndex      (* erase(begin() + null index) *)
    end
  else Ok {| si_mask := mdel (si_mask s) id; si_ids := si_ids s; si_data := si_data s |}.
(* component_mask.hpp:219-233: this.merge(oth) *)
Definition si_merge (s oth : shared_info) : shared_info :=
  {| si_mask := munion (si_mask oth) (si_mask s); si_data := si_data oth ++ si_data s; si_ids := si_ids oth ++ si_ids s |}.
Definition si_eqb (a b : shared_info) : bool :=
  (si_mask a =? si_mask b) && (if list_eq_dec Nat.eq_dec (si_data a) (si_data b) then true else false).

(* ---------------------------------------------------------------------------------------- *)
Definition cell := option Z.
Record archetype := {
  am_mask : mask;
  am_shared : shared_info;
  am_ents : list handle;
  am_cols : list (list cell);     (* per component index; storage bytes are never erased, so neither are these *)
  am_size : nat;                  (* data_storage_->size() *)
  am_chunk : nat;                 (* version chunk size *)
  am_gver : list N;               (* global_versions_ *)
  am_cver : list N                (* chunk_versions_, flat *)
}.

Inductive acmd :=
| ACreate (h : handle) (has_action : bool) (m : mask) (sh : shared_info)
| ADestroy (h : handle)
| ADestroyNow (h : handle)
| ARemove (h : handle) (c : nat)
| AAssign (h : handle) (c : nat) (tmp : nat).

Record slot := { s_id : N; s_ver : N }.
Record loc := { l_arch : option nat; l_idx : nat }.
Definition null_slot : slot := {| s_id := NULL_ID; s_ver := NULL_VER |}.
Definition default_loc : loc := {| l_arch := None; l_idx := 0 |}.

Record mst := {
  slots : list slot;
  locs : list loc;
  next_slot : N;
  empty_slots : nat;
  archs : list archetype;
  lockc : nat;
  next_eid : N;
  bufs : list (list acmd);
  tmps : list (list cell);            (* per buffer: the temporaries of its assign commands, by number *)
  marked : list handle;
  deps : list (nat * mask);           (* dependencies_, a std::map: kept sorted by key *)
  pool : list (list nat);             (* shared_components_[sid]: instances created so far *)
  insts : list (nat * Z);             (* every shared instance ever made: (sid, value) *)
  wv : N;                             (* World::version_ *)
  cached : option N;                  (* EntityManager::world_version_: World::version() at construction, refreshed by update() *)
  def_chunk : nat;
  chunk_fns : list (nat * nat * mask);
  cinfos : list cinfo;
  nthreads : nat;
  epoch : nat;
  log : list event                    (* reversed *)
}.

Definition init (nthr : nat) (cis : list cinfo) : mst :=
  {| slots := []; locs := []; next_slot := 0; empty_slots := 0; archs := []; lockc := 0; next_eid := 0;
     bufs := []; tmps := []; marked := []; deps := []; pool := []; insts := []; wv := 0; cached := Some 0;
     def_chunk := 1024; chunk_fns := []; cinfos := cis; nthreads := nthr; epoch := 0; log := [] |}.

(* setters *)
Definition set_slots s v := {| slots := v; locs := locs s; next_slot := next_slot s; empty_slots := empty_slots s; archs := archs s; lockc := lockc s; next_eid := next_eid s; bufs := bufs s; tmps := tmps s; marked := marked s; deps := deps s; pool := pool s; insts := insts s; wv := wv s; cached := cached s; def_chunk := def_chunk s; chunk_fns := chunk_fns s; cinfos := cinfos s; nthreads := nthreads s; epoch := epoch s; log := log s |}.
Definition set_locs s v := {| slots := slots s; locs := v; next_slot := next_slot s; empty_slots := empty_slots s; archs := archs s; lockc := lockc s; next_eid := next_eid s; bufs := bufs s; tmps := tmps s; marked := marked s; deps := deps s; pool := pool s; insts := insts s; wv := wv s; cached := cached s; def_chunk := def_chunk s; chunk_fns := chunk_fns s; cinfos := cinfos s; nthreads := nthreads s; epoch := epoch s; log := log s |}.
Definition set_free s ns es := {| slots := slots s; locs := locs s; next_slot := ns; empty_slots := es; archs := archs s; lockc := lockc s; next_eid := next_eid s; bufs := bufs s; tmps := tmps s; marked := marked s; deps := deps s; pool := pool s; insts := insts s; wv := wv s; cached := cached s; def_chunk := def_chunk s; chunk_fns := chunk_fns s; cinfos := cinfos s; nthreads := nthreads s; epoch := epoch s; log := log s |}.
Definition set_archs s v := {| slots := slots s; locs := locs s; next_slot := next_slot s; empty_slots := empty_slots s; archs := v; lockc := lockc s; next_eid := next_eid s; bufs := bufs s; tmps := tmps s; marked := marked s; deps := deps s; pool := pool s; insts := insts s; wv := wv s; cached := cached s; def_chunk := def_chunk s; chunk_fns := chunk_fns s; cinfos := cinfos s; nthreads := nthreads s; epoch := epoch s; log := log s |}.
Definition set_lock s v := {| slots := slots s; locs := locs s; next_slot := next_slot s; empty_slots := empty_slots s; archs := archs s; lockc := v; next_eid := next_eid s; bufs := bufs s; tmps := tmps s; marked := marked s; deps := deps s; pool := pool s; insts := insts s; wv := wv s; cached := cached s; def_chunk := def_chunk s; chunk_fns := chunk_fns s; cinfos := cinfos s; nthreads := nthreads s; epoch := epoch s; log := log s |}.
Definition set_eid s v := {| slots := slots s; locs := locs s; next_slot := next_slot s; empty_slots := empty_slots s; archs := archs s; lockc := lockc s; next_eid := v; bufs := bufs s; tmps := tmps s; marked := marked s; deps := deps s; pool := pool s; insts := insts s; wv := wv s; cached := cached s; def_chunk := def_chunk s; chunk_fns := chunk_fns s; cinfos := cinfos s; nthreads := nthreads s; epoch := epoch s; log := log s |}.
Definition set_bufs s v t := {| slots := slots s; locs := locs s; next_slot := next_slot s; empty_slots := empty_slots s; archs := archs s; lockc := lockc s; next_eid := next_eid s; bufs := v; tmps := t; marked := marked s; deps := deps s; pool := pool s; insts := insts s; wv := wv s; cached := cached s; def_chunk := def_chunk s; chunk_fns := chunk_fns s; cinfos := cinfos s; nthreads := nthreads s; epoch := epoch s; log := log s |}.
Definition set_marked s v := {| slots := slots s; locs := locs s; next_slot := next_slot s; empty_slots := empty_slots s; archs := archs s; lockc := lockc s; next_eid := next_eid s; bufs := bufs s; tmps := tmps s; marked := v; deps := deps s; pool := pool s; insts := insts s; wv := wv s; cached := cached s; def_chunk := def_chunk s; chunk_fns := chunk_fns s; cinfos := cinfos s; nthreads := nthreads s; epoch := epoch s; log := log s |}.
Definition set_deps s v := {| slots := slots s; locs := locs s; next_slot := next_slot s; empty_slots := empty_slots s; archs := archs s; lockc := lockc s; next_eid := next_eid s; bufs := bufs s; tmps := tmps s; marked := marked s; deps := v; pool := pool s; insts := insts s; wv := wv s; cached := cached s; def_chunk := def_chunk s; chunk_fns := chunk_fns s; cinfos := cinfos s; nthreads := nthreads s; epoch := epoch s; log := log s |}.
Definition set_pool s v i := {| slots := slots s; locs := locs s; next_slot := next_slot s; empty_slots := empty_slots s; archs := archs s; lockc := lockc s; next_eid := next_eid s; bufs := bufs s; tmps := tmps s; marked := marked s; deps := deps s; pool := v; insts := i; wv := wv s; cached := cached s; def_chunk := def_chunk s; chunk_fns := chunk_fns s; cinfos := cinfos s; nthreads := nthreads s; epoch := epoch s; log := log s |}.
Definition set_wv s v c := {| slots := slots s; locs := locs s; next_slot := next_slot s; empty_slots := empty_slots s; archs := archs s; lockc := lockc s; next_eid := next_eid s; bufs := bufs s; tmps := tmps s; marked := marked s; deps := deps s; pool := pool s; insts := insts s; wv := v; cached := c; def_chunk := def_chunk s; chunk_fns := chunk_fns s; cinfos := cinfos s; nthreads := nthreads s; epoch := epoch s; log := log s |}.
Definition set_chunkcfg s d f := {| slots := slots s; locs := locs s; next_slot := next_slot s; empty_slots := empty_slots s; archs := archs s; lockc := lockc s; next_eid := next_eid s; bufs := bufs s; tmps := tmps s; marked := marked s; deps := deps s; pool := pool s; insts := insts s; wv := wv s; cached := cached s; def_chunk := d; chunk_fns := f; cinfos := cinfos s; nthreads := nthreads s; epoch := epoch s; log := log s |}.
Definition set_epoch s v := {| slots := slots s; locs := locs s; next_slot := next_slot s; empty_slots := empty_slots s; archs := archs s; lockc := lockc s; next_eid := next_eid s; bufs := bufs s; tmps := tmps s; marked := marked s; deps := deps s; pool := pool s; insts := insts s; wv := wv s; cached := cached s; def_chunk := def_chunk s; chunk_fns := chunk_fns s; cinfos := cinfos s; nthreads := nthreads s; epoch := v; log := log s |}.
Definition set_log s v := {| slots := slots s; locs := locs s; next_slot := next_slot s; empty_slots := empty_slots s; archs := archs s; lockc := lockc s; next_eid := next_eid s; bufs := bufs s; tmps := tmps s; marked := marked s; deps := deps s; pool := pool s; insts := insts s; wv := wv s; cached := cached s; def_chunk := def_chunk s; chunk_fns := chunk_fns s; cinfos := cinfos s; nthreads := nthreads s; epoch := epoch s; log := v |}.
Definition emit (s : mst) (e : event) : mst := set_log s (e :: log s).

Definition set_arch (s : mst) (ai : nat) (a : archetype) : mst := set_archs s (upd (archs s) ai a).
Definition with_ents a v := {| am_mask := am_mask a; am_shared := am_shared a; am_ents := v; am_cols := am_cols a; am_size := am_size a; am_chunk := am_chunk a; am_gver := am_gver a; am_cver := am_cver a |}.
Definition with_cols a v := {| am_mask := am_mask a; am_shared := am_shared a; am_ents := am_ents a; am_cols := v; am_size := am_size a; am_chunk := am_chunk a; am_gver := am_gver a; am_cver := am_cver a |}.
Definition with_size a v := {| am_mask := am_mask a; am_shared := am_shared a; am_ents := am_ents a; am_cols := am_cols a; am_size := v; am_chunk := am_chunk a; am_gver := am_gver a; am_cver := am_cver a |}.
Definition with_vers a g c := {| am_mask := am_mask a; am_shared := am_shared a; am_ents := am_ents a; am_cols := am_cols a; am_size := am_size a; am_chunk := am_chunk a; am_gver := g; am_cver := c |}.

Definition info_of (s : mst) (c : nat) : res cinfo :=
  match nth_error (cinfos s) c with Some i => Ok i | None => Err OobIndex end.

(* ---------------------------------------------------------------------------------------- *)
(* validity and id table: as in Skeleton.v                                                    *)
Definition is_valid (s : mst) (h : handle) : bool :=
  if is_null h then false else
  match nth_error (slots s) (N.to_nat (fst h)) with
  | Some sl => s_ver sl =? snd h
  | None => false
  end.

Definition update_location (s : mst) (h : handle) (l : loc) : res mst :=
  do ls <- upd_res (locs s) (N.to_nat (fst h)) l; Ok (set_locs s ls).

Definition create_id (s : mst) : res (mst * handle) :=
  match empty_slots s with
  | O =>
    let id := N.of_nat (length (slots s)) in
    Ok (set_locs (set_slots s (slots s ++ [{| s_id := id; s_ver := 0 |}])) (locs s ++ [default_loc]), (id, 0))
  | S e =>
    let id := next_slot s in
    do sl <- nth_res (slots s) (N.to_nat id);
    let h := (id, s_ver sl) in
    let s1 := set_free s (s_id sl) e in
    let s2 := set_slots s1 (upd (slots s1) (N.to_nat id) {| s_id := id; s_ver := s_ver sl |}) in
    do ls <- upd_res (locs s2) (N.to_nat id) default_loc;
    Ok (set_locs s2 ls, h)
  end.

Definition release_id (s : mst) (h : handle) : mst :=
  let id := fst h in
  let i := N.to_nat id in
  let sl0 := if Nat.ltb i (length (slots s)) then slots s else resize (slots s) (S i) null_slot in
  let nxt := match empty_slots s with O => id + 1 | S _ => next_slot s end in
  let s1 := set_slots s (upd sl0 i {| s_id := nxt; s_ver := (snd h + 1) mod VER_MOD |}) in
  set_free s1 id (S (empty_slots s)).

Definition handle_ltb (a b : handle) : bool :=
  (snd a <? snd b) || ((snd a =? snd b) && (fst a <? fst b)).
Fixpoint set_insert (l : list handle) (h : handle) : list handle :=
  match l with
  | [] => [h]
  | x :: t => if handle_eqb x h then l else if handle_ltb h x then h :: l else x :: set_insert t h
  end.

(* ---------------------------------------------------------------------------------------- *)
(* dependencies: entity_manager.cpp:118-123, 141-160                                          *)
Fixpoint dep_find (d : list (nat * mask)) (c : nat) : option mask :=
  match d with [] => None | (k, m) :: t => if Nat.eqb k c then Some m else dep_find t c end.

Definition extra_round (d : list (nat * mask)) (cur result : mask) : mask :=
  fold_left (fun r c => match dep_find d c with Some m => munion r m | None => r end) (mitems cur) result.

Fixpoint extra_loop (fuel : nat) (d : list (nat * mask)) (cur result : mask) : res mask :=
  match fuel with
  | O => Err OutOfFuel
  | S f =>
    let prev := result in
    let result' := extra_round d cur result in
    if prev =? result' then Ok result' else extra_loop f d result' result'
  end.

Definition extra_components (s : mst) (m : mask) : res mask :=
  match deps s with
  | [] => Ok 0
  | d => extra_loop 130 d m 0
  end.

Fixpoint dep_set (d : list (nat * mask)) (c : nat) (m : mask) : list (nat * mask) :=
  match d with
  | [] => [(c, m)]
  | (k, v) :: t => if Nat.eqb k c then (k, m) :: t else if Nat.ltb c k then (c, m) :: d else (k, v) :: dep_set t c m
  end.

Definition add_dependency (s : mst) (c : nat) (extra : mask) : res mst :=
  do ex <- extra_components s extra;
  let old := match dep_find (deps s) c with Some m => m | None => 0 end in
  Ok (set_deps s (dep_set (deps s) c (munion old (munion extra ex)))).

(* ---------------------------------------------------------------------------------------- *)
(* version storage: component_version_storage.cpp                                            *)
Definition chunk_at (a : archetype) (idx : nat) : res nat :=
  match am_chunk a with O => Err DivZero | c => Ok (idx / c)%nat end.

Fixpoint set_range {A} (l : list A) (from n : nat) (x : A) : list A :=
  match n with O => l | S n' => set_range (upd l from x) (S from) n' x end.

(* setVersion(version, chunk): all components of the chunk and the global stamps *)
Definition vs_set_chunk (a : archetype) (v : N) (chunk : nat) : res archetype :=
  let nc := length (am_gver a) in
  if Nat.ltb (length (am_cver a)) (nc * chunk + nc) then Err OobIndex else
  Ok (with_vers a (map (fun _ => v) (am_gver a)) (set_range (am_cver a) (nc * chunk) nc v)).

(* emplace: component_version_storage.cpp:15-23 *)
Definition vs_emplace (a : archetype) (v : N) (idx : nat) : res archetype :=
  do chunk <- chunk_at a idx;
  let nc := length (am_gver a) in
  let a1 := if Nat.leb (chunk * nc) (length (am_cver a))
            then with_vers a (am_gver a) (resize (am_cver a) (S chunk * nc) WV_NULL) else a in
  vs_set_chunk a1 v chunk.

(* setVersion(version, chunk, component) *)
Definition vs_set_one (a : archetype) (v : N) (chunk ci : nat) : res archetype :=
  let nc := length (am_gver a) in
  do cv <- upd_res (am_cver a) (nc * chunk + ci) v;
  do gv <- upd_res (am_gver a) ci v;
  Ok (with_vers a gv cv).

(* ---------------------------------------------------------------------------------------- *)
(* cells                                                                                      *)
Definition get_cell (a : archetype) (ci slot : nat) : cell :=
  nth slot (nth ci (am_cols a) []) None.
Definition put_cell (a : archetype) (ci slot : nat) (v : cell) : archetype :=
  let col := nth ci (am_cols a) [] in
  let col' := if Nat.ltb slot (length col) then col else resize col (S slot) None in
  with_cols a (upd (am_cols a) ci (upd col' slot v)).

(* ---------------------------------------------------------------------------------------- *)
(* getArchetype: entity_manager.cpp:26-77                                                    *)
Fixpoint find_arch (l : list archetype) (m : mask) (sh : shared_info) (i : nat) : option nat :=
  match l with
  | [] => None
  | a :: t => if (am_mask a =? m) && si_eqb (am_shared a) sh then Some i else find_arch t m sh (S i)
  end.

Definition resolve_chunk (s : mst) (m : mask) : res nat :=
  let '(mn, mx) := fold_left (fun (acc : nat * nat) (f : nat * nat * mask) =>
      let '(mn, mx) := acc in
      let '(fmin, fmax, fm) := f in
      let '(smin, smax) := if mmatch m fm then (fmin, fmax) else (O, O) in
      let mn' := if Nat.eqb mn 0 || Nat.ltb mn smin then smin else mn in
      let mx' := if Nat.eqb mx 0 || (Nat.ltb 0 smax && Nat.ltb smax mx) then smax else mx in
      (mn', mx')) (chunk_fns s) (O, O) in
  if Nat.ltb 0 mx && Nat.ltb mx mn then Err (Throw 3) else        (* mx = 0: no function set an upper bound *)
  let c := def_chunk s in
  let c := if Nat.ltb c mn then mn else c in
  let c := if Nat.ltb 0 mx && Nat.ltb mx c then mx else c in
  Ok c.

Definition get_arch (s : mst) (m : mask) (sh : shared_info) : res (mst * nat) :=
  do ex <- extra_components s m;
  let am := munion m ex in
  match find_arch (archs s) am sh 0 with
  | Some i => Ok (s, i)
  | None =>
    do cs <- resolve_chunk s am;
    let nc := mcount am in
    let a := {| am_mask := am; am_shared := sh; am_ents := []; am_cols := repeat [] nc; am_size := 0;
                am_chunk := cs; am_gver := repeat WV_NULL nc; am_cver := [] |} in
    Ok (set_archs s (archs s ++ [a]), length (archs s))
  end.

(* ---------------------------------------------------------------------------------------- *)
(* Archetype operations: archetype.cpp                                                       *)
Definition push_back (s : mst) (ai : nat) (h : handle) : res (mst * nat) :=
  do a <- nth_res (archs s) ai;
  let idx := length (am_ents a) in
  do a1 <- vs_emplace a (wv s) idx;
  let a2 := with_size (with_ents a1 (am_ents a1 ++ [h])) (Nat.max (am_size a1) (S idx)) in
  Ok (set_arch s ai a2, idx).

Definition write_cell (s : mst) (ai ci slot : nat) (v : cell) : res mst :=
  do a <- nth_res (archs s) ai; Ok (set_arch s ai (put_cell a ci slot v)).

(* InsertInfo::constructor / ExternalMoveInfo::constructorAndAfterAssign on cell (ai, c, slot) *)
Definition construct_default (s : mst) (ai c ci slot : nat) (h : handle) (use_default_value : bool) : res mst :=
  do inf <- info_of s c;
  let p := PArch ai c slot in
  do s1 <- match ci_create inf with
           | Some v => do s' <- write_cell s ai ci slot (Some v); Ok (if ci_ev inf then emit s' (EvC (ci_pal inf) p) else s')
           | None => match ci_default inf with
                     | Some v => if use_default_value then write_cell s ai ci slot (Some v) else Ok s
                     | None => Ok s
                     end
           end;
  Ok (if ci_aa inf then emit s1 (EvAA (ci_pal inf) p h) else s1).

(* archetype.cpp:179-205 *)
Definition arch_insert (s : mst) (ai : nat) (h : handle) (skip : mask) : res mst :=
  do r <- push_back s ai h;
  let '(s1, idx) := r in
  do a <- nth_res (archs s1) ai;
  let comps := mitems (am_mask a) in
  let skip_empty := skip =? 0 in
  let skip_all := skip =? am_mask a in
  do s2 <- (if skip_all then Ok s1 else
    (* first loop: components with create or after_assign *)
    do s' <- fold_res (fun st (x : nat * nat) =>
        let '(ci, c) := x in
        do inf <- info_of st c;
        if (match ci_create inf with Some _ => true | None => false end) || ci_aa inf then
          if skip_empty || negb (mhas skip c) then construct_default st ai c ci idx h false else Ok st
        else Ok st) (combine (seq 0 (length comps)) comps) s1;
    (* second loop: create_with_value *)
    fold_res (fun st (x : nat * nat) =>
        let '(ci, c) := x in
        do inf <- info_of st c;
        if (match ci_create inf with Some _ => true | None => false end) || ci_aa inf then Ok st else
        match ci_default inf with
        | Some v => if skip_empty || negb (mhas skip c) then write_cell st ai ci idx (Some v) else Ok st
        | None => Ok st
        end) (combine (seq 0 (length comps)) comps) s');
  do a2 <- nth_res (archs s2) ai;
  do a3 <- vs_emplace a2 (wv s2) idx;
  update_location (set_arch s2 ai a3) h {| l_arch := Some ai; l_idx := idx |}.

(* callDestructor: destroy every component with a destroy function at slot, then popBack *)
Definition call_destructor (s : mst) (ai slot : nat) : res mst :=
  do a <- nth_res (archs s) ai;
  let comps := mitems (am_mask a) in
  do s1 <- fold_res (fun st (c : nat) =>
      do inf <- info_of st c;
      Ok (if ci_destroy inf && ci_ev inf then emit st (EvD (ci_pal inf) (PArch ai c slot)) else st)) comps s;
  do a1 <- nth_res (archs s1) ai;
  Ok (set_arch s1 ai (with_size (with_ents a1 (removelast (am_ents a1))) (pred (am_size a1)))).

Definition pop_back (s : mst) (ai : nat) : res mst :=
  do a <- nth_res (archs s) ai;
  Ok (set_arch s ai (with_size (with_ents a (removelast (am_ents a))) (pred (am_size a)))).

Definition any_destroy (s : mst) (m : mask) : bool :=
  existsb (fun c => match nth_error (cinfos s) c with Some i => ci_destroy i | None => false end) (mitems m).

(* archetype.cpp:227-253 *)
Definition internal_move (s : mst) (ai src dst : nat) : res mst :=
  do a <- nth_res (archs s) ai;
  let comps := mitems (am_mask a) in
  (* internal_move holds one entry per component (archetype_operation_helper.cpp:56-61) *)
  do s1 <- fold_res (fun st (x : nat * nat) =>
      let '(ci, c) := x in
      do inf <- info_of st c;
      do a' <- nth_res (archs st) ai;
      let st1 := set_arch st ai (put_cell a' ci dst (get_cell a' ci src)) in
      Ok (if ci_move inf && ci_ev inf then emit st1 (EvMA (ci_pal inf) (PArch ai c dst) (PArch ai c src)) else st1))
    (combine (seq 0 (length comps)) comps) s;
  do a1 <- nth_res (archs s1) ai;
  do src_e <- nth_res (am_ents a1) src;
  do dst_e <- nth_res (am_ents a1) dst;
  do csrc <- chunk_at a1 src;
  do cdst <- chunk_at a1 dst;
  do a2 <- vs_set_chunk a1 (wv s1) csrc;
  do a3 <- vs_set_chunk a2 (wv s1) cdst;
  let s2 := set_arch s1 ai a3 in
  do s3 <- update_location s2 dst_e default_loc;
  do s4 <- update_location s3 src_e {| l_arch := Some ai; l_idx := dst |};
  do a4 <- nth_res (archs s4) ai;
  let s5 := set_arch s4 ai (with_ents a4 (upd (am_ents a4) dst src_e)) in
  call_destructor s5 ai src.

(* callOnRemove + remove: archetype.cpp:119-130, 272-297 *)
Definition arch_remove (s : mst) (ai idx : nat) (h : handle) (skip_on_remove : mask) : res mst :=
  do a <- nth_res (archs s) ai;
  let comps := mitems (am_mask a) in
  let to_remove := minter (am_mask a) (minverse skip_on_remove) in
  do ent <- (if existsb (fun c => match nth_error (cinfos s) c with Some i => ci_br i | None => false end) comps
             then nth_res (am_ents a) idx else Ok h);
  do s1 <- fold_res (fun st (c : nat) =>
      do inf <- info_of st c;
      Ok (if ci_br inf && mhas to_remove c then emit st (EvBR (ci_pal inf) (PArch ai c idx) ent) else st)) comps s;
  match am_size a with
  | O => Err Underflow
  | S last =>
    if Nat.eqb idx last then
      do s2 <- (if any_destroy s1 (am_mask a) then call_destructor s1 ai idx else pop_back s1 ai);
      do a2 <- nth_res (archs s2) ai;
      do ch <- chunk_at a2 idx;
      do a3 <- vs_set_chunk a2 (wv s2) ch;
      update_location (set_arch s2 ai a3) h default_loc
    else internal_move s1 ai last idx
  end.

(* archetype.cpp:147-177 *)
Definition external_move (s : mst) (ai : nat) (h : handle) (prev pidx : nat) (skip : mask) : res mst :=
  if Nat.eqb ai prev then Err (Throw 4) else
  do r <- push_back s ai h;
  let '(s1, idx) := r in
  do a <- nth_res (archs s1) ai;
  do pa <- nth_res (archs s1) prev;
  let comps := mitems (am_mask a) in
  do s2 <- fold_res (fun st (x : nat * nat) =>
      let '(ci, c) := x in
      do inf <- info_of st c;
      do pa' <- nth_res (archs st) prev;
      match cindex (am_mask pa') c with
      | Some pci =>
        if Nat.ltb pidx (am_size pa') then
          do st1 <- write_cell st ai ci idx (get_cell pa' pci pidx);
          Ok (if ci_mctor inf && ci_ev inf then emit st1 (EvMC (ci_pal inf) (PArch ai c idx) (PArch prev c pidx)) else st1)
        else Err OobIndex
      | None =>
        if ((match ci_create inf with Some _ => true | None => false end) ||
            (match ci_default inf with Some _ => true | None => false end) || ci_aa inf) && negb (mhas skip c)
        then construct_default st ai c ci idx h true else Ok st
      end) (combine (seq 0 (length comps)) comps) s1;
  do pa2 <- nth_res (archs s2) prev;
  do pent <- nth_res (am_ents pa2) pidx;
  do s3 <- arch_remove s2 prev pidx pent (am_mask a);
  update_location s3 h {| l_arch := Some ai; l_idx := idx |}.

(* archetype.cpp:207-225 *)
Definition clone_entity (s : mst) (ai : nat) (src dst : handle) (sidx : nat) : res mst :=
  do r <- push_back s ai dst;
  let '(s1, didx) := r in
  do s2 <- update_location s1 dst {| l_arch := Some ai; l_idx := didx |};
  do a <- nth_res (archs s2) ai;
  let comps := mitems (am_mask a) in
  fold_res (fun st (x : nat * nat) =>
      let '(ci, c) := x in
      do inf <- info_of st c;
      if negb (ci_clone inf) then Err EmptyFunction else
      do a' <- nth_res (archs st) ai;
      do st1 <- write_cell st ai ci didx (get_cell a' ci sidx);
      Ok (if ci_ev inf then emit st1 (EvCP (ci_pal inf) (PArch ai c didx) (PArch ai c sidx)) else st1))
    (combine (seq 0 (length comps)) comps) s2.

(* Archetype::clear: archetype.cpp:304-319 *)
Definition arch_clear (s : mst) (ai : nat) : res mst :=
  do a <- nth_res (archs s) ai;
  match am_ents a with
  | [] => Ok s
  | _ =>
    let comps := mitems (am_mask a) in
    do s1 <- fold_res (fun st (c : nat) =>
        do inf <- info_of st c;
        Ok (if ci_destroy inf && ci_ev inf
            then fold_left (fun st' i => emit st' (EvD (ci_pal inf) (PArch ai c i))) (seq 0 (am_size a)) st else st)) comps s;
    do a1 <- nth_res (archs s1) ai;
    Ok (set_arch s1 ai (with_size (with_ents a1 []) 0))
  end.

(* ---------------------------------------------------------------------------------------- *)
(* unlocked entity-manager operations                                                        *)
Definition destroy_now_unlocked (s : mst) (h : handle) : res mst :=
  if is_valid s h then
    do l <- nth_res (locs s) (N.to_nat (fst h));
    do s1 <- match l_arch l with
             | Some ai => arch_remove s ai (l_idx l) h 0
             | None => Ok s
             end;
    Ok (release_id s1 h)
  else Ok s.

(* entity_manager.cpp:104-116 *)
Definition clear_one (s : mst) (h : handle) : res mst :=
  let i := N.to_nat (fst h) in
  do l <- nth_res (locs s) i;
  do ls <- upd_res (locs s) i {| l_arch := None; l_idx := l_idx l |};
  let s1 := set_locs s ls in
  let nxt := match empty_slots s1 with O => fst h + 1 | S _ => next_slot s1 end in
  do sl <- upd_res (slots s1) i {| s_id := nxt; s_ver := (snd h + 1) mod VER_MOD |};
  Ok (set_free (set_slots s1 sl) (fst h) (S (empty_slots s1))).

Definition clear_archetype (s : mst) (ai : nat) : res mst :=
  do a <- nth_res (archs s) ai;
  do s1 <- fold_res clear_one (am_ents a) s;
  arch_clear s1 ai.

(* EntityManager::clear: entity_manager.cpp:79-89 *)
Definition clear_all (s : mst) : res mst :=
  fold_res clear_archetype (seq 0 (length (archs s))) s.

(* location of an entity as the unchecked paths read it *)
Definition loc_arch (s : mst) (h : handle) : res (nat * nat) :=
  do l <- nth_res (locs s) (N.to_nat (fst h));
  match l_arch l with
  | Some ai => Ok (ai, l_idx l)
  | None => Err OobIndex        (* archetypes_[null index] *)
  end.

(* assign<_SkipConstructor>, unlocked branch: entity_manager.hpp:857-868; returns the cell written *)
Definition assign_unlocked (s : mst) (h : handle) (c : nat) (skip_ctor : bool) : res (mst * (nat * nat * nat)) :=
  do la <- loc_arch s h;
  let '(pai, pidx) := la in
  do pa <- nth_res (archs s) pai;
  let m := madd (am_mask pa) c in
  do r <- get_arch s m (am_shared pa);
  let '(s1, ai) := r in
  do s2 <- external_move s1 ai h pai pidx (if skip_ctor then m else 0);
  do a <- nth_res (archs s2) ai;
  do l <- nth_res (locs s2) (N.to_nat (fst h));
  match cindex (am_mask a) c with
  | Some ci => Ok (s2, (ai, ci, l_idx l))
  | None => Err OobIndex
  end.

(* removeComponent(entity, id), unlocked: entity_manager.cpp:185-205 *)
Definition remove_unlocked (s : mst) (h : handle) (c : nat) : res mst :=
  do l <- nth_res (locs s) (N.to_nat (fst h));
  match l_arch l with
  | None => Ok s
  | Some pai =>
    do pa <- nth_res (archs s) pai;
    if negb (mhas (am_mask pa) c) then Ok s else
    do r <- get_arch s (mdel (am_mask pa) c) (am_shared pa);
    let '(s1, ai) := r in
    if Nat.eqb ai pai then Ok s1 else
    external_move s1 ai h pai (l_idx l) 0
  end.

(* getCreatedSharedComponent: entity_manager.cpp:162-176. A fresh instance (sid, v) is made by the caller *)
Definition new_inst (s : mst) (sid : nat) (v : Z) : mst * nat :=
  (set_pool s (pool s) (insts s ++ [(sid, v)]), length (insts s)).

Definition inst_value (s : mst) (i : nat) : Z := snd (nth i (insts s) (O, 0%Z)).

Definition created_shared (s : mst) (sid inst : nat) : mst * nat :=
  let p := if Nat.ltb sid (length (pool s)) then pool s else resize (pool s) (S sid) [] in
  let arr := nth sid p [] in
  match find (fun i => Nat.eqb i inst || Z.eqb (inst_value s i) (inst_value s inst)) arr with
  | Some i => (set_pool s p (insts s), i)
  | None => (set_pool s (upd p sid (arr ++ [inst])) (insts s), inst)
  end.

(* assignShared: entity_manager.hpp:886-901 *)
Definition assign_shared (s : mst) (h : handle) (sid : nat) (v : Z) : res mst :=
  let '(s0, fresh) := new_inst s sid v in
  do l <- nth_res (locs s0) (N.to_nat (fst h));
  let '(s1, inst) := created_shared s0 sid fresh in
  match l_arch l with
  | None => Err OobIndex
  | Some pai =>
    do pa <- nth_res (archs s1) pai;
    do sh <- si_add (am_shared pa) sid inst;
    do r <- get_arch s1 (am_mask pa) sh;
    let '(s2, ai) := r in
    if Nat.eqb ai pai then Ok s2 else external_move s2 ai h pai (l_idx l) 0
  end.

(* removeSharedComponent<T>: entity_manager.hpp:834-843 + entity_manager.cpp:207-233 *)
Definition remove_shared (s : mst) (h : handle) (sid : nat) : res (mst * bool) :=
  if negb (is_valid s h) then Ok (s, false) else
  do l <- nth_res (locs s) (N.to_nat (fst h));
  match l_arch l with
  | None => Ok (s, false)
  | Some pai =>
    do pa <- nth_res (archs s) pai;
    if negb (mhas (si_mask (am_shared pa)) sid) then Ok (s, false) else
    do sh <- si_remove (am_shared pa) sid;
    do r <- get_arch s (am_mask pa) sh;
    let '(s1, ai) := r in
    if Nat.eqb ai pai then Ok (s1, false) else
    do s2 <- external_move s1 ai h pai (l_idx l) 0; Ok (s2, true)
  end.

(* ---------------------------------------------------------------------------------------- *)
(* command buffers: temporal_storage.cpp                                                     *)
Definition push_cmd (s : mst) (tid : nat) (c : acmd) : res mst :=
  do b <- nth_res (bufs s) tid;
  Ok (set_bufs s (upd (bufs s) tid (b ++ [c])) (tmps s)).

Definition create_locked (s : mst) (tid : nat) (m : mask) (sh : shared_info) : res (mst * handle) :=
  let id := next_eid s in
  let ver := match nth_error (slots s) (N.to_nat id) with
             | Some sl => (s_ver sl + 1) mod VER_MOD
             | None => 0
             end in
  let h := (id, ver) in
  let has_action := negb (m =? 0) || negb (match si_data sh with [] => true | _ => false end) in
  do s1 <- push_cmd (set_eid s (id + 1)) tid (ACreate h has_action m sh);
  Ok (s1, h).

(* TemporalStorage::assignComponent: returns the number of the temporary *)
Definition assign_locked (s : mst) (tid : nat) (h : handle) (c : nat) (skip_ctor : bool) : res (mst * nat) :=
  do inf <- info_of s c;
  do tl <- nth_res (tmps s) tid;
  let n := length tl in
  let p := PTmp (epoch s * 64 + tid) n in
  let '(v, s1) := match ci_create inf with
                  | Some x => if skip_ctor then (None, s) else (Some x, if ci_ev inf then emit s (EvC (ci_pal inf) p) else s)
                  | None => ((if skip_ctor then None else ci_default inf), s)
                  end in
  do s2 <- push_cmd s1 tid (AAssign h c n);
  Ok (set_bufs s2 (bufs s2) (upd (tmps s2) tid (tl ++ [v])), n).

Definition write_tmp (s : mst) (tid n : nat) (v : cell) : res mst :=
  do tl <- nth_res (tmps s) tid;
  do tl' <- upd_res tl n v;
  Ok (set_bufs s (bufs s) (upd (tmps s) tid tl')).

Definition cmd_handle (c : acmd) : handle :=
  match c with ACreate h _ _ _ => h | ADestroy h => h | ADestroyNow h => h | ARemove h _ => h | AAssign h _ _ => h end.

(* the mask loop of applyCommandPack (entity_manager.cpp:305-331): (state, final mask, finished) *)
Fixpoint pack_loop (create : bool) (h : handle) (cs : list acmd) (s : mst) (fm am : mask) : res (mst * mask * mask * bool) :=
  match cs with
  | [] => Ok (s, fm, am, false)
  | c :: t =>
    match c with
    | ADestroyNow _ =>
      if create then Ok (release_id s h, fm, am, true)
      else do s1 <- destroy_now_unlocked s h; Ok (s1, fm, am, true)
    | ACreate _ _ _ _ => Err (ThrowInNoexcept 1)
    | ADestroy h' => pack_loop create h t (set_marked s (set_insert (marked s) h')) fm am
    | ARemove _ c' => pack_loop create h t s (mdel fm c') am
    | AAssign _ c' _ => pack_loop create h t s (madd fm c') (madd am c')
    end
  end.

(* applyCommandPack: entity_manager.cpp:278-355 *)
Definition apply_pack (tid : nat) (s : mst) (p : list acmd) : res mst :=
  match p with
  | [] => Ok s
  | c0 :: t =>
    let h := cmd_handle c0 in
    do r0 <- match c0 with
      | ACreate _ has_action m sh =>
        let i := N.to_nat (fst h) in
        let s1 := if Nat.ltb i (length (slots s)) then s
                  else set_locs (set_slots s (resize (slots s) (S i) null_slot)) (resize (locs s) (S i) default_loc) in
        do sl <- upd_res (slots s1) i {| s_id := fst h; s_ver := snd h |};
        (* the recorded mask closed under the declared dependencies *)
        do ex <- (if has_action then extra_components s m else Ok 0);
        Ok (Some (set_slots s1 sl, (if has_action then munion m ex else 0), (if has_action then sh else si_null), true, t))
      | _ =>
        if is_valid s h then
          do la <- loc_arch s h;
          do a <- nth_res (archs s) (fst la);
          Ok (Some (s, am_mask a, am_shared a, false, p))
        else Ok None
      end;
    match r0 with
    | None => Ok s
    | Some (s2, initial, sh, create, body) =>
      do r <- pack_loop create h body s2 initial 0;
      let '(s3, final, assigned, fin) := r in
      if fin then Ok s3 else
      do ra <- get_arch s3 final sh;
      let '(s4, ai) := ra in
      do s5 <- (if create then arch_insert s4 ai h assigned
                else if negb (initial =? final) then
                  do la <- loc_arch s4 h;
                  if Nat.eqb (fst la) ai then Ok s4 else
                  external_move s4 ai h (fst la) (snd la) final
                else Ok s4);
      do l <- nth_res (locs s5) (N.to_nat (fst h));
      do a <- nth_res (archs s5) ai;
      fold_res (fun st (c : acmd) =>
          match c with
          | AAssign _ cid n =>
            do inf <- info_of st cid;
            match cindex (am_mask a) cid with
            | None => Err NullDeref            (* move_constructor(nullptr, tmp) *)
            | Some ci =>
              do tl <- nth_res (tmps st) tid;
              do v <- nth_res tl n;
              do st1 <- write_cell st ai ci (l_idx l) v;       (* move_constructor, or memcpy when there is none *)
              let dst := PArch ai cid (l_idx l) in
              let st2 := if ci_mctor inf && ci_ev inf then emit st1 (EvMC (ci_pal inf) dst (PTmp (epoch st * 64 + tid) n)) else st1 in
              Ok (if ci_aa inf then emit st2 (EvAA (ci_pal inf) dst h) else st2)
            end
          | _ => Ok st
          end) p s5
    end
  end.

Fixpoint split_packs (cs : list acmd) (cur : list acmd) : list (list acmd) :=
  match cs with
  | [] => match cur with [] => [] | _ => [rev cur] end
  | c :: t =>
    match cur with
    | [] => split_packs t [c]
    | c0 :: _ => if handle_eqb (cmd_handle c0) (cmd_handle c) then split_packs t (c :: cur)
                 else rev cur :: split_packs t [c]
    end
  end.

(* applyStorage: entity_manager.cpp:400-430 *)
Definition apply_storage (s : mst) (x : nat * list acmd) : res mst :=
  let '(tid, b) := x in
  do s1 <- fold_res (apply_pack tid) (split_packs b []) s;
  fold_res (fun st (c : acmd) =>
      match c with
      | AAssign _ cid n =>
        do inf <- info_of st cid;
        Ok (if ci_destroy inf && ci_ev inf then emit st (EvD (ci_pal inf) (PTmp (epoch st * 64 + tid) n)) else st)
      | _ => Ok st
      end) b s1.

Definition flush (s : mst) : res mst :=
  do s1 <- fold_res (fun st (x : nat * list acmd) =>
              (* storage.clear() after each buffer: later buffers see it empty; the model clears at the end *)
              apply_storage st x) (combine (seq 0 (length (bufs s))) (bufs s)) s;
  Ok (set_epoch (set_bufs s1 (map (fun _ => []) (bufs s1)) (map (fun _ => []) (tmps s1))) (S (epoch s1))).

(* ---------------------------------------------------------------------------------------- *)
(* jobs: base_job.cpp (filter, version check-and-set, task split) + non_template_job.cpp          *)
Record job := {
  j_reqs : list (nat * bool * bool);   (* component id, is_const, is_required *)
  j_check : mask;                      (* version_check_mask *)
  j_last : N                           (* last_update_version_; null before the first successful run *)
}.
Definition job_required_mask (j : job) : mask :=
  fold_left (fun m (r : nat * bool * bool) => let '(c, _, req) := r in mset m c req) (j_reqs j) 0.
Definition job_update_mask (j : job) : mask :=
  fold_left (fun m (r : nat * bool * bool) => let '(c, cst, _) := r in mset m c (negb cst)) (j_reqs j) 0.

(* Archetype::makeComponentMask(mask).items(): component indices, ascending *)
Definition comp_indices (am m : mask) : list nat :=
  fold_right (fun c acc => match cindex am c with Some i => i :: acc | None => acc end) [] (mitems m).

(* VersionStorage::checkAndSet on a row of stamps starting at base *)
Definition check_and_set (vers : list N) (base : nat) (check set_ : list nat) (last cur : N) : list N * bool :=
  let need := (last =? WV_NULL) || (match check with [] => true | _ => false end) ||
              existsb (fun i => last <? nth (base + i) vers 0) check in
  (if need then fold_left (fun v i => upd v (base + i) cur) set_ vers else vers, need).

(* filterArchetype: one check-and-set per version chunk; returns the new chunk stamps and the match flags *)
Fixpoint filter_chunks (nc : nat) (check set_ : list nat) (last cur : N) (chunk todo : nat) (cv : list N) : list N * list bool :=
  match todo with
  | O => (cv, [])
  | S t =>
    let '(cv1, m) := check_and_set cv (nc * chunk) check set_ last cur in
    let '(cv2, ms) := filter_chunks nc check set_ last cur (S chunk) t cv1 in
    (cv2, m :: ms)
  end.

(* apply(): every archetype in index order *)
Definition job_filter (s : mst) (j : job) : res (mst * list farch) :=
  let req := job_required_mask j in
  let upm := job_update_mask j in
  fold_res (fun (acc : mst * list farch) ai =>
      let '(st, fas) := acc in
      do a <- nth_res (archs st) ai;
      let size := length (am_ents a) in
      if negb (Nat.ltb 0 size && mmatch (am_mask a) req) then Ok acc else
      let check := comp_indices (am_mask a) (j_check j) in
      let set_ := comp_indices (am_mask a) upm in
      let '(gv, need) := check_and_set (am_gver a) 0 check set_ (j_last j) (wv st) in
      if negb need then Ok (set_arch st ai (with_vers a gv (am_cver a)), fas) else
      match am_chunk a with
      | O => Err DivZero
      | cs =>
        let nchunks := S ((size - 1) / cs) in
        let '(cv, ms) := filter_chunks (length (am_gver a)) check set_ (j_last j) (wv st) 0 nchunks (am_cver a) in
        let bl := filter_blocks cs size ms in
        let cnt := blocks_count bl in
        let st1 := set_arch st ai (with_vers a gv cv) in
        Ok (st1, match cnt with O => fas
                 | _ => fas ++ [{| fa_arch := ai; fa_blocks := bl; fa_count := cnt; fa_size := am_size a; fa_cap := 0 |}] end)
      end) (seq 0 (length (archs s))) (s, []).

(* what one invocation array hands to the callback: per entity its handle and, per requested component, its cell
   (None for an optional component the archetype lacks) *)
Definition array_visits (s : mst) (j : job) (ai start len : nat) : res (list (handle * list (option cell))) :=
  do a <- nth_res (archs s) ai;
  fold_res (fun acc i =>
      do h <- nth_res (am_ents a) i;
      let cells := map (fun (r : nat * bool * bool) => let '(c, _, _) := r in
                        match cindex (am_mask a) c with Some ci => Some (get_cell a ci i) | None => None end) (j_reqs j) in
      Ok (acc ++ [(h, cells)])) (seq start len) [].

(* ---------------------------------------------------------------------------------------- *)
(* operations of the driver scripts                                                          *)
Inductive aval := ADefault | AValue (v : Z).

Inductive op :=
| OCreate (tid : nat) (m : mask) (shared_ids : list nat) (via_arch : bool)
| ODestroy (tid : nat) (h : handle)
| ODestroyNow (tid : nat) (h : handle)
| OClearArch (m : mask) (shared_ids : list nat)
| OClear
| OUpdate (world : bool)
| OLock
| OUnlock
| OAssign (tid : nat) (h : handle) (c : nat) (v : aval) (typed : bool)
| ORemove (tid : nat) (h : handle) (c : nat) (typed : bool)
| OAssignShared (h : handle) (sid : nat) (v : Z)
| ORemoveShared (h : handle) (sid : nat)
| OClone (h : handle)
| OGetConst (h : handle) (c : nat)
| OGetMut (h : handle) (c : nat) (write : option Z)
| OMarkDirty (h : handle) (c : nat)
| OHas (h : handle) (c : nat)
| ODep (c : nat) (m : mask)
| OVerChunk (n : nat)
| OChunkFn (mn mx : nat) (m : mask)
| OBuild (tid : nat) (target : option handle) (assigns : list (nat * Z)) (removes : list nat)
| OTeardown
| ORunJob (j : job) (parallel : bool) (tasks_override : nat) (workers : nat) (cap : nat) (acts : list (nat * bool * handle * nat)) (stay_locked : bool).

Inductive out := RNone | RHandle (h : handle) | RBool (b : bool) | RCell (present : bool) (v : cell) | RNullHandle
| RJob (last : N) (arrays : list (nat * nat * list (handle * list (option cell)))).   (* task, first entity index, entities *)

(* makeSharedInfo: a fresh default instance per shared type, not deduplicated *)
Definition make_shared_info (s : mst) (sids : list nat) : res (mst * shared_info) :=
  fold_res (fun (x : mst * shared_info) sid =>
      let '(st, sh) := x in
      let '(st1, i) := new_inst st sid 0%Z in
      do sh' <- si_add sh sid i; Ok (st1, sh')) sids (s, si_null).


(* ---- the entity builder: begin(e).remove<R>()...assign<A>(x)...end() -> EntityManager::apply ---- *)
(* initComponent<Component>(archetype, index, args) with one constructor argument: entity_manager.hpp:553-576 *)
Definition init_component_arch (s : mst) (h : handle) (c : nat) (x : Z) : res mst :=
  do inf <- info_of s c;
  do la <- loc_arch s h;
  let '(ai, slot) := la in
  do a <- nth_res (archs s) ai;
  match cindex (am_mask a) c with
  | None => Err OobIndex              (* getComponentIndex<kUnsafe> of a component the archetype lacks *)
  | Some ci =>
    do s1 <- (if ci_hasval inf then write_cell s ai ci slot (Some x) else Ok s);
    let p := PArch ai c slot in
    let s2 := if ci_ev inf then emit s1 (EvV (ci_pal inf) p) else s1 in
    Ok (if ci_aa inf then emit s2 (EvAA (ci_pal inf) p h) else s2)
  end.

(* initComponent(storage.assignComponent(world, entity, id, true), world, entity, arg): the locked branch *)
Definition assign_locked_value (s : mst) (tid : nat) (h : handle) (c : nat) (x : Z) : res mst :=
  do inf <- info_of s c;
  do r <- assign_locked s tid h c true;
  let '(s1, n) := r in
  do s2 <- (if ci_hasval inf then write_tmp s1 tid n (Some x) else Ok s1);
  let p := PTmp (epoch s * 64 + tid) n in
  Ok (if ci_ev inf then emit s2 (EvV (ci_pal inf) p) else s2).

Definition mask_of_list (l : list nat) : mask := fold_left madd l 0.

(* updateComponents, unlocked branch: entity_manager.hpp:1013-1027 *)
Definition build_update_unlocked (s : mst) (h : handle) (assigns : list (nat * Z)) (removes : list nat) : res mst :=
  let skip := mask_of_list (map fst assigns) in
  do la <- loc_arch s h;
  let '(pai, pidx) := la in
  do pa <- nth_res (archs s) pai;
  let m := minter (munion skip (am_mask pa)) (minverse (mask_of_list removes)) in
  do r <- get_arch s m (si_merge si_null (am_shared pa));
  let '(s1, ai) := r in
  (* the edit maps back to the same archetype (it removed a dependent of a component that stays, or a component the
     entity does not have): nothing moves *)
  do s2 <- (if Nat.eqb ai pai then Ok s1 else external_move s1 ai h pai pidx skip);
  fold_res (fun st (a : nat * Z) => init_component_arch st h (fst a) (snd a)) assigns s2.

(* markDirty / getComponent<false>: stamp the version chunk of the entity with the live world version *)
Definition mark_dirty (s : mst) (h : handle) (c : nat) : res mst :=
  if negb (is_valid s h) then Ok s else
  do la <- loc_arch s h;
  let '(ai, idx) := la in
  do a <- nth_res (archs s) ai;
  match cindex (am_mask a) c with
  | None => Ok s
  | Some ci =>
    do ch <- chunk_at a idx;
    do a1 <- vs_set_one a (wv s) ch ci;
    Ok (set_arch s ai a1)
  end.

Definition get_mut (s : mst) (h : handle) (c : nat) (w : option Z) : res (mst * out) :=
  if negb (is_valid s h) then Ok (s, RCell false None) else
  do l <- nth_res (locs s) (N.to_nat (fst h));
  match l_arch l with
  | None => Ok (s, RCell false None)
  | Some ai =>
    do a <- nth_res (archs s) ai;
    match cindex (am_mask a) c with
    | None => Ok (s, RCell false None)
    | Some ci =>
      do ch <- chunk_at a (l_idx l);
      do a1 <- vs_set_one a (wv s) ch ci;      (* EntityManager::worldVersion(): the live world version *)
      let a2 := match w with Some x => put_cell a1 ci (l_idx l) (Some x) | None => a1 end in
      Ok (set_arch s ai a2, RCell true (get_cell a2 ci (l_idx l)))
    end
  end.

(* what a job callback does besides reading: (entity index, getmut?, handle, component) *)
Definition jobact := (nat * bool * handle * nat)%type.

(* lock() / unlock(): entity_manager.hpp:443-465 *)
Definition do_lock (s : mst) : mst :=
  match lockc s with
  | O => set_eid (set_bufs (set_lock s 1) (resize (bufs s) (nthreads s) []) (resize (tmps s) (nthreads s) []))
                 (N.of_nat (length (slots s)))
  | S n => set_lock s (S (S n))
  end.
Definition do_unlock (s : mst) : res (mst * out) :=
  let s1 := set_lock s (pred (lockc s)) in
  match lockc s1 with
  | O => do s2 <- flush s1; Ok (s2, RBool true)
  | S _ => Ok (s1, RBool false)
  end.

Definition inc_wv (s : mst) : mst := set_wv s ((wv s + 1) mod WV_MOD) (cached s).

Definition step (s : mst) (o : op) : res (mst * out) :=
  match o with
  | OCreate tid m sids via_arch =>
    do r0 <- make_shared_info s sids;
    let '(s0, sh) := r0 in
    match lockc s0, via_arch with
    | O, _ =>
      do r <- get_arch s0 m sh;
      let '(s1, ai) := r in
      do r2 <- create_id s1;
      let '(s2, h) := r2 in
      do s3 <- arch_insert s2 ai h 0;
      Ok (s3, RHandle h)
    | S _, false => do r <- create_locked s0 tid m sh; Ok (fst r, RHandle (snd r))
    | S _, true =>
      (* the driver fetched the archetype first; create(Archetype&) records its closed mask *)
      do r <- get_arch s0 m sh;
      let '(s1, ai) := r in
      do a <- nth_res (archs s1) ai;
      do r2 <- create_locked s1 tid (am_mask a) (am_shared a); Ok (fst r2, RHandle (snd r2))
    end
  | ODestroy tid h =>
    match lockc s with
    | O => Ok (set_marked s (set_insert (marked s) h), RNone)
    | S _ => do s1 <- push_cmd s tid (ADestroy h); Ok (s1, RNone)
    end
  | ODestroyNow tid h =>
    match lockc s with
    | O => do s1 <- destroy_now_unlocked s h; Ok (s1, RNone)
    | S _ => do s1 <- push_cmd s tid (ADestroyNow h); Ok (s1, RNone)
    end
  | OClearArch m sids =>
    do r0 <- make_shared_info s sids;
    let '(s0, sh) := r0 in
    do r <- get_arch s0 m sh;
    let '(s1, ai) := r in
    do s2 <- clear_archetype s1 ai; Ok (s2, RNone)
  | OClear => do s1 <- clear_all s; Ok (s1, RNone)
  | OUpdate world =>
    let s0 := if world then inc_wv s else s in
    match lockc s0 with
    | O =>
      let s1 := set_wv s0 (wv s0) (Some (wv s0)) in
      do s2 <- fold_res destroy_now_unlocked (marked s1) s1; Ok (set_marked s2 [], RNone)
    | S _ => Err (Throw 2)
    end
  | OLock => Ok (do_lock s, RNone)
  | OUnlock => do r <- do_unlock s; Ok r
  | OAssign tid h c v typed =>
    do inf <- info_of s c;
    let with_args := match v with AValue _ => typed | ADefault => false end in
    match lockc s with
    | O =>
      do r <- assign_unlocked s h c with_args;
      let '(s1, (ai, ci, slot)) := r in
      match v with
      | ADefault => Ok (s1, RNone)
      | AValue x =>
        do s2 <- (if ci_hasval inf then write_cell s1 ai ci slot (Some x) else Ok s1);
        if typed then
          let p := PArch ai c slot in
          let s3 := if ci_ev inf then emit s2 (EvV (ci_pal inf) p) else s2 in
          Ok (if ci_aa inf then emit s3 (EvAA (ci_pal inf) p h) else s3, RNone)
        else Ok (s2, RNone)
      end
    | S _ =>
      do r <- assign_locked s tid h c with_args;
      let '(s1, n) := r in
      match v with
      | ADefault => Ok (s1, RNone)
      | AValue x =>
        do s2 <- (if ci_hasval inf then write_tmp s1 tid n (Some x) else Ok s1);
        if typed then
          (* the temporary is constructed from the arguments; afterAssign fires when it is attached at unlock *)
          let p := PTmp (epoch s * 64 + tid) n in
          Ok (if ci_ev inf then emit s2 (EvV (ci_pal inf) p) else s2, RNone)
        else Ok (s2, RNone)
      end
    end
  | ORemove tid h c typed =>
    match lockc s with
    | O => if typed && negb (is_valid s h) then Ok (s, RNone)
           else do s1 <- remove_unlocked s h c; Ok (s1, RNone)
    | S _ => do s1 <- push_cmd s tid (ARemove h c); Ok (s1, RNone)
    end
  | OBuild tid target assigns removes =>
    match target, assigns with
    | None, [] =>
      (* create() *)
      match lockc s with
      | O =>
        do r <- get_arch s 0 si_null;
        let '(s1, ai) := r in
        do r2 <- create_id s1;
        let '(s2, h) := r2 in
        do s3 <- arch_insert s2 ai h 0;
        Ok (s3, RHandle h)
      | S _ => do r <- create_locked s tid 0 si_null; Ok (fst r, RHandle (snd r))
      end
    | None, _ =>
      match lockc s with
      | O =>
        (* createWithOutInit + initComponents: entity_manager.hpp:986-990 *)
        do r <- create_id s;
        let '(s1, h) := r in
        let m := mask_of_list (map fst assigns) in
        do r2 <- get_arch s1 m si_null;
        let '(s2, ai) := r2 in
        do s3 <- arch_insert s2 ai h m;
        do s4 <- fold_res (fun st (a : nat * Z) => init_component_arch st h (fst a) (snd a)) assigns s3;
        Ok (s4, RHandle h)
      | S _ =>
        do r <- create_locked s tid 0 si_null;
        let '(s1, h) := r in
        do s2 <- fold_res (fun st (a : nat * Z) => assign_locked_value st tid h (fst a) (snd a)) assigns s1;
        Ok (s2, RHandle h)
      end
    | Some h, _ =>
      match lockc s with
      | O => do s1 <- build_update_unlocked s h assigns removes; Ok (s1, RNone)
      | S _ =>
        do s1 <- fold_res (fun st (a : nat * Z) => assign_locked_value st tid h (fst a) (snd a)) assigns s;
        do s2 <- fold_res (fun st c => push_cmd st tid (ARemove h c)) (mitems (mask_of_list removes)) s1;
        Ok (s2, RNone)
      end
    end
  | OAssignShared h sid v => do s1 <- assign_shared s h sid v; Ok (s1, RNone)
  | ORemoveShared h sid => do r <- remove_shared s h sid; Ok (fst r, RBool (snd r))
  | OClone h =>
    if negb (is_valid s h) then Ok (s, RNullHandle) else
    do la <- loc_arch s h;
    let '(ai, idx) := la in
    do r <- match lockc s with
            | O => create_id s
            | S _ => create_locked s 0 0 si_null
            end;
    let '(s1, d) := r in
    do s2 <- clone_entity s1 ai h d idx;
    Ok (s2, RHandle d)
  | OGetConst h c =>
    if negb (is_valid s h) then Ok (s, RCell false None) else
    do l <- nth_res (locs s) (N.to_nat (fst h));
    match l_arch l with
    | None => Ok (s, RCell false None)
    | Some ai =>
      do a <- nth_res (archs s) ai;
      match cindex (am_mask a) c with
      | None => Ok (s, RCell false None)
      | Some ci => Ok (s, RCell true (get_cell a ci (l_idx l)))
      end
    end
  | OGetMut h c w => get_mut s h c w
  | OMarkDirty h c => do s1 <- mark_dirty s h c; Ok (s1, RNone)
  | OHas h c =>
    if negb (is_valid s h) then Ok (s, RBool false) else
    do l <- nth_res (locs s) (N.to_nat (fst h));
    match l_arch l with
    | None => Ok (s, RBool false)
    | Some ai => do a <- nth_res (archs s) ai; Ok (s, RBool (mhas (am_mask a) c))
    end
  | ODep c m => do s1 <- add_dependency s c m; Ok (s1, RNone)
  | OVerChunk n => Ok (set_chunkcfg s n (chunk_fns s), RNone)
  | OChunkFn mn mx m => Ok (set_chunkcfg s (def_chunk s) (chunk_fns s ++ [(mn, mx, m)]), RNone)
  | OTeardown =>
    (* ~World: archetypes_ first (deleter = clearArchetype), later the command buffers (~TemporalStorage) *)
    do s1 <- fold_res clear_archetype (seq 0 (length (archs s))) s;
    do s2 <- fold_res (fun st (x : nat * list acmd) =>
        let '(tid, b) := x in
        fold_res (fun st' (c : acmd) =>
            match c with
            | AAssign _ cid n =>
              do inf <- info_of st' cid;
              Ok (if ci_destroy inf && ci_ev inf then emit st' (EvD (ci_pal inf) (PTmp (epoch st' * 64 + tid) n)) else st')
            | _ => Ok st'
            end) b st) (combine (seq 0 (length (bufs s1))) (bufs s1)) s1;
    Ok (s2, RNone)
  | ORunJob j parallel tov workers cap acts stay_locked =>
    (* BaseJob::run: base_job.cpp:91-139 *)
    do r <- job_filter s j;
    let '(s1, fas0) := r in
    let fas := map (fun a => {| fa_arch := fa_arch a; fa_blocks := fa_blocks a; fa_count := fa_count a; fa_size := fa_size a; fa_cap := cap |}) fas0 in
    let total := total_count fas in
    match total with
    | O => Ok (s1, RJob (j_last j) [])
    | _ =>
      let last' := wv s1 in
      let tasks := if parallel then Nat.max 1 (match tov with O => Nat.min total (S workers) | t => t end) else 1%nat in
      let s2 := do_lock (inc_wv s1) in
      do per_task <- run_arrays fas tasks;
      do vis <- fold_res (fun (acc : nat * nat * list (nat * nat * list (handle * list (option cell)))) (arrs : list (nat * nat * nat)) =>
                  let '(k, idx, out_) := acc in
                  do r2 <- fold_res (fun (acc2 : nat * list (nat * nat * list (handle * list (option cell)))) (ar : nat * nat * nat) =>
                            let '(idx2, o2) := acc2 in
                            let '(pos, start, len) := ar in
                            do fa <- nth_res fas pos;
                            do es <- array_visits s2 j (fa_arch fa) start len;
                            Ok ((idx2 + len)%nat, o2 ++ [(k, idx2, es)])) arrs (idx, out_);
                  Ok (S k, fst r2, snd r2)) per_task (O, O, []);
      (* the callback's own modifications, made while the manager is locked and the world version already advanced *)
      do s2' <- fold_res (fun st (a : nat * bool * handle * nat) =>
                  let '(idx, gm, h, c) := a in
                  if Nat.ltb idx total then (if gm then do r <- get_mut st h c None; Ok (fst r) else mark_dirty st h c) else Ok st) acts s2;
      (* stay_locked: the script continues with the structural calls the callback makes (recorded while locked) and unlocks itself *)
      if stay_locked then Ok (s2', RJob last' (snd vis)) else
      do r3 <- do_unlock s2';
      Ok (fst r3, RJob last' (snd vis))
    end
  end.
