(* C02 -- component values follow their entity through every structural change.

   Models: Manager.v (EntityManager + Archetype with value columns, tied to the C++ by the correspondence runs of
   ./check C02), MgrSpec.v (the abstract world: a map from live issue numbers to components with values), Refine.v
   (abstraction `abs`, `worlds_match`, `refines_on`).  Proofs: proofs/ManagerBasics.v (cells, masks, component index),
   proofs/ManagerMoves.v (function level), proofs/SkelMove.v + proofs/ManagerProj.v (the structural part of a Manager
   state is a Skeleton state; the C01 invariant G carries over), proofs/ManagerInv.v (invariant MInv with the VALUE
   clause, one lemma per operation), proofs/ManagerMain.v (induction over scripts), proofs/ManagerWorlds.v (from the
   pointwise statement to worlds_match).

   What is proved, for ALL scripts over the unlocked alphabet (ManagerMain.alpha_b):
       create (any mask, no shared ids, either entry point), destroyNow, assign (typed or untyped, default or value),
       removeComponent (typed or untyped), write through getComponent<T>() ("set"), on handles alive or not,
       issued or not, for ARBITRARY component descriptions cis subject to cis_ok (below):
   if the script stays inside the documented contract (x_viol = 0), the model run does not end in Err and fewer than
   16 777 000 handles were issued (version field does not wrap: as in C01), then what queries observe of the Manager is
   the abstract world: Refine.refines_on = true (C02_unlocked_refines_on), pointwise per handle
   (C02_unlocked_refinement), and through has / getComponent<const T> (C02_unlocked_observations).

   Hypotheses that are genuinely needed (each one is violated by a concrete counterexample):
     - cis_ok: no component type has after_assign AND a default value but NO create function.  For such a type
       Archetype::insert (archetype.cpp:179-205 with archetype_operation_helper.cpp:38-50) puts the component in the
       `insert` list because of after_assign, whose constructor does nothing without create, and therefore never copies
       the default value -- while externalMove (assign) does.  C02_insert_skips_default_of_after_assign_types below
       exhibits it on the model.  No type of the palette has this shape.
     - alpha_b: an assignment carries a value only for types with ci_hasval (the driver cannot write the value of
       the empty type); component ids are below 128.
     - mrun = Ok: an Err of the model is undefined behaviour of the code (e.g. a component id without description).
       This hypothesis is DISCHARGED at the end of this file (C02_model_run_total, C02_unlocked_refines_total): it follows
       from the other hypotheses plus reg_b (every component id the script names has a description), and reg_b is
       needed (C02_model_run_total_refuted_without_registration).

   EXTENDED unlocked alphabet (second half of this file; proofs/ManagerExtFrames.v, ManagerExtInv.v, ManagerExtClear.v,
   ManagerExtClone.v, ManagerExtBuild.v, ManagerExtMain.v): the same three statements (C02_unlocked_ext_refines_on,
   C02_unlocked_ext_refinement, C02_unlocked_ext_observations) for ALL scripts over ManagerExtMain.alpha_e =
       alpha_b + destroy (deferred; takes effect at the next update) + update + clearArchetype (no shared ids) + clear
       + clone + one builder edit (begin(e)/begin() .assign<..>(v)... .remove<..>()... .end()), all issued unlocked,
   with the invariant MInvE = MInv + `marked s` is the specification's marked set (C02_unlocked_ext_marked) + every
   archetype mask lies inside the 128-bit set + the specification's entity table has one entry per live issue number.
   Additional hypothesis of alpha_e, needed and harmless: creation / clearArchetype masks are below 2^128 (the masks of the
   C++ are std::bitset<128>; the model's N has no width, C02_mask_width_is_a_model_artefact), and a builder assignment
   names a component id below 128 of a type whose value the driver can write (as for assign in alpha_b). *)
Require Import Coq.Lists.List Coq.NArith.NArith Coq.ZArith.ZArith Coq.Arith.Arith Coq.Bool.Bool.
From Mustache Require Import Res Manager MgrSpec Refine Palette.
From Mustache.proofs Require Import ManagerBasics ManagerMoves ManagerProj ManagerInv ManagerMain ManagerWorlds
  ManagerExtFrames ManagerExtInv ManagerExtMain.
Import ListNotations.

(* ---- function level ------------------------------------------------------------------------------------------ *)
(* acell a c slot: the cell of component c (by id) at a slot of archetype a (None if a has no such component) *)

(* Archetype::externalMove: the entity sits in the last slot of the target archetype, is located there, carries the
   value of every component both archetypes have, gets default values for the others (unless skipped), and the other
   members of the target archetype keep their values *)
Theorem C02_external_move_keeps_values : forall s ai h prev pidx skip s' a pa,
  nth_error (archs s) ai = Some a -> nth_error (archs s) prev = Some pa ->
  length (am_cols a) = length (mitems (am_mask a)) ->
  am_size pa = length (am_ents pa) -> length (am_cols pa) = length (mitems (am_mask pa)) ->
  external_move s ai h prev pidx skip = Ok s' ->
  exists a2, nth_error (archs s') ai = Some a2 /\ am_mask a2 = am_mask a /\ am_ents a2 = am_ents a ++ [h] /\
    nth_error (locs s') (N.to_nat (fst h)) = Some {| l_arch := Some ai; l_idx := length (am_ents a) |} /\
    (forall c, c < MASK_BITS -> mhas (am_mask a) c = true -> mhas (am_mask pa) c = true ->
       acell a2 c (length (am_ents a)) = acell pa c pidx) /\
    (forall c, c < MASK_BITS -> mhas (am_mask a) c = true -> mhas (am_mask pa) c = false -> mhas skip c = false ->
       cell_le (default_cell (cinfos s) c) (acell a2 c (length (am_ents a))) = true) /\
    (forall c slot, c < MASK_BITS -> slot < length (am_ents a) -> acell a2 c slot = acell a c slot).
Proof. exact external_move_keeps_values. Qed.
Print Assumptions C02_external_move_keeps_values.

(* Archetype::remove (swap-remove): every member of the archetype afterwards was a member before, at a slot other
   than the removed one, with the same values; it kept its slot, or it was the last member and now sits in the freed
   slot and its location says so *)
Theorem C02_swap_remove_moves_values_with_entity : forall s ai idx h skip s' a,
  nth_error (archs s) ai = Some a -> am_size a = length (am_ents a) -> length (am_cols a) = length (mitems (am_mask a)) ->
  arch_remove s ai idx h skip = Ok s' ->
  exists a', nth_error (archs s') ai = Some a' /\ am_mask a' = am_mask a /\ S (length (am_ents a')) = length (am_ents a) /\
    (forall j, j <> ai -> nth_error (archs s') j = nth_error (archs s) j) /\
    forall idx' h', nth_error (am_ents a') idx' = Some h' ->
      exists old, old <> idx /\ nth_error (am_ents a) old = Some h' /\
        (forall c, c < MASK_BITS -> acell a' c idx' = acell a c old) /\
        (old = idx' \/ (idx' = idx /\ S old = length (am_ents a) /\
                        nth_error (locs s') (N.to_nat (fst h')) = Some {| l_arch := Some ai; l_idx := idx |})).
Proof. exact swap_remove_moves_values. Qed.
Print Assumptions C02_swap_remove_moves_values_with_entity.

(* Archetype::insert without skip mask: the new member gets the default value of every component *)
Theorem C02_insert_gives_default_values : forall cis s ai h s' a,
  cis_ok cis -> cinfos s = cis -> nth_error (archs s) ai = Some a -> length (am_cols a) = length (mitems (am_mask a)) ->
  arch_insert s ai h 0%N = Ok s' ->
  exists a3, nth_error (archs s') ai = Some a3 /\ am_mask a3 = am_mask a /\ am_ents a3 = am_ents a ++ [h] /\
    nth_error (locs s') (N.to_nat (fst h)) = Some {| l_arch := Some ai; l_idx := length (am_ents a) |} /\
    (forall c, c < MASK_BITS -> mhas (am_mask a) c = true ->
       cell_le (default_cell cis c) (acell a3 c (length (am_ents a))) = true) /\
    (forall c slot, c < MASK_BITS -> slot < length (am_ents a) -> acell a3 c slot = acell a c slot).
Proof. exact arch_insert_default_cells. Qed.
Print Assumptions C02_insert_gives_default_values.

(* ---- scripts ------------------------------------------------------------------------------------------------- *)
(* the statement of Refine.v for the unlocked alphabet *)
Theorem C02_unlocked_refines_on : forall typed n cis ops s hs,
  cis_ok cis -> forallb (alpha_b cis) ops = true ->
  mrun typed n cis ops = Ok (s, hs) -> x_viol (xrun n cis ops) = 0 -> (N.of_nat (length hs) < 16777000)%N ->
  refines_on typed n cis ops = true.
Proof. exact unlocked_refines_on. Qed.
Print Assumptions C02_unlocked_refines_on.

(* handle by handle: the k-th handle issued is observed (abs_ent: validity, location, archetype mask, cells) exactly
   when the specification has entity k, with the same component set and matching values *)
Theorem C02_unlocked_refinement : forall typed n cis ops s hs,
  cis_ok cis -> forallb (alpha_b cis) ops = true ->
  mrun typed n cis ops = Ok (s, hs) -> x_viol (xrun n cis ops) = 0 -> (N.of_nat (length hs) < 16777000)%N ->
  length hs = x_count (xrun n cis ops) /\
  forall k,
    match find_ent (xrun n cis ops) k with
    | Some e => exists e', abs_ent s k (nth k hs null_handle) = Some e' /\ ent_match e e' = true
    | None => abs_ent s k (nth k hs null_handle) = None
    end.
Proof. exact unlocked_refinement. Qed.
Print Assumptions C02_unlocked_refinement.

(* through the query operations of the model itself: hasComponent and getComponent<const T> on the final state *)
Theorem C02_unlocked_observations : forall typed n cis ops s hs,
  cis_ok cis -> forallb (alpha_b cis) ops = true ->
  mrun typed n cis ops = Ok (s, hs) -> x_viol (xrun n cis ops) = 0 -> (N.of_nat (length hs) < 16777000)%N ->
  forall k c, c < MASK_BITS ->
    step s (OHas (nth k hs null_handle) c) = Ok (s, RBool (spec_has (xrun n cis ops) k c)) /\
    exists v, step s (OGetConst (nth k hs null_handle) c) = Ok (s, RCell (spec_has (xrun n cis ops) k c) v) /\
              forall e w, find_ent (xrun n cis ops) k = Some e -> In (c, w) (e_comps e) -> cell_le w v = true.
Proof. exact unlocked_observations. Qed.
Print Assumptions C02_unlocked_observations.

(* ---- the hypotheses are satisfiable --------------------------------------------------------------------------- *)
Definition ex_cis : list cinfo := [pal_info 0 0; pal_info 1 0; pal_info 2 0; pal_info 3 0; dyn_info 8 33; pal_info 6 0].

Lemma ex_cis_ok : cis_ok ex_cis.
Proof. unfold cis_ok, ex_cis. repeat constructor; simpl; intros; congruence. Qed.

(* ids are recycled, entities move between four archetypes, a swap-remove happens on both destroyNow and assign,
   values are written, defaults (create function / default value) are constructed *)
Definition ex_script : list xop :=
  [XoCreate 0 3%N [] false; XoCreate 0 3%N [] true; XoCreate 0 19%N [] false; XoSet 0 1 41%Z; XoSet 1 1 42%Z; XoSet 2 4 43%Z;
   XoAssign 0 0 2 None; XoAssign 0 2 3 (Some 7%Z); XoDestroyNow 0 0; XoCreate 0 7%N [] false; XoRemove 0 1 0 false;
   XoAssign 0 1 4 None; XoRemove 0 3 5 true; XoRemove 0 0 1 true; XoDestroyNow 0 9; XoSet 3 2 44%Z; XoAssign 0 3 5 None].

Example C02_nonvacuous :
  cis_ok ex_cis /\ forallb (alpha_b ex_cis) ex_script = true /\ x_viol (xrun 1 ex_cis ex_script) = 0 /\
  (forall typed, exists s hs, mrun typed 1 ex_cis ex_script = Ok (s, hs) /\ (N.of_nat (length hs) < 16777000)%N /\
                              map (is_valid s) hs = [false; true; true; true]) /\
  map (fun e => (e_k e, e_comps e)) (x_ents (xrun 1 ex_cis ex_script)) =
    [(2, [(0, None); (1, None); (3, Some 7%Z); (4, Some 43%Z)]);
     (1, [(1, Some 42%Z); (4, Some 1008%Z)]);
     (3, [(0, None); (1, None); (2, Some 44%Z); (5, None)])].
Proof.
  split; [exact ex_cis_ok|]. split; [vm_compute; reflexivity|]. split; [vm_compute; reflexivity|]. split.
  - intros typed. destruct typed; eexists; eexists; (split; [vm_compute; reflexivity|]); split; vm_compute; reflexivity.
  - vm_compute. reflexivity.
Qed.

(* the function-level hypotheses on a reachable state: entity #0 of archetype {0,1} moves to archetype {0,1,2};
   another member of {0,1} is swapped into its slot *)
Definition ex_state : mst :=
  match mrun false 1 ex_cis [XoCreate 0 3%N [] false; XoCreate 0 7%N [] false; XoCreate 0 3%N [] false; XoSet 0 1 5%Z; XoSet 2 1 6%Z] with
  | Ok (s, _) => s | Err _ => init 1 ex_cis end.

Definition is_ok {A} (r : res A) : bool := match r with Ok _ => true | Err _ => false end.
Definition ex_a : archetype := nth 1 (archs ex_state) (new_arch 0%N si_null 0).
Definition ex_pa : archetype := nth 0 (archs ex_state) (new_arch 0%N si_null 0).

Example C02_moves_nonvacuous :
  nth_error (archs ex_state) 1 = Some ex_a /\ nth_error (archs ex_state) 0 = Some ex_pa /\
  length (am_cols ex_a) = length (mitems (am_mask ex_a)) /\ am_size ex_pa = length (am_ents ex_pa) /\
  length (am_cols ex_pa) = length (mitems (am_mask ex_pa)) /\
  am_ents ex_pa = [(0%N, 0%N); (2%N, 0%N)] /\ cinfos ex_state = ex_cis /\
  is_ok (external_move ex_state 1 (0%N, 0%N) 0 0 0%N) = true /\
  is_ok (arch_remove ex_state 0 0 (0%N, 0%N) 0%N) = true /\
  is_ok (arch_insert ex_state 1 (0%N, 0%N) 0%N) = true.
Proof. vm_compute. repeat split. Qed.

(* ---- why cis_ok is needed ------------------------------------------------------------------------------------- *)
(* a component type with after_assign and a default value but no create function: creation leaves the cell
   unwritten, the specification (and assign) give it the default value *)
Definition odd_info : cinfo :=
  {| ci_pal := 0; ci_ev := true; ci_hasval := true; ci_create := None; ci_move := true; ci_mctor := true; ci_destroy := true;
     ci_default := Some 9%Z; ci_aa := true; ci_br := false; ci_clone := true; ci_copy := true |}.

Example C02_insert_skips_default_of_after_assign_types :
  refines_on false 1 [odd_info] [XoCreate 0 1%N [] false] = false /\
  refines_on false 1 [odd_info] [XoCreate 0 0%N [] false; XoAssign 0 0 0 None] = true /\
  x_viol (xrun 1 [odd_info] [XoCreate 0 1%N [] false]) = 0.
Proof. vm_compute. repeat split. Qed.

(* ---- totality: inside the contract the model run never ends in Err ---------------------------------------------- *)
(* proofs/ManagerTotal.v.  The hypothesis `mrun = Ok` of the theorems above is discharged: for every script over alpha_b
   whose specification run stays inside the documented contract (x_viol = 0) and that creates fewer than 16 777 000
   entities, the model run is Ok -- PROVIDED every component id the script names (in a creation mask or an assignment)
   has a description: reg_b, a decidable condition on the script alone.  Without it totality is FALSE
   (C02_model_run_total_refuted_without_registration): the specification gives an undescribed component id the
   indeterminate value, the model returns Err OobIndex (info_of), which stands for
   ComponentFactory::componentInfo(id) = components_info[id.toInt()], an unchecked std::vector index inside a noexcept
   function (component_factory.cpp:52-56), reached from the ArchetypeOperationHelper constructor
   (archetype_operation_helper.cpp:35) when getArchetype builds the archetype of the new mask: undefined behaviour.
   Every other Err of the model on this alphabet is excluded by the invariant MInv, by the contract, or by the shape
   invariant TI of the version storage (VersionStorage::emplace / setVersion index chunk_versions_ unchecked too, but
   the vector always covers the version chunks of all members; the version-chunk size is never 0). *)
From Mustache.proofs Require Import ManagerTotal.

Theorem C02_model_run_total : forall typed n cis ops,
  cis_ok cis -> forallb (alpha_b cis) ops = true -> forallb (reg_b cis) ops = true ->
  x_viol (xrun n cis ops) = 0 -> (N.of_nat (creates ops) < 16777000)%N ->
  exists s hs, mrun typed n cis ops = Ok (s, hs) /\ length hs = creates ops.
Proof. exact model_run_total. Qed.
Print Assumptions C02_model_run_total.

(* the conclusion of C02_unlocked_refines_on without the hypothesis on the model run *)
Theorem C02_unlocked_refines_total : forall typed n cis ops,
  cis_ok cis -> forallb (alpha_b cis) ops = true -> forallb (reg_b cis) ops = true ->
  x_viol (xrun n cis ops) = 0 -> (N.of_nat (creates ops) < 16777000)%N ->
  refines_on typed n cis ops = true.
Proof. exact unlocked_refines_total. Qed.
Print Assumptions C02_unlocked_refines_total.

(* the conclusions of C02_unlocked_refinement and C02_unlocked_observations for the run that exists *)
Theorem C02_unlocked_refinement_total : forall typed n cis ops,
  cis_ok cis -> forallb (alpha_b cis) ops = true -> forallb (reg_b cis) ops = true ->
  x_viol (xrun n cis ops) = 0 -> (N.of_nat (creates ops) < 16777000)%N ->
  exists s hs, mrun typed n cis ops = Ok (s, hs) /\ length hs = x_count (xrun n cis ops) /\
  (forall k,
    match find_ent (xrun n cis ops) k with
    | Some e => exists e', abs_ent s k (nth k hs null_handle) = Some e' /\ ent_match e e' = true
    | None => abs_ent s k (nth k hs null_handle) = None
    end) /\
  (forall k c, c < MASK_BITS ->
    step s (OHas (nth k hs null_handle) c) = Ok (s, RBool (spec_has (xrun n cis ops) k c)) /\
    exists v, step s (OGetConst (nth k hs null_handle) c) = Ok (s, RCell (spec_has (xrun n cis ops) k c) v) /\
              forall e w, find_ent (xrun n cis ops) k = Some e -> In (c, w) (e_comps e) -> cell_le w v = true).
Proof. exact unlocked_refinement_total. Qed.
Print Assumptions C02_unlocked_refinement_total.

(* the hypotheses are satisfiable: the script of C02_nonvacuous (ids recycled, four archetypes, swap-removes on
   destroyNow and on assign, dead and never-issued handles) names described ids only and creates four entities *)
Example C02_total_nonvacuous :
  cis_ok ex_cis /\ forallb (alpha_b ex_cis) ex_script = true /\ forallb (reg_b ex_cis) ex_script = true /\
  x_viol (xrun 1 ex_cis ex_script) = 0 /\ (N.of_nat (creates ex_script) < 16777000)%N /\ creates ex_script = 4.
Proof. split; [exact ex_cis_ok|]. repeat split; vm_compute; reflexivity. Qed.

(* without reg_b totality fails, for a creation mask as well as for an assignment: component id 2 has no
   description in a registry of two types; the specification run stays inside the contract *)
Theorem C02_model_run_total_refuted_without_registration :
  let cis := [pal_info 0 0; pal_info 1 0] in
  cis_ok cis /\
  (forall ops, In ops [[XoCreate 0 4%N [] false]; [XoCreate 0 1%N [] false; XoAssign 0 0 2 None]] ->
     forallb (alpha_b cis) ops = true /\ x_viol (xrun 1 cis ops) = 0 /\ (N.of_nat (creates ops) < 16777000)%N /\
     forallb (reg_b cis) ops = false /\
     forall typed, mrun typed 1 cis ops = Err OobIndex).
Proof.
  cbv zeta. split; [unfold cis_ok; repeat constructor; simpl; intros; congruence|].
  intros ops [<-|[<-|[]]]; (repeat split; try (vm_compute; reflexivity)); intros typed; destruct typed; vm_compute; reflexivity.
Qed.
Print Assumptions C02_model_run_total_refuted_without_registration.
(* ================================================================================================================ *)
(* the extended unlocked alphabet: + destroy (deferred), update, clearArchetype, clear, clone, builder edits           *)

(* the statement of Refine.v *)
Theorem C02_unlocked_ext_refines_on : forall typed n cis ops s hs,
  cis_ok cis -> forallb (alpha_e cis) ops = true ->
  mrun typed n cis ops = Ok (s, hs) -> x_viol (xrun n cis ops) = 0 -> (N.of_nat (length hs) < 16777000)%N ->
  refines_on typed n cis ops = true.
Proof. exact ext_refines_on. Qed.
Print Assumptions C02_unlocked_ext_refines_on.

(* handle by handle *)
Theorem C02_unlocked_ext_refinement : forall typed n cis ops s hs,
  cis_ok cis -> forallb (alpha_e cis) ops = true ->
  mrun typed n cis ops = Ok (s, hs) -> x_viol (xrun n cis ops) = 0 -> (N.of_nat (length hs) < 16777000)%N ->
  length hs = x_count (xrun n cis ops) /\
  forall k,
    match find_ent (xrun n cis ops) k with
    | Some e => exists e', abs_ent s k (nth k hs null_handle) = Some e' /\ ent_match e e' = true
    | None => abs_ent s k (nth k hs null_handle) = None
    end.
Proof. exact ext_refinement. Qed.
Print Assumptions C02_unlocked_ext_refinement.

(* through hasComponent and getComponent<const T> on the final state *)
Theorem C02_unlocked_ext_observations : forall typed n cis ops s hs,
  cis_ok cis -> forallb (alpha_e cis) ops = true ->
  mrun typed n cis ops = Ok (s, hs) -> x_viol (xrun n cis ops) = 0 -> (N.of_nat (length hs) < 16777000)%N ->
  forall k c, c < MASK_BITS ->
    step s (OHas (nth k hs null_handle) c) = Ok (s, RBool (spec_has (xrun n cis ops) k c)) /\
    exists v, step s (OGetConst (nth k hs null_handle) c) = Ok (s, RCell (spec_has (xrun n cis ops) k c) v) /\
              forall e w, find_ent (xrun n cis ops) k = Some e -> In (c, w) (e_comps e) -> cell_le w v = true.
Proof. exact ext_observations. Qed.
Print Assumptions C02_unlocked_ext_observations.

(* the entities waiting for update(): handle #k is in marked_for_delete_ exactly when the specification has k marked *)
Theorem C02_unlocked_ext_marked : forall typed n cis ops s hs,
  cis_ok cis -> forallb (alpha_e cis) ops = true ->
  mrun typed n cis ops = Ok (s, hs) -> x_viol (xrun n cis ops) = 0 -> (N.of_nat (length hs) < 16777000)%N ->
  forall k, k < length hs -> (In (nth k hs null_handle) (marked s) <-> In k (x_marked (xrun n cis ops))).
Proof. exact ext_marked. Qed.
Print Assumptions C02_unlocked_ext_marked.

(* ---- the hypotheses are satisfiable: every new operation is used non-trivially ---------------------------------- *)
Definition ex_script_ext : list xop :=
  [XoCreate 0 3%N [] false; XoCreate 0 3%N [] true; XoCreate 0 3%N [] false; XoSet 0 1 41%Z; XoSet 1 1 42%Z; XoSet 2 0 43%Z;
   (* deferred destroy of #0: it stays alive (and is written) until update; afterwards its id is reused by #3 *)
   XoDestroy 0 0; XoSet 0 0 5%Z; XoUpdate; XoCreate 0 7%N [] false;
   (* stale, repeated and not-yet-issued requests; #3 is destroyed at once and its id reused by #4 BEFORE the update,
      which must not touch #4 *)
   XoDestroy 0 0; XoDestroy 0 3; XoDestroy 0 17; XoDestroyNow 0 3; XoCreate 0 3%N [] false; XoUpdate;
   (* clone #1 -> #5; then the source moves to another archetype and the clone is written *)
   XoClone 1; XoAssign 0 1 2 None; XoSet 5 1 77%Z;
   (* clearArchetype of {0,1} with the three members #2 #4 #5, then a creation in it: #6 *)
   XoClearArch 3%N []; XoCreate 0 3%N [] false;
   (* builder edits: #1 gets components 3 and 4 and loses 0 (5 is not there); a new entity #7 with two components;
      a bare one #8 *)
   XoBuild 0 (Some 1) [(3, 7%Z); (4, 9%Z)] [0; 5];
   XoBuild 0 None [(1, 11%Z); (0, 12%Z)] [];
   XoBuild 0 None [] [];
   (* clone of a built entity (#9), clone through a dead handle (nothing issued), a builder edit that only removes,
      a deferred destroy overtaken by clearArchetype, update *)
   XoClone 7; XoClone 0; XoBuild 0 (Some 6) [] [1]; XoDestroy 0 9; XoClearArch 1%N []; XoUpdate;
   XoClone 7;
   (* clear, and life afterwards *)
   XoClear; XoCreate 0 3%N [] false; XoBuild 0 (Some 11) [(2, 8%Z)] [1]].

Example C02_ext_nonvacuous :
  cis_ok ex_cis /\ forallb (alpha_e ex_cis) ex_script_ext = true /\ x_viol (xrun 1 ex_cis ex_script_ext) = 0 /\
  (forall typed, exists s hs, mrun typed 1 ex_cis ex_script_ext = Ok (s, hs) /\ (N.of_nat (length hs) < 16777000)%N /\
     hs = [(0, 0); (1, 0); (2, 0); (0, 1); (0, 2); (3, 0); (0, 3); (3, 1); (2, 1); (4, 0); (4, 1); (2, 2)]%N /\
     map (is_valid s) hs = [false; false; false; false; false; false; false; false; false; false; false; true]) /\
  (* the world just before clear() *)
  map (fun e => (e_k e, e_comps e)) (x_ents (xrun 1 ex_cis (firstn 31 ex_script_ext))) =
    [(1, [(1, Some 42%Z); (2, Some 1002%Z); (3, Some 7%Z); (4, Some 9%Z)]);
     (7, [(0, Some 12%Z); (1, Some 11%Z)]); (8, []);
     (10, [(0, Some 12%Z); (1, Some 11%Z)])] /\
  (forall typed, exists s hs, mrun typed 1 ex_cis (firstn 31 ex_script_ext) = Ok (s, hs) /\
     map (is_valid s) hs = [false; true; false; false; false; false; false; true; true; false; true]) /\
  (* and at the end *)
  map (fun e => (e_k e, e_comps e)) (x_ents (xrun 1 ex_cis ex_script_ext)) = [(11, [(0, None); (2, Some 8%Z)])].
Proof.
  split; [exact ex_cis_ok|]. split; [vm_compute; reflexivity|]. split; [vm_compute; reflexivity|]. split.
  - intros typed. destruct typed; eexists; eexists; (split; [vm_compute; reflexivity|]); (split; [vm_compute; reflexivity|]); split; vm_compute; reflexivity.
  - split; [vm_compute; reflexivity|]. split; [|vm_compute; reflexivity].
    intros typed. destruct typed; eexists; eexists; (split; [vm_compute; reflexivity|]); vm_compute; reflexivity.
Qed.

(* ---- why alpha_e bounds the masks ----------------------------------------------------------------------------- *)
(* a mask with a bit beyond the 128 of std::bitset<128> cannot be written in the C++; the model keeps it as the key of
   an archetype whose component list is empty, the specification sees an entity without components *)
Example C02_mask_width_is_a_model_artefact :
  refines_on false 1 ex_cis [XoCreate 0 (2 ^ 200)%N [] false; XoClearArch (2 ^ 200)%N []] = false /\
  x_viol (xrun 1 ex_cis [XoCreate 0 (2 ^ 200)%N [] false; XoClearArch (2 ^ 200)%N []]) = 0 /\
  alpha_e ex_cis (XoCreate 0 (2 ^ 200)%N [] false) = false /\ alpha_b ex_cis (XoCreate 0 (2 ^ 200)%N [] false) = true.
Proof. vm_compute. repeat split. Qed.

(* ---- a builder edit that maps back to the entity's own archetype ---------------------------------------------- *)
(* EntityManager::updateComponents skips the move when the target archetype is the current one (it used to throw
   "Moving from archetype ... to itself").  Inside alpha_e (no dependencies, no shared components) an in-contract edit
   never maps back (ManagerExtBuild.build_mask_changes), so the theorems above never meet that branch; with a
   dependency it is met by removing a dependent whose master stays: component 0 requires component 1, entity #0 has
   both; the edit "remove 1" is answered Ok, nothing moves, both values are kept -- and this is what the
   specification says (removing a dependent is a no-op), also when the same edit assigns a further component. *)
Definition ex_same_arch_pre : list xop := [XoDep 0 2%N; XoCreate 0 1%N [] false; XoSet 0 0 41%Z; XoSet 0 1 42%Z].
Example C02_build_same_archetype_is_noop :
  (forall typed, exists s hs, mrun typed 1 ex_cis ex_same_arch_pre = Ok (s, hs) /\ hs = [(0, 0)%N] /\
     map am_mask (archs s) = [3%N] /\ map am_ents (archs s) = [[(0, 0)%N]] /\
     map (fun e => (e_k e, e_comps e)) (abs s hs) = [(0, [(0, Some 41%Z); (1, Some 42%Z)])] /\
     exists s', step s (OBuild 0 (Some (0, 0)%N) [] [1]) = Ok (s', RNone) /\
       map am_mask (archs s') = [3%N] /\ map am_ents (archs s') = [[(0, 0)%N]] /\
       map (fun e => (e_k e, e_comps e)) (abs s' hs) = [(0, [(0, Some 41%Z); (1, Some 42%Z)])]) /\
  x_viol (xrun 1 ex_cis (ex_same_arch_pre ++ [XoBuild 0 (Some 0) [] [1]])) = 0 /\
  (forall typed, refines_on typed 1 ex_cis (ex_same_arch_pre ++ [XoBuild 0 (Some 0) [] [1]]) = true) /\
  (forall typed, refines_on typed 1 ex_cis (ex_same_arch_pre ++ [XoBuild 0 (Some 0) [(2, 5%Z)] [1]]) = true).
Proof.
  split; [|split; [vm_compute; reflexivity|split; intros typed; destruct typed; vm_compute; reflexivity]].
  intros typed. destruct typed; eexists; eexists; (split; [vm_compute; reflexivity|]); repeat (split; [vm_compute; reflexivity|]);
    eexists; (split; [vm_compute; reflexivity|]); repeat split; vm_compute; reflexivity.
Qed.
