(* C02 -- placeholder; theorems are added in proofs/ManagerProofs.v *)
Require Import Coq.Lists.List Coq.NArith.NArith.
From Mustache Require Import Res Manager.
Import ListNotations.
Example C02_placeholder : mitems 5%N = [0; 2].
Proof. vm_compute. reflexivity. Qed.
Print Assumptions C02_placeholder.
