(* Iter: the iteration machinery of jobs as pure functions over nat (C04, C06a).  NO PROOFS in this file.
     blocks of consecutive matching version chunks          base_job.cpp:11-50 (filterArchetype)
     entities-per-task split and the task cursor            task_view.hpp:144-217 (TaskGroup)
     archetype segments of one task                         task_view.hpp:96-142 (ArchetypeGroup)
     arrays: cut at block end, storage-chunk end, task end  task_view.hpp:19-86 (ArrayView), default_component_data_storage.cpp:81-91
     the 4x unrolled invocation loop                        job.hpp:65-117
   Unsigned subtractions and vector indexing are checked (Res): an Err is undefined behaviour in the C++. *)
Require Import Coq.Lists.List Coq.Arith.Arith Coq.Bool.Bool.
From Mustache Require Import Res.
Import ListNotations.

Definition sub_res (a b : nat) : res nat := if Nat.ltb a b then Err Underflow else Ok (a - b).

(* ---- blocks ---- *)
(* matches: one boolean per version chunk 0..last; size: archetype population; cs: version-chunk size *)
Fixpoint blocks_loop (cs : nat) (chunk : nat) (ms : list bool) (prev : bool) (b e : nat) (acc : list (nat * nat))
  : list (nat * nat) * bool * nat * nat :=
  match ms with
  | [] => (acc, prev, b, e)
  | m :: t =>
    if m then blocks_loop cs (S chunk) t true (if prev then b else chunk * cs) (S chunk * cs) acc
    else blocks_loop cs (S chunk) t false b e (if prev && Nat.ltb b e then acc ++ [(b, e)] else acc)
  end.

Definition filter_blocks (cs size : nat) (ms : list bool) : list (nat * nat) :=
  let '(acc, prev, b, e) := blocks_loop cs 0 ms false 0 0 [] in
  if prev then let e' := Nat.min size e in if Nat.ltb b e' then acc ++ [(b, e')] else acc else acc.

Definition blocks_count (bl : list (nat * nat)) : nat := fold_left (fun n be => n + (snd be - fst be)) bl 0.

(* one filtered archetype: blocks + number of selected entities *)
Record farch := { fa_arch : nat; fa_blocks : list (nat * nat); fa_count : nat; fa_size : nat (* population *) ; fa_cap : nat (* storage chunk capacity *) }.

(* ---- the task cursor (TaskGroup) ---- *)
Record cursor := { cu_arch : nat; cu_ent : nat }.

(* advance the cursor by n selected entities (TaskGroup::operator++) *)
Fixpoint advance (fuel : nat) (fas : list farch) (c : cursor) (n : nat) : res cursor :=
  match n with
  | O => Ok c
  | _ =>
    match fuel with
    | O => Err OutOfFuel
    | S f =>
      do a <- nth_res fas (cu_arch c);
      do free <- sub_res (fa_count a) (cu_ent c);
      if Nat.ltb n free then Ok {| cu_arch := cu_arch c; cu_ent := cu_ent c + n |}
      else advance f fas {| cu_arch := S (cu_arch c); cu_ent := 0 |} (n - free)
    end
  end.

Definition task_size (total tasks k : nat) : nat :=
  let ept := total / tasks in
  if Nat.ltb k (total - tasks * ept) then S ept else ept.

(* the start cursor and size of each of the T tasks, in order *)
Fixpoint task_infos (fuel : nat) (fas : list farch) (total tasks k : nat) (c : cursor) (todo : nat) : res (list (cursor * nat)) :=
  match todo with
  | O => Ok []
  | S todo' =>
    let sz := task_size total tasks k in
    do c' <- advance fuel fas c sz;
    do rest <- task_infos fuel fas total tasks (S k) c' todo';
    Ok ((c, sz) :: rest)
  end.

(* ---- the archetype segments of one task (ArchetypeGroup) ---- *)
(* (archetype position in the filtered list, first selected entity there, how many) *)
Fixpoint segments (fuel : nat) (fas : list farch) (ai first dist : nat) (is_first : bool) : res (list (nat * nat * nat)) :=
  match dist with
  | O => Ok []
  | _ =>
    match fuel with
    | O => Err OutOfFuel
    | S f =>
      do a <- nth_res fas ai;
      do free <- (if is_first then sub_res (fa_count a) first else Ok (fa_count a));
      let cur := Nat.min dist free in
      do rest <- segments f fas (S ai) 0 (dist - cur) false;
      Ok ((ai, first, cur) :: rest)
    end
  end.

(* ---- arrays of one segment (ArrayView) ---- *)
(* ArrayView::make: locate the block and real index of the first selected entity *)
Fixpoint locate (bl : list (nat * nat)) (bi : nat) (count : nat) : res (nat * nat) :=   (* (block index, real index) *)
  match bl with
  | [] => Err OobIndex
  | (b, e) :: t =>
    match count with
    | O => Ok (bi, b)
    | _ => if Nat.ltb (e - b) count then locate t (S bi) (count - (e - b)) else Ok (bi, b + count)
    end
  end.

Definition dist_to_chunk_end (size cap idx : nat) : res nat :=
  match cap with
  | O => Err DivZero
  | _ => Ok (Nat.min (if Nat.ltb idx size then size - idx else 0) (cap - idx mod cap))
  end.

(* updateBlock + operator++, as one loop: returns the arrays (real start index, length) *)
Fixpoint arrays_loop (fuel : nat) (a : farch) (bi idx dist : nat) : res (list (nat * nat)) :=
  match dist with
  | O => Ok []
  | _ =>
    match fuel with
    | O => Err OutOfFuel
    | S f =>
      do blk <- nth_res (fa_blocks a) bi;
      do to_block_end <- sub_res (snd blk) idx;
      do r <- (match to_block_end with
               | O => do nb <- nth_res (fa_blocks a) (S bi);
                      do skip <- sub_res (fst nb) idx;
                      do len <- sub_res (snd nb) (fst nb);
                      Ok (S bi, idx + skip, len)
               | _ => Ok (bi, idx, to_block_end)
               end);
      let '(bi', idx', tbe) := r in
      do dce <- dist_to_chunk_end (fa_size a) (fa_cap a) idx';
      let n := Nat.min tbe (Nat.min dce dist) in
      match n with
      | O => Err (Throw 20)           (* an empty array: the C++ loop would not advance *)
      | _ => do rest <- arrays_loop f a bi' (idx' + n) (dist - n); Ok ((idx', n) :: rest)
      end
    end
  end.

Definition arrays_of_segment (a : farch) (first count : nat) : res (list (nat * nat)) :=
  do loc <- locate (fa_blocks a) 0 first;
  do avail <- sub_res (fa_size a) (snd loc);
  arrays_loop (S (S (fa_size a))) a (fst loc) (snd loc) (Nat.min count avail).

(* ---- everything one task touches: (filtered archetype position, real start, length) per array ---- *)
Definition task_arrays (fas : list farch) (c : cursor) (sz : nat) : res (list (nat * nat * nat)) :=
  do segs <- segments (S (length fas)) fas (cu_arch c) (cu_ent c) sz true;
  fold_res (fun acc (sg : nat * nat * nat) =>
      let '(ai, first, cnt) := sg in
      do a <- nth_res fas ai;
      do arrs <- arrays_of_segment a first cnt;
      Ok (acc ++ map (fun x : nat * nat => (ai, fst x, snd x)) arrs)) segs [].

Definition total_count (fas : list farch) : nat := fold_left (fun n a => n + fa_count a) fas 0.

(* all tasks of a run: per task its arrays *)
Definition run_arrays (fas : list farch) (tasks : nat) : res (list (list (nat * nat * nat))) :=
  match tasks with
  | O => Err DivZero
  | _ =>
    let total := total_count fas in
    do infos <- task_infos (S (length fas)) fas total tasks 0 {| cu_arch := 0; cu_ent := 0 |} tasks;
    fold_res (fun acc (x : cursor * nat) => do arrs <- task_arrays fas (fst x) (snd x); Ok (acc ++ [arrs])) infos []
  end.

(* ---- the unrolled per-entity loop of typed jobs: offsets at which the user function is invoked ---- *)
Fixpoint unroll4 (groups : nat) (base : nat) : list nat :=
  match groups with
  | O => []
  | S g => base :: (base + 1) :: (base + 2) :: (base + 3) :: unroll4 g (base + 4)
  end.
Definition unrolled (count : nat) : list nat :=
  unroll4 (count / 4) 0 ++ map (fun i => 4 * (count / 4) + i) (seq 0 (count mod 4)).

(* ---- specification: the selected real indices of an archetype, in order ---- *)
Definition selected_of_blocks (bl : list (nat * nat)) : list nat := flat_map (fun be => seq (fst be) (snd be - fst be)) bl.
Definition selected_spec (cs size : nat) (ms : list bool) : list nat :=
  filter (fun i => nth (i / cs) ms false) (seq 0 size).
