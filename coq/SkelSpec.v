(* SkelSpec: the abstract specification of C01 -- which handles are alive -- over scripts whose
   handles are named by issue number (#k = the k-th handle any creation returned).
   This is what a user reads.  NO PROOFS in this file. *)
Require Import Coq.Lists.List Coq.NArith.NArith Coq.Arith.Arith Coq.Bool.Bool.
From Mustache Require Import Res.
Import ListNotations.

(* script operations: the alphabet of C01 *)
Inductive sop :=
| SoCreate (tid : nat) (key : N)
| SoDestroy (tid : nat) (k : nat)
| SoDestroyNow (tid : nat) (k : nat)
| SoClearArch (key : N)
| SoUpdate
| SoLock
| SoUnlock.

Inductive scmd := SCreate (k : nat) (key : N) | SDestroy (k : nat) | SDestroyNow (k : nat).

Record sst := {
  sp_alive : list (nat * N);        (* live handles with the archetype key they were created in *)
  sp_marked : list nat;             (* destroy() requests waiting for update() *)
  sp_lock : nat;
  sp_bufs : list (list scmd);       (* per thread, program order *)
  sp_count : nat;                   (* handles issued so far *)
  sp_nthr : nat
}.

Definition sp_init (n : nat) : sst :=
  {| sp_alive := []; sp_marked := []; sp_lock := 0; sp_bufs := []; sp_count := 0; sp_nthr := n |}.

Definition alive_b (sp : sst) (k : nat) : bool := existsb (fun p => Nat.eqb (fst p) k) (sp_alive sp).
Definition kill (l : list (nat * N)) (k : nat) := filter (fun p => negb (Nat.eqb (fst p) k)) l.

Definition with_alive sp v := {| sp_alive := v; sp_marked := sp_marked sp; sp_lock := sp_lock sp; sp_bufs := sp_bufs sp; sp_count := sp_count sp; sp_nthr := sp_nthr sp |}.
Definition with_marked sp v := {| sp_alive := sp_alive sp; sp_marked := v; sp_lock := sp_lock sp; sp_bufs := sp_bufs sp; sp_count := sp_count sp; sp_nthr := sp_nthr sp |}.
Definition with_lock sp v := {| sp_alive := sp_alive sp; sp_marked := sp_marked sp; sp_lock := v; sp_bufs := sp_bufs sp; sp_count := sp_count sp; sp_nthr := sp_nthr sp |}.
Definition with_bufs sp v := {| sp_alive := sp_alive sp; sp_marked := sp_marked sp; sp_lock := sp_lock sp; sp_bufs := v; sp_count := sp_count sp; sp_nthr := sp_nthr sp |}.
Definition with_count sp v := {| sp_alive := sp_alive sp; sp_marked := sp_marked sp; sp_lock := sp_lock sp; sp_bufs := sp_bufs sp; sp_count := v; sp_nthr := sp_nthr sp |}.

(* the unlocked meaning of one command; a command whose target is not alive is skipped *)
Definition spec_cmd (sp : sst) (c : scmd) : sst :=
  match c with
  | SCreate k key => with_alive sp (sp_alive sp ++ [(k, key)])
  | SDestroyNow k => with_alive sp (kill (sp_alive sp) k)
  | SDestroy k => if alive_b sp k then with_marked sp (k :: sp_marked sp) else sp
  end.

Definition spec_flush (sp : sst) : sst :=
  let sp1 := fold_left (fun s b => fold_left spec_cmd b s) (sp_bufs sp) sp in
  with_bufs sp1 (map (fun _ => []) (sp_bufs sp1)).

Definition spec_push (sp : sst) (tid : nat) (c : scmd) : sst :=
  with_bufs sp (upd (sp_bufs sp) tid (nth tid (sp_bufs sp) [] ++ [c])).

Definition spec_step (sp : sst) (o : sop) : sst :=
  match o with
  | SoCreate tid key =>
    let k := sp_count sp in
    let sp1 := with_count sp (S k) in
    match sp_lock sp with
    | O => with_alive sp1 (sp_alive sp1 ++ [(k, key)])
    | S _ => spec_push sp1 tid (SCreate k key)
    end
  | SoDestroy tid k =>
    if negb (Nat.ltb k (sp_count sp)) then sp else      (* not issued yet: the null handle *)
    match sp_lock sp with
    | O => with_marked sp (k :: sp_marked sp)
    | S _ => spec_push sp tid (SDestroy k)
    end
  | SoDestroyNow tid k =>
    if negb (Nat.ltb k (sp_count sp)) then sp else
    match sp_lock sp with
    | O => with_alive sp (kill (sp_alive sp) k)
    | S _ => spec_push sp tid (SDestroyNow k)
    end
  | SoClearArch key => with_alive sp (filter (fun p => negb (N.eqb (snd p) key)) (sp_alive sp))
  | SoUpdate =>
    with_marked (with_alive sp (fold_left kill (sp_marked sp) (sp_alive sp))) []
  | SoLock =>
    match sp_lock sp with
    | O => with_bufs (with_lock sp 1) (resize (sp_bufs sp) (sp_nthr sp) [])
    | S n => with_lock sp (S (S n))
    end
  | SoUnlock =>
    let sp1 := with_lock sp (pred (sp_lock sp)) in
    match sp_lock sp1 with
    | O => spec_flush sp1
    | S _ => sp1
    end
  end.

Definition spec_run (n : nat) (ops : list sop) : sst := fold_left spec_step ops (sp_init n).
