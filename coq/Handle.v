(* Hand-written field-level specification of the entity handle (C16).
   No reference to the generated code: this is what a user reads. *)
Require Import Coq.NArith.NArith.
Local Open Scope N_scope.

Definition ID_BITS : N := 30.
Definition WORLD_BITS : N := 10.
Definition VERSION_BITS : N := 24.

(* layout: bits 0..29 id, 30..39 world, 40..63 version *)
Definition spec_pack (id ver wid : N) : N := id + wid * 2 ^ 30 + ver * 2 ^ 40.
Definition spec_id (v : N) : N := v mod 2 ^ 30.
Definition spec_world (v : N) : N := (v / 2 ^ 30) mod 2 ^ 10.
Definition spec_version (v : N) : N := (v / 2 ^ 40) mod 2 ^ 24.
Definition spec_null : N := 2 ^ 64 - 1.

(* align-up: least multiple of a that is >= x *)
Definition is_align_up (x a r : N) : Prop :=
  r mod a = 0 /\ x <= r /\ r < x + a.
