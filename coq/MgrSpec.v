(* MgrSpec: the abstract specification of the entity manager -- what a user reads.
   A world is a finite map from live handles (named by issue number) to their components with values and
   their shared values.  Every operation has its one-line meaning; operations recorded under lock take
   effect at the outermost unlock, thread buffers in index order, program order inside a buffer, commands
   whose target is not alive at that point being skipped (C02, C05, C09, C12, C13; attach/detach counters for C03).
   NO PROOFS in this file. *)
Require Import Coq.Lists.List Coq.NArith.NArith Coq.ZArith.ZArith Coq.Arith.Arith Coq.Bool.Bool.
From Mustache Require Import Res Manager.
Import ListNotations.

Record ent := {
  e_k : nat;                        (* issue number of the handle *)
  e_comps : list (nat * cell);      (* sorted by component id *)
  e_shared : list (nat * Z)         (* sorted by shared id: the VALUE; instances are one per value *)
}.

Inductive xcmd :=
| XCreate (k : nat) (m : mask) (sh : list (nat * Z))
| XDestroy (k : nat)
| XDestroyNow (k : nat)
| XAssign (k : nat) (c : nat) (v : option Z)      (* None: default construction *)
| XRemove (k : nat) (c : nat).

Record xst := {
  x_ents : list ent;                (* live entities, by issue number *)
  x_marked : list nat;
  x_lock : nat;
  x_bufs : list (list xcmd);
  x_count : nat;
  x_deps : list (nat * mask);
  x_cinfos : list cinfo;
  x_nthr : nat;
  x_att : list (nat * nat);         (* (k, component) attachments so far -- one entry per attachment *)
  x_det : list (nat * nat);         (* detachments by removal or destruction *)
  x_viol : nat                      (* operations so far that were outside the documented contract *)
}.

Definition x_init (n : nat) (cis : list cinfo) : xst :=
  {| x_ents := []; x_marked := []; x_lock := 0; x_bufs := []; x_count := 0; x_deps := []; x_cinfos := cis;
     x_nthr := n; x_att := []; x_det := []; x_viol := 0 |}.

Definition xw_ents s v := {| x_ents := v; x_marked := x_marked s; x_lock := x_lock s; x_bufs := x_bufs s; x_count := x_count s; x_deps := x_deps s; x_cinfos := x_cinfos s; x_nthr := x_nthr s; x_att := x_att s; x_det := x_det s; x_viol := x_viol s |}.
Definition xw_marked s v := {| x_ents := x_ents s; x_marked := v; x_lock := x_lock s; x_bufs := x_bufs s; x_count := x_count s; x_deps := x_deps s; x_cinfos := x_cinfos s; x_nthr := x_nthr s; x_att := x_att s; x_det := x_det s; x_viol := x_viol s |}.
Definition xw_lock s v := {| x_ents := x_ents s; x_marked := x_marked s; x_lock := v; x_bufs := x_bufs s; x_count := x_count s; x_deps := x_deps s; x_cinfos := x_cinfos s; x_nthr := x_nthr s; x_att := x_att s; x_det := x_det s; x_viol := x_viol s |}.
Definition xw_bufs s v := {| x_ents := x_ents s; x_marked := x_marked s; x_lock := x_lock s; x_bufs := v; x_count := x_count s; x_deps := x_deps s; x_cinfos := x_cinfos s; x_nthr := x_nthr s; x_att := x_att s; x_det := x_det s; x_viol := x_viol s |}.
Definition xw_count s v := {| x_ents := x_ents s; x_marked := x_marked s; x_lock := x_lock s; x_bufs := x_bufs s; x_count := v; x_deps := x_deps s; x_cinfos := x_cinfos s; x_nthr := x_nthr s; x_att := x_att s; x_det := x_det s; x_viol := x_viol s |}.
Definition xw_deps s v := {| x_ents := x_ents s; x_marked := x_marked s; x_lock := x_lock s; x_bufs := x_bufs s; x_count := x_count s; x_deps := v; x_cinfos := x_cinfos s; x_nthr := x_nthr s; x_att := x_att s; x_det := x_det s; x_viol := x_viol s |}.
Definition xw_att s a d := {| x_ents := x_ents s; x_marked := x_marked s; x_lock := x_lock s; x_bufs := x_bufs s; x_count := x_count s; x_deps := x_deps s; x_cinfos := x_cinfos s; x_nthr := x_nthr s; x_att := a; x_det := d; x_viol := x_viol s |}.
Definition xw_viol s := {| x_ents := x_ents s; x_marked := x_marked s; x_lock := x_lock s; x_bufs := x_bufs s; x_count := x_count s; x_deps := x_deps s; x_cinfos := x_cinfos s; x_nthr := x_nthr s; x_att := x_att s; x_det := x_det s; x_viol := S (x_viol s) |}.

(* ---- dependency closure: the least set containing m and closed under the declared dependencies ---- *)
Definition dep_step (d : list (nat * mask)) (m : mask) : mask :=
  fold_left (fun r (p : nat * mask) => if mhas m (fst p) then munion r (snd p) else r) d m.
Fixpoint closure_fuel (fuel : nat) (d : list (nat * mask)) (m : mask) : mask :=
  match fuel with
  | O => m
  | S f => let m' := dep_step d m in if N.eqb m' m then m else closure_fuel f d m'
  end.
Definition closure (d : list (nat * mask)) (m : mask) : mask := closure_fuel 130 d m.

(* declaration: master requires extra, plus everything extra requires already *)
Definition x_add_dep (d : list (nat * mask)) (c : nat) (extra : mask) : list (nat * mask) :=
  let old := match dep_find d c with Some m => m | None => 0%N end in
  dep_set d c (munion old (closure d extra)).

(* ---- entities ---- *)
Definition default_cell (cis : list cinfo) (c : nat) : cell :=
  match nth_error cis c with
  | Some i => match ci_create i with Some v => Some v | None => ci_default i end
  | None => None
  end.

Definition find_ent (s : xst) (k : nat) : option ent := find (fun e => Nat.eqb (e_k e) k) (x_ents s).
Definition alive_x (s : xst) (k : nat) : bool := match find_ent s k with Some _ => true | None => false end.
Definition drop_ent (l : list ent) (k : nat) : list ent := filter (fun e => negb (Nat.eqb (e_k e) k)) l.
Definition put_ent (l : list ent) (e : ent) : list ent := drop_ent l (e_k e) ++ [e].

Definition comp_mask (cs : list (nat * cell)) : mask := fold_left (fun m p => madd m (fst p)) cs 0%N.
Definition has_comp (cs : list (nat * cell)) (c : nat) : bool := existsb (fun p => Nat.eqb (fst p) c) cs.
Fixpoint insert_comp (cs : list (nat * cell)) (c : nat) (v : cell) : list (nat * cell) :=
  match cs with
  | [] => [(c, v)]
  | (c', v') :: t => if Nat.eqb c c' then (c, v) :: t else if Nat.ltb c c' then (c, v) :: cs else (c', v') :: insert_comp t c v
  end.
Fixpoint insert_shared (cs : list (nat * Z)) (c : nat) (v : Z) : list (nat * Z) :=
  match cs with
  | [] => [(c, v)]
  | (c', v') :: t => if Nat.eqb c c' then (c, v) :: t else if Nat.ltb c c' then (c, v) :: cs else (c', v') :: insert_shared t c v
  end.

(* widen a component list to the closure of its set: new members get their default value *)
Definition widen (s : xst) (k : nat) (cs : list (nat * cell)) : list (nat * cell) * list (nat * nat) :=
  let target := closure (x_deps s) (comp_mask cs) in
  fold_left (fun (acc : list (nat * cell) * list (nat * nat)) c =>
      if has_comp (fst acc) c then acc
      else (insert_comp (fst acc) c (default_cell (x_cinfos s) c), snd acc ++ [(k, c)]))
    (mitems target) (cs, []).

(* ---- the unlocked meaning of each structural command ---- *)
Definition x_create (s : xst) (k : nat) (m : mask) (sh : list (nat * Z)) : xst :=
  let cs0 := map (fun c => (c, default_cell (x_cinfos s) c)) (mitems m) in
  let '(cs, att) := widen s k cs0 in
  let s1 := xw_ents s (put_ent (x_ents s) {| e_k := k; e_comps := cs; e_shared := sh |}) in
  xw_att s1 (x_att s1 ++ map (fun c => (k, c)) (mitems m) ++ att) (x_det s1).

Definition x_kill (s : xst) (k : nat) : xst :=
  match find_ent s k with
  | None => s
  | Some e => xw_att (xw_ents s (drop_ent (x_ents s) k)) (x_att s) (x_det s ++ map (fun p => (k, fst p)) (e_comps e))
  end.

Definition x_assign (s : xst) (k : nat) (c : nat) (v : option Z) : xst :=
  match find_ent s k with
  | None => s
  | Some e =>
    if has_comp (e_comps e) c then xw_viol s else
    let cell0 := match v with Some x => Some x | None => default_cell (x_cinfos s) c end in
    let '(cs, att) := widen s k (insert_comp (e_comps e) c cell0) in
    let s1 := xw_ents s (put_ent (x_ents s) {| e_k := k; e_comps := cs; e_shared := e_shared e |}) in
    xw_att s1 (x_att s1 ++ [(k, c)] ++ att) (x_det s1)
  end.

Definition x_remove (s : xst) (k : nat) (c : nat) : xst :=
  match find_ent s k with
  | None => s
  | Some e =>
    if negb (has_comp (e_comps e) c) then s else
    let rest := filter (fun p => negb (Nat.eqb (fst p) c)) (e_comps e) in
    (* removing a dependent of a present master has no effect *)
    if mhas (closure (x_deps s) (comp_mask rest)) c then s else
    let s1 := xw_ents s (put_ent (x_ents s) {| e_k := k; e_comps := rest; e_shared := e_shared e |}) in
    xw_att s1 (x_att s1) (x_det s1 ++ [(k, c)])
  end.

Definition x_cmd (s : xst) (c : xcmd) : xst :=
  match c with
  | XCreate k m sh => x_create s k m sh
  | XDestroyNow k => x_kill s k
  | XDestroy k => if alive_x s k then xw_marked s (k :: x_marked s) else s
  | XAssign k c v => x_assign s k c v
  | XRemove k c => x_remove s k c
  end.

Definition x_flush (s : xst) : xst :=
  let s1 := fold_left (fun st b => fold_left x_cmd b st) (x_bufs s) s in
  xw_bufs s1 (map (fun _ => []) (x_bufs s1)).

Definition x_push (s : xst) (tid : nat) (c : xcmd) : xst :=
  xw_bufs s (upd (x_bufs s) tid (nth tid (x_bufs s) [] ++ [c])).

(* ---- script operations ---- *)
Inductive xop :=
| XoCreate (tid : nat) (m : mask) (sids : list nat) (via_arch : bool)
| XoDestroy (tid : nat) (k : nat)
| XoDestroyNow (tid : nat) (k : nat)
| XoClearArch (m : mask) (sids : list nat)
| XoClear
| XoUpdate
| XoLock
| XoUnlock
| XoAssign (tid : nat) (k : nat) (c : nat) (v : option Z)
| XoRemove (tid : nat) (k : nat) (c : nat) (typed : bool)
| XoAssignShared (k : nat) (sid : nat) (v : Z)
| XoRemoveShared (k : nat) (sid : nat)
| XoClone (k : nat)
| XoSet (k : nat) (c : nat) (v : Z)
| XoDep (c : nat) (m : mask)
| XoBuild (tid : nat) (target : option nat) (assigns : list (nat * Z)) (removes : list nat).   (* one builder edit *)

Definition issued_b (s : xst) (k : nat) : bool := Nat.ltb k (x_count s).
Fixpoint NoDup_b (l : list nat) : bool :=
  match l with [] => true | x :: t => negb (existsb (Nat.eqb x) t) && NoDup_b t end.

Definition tid_ok (s : xst) (tid : nat) : bool := Nat.ltb tid (x_nthr s).

(* which operations are outside the documented contract in the current state (unchecked entry points on
   handles that are not alive, update or clone while locked, thread ids beyond the buffer count) *)
Definition out_of_contract (s : xst) (o : xop) : bool :=
  match o with
  | XoAssign tid k c _ => match x_lock s with O => negb (alive_x s k) | S _ => negb (tid_ok s tid) end
  | XoRemove tid k c typed => match x_lock s with O => negb typed && negb (alive_x s k) | S _ => negb (tid_ok s tid) end
  | XoCreate tid _ _ _ | XoDestroy tid _ | XoDestroyNow tid _ => match x_lock s with O => false | S _ => negb (tid_ok s tid) end
  | XoAssignShared k _ _ => negb (alive_x s k) || negb (Nat.eqb (x_lock s) 0)
  | XoRemoveShared k _ => negb (Nat.eqb (x_lock s) 0)
  | XoClone k =>
    negb (Nat.eqb (x_lock s) 0) ||
    (* a run-time described component has no clone function (the C interface offers no clone) *)
    match find_ent s k with
    | Some e => existsb (fun p => match nth_error (x_cinfos s) (fst p) with Some i => negb (ci_clone i) | None => false end) (e_comps e)
    | None => false
    end
  | XoUpdate | XoClear | XoClearArch _ _ => negb (Nat.eqb (x_lock s) 0)
  | XoBuild tid target assigns removes =>
    (* a builder edit names each component at most once, targets a live entity (or none: a new one) and changes its component set *)
    existsb (fun a => existsb (Nat.eqb (fst a)) removes) assigns ||
    negb (NoDup_b (map fst assigns)) ||
    match x_lock s with
    | S _ => negb (tid_ok s tid) || match target with Some k => negb (issued_b s k) | None => false end
    | O =>
      match target with
      | None => false
      | Some k =>
        match find_ent s k with
        | None => true
        | Some e => (match assigns with [] => true | _ => false end) && negb (existsb (has_comp (e_comps e)) removes)
        end
      end
    end
  | _ => false
  end.

Definition x_step_in (s : xst) (o : xop) : xst :=
  match o with
  | XoCreate tid m sids via_arch =>
    let k := x_count s in
    let s1 := xw_count s (S k) in
    let sh := map (fun sid => (sid, 0%Z)) sids in
    match x_lock s with
    | O => x_create s1 k m sh
    | S _ => x_push s1 tid (XCreate k m sh)
    end
  | XoDestroy tid k =>
    if negb (issued_b s k) then s else
    match x_lock s with O => xw_marked s (k :: x_marked s) | S _ => x_push s tid (XDestroy k) end
  | XoDestroyNow tid k =>
    if negb (issued_b s k) then s else
    match x_lock s with O => x_kill s k | S _ => x_push s tid (XDestroyNow k) end
  | XoClearArch m sids =>
    (* with shared types the call names an archetype of fresh shared instances, which has no members *)
    match sids with
    | _ :: _ => s
    | [] =>
      let target := closure (x_deps s) m in
      xw_ents s (filter (fun e => negb (N.eqb (comp_mask (e_comps e)) target && (match e_shared e with [] => true | _ => false end))) (x_ents s))
    end
  | XoClear => xw_ents s []
  | XoUpdate =>
    xw_marked (fold_left x_kill (x_marked s) s) []
  | XoLock =>
    match x_lock s with
    | O => xw_bufs (xw_lock s 1) (resize (x_bufs s) (x_nthr s) [])
    | S n => xw_lock s (S (S n))
    end
  | XoUnlock =>
    let s1 := xw_lock s (pred (x_lock s)) in
    match x_lock s1 with O => x_flush s1 | S _ => s1 end
  | XoAssign tid k c v =>
    if negb (issued_b s k) then s else
    match x_lock s with O => x_assign s k c v | S _ => x_push s tid (XAssign k c v) end
  | XoRemove tid k c _ =>
    if negb (issued_b s k) then s else
    match x_lock s with O => x_remove s k c | S _ => x_push s tid (XRemove k c) end
  | XoAssignShared k sid v =>
    match find_ent s k with
    | None => s
    | Some e => xw_ents s (put_ent (x_ents s) {| e_k := k; e_comps := e_comps e; e_shared := insert_shared (e_shared e) sid v |})
    end
  | XoRemoveShared k sid =>
    match find_ent s k with
    | None => s
    | Some e => xw_ents s (put_ent (x_ents s) {| e_k := k; e_comps := e_comps e; e_shared := filter (fun p => negb (Nat.eqb (fst p) sid)) (e_shared e) |})
    end
  | XoClone k =>
    match find_ent s k with
    | None => s                                (* cloning a dead handle returns the null handle: nothing is issued *)
    | Some e =>
      let k' := x_count s in
      let s1 := xw_count s (S k') in
      (* cloning has its own hook (afterClone); it is not counted as an attachment for afterAssign *)
      xw_ents s1 (put_ent (x_ents s1) {| e_k := k'; e_comps := e_comps e; e_shared := e_shared e |})
    end
  | XoSet k c v =>
    match find_ent s k with
    | None => s
    | Some e => if has_comp (e_comps e) c
                then xw_ents s (put_ent (x_ents s) {| e_k := k; e_comps := insert_comp (e_comps e) c (Some v); e_shared := e_shared e |})
                else s
    end
  | XoDep c m => xw_deps s (x_add_dep (x_deps s) c m)
  | XoBuild tid target assigns removes =>
    (* the edit is the assignments followed by the removals, on the target or on a new entity without components
       (removals mean nothing for a new entity) *)
    match target with
    | None =>
      let k := x_count s in
      let s1 := xw_count s (S k) in
      match x_lock s with
      | O => fold_left (fun st (a : nat * Z) => x_assign st k (fst a) (Some (snd a))) assigns (x_create s1 k 0%N [])
      | S _ => fold_left (fun st (a : nat * Z) => x_push st tid (XAssign k (fst a) (Some (snd a)))) assigns (x_push s1 tid (XCreate k 0%N []))
      end
    | Some k =>
      match x_lock s with
      | O => fold_left (fun st c => x_remove st k c)
                       removes (fold_left (fun st (a : nat * Z) => x_assign st k (fst a) (Some (snd a))) assigns s)
      | S _ => fold_left (fun st c => x_push st tid (XRemove k c))
                         removes (fold_left (fun st (a : nat * Z) => x_push st tid (XAssign k (fst a) (Some (snd a)))) assigns s)
      end
    end
  end.

Definition x_step (s : xst) (o : xop) : xst :=
  if out_of_contract s o then xw_viol s else x_step_in s o.
