(* C17 -- worlds are independent, however many a process creates. Statements only.
   Model: Worlds.v (the process-global id allocator of world.cpp) + the generated handle code (C16). *)
Require Import Coq.Lists.List Coq.NArith.NArith.
From Mustache Require Import CInt Worlds.
From Mustache.gen Require Import EntityGen.
From Mustache.proofs Require Import WorldsProofs HandleProofs.
Import ListNotations.
Local Open Scope N_scope.

(* every history of world creations and destructions in which at most 1024 worlds are alive at once (w_run returns
   Some exactly for those): every id ever handed out fits the 10-bit world field -- the first world or the ten-thousandth *)
Theorem C17_ids_in_range : forall ops s ids,
  w_run w_init ops = Some (s, ids) -> Forall (fun i => i < 1024) ids.
Proof. intros ops s ids H. exact (proj2 (run_inv ops w_init s ids winv_init H)). Qed.
Print Assumptions C17_ids_in_range.

(* the allocator invariant holds in every reachable state: pool and live ids are disjoint, duplicate free, and are
   exactly the ids below next_id *)
Theorem C17_allocator_invariant : forall ops s ids, w_run w_init ops = Some (s, ids) -> WInv s.
Proof. intros ops s ids H. exact (proj1 (run_inv ops w_init s ids winv_init H)). Qed.
Print Assumptions C17_allocator_invariant.

(* a new world's id differs from the id of every simultaneously live world *)
Theorem C17_ids_distinct : forall s s' i,
  WInv s -> op_ok s WNew = true -> w_step s WNew = (s', Some i) ->
  i < 1024 /\ ~ In i (w_live s) /\ In i (w_live s').
Proof. exact new_id_fresh. Qed.
Print Assumptions C17_ids_distinct.

(* hence a handle issued by one live world is rejected by every other live world: the world field of the packed
   handle (generated code, C16) reads back exactly the issuing world's id, and isEntityValid compares it *)
Theorem C17_foreign_handle_rejected : forall v0 id ver w w',
  id < 2 ^ 30 -> ver < 2 ^ 24 -> w < 2 ^ 10 -> w' <> w ->
  Entity.worldId (Entity.reset_3 v0 id ver w) <> w'.
Proof.
  intros v0 id ver w w' Hi Hv Hw Hne. rewrite unpack_pack_world by assumption. congruence.
Qed.
Print Assumptions C17_foreign_handle_rejected.

(* why the 1024 bound is part of the statement: an id that does not fit corrupts the version field (C16) *)
Theorem C17_beyond_1024_refuted :
  exists wid, 2 ^ 10 <= wid /\ Entity.version (Entity.reset_3 0 0 0 wid) <> 0.
Proof. exists 1024. split; vm_compute; congruence. Qed.
Print Assumptions C17_beyond_1024_refuted.

(* non-vacuity: 3 worlds, one destroyed and its id reused *)
Example C17_example : w_run w_init [WNew; WNew; WNew; WDel 1; WNew; WNew] = Some ({| w_next := 4; w_pool := []; w_live := [3; 1; 2; 0] |}, [0; 1; 2; 1; 3]).
Proof. vm_compute. reflexivity. Qed.
