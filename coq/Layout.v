(* Layout: the column layout of a storage chunk (default_component_data_storage.cpp:24-50), over the GENERATED
   align-up (gen/IdDeffGen.v) in 32-bit arithmetic.  NO PROOFS in this file. *)
Require Import Coq.Lists.List Coq.NArith.NArith.
From Mustache Require Import CInt.
From Mustache.gen Require Import IdDeffGen.
Import ListNotations.
Local Open Scope N_scope.

Record lay := { l_offsets : list N; l_end : N; l_align : N }.

(* one component (size, align): offset = alignAs(running offset, align); running offset += capacity * size *)
Definition lay_step (cap : N) (st : lay) (c : N * N) : lay :=
  let '(size, align) := c in
  let off := ComponentOffset.alignAs (l_end st) align in
  {| l_offsets := l_offsets st ++ [off];
     l_end := wrap 32 (off + wrap 32 (cap * size));
     l_align := if l_align st <? align then align else l_align st |}.

Definition layout_fold (cap : N) (comps : list (N * N)) : lay :=
  fold_left (lay_step cap) comps {| l_offsets := []; l_end := 0; l_align := 0 |}.

(* chunk_size_ = offset.alignAs(chunk_align_) ; an empty mask has no chunks at all *)
Definition chunk_size (cap : N) (comps : list (N * N)) : N :=
  match comps with
  | [] => 0
  | _ => let l := layout_fold cap comps in ComponentOffset.alignAs (l_end l) (l_align l)
  end.
Definition chunk_align (cap : N) (comps : list (N * N)) : N := l_align (layout_fold cap comps).
Definition offsets (cap : N) (comps : list (N * N)) : list N := l_offsets (layout_fold cap comps).

(* address of item i of component number k in a chunk at base *)
Definition addr (base : N) (cap : N) (comps : list (N * N)) (k : nat) (i : N) : N :=
  base + nth k (offsets cap comps) 0 + fst (nth k comps (0, 1)) * i.

(* the pinned rule, kept to state what went wrong: the chunk alignment was that of the first component only *)
Definition chunk_align_pinned (comps : list (N * N)) : N := match comps with [] => 0 | c :: _ => snd c end.
