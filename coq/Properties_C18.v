(* C18 -- placeholder; see proofs *)
Require Import Coq.Lists.List.
From Mustache Require Import Res Manager Palette.
Import ListNotations.
Example C18_placeholder : ci_mctor (pal_info 8 0) = false /\ ci_mctor (pal_info 8 8) = true.
Proof. split; reflexivity. Qed.
Print Assumptions C18_placeholder.
