(* C18 -- the C API behaves like the C++ API on the same operations. Statements only; proofs in proofs/CApiProofs.v.
   In the Manager model both interfaces drive the same operations.  The C interface has only the untyped, id-based
   entry points (OAssign/ORemove with typed = false: assign by component id, default construction, then a write
   through the returned pointer; removeComponent(entity, id) without the validity guard) and components described at
   run time by a table of optional functions (Palette.pal_info for palette numbers 8..11, flag bits 1 create, 2 copy,
   4 move, 8 move_constructor, 16 destroy, 32 default value).
   res_rel R r r' : both runs succeed with R-related results, or both fail with the same error. *)
Require Import Coq.Lists.List Coq.NArith.NArith Coq.ZArith.ZArith Coq.Arith.Arith Coq.Bool.Bool Coq.Sorting.Permutation.
From Mustache Require Import Res Manager Palette.
From Mustache.proofs Require Import CApiProofs.
Import ListNotations.

(* ---- 1. assign with a value ---- *)
(* EVERY state, both lock modes: for a component that carries a value, "assign by id + write through the pointer" and
   the typed assign<T>(e, x) end in states equal in every field but the event log and return the same thing; when one
   fails so does the other, with the same error *)
Theorem C18_assign_value_agree : forall s tid h c x inf,
  nth_error (cinfos s) c = Some inf -> ci_hasval inf = true ->
  res_rel (fun rt ru => state_eq_but_log (fst rt) (fst ru) /\ snd rt = snd ru)
    (step s (OAssign tid h c (AValue x) true)) (step s (OAssign tid h c (AValue x) false)).
Proof. exact assign_value_agree. Qed.
Print Assumptions C18_assign_value_agree.

Theorem C18_state_eq_but_log_is_fieldwise : forall s1 s2,
  state_eq_but_log s1 s2 <->
  slots s1 = slots s2 /\ locs s1 = locs s2 /\ next_slot s1 = next_slot s2 /\ empty_slots s1 = empty_slots s2 /\
  archs s1 = archs s2 /\ lockc s1 = lockc s2 /\ next_eid s1 = next_eid s2 /\ bufs s1 = bufs s2 /\ tmps s1 = tmps s2 /\
  marked s1 = marked s2 /\ deps s1 = deps s2 /\ pool s1 = pool s2 /\ insts s1 = insts s2 /\ wv s1 = wv s2 /\
  cached s1 = cached s2 /\ def_chunk s1 = def_chunk s2 /\ chunk_fns s1 = chunk_fns s2 /\ cinfos s1 = cinfos s2 /\
  nthreads s1 = nthreads s2 /\ epoch s1 = epoch s2.
Proof. exact state_eq_but_log_fields. Qed.
Print Assumptions C18_state_eq_but_log_is_fieldwise.

(* ---- 2. the events ---- *)
(* unlocked (logs are newest first): the two logs hold the same events, except that the typed run ends with
   Tev = [afterAssign; EvV] for the new cell p where the untyped run has X -- nothing, or Cev = [afterAssign; EvC] for the
   same cell p -- at the point where externalMove's component loop reaches the new component.  So: the C path emits
   EvC where the C++ path emits EvV, at the same place, only earlier; afterAssign fires before the value is written
   instead of after; and when the description has no create function the C path emits no construction event at all. *)
Theorem C18_assign_value_unlocked_events : forall s tid h c x inf,
  lockc s = 0 -> nth_error (cinfos s) c = Some inf -> ci_hasval inf = true ->
  res_rel (fun rt ru =>
      state_eq_but_log (fst rt) (fst ru) /\ snd rt = snd ru /\
      exists ai slot pre X L1,
        log (fst rt) = Tev inf (PArch ai c slot) h ++ pre ++ L1 /\
        log (fst ru) = pre ++ X ++ L1 /\
        (X = [] \/ X = Cev inf (PArch ai c slot) h))
    (step s (OAssign tid h c (AValue x) true)) (step s (OAssign tid h c (AValue x) false)).
Proof. exact assign_value_unlocked. Qed.
Print Assumptions C18_assign_value_unlocked_events.

(* locked: same command, same temporary with the same value; exactly one event differs *)
Theorem C18_assign_value_locked_events : forall s tid h c x inf k,
  lockc s = S k -> nth_error (cinfos s) c = Some inf -> ci_hasval inf = true ->
  res_rel (fun rt ru =>
      state_eq_but_log (fst rt) (fst ru) /\ snd rt = snd ru /\
      exists n, let p := PTmp (epoch s * 64 + tid) n in
        log (fst rt) = (if ci_ev inf then [EvV (ci_pal inf) p] else []) ++ log s /\
        log (fst ru) = (match ci_create inf with Some _ => if ci_ev inf then [EvC (ci_pal inf) p] else [] | None => [] end) ++ log s)
    (step s (OAssign tid h c (AValue x) true)) (step s (OAssign tid h c (AValue x) false)).
Proof. exact assign_value_locked. Qed.
Print Assumptions C18_assign_value_locked_events.

(* ---- removal ---- *)
Theorem C18_remove_agree : forall s tid h c, is_valid s h = true \/ lockc s <> 0 ->
  step s (ORemove tid h c false) = step s (ORemove tid h c true).
Proof. exact remove_agree. Qed.
Print Assumptions C18_remove_agree.

(* FINDING (refutes agreement on handles the validity test rejects): removeComponent(world, entity, id) of the C API
   trusts the id part of a stale handle; with the id recycled it strips the component from the LIVE entity that now owns
   the id, where removeComponent<T>(stale) does nothing (c_api.cpp:275-277 -> entity_manager.cpp:187-205). *)
Example C18_remove_stale_differs :
  exists s, run_ops (init 1 [pal_info 0 0; pal_info 2 0]) [OCreate 0 3%N [] false; ODestroyNow 0 (0, 0)%N; OCreate 0 3%N [] false] = Ok s /\
    lockc s = 0 /\ is_valid s (0, 0)%N = false /\ is_valid s (0, 1)%N = true /\
    step s (ORemove 0 (0, 0)%N 1 true) = Ok (s, RNone) /\
    out_of (step s (OHas (0, 1)%N 1)) = Some (RBool true) /\
    exists s2, step s (ORemove 0 (0, 0)%N 1 false) = Ok (s2, RNone) /\ out_of (step s2 (OHas (0, 1)%N 1)) = Some (RBool false).
Proof. exact remove_stale_differs. Qed.

(* ---- 3. components described at run time ---- *)
Theorem C18_described_fields : forall p f, 8 <= p <= 11 ->
  let i := pal_info p f in
  ci_pal i = p /\ ci_ev i = true /\ ci_hasval i = true /\
  ci_create i = (if Nat.testbit f 0 then Some (Z.of_nat (1000 + p)) else None) /\
  ci_copy i = Nat.testbit f 1 /\ ci_move i = Nat.testbit f 2 /\ ci_mctor i = Nat.testbit f 3 /\
  ci_destroy i = Nat.testbit f 4 /\
  ci_default i = (if Nat.testbit f 5 then Some (Z.of_nat (2000 + p)) else None) /\
  ci_aa i = false /\ ci_br i = false /\ ci_clone i = false.
Proof. exact pal_info_fields. Qed.
Print Assumptions C18_described_fields.

(* a full table (with or without a default value) is lifecycle-equivalent to the instrumented static type, an empty
   table to a trivially copyable static type *)
Theorem C18_full_table_like_static : forall p, 8 <= p <= 11 ->
  lc_equiv (pal_info p 31) (inst_info p false) /\ lc_equiv (pal_info p 63) (inst_info p false).
Proof. exact dyn_full_like_static. Qed.
Print Assumptions C18_full_table_like_static.
Theorem C18_empty_table_like_trivial : forall p, 8 <= p <= 11 -> lc_equiv (pal_info p 0) (trivial_info p true).
Proof. exact dyn_plain_like_trivial. Qed.
Print Assumptions C18_empty_table_like_trivial.

(* and lifecycle-equivalent descriptions construct and destroy alike in EVERY state: same cells written, same events
   (EvC / afterAssign / EvD) at the same places, same errors *)
Theorem C18_construct_default_equiv : forall s cis' ai c ci slot h u, Forall2 lc_equiv (cinfos s) cis' ->
  construct_default (set_cinfos s cis') ai c ci slot h u = res_map (fun t => set_cinfos t cis') (construct_default s ai c ci slot h u).
Proof. exact construct_default_equiv. Qed.
Print Assumptions C18_construct_default_equiv.
Theorem C18_call_destructor_equiv : forall s cis' ai slot, Forall2 lc_equiv (cinfos s) cis' ->
  call_destructor (set_cinfos s cis') ai slot = res_map (fun t => set_cinfos t cis') (call_destructor s ai slot).
Proof. exact call_destructor_equiv. Qed.
Print Assumptions C18_call_destructor_equiv.

(* ---- 4. job descriptors ---- *)
Theorem C18_job_masks_order_irrelevant : forall j l',
  Permutation (j_reqs j) l' -> NoDup (map req_id (j_reqs j)) ->
  job_required_mask (with_reqs j l') = job_required_mask j /\ job_update_mask (with_reqs j l') = job_update_mask j.
Proof. exact job_masks_order_irrelevant. Qed.
Print Assumptions C18_job_masks_order_irrelevant.

(* distinctness is needed: with an id listed twice the later request wins *)
Example C18_job_masks_duplicate_ids :
  let j := {| j_reqs := [(1, false, true); (1, false, false)]; j_check := 0%N; j_last := 0%N |} in
  Permutation (j_reqs j) [(1, false, false); (1, false, true)] /\
  job_required_mask j = 0%N /\ job_required_mask (with_reqs j [(1, false, false); (1, false, true)]) = 2%N.
Proof. exact job_masks_duplicate_ids_order_matters. Qed.

(* ---- non-vacuity: the hypotheses hold on concrete, non-trivial inputs ---- *)
(* components: 0 trivial, 1 instrumented static (palette 2), 2 described with the full table and a default value *)
Definition cis18 : list cinfo := [pal_info 0 0; pal_info 2 0; pal_info 8 63; pal_info 9 32].
Definition base18 : res mst := run_ops (init 1 cis18) [OCreate 0 1%N [] false; OCreate 0 1%N [] false].

(* unlocked, static instrumented component: EvV on one side, EvC on the other, same cell; everything else equal *)
Example C18_example_unlocked :
  exists s st su, base18 = Ok s /\ lockc s = 0 /\ option_map ci_hasval (nth_error (cinfos s) 1) = Some true /\
    step s (OAssign 0 (0, 0)%N 1 (AValue 7) true) = Ok (st, RNone) /\
    step s (OAssign 0 (0, 0)%N 1 (AValue 7) false) = Ok (su, RNone) /\
    state_eq_but_log st su /\ log st = [EvV 2 (PArch 1 1 0)] /\ log su = [EvC 2 (PArch 1 1 0)] /\
    out_of (step su (OGetConst (0, 0)%N 1)) = Some (RCell true (Some 7%Z)).
Proof.
  eexists. eexists. eexists. split; [vm_compute; reflexivity|]. split; [reflexivity|]. split; [reflexivity|].
  split; [vm_compute; reflexivity|]. split; [vm_compute; reflexivity|]. split; [vm_compute; reflexivity|].
  split; [reflexivity|]. split; reflexivity.
Qed.

(* unlocked, described component with create/destroy/default: same picture *)
Example C18_example_unlocked_described :
  exists s st su, base18 = Ok s /\
    step s (OAssign 0 (1, 0)%N 2 (AValue 7) true) = Ok (st, RNone) /\
    step s (OAssign 0 (1, 0)%N 2 (AValue 7) false) = Ok (su, RNone) /\
    state_eq_but_log st su /\ log st = [EvV 8 (PArch 1 2 0)] /\ log su = [EvC 8 (PArch 1 2 0)].
Proof.
  eexists. eexists. eexists. split; [vm_compute; reflexivity|]. split; [vm_compute; reflexivity|].
  split; [vm_compute; reflexivity|]. split; [vm_compute; reflexivity|]. split; reflexivity.
Qed.

(* a described component with only a default value (flags 32): the C path emits no construction event *)
Example C18_example_unlocked_default_only :
  exists s st su, base18 = Ok s /\
    step s (OAssign 0 (1, 0)%N 3 (AValue 7) true) = Ok (st, RNone) /\
    step s (OAssign 0 (1, 0)%N 3 (AValue 7) false) = Ok (su, RNone) /\
    state_eq_but_log st su /\ log st = [EvV 9 (PArch 1 3 0)] /\ log su = [].
Proof.
  eexists. eexists. eexists. split; [vm_compute; reflexivity|]. split; [vm_compute; reflexivity|].
  split; [vm_compute; reflexivity|]. split; [vm_compute; reflexivity|]. split; reflexivity.
Qed.

(* locked *)
Example C18_example_locked :
  exists s0 s st su, base18 = Ok s0 /\ step s0 OLock = Ok (s, RNone) /\ lockc s = 1 /\
    step s (OAssign 0 (0, 0)%N 1 (AValue 7) true) = Ok (st, RNone) /\
    step s (OAssign 0 (0, 0)%N 1 (AValue 7) false) = Ok (su, RNone) /\
    state_eq_but_log st su /\ tmps st = [[Some 7%Z]] /\ log st = [EvV 2 (PTmp 0 0)] /\ log su = [EvC 2 (PTmp 0 0)].
Proof.
  eexists. eexists. eexists. eexists. split; [vm_compute; reflexivity|]. split; [vm_compute; reflexivity|]. split; [reflexivity|].
  split; [vm_compute; reflexivity|]. split; [vm_compute; reflexivity|]. split; [vm_compute; reflexivity|].
  split; [reflexivity|]. split; reflexivity.
Qed.

(* removal through a valid handle *)
Example C18_example_remove :
  exists s, base18 = Ok s /\ is_valid s (1, 0)%N = true /\
    exists s1, step s (ORemove 0 (1, 0)%N 0 false) = Ok (s1, RNone) /\ step s (ORemove 0 (1, 0)%N 0 true) = Ok (s1, RNone) /\
      out_of (step s1 (OHas (1, 0)%N 0)) = Some (RBool false).
Proof.
  eexists. split; [vm_compute; reflexivity|]. split; [vm_compute; reflexivity|].
  eexists. split; [vm_compute; reflexivity|]. split; vm_compute; reflexivity.
Qed.

(* lifecycle-equivalent description lists *)
Example C18_example_equiv : Forall2 lc_equiv [pal_info 0 0; pal_info 8 63; pal_info 9 0] [pal_info 0 0; inst_info 8 false; trivial_info 9 true].
Proof.
  repeat constructor; try reflexivity; try (intros; discriminate); try (intros H; exfalso; apply H; reflexivity).
Qed.

(* ... but NOT clonable: the C table has no clone function (ci_clone = false for every flag set), so cloning an entity
   that carries a described component calls an empty function, where the static type clones *)
Example C18_described_not_clonable :
  exists s s1 s2, base18 = Ok s /\
    step s (OAssign 0 (0, 0)%N 1 (AValue 7) true) = Ok (s1, RNone) /\ (exists d, out_of (step s1 (OClone (0, 0)%N)) = Some (RHandle d)) /\
    step s (OAssign 0 (1, 0)%N 2 (AValue 7) false) = Ok (s2, RNone) /\ step s2 (OClone (1, 0)%N) = Err EmptyFunction.
Proof.
  eexists. eexists. eexists. split; [vm_compute; reflexivity|]. split; [vm_compute; reflexivity|].
  split; [eexists; vm_compute; reflexivity|]. split; [vm_compute; reflexivity|]. vm_compute; reflexivity.
Qed.

(* job requests with distinct ids, listed in two orders *)
Example C18_example_job :
  let j := {| j_reqs := [(0, true, true); (2, false, false); (1, false, true)]; j_check := 0%N; j_last := 0%N |} in
  NoDup (map req_id (j_reqs j)) /\ Permutation (j_reqs j) [(1, false, true); (0, true, true); (2, false, false)] /\
  job_required_mask j = 3%N /\ job_update_mask j = 6%N.
Proof.
  cbn. split; [repeat constructor; simpl; intuition discriminate|]. split; [|split; reflexivity].
  apply Permutation_sym. apply (Permutation_cons_app [(0, true, true); (2, false, false)] []). apply Permutation_refl.
Qed.
