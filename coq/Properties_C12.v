(* C12 -- shared components: one instance per distinct value, never lost by other edits.
   Model: Manager.shared_info with si_add / si_remove / si_merge / si_eqb (SharedComponentsInfo, component_mask.hpp:158-240),
   Manager.pool / insts with new_inst / created_shared (getCreatedSharedComponent, entity_manager.cpp:162-176),
   assign_shared / remove_shared (entity_manager.hpp:886-901, 834-843, entity_manager.cpp:207-233).
   Proofs: proofs/SharedProofs.v (function level); entity level (section 6 of this file): proofs/SharedKey.v,
   SharedVals.v, SharedFrame.v, SharedInv.v, SharedMain.v -- the unlocked refinement of C02 extended with assignShared /
   removeShared.  For ALL scripts over create (without shared types) / destroyNow / assign / removeComponent / write
   through getComponent / assignShared / removeShared (SharedMain.alpha_s), made while the manager is not locked:
   Refine.refines_on = true (C12_entity_level): every live entity reports exactly the shared values the specification
   gives it, and its ordinary components and their values are untouched by shared edits and vice versa;
   equal values of one shared type are ONE instance, different values different instances, for all live entities
   (C12_one_instance_per_value).
   How it goes: an archetype is keyed by (component mask, shared info as si_eqb compares it); the pair is packed into
   one number whose low 128 bits are the component mask (SharedKey.kmk); the structural primitives read a mask only
   through its low 128 bits and never read the shared info, so they commute with the re-keying (SharedFrame.v) and the
   invariant and lemmas of C02 are reused on the re-keyed state; on top: every archetype's shared info is well formed,
   typed by the instance table and pooled, the pool invariant holds, and the specification's shared values of a live
   entity are the (sorted) values of its archetype's shared info (SharedInv.SInv).
   Creation with shared types is excluded (open finding creation-time-shared-instance).  The open finding
   shared-assign-order (the archetype key is the SEQUENCE of instances) does not affect this theorem: refines_on compares
   what each entity reports, not archetype membership (C12_assign_order_invisible_to_refinement below). *)
Require Import Coq.Lists.List Coq.NArith.NArith Coq.ZArith.ZArith Coq.Arith.Arith Coq.Bool.Bool.
From Mustache Require Import Res Manager Palette MgrSpec Refine.
From Mustache.proofs Require Import SharedProofs ManagerInv ManagerMain DepsClosure SharedKey SharedVals SharedInv SharedMain.
Import ListNotations.

(* ---- 1. SharedComponentsInfo stays well-formed ----
   si_wf: ids and data have the same length, ids are duplicate free, the mask has exactly the bits of ids *)
Theorem C12_info_wellformed_preserved :
  si_wf si_null /\
  (forall s id i s', si_wf s -> si_add s id i = Ok s' -> si_wf s') /\
  (forall s id s', si_wf s -> si_remove s id = Ok s' -> si_wf s') /\
  (forall x, si_wf x -> si_wf (si_merge si_null x)).
Proof. exact si_wf_preserved. Qed.
Print Assumptions C12_info_wellformed_preserved.

(* ---- 2. adding / replacing / removing one shared component leaves the others intact ----
   si_get s id: the instance stored for id (data_[indexOf(id)]).  add and remove never fail on well-formed infos. *)
Theorem C12_add_sets_one_keeps_others : forall s id i, si_wf s ->
  exists s', si_add s id i = Ok s' /\ si_wf s' /\ si_get s' id = Some i /\
             forall id', id' <> id -> si_get s' id' = si_get s id'.
Proof. exact si_add_spec. Qed.
Print Assumptions C12_add_sets_one_keeps_others.

Theorem C12_remove_drops_one_keeps_others : forall s id, si_wf s ->
  exists s', si_remove s id = Ok s' /\ si_wf s' /\ si_get s' id = None /\ mhas (si_mask s') id = false /\
             forall id', id' <> id -> si_get s' id' = si_get s id'.
Proof. exact si_remove_spec. Qed.
Print Assumptions C12_remove_drops_one_keeps_others.

(* the mask answers "has" exactly when an instance is stored *)
Theorem C12_has_iff_stored : forall s id, si_wf s -> (mhas (si_mask s) id = true <-> exists i, si_get s id = Some i).
Proof. exact si_get_has. Qed.
Print Assumptions C12_has_iff_stored.

(* a well-formed info with three entries (the hypotheses above are satisfiable) *)
Definition sh3 : shared_info := {| si_mask := 14%N; si_ids := [3; 1; 2]; si_data := [0; 3; 4] |}.
Example C12_sh3_wf : si_wf sh3 /\ si_get sh3 1 = Some 3 /\ si_remove sh3 1 = Ok {| si_mask := 12%N; si_ids := [3; 2]; si_data := [0; 4] |}.
Proof.
  split; [|split; reflexivity].
  apply (si_add_wf {| si_mask := 10%N; si_ids := [3; 1]; si_data := [0; 3] |} 2 4); [|reflexivity].
  apply (si_add_wf {| si_mask := 8%N; si_ids := [3]; si_data := [0] |} 1 3); [|reflexivity].
  apply (si_add_wf si_null 3 0); [exact si_null_wf|reflexivity].
Qed.

(* ---- 3. merge ---- *)
(* the only merge the Manager performs (clone: null().merge(info)) is the identity *)
Theorem C12_merge_into_null_is_identity : forall x,
  si_merge si_null x = x /\ forall id, si_get (si_merge si_null x) id = si_get x id.
Proof. exact si_merge_null_spec. Qed.
Print Assumptions C12_merge_into_null_is_identity.

(* in general the argument's entries win and the receiver's other entries are kept ... *)
Theorem C12_merge_lookup : forall s oth id, si_wf oth ->
  si_get (si_merge s oth) id = match si_get oth id with Some v => Some v | None => si_get s id end.
Proof. exact si_merge_get. Qed.
Print Assumptions C12_merge_lookup.

(* ... and the result is well-formed when the two sides have no id in common ... *)
Theorem C12_merge_disjoint_wellformed : forall s oth, si_wf s -> si_wf oth ->
  (forall id, In id (si_ids oth) -> ~ In id (si_ids s)) -> si_wf (si_merge s oth).
Proof. exact si_merge_wf. Qed.
Print Assumptions C12_merge_disjoint_wellformed.
Example C12_merge_disjoint_example :
  si_wf si_one /\ si_wf sh3 /\ (forall id, In id (si_ids sh3) -> ~ In id (si_ids si_one)) /\
  si_merge si_one sh3 = {| si_mask := 15%N; si_ids := [3; 1; 2; 0]; si_data := [0; 3; 4; 7] |}.
Proof.
  split; [exact si_one_wf|]. split; [exact (proj1 C12_sh3_wf)|]. split; [|reflexivity].
  intros id [<-|[<-|[<-|[]]]] [H|[]]; discriminate.
Qed.

(* ... FINDING: but not otherwise -- the general merge ("TODO: check me!") lists a common id twice. Not reachable
   through the Manager, whose only call is on si_null. *)
Theorem C12_merge_general_wellformed_refuted : exists s oth, si_wf s /\ si_wf oth /\ ~ si_wf (si_merge s oth).
Proof. exact si_merge_wf_refuted. Qed.
Print Assumptions C12_merge_general_wellformed_refuted.

(* ---- 4. the instance pool: getCreatedSharedComponent ---- *)
(* an instance with an equal value is already pooled under sid: that one is returned, the pool is unchanged *)
Theorem C12_created_shared_reuses : forall s sid inst,
  (exists j, In j (pool_of s sid) /\ inst_value s j = inst_value s inst) ->
  let r := snd (created_shared s sid inst) in
  In r (pool_of s sid) /\ inst_value s r = inst_value s inst /\
  pool_of (fst (created_shared s sid inst)) sid = pool_of s sid.
Proof. exact created_shared_reuses. Qed.
Print Assumptions C12_created_shared_reuses.

(* otherwise the fresh instance is returned and recorded *)
Theorem C12_created_shared_records : forall s sid inst,
  (forall j, In j (pool_of s sid) -> inst_value s j <> inst_value s inst) ->
  snd (created_shared s sid inst) = inst /\
  pool_of (fst (created_shared s sid inst)) sid = pool_of s sid ++ [inst].
Proof. exact created_shared_records. Qed.
Print Assumptions C12_created_shared_records.

(* the pools of the other shared types and the instance table are never touched *)
Theorem C12_created_shared_frame : forall s sid inst,
  insts (fst (created_shared s sid inst)) = insts s /\
  forall sid', sid' <> sid -> pool_of (fst (created_shared s sid inst)) sid' = pool_of s sid'.
Proof. intros s sid inst. split; [apply created_shared_insts|intros sid'; apply created_shared_other]. Qed.
Print Assumptions C12_created_shared_frame.

(* the invariant: within one sid, distinct pooled instances have distinct values and no instance is pooled twice
   (pool_inj); pooled instance numbers are indices into insts (pool_valid); pool_wf is both *)
Theorem C12_pool_invariant_preserved : forall s sid inst,
  (pool_inj s -> pool_inj (fst (created_shared s sid inst))) /\
  (inst < length (insts s) -> pool_wf s -> pool_wf (fst (created_shared s sid inst))).
Proof. exact created_shared_pool_invariant. Qed.
Print Assumptions C12_pool_invariant_preserved.

Theorem C12_pool_invariant_initial_and_alloc :
  (forall n cis, pool_wf (init n cis)) /\
  (forall s sid v, pool_wf s -> pool_wf (fst (new_inst s sid v))) /\
  (forall s sid v, pool_wf s -> pool_wf (fst (alloc_shared s sid v))).
Proof. split; [exact init_pool_wf|]. split; [exact new_inst_wf|exact alloc_shared_wf]. Qed.
Print Assumptions C12_pool_invariant_initial_and_alloc.

(* alloc_shared s sid v = created_shared after new_inst: exactly what assignShared does before it moves the entity *)
Theorem C12_assign_shared_uses_alloc : forall s h sid v,
  assign_shared s h sid v =
  (do l <- nth_res (locs s) (N.to_nat (fst h));
   let s1 := fst (alloc_shared s sid v) in
   let inst := snd (alloc_shared s sid v) in
   match l_arch l with
   | None => Err OobIndex
   | Some pai =>
     do pa <- nth_res (archs s1) pai;
     do sh <- si_add (am_shared pa) sid inst;
     do r <- get_arch s1 (am_mask pa) sh;
     if Nat.eqb (snd r) pai then Ok (fst r) else external_move (fst r) (snd r) h pai (l_idx l) 0%N
   end).
Proof. exact assign_shared_alloc. Qed.
Print Assumptions C12_assign_shared_uses_alloc.

(* the instance handed out is pooled under sid and holds the requested value *)
Theorem C12_alloc_result : forall s sid v,
  let r := snd (alloc_shared s sid v) in
  In r (pool_of (fst (alloc_shared s sid v)) sid) /\ inst_value (fst (alloc_shared s sid v)) r = v.
Proof. exact alloc_shared_result. Qed.
Print Assumptions C12_alloc_result.

(* ONE INSTANCE PER VALUE: after an allocation of value v under sid, any later allocation of v under sid -- in any
   state s2 whose pool and instance table extend the earlier ones (pool_le) and keep the invariant -- hands out the
   very same instance ... *)
Theorem C12_equal_values_share_one_instance : forall s sid v s2, pool_wf s ->
  pool_le (fst (alloc_shared s sid v)) s2 -> pool_wf s2 ->
  snd (alloc_shared s2 sid v) = snd (alloc_shared s sid v).
Proof. exact alloc_shared_same_value. Qed.
Print Assumptions C12_equal_values_share_one_instance.

(* ... and PER DISTINCT VALUE: a different value never gets that instance *)
Theorem C12_distinct_values_distinct_instances : forall s sid v s2 w, pool_wf s ->
  pool_le (fst (alloc_shared s sid v)) s2 -> v <> w ->
  snd (alloc_shared s2 sid w) <> snd (alloc_shared s sid v).
Proof. exact alloc_shared_distinct_values. Qed.
Print Assumptions C12_distinct_values_distinct_instances.

(* the hypotheses are satisfiable: allocate 5, then 6 (and a value of another type), then 5 again *)
Definition st0 : mst := init 1 [].
Definition st2 : mst := fst (alloc_shared (fst (alloc_shared (fst (alloc_shared st0 3 5%Z)) 3 6%Z)) 1 5%Z).
Example C12_pool_example :
  pool_wf st0 /\ pool_le (fst (alloc_shared st0 3 5%Z)) st2 /\ pool_wf st2 /\
  (exists j, In j (pool_of st2 3) /\ inst_value st2 j = 5%Z) /\
  (forall j, In j (pool_of st2 3) -> inst_value st2 j <> 7%Z) /\
  snd (alloc_shared st0 3 5%Z) = 0 /\ snd (alloc_shared st2 3 5%Z) = 0 /\ snd (alloc_shared st2 3 6%Z) = 1 /\
  snd (alloc_shared st2 3 7%Z) = 3 /\ pool st2 = [[]; [2]; []; [0; 1]].
Proof.
  split; [apply init_pool_wf|]. split.
  { unfold st2. eapply pool_le_trans; [apply alloc_shared_le|apply alloc_shared_le]. }
  split; [unfold st2; repeat apply alloc_shared_wf; apply init_pool_wf|].
  split; [exists 0; split; [vm_compute; auto|reflexivity]|].
  split; [|repeat split; vm_compute; reflexivity].
  intros j Hj. vm_compute in Hj. destruct Hj as [<-|[<-|[]]]; vm_compute; discriminate.
Qed.

(* ---- the archetype key ---- *)
(* archetypes are keyed by (mask, data vector) -- si_eqb ignores the ids vector.  When every stored instance belongs
   to the type it is stored under (ty i: the type of instance i; in the Manager fst (nth i insts)), the key
   determines the lookups, whatever the order in which the types were assigned ... *)
Theorem C12_key_determines_lookups : forall ty a b, si_wf a -> si_wf b -> si_typed ty a -> si_typed ty b ->
  si_eqb a b = true -> forall id, si_get a id = si_get b id.
Proof. exact si_eqb_typed. Qed.
Print Assumptions C12_key_determines_lookups.

(* ... and only then *)
Theorem C12_key_without_typing_refuted :
  exists a b, si_wf a /\ si_wf b /\ si_eqb a b = true /\ exists id, si_get a id <> si_get b id.
Proof. exact si_eqb_untyped_refuted. Qed.
Print Assumptions C12_key_without_typing_refuted.

(* ---- 5. on whole scripts ---- *)
Definition cis2 : list cinfo := [pal_info 0 0; pal_info 1 0].
(* the shared info of the archetype an entity lives in *)
Definition shared_of (s : mst) (h : handle) : shared_info :=
  match nth_error (locs s) (N.to_nat (fst h)) with
  | Some l => match l_arch l with
              | Some ai => match nth_error (archs s) ai with Some a => am_shared a | None => si_null end
              | None => si_null
              end
  | None => si_null
  end.
Definition inst_of (r : res (mst * list handle)) (k sid : nat) : option nat :=
  match r with Ok (s, issued) => si_get (shared_of s (resolve issued k)) sid | Err _ => None end.
(* every archetype's shared info is well-formed and typed by the instance table *)
Fixpoint nodupb (l : list nat) : bool :=
  match l with [] => true | x :: t => negb (existsb (Nat.eqb x) t) && nodupb t end.
Definition si_wfb (sh : shared_info) : bool :=
  Nat.eqb (length (si_ids sh)) (length (si_data sh)) && nodupb (si_ids sh) &&
  forallb (fun id => Bool.eqb (mhas (si_mask sh) id) (existsb (Nat.eqb id) (si_ids sh))) (seq 0 MASK_BITS).
Definition archs_ok (r : res (mst * list handle)) : bool :=
  match r with
  | Ok (s, _) => forallb (fun a => si_wfb (am_shared a) &&
                   forallb (fun p : nat * nat => Nat.eqb (fst (nth (snd p) (insts s) (O, 0%Z))) (fst p))
                           (combine (si_ids (am_shared a)) (si_data (am_shared a)))) (archs s)
  | Err _ => false
  end.

(* three entities; 0 and 1 get the value 5 for shared type 3, entity 2 gets 6: 0 and 1 observe ONE instance,
   entity 2 another one; two instances of type 3 are pooled although three were constructed *)
Definition script_share : list xop :=
  [XoCreate 0 1 [] false; XoCreate 0 1 [] false; XoCreate 0 1 [] false;
   XoAssignShared 0 3 5%Z; XoAssignShared 1 3 5%Z; XoAssignShared 2 3 6%Z]%N.
Example C12_equal_values_one_instance_on_script :
  let r := mrun true 4 cis2 script_share in
  inst_of r 0 3 = Some 0 /\ inst_of r 1 3 = Some 0 /\ inst_of r 2 3 = Some 2 /\
  match r with Ok (s, _) => pool_of s 3 = [0; 2] /\ length (insts s) = 3 /\ inst_value s 0 = 5%Z /\ inst_value s 2 = 6%Z
             | Err _ => False end /\
  archs_ok r = true /\ x_viol (xrun 4 cis2 script_share) = 0 /\
  refines_on true 4 cis2 script_share = true /\ refines_on false 4 cis2 script_share = true.
Proof. vm_compute. repeat split; reflexivity. Qed.

(* one entity with three shared types; replacing one and then removing one keeps the other two *)
Definition script_three : list xop :=
  [XoCreate 0 1 [] false; XoAssignShared 0 3 5%Z; XoAssignShared 0 1 7%Z; XoAssignShared 0 2 8%Z]%N.
Example C12_remove_one_of_three_on_script :
  let r0 := mrun true 4 cis2 script_three in
  let r1 := mrun true 4 cis2 (script_three ++ [XoRemoveShared 0 1]) in
  let r2 := mrun true 4 cis2 (script_three ++ [XoAssignShared 0 1 9%Z]) in
  (inst_of r0 0 3, inst_of r0 0 1, inst_of r0 0 2) = (Some 0, Some 1, Some 2) /\
  (inst_of r1 0 3, inst_of r1 0 1, inst_of r1 0 2) = (Some 0, None, Some 2) /\
  (inst_of r2 0 3, inst_of r2 0 1, inst_of r2 0 2) = (Some 0, Some 3, Some 2) /\
  archs_ok r1 = true /\ archs_ok r2 = true /\
  refines_on true 4 cis2 (script_three ++ [XoRemoveShared 0 1]) = true /\
  refines_on true 4 cis2 (script_three ++ [XoAssignShared 0 1 9%Z]) = true.
Proof. vm_compute. repeat split; reflexivity. Qed.

(* the same on single steps of the Manager: assigning an equal value to a second entity yields the same instance;
   removing the shared component from one entity (it moves, RBool true) does not take it from the other *)
Example C12_step_shares_instance :
  match mrun true 4 cis2 [XoCreate 0 1 [] false; XoCreate 0 1 [] false]%N with
  | Ok (s, [h0; h1]) =>
    match step s (OAssignShared h0 3 5%Z) with
    | Ok (s1, RNone) =>
      match step s1 (OAssignShared h1 3 5%Z) with
      | Ok (s2, RNone) =>
        si_get (shared_of s2 h0) 3 = Some 0 /\ si_get (shared_of s2 h1) 3 = Some 0 /\ pool_of s2 3 = [0] /\
        match step s2 (ORemoveShared h0 3) with
        | Ok (s3, RBool true) => si_get (shared_of s3 h0) 3 = None /\ si_get (shared_of s3 h1) 3 = Some 0
        | _ => False
        end
      | _ => False
      end
    | _ => False
    end
  | _ => False
  end.
Proof. vm_compute. repeat split; reflexivity. Qed.

(* ================================================================================================================ *)
(* ---- 6. entity level: the unlocked refinement with shared components ---- *)

(* THE statement of Refine.v for this alphabet *)
Theorem C12_entity_level : forall typed n cis ops s hs,
  cis_ok cis -> forallb (alpha_s cis) ops = true ->
  mrun typed n cis ops = Ok (s, hs) -> x_viol (xrun n cis ops) = 0 -> (N.of_nat (length hs) < 16777000)%N ->
  refines_on typed n cis ops = true.
Proof. exact shared_refines_on. Qed.
Print Assumptions C12_entity_level.

Theorem C12_entity_level_pointwise : forall typed n cis ops s hs,
  cis_ok cis -> forallb (alpha_s cis) ops = true ->
  mrun typed n cis ops = Ok (s, hs) -> x_viol (xrun n cis ops) = 0 -> (N.of_nat (length hs) < 16777000)%N ->
  length hs = x_count (xrun n cis ops) /\
  forall k,
    match find_ent (xrun n cis ops) k with
    | Some e => exists e', abs_ent s k (nth k hs null_handle) = Some e' /\ ent_match e e' = true
    | None => abs_ent s k (nth k hs null_handle) = None
    end.
Proof. exact shared_refinement. Qed.
Print Assumptions C12_entity_level_pointwise.

(* what getSharedComponent observes: the shared info of the archetype a live entity lives in is well formed and stores,
   for every shared type, an instance holding exactly the value the specification gives the entity (and nothing for the
   types it gives none); across ALL live entities, two stored instances of one type are equal iff their values are *)
Theorem C12_one_instance_per_value : forall typed n cis ops s hs,
  cis_ok cis -> forallb (alpha_s cis) ops = true ->
  mrun typed n cis ops = Ok (s, hs) -> x_viol (xrun n cis ops) = 0 -> (N.of_nat (length hs) < 16777000)%N ->
  (forall k e, find_ent (xrun n cis ops) k = Some e ->
     si_wf (shared_of s (nth k hs null_handle)) /\
     forall sid v, In (sid, v) (e_shared e) <-> exists i, si_get (shared_of s (nth k hs null_handle)) sid = Some i /\ inst_value s i = v) /\
  (forall k1 e1 k2 e2 sid i1 i2, find_ent (xrun n cis ops) k1 = Some e1 -> find_ent (xrun n cis ops) k2 = Some e2 ->
     si_get (shared_of s (nth k1 hs null_handle)) sid = Some i1 -> si_get (shared_of s (nth k2 hs null_handle)) sid = Some i2 ->
     (inst_value s i1 = inst_value s i2 <-> i1 = i2)).
Proof. exact shared_instances. Qed.
Print Assumptions C12_one_instance_per_value.

(* the hypotheses are satisfiable: shared and ordinary edits interleaved over four entities, values shared and replaced,
   a shared component removed, an entity destroyed (swap-remove in an archetype with shared values), ids reused *)
Definition cis6 : list cinfo := [pal_info 0 0; pal_info 1 0; pal_info 2 0; pal_info 3 0; dyn_info 8 33; pal_info 6 0].
Lemma cis6_ok : cis_ok cis6.
Proof. unfold cis_ok, cis6. repeat constructor; simpl; intros; congruence. Qed.

Definition script_entity : list xop :=
  [XoCreate 0 3 [] false; XoCreate 0 3 [] true; XoCreate 0 19 [] false; XoSet 0 1 41%Z;
   XoAssignShared 0 3 5%Z; XoAssignShared 1 3 5%Z; XoAssignShared 2 3 6%Z; XoAssignShared 1 7 1%Z;
   XoAssign 0 0 2 None; XoAssign 0 1 3 (Some 7%Z); XoSet 1 1 42%Z; XoAssignShared 0 3 6%Z; XoRemoveShared 1 3; XoRemoveShared 1 9;
   XoRemove 0 0 1 true; XoDestroyNow 0 2; XoCreate 0 3 [] false; XoAssignShared 3 3 5%Z; XoAssignShared 3 7 1%Z; XoRemoveShared 9 3;
   XoAssignShared 0 3 6%Z; XoRemove 0 3 0 false]%N.

Example C12_entity_level_nonvacuous :
  cis_ok cis6 /\ forallb (alpha_s cis6) script_entity = true /\ x_viol (xrun 1 cis6 script_entity) = 0 /\
  (forall typed, exists s hs, mrun typed 1 cis6 script_entity = Ok (s, hs) /\ (N.of_nat (length hs) < 16777000)%N /\
                              map (is_valid s) hs = [true; true; false; true]) /\
  map (fun e => (e_k e, map fst (e_comps e), e_shared e)) (x_ents (xrun 1 cis6 script_entity)) =
    [(1, [0; 1; 3], [(7, 1%Z)]); (0, [0; 2], [(3, 6%Z)]); (3, [1], [(3, 5%Z); (7, 1%Z)])].
Proof.
  split; [exact cis6_ok|]. split; [vm_compute; reflexivity|]. split; [vm_compute; reflexivity|]. split.
  - intros typed. destruct typed; eexists; eexists; (split; [vm_compute; reflexivity|]); split; vm_compute; reflexivity.
  - vm_compute. reflexivity.
Qed.

(* the hypotheses of C12_one_instance_per_value inside the quantifiers: entities 1 and 3 hold the value 1 of shared type 7
   through ONE instance; entities 0 and 3 hold different values of type 3 through different instances *)
Example C12_one_instance_nonvacuous :
  match mrun true 1 cis6 script_entity with
  | Ok (s, hs) =>
    (exists i, si_get (shared_of s (nth 1 hs null_handle)) 7 = Some i /\ si_get (shared_of s (nth 3 hs null_handle)) 7 = Some i /\ inst_value s i = 1%Z) /\
    (exists i j, si_get (shared_of s (nth 0 hs null_handle)) 3 = Some i /\ si_get (shared_of s (nth 3 hs null_handle)) 3 = Some j /\ i <> j /\
                 inst_value s i = 6%Z /\ inst_value s j = 5%Z)
  | Err _ => False
  end.
Proof. vm_compute. split; [eexists; repeat split|eexists; eexists; repeat split; discriminate]. Qed.

(* the open finding shared-assign-order: two entities given the same shared values in a different order live in two
   archetypes (the key is the sequence of instances); each still reports exactly its values, so the refinement holds *)
Example C12_assign_order_invisible_to_refinement :
  let ops := [XoCreate 0 1 [] false; XoCreate 0 1 [] false;
              XoAssignShared 0 3 5%Z; XoAssignShared 0 7 1%Z; XoAssignShared 1 7 1%Z; XoAssignShared 1 3 5%Z]%N in
  refines_on true 1 cis6 ops = true /\ forallb (alpha_s cis6) ops = true /\
  match mrun true 1 cis6 ops with
  | Ok (s, [h0; h1]) => option_map l_arch (nth_error (locs s) (N.to_nat (fst h0))) <> option_map l_arch (nth_error (locs s) (N.to_nat (fst h1))) /\
                        (forall sid, si_get (shared_of s h0) sid = si_get (shared_of s h1) sid)
  | _ => False
  end.
Proof.
  split; [vm_compute; reflexivity|]. split; [vm_compute; reflexivity|]. vm_compute. split; [discriminate|].
  intros sid. do 8 (destruct sid as [|sid]; [reflexivity|]). reflexivity.
Qed.

(* ---- totality: inside the contract the model run never ends in Err ---------------------------------------------- *)
(* proofs/SharedTotal.v (on top of proofs/ManagerTotal.v, see Properties_C02.v).  The hypothesis `mrun = Ok` of the entity
   level theorems is discharged for alpha_s, under the same registration hypothesis reg_b as in C02 (shared type ids
   need none: the manager never looks up the description of a shared type on these paths).  New with shared components:
   SharedComponentsInfo::add / remove index ids_ / data_ by the position of the shared id -- in range because every
   archetype's info is well formed (SharedInv.hok); assignShared / removeShared<T> on a live handle find its location
   and archetype; removeShared<T> on a dead or null handle is guarded.  assignShared on a handle that is not alive is
   outside the contract (out_of_contract), as is any shared edit while locked. *)
From Mustache.proofs Require Import ManagerTotal SharedTotal.

Theorem C12_model_run_total : forall typed n cis ops,
  cis_ok cis -> forallb (alpha_s cis) ops = true -> forallb (reg_b cis) ops = true ->
  x_viol (xrun n cis ops) = 0 -> (N.of_nat (creates ops) < 16777000)%N ->
  exists s hs, mrun typed n cis ops = Ok (s, hs) /\ length hs = creates ops.
Proof. exact shared_model_run_total. Qed.
Print Assumptions C12_model_run_total.

(* C12_entity_level without the hypothesis on the model run *)
Theorem C12_entity_level_total : forall typed n cis ops,
  cis_ok cis -> forallb (alpha_s cis) ops = true -> forallb (reg_b cis) ops = true ->
  x_viol (xrun n cis ops) = 0 -> (N.of_nat (creates ops) < 16777000)%N ->
  refines_on typed n cis ops = true.
Proof. exact shared_refines_total. Qed.
Print Assumptions C12_entity_level_total.

(* C12_entity_level_pointwise and C12_one_instance_per_value for the run that exists *)
Theorem C12_entity_level_refinement_total : forall typed n cis ops,
  cis_ok cis -> forallb (alpha_s cis) ops = true -> forallb (reg_b cis) ops = true ->
  x_viol (xrun n cis ops) = 0 -> (N.of_nat (creates ops) < 16777000)%N ->
  exists s hs, mrun typed n cis ops = Ok (s, hs) /\ length hs = x_count (xrun n cis ops) /\
  (forall k,
    match find_ent (xrun n cis ops) k with
    | Some e => exists e', abs_ent s k (nth k hs null_handle) = Some e' /\ ent_match e e' = true
    | None => abs_ent s k (nth k hs null_handle) = None
    end) /\
  (forall k e, find_ent (xrun n cis ops) k = Some e ->
     si_wf (shared_of s (nth k hs null_handle)) /\
     forall sid v, In (sid, v) (e_shared e) <-> exists i, si_get (shared_of s (nth k hs null_handle)) sid = Some i /\ inst_value s i = v) /\
  (forall k1 e1 k2 e2 sid i1 i2, find_ent (xrun n cis ops) k1 = Some e1 -> find_ent (xrun n cis ops) k2 = Some e2 ->
     si_get (shared_of s (nth k1 hs null_handle)) sid = Some i1 -> si_get (shared_of s (nth k2 hs null_handle)) sid = Some i2 ->
     (inst_value s i1 = inst_value s i2 <-> i1 = i2)).
Proof. exact shared_refinement_total. Qed.
Print Assumptions C12_entity_level_refinement_total.

Example C12_total_nonvacuous :
  cis_ok cis6 /\ forallb (alpha_s cis6) script_entity = true /\ forallb (reg_b cis6) script_entity = true /\
  x_viol (xrun 1 cis6 script_entity) = 0 /\ (N.of_nat (creates script_entity) < 16777000)%N /\ creates script_entity = 4.
Proof. split; [exact cis6_ok|]. repeat split; vm_compute; reflexivity. Qed.

(* the contract clause on assignShared is needed for totality: on a handle whose entity was destroyed the model returns
   Err (EntityManager::assignShared indexes archetypes_ with the null archetype index of the stale location:
   entity_manager.hpp:886-901) -- and the specification counts the operation as a violation *)
Example C12_assign_shared_on_dead_handle_is_outside_the_contract :
  let ops := [XoCreate 0 1 [] false; XoDestroyNow 0 0; XoAssignShared 0 3 5%Z]%N in
  mrun true 1 cis6 ops = Err OobIndex /\ x_viol (xrun 1 cis6 ops) = 1 /\ forallb (alpha_s cis6) ops = true.
Proof. vm_compute. repeat split; reflexivity. Qed.

(* ================================================================================================================ *)
(* ---- 7. deferred edits: the refinement with shared components over the alphabet WITH lock / unlock ---------------- *)
(* proofs/SharedLInv.v, SharedFlush.v, SharedCtl.v, SharedLocked.v, SharedLockedMain.v.  The alphabet alphaL_s is that of
   C05 (ManagerLockedMain.alphaL_b: lock / unlock, create / destroy / destroyNow / assign / removeComponent recorded from any
   thread while locked and immediate otherwise, update, write through getComponent) with creation masks inside the 128 bits
   and no shared types at creation, plus assignShared / removeShared issued while the manager is NOT locked (under lock they
   are outside the contract: MgrSpec.out_of_contract counts a violation, C12_shared_edit_under_lock_is_outside_the_contract).
   How it goes: applyCommandPack (Manager.apply_pack) looks the target archetype up under the final component mask AND the
   shared info of the entity's previous archetype (si_null for a recorded creation), so a pack moves its entity between
   archetypes with the SAME shared info.  The locked relation LR of C05 is transported along the re-keying of section 6
   (SharedFrame.rk / SharedInv.xns): recording, lock / unlock counting, marking and cell writes commute with it and the step
   lemmas of C05 are reused; the unlocked structural and shared operations go through the step lemma of section 6; update()
   and the flush are followed pack by pack with the invariant SLInv = LInv on the re-keyed state + "the shared values the
   specification gives a live entity are the values of the shared info of the archetype it is in" (SharedFlush.F_pack_s). *)
From Mustache.proofs Require Import ManagerLockedMain SharedLocked SharedLockedMain.

(* THE statement of Refine.v for this alphabet, under the hypotheses of C05_locked_refines_on *)
Theorem C12_deferred_edits_keep_shared : forall typed n cis ops s hs,
  cis_ok cis -> forallb (alphaL_s cis) ops = true ->
  mrun typed n cis ops = Ok (s, hs) -> x_viol (xrun n cis ops) = 0 -> (N.of_nat (length hs) < 16777000)%N ->
  refines_on typed n cis ops = true.
Proof. exact locked_shared_refines_on. Qed.
Print Assumptions C12_deferred_edits_keep_shared.

(* handle by handle, also in the middle of a locked section (the recorded edits are not observable yet): a live entity
   reports the components with the values AND the shared values the specification gives it; a dead one nothing *)
Theorem C12_deferred_edits_pointwise : forall typed n cis ops s hs,
  cis_ok cis -> forallb (alphaL_s cis) ops = true ->
  mrun typed n cis ops = Ok (s, hs) -> x_viol (xrun n cis ops) = 0 -> (N.of_nat (length hs) < 16777000)%N ->
  length hs = x_count (xrun n cis ops) /\
  forall k,
    match find_ent (xrun n cis ops) k with
    | Some e => exists e', abs_ent s k (nth k hs null_handle) = Some e' /\ ent_match e e' = true
    | None => abs_ent s k (nth k hs null_handle) = None
    end.
Proof. exact locked_shared_refinement. Qed.
Print Assumptions C12_deferred_edits_pointwise.

(* in the words of the property -- the statement of C12_one_instance_per_value for this alphabet: after the unlock (and at
   any other moment) the shared info of the archetype a live entity is in is well formed and stores, for every shared type,
   an instance holding exactly the value the specification gives the entity (recorded assigns / removes of ordinary
   components moved it between archetypes with the same shared info: nothing dropped, nothing swapped); across all live
   entities, two stored instances of one type are equal iff their values are *)
Theorem C12_deferred_one_instance_per_value : forall typed n cis ops s hs,
  cis_ok cis -> forallb (alphaL_s cis) ops = true ->
  mrun typed n cis ops = Ok (s, hs) -> x_viol (xrun n cis ops) = 0 -> (N.of_nat (length hs) < 16777000)%N ->
  (forall k e, find_ent (xrun n cis ops) k = Some e ->
     si_wf (shared_of s (nth k hs null_handle)) /\
     forall sid v, In (sid, v) (e_shared e) <-> exists i, si_get (shared_of s (nth k hs null_handle)) sid = Some i /\ inst_value s i = v) /\
  (forall k1 e1 k2 e2 sid i1 i2, find_ent (xrun n cis ops) k1 = Some e1 -> find_ent (xrun n cis ops) k2 = Some e2 ->
     si_get (shared_of s (nth k1 hs null_handle)) sid = Some i1 -> si_get (shared_of s (nth k2 hs null_handle)) sid = Some i2 ->
     (inst_value s i1 = inst_value s i2 <-> i1 = i2)).
Proof. exact locked_shared_instances. Qed.
Print Assumptions C12_deferred_one_instance_per_value.

(* the flush itself: from related states (SharedLocked.SLR: the relation of C05 on the re-keyed states, every archetype's
   shared info well formed / typed / pooled, every live entity's shared values those of its archetype, recorded creation
   masks inside the 128 bits) the outermost unlock reaches the state the specification's x_flush reaches, and the relation
   holds again -- provided the flush does not end in Err and no command of it leaves the contract *)
Theorem C12_flush_keeps_shared : forall cis s hs x s',
  SLR cis s hs x -> cis_ok cis -> (N.of_nat (length hs) < 16777000)%N -> x_viol (x_flush (xw_lock x 0)) = x_viol x ->
  flush (set_lock s 0) = Ok s' -> SLR cis s' hs (x_flush (xw_lock x 0)).
Proof. exact flush_faithful_s. Qed.
Print Assumptions C12_flush_keeps_shared.

(* the relation holds after every script of the alphabet (the three theorems above read the world off it) *)
Theorem C12_deferred_run_related : forall typed n cis ops s hs,
  cis_ok cis -> forallb (alphaL_s cis) ops = true ->
  mrun typed n cis ops = Ok (s, hs) -> x_viol (xrun n cis ops) = 0 -> (N.of_nat (length hs) < 16777000)%N ->
  SLR cis s hs (xrun n cis ops).
Proof. exact locked_shared_run_related. Qed.
Print Assumptions C12_deferred_run_related.

(* the alphabets of section 6 (unlocked, with shared components) and of C05 (locked, creation masks inside the 128 bits)
   are parts of this one *)
Theorem C12_deferred_alphabet_covers : forall cis o,
  (alpha_s cis o = true -> alphaL_s cis o = true) /\
  (alphaL_b cis o = true -> (forall tid m sids via, o = XoCreate tid m sids via -> DepsClosure.lowmb m = true) -> alphaL_s cis o = true).
Proof.
  intros cis o. split; [apply alpha_s_alphaL|]. intros Ha Hc. destruct o; simpl in *; try exact Ha; try discriminate.
  rewrite Ha. simpl. apply (Hc tid m sids via_arch eq_refl).
Qed.
Print Assumptions C12_deferred_alphabet_covers.

(* the hypotheses are satisfiable: entities 0 and 1 share the value 5 of shared type 3 (one instance), entity 0 also holds
   the value 1 of type 7.  Under lock (nested once) thread 1 records assign(1) and remove(0) on entity 0 and the creation of
   entity 2 through its archetype, thread 2 records assign(2) on entity 0 and destroyNow of entity 1; a destroy() of a
   handle never issued is recorded by thread 0.  The outermost unlock moves entity 0 through the archetypes
   {0} -> {1} -> {1, 2} (three archetypes, all with the shared info {3 -> instance 0, 7 -> instance 2}), destroys entity 1,
   creates entity 2; then entity 2 is given the value 5 of type 3 and receives the instance entity 0 still holds *)
Definition script_deferred : list xop :=
  [XoCreate 0 1 [] false; XoCreate 0 1 [] true; XoSet 0 0 41%Z;
   XoAssignShared 0 3 5%Z; XoAssignShared 1 3 5%Z; XoAssignShared 0 7 1%Z;
   XoLock;
   XoAssign 1 0 1 (Some 7%Z); XoRemove 1 0 0 true; XoAssign 2 0 2 None; XoDestroyNow 2 1; XoCreate 1 4 [] true; XoLock; XoDestroy 0 5; XoUnlock;
   XoUnlock;
   XoAssignShared 2 3 5%Z; XoUpdate]%N.

Example C12_deferred_nonvacuous :
  cis_ok cis6 /\ forallb (alphaL_s cis6) script_deferred = true /\ x_viol (xrun 4 cis6 script_deferred) = 0 /\
  (forall typed, exists s hs, mrun typed 4 cis6 script_deferred = Ok (s, hs) /\ (N.of_nat (length hs) < 16777000)%N /\
                              map (is_valid s) hs = [true; false; true]) /\
  (* before the outermost unlock: nothing of the recorded edits is visible, the buffers of threads 1 and 2 hold them *)
  map (fun e => (e_k e, map fst (e_comps e), e_shared e)) (x_ents (xrun 4 cis6 (firstn 15 script_deferred))) =
    [(1, [0], [(3, 5%Z)]); (0, [0], [(3, 5%Z); (7, 1%Z)])] /\
  x_bufs (xrun 4 cis6 (firstn 15 script_deferred)) =
    [[]; [XAssign 0 1 (Some 7%Z); XRemove 0 0; XCreate 2 4%N []]; [XAssign 0 2 None; XDestroyNow 1]; []] /\
  (* at the end *)
  map (fun e => (e_k e, map fst (e_comps e), e_shared e)) (x_ents (xrun 4 cis6 script_deferred)) =
    [(0, [1; 2], [(3, 5%Z); (7, 1%Z)]); (2, [2], [(3, 5%Z)])].
Proof.
  split; [exact cis6_ok|]. split; [vm_compute; reflexivity|]. split; [vm_compute; reflexivity|]. split.
  - intros typed. destruct typed; eexists; eexists; (split; [vm_compute; reflexivity|]); split; vm_compute; reflexivity.
  - repeat split; vm_compute; reflexivity.
Qed.

(* the theorems applied (not evaluated) to the script *)
Example C12_deferred_on_script : forall typed, refines_on typed 4 cis6 script_deferred = true.
Proof.
  intros typed. destruct C12_deferred_nonvacuous as (Hok & Ha & Hv & Hrun & _). destruct (Hrun typed) as (s & hs & Hr & Hb & _).
  exact (C12_deferred_edits_keep_shared typed 4 cis6 script_deferred s hs Hok Ha Hr Hv Hb).
Qed.

(* ... and evaluated: values and instance identity after the unlock.  Entity 0 went through three archetypes and still reports
   instance 0 (value 5) for type 3 and instance 2 (value 1) for type 7; entity 2, created by the flush, reports the very same
   instance 0 for type 3 after its assignShared; entity 1 is gone; the pool of type 3 holds ONE instance although four
   instances of that type were constructed; before the unlock entities 0 and 1 shared instance 0 *)
Example C12_deferred_values_and_instances :
  match mrun true 4 cis6 (firstn 15 script_deferred), mrun true 4 cis6 script_deferred with
  | Ok (s0, hs0), Ok (s, hs) =>
    si_get (shared_of s0 (nth 0 hs0 null_handle)) 3 = Some 0 /\ si_get (shared_of s0 (nth 1 hs0 null_handle)) 3 = Some 0 /\
    si_get (shared_of s0 (nth 0 hs0 null_handle)) 7 = Some 2 /\
    map (fun a => am_mask a) (archs s0) = [1; 1; 1; 4]%N /\
    (* after *)
    si_get (shared_of s (nth 0 hs null_handle)) 3 = Some 0 /\ si_get (shared_of s (nth 0 hs null_handle)) 7 = Some 2 /\
    si_get (shared_of s (nth 2 hs null_handle)) 3 = Some 0 /\ si_get (shared_of s (nth 2 hs null_handle)) 7 = None /\
    inst_value s 0 = 5%Z /\ inst_value s 2 = 1%Z /\ pool_of s 3 = [0] /\ pool_of s 7 = [2] /\ length (insts s) = 4 /\
    is_valid s (nth 1 hs null_handle) = false /\
    (* the three archetypes entity 0 passed through carry the same shared info; it now sits in the last one *)
    map (fun a => (N.to_nat (am_mask a), si_data (am_shared a), length (am_ents a))) (archs s) =
      [(1, [], 0); (1, [0], 0); (1, [0; 2], 0); (4, [], 0); (2, [0; 2], 0); (6, [0; 2], 1); (4, [0], 1)] /\
    archs_ok (Ok (s, hs)) = true
  | _, _ => False
  end.
Proof. vm_compute. repeat split; reflexivity. Qed.

(* the hypotheses of C12_deferred_one_instance_per_value inside the quantifiers: entities 0 and 2 are alive at the end and
   both store an instance for type 3 *)
Example C12_deferred_one_instance_nonvacuous :
  (exists e0 e2, find_ent (xrun 4 cis6 script_deferred) 0 = Some e0 /\ find_ent (xrun 4 cis6 script_deferred) 2 = Some e2 /\
                 In (3, 5%Z) (e_shared e0) /\ In (3, 5%Z) (e_shared e2)) /\
  match mrun true 4 cis6 script_deferred with
  | Ok (s, hs) => exists i, si_get (shared_of s (nth 0 hs null_handle)) 3 = Some i /\ si_get (shared_of s (nth 2 hs null_handle)) 3 = Some i
  | Err _ => False
  end.
Proof. split; [eexists; eexists; vm_compute; repeat split; auto|vm_compute; eexists; split; reflexivity]. Qed.

(* the hypotheses of C12_flush_keeps_shared are satisfiable: the state before the outermost unlock is related (by
   C12_deferred_run_related), its flush succeeds and stays inside the contract *)
Example C12_flush_keeps_shared_nonvacuous :
  match mrun true 4 cis6 (firstn 15 script_deferred) with
  | Ok (s, hs) =>
    SLR cis6 s hs (xrun 4 cis6 (firstn 15 script_deferred)) /\ (N.of_nat (length hs) < 16777000)%N /\
    x_viol (x_flush (xw_lock (xrun 4 cis6 (firstn 15 script_deferred)) 0)) = x_viol (xrun 4 cis6 (firstn 15 script_deferred)) /\
    (exists s', flush (set_lock s 0) = Ok s') /\ lockc s = 1
  | Err _ => False
  end.
Proof.
  destruct (mrun true 4 cis6 (firstn 15 script_deferred)) as [(s, hs)|er] eqn:Hr; [|vm_compute in Hr; discriminate].
  assert (Hb : (N.of_nat (length hs) < 16777000)%N) by (vm_compute in Hr; inversion Hr; subst; vm_compute; reflexivity).
  split; [|split; [exact Hb|]].
  - apply (C12_deferred_run_related true 4 cis6 (firstn 15 script_deferred) s hs cis6_ok); [vm_compute; reflexivity|exact Hr|vm_compute; reflexivity|exact Hb].
  - vm_compute in Hr. inversion Hr; subst s hs. split; [vm_compute; reflexivity|]. split; [eexists; vm_compute; reflexivity|vm_compute; reflexivity].
Qed.

(* assignShared / removeShared under lock are outside the contract: the specification counts a violation *)
Example C12_shared_edit_under_lock_is_outside_the_contract :
  let ops1 := [XoCreate 0 1 [] false; XoLock; XoAssignShared 0 3 5%Z]%N in
  let ops2 := [XoCreate 0 1 [] false; XoAssignShared 0 3 5%Z; XoLock; XoRemoveShared 0 3]%N in
  x_viol (xrun 4 cis6 ops1) = 1 /\ x_viol (xrun 4 cis6 ops2) = 1 /\
  forallb (alphaL_s cis6) ops1 = true /\ forallb (alphaL_s cis6) ops2 = true.
Proof. vm_compute. repeat split; reflexivity. Qed.

(* why "the model run does not end in Err" stays a hypothesis (as in C05): the open finding of C05 -- a pack that assigns
   and removes one component ends in Err NullDeref -- is independent of shared components *)
Example C12_deferred_ok_hypothesis_needed :
  let ops := [XoCreate 0 1 [] false; XoAssignShared 0 3 5%Z; XoLock; XoAssign 0 0 1 (Some 5%Z); XoRemove 0 0 1 true; XoUnlock]%N in
  forallb (alphaL_s cis6) ops = true /\ x_viol (xrun 4 cis6 ops) = 0 /\ mrun true 4 cis6 ops = Err NullDeref.
Proof. vm_compute. repeat split; reflexivity. Qed.
