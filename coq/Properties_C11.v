(* C11 -- change detection is quiescent and chunk-precise. Statements only; proofs in proofs/VersionProofs.v.
   Model: Manager.v (check_and_set, filter_chunks, job_filter), Iter.v (filter_blocks, blocks_count).
   Proved for all inputs: each version chunk is decided by check_and_set on its own row of stamps (chunk-precise); the
   filter hands a job exactly the positions of flagged chunks, so only chunks holding a checked stamp newer than the job's
   last version; a run followed by a second run with no stamp written in between is handed nothing, and the job's own
   stamps do not re-trigger it; the count of a filtered archetype is the number of positions in flagged chunks.
   The history-level statements over scripts (entities may be created, never destroyed or moved) are in the second half
   of this file, proofs in proofs/VersionHistory.v; chunk precision over histories WITH DESTRUCTION (destroyNow, swap-remove
   relocation, recycled ids) is at the end, proofs in proofs/VersionDestroyPrecise.v.  Not covered: the chunk-size
   resolution (resolve_chunk), quiescence over histories with destruction, archetype moves. *)
Require Import Coq.Lists.List Coq.NArith.NArith Coq.ZArith.ZArith Coq.Arith.Arith Coq.micromega.Lia.
From Mustache Require Import Res Iter Manager Palette Properties_C07.
From Mustache.proofs Require Import VersionProofs IterCover VersionHistory
  VersionDestroyArch VersionDestroyInv VersionDestroyStep VersionDestroyHist VersionDestroyPrecise.
Import ListNotations.

(* ---- (2) chunk-precise: flag k and row k of the new stamps are check_and_set of the input row k alone ---- *)
Theorem C11_chunk_precise : forall nc check set_ last cur todo chunk cv k,
  lt_all nc check -> lt_all nc set_ -> k < todo ->
  let r := filter_chunks nc check set_ last cur chunk todo cv in
  let r0 := check_and_set (row nc (chunk + k) cv) 0 check set_ last cur in
  nth k (snd r) false = snd r0 /\ row nc (chunk + k) (fst r) = fst r0.
Proof. exact filter_chunks_chunk_precise. Qed.
Print Assumptions C11_chunk_precise.

(* the stamps outside the rows looked at are untouched, the vector keeps its length, one flag per chunk *)
Theorem C11_filter_chunks_frame : forall nc check set_ last cur, lt_all nc check -> lt_all nc set_ ->
  forall todo chunk cv,
  let r := filter_chunks nc check set_ last cur chunk todo cv in
  length (snd r) = todo /\ length (fst r) = length cv /\
  (forall p, p < nc * chunk \/ nc * (chunk + todo) <= p -> nth p (fst r) 0%N = nth p cv 0%N).
Proof.
  intros nc check set_ last cur Hc Hs todo chunk cv.
  destruct (filter_chunks_spec nc check set_ last cur Hc Hs todo chunk cv) as (H1 & H2 & _ & _ & H5). auto.
Qed.
Print Assumptions C11_filter_chunks_frame.

Example C11_chunk_precise_example :
  lt_all 2 [1] /\ lt_all 2 [0] /\ 1 < 3 /\
  filter_chunks 2 [1] [0] 0 2 0 3 [0; 0; 0; 1; 0; 0]%N = ([0; 0; 2; 1; 0; 0]%N, [false; true; false]) /\
  check_and_set (row 2 1 [0; 0; 0; 1; 0; 0]%N) 0 [1] [0] 0 2 = ([2; 1]%N, true).
Proof. split; [repeat constructor|]. split; [repeat constructor|]. split; [lia|]. split; reflexivity. Qed.

(* ---- (4) quiescence of one row ---- *)
Theorem C11_row_quiet : forall vers base check set_ last cur,
  last <> WV_NULL -> check <> [] -> (forall i, In i check -> (nth (base + i) vers 0 <= last)%N) ->
  check_and_set vers base check set_ last cur = (vers, false).
Proof. exact check_and_set_quiet. Qed.
Print Assumptions C11_row_quiet.

(* a run followed by a run as a caught-up job (last' = the first run's current version; any new current version): the
   second run sees nothing and writes nothing -- the job's own stamps do not re-trigger it *)
Theorem C11_no_self_retrigger : forall vers base check set_ last cur cur2,
  cur <> WV_NULL -> check <> [] -> (forall i, In i check -> (nth (base + i) vers 0 <= cur)%N) ->
  let v1 := fst (check_and_set vers base check set_ last cur) in
  check_and_set v1 base check set_ cur cur2 = (v1, false).
Proof. exact check_and_set_twice_quiet. Qed.
Print Assumptions C11_no_self_retrigger.

Example C11_no_self_retrigger_example :
  (3 <> WV_NULL)%N /\ [0; 1] <> [] /\ (forall i, In i [0; 1] -> (nth (2 + i) [0; 0; 1; 2]%N 0 <= 3)%N) /\
  check_and_set [0; 0; 1; 2]%N 2 [0; 1] [0; 1] 1 3 = ([0; 0; 3; 3]%N, true) /\
  check_and_set [0; 0; 3; 3]%N 2 [0; 1] [0; 1] 3 4 = ([0; 0; 3; 3]%N, false).
Proof.
  split; [discriminate|]. split; [discriminate|]. split; [|split; reflexivity].
  intros i [H|[H|[]]]; subst i; vm_compute; discriminate.
Qed.

(* the bound on the stamps is needed: a stamp ahead of the current version (say after the 32-bit version wrapped) makes a
   job that does not write that component run again and again *)
Example C11_retrigger_with_stamp_ahead :
  check_and_set [5%N] 0 [0] [] 0 3 = ([5%N], true) /\ check_and_set [5%N] 0 [0] [] 3 4 = ([5%N], true).
Proof. split; reflexivity. Qed.

(* lifted to the chunks of an archetype *)
Theorem C11_filter_chunks_quiet : forall nc check set_ last cur todo chunk cv,
  last <> WV_NULL -> check <> [] ->
  (forall k i, k < todo -> In i check -> (nth (nc * (chunk + k) + i) cv 0 <= last)%N) ->
  filter_chunks nc check set_ last cur chunk todo cv = (cv, repeat false todo).
Proof. exact filter_chunks_quiet. Qed.
Print Assumptions C11_filter_chunks_quiet.

Example C11_filter_chunks_quiet_example :
  (2 <> WV_NULL)%N /\ [1] <> [] /\
  (forall k i, k < 3 -> In i [1] -> (nth (2 * (0 + k) + i) [0; 0; 2; 1; 0; 0]%N 0 <= 2)%N) /\
  filter_chunks 2 [1] [0] 2 3 0 3 [0; 0; 2; 1; 0; 0]%N = ([0; 0; 2; 1; 0; 0]%N, [false; false; false]).
Proof.
  split; [discriminate|]. split; [discriminate|]. split; [|reflexivity].
  intros k i Hk [H|[]]. subst i. destruct k as [|[|[|k]]]; [| | |lia]; vm_compute; discriminate.
Qed.

(* ---- the whole filter ---- *)
(* precise: whatever the filter hands to the job lies in a version chunk in which a checked component carries a stamp
   newer than the job's last version (or the job never ran, or checks no component of that archetype) *)
Theorem C11_job_filter_precise : forall s j s1 fas ai a idx fa,
  job_filter s j = Ok (s1, fas) ->
  nth_error (archs s) ai = Some a -> jmatch j a = true -> 0 < am_chunk a -> ver_wf a ->
  In fa fas -> fa_arch fa = ai -> In idx (selected_of_blocks (fa_blocks fa)) ->
  idx < length (am_ents a) /\
  (j_last j = WV_NULL \/ jcheck j a = [] \/
   exists i, In i (jcheck j a) /\ (j_last j < nth (length (am_gver a) * (idx / am_chunk a) + i) (am_cver a) 0)%N).
Proof. exact job_filter_precise. Qed.
Print Assumptions C11_job_filter_precise.

Example C11_job_filter_precise_example :
  exists s1 fas a fa,
  job_filter s_ex (j_ex 0) = Ok (s1, fas) /\
  nth_error (archs s_ex) 0 = Some a /\ jmatch (j_ex 0) a = true /\ 0 < am_chunk a /\ ver_wf a /\
  In fa fas /\ fa_arch fa = 0 /\ In 3 (selected_of_blocks (fa_blocks fa)) /\ selected_of_blocks (fa_blocks fa) = [2; 3].
Proof.
  eexists. eexists. eexists. eexists. split; [vm_compute; reflexivity|]. split; [vm_compute; reflexivity|].
  split; [vm_compute; reflexivity|]. split; [vm_compute; lia|]. split; [vm_compute; reflexivity|].
  split; [left; reflexivity|]. split; [reflexivity|]. split; [vm_compute; right; left; reflexivity|vm_compute; reflexivity].
Qed.

(* quiescent: a job whose last version is not older than any stamp of the archetypes it looks at (and that checks at
   least one component in each of them) is handed nothing *)
Theorem C11_caught_up_quiet : forall s j,
  j_last j <> WV_NULL -> Forall (caught_up j (j_last j)) (archs s) -> exists s1, job_filter s j = Ok (s1, []).
Proof. exact job_filter_caught_up_quiet. Qed.
Print Assumptions C11_caught_up_quiet.

(* run the filter; take that run's world version as the job's last version (BaseJob::run, when the run had work); run the
   filter again on any state with the same archetypes (no write access, dirty mark or structural change in between; the
   world version may have moved, other state too): nothing is handed over. The hypothesis says that initially no stamp
   of a looked-at archetype is ahead of the world version; the first run keeps that (C11_run_keeps_caught_up). *)
Theorem C11_job_filter_twice_quiet : forall s j s1 fas s1',
  job_filter s j = Ok (s1, fas) -> wv s <> WV_NULL -> Forall (caught_up j (wv s)) (archs s) ->
  archs s1' = archs s1 ->
  exists s2, job_filter s1' (relast j (wv s)) = Ok (s2, []).
Proof. exact job_filter_twice_quiet. Qed.
Print Assumptions C11_job_filter_twice_quiet.

Theorem C11_run_keeps_caught_up : forall s j s1 fas,
  job_filter s j = Ok (s1, fas) -> Forall (caught_up j (wv s)) (archs s) ->
  Forall (caught_up j (wv s)) (archs s1) /\ wv s1 = wv s.
Proof. exact job_filter_keeps_caught_up. Qed.
Print Assumptions C11_run_keeps_caught_up.

Example C11_job_filter_twice_quiet_example :
  wv s_ex <> WV_NULL /\ Forall (caught_up (j_ex 0) (wv s_ex)) (archs s_ex) /\
  exists s1 fas s2, job_filter s_ex (j_ex 0) = Ok (s1, fas) /\ map fa_count fas = [2] /\
                    job_filter (inc_wv s1) (relast (j_ex 0) (wv s_ex)) = Ok (s2, []).
Proof.
  split; [vm_compute; discriminate|]. split.
  - let x := eval vm_compute in (archs s_ex) in replace (archs s_ex) with x by (vm_compute; reflexivity).
    constructor; [|constructor]. intros _. split; [vm_compute; discriminate|].
    split; cbn [am_gver am_cver]; repeat constructor; vm_compute; discriminate.
  - eexists. eexists. eexists. split; [vm_compute; reflexivity|]. split; vm_compute; reflexivity.
Qed.

(* ---- (6) blocks: the count of a filtered archetype is the number of positions below size in flagged chunks; the
   blocks list exactly those positions, each once, in order (C04_blocks_exact) ---- *)
Theorem C11_blocks_count_spec : forall cs size ms,
  0 < cs -> 0 < size -> length ms = S ((size - 1) / cs) ->
  blocks_count (filter_blocks cs size ms) = length (filter (fun i => nth (i / cs) ms false) (seq 0 size)).
Proof. exact blocks_count_spec. Qed.
Print Assumptions C11_blocks_count_spec.

Example C11_blocks_count_example :
  0 < 2 /\ 0 < 5 /\ length [true; false; true] = S ((5 - 1) / 2) /\
  filter_blocks 2 5 [true; false; true] = [(0, 2); (4, 5)] /\ blocks_count (filter_blocks 2 5 [true; false; true]) = 3.
Proof. repeat split; try lia; reflexivity. Qed.

(* ==================================================================================================================== *)
(* HISTORY LEVEL (proofs/VersionHistory.v; vocabulary and limits: see the second half of Properties_C07.v) *)

(* ---- (3a) quiescence over histories ---- *)
(* population, any script `pre`; job jn runs and has work (is handed some entity h0); then only harmless operations:
   updates, read-only access (VGetConst, VHas), mutable access / dirty marks of components OUTSIDE jn's check mask,
   further runs of jn itself, runs of jobs that write no component of jn's check mask; then jn runs: it is handed nothing
   and reports its unchanged last version.  checks_all: in every archetype it matches the job checks at least one
   component (a job that checks nothing there is always handed everything).  A job that writes what it checks does not
   wake itself. *)
Theorem C11_history_quiet : forall n cis setup s0 js pre st0 jn j p0 t0 w0 c0 st1 out0 h0 mid st2 par tov wk cap st3 out_,
  population n cis setup s0 -> fresh_jobs js ->
  (N.of_nat (length pre) + N.of_nat (length mid) + 2 < WV_NULL)%N ->
  vrun pre (s0, js) = Ok st0 ->
  nth_error (snd st0) jn = Some j -> checks_all j (fst st0) ->
  vstep st0 (VRun jn p0 t0 w0 c0) = Ok (st1, out0) -> handed out0 h0 ->
  Forall (harmless (snd st0) jn (j_check j)) mid -> vrun mid st1 = Ok st2 ->
  vstep st2 (VRun jn par tov wk cap) = Ok (st3, out_) ->
  out_ = RJob (wv (fst st0)) [] /\ forall h, ~ handed out_ h.
Proof. exact VersionHistory.C11_history_quiet. Qed.
Print Assumptions C11_history_quiet.

Theorem C11_history_quiet_from_invariant : forall st0 jn j p0 t0 w0 c0 st1 out0 h0 mid st2 par tov wk cap st3 out_,
  VInv st0 -> (wv (fst st0) + N.of_nat (length mid) + 2 < WV_NULL)%N ->
  nth_error (snd st0) jn = Some j -> checks_all j (fst st0) ->
  vstep st0 (VRun jn p0 t0 w0 c0) = Ok (st1, out0) -> handed out0 h0 ->
  Forall (harmless (snd st0) jn (j_check j)) mid -> vrun mid st1 = Ok st2 ->
  vstep st2 (VRun jn par tov wk cap) = Ok (st3, out_) ->
  out_ = RJob (wv (fst st0)) [] /\ forall h, ~ handed out_ h.
Proof. exact C11_history_quiet_core. Qed.
Print Assumptions C11_history_quiet_from_invariant.

(* read-only access changes nothing at all: not a stamp, not the world version, not a job *)
Theorem C11_readonly_no_effect : forall st o st' out_,
  (exists h c, o = VGetConst h c \/ o = VHas h c) -> vstep st o = Ok (st', out_) -> st' = st.
Proof. exact readonly_no_effect. Qed.
Print Assumptions C11_readonly_no_effect.

(* ---- (3b) chunk precision over histories ---- *)
(* jn ran with work; then anything but runs of jn (entities may be created); then jn runs: every entity h it is handed
   sits at a position idx of an archetype ai such that, in between, the stamp of (ai, version chunk idx / chunk size,
   component index i) was written (stamped_in), where jn checks i -- or checks nothing in that archetype, which can
   only be an archetype that appeared in between: checks_all covers those of st0 *)
Theorem C11_history_precise : forall n cis setup s0 js pre st0 jn j p0 t0 w0 c0 st1 out0 h0 mid st2 par tov wk cap st3 out_ h,
  population n cis setup s0 -> fresh_jobs js ->
  (N.of_nat (length pre) + N.of_nat (length mid) + 2 < WV_NULL)%N ->
  vrun pre (s0, js) = Ok st0 ->
  nth_error (snd st0) jn = Some j -> checks_all j (fst st0) ->
  vstep st0 (VRun jn p0 t0 w0 c0) = Ok (st1, out0) -> handed out0 h0 ->
  no_run jn mid -> vrun mid st1 = Ok st2 -> 0 < cap ->
  vstep st2 (VRun jn par tov wk cap) = Ok (st3, out_) -> handed out_ h ->
  exists ai a idx i, nth_error (archs (fst st2)) ai = Some a /\ nth_error (am_ents a) idx = Some h /\
    jmatch j a = true /\ (jcheck j a = [] \/ In i (jcheck j a)) /\ stamped_in ai (idx / am_chunk a) i st1 mid.
Proof. exact VersionHistory.C11_history_precise. Qed.
Print Assumptions C11_history_precise.

Theorem C11_history_precise_from_invariant : forall st0 jn j p0 t0 w0 c0 st1 out0 h0 mid st2 par tov wk cap st3 out_ h,
  VInv st0 -> (wv (fst st0) + N.of_nat (length mid) + 2 < WV_NULL)%N ->
  nth_error (snd st0) jn = Some j -> checks_all j (fst st0) ->
  vstep st0 (VRun jn p0 t0 w0 c0) = Ok (st1, out0) -> handed out0 h0 ->
  no_run jn mid -> vrun mid st1 = Ok st2 -> 0 < cap ->
  vstep st2 (VRun jn par tov wk cap) = Ok (st3, out_) -> handed out_ h ->
  exists ai a idx i, nth_error (archs (fst st2)) ai = Some a /\ nth_error (am_ents a) idx = Some h /\
    jmatch j a = true /\ (jcheck j a = [] \/ In i (jcheck j a)) /\ stamped_in ai (idx / am_chunk a) i st1 mid.
Proof. exact C11_history_precise_core. Qed.
Print Assumptions C11_history_precise_from_invariant.

(* ... and what wrote it (cause): an operation o of the script, executed in the state st_o reached by the operations
   before it, that is a mutable access / dirty mark of a component c of jn's check mask on an entity in version chunk k
   of archetype ai, or the run of a job that writes such a component and was itself handed a position of that chunk,
   or the creation of an entity that lands in that chunk (it stamps every component) *)
Theorem C11_stamp_cause : forall st1 mid ai k i j a,
  VInv st1 -> (wv (fst st1) + N.of_nat (length mid) < WV_NULL)%N ->
  nth_error (archs (fst st1)) ai = Some a -> In i (jcheck j a) -> stamped_in ai k i st1 mid ->
  exists pre o post st_o a_o, mid = pre ++ o :: post /\ vrun pre st1 = Ok st_o /\
    nth_error (archs (fst st_o)) ai = Some a_o /\ grows a a_o /\ cause j a ai k i st_o a_o o.
Proof. exact stamped_in_explained. Qed.
Print Assumptions C11_stamp_cause.

(* ---- non-vacuity ---- *)
(* the population of Properties_C07 (five entities {0,1}, version chunks of 2); job 0 writes AND checks component 1 (and
   reads 0); job 1 writes component 0 *)
Definition jobs11_ex : list job :=
  [ {| j_reqs := [(1, false, true); (0, true, true)]; j_check := 2%N; j_last := WV_NULL |};
    {| j_reqs := [(0, false, true)]; j_check := 0%N; j_last := WV_NULL |} ].
Definition st0q_ex : vstate := get_res (vrun [VUpdate true] (s0_ex, jobs11_ex)) vst_dummy.
Definition st1q_ex : vstate := fst (get_res (vstep st0q_ex (VRun 0 false 0 0 16)) (vst_dummy, RNone)).
Definition midq_ex : list vop :=
  [VUpdate true; VGetConst (1, 0)%N 1; VHas (1, 0)%N 1; VGetMut (1, 0)%N 0 (Some 5%Z); VMarkDirty (2, 0)%N 0;
   VRun 1 true 0 3 16; VRun 0 false 0 0 16; VUpdate false].
Definition st2q_ex : vstate := get_res (vrun midq_ex st1q_ex) vst_dummy.

Lemma fresh_jobs11 : fresh_jobs jobs11_ex.
Proof. repeat constructor. Qed.

Example C11_history_quiet_example :
  exists j out0 st3 out_,
  population 4 cis2 setup_ex s0_ex /\ fresh_jobs jobs11_ex /\
  (N.of_nat (length [VUpdate true]) + N.of_nat (length midq_ex) + 2 < WV_NULL)%N /\
  vrun [VUpdate true] (s0_ex, jobs11_ex) = Ok st0q_ex /\
  nth_error (snd st0q_ex) 0 = Some j /\ checks_all j (fst st0q_ex) /\
  vstep st0q_ex (VRun 0 false 0 0 16) = Ok (st1q_ex, out0) /\ handed out0 (0, 0)%N /\
  Forall (harmless (snd st0q_ex) 0 (j_check j)) midq_ex /\ vrun midq_ex st1q_ex = Ok st2q_ex /\
  vstep st2q_ex (VRun 0 true 0 3 16) = Ok (st3, out_) /\
  out_ = RJob 1 [] /\ wv (fst st2q_ex) = 4%N.
Proof.
  eexists. eexists. eexists. eexists.
  split; [apply population_ex|]. split; [apply fresh_jobs11|]. split; [vm_compute; reflexivity|].
  split; [vm_compute; reflexivity|]. split; [vm_compute; reflexivity|]. split.
  { unfold checks_all. let x := eval vm_compute in (archs (fst st0q_ex)) in replace (archs (fst st0q_ex)) with x by (vm_compute; reflexivity).
    constructor; [|constructor]. intros _. vm_compute. discriminate. }
  split; [vm_compute; reflexivity|]. split.
  { vm_compute. eexists. eexists. split; [left; reflexivity|]. split; [left; reflexivity|reflexivity]. }
  split.
  { unfold midq_ex. constructor; [exact I|]. constructor; [exact I|]. constructor; [exact I|].
    constructor; [vm_compute; reflexivity|]. constructor; [vm_compute; reflexivity|].
    constructor.
    { right. eexists. split; [vm_compute; reflexivity|]. intros c Hc. vm_compute in Hc. destruct Hc as [<-|[]]. reflexivity. }
    constructor; [left; reflexivity|]. constructor; [exact I|]. constructor. }
  split; [vm_compute; reflexivity|]. split; [vm_compute; reflexivity|]. split; vm_compute; reflexivity.
Qed.

Example C11_readonly_no_effect_example :
  exists out_, vstep st1q_ex (VGetConst (1, 0)%N 1) = Ok (st1q_ex, out_) /\ out_ = RCell true (Some 1002%Z).
Proof. eexists. split; vm_compute; reflexivity. Qed.

(* after the run of job 0: a dirty mark on component 1 of entity 4 (alone in version chunk 2), a write to component 0 of
   entity 0 (not checked), updates; job 0 is handed entity 4 only *)
Definition midp_ex : list vop := [VUpdate true; VMarkDirty (4, 0)%N 1; VGetMut (0, 0)%N 0 (Some 9%Z); VUpdate false].
Definition st2p_ex : vstate := get_res (vrun midp_ex st1q_ex) vst_dummy.

Example C11_history_precise_example :
  exists j out0 st3 out_,
  population 4 cis2 setup_ex s0_ex /\ fresh_jobs jobs11_ex /\
  (N.of_nat (length [VUpdate true]) + N.of_nat (length midp_ex) + 2 < WV_NULL)%N /\
  vrun [VUpdate true] (s0_ex, jobs11_ex) = Ok st0q_ex /\
  nth_error (snd st0q_ex) 0 = Some j /\ checks_all j (fst st0q_ex) /\
  vstep st0q_ex (VRun 0 false 0 0 16) = Ok (st1q_ex, out0) /\ handed out0 (0, 0)%N /\
  no_run 0 midp_ex /\ vrun midp_ex st1q_ex = Ok st2p_ex /\ 0 < 16 /\
  vstep st2p_ex (VRun 0 true 0 3 16) = Ok (st3, out_) /\ handed out_ (4, 0)%N /\
  handles_of out_ = [(4, 0)%N].
Proof.
  eexists. eexists. eexists. eexists.
  split; [apply population_ex|]. split; [apply fresh_jobs11|]. split; [vm_compute; reflexivity|].
  split; [vm_compute; reflexivity|]. split; [vm_compute; reflexivity|]. split.
  { unfold checks_all. let x := eval vm_compute in (archs (fst st0q_ex)) in replace (archs (fst st0q_ex)) with x by (vm_compute; reflexivity).
    constructor; [|constructor]. intros _. vm_compute. discriminate. }
  split; [vm_compute; reflexivity|]. split.
  { vm_compute. eexists. eexists. split; [left; reflexivity|]. split; [left; reflexivity|reflexivity]. }
  split; [repeat constructor|]. split; [vm_compute; reflexivity|]. split; [lia|].
  split; [vm_compute; reflexivity|]. split.
  { vm_compute. eexists. eexists. split; [left; reflexivity|]. split; [left; reflexivity|reflexivity]. }
  vm_compute. reflexivity.
Qed.

Lemma VInv_st1q_ex : VInv st1q_ex.
Proof.
  destruct population_ex as (Hp & _).
  refine (proj1 (C07_history_invariants 4 cis2 setup_ex s0_ex jobs11_ex [VUpdate true; VRun 0 false 0 0 16] st1q_ex Hp fresh_jobs11 _ _));
    vm_compute; reflexivity.
Qed.

Example C11_stamp_cause_example :
  exists a, VInv st1q_ex /\ (wv (fst st1q_ex) + N.of_nat (length midp_ex) < WV_NULL)%N /\
    nth_error (archs (fst st1q_ex)) 0 = Some a /\ In 1 (jcheck (nth 0 (snd st1q_ex) (j_ex 0)) a) /\
    stamped_in 0 2 1 st1q_ex midp_ex.
Proof.
  eexists. split; [exact VInv_st1q_ex|]. split; [vm_compute; reflexivity|]. split; [vm_compute; reflexivity|].
  split; [vm_compute; left; reflexivity|].
  eapply si_later; [vm_compute; reflexivity|]. apply si_here. cbn [op_stamps]. eexists. eexists. split.
  - split; [vm_compute; reflexivity|]. split; [eexists; split; [vm_compute; reflexivity|split; reflexivity]|].
    split; [vm_compute; reflexivity|vm_compute; reflexivity].
  - vm_compute. reflexivity.
Qed.

(* with a creation in between: after the run of job 0 a sixth entity arrives in version chunk 2 (next to entity 4); job 0
   is handed that chunk only *)
Definition midc_ex : list vop := [VUpdate true; VCreate 0 3%N [] false; VGetConst (0, 0)%N 1].
Definition st2c11_ex : vstate := get_res (vrun midc_ex st1q_ex) vst_dummy.

Example C11_history_precise_created_example :
  exists st3 out_,
  (N.of_nat (length [VUpdate true]) + N.of_nat (length midc_ex) + 2 < WV_NULL)%N /\
  no_run 0 midc_ex /\ vrun midc_ex st1q_ex = Ok st2c11_ex /\
  vstep st2c11_ex (VRun 0 true 0 3 16) = Ok (st3, out_) /\ handed out_ (5, 0)%N /\
  handles_of out_ = [(4, 0); (5, 0)]%N /\
  stamped_in 0 2 1 st1q_ex midc_ex.
Proof.
  eexists. eexists. split; [vm_compute; reflexivity|]. split; [repeat constructor|]. split; [vm_compute; reflexivity|].
  split; [vm_compute; reflexivity|]. split.
  { vm_compute. eexists. eexists. split; [right; left; reflexivity|]. split; [left; reflexivity|reflexivity]. }
  split; [vm_compute; reflexivity|].
  eapply si_later; [vm_compute; reflexivity|]. apply si_here. cbn [op_stamps].
  eexists. eexists. eexists. eexists. split; [vm_compute; reflexivity|].
  split; [vm_compute; reflexivity|]. split; [reflexivity|]. split; [vm_compute; reflexivity|vm_compute; reflexivity].
Qed.

(* checks_all is needed: a job that checks no component of a matching archetype (job 2 of Properties_C07: reads component
   0, empty check mask) is handed everything at every run, whatever happened in between *)
Example C11_no_check_always_everything :
  exists st1 out1 st2 out2,
    vstep (s0_ex, jobs_ex) (VRun 2 false 0 0 16) = Ok (st1, out1) /\ vstep st1 (VRun 2 false 0 0 16) = Ok (st2, out2) /\
    handles_of out1 = [(0, 0); (1, 0); (2, 0); (3, 0); (4, 0)]%N /\ handles_of out2 = [(0, 0); (1, 0); (2, 0); (3, 0); (4, 0)]%N /\
    ~ checks_all (nth 2 jobs_ex (j_ex 0)) s0_ex.
Proof.
  eexists. eexists. eexists. eexists. split; [vm_compute; reflexivity|]. split; [vm_compute; reflexivity|].
  split; [vm_compute; reflexivity|]. split; [vm_compute; reflexivity|].
  unfold checks_all. let x := eval vm_compute in (archs s0_ex) in replace (archs s0_ex) with x by (vm_compute; reflexivity).
  intro F. inversion F as [|? ? H _]; subst. apply H; vm_compute; reflexivity.
Qed.

(* ==================================================================================================================== *)
(* CHUNK PRECISION OVER HISTORIES WITH DESTRUCTION (proofs/VersionDestroyPrecise.v; alphabet vopd, invariant VInvD and proper
   scripts: see Properties_C07.v).
   op_stamps_d st o ai k i -- operation o, executed in st, writes the stamp of (archetype ai, version chunk k, component
   index i): for an operation of the old alphabet op_stamps (mutable access / dirty mark, run of a writing job that is handed
   that chunk, arrival of a created entity); for VDestroyNow h, h alive in archetype ai: k is the version chunk of h's slot
   (the DEPARTURE; the former last member arrives there) or the version chunk of the last slot (the one the RELOCATED
   member left) -- Archetype::remove stamps every component of both.  stamped_in_d: some operation of the script does. *)

(* one operation: every stamp of the new state is at most the stamp of the same (archetype, chunk, component) before (stampof:
   0 for an archetype that did not exist), or the operation wrote it -- nothing else moves a stamp up, in particular the
   recycling of ids and the cutting of stale version chunks do not *)
Theorem C11_stamp_source_with_destruction : forall st o st' out_,
  VInvD st -> (wv (fst st) + 1 < WV_NULL)%N -> properb (fst st) o = true -> dstep st o = Ok (st', out_) ->
  forall ai a' k i, nth_error (archs (fst st')) ai = Some a' -> i < length (am_gver a') ->
    (nth (length (am_gver a') * k + i) (am_cver a') 0 <= stampof (fst st) ai k i)%N \/ op_stamps_d st o ai k i.
Proof. exact stamp_source_d. Qed.
Print Assumptions C11_stamp_source_with_destruction.

(* jn ran with work; then any proper script over the extended alphabet without a run of jn; then jn runs: every entity h it
   is handed sits at a position idx of an archetype ai such that, in between, the stamp of (ai, version chunk idx / chunk
   size, component index i) was written, for a component index i that jn checks.  always_checks j: j checks some component
   in every archetype it can match (e.g. it checks a component it requires: always_checks_intro) *)
Theorem C11_history_precise_with_destruction :
  forall n cis setup s0 js pre st0 jn j p0 t0 w0 c0 st1 out0 h0 mid st2 par tov wk cap st3 out_ h,
  population n cis setup s0 -> fresh_jobs js ->
  (N.of_nat (length pre) + N.of_nat (length mid) + 2 < WV_NULL)%N ->
  proper_run pre (s0, js) = true -> drun pre (s0, js) = Ok st0 ->
  nth_error (snd st0) jn = Some j -> always_checks j ->
  vstep st0 (VRun jn p0 t0 w0 c0) = Ok (st1, out0) -> handed out0 h0 ->
  no_run_d jn mid -> proper_run mid st1 = true -> drun mid st1 = Ok st2 -> 0 < cap ->
  vstep st2 (VRun jn par tov wk cap) = Ok (st3, out_) -> handed out_ h ->
  exists ai a idx i, nth_error (archs (fst st2)) ai = Some a /\ nth_error (am_ents a) idx = Some h /\
    jmatch j a = true /\ In i (jcheck j a) /\ stamped_in_d ai (idx / am_chunk a) i st1 mid.
Proof. exact C11_precise_d_pop. Qed.
Print Assumptions C11_history_precise_with_destruction.

Theorem C11_history_precise_with_destruction_from_invariant :
  forall st0 jn j p0 t0 w0 c0 st1 out0 h0 mid st2 par tov wk cap st3 out_ h,
  VInvD st0 -> (wv (fst st0) + N.of_nat (length mid) + 2 < WV_NULL)%N ->
  nth_error (snd st0) jn = Some j -> always_checks j ->
  vstep st0 (VRun jn p0 t0 w0 c0) = Ok (st1, out0) -> handed out0 h0 ->
  no_run_d jn mid -> proper_run mid st1 = true -> drun mid st1 = Ok st2 -> 0 < cap ->
  vstep st2 (VRun jn par tov wk cap) = Ok (st3, out_) -> handed out_ h ->
  exists ai a idx i, nth_error (archs (fst st2)) ai = Some a /\ nth_error (am_ents a) idx = Some h /\
    jmatch j a = true /\ In i (jcheck j a) /\ stamped_in_d ai (idx / am_chunk a) i st1 mid.
Proof. exact C11_precise_d_core. Qed.
Print Assumptions C11_history_precise_with_destruction_from_invariant.

Theorem C11_always_checks_intro : forall j c,
  c < MASK_BITS -> mhas (j_check j) c = true -> mhas (job_required_mask j) c = true -> always_checks j.
Proof. exact always_checks_intro. Qed.
Print Assumptions C11_always_checks_intro.

(* non-vacuity: update(); run of job 0 (everything)  |  world update; destroyNow of the first entity -- (4,0) moves into slot
   0 --; a dirty mark on the unchecked component 0 of entity (3,0); manager update  |  run of job 0: it is handed version
   chunk 0 -- (4,0) and (1,0) -- and nothing of version chunk 1; the stamp of (archetype 0, chunk 0, component index 1) was
   written by the destroyNow *)
Definition middp_ex : list vopd :=
  [VOld (VUpdate true); VDestroyNow 0 (0, 0)%N; VOld (VMarkDirty (3, 0)%N 0); VOld (VUpdate false)].
Definition st2dp_ex : vstate := get_res (drun middp_ex st1q_ex) vst_dummy.

Lemma always_checks_job11 : forall j, nth_error jobs11_ex 0 = Some j -> always_checks j.
Proof. intros j E. inversion E; subst j. apply (always_checks_intro _ 1); [unfold MASK_BITS; lia|reflexivity|vm_compute; reflexivity]. Qed.

Example C11_history_precise_with_destruction_example :
  exists j out0 st3 out_ a,
  population 4 cis2 setup_ex s0_ex /\ fresh_jobs jobs11_ex /\
  (N.of_nat (length [VOld (VUpdate true)]) + N.of_nat (length middp_ex) + 2 < WV_NULL)%N /\
  proper_run [VOld (VUpdate true)] (s0_ex, jobs11_ex) = true /\ drun [VOld (VUpdate true)] (s0_ex, jobs11_ex) = Ok st0q_ex /\
  nth_error (snd st0q_ex) 0 = Some j /\ always_checks j /\
  vstep st0q_ex (VRun 0 false 0 0 16) = Ok (st1q_ex, out0) /\ handed out0 (0, 0)%N /\
  no_run_d 0 middp_ex /\ proper_run middp_ex st1q_ex = true /\ drun middp_ex st1q_ex = Ok st2dp_ex /\ 0 < 16 /\
  vstep st2dp_ex (VRun 0 true 0 3 16) = Ok (st3, out_) /\ handed out_ (4, 0)%N /\
  handles_of out_ = [(4, 0); (1, 0)]%N /\
  (* the conclusion for (4,0) *)
  nth_error (archs (fst st2dp_ex)) 0 = Some a /\ nth_error (am_ents a) 0 = Some (4, 0)%N /\ jmatch j a = true /\ In 1 (jcheck j a) /\
  stamped_in_d 0 (0 / am_chunk a) 1 st1q_ex middp_ex /\
  map (fun a => (am_ents a, am_cver a)) (archs (fst st2dp_ex)) = [([(4, 0); (1, 0); (2, 0); (3, 0)], [3; 3; 3; 1; 3; 3])]%N.
Proof.
  eexists. eexists. eexists. eexists. eexists.
  split; [apply population_ex|]. split; [apply fresh_jobs11|]. split; [vm_compute; reflexivity|].
  split; [vm_compute; reflexivity|]. split; [vm_compute; reflexivity|]. split; [vm_compute; reflexivity|].
  split; [apply always_checks_job11; reflexivity|].
  split; [vm_compute; reflexivity|]. split.
  { vm_compute. eexists. eexists. split; [left; reflexivity|]. split; [left; reflexivity|reflexivity]. }
  split; [repeat constructor; discriminate|]. split; [vm_compute; reflexivity|]. split; [vm_compute; reflexivity|]. split; [lia|].
  split; [vm_compute; reflexivity|]. split.
  { vm_compute. eexists. eexists. split; [left; reflexivity|]. split; [left; reflexivity|reflexivity]. }
  split; [vm_compute; reflexivity|]. split; [vm_compute; reflexivity|]. split; [vm_compute; reflexivity|].
  split; [vm_compute; reflexivity|]. split; [vm_compute; left; reflexivity|].
  split; [|vm_compute; reflexivity].
  eapply sid_later; [vm_compute; reflexivity|]. apply sid_here. cbn [op_stamps_d fst].
  eexists. eexists. split; [vm_compute; reflexivity|]. split; [vm_compute; reflexivity|]. split; [reflexivity|].
  split; [vm_compute; reflexivity|]. left. vm_compute. reflexivity.
Qed.

Lemma VInvD_st0q_ex : VInvD st0q_ex.
Proof.
  destruct population_ex as (Hp & _).
  refine (proj1 (C07_history_invariants_with_destruction 4 cis2 setup_ex s0_ex jobs11_ex [VOld (VUpdate true)] st0q_ex Hp fresh_jobs11 _ _ _));
    vm_compute; reflexivity.
Qed.

Example C11_history_precise_with_destruction_from_invariant_example :
  exists j out0 st3 out_ out_t st',
  VInvD st0q_ex /\ (wv (fst st0q_ex) + N.of_nat (length middp_ex) + 2 < WV_NULL)%N /\
  nth_error (snd st0q_ex) 0 = Some j /\ always_checks j /\
  vstep st0q_ex (VRun 0 false 0 0 16) = Ok (st1q_ex, out0) /\ handed out0 (0, 0)%N /\
  no_run_d 0 middp_ex /\ proper_run middp_ex st1q_ex = true /\ drun middp_ex st1q_ex = Ok st2dp_ex /\ 0 < 16 /\
  vstep st2dp_ex (VRun 0 true 0 3 16) = Ok (st3, out_) /\ handed out_ (4, 0)%N /\
  (* hypotheses of the one-step theorem *)
  (wv (fst st0q_ex) + 1 < WV_NULL)%N /\ properb (fst st0q_ex) (VDestroyNow 0 (2, 0)%N) = true /\
  dstep st0q_ex (VDestroyNow 0 (2, 0)%N) = Ok (st', out_t).
Proof.
  eexists. eexists. eexists. eexists. eexists. eexists.
  split; [exact VInvD_st0q_ex|]. split; [vm_compute; reflexivity|]. split; [vm_compute; reflexivity|].
  split; [apply always_checks_job11; reflexivity|].
  split; [vm_compute; reflexivity|]. split.
  { vm_compute. eexists. eexists. split; [left; reflexivity|]. split; [left; reflexivity|reflexivity]. }
  split; [repeat constructor; discriminate|]. split; [vm_compute; reflexivity|]. split; [vm_compute; reflexivity|]. split; [lia|].
  split; [vm_compute; reflexivity|]. split.
  { vm_compute. eexists. eexists. split; [left; reflexivity|]. split; [left; reflexivity|reflexivity]. }
  split; [vm_compute; reflexivity|]. split; vm_compute; reflexivity.
Qed.
