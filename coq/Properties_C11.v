(* C11 -- change detection is quiescent and chunk-precise. Statements only; proofs in proofs/VersionProofs.v.
   Model: Manager.v (check_and_set, filter_chunks, job_filter), Iter.v (filter_blocks, blocks_count).
   Proved for all inputs: each version chunk is decided by check_and_set on its own row of stamps (chunk-precise); the
   filter hands a job exactly the positions of flagged chunks, so only chunks holding a checked stamp newer than the job's
   last version; a run followed by a second run with no stamp written in between is handed nothing, and the job's own
   stamps do not re-trigger it; the count of a filtered archetype is the number of positions in flagged chunks.
   Not covered here: the chunk-size resolution (resolve_chunk) and the history-level statement over scripts. *)
Require Import Coq.Lists.List Coq.NArith.NArith Coq.ZArith.ZArith Coq.Arith.Arith Coq.micromega.Lia.
From Mustache Require Import Res Iter Manager Palette Properties_C07.
From Mustache.proofs Require Import VersionProofs.
Import ListNotations.

(* ---- (2) chunk-precise: flag k and row k of the new stamps are check_and_set of the input row k alone ---- *)
Theorem C11_chunk_precise : forall nc check set_ last cur todo chunk cv k,
  lt_all nc check -> lt_all nc set_ -> k < todo ->
  let r := filter_chunks nc check set_ last cur chunk todo cv in
  let r0 := check_and_set (row nc (chunk + k) cv) 0 check set_ last cur in
  nth k (snd r) false = snd r0 /\ row nc (chunk + k) (fst r) = fst r0.
Proof. exact filter_chunks_chunk_precise. Qed.
Print Assumptions C11_chunk_precise.

(* the stamps outside the rows looked at are untouched, the vector keeps its length, one flag per chunk *)
Theorem C11_filter_chunks_frame : forall nc check set_ last cur, lt_all nc check -> lt_all nc set_ ->
  forall todo chunk cv,
  let r := filter_chunks nc check set_ last cur chunk todo cv in
  length (snd r) = todo /\ length (fst r) = length cv /\
  (forall p, p < nc * chunk \/ nc * (chunk + todo) <= p -> nth p (fst r) 0%N = nth p cv 0%N).
Proof.
  intros nc check set_ last cur Hc Hs todo chunk cv.
  destruct (filter_chunks_spec nc check set_ last cur Hc Hs todo chunk cv) as (H1 & H2 & _ & _ & H5). auto.
Qed.
Print Assumptions C11_filter_chunks_frame.

Example C11_chunk_precise_example :
  lt_all 2 [1] /\ lt_all 2 [0] /\ 1 < 3 /\
  filter_chunks 2 [1] [0] 0 2 0 3 [0; 0; 0; 1; 0; 0]%N = ([0; 0; 2; 1; 0; 0]%N, [false; true; false]) /\
  check_and_set (row 2 1 [0; 0; 0; 1; 0; 0]%N) 0 [1] [0] 0 2 = ([2; 1]%N, true).
Proof. split; [repeat constructor|]. split; [repeat constructor|]. split; [lia|]. split; reflexivity. Qed.

(* ---- (4) quiescence of one row ---- *)
Theorem C11_row_quiet : forall vers base check set_ last cur,
  last <> WV_NULL -> check <> [] -> (forall i, In i check -> (nth (base + i) vers 0 <= last)%N) ->
  check_and_set vers base check set_ last cur = (vers, false).
Proof. exact check_and_set_quiet. Qed.
Print Assumptions C11_row_quiet.

(* a run followed by a run as a caught-up job (last' = the first run's current version; any new current version): the
   second run sees nothing and writes nothing -- the job's own stamps do not re-trigger it *)
Theorem C11_no_self_retrigger : forall vers base check set_ last cur cur2,
  cur <> WV_NULL -> check <> [] -> (forall i, In i check -> (nth (base + i) vers 0 <= cur)%N) ->
  let v1 := fst (check_and_set vers base check set_ last cur) in
  check_and_set v1 base check set_ cur cur2 = (v1, false).
Proof. exact check_and_set_twice_quiet. Qed.
Print Assumptions C11_no_self_retrigger.

Example C11_no_self_retrigger_example :
  (3 <> WV_NULL)%N /\ [0; 1] <> [] /\ (forall i, In i [0; 1] -> (nth (2 + i) [0; 0; 1; 2]%N 0 <= 3)%N) /\
  check_and_set [0; 0; 1; 2]%N 2 [0; 1] [0; 1] 1 3 = ([0; 0; 3; 3]%N, true) /\
  check_and_set [0; 0; 3; 3]%N 2 [0; 1] [0; 1] 3 4 = ([0; 0; 3; 3]%N, false).
Proof.
  split; [discriminate|]. split; [discriminate|]. split; [|split; reflexivity].
  intros i [H|[H|[]]]; subst i; vm_compute; discriminate.
Qed.

(* the bound on the stamps is needed: a stamp ahead of the current version (say after the 32-bit version wrapped) makes a
   job that does not write that component run again and again *)
Example C11_retrigger_with_stamp_ahead :
  check_and_set [5%N] 0 [0] [] 0 3 = ([5%N], true) /\ check_and_set [5%N] 0 [0] [] 3 4 = ([5%N], true).
Proof. split; reflexivity. Qed.

(* lifted to the chunks of an archetype *)
Theorem C11_filter_chunks_quiet : forall nc check set_ last cur todo chunk cv,
  last <> WV_NULL -> check <> [] ->
  (forall k i, k < todo -> In i check -> (nth (nc * (chunk + k) + i) cv 0 <= last)%N) ->
  filter_chunks nc check set_ last cur chunk todo cv = (cv, repeat false todo).
Proof. exact filter_chunks_quiet. Qed.
Print Assumptions C11_filter_chunks_quiet.

Example C11_filter_chunks_quiet_example :
  (2 <> WV_NULL)%N /\ [1] <> [] /\
  (forall k i, k < 3 -> In i [1] -> (nth (2 * (0 + k) + i) [0; 0; 2; 1; 0; 0]%N 0 <= 2)%N) /\
  filter_chunks 2 [1] [0] 2 3 0 3 [0; 0; 2; 1; 0; 0]%N = ([0; 0; 2; 1; 0; 0]%N, [false; false; false]).
Proof.
  split; [discriminate|]. split; [discriminate|]. split; [|reflexivity].
  intros k i Hk [H|[]]. subst i. destruct k as [|[|[|k]]]; [| | |lia]; vm_compute; discriminate.
Qed.

(* ---- the whole filter ---- *)
(* precise: whatever the filter hands to the job lies in a version chunk in which a checked component carries a stamp
   newer than the job's last version (or the job never ran, or checks no component of that archetype) *)
Theorem C11_job_filter_precise : forall s j s1 fas ai a idx fa,
  job_filter s j = Ok (s1, fas) ->
  nth_error (archs s) ai = Some a -> jmatch j a = true -> 0 < am_chunk a -> ver_wf a ->
  In fa fas -> fa_arch fa = ai -> In idx (selected_of_blocks (fa_blocks fa)) ->
  idx < length (am_ents a) /\
  (j_last j = WV_NULL \/ jcheck j a = [] \/
   exists i, In i (jcheck j a) /\ (j_last j < nth (length (am_gver a) * (idx / am_chunk a) + i) (am_cver a) 0)%N).
Proof. exact job_filter_precise. Qed.
Print Assumptions C11_job_filter_precise.

Example C11_job_filter_precise_example :
  exists s1 fas a fa,
  job_filter s_ex (j_ex 0) = Ok (s1, fas) /\
  nth_error (archs s_ex) 0 = Some a /\ jmatch (j_ex 0) a = true /\ 0 < am_chunk a /\ ver_wf a /\
  In fa fas /\ fa_arch fa = 0 /\ In 3 (selected_of_blocks (fa_blocks fa)) /\ selected_of_blocks (fa_blocks fa) = [2; 3].
Proof.
  eexists. eexists. eexists. eexists. split; [vm_compute; reflexivity|]. split; [vm_compute; reflexivity|].
  split; [vm_compute; reflexivity|]. split; [vm_compute; lia|]. split; [vm_compute; reflexivity|].
  split; [left; reflexivity|]. split; [reflexivity|]. split; [vm_compute; right; left; reflexivity|vm_compute; reflexivity].
Qed.

(* quiescent: a job whose last version is not older than any stamp of the archetypes it looks at (and that checks at
   least one component in each of them) is handed nothing *)
Theorem C11_caught_up_quiet : forall s j,
  j_last j <> WV_NULL -> Forall (caught_up j (j_last j)) (archs s) -> exists s1, job_filter s j = Ok (s1, []).
Proof. exact job_filter_caught_up_quiet. Qed.
Print Assumptions C11_caught_up_quiet.

(* run the filter; take that run's world version as the job's last version (BaseJob::run, when the run had work); run the
   filter again on any state with the same archetypes (no write access, dirty mark or structural change in between; the
   world version may have moved, other state too): nothing is handed over. The hypothesis says that initially no stamp
   of a looked-at archetype is ahead of the world version; the first run keeps that (C11_run_keeps_caught_up). *)
Theorem C11_job_filter_twice_quiet : forall s j s1 fas s1',
  job_filter s j = Ok (s1, fas) -> wv s <> WV_NULL -> Forall (caught_up j (wv s)) (archs s) ->
  archs s1' = archs s1 ->
  exists s2, job_filter s1' (relast j (wv s)) = Ok (s2, []).
Proof. exact job_filter_twice_quiet. Qed.
Print Assumptions C11_job_filter_twice_quiet.

Theorem C11_run_keeps_caught_up : forall s j s1 fas,
  job_filter s j = Ok (s1, fas) -> Forall (caught_up j (wv s)) (archs s) ->
  Forall (caught_up j (wv s)) (archs s1) /\ wv s1 = wv s.
Proof. exact job_filter_keeps_caught_up. Qed.
Print Assumptions C11_run_keeps_caught_up.

Example C11_job_filter_twice_quiet_example :
  wv s_ex <> WV_NULL /\ Forall (caught_up (j_ex 0) (wv s_ex)) (archs s_ex) /\
  exists s1 fas s2, job_filter s_ex (j_ex 0) = Ok (s1, fas) /\ map fa_count fas = [2] /\
                    job_filter (inc_wv s1) (relast (j_ex 0) (wv s_ex)) = Ok (s2, []).
Proof.
  split; [vm_compute; discriminate|]. split.
  - let x := eval vm_compute in (archs s_ex) in replace (archs s_ex) with x by (vm_compute; reflexivity).
    constructor; [|constructor]. intros _. split; [vm_compute; discriminate|].
    split; cbn [am_gver am_cver]; repeat constructor; vm_compute; discriminate.
  - eexists. eexists. eexists. split; [vm_compute; reflexivity|]. split; vm_compute; reflexivity.
Qed.

(* ---- (6) blocks: the count of a filtered archetype is the number of positions below size in flagged chunks; the
   blocks list exactly those positions, each once, in order (C04_blocks_exact) ---- *)
Theorem C11_blocks_count_spec : forall cs size ms,
  0 < cs -> 0 < size -> length ms = S ((size - 1) / cs) ->
  blocks_count (filter_blocks cs size ms) = length (filter (fun i => nth (i / cs) ms false) (seq 0 size)).
Proof. exact blocks_count_spec. Qed.
Print Assumptions C11_blocks_count_spec.

Example C11_blocks_count_example :
  0 < 2 /\ 0 < 5 /\ length [true; false; true] = S ((5 - 1) / 2) /\
  filter_blocks 2 5 [true; false; true] = [(0, 2); (4, 5)] /\ blocks_count (filter_blocks 2 5 [true; false; true]) = 3.
Proof. repeat split; try lia; reflexivity. Qed.
