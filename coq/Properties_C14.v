(* C14 -- systems run in a constraint- and priority-respecting order; lifecycle is legal. Statements only.
   Model: Systems.v (reorderSystems with its fold of update_before, priority sort and greedy placement). *)
Require Import Coq.Lists.List Coq.ZArith.ZArith Coq.Sorting.Permutation.
From Mustache Require Import Res Systems.
From Mustache.proofs Require Import SystemsProofs.
Import ListNotations.

(* For ANY set of systems with unique names, any constraints (also towards absent systems), priorities and groups:
   when the ordering succeeds, the order is a permutation of the present systems and is a valid greedy order:
   at each position the system placed had all its update-after predecessors (including those induced by other systems'
   update_before) already placed, and no other placeable system had a strictly larger (group priority, priority) key. *)
Theorem C14_order_sound : forall s s',
  reorder s = Ok s' -> NoDup (map s_name (infos s)) ->
  let present := fold_before (infos s) in
  let s1 := with_infos s present in
  Permutation (ordered s') (map s_name (infos s)) /\
  valid_order s1 (map s_name present) (sort_sys s1 present) (ordered s') /\
  infos s' = present.
Proof. exact reorder_sound. Qed.
Print Assumptions C14_order_sound.

(* what a valid order means for two systems: if y must run after d and d is present, d comes earlier *)
Theorem C14_constraints_hold : forall s out U l,
  valid_order s U l out ->
  forall pre n post, out = pre ++ n :: post ->
  forall y, In y l -> s_name y = n -> NoDup (map s_name l) ->
  forall d, In d (c_after (s_cfg y)) -> In d U -> In d pre.
Proof. exact valid_order_constraints. Qed.
Print Assumptions C14_constraints_hold.

Theorem C14_priority_rule : forall s out U l,
  valid_order s U l out ->
  forall pre n post, out = pre ++ n :: post ->
  exists U' l' y, In y l' /\ s_name y = n /\ (forall z, In z l' -> can_place U' z = true -> key_gt s z y = false) /\
                  Permutation (n :: post) (map s_name l').
Proof. exact valid_order_priority. Qed.
Print Assumptions C14_priority_rule.

(* contradictory constraints are reported, never silently ordered: the ordering throws exactly when some non-empty set
   of present systems is such that each member waits for another member (a cycle); the loop bound is never the reason *)
Theorem C14_throws_iff_cycle : forall s,
  NoDup (map s_name (infos s)) ->
  let present := fold_before (infos s) in
  ((exists k, reorder s = Err (Throw k)) <-> exists R, knot (sort_sys (with_infos s present) present) R).
Proof. exact reorder_throws_iff_knot. Qed.
Print Assumptions C14_throws_iff_cycle.

Theorem C14_sort_is_sort : forall s l, desc_sorted s (sort_sys s l) /\ Permutation (sort_sys s l) l.
Proof. intros s l. exact (conj (sort_sys_desc s l) (sort_sys_perm s l)). Qed.
Print Assumptions C14_sort_is_sort.

(* examples: update_before takes part in the first ordering; a removed system is never updated again *)
Definition cfg (b a : list nat) (p : Z) : scfg := {| c_before := b; c_after := a; c_group := 0; c_prio := p |}.
Definition run_ops (ops : list sop) : res smst := fold_res sm_step ops sm_init.
Example C14_before_first_order :
  match run_ops [SAdd 1 (cfg [] [] 9); SAdd 2 (cfg [1] [] 1); SInit] with
  | Ok s => ordered s = [2; 1] | Err _ => False end.
Proof. vm_compute. reflexivity. Qed.
Example C14_removed_not_updated :
  match run_ops [SAdd 1 (cfg [] [] 0); SAdd 2 (cfg [] [] 3); SAdd 3 (cfg [] [2] 2); SInit; SRemove 2; SUpdate] with
  | Ok s => firstn 2 (slog s) = [(1, CbUpdate); (3, CbUpdate)] /\ ordered s = [3; 1] | Err _ => False end.
Proof. vm_compute. split; reflexivity. Qed.
Example C14_cycle_throws : run_ops [SAdd 1 (cfg [] [2] 0); SAdd 2 (cfg [] [1] 0); SInit] = Err (Throw 11).
Proof. vm_compute. reflexivity. Qed.

(* ================================================================================================================
   LIFECYCLE PART (proofs/SystemsLifecycle.v).
   The legal language of one system is a DFA.  States: the SystemState of ASystem, or None = "not registered in the
   manager".  Alphabet: the callbacks of the model's log (EvCb c) and two manager-level marks, the registration
   (EvAdd) and the removal (EvRemove) of the name.  Callback transitions (lc_next, the guards of system.cpp):
       Uninit -create-> Inited -configure-> Configured -start-> Active -update-> Active
       Active -pause-> Paused -resume-> Active,  Paused -stop-> Stopped
       Inited | Configured | Stopped -destroy-> Uninit
   ev_step: None -EvAdd-> Uninit; any registered state -EvRemove-> None; NO callback is accepted in state None.
   strict_run = this automaton.  lax_run additionally accepts destroy on an Uninit system (ASystem::destroy has no
   guard) and ignores the registration of a present name.
   trace_run executes the model and records, per operation, the marks and then the new entries of the callback log. *)
From Mustache.proofs Require Import SystemsLifecycle.

(* the recorded trace is the model's run and its callbacks are exactly the model's callback log; per name, erasing the
   marks gives the projection of the log to that name (oldest first) *)
Theorem C14_trace_is_the_log : forall ops s tr n,
  trace_run sm_init ops [] = Ok (s, tr) ->
  run_ops ops = Ok s /\ cbs_of tr = rev (slog s) /\ cb_only (evs_of n tr) = rev (proj n (slog s)).
Proof. exact trace_faithful_init. Qed.
Print Assumptions C14_trace_is_the_log.

Theorem C14_trace_exists : forall ops s tr s', fold_res sm_step ops s = Ok s' -> exists tr', trace_run s ops tr = Ok (s', tr').
Proof. exact trace_exists. Qed.
Print Assumptions C14_trace_exists.

(* (a) for EVERY history in which the teardown (the manager's destructor) is the last operation, the events of every
   name form a path of the strict automaton from "not registered" to the state the system is in: never an illegal
   transition.  Satisfiable: lc_ops_teardown_last / lc_ops_traces. *)
Theorem C14_lifecycle_legal : forall ops s tr n,
  teardown_last ops -> trace_run sm_init ops [] = Ok (s, tr) -> strict_run None (evs_of n tr) = Some (sys_state s n).
Proof. exact lifecycle_legal_strict. Qed.
Print Assumptions C14_lifecycle_legal.

(* for ALL operation sequences, also those that go on after the teardown, the lax automaton is respected; the strict
   one is not (lc_witness_double_teardown, lc_witness_use_after_teardown: model-only histories) *)
Theorem C14_lifecycle_legal_any_history : forall ops s tr n,
  trace_run sm_init ops [] = Ok (s, tr) -> lax_run None (evs_of n tr) = Some (sys_state s n).
Proof. exact lifecycle_legal_lax. Qed.
Print Assumptions C14_lifecycle_legal_any_history.

Theorem C14_strict_in_lax : forall w q q', strict_run q w = Some q' -> lax_run q w = Some q'.
Proof. exact strict_lax_run. Qed.
Print Assumptions C14_strict_in_lax.

(* the same for one operation from ANY state (reachable or not): the guards make every single step legal *)
Theorem C14_lifecycle_step : forall s o s', sm_step s o = Ok s' ->
  forall n, lax_run (sys_state s n) (evs_of n (step_events s o s')) = Some (sys_state s' n).
Proof. exact step_legal_lax. Qed.
Print Assumptions C14_lifecycle_step.

(* every accepted trace is a prefix of a complete lifecycle: from every state the system can be brought to "destroyed" *)
Theorem C14_lifecycle_completable : forall q, exists w,
  strict_run (Some q) (map EvCb w) = Some (Some Uninit) /\ (q <> Uninit -> exists w0, w = w0 ++ [CbDestroy]).
Proof. exact (lc_completable false). Qed.
Print Assumptions C14_lifecycle_completable.

(* (b) a removed system receives no callback afterwards (until the name is registered again), whatever happens;
   more generally no callback ever goes to a name that is not registered.  Satisfiable: lc_obs_remove_is_silent. *)
Theorem C14_removed_never_called : forall n ops s s1 s',
  sm_step s (SRemove n) = Ok s1 -> (forall u, ~ In (SAdd n u) ops) -> fold_res sm_step ops s1 = Ok s' ->
  proj n (slog s') = proj n (slog s) /\ sys_state s' n = None.
Proof. exact removed_never_called. Qed.
Print Assumptions C14_removed_never_called.

Theorem C14_absent_never_called : forall n ops s s',
  sys_state s n = None -> (forall u, ~ In (SAdd n u) ops) -> fold_res sm_step ops s = Ok s' ->
  proj n (slog s') = proj n (slog s) /\ sys_state s' n = None.
Proof. exact absent_never_called. Qed.
Print Assumptions C14_absent_never_called.

(* (c) update is delivered only to a started system: at every update event of a name the automaton is in state Active,
   and the event before it is start, update or resume *)
Theorem C14_update_only_started : forall ops s tr n w1 w2,
  teardown_last ops -> trace_run sm_init ops [] = Ok (s, tr) -> evs_of n tr = w1 ++ EvCb CbUpdate :: w2 ->
  strict_run None w1 = Some (Some Active) /\
  exists w0 e, w1 = w0 ++ [e] /\ (e = EvCb CbStart \/ e = EvCb CbUpdate \/ e = EvCb CbResume).
Proof. exact update_only_started. Qed.
Print Assumptions C14_update_only_started.

(* the manager never drives a system into ASystem's "Invalid state" exception: from ANY state the only operation that
   throws it is the registration of a name that is already registered and not destroyed (lc_obs_double_add); the user's own
   direct pause / resume / stop calls (user_call) are guarded by ASystem itself and throw in the wrong state *)
Theorem C14_no_invalid_state_exception : forall s o, user_call o = false ->
  sm_step s o = Err (Throw 10) -> exists n u q, o = SAdd n u /\ sys_state s n = Some q /\ q <> Uninit.
Proof. exact invalid_state_only_on_double_add. Qed.
Print Assumptions C14_no_invalid_state_exception.

(* until the teardown: every registered system has been created and not destroyed, names are unique, the order has no
   duplicates *)
Theorem C14_lifecycle_invariant : forall ops s,
  Forall (fun o => is_teardown o = false) ops -> run_ops ops = Ok s ->
  ~ In Uninit (states s) /\ NoDup (names s) /\ NoDup (ordered s).
Proof. exact inv_reachable_init. Qed.
Print Assumptions C14_lifecycle_invariant.

(* one world update: every system of the order that is started, or configured (it is started first), gets exactly one
   update, in the order; nothing else is delivered.  Satisfiable: lc_inv_example. *)
Theorem C14_update_delivers : forall s s', was_init s = true -> NoDup (ordered s) -> sm_step s SUpdate = Ok s' ->
  rev (slog s') = rev (slog s) ++ flat_map (fun n => upd_cbs (sys_state s n) n) (ordered s).
Proof. exact update_delivers. Qed.
Print Assumptions C14_update_delivers.

Theorem C14_updated_names : forall (q : nat -> option sstate) l,
  map fst (filter (fun p => is_update (snd p)) (flat_map (fun n => upd_cbs (q n) n) l)) = filter (fun n => runs (q n)) l.
Proof. exact updated_names. Qed.
Print Assumptions C14_updated_names.

(* the remaining systems keep running: a removal changes no other system's state, and the new order is a permutation
   of the remaining names (so, by C14_update_delivers, each of them that is active is updated at the next update) *)
Theorem C14_remove_others_keep_running : forall s n s',
  Inv s -> sys_state s n <> None -> sm_step s (SRemove n) = Ok s' ->
  Permutation (ordered s') (remove_name (names s) n) /\ names s' = remove_name (names s) n /\
  (forall m, m <> n -> sys_state s' m = sys_state s m).
Proof. exact remove_others_keep_running. Qed.
Print Assumptions C14_remove_others_keep_running.

(* ---- the hypotheses of the lifecycle theorems are satisfiable (see also lc_ops_teardown_last, lc_ops_traces,
        lc_reincarnation, lc_obs_* and the two witnesses in proofs/SystemsLifecycle.v) ---- *)
Definition lc_pre : list sop := [SAdd 1 lc_c0; SAdd 2 lc_c1; SInit; SUpdate].
Example C14_lifecycle_hyps_trace :      (* C14_lifecycle_legal, C14_update_only_started, C14_trace_is_the_log *)
  teardown_last lc_ops /\
  match trace_run sm_init lc_ops [] with
  | Ok (s, tr) => evs_of 2 tr = [EvAdd; EvCb CbCreate; EvCb CbConfigure; EvCb CbStart; EvCb CbUpdate] ++ EvCb CbUpdate :: [EvRemove]
  | Err _ => False end.
Proof. split; [exact lc_ops_teardown_last|vm_compute; reflexivity]. Qed.
Example C14_lifecycle_hyps_removed :    (* C14_removed_never_called, C14_absent_never_called, C14_remove_others_keep_running *)
  match run_ops lc_pre with
  | Ok s => sys_state s 2 <> None /\ sys_state s 7 = None /\
            match sm_step s (SRemove 2) with
            | Ok s1 => match fold_res sm_step [SUpdate; SAdd 3 lc_c0; SUpdate] s1 with
                       | Ok s' => proj 2 (slog s') = [CbUpdate; CbStart; CbConfigure; CbCreate] /\ proj 1 (slog s') <> proj 1 (slog s)
                       | Err _ => False end
            | Err _ => False end
  | Err _ => False end.
Proof. vm_compute. repeat split; discriminate. Qed.
Example C14_lifecycle_hyps_invariant : Forall (fun o => is_teardown o = false) lc_pre /\ exists s, run_ops lc_pre = Ok s.
Proof. split; [repeat constructor|]. vm_compute. eexists. reflexivity. Qed.
Example C14_lifecycle_hyps_update :     (* C14_update_delivers, C14_lifecycle_step *)
  match run_ops [SAdd 1 lc_c0; SAdd 2 lc_c1; SInit; SAdd 3 (cfg [] [] 2)] with
  | Ok s => was_init s = true /\ ordered s = [2; 3; 1] /\ sys_state s 3 = Some Configured /\
            match sm_step s SUpdate with
            | Ok s' => firstn 4 (slog s') = [(1, CbUpdate); (3, CbUpdate); (3, CbStart); (2, CbUpdate)]
            | Err _ => False end
  | Err _ => False end.
Proof. vm_compute. repeat split. Qed.
Example C14_lifecycle_hyps_throw :      (* C14_no_invalid_state_exception *)
  match run_ops [SAdd 1 lc_c0] with Ok s => sm_step s (SAdd 1 lc_c1) = Err (Throw 10) | Err _ => False end.
Proof. vm_compute. reflexivity. Qed.

(* ---- the user drives a system's lifecycle directly (ASystem::pause / resume / stop); the manager copes ---- *)
(* a system paused by the user is skipped by updates and, when the world goes away, is stopped before it is destroyed;
   a resumed one is updated again; the others keep running *)
Example C14_user_paused_system :
  match run_ops [SAdd 1 (cfg [] [] 5); SAdd 2 (cfg [] [] 1); SInit; SUpdate; SPause 1; SUpdate; STeardown] with
  | Ok s => rev (proj 1 (slog s)) = [CbCreate; CbConfigure; CbStart; CbUpdate; CbPause; CbStop; CbDestroy] /\
            rev (proj 2 (slog s)) = [CbCreate; CbConfigure; CbStart; CbUpdate; CbUpdate; CbPause; CbStop; CbDestroy]
  | Err _ => False
  end.
Proof. vm_compute. split; reflexivity. Qed.
Example C14_user_resumed_and_stopped :
  match run_ops [SAdd 1 (cfg [] [] 5); SInit; SPause 1; SResume 1; SUpdate; SPause 1; SStop 1; SUpdate; STeardown] with
  | Ok s => rev (proj 1 (slog s)) = [CbCreate; CbConfigure; CbStart; CbPause; CbResume; CbUpdate; CbPause; CbStop; CbDestroy]
  | Err _ => False
  end.
Proof. vm_compute. reflexivity. Qed.
Example C14_user_call_in_wrong_state_throws :
  match run_ops [SAdd 1 (cfg [] [] 5); SInit] with Ok s => sm_step s (SResume 1) = Err (Throw 10) /\ user_call (SResume 1) = true | Err _ => False end.
Proof. vm_compute. split; reflexivity. Qed.
