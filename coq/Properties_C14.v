(* C14 -- systems run in a constraint- and priority-respecting order; lifecycle is legal. Statements only.
   Model: Systems.v (reorderSystems with its fold of update_before, priority sort and greedy placement). *)
Require Import Coq.Lists.List Coq.ZArith.ZArith Coq.Sorting.Permutation.
From Mustache Require Import Res Systems.
From Mustache.proofs Require Import SystemsProofs.
Import ListNotations.

(* For ANY set of systems with unique names, any constraints (also towards absent systems), priorities and groups:
   when the ordering succeeds, the order is a permutation of the present systems and is a valid greedy order:
   at each position the system placed had all its update-after predecessors (including those induced by other systems'
   update_before) already placed, and no other placeable system had a strictly larger (group priority, priority) key. *)
Theorem C14_order_sound : forall s s',
  reorder s = Ok s' -> NoDup (map s_name (infos s)) ->
  let present := fold_before (infos s) in
  let s1 := with_infos s present in
  Permutation (ordered s') (map s_name (infos s)) /\
  valid_order s1 (map s_name present) (sort_sys s1 present) (ordered s') /\
  infos s' = present.
Proof. exact reorder_sound. Qed.
Print Assumptions C14_order_sound.

(* what a valid order means for two systems: if y must run after d and d is present, d comes earlier *)
Theorem C14_constraints_hold : forall s out U l,
  valid_order s U l out ->
  forall pre n post, out = pre ++ n :: post ->
  forall y, In y l -> s_name y = n -> NoDup (map s_name l) ->
  forall d, In d (c_after (s_cfg y)) -> In d U -> In d pre.
Proof. exact valid_order_constraints. Qed.
Print Assumptions C14_constraints_hold.

Theorem C14_priority_rule : forall s out U l,
  valid_order s U l out ->
  forall pre n post, out = pre ++ n :: post ->
  exists U' l' y, In y l' /\ s_name y = n /\ (forall z, In z l' -> can_place U' z = true -> key_gt s z y = false) /\
                  Permutation (n :: post) (map s_name l').
Proof. exact valid_order_priority. Qed.
Print Assumptions C14_priority_rule.

(* contradictory constraints are reported, never silently ordered: the ordering throws exactly when some non-empty set
   of present systems is such that each member waits for another member (a cycle); the loop bound is never the reason *)
Theorem C14_throws_iff_cycle : forall s,
  NoDup (map s_name (infos s)) ->
  let present := fold_before (infos s) in
  ((exists k, reorder s = Err (Throw k)) <-> exists R, knot (sort_sys (with_infos s present) present) R).
Proof. exact reorder_throws_iff_knot. Qed.
Print Assumptions C14_throws_iff_cycle.

Theorem C14_sort_is_sort : forall s l, desc_sorted s (sort_sys s l) /\ Permutation (sort_sys s l) l.
Proof. intros s l. exact (conj (sort_sys_desc s l) (sort_sys_perm s l)). Qed.
Print Assumptions C14_sort_is_sort.

(* examples: update_before takes part in the first ordering; a removed system is never updated again *)
Definition cfg (b a : list nat) (p : Z) : scfg := {| c_before := b; c_after := a; c_group := 0; c_prio := p |}.
Definition run_ops (ops : list sop) : res smst := fold_res sm_step ops sm_init.
Example C14_before_first_order :
  match run_ops [SAdd 1 (cfg [] [] 9); SAdd 2 (cfg [1] [] 1); SInit] with
  | Ok s => ordered s = [2; 1] | Err _ => False end.
Proof. vm_compute. reflexivity. Qed.
Example C14_removed_not_updated :
  match run_ops [SAdd 1 (cfg [] [] 0); SAdd 2 (cfg [] [] 3); SAdd 3 (cfg [] [2] 2); SInit; SRemove 2; SUpdate] with
  | Ok s => firstn 2 (slog s) = [(1, CbUpdate); (3, CbUpdate)] /\ ordered s = [3; 1] | Err _ => False end.
Proof. vm_compute. split; reflexivity. Qed.
Example C14_cycle_throws : run_ops [SAdd 1 (cfg [] [2] 0); SAdd 2 (cfg [] [1] 0); SInit] = Err (Throw 11).
Proof. vm_compute. reflexivity. Qed.
