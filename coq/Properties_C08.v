(* C08 -- the dispatcher runs every submitted task exactly once and waits correctly. Statements only.
   Model: Dispatcher.v, a labelled transition system over the events of the schedule-point hook; strict = the model of
   the code, relaxed = the acceptor recorded traces are replayed through (./check C08).  All theorems quantify over
   every number of workers, serial queues and every trace (= every interleaving) the system accepts. *)
Require Import Coq.Lists.List Coq.Arith.Arith.
From Mustache Require Import Dispatcher.
From Mustache.proofs Require Import DispatcherProofs DispatcherOnce.
Import ListNotations.

(* the invariant holds in every reachable state *)
Theorem C08_invariant : forall strict nw ns tr s, drun strict (d_init nw ns) tr = Some s -> Inv s.
Proof. intros strict nw ns tr s H. exact (inv_run strict tr _ _ (inv_init nw ns) H). Qed.
Print Assumptions C08_invariant.

(* a wait returns only after all work submitted before it has completed: whenever the barrier passes in the model of
   the code (parallel queue: all workers idle-waiting; serial queue: not busy), every task of that queue that was
   submitted before the waiter observed it empty has finished *)
Theorem C08_wait_returns_after_all_work : forall nw ns tr s q s',
  drun true (d_init nw ns) tr = Some s -> dstep true s (EBarrierPass q) = Some s' ->
  exists obs, helper s = HBarrier q obs /\ all_fin_below s q obs = true.
Proof. intros nw ns tr s q s' Hr Hs. exact (barrier_pass_complete s q s' (inv_run true tr _ _ (inv_init nw ns) Hr) Hs). Qed.
Print Assumptions C08_wait_returns_after_all_work.

(* hence the acceptor used for trace validation accepts every run of the model of the code *)
Theorem C08_strict_runs_are_accepted : forall nw ns tr s, drun true (d_init nw ns) tr = Some s -> drun false (d_init nw ns) tr = Some s.
Proof. intros nw ns tr s H. exact (strict_run_is_relaxed_run tr _ _ (inv_init nw ns) H). Qed.
Print Assumptions C08_strict_runs_are_accepted.

(* jobs of one serial queue never run concurrently with each other *)
Theorem C08_serial_exclusive : forall strict nw ns tr s q qu h1 h2 id1 id2,
  drun strict (d_init nw ns) tr = Some s -> nth_error (queues s) q = Some qu -> q_serial qu = true ->
  holds s h1 q id1 -> holds s h2 q id2 -> h1 = h2.
Proof. exact serial_exclusive. Qed.
Print Assumptions C08_serial_exclusive.

(* every task taken from a queue is finished or is being run by the thread that took it (none is lost) *)
Theorem C08_started_accounted : forall strict nw ns tr s q qu id,
  drun strict (d_init nw ns) tr = Some s -> nth_error (queues s) q = Some qu -> id < q_pop qu ->
  is_fin s q id = true \/ runner s q id.
Proof. exact started_accounted. Qed.
Print Assumptions C08_started_accounted.

(* parallelFor: the index ranges of the tasks tile [first, last) exactly, for empty and non-empty ranges and any task count *)
Theorem C08_range_split : forall first last threads task_count,
  0 < threads \/ 0 < task_count ->
  flat_map (fun r : nat * nat => seq (fst r) (snd r)) (parallel_for_ranges first last threads task_count) = seq first (last - first).
Proof. exact parallel_for_tiles. Qed.
Print Assumptions C08_range_split.

(* ==== exactly once, FIFO ids, serial order, teardown, thread ids (proofs/DispatcherOnce.v) ====
   Vocabulary: holds s h q id = thread h (Some k: worker k, thread id k+1; None: the external thread helping inside
   wait(), thread id 0) is running task id of queue q; runner = some thread holds it; finished s = the log of ended
   tasks, most recent first; tid h = the thread id the task observes. *)

(* the second invariant holds in every reachable state *)
Theorem C08_invariant2 : forall strict nw ns tr s, drun strict (d_init nw ns) tr = Some s -> Inv2 s.
Proof. intros strict nw ns tr s H. exact (proj2 (reach_inv strict nw ns tr s H)). Qed.
Print Assumptions C08_invariant2.

(* 1. at most once: no task ends twice, ... *)
Theorem C08_at_most_once : forall strict nw ns tr s, drun strict (d_init nw ns) tr = Some s ->
  NoDup (finished s).
Proof. exact once_nodup. Qed.
Print Assumptions C08_at_most_once.

Theorem C08_at_most_once_count : forall strict nw ns tr s, drun strict (d_init nw ns) tr = Some s ->
  forall q id, count_occ task_eq_dec (finished s) (q, id) <= 1.
Proof. exact once_count. Qed.
Print Assumptions C08_at_most_once_count.

(* ... a task that is being run has not ended before, ... *)
Theorem C08_running_not_finished : forall strict nw ns tr s, drun strict (d_init nw ns) tr = Some s ->
  forall h q id, holds s h q id -> is_fin s q id = false.
Proof. exact running_not_finished. Qed.
Print Assumptions C08_running_not_finished.

(* ... and no two threads (workers / helper) run the same task *)
Theorem C08_one_thread_per_task : forall strict nw ns tr s, drun strict (d_init nw ns) tr = Some s ->
  forall h1 h2 q id, holds s h1 q id -> holds s h2 q id -> h1 = h2.
Proof. exact one_thread_per_task. Qed.
Print Assumptions C08_one_thread_per_task.

(* 2. ids are FIFO positions: the tasks that have been started (finished or running) are exactly those below the pop
   counter of their queue *)
Theorem C08_started_iff_popped : forall strict nw ns tr s, drun strict (d_init nw ns) tr = Some s ->
  forall q qu id, nth_error (queues s) q = Some qu ->
  (id < q_pop qu <-> (is_fin s q id = true \/ runner s q id)).
Proof. exact started_iff_popped. Qed.
Print Assumptions C08_started_iff_popped.

Theorem C08_started_has_queue : forall strict nw ns tr s, drun strict (d_init nw ns) tr = Some s ->
  forall q id, is_fin s q id = true \/ runner s q id -> exists qu, nth_error (queues s) q = Some qu /\ id < q_pop qu.
Proof. exact started_has_queue. Qed.
Print Assumptions C08_started_has_queue.

(* exactly once: a popped task that nobody runs any more is in the log exactly once *)
Theorem C08_exactly_once_when_ended : forall strict nw ns tr s, drun strict (d_init nw ns) tr = Some s ->
  forall q qu id, nth_error (queues s) q = Some qu -> id < q_pop qu -> ~ runner s q id ->
  count_occ task_eq_dec (finished s) (q, id) = 1.
Proof. exact exactly_once_when_ended. Qed.
Print Assumptions C08_exactly_once_when_ended.

(* exactly once by the time a wait on the queue returns: when the barrier passes in the model of the code, every task
   submitted to the queue before the waiter saw it empty (ids below obs) is in the log exactly once *)
Theorem C08_exactly_once_at_wait_return : forall nw ns tr s q s',
  drun true (d_init nw ns) tr = Some s -> dstep true s (EBarrierPass q) = Some s' ->
  exists obs, helper s = HBarrier q obs /\ finished s' = finished s /\
              forall id, id < obs -> count_occ task_eq_dec (finished s') (q, id) = 1.
Proof. exact exactly_once_at_wait_return. Qed.
Print Assumptions C08_exactly_once_at_wait_return.

(* 3. serial queues: the running job is the last one popped; at most one job runs, on one thread; when job id has
   started every earlier job has ended; the queue's log, oldest first, is 0, 1, ..., n-1 with n or n+1 jobs popped *)
Theorem C08_serial_running_is_last_popped : forall strict nw ns tr s, drun strict (d_init nw ns) tr = Some s ->
  forall q qu h id, nth_error (queues s) q = Some qu -> q_serial qu = true -> holds s h q id -> S id = q_pop qu.
Proof. exact serial_running_is_last_popped. Qed.
Print Assumptions C08_serial_running_is_last_popped.

Theorem C08_serial_one_running : forall strict nw ns tr s, drun strict (d_init nw ns) tr = Some s ->
  forall q qu h1 h2 id1 id2, nth_error (queues s) q = Some qu -> q_serial qu = true ->
  holds s h1 q id1 -> holds s h2 q id2 -> h1 = h2 /\ id1 = id2.
Proof. exact serial_one_running. Qed.
Print Assumptions C08_serial_one_running.

Theorem C08_serial_prefix_finished : forall strict nw ns tr s, drun strict (d_init nw ns) tr = Some s ->
  forall q qu id id', nth_error (queues s) q = Some qu -> q_serial qu = true ->
  is_fin s q id = true \/ runner s q id -> id' < id -> is_fin s q id' = true.
Proof. exact serial_prefix_finished. Qed.
Print Assumptions C08_serial_prefix_finished.

Theorem C08_serial_finish_order : forall strict nw ns tr s, drun strict (d_init nw ns) tr = Some s ->
  forall q qu, nth_error (queues s) q = Some qu -> q_serial qu = true ->
  exists n, rev (fin_of s q) = seq 0 n /\ (q_pop qu = n \/ q_pop qu = S n).
Proof. exact serial_finish_order. Qed.
Print Assumptions C08_serial_finish_order.

(* 4. teardown.  What the model gives: EJoined is accepted only when every worker has exited, and from then on no
   event of a worker loop (top / wait / pop / end / exit) is accepted at all, so no worker runs or ends anything; the
   log can only grow by EHEnd events, i.e. by tasks the EXTERNAL thread runs itself if it calls wait() on a queue
   again.  The model does not forbid that (nor an external wait() that is still in progress at EJoined), and it
   deliberately lets a worker pop between ETerminate and its exit (the terminate store is not under the mutex). *)
Theorem C08_joined_all_exited : forall strict nw ns tr s, drun strict (d_init nw ns) tr = Some s ->
  joined s = true -> all_exited s.
Proof. exact joined_all_exited. Qed.
Print Assumptions C08_joined_all_exited.

Theorem C08_joined_no_worker_runs : forall strict nw ns tr s, drun strict (d_init nw ns) tr = Some s ->
  joined s = true -> forall t q id, ~ holds s (Some t) q id.
Proof. exact joined_no_worker_runs. Qed.
Print Assumptions C08_joined_no_worker_runs.

Theorem C08_joined_terminated : forall strict nw ns tr s, drun strict (d_init nw ns) tr = Some s ->
  joined s = true -> 0 < nw -> term s = true.
Proof. exact joined_terminated. Qed.
Print Assumptions C08_joined_terminated.

Theorem C08_after_join : forall strict nw ns tr s, drun strict (d_init nw ns) tr = Some s -> joined s = true ->
  forall tr2 s2, drun strict s tr2 = Some s2 ->
  workers s2 = workers s /\ (forall e, In e tr2 -> worker_loop_event e = false) /\
  exists l, finished s2 = l ++ finished s /\ length l = length (filter is_hend tr2).
Proof. exact after_join. Qed.
Print Assumptions C08_after_join.

Theorem C08_after_join_nothing_runs : forall strict nw ns tr s, drun strict (d_init nw ns) tr = Some s -> joined s = true ->
  forall tr2 s2, drun strict s tr2 = Some s2 -> (forall q, ~ In (EHEnd q) tr2) -> finished s2 = finished s.
Proof. exact after_join_nothing_runs. Qed.
Print Assumptions C08_after_join_nothing_runs.

(* 5. thread ids: two different running tasks observe different thread ids (in any state: a thread holds one task),
   and every observed id is in 0..nworkers *)
Theorem C08_tid_distinct : forall s h1 h2 q1 id1 q2 id2, holds s h1 q1 id1 -> holds s h2 q2 id2 ->
  (q1, id1) <> (q2, id2) -> tid h1 <> tid h2.
Proof. exact tid_distinct. Qed.
Print Assumptions C08_tid_distinct.

Theorem C08_tid_range : forall strict nw ns tr s, drun strict (d_init nw ns) tr = Some s ->
  forall h q id, holds s h q id -> tid h <= nw.
Proof. exact tid_range. Qed.
Print Assumptions C08_tid_range.

(* NOT proved here (stated in DESIGN.md as partial): liveness (wait always returns) beyond what the trace validation
   observes on real executions; data-race freedom of the C++ (checked with ThreadSanitizer in ./check C06). *)

(* non-vacuity: two workers, one serial queue; a full accepted trace with a barrier pass *)
Example C08_example :
  drun true (d_init 2 1)
    [ESubmit 0; ESubmit 0; EWTop 1; EWPop 1 0; EWTop 2; EWPop 2 0; EHEnter 0; EHEmpty 0; EBarrierSpin;
     EWEnd 1 0; EWTop 1; EWWaitEnter 1 1; EWEnd 2 0; EWTop 2; EWWaitEnter 2 2; EBarrierPass 0] <> None.
Proof. vm_compute. discriminate. Qed.

(* non-vacuity of the hypotheses above.  Two workers, one serial queue (queue 1): worker 1 runs (0,0), the helper runs
   (0,1), worker 2 runs serial job (1,1), serial job (1,0) has ended *)
Definition C08_trace_a : list event :=
  [ESubmit 0; ESubmit 0; ESubmit 1; ESubmit 1; EWTop 1; EWPop 1 0; EWTop 2; EWPop 2 1; EWEnd 2 1; EWTop 2; EWPop 2 1;
   EHEnter 0; EHPop 0].
Example C08_example_running : exists s qu0 qu1,
  drun true (d_init 2 1) C08_trace_a = Some s /\
  holds s (Some 0) 0 0 /\ holds s None 0 1 /\ holds s (Some 1) 1 1 /\ is_fin s 1 0 = true /\
  nth_error (queues s) 0 = Some qu0 /\ q_pop qu0 = 2 /\
  nth_error (queues s) 1 = Some qu1 /\ q_serial qu1 = true /\ q_pop qu1 = 2 /\
  (0, 0) <> (0, 1) /\ tid (Some 0) = 1 /\ tid None = 0 /\ fin_of s 1 = [0].
Proof. do 3 eexists. vm_compute. repeat split; try reflexivity. discriminate. Qed.

(* a popped task nobody runs any more: after both serial jobs ended, queue 1 has q_pop = 2 and no runner *)
Example C08_example_ended : exists s qu1,
  drun true (d_init 2 1) (C08_trace_a ++ [EWEnd 2 1]) = Some s /\
  nth_error (queues s) 1 = Some qu1 /\ q_pop qu1 = 2 /\ q_serial qu1 = true /\
  (forall id, ~ runner s 1 id) /\ rev (fin_of s 1) = seq 0 2.
Proof.
  do 2 eexists. vm_compute. repeat split; try reflexivity.
  intros id ([[|[|t]]|] & R); vm_compute in R; try discriminate. destruct t; discriminate.
Qed.

(* a strict barrier pass with obs = 2 (the trace of C08_example, the pass as the last step) *)
Example C08_example_wait_return : exists s s',
  drun true (d_init 2 1)
    [ESubmit 0; ESubmit 0; EWTop 1; EWPop 1 0; EWTop 2; EWPop 2 0; EHEnter 0; EHEmpty 0; EBarrierSpin;
     EWEnd 1 0; EWTop 1; EWWaitEnter 1 1; EWEnd 2 0; EWTop 2; EWWaitEnter 2 2] = Some s /\
  dstep true s (EBarrierPass 0) = Some s' /\ helper s = HBarrier 0 2.
Proof. do 2 eexists. vm_compute. repeat split; reflexivity. Qed.

(* teardown: one worker; a task popped before the worker saw terminate still ends; after the join the external thread
   submits and runs one more task itself (the only way the log can grow), or just submits (nothing runs) *)
Definition C08_trace_join : list event :=
  [ESubmit 0; EWTop 1; EWPop 1 0; ETerminate; EClear; EWEnd 1 0; EWExit 1; EWDone 1; EJoined].
Example C08_example_join : exists s s2 s3,
  drun true (d_init 1 0) C08_trace_join = Some s /\ joined s = true /\ 0 < 1 /\ finished s = [(0, 0)] /\
  drun true s [ESubmit 0; EHEnter 0; EHPop 0; EHEnd 0] = Some s2 /\ finished s2 = [(0, 1); (0, 0)] /\
  drun true s [ESubmit 0; EHEnter 0] = Some s3 /\ (forall q, ~ In (EHEnd q) [ESubmit 0; EHEnter 0]) /\ finished s3 = finished s.
Proof.
  do 3 eexists. vm_compute. repeat split; try reflexivity; try (repeat constructor; fail).
  intros q [E|[E|[]]]; discriminate.
Qed.
