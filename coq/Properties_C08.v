(* C08 -- the dispatcher runs every submitted task exactly once and waits correctly. Statements only.
   Model: Dispatcher.v, a labelled transition system over the events of the schedule-point hook; strict = the model of
   the code, relaxed = the acceptor recorded traces are replayed through (./check C08).  All theorems quantify over
   every number of workers, serial queues and every trace (= every interleaving) the system accepts. *)
Require Import Coq.Lists.List Coq.Arith.Arith.
From Mustache Require Import Dispatcher.
From Mustache.proofs Require Import DispatcherProofs.
Import ListNotations.

(* the invariant holds in every reachable state *)
Theorem C08_invariant : forall strict nw ns tr s, drun strict (d_init nw ns) tr = Some s -> Inv s.
Proof. intros strict nw ns tr s H. exact (inv_run strict tr _ _ (inv_init nw ns) H). Qed.
Print Assumptions C08_invariant.

(* a wait returns only after all work submitted before it has completed: whenever the barrier passes in the model of
   the code (parallel queue: all workers idle-waiting; serial queue: not busy), every task of that queue that was
   submitted before the waiter observed it empty has finished *)
Theorem C08_wait_returns_after_all_work : forall nw ns tr s q s',
  drun true (d_init nw ns) tr = Some s -> dstep true s (EBarrierPass q) = Some s' ->
  exists obs, helper s = HBarrier q obs /\ all_fin_below s q obs = true.
Proof. intros nw ns tr s q s' Hr Hs. exact (barrier_pass_complete s q s' (inv_run true tr _ _ (inv_init nw ns) Hr) Hs). Qed.
Print Assumptions C08_wait_returns_after_all_work.

(* hence the acceptor used for trace validation accepts every run of the model of the code *)
Theorem C08_strict_runs_are_accepted : forall nw ns tr s, drun true (d_init nw ns) tr = Some s -> drun false (d_init nw ns) tr = Some s.
Proof. intros nw ns tr s H. exact (strict_run_is_relaxed_run tr _ _ (inv_init nw ns) H). Qed.
Print Assumptions C08_strict_runs_are_accepted.

(* jobs of one serial queue never run concurrently with each other *)
Theorem C08_serial_exclusive : forall strict nw ns tr s q qu h1 h2 id1 id2,
  drun strict (d_init nw ns) tr = Some s -> nth_error (queues s) q = Some qu -> q_serial qu = true ->
  holds s h1 q id1 -> holds s h2 q id2 -> h1 = h2.
Proof. exact serial_exclusive. Qed.
Print Assumptions C08_serial_exclusive.

(* every task taken from a queue is finished or is being run by the thread that took it (none is lost) *)
Theorem C08_started_accounted : forall strict nw ns tr s q qu id,
  drun strict (d_init nw ns) tr = Some s -> nth_error (queues s) q = Some qu -> id < q_pop qu ->
  is_fin s q id = true \/ runner s q id.
Proof. exact started_accounted. Qed.
Print Assumptions C08_started_accounted.

(* parallelFor: the index ranges of the tasks tile [first, last) exactly, for empty and non-empty ranges and any task count *)
Theorem C08_range_split : forall first last threads task_count,
  0 < threads \/ 0 < task_count ->
  flat_map (fun r : nat * nat => seq (fst r) (snd r)) (parallel_for_ranges first last threads task_count) = seq first (last - first).
Proof. exact parallel_for_tiles. Qed.
Print Assumptions C08_range_split.

(* NOT proved here (stated in DESIGN.md as partial): liveness (wait always returns) beyond what the trace validation
   observes on real executions; data-race freedom of the C++ (checked with ThreadSanitizer in ./check C06). *)

(* non-vacuity: two workers, one serial queue; a full accepted trace with a barrier pass *)
Example C08_example :
  drun true (d_init 2 1)
    [ESubmit 0; ESubmit 0; EWTop 1; EWPop 1 0; EWTop 2; EWPop 2 0; EHEnter 0; EHEmpty 0; EBarrierSpin;
     EWEnd 1 0; EWTop 1; EWWaitEnter 1 1; EWEnd 2 0; EWTop 2; EWWaitEnter 2 2; EBarrierPass 0] <> None.
Proof. vm_compute. discriminate. Qed.
