(* Worlds: the process-global world-id allocator (world.cpp:7-58). NO PROOFS in this file.
     nextWorldId(): take the smallest id of the pool, else next_id++
     ~World():      return the id to the pool *)
Require Import Coq.Lists.List Coq.NArith.NArith Coq.Arith.Arith Coq.Bool.Bool.
Import ListNotations.
Local Open Scope N_scope.

Record wst := { w_next : N; w_pool : list N; w_live : list N }.
Definition w_init : wst := {| w_next := 0; w_pool := []; w_live := [] |}.

Fixpoint pool_insert (l : list N) (x : N) : list N :=      (* std::set<WorldId>::insert *)
  match l with
  | [] => [x]
  | y :: t => if x =? y then l else if x <? y then x :: l else y :: pool_insert t x
  end.

Fixpoint remove_first (l : list N) (x : N) : list N :=
  match l with [] => [] | y :: t => if x =? y then t else y :: remove_first t x end.

Inductive wop := WNew | WDel (id : N).

Definition w_step (s : wst) (o : wop) : wst * option N :=
  match o with
  | WNew =>
    match w_pool s with
    | x :: t => ({| w_next := w_next s; w_pool := t; w_live := x :: w_live s |}, Some x)
    | [] => ({| w_next := (w_next s + 1) mod 4294967296; w_pool := []; w_live := w_next s :: w_live s |}, Some (w_next s))
    end
  | WDel id => ({| w_next := w_next s; w_pool := pool_insert (w_pool s) id; w_live := remove_first (w_live s) id |}, None)
  end.

(* histories inside the statement of C17: only live worlds are destroyed, never more than 1024 alive at once *)
Definition MAX_WORLDS : nat := 1024.
Definition op_ok (s : wst) (o : wop) : bool :=
  match o with
  | WNew => Nat.ltb (length (w_live s)) MAX_WORLDS
  | WDel id => existsb (N.eqb id) (w_live s)
  end.

Fixpoint w_run (s : wst) (ops : list wop) : option (wst * list N) :=
  match ops with
  | [] => Some (s, [])
  | o :: t =>
    if op_ok s o then
      let '(s1, r) := w_step s o in
      match w_run s1 t with
      | Some (s2, ids) => Some (s2, match r with Some i => i :: ids | None => ids end)
      | None => None
      end
    else None
  end.
