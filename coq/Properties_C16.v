(* C16 -- handle packing is lossless.  Statements only; every proof is `exact <lemma>`.
   All theorems are about the definitions GENERATED from ecs/entity.hpp and ecs/id_deff.hpp
   on this run (gen/EntityGen.v, gen/IdDeffGen.v). *)
Require Import Coq.NArith.NArith.
From Mustache Require Import CInt Handle.
From Mustache.gen Require Import EntityGen IdDeffGen.
From Mustache.proofs Require Import HandleProofs.
Local Open Scope N_scope.

(* the field widths in the source are the ones the property names *)
Theorem C16_widths :
  Entity.entity_id_bits = 30 /\ Entity.world_id_bits = 10 /\ Entity.version_bits = 24.
Proof. exact c_widths. Qed.
Print Assumptions C16_widths.

(* pack then read back: every in-range triple *)
Theorem C16_unpack_pack : forall v0 id ver wid,
  id < 2 ^ 30 -> ver < 2 ^ 24 -> wid < 2 ^ 10 ->
  Entity.id (Entity.reset_3 v0 id ver wid) = id /\
  Entity.version (Entity.reset_3 v0 id ver wid) = ver /\
  Entity.worldId (Entity.reset_3 v0 id ver wid) = wid.
Proof.
  intros v0 id ver wid Hi Hv Hw.
  exact (conj (unpack_pack_id v0 id ver wid Hi Hv Hw)
        (conj (unpack_pack_version v0 id ver wid Hi Hv Hw) (unpack_pack_world v0 id ver wid Hi Hv Hw))).
Qed.
Print Assumptions C16_unpack_pack.

(* read then re-pack: every 64-bit pattern *)
Theorem C16_pack_unpack : forall v0 v,
  v < 2 ^ 64 -> Entity.reset_3 v0 (Entity.id v) (Entity.version v) (Entity.worldId v) = v.
Proof. exact pack_unpack. Qed.
Print Assumptions C16_pack_unpack.

Theorem C16_distinct_triples_distinct_handles : forall v0 v1 i ver w i' ver' w',
  i < 2 ^ 30 -> ver < 2 ^ 24 -> w < 2 ^ 10 -> i' < 2 ^ 30 -> ver' < 2 ^ 24 -> w' < 2 ^ 10 ->
  Entity.reset_3 v0 i ver w = Entity.reset_3 v1 i' ver' w' -> i = i' /\ ver = ver' /\ w = w'.
Proof. exact pack_injective. Qed.
Print Assumptions C16_distinct_triples_distinct_handles.

(* the packed value is the documented layout, and stays inside 64 bits *)
Theorem C16_pack_is_layout : forall v0 i ver w,
  i < 2 ^ 30 -> ver < 2 ^ 24 -> w < 2 ^ 10 -> Entity.reset_3 v0 i ver w = spec_pack i ver w.
Proof. exact pack_is_spec. Qed.
Print Assumptions C16_pack_is_layout.

Theorem C16_readers_are_layout : forall v, v < 2 ^ 64 ->
  Entity.id v = spec_id v /\ Entity.worldId v = spec_world v /\ Entity.version v = spec_version v.
Proof. intros v Hv. exact (conj (id_is_spec v) (conj (world_is_spec v) (version_is_spec v Hv))). Qed.
Print Assumptions C16_readers_are_layout.

(* advancing the version: only the version field changes, and it wraps inside its 24 bits;
   for all 2^64 patterns *)
Theorem C16_next_version : forall v, v < 2 ^ 64 ->
  let v' := Entity.makeEntityWithNextVersion v in
  Entity.id v' = Entity.id v /\ Entity.worldId v' = Entity.worldId v /\
  Entity.version v' = (Entity.version v + 1) mod 2 ^ 24 /\ v' < 2 ^ 64.
Proof. exact next_version_fields. Qed.
Print Assumptions C16_next_version.

Theorem C16_increment_is_next : forall v, Entity.incrementVersion v = Entity.makeEntityWithNextVersion v.
Proof. exact increment_is_next. Qed.
Print Assumptions C16_increment_is_next.

(* only the all-ones pattern is null *)
Theorem C16_null_iff_all_ones : forall v, Entity.isNull v = true <-> v = 2 ^ 64 - 1.
Proof. exact null_iff. Qed.
Print Assumptions C16_null_iff_all_ones.

(* equality is exactly field-wise equality *)
Theorem C16_eq_iff_fields : forall v w, v < 2 ^ 64 -> w < 2 ^ 64 ->
  (Entity.op_eq v w = true <->
   Entity.id v = Entity.id w /\ Entity.version v = Entity.version w /\ Entity.worldId v = Entity.worldId w).
Proof. exact eq_iff_fields. Qed.
Print Assumptions C16_eq_iff_fields.

(* storage index arithmetic, for all 32-bit arguments *)
Theorem C16_align_up : forall x a,
  0 < a -> x + a - 1 < 2 ^ 32 -> is_align_up x a (ComponentOffset.alignAs x a).
Proof. exact align_up_spec. Qed.
Print Assumptions C16_align_up.

Theorem C16_make_aligned_same : forall x a, ComponentOffset.makeAligned x a = ComponentOffset.alignAs x a.
Proof. exact make_aligned_same. Qed.
Print Assumptions C16_make_aligned_same.

Theorem C16_split_join : forall i cap, 0 < cap ->
  i = ComponentStorageIndex.op_div i cap * cap + ComponentStorageIndex.op_mod i cap /\
  ComponentStorageIndex.op_mod i cap < cap.
Proof. exact split_join. Qed.
Print Assumptions C16_split_join.

Theorem C16_split_null_capacity : forall i,
  ComponentStorageIndex.op_div i 0 = null_ChunkIndex /\ ComponentStorageIndex.op_mod i 0 = null_ChunkItemIndex.
Proof. exact split_null_capacity. Qed.
Print Assumptions C16_split_null_capacity.

(* non-vacuity: concrete values meeting the hypotheses *)
Example C16_example :
  Entity.id (Entity.reset_3 0 1073741823 16777215 1023) = 1073741823 /\
  Entity.version (Entity.makeEntityWithNextVersion (Entity.reset_3 0 5 16777215 3)) = 0 /\
  ComponentOffset.alignAs 13 8 = 16 /\ ComponentOffset.alignAs 0 64 = 0.
Proof. vm_compute. auto. Qed.

(* the leaf-level witness used by C17: an unmasked world id >= 2^10 corrupts the version field *)
Theorem C16_unmasked_world_refuted :
  exists wid, 2 ^ 10 <= wid /\ Entity.version (Entity.reset_3 0 0 0 wid) <> 0.
Proof. exists 1024. split; vm_compute; congruence. Qed.
Print Assumptions C16_unmasked_world_refuted.
