(* Extraction of the executable models for the correspondence runs.
   Only ExtrOcamlBasic: bool/option/unit/list/prod/sumbool map to OCaml's; nat, N, positive, Z stay inductive. *)
Require Extraction.
Require Import ExtrOcamlBasic.
From Mustache Require Import CInt Handle.
From Mustache.gen Require Import EntityGen IdDeffGen.

Extraction "model.ml"
  EntityGen.Entity IdDeffGen.ComponentStorageIndex IdDeffGen.ComponentOffset
  Handle.spec_pack Handle.spec_id Handle.spec_world Handle.spec_version.
