(* Extraction of the executable models for the correspondence runs.
   Only ExtrOcamlBasic: bool/option/unit/list/prod/sumbool map to OCaml's; nat, N, positive, Z stay inductive. *)
Require Extraction.
Require Import ExtrOcamlBasic.
From Mustache Require Import CInt Handle Res Skeleton SkelSpec SkelRun Manager Palette MgrSpec Worlds Events Systems Layout Dispatcher TempStore.
From Mustache.gen Require Import EntityGen IdDeffGen.

Separate Extraction
  EntityGen.Entity IdDeffGen.ComponentStorageIndex IdDeffGen.ComponentOffset
  Res.err TempStore.ts_init TempStore.ts_step TempStore.ts_run TempStore.ts_exec TempStore.ts_bases_ok TempStore.ts_chunk_view Dispatcher.first_reject Dispatcher.d_init Dispatcher.parallel_for_ranges Layout.offsets Layout.chunk_size Layout.chunk_align Systems.sm_step Systems.sm_init Systems.check_order Events.e_step Events.e_init Events.sp_step Worlds.w_step Worlds.w_init MgrSpec.x_step MgrSpec.x_init Manager.step Manager.init Manager.is_valid Palette.pal_info SkelSpec.spec_step SkelSpec.sp_init SkelRun.srun Skeleton.step Skeleton.init Skeleton.is_valid Skeleton.walk
  Handle.spec_pack Handle.spec_id Handle.spec_world Handle.spec_version.
