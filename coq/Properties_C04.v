(* C04 -- iteration visits each selected entity exactly once, with its own data. Statements only.
   Model: Iter.v (blocks, task split, archetype segments, arrays, unrolled loop), used by Manager.ORunJob, whose visits
   are compared with the real library after every job run (tier B) and judged against the property itself (tier A). *)
Require Import Coq.Lists.List Coq.Arith.Arith Coq.Bool.Bool.
From Mustache Require Import Res Iter.
From Mustache.proofs Require Import IterProofs.
Import ListNotations.

(* every population, every version-chunk size, every pattern of changed chunks: the blocks select exactly the indices
   below the population whose version chunk matched -- in order, each once (hence blocks are disjoint and in range) *)
Theorem C04_blocks_exact : forall cs size ms,
  0 < cs -> 0 < size -> length ms = S ((size - 1) / cs) ->
  selected_of_blocks (filter_blocks cs size ms) = selected_spec cs size ms.
Proof. exact blocks_exact. Qed.
Print Assumptions C04_blocks_exact.

(* the 4x unrolled invocation loop with its tail table calls the user function at offsets 0..count-1, each once *)
Theorem C04_unroll_exact : forall count, unrolled count = seq 0 count.
Proof. exact unrolled_seq. Qed.
Print Assumptions C04_unroll_exact.

(* the entities-per-task split: sizes differ by at most one and add up to the number of selected entities *)
Theorem C04_task_sizes : forall total tasks, 0 < tasks ->
  fold_left (fun acc k => acc + task_size total tasks k) (seq 0 tasks) 0 = total /\
  forall k, total / tasks <= task_size total tasks k <= S (total / tasks).
Proof. intros total tasks H. split; [exact (task_size_sum total tasks H)|intro k; exact (task_size_bounds total tasks k H)]. Qed.
Print Assumptions C04_task_sizes.

(* FULL STATEMENT for the cursor / segments / arrays (not yet proved in general; evaluated below on concrete
   configurations inside Coq and on every job run of the correspondence): for every list of filtered archetypes with
   well-formed blocks and every task count T >= 1, the arrays of tasks 0..T-1, concatenated, are exactly the selected
   (archetype, real index) pairs in order, every array is non-empty and lies inside one block and one storage chunk. *)
Definition all_selected (fas : list farch) : list (nat * nat) :=
  flat_map (fun pa : nat * farch => map (pair (fst pa)) (selected_of_blocks (fa_blocks (snd pa)))) (combine (seq 0 (length fas)) fas).
Definition flatten_arrays (per_task : list (list (nat * nat * nat))) : list (nat * nat) :=
  flat_map (fun arrs => flat_map (fun a : nat * nat * nat => let '(pos, start, len) := a in map (pair pos) (seq start len)) arrs) per_task.
Definition C04_tasks_cover_statement : Prop :=
  forall fas T, 0 < T -> Forall (fun a => fa_count a = blocks_count (fa_blocks a) /\ 0 < fa_count a /\ 0 < fa_cap a) fas ->
  exists per_task, run_arrays fas T = Ok per_task /\ flatten_arrays per_task = all_selected fas.

Definition pair_eqb (a b : nat * nat) : bool := Nat.eqb (fst a) (fst b) && Nat.eqb (snd a) (snd b).
Fixpoint list_eqb (l1 l2 : list (nat * nat)) : bool :=
  match l1, l2 with [], [] => true | a :: t1, b :: t2 => pair_eqb a b && list_eqb t1 t2 | _, _ => false end.
Definition fa (blocks : list (nat * nat)) (size cap : nat) : farch :=
  {| fa_arch := 0; fa_blocks := blocks; fa_count := blocks_count blocks; fa_size := size; fa_cap := cap |}.
Definition fas_example : list farch := [fa [(0, 2); (4, 7)] 7 3; fa [(1, 2)] 5 3; fa [(0, 4); (6, 9)] 9 4].
Example C04_tasks_cover_examples :
  forallb (fun T => match run_arrays fas_example T with
                    | Ok per_task => list_eqb (flatten_arrays per_task) (all_selected fas_example)
                    | Err _ => false end) (seq 1 14) = true.
Proof. vm_compute. reflexivity. Qed.
