(* C04 -- placeholder; theorems are added from proofs/ *)
Require Import Coq.Lists.List Coq.NArith.NArith.
From Mustache Require Import Res Iter.
Import ListNotations.
Example C04_placeholder : unrolled 6 = [0; 1; 2; 3; 4; 5].
Proof. vm_compute. reflexivity. Qed.
Print Assumptions C04_placeholder.
