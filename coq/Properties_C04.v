(* C04 -- iteration visits each selected entity exactly once, with its own data. Statements only.
   Model: Iter.v (blocks, task split, archetype segments, arrays, unrolled loop), used by Manager.ORunJob, whose visits
   are compared with the real library after every job run (tier B) and judged against the property itself (tier A). *)
Require Import Coq.Lists.List Coq.Arith.Arith Coq.Bool.Bool Coq.micromega.Lia.
From Mustache Require Import Res Iter.
From Mustache.proofs Require Import IterProofs IterCover.
Import ListNotations.

(* every population, every version-chunk size, every pattern of changed chunks: the blocks select exactly the indices
   below the population whose version chunk matched -- in order, each once (hence blocks are disjoint and in range) *)
Theorem C04_blocks_exact : forall cs size ms,
  0 < cs -> 0 < size -> length ms = S ((size - 1) / cs) ->
  selected_of_blocks (filter_blocks cs size ms) = selected_spec cs size ms.
Proof. exact blocks_exact. Qed.
Print Assumptions C04_blocks_exact.

(* the 4x unrolled invocation loop with its tail table calls the user function at offsets 0..count-1, each once *)
Theorem C04_unroll_exact : forall count, unrolled count = seq 0 count.
Proof. exact unrolled_seq. Qed.
Print Assumptions C04_unroll_exact.

(* the entities-per-task split: sizes differ by at most one and add up to the number of selected entities *)
Theorem C04_task_sizes : forall total tasks, 0 < tasks ->
  fold_left (fun acc k => acc + task_size total tasks k) (seq 0 tasks) 0 = total /\
  forall k, total / tasks <= task_size total tasks k <= S (total / tasks).
Proof. intros total tasks H. split; [exact (task_size_sum total tasks H)|intro k; exact (task_size_bounds total tasks k H)]. Qed.
Print Assumptions C04_task_sizes.

(* ---- the cursor / segments / arrays: proved for all inputs (proofs/IterCover.v) ----
   Vocabulary (defined in proofs/IterCover.v):
     chain lo bl hi     the blocks bl = [(b1,e1); (b2,e2); ...] satisfy lo <= b1 < e1 <= b2 < e2 <= ... <= hi
                        (non-empty, ascending, pairwise disjoint, inside [lo, hi])
     fa_wf a            chain 0 (fa_blocks a) (fa_size a)  /\  fa_count a = blocks_count (fa_blocks a)  /\
                        0 < fa_count a  /\  0 < fa_cap a      -- a filtered archetype as base_job.cpp builds it
     array_good fas (p, s, l)
                        the array starts at real index s of the p-th filtered archetype a and has l elements, with
                        0 < l, inside one block of a, s + l <= population of a, and every index of the array lies in
                        the same storage chunk (i / fa_cap a = s / fa_cap a)
     visits_from i arrs the (entity_index, (archetype position, real index)) of every invocation when the arrays are
                        processed in order and entity_index starts at i and counts up (Manager.ORunJob) *)
Definition all_selected (fas : list farch) : list (nat * nat) :=
  flat_map (fun pa : nat * farch => map (pair (fst pa)) (selected_of_blocks (fa_blocks (snd pa)))) (combine (seq 0 (length fas)) fas).
Definition flatten_arrays (per_task : list (list (nat * nat * nat))) : list (nat * nat) :=
  flat_map (fun arrs => flat_map (fun a : nat * nat * nat => let '(pos, start, len) := a in map (pair pos) (seq start len)) arrs) per_task.
Definition task_positions (arrs : list (nat * nat * nat)) : list (nat * nat) := flatten_arrays [arrs].

(* the blocks the model computes are well-formed, so fa_wf is what filterArchetype delivers *)
Theorem C04_blocks_wellformed : forall cs size ms,
  0 < cs -> 0 < size -> length ms = S ((size - 1) / cs) -> chain 0 (filter_blocks cs size ms) size.
Proof. exact filter_blocks_chain. Qed.
Print Assumptions C04_blocks_wellformed.

(* For every list of well-formed filtered archetypes and every task count T >= 1 the run is defined (no underflow, no
   out-of-range vector access, no empty array, enough fuel) and
     - there are T tasks, task k is handed task_size N T k positions,
     - the positions handed to tasks 0..T-1, concatenated, are exactly the selected (archetype, real index) pairs in
       order; they are pairwise different (so the tasks are pairwise disjoint and together cover everything),
     - every array is non-empty, lies inside one block (hence inside the archetype) and inside one storage chunk,
     - the i-th invocation of the run gets entity_index i and the i-th selected position (i = 0..N-1). *)
Theorem C04_tasks_cover : forall fas T, 0 < T -> Forall fa_wf fas ->
  exists per_task,
    run_arrays fas T = Ok per_task /\ length per_task = T /\
    flatten_arrays per_task = all_selected fas /\
    NoDup (flatten_arrays per_task) /\
    map (fun arrs => length (task_positions arrs)) per_task = map (task_size (total_count fas) T) (seq 0 T) /\
    Forall (Forall (array_good fas)) per_task /\
    visits_from 0 (concat per_task) = combine (seq 0 (total_count fas)) (all_selected fas).
Proof.
  intros fas T HT Hwf. destruct (tasks_cover fas T HT Hwf) as (per & H1 & H2 & H3 & H4 & H5 & H6 & H7).
  exists per. repeat split; try assumption.
  rewrite <- H5. apply map_ext. intros arrs. unfold task_positions, flatten_arrays. cbn [flat_map]. rewrite app_nil_r. reflexivity.
Qed.
Print Assumptions C04_tasks_cover.

(* the entity_index values of one run are 0, 1, ..., N-1 in this order, each once, and the entity with index i is the
   i-th selected one *)
Theorem C04_entity_index : forall fas T, 0 < T -> Forall fa_wf fas ->
  exists per_task, run_arrays fas T = Ok per_task /\
    map fst (visits_from 0 (concat per_task)) = seq 0 (total_count fas) /\
    map snd (visits_from 0 (concat per_task)) = all_selected fas.
Proof. exact entity_index_exact. Qed.
Print Assumptions C04_entity_index.

(* ---- the hypotheses are satisfiable, and the concrete evaluation kept from the earlier round ---- *)
Definition pair_eqb (a b : nat * nat) : bool := Nat.eqb (fst a) (fst b) && Nat.eqb (snd a) (snd b).
Fixpoint list_eqb (l1 l2 : list (nat * nat)) : bool :=
  match l1, l2 with [], [] => true | a :: t1, b :: t2 => pair_eqb a b && list_eqb t1 t2 | _, _ => false end.
Definition fa (blocks : list (nat * nat)) (size cap : nat) : farch :=
  {| fa_arch := 0; fa_blocks := blocks; fa_count := blocks_count blocks; fa_size := size; fa_cap := cap |}.
Definition fas_example : list farch := [fa [(0, 2); (4, 7)] 7 3; fa [(1, 2)] 5 3; fa [(0, 4); (6, 9)] 9 4].
Example C04_fas_example_wf : Forall fa_wf fas_example.
Proof. repeat constructor; vm_compute; lia. Qed.
Example C04_blocks_wellformed_example :
  filter_blocks 2 7 [true; false; true; true] = [(0, 2); (4, 7)] /\ length [true; false; true; true] = S ((7 - 1) / 2).
Proof. vm_compute. split; reflexivity. Qed.
Example C04_tasks_cover_examples :
  forallb (fun T => match run_arrays fas_example T with
                    | Ok per_task => list_eqb (flatten_arrays per_task) (all_selected fas_example)
                    | Err _ => false end) (seq 1 14) = true.
Proof. vm_compute. reflexivity. Qed.
Example C04_run_example :
  run_arrays fas_example 3 =
  Ok [[(0, 0, 2); (0, 4, 2); (0, 6, 1)]; [(1, 1, 1); (2, 0, 3)]; [(2, 3, 1); (2, 6, 2); (2, 8, 1)]].
  (* 13 selected entities, sizes 5/4/4; (4,7) is cut at the storage-chunk end 6, (0,4) at the task end, (6,9) at chunk end 8 *)
Proof. vm_compute. reflexivity. Qed.

(* ---- why the well-formedness of the blocks is needed: the statement of the earlier round, which only asked for
   fa_count = blocks_count, 0 < fa_count, 0 < fa_cap, is FALSE of the model.  Witnesses: blocks out of order make the
   unsigned subtraction `fst nb - idx` underflow; empty blocks give an empty array (the C++ loop would not advance);
   blocks reaching beyond the population are silently truncated (entities are skipped). *)
Definition C04_tasks_cover_statement_unguarded : Prop :=
  forall fas T, 0 < T -> Forall (fun a => fa_count a = blocks_count (fa_blocks a) /\ 0 < fa_count a /\ 0 < fa_cap a) fas ->
  exists per_task, run_arrays fas T = Ok per_task /\ flatten_arrays per_task = all_selected fas.
Theorem C04_unguarded_statement_false : ~ C04_tasks_cover_statement_unguarded.
Proof.
  intros H. destruct (H [fa [(3, 5); (0, 2)] 7 3] 1) as (per & E & _); [lia|repeat constructor|vm_compute in E; discriminate].
Qed.
Print Assumptions C04_unguarded_statement_false.
Example C04_witness_out_of_order : run_arrays [fa [(3, 5); (0, 2)] 7 3] 1 = Err Underflow.
Proof. vm_compute. reflexivity. Qed.
Example C04_witness_empty_blocks : run_arrays [fa [(0, 2); (2, 2); (2, 2); (3, 4)] 7 3] 1 = Err (Throw 20).
Proof. vm_compute. reflexivity. Qed.
Example C04_witness_beyond_population : run_arrays [fa [(0, 4)] 2 3] 1 = Ok [[(0, 0, 2)]].
Proof. vm_compute. reflexivity. Qed.
