(* C04 -- iteration visits each selected entity exactly once, with its own data. Statements only.
   Model: Iter.v (blocks, task split, archetype segments, arrays, unrolled loop), used by Manager.ORunJob, whose visits
   are compared with the real library after every job run (tier B) and judged against the property itself (tier A). *)
Require Import Coq.Lists.List Coq.Arith.Arith Coq.Bool.Bool Coq.micromega.Lia.
From Mustache Require Import Res Iter.
From Mustache.proofs Require Import IterProofs IterCover.
Import ListNotations.

(* every population, every version-chunk size, every pattern of changed chunks: the blocks select exactly the indices
   below the population whose version chunk matched -- in order, each once (hence blocks are disjoint and in range) *)
Theorem C04_blocks_exact : forall cs size ms,
  0 < cs -> 0 < size -> length ms = S ((size - 1) / cs) ->
  selected_of_blocks (filter_blocks cs size ms) = selected_spec cs size ms.
Proof. exact blocks_exact. Qed.
Print Assumptions C04_blocks_exact.

(* the 4x unrolled invocation loop with its tail table calls the user function at offsets 0..count-1, each once *)
Theorem C04_unroll_exact : forall count, unrolled count = seq 0 count.
Proof. exact unrolled_seq. Qed.
Print Assumptions C04_unroll_exact.

(* the entities-per-task split: sizes differ by at most one and add up to the number of selected entities *)
Theorem C04_task_sizes : forall total tasks, 0 < tasks ->
  fold_left (fun acc k => acc + task_size total tasks k) (seq 0 tasks) 0 = total /\
  forall k, total / tasks <= task_size total tasks k <= S (total / tasks).
Proof. intros total tasks H. split; [exact (task_size_sum total tasks H)|intro k; exact (task_size_bounds total tasks k H)]. Qed.
Print Assumptions C04_task_sizes.

(* ---- the cursor / segments / arrays: proved for all inputs (proofs/IterCover.v) ----
   Vocabulary (defined in proofs/IterCover.v):
     chain lo bl hi     the blocks bl = [(b1,e1); (b2,e2); ...] satisfy lo <= b1 < e1 <= b2 < e2 <= ... <= hi
                        (non-empty, ascending, pairwise disjoint, inside [lo, hi])
     fa_wf a            chain 0 (fa_blocks a) (fa_size a)  /\  fa_count a = blocks_count (fa_blocks a)  /\
                        0 < fa_count a  /\  0 < fa_cap a      -- a filtered archetype as base_job.cpp builds it
     array_good fas (p, s, l)
                        the array starts at real index s of the p-th filtered archetype a and has l elements, with
                        0 < l, inside one block of a, s + l <= population of a, and every index of the array lies in
                        the same storage chunk (i / fa_cap a = s / fa_cap a)
     visits_from i arrs the (entity_index, (archetype position, real index)) of every invocation when the arrays are
                        processed in order and entity_index starts at i and counts up (Manager.ORunJob) *)
Definition all_selected (fas : list farch) : list (nat * nat) :=
  flat_map (fun pa : nat * farch => map (pair (fst pa)) (selected_of_blocks (fa_blocks (snd pa)))) (combine (seq 0 (length fas)) fas).
Definition flatten_arrays (per_task : list (list (nat * nat * nat))) : list (nat * nat) :=
  flat_map (fun arrs => flat_map (fun a : nat * nat * nat => let '(pos, start, len) := a in map (pair pos) (seq start len)) arrs) per_task.
Definition task_positions (arrs : list (nat * nat * nat)) : list (nat * nat) := flatten_arrays [arrs].

(* the blocks the model computes are well-formed, so fa_wf is what filterArchetype delivers *)
Theorem C04_blocks_wellformed : forall cs size ms,
  0 < cs -> 0 < size -> length ms = S ((size - 1) / cs) -> chain 0 (filter_blocks cs size ms) size.
Proof. exact filter_blocks_chain. Qed.
Print Assumptions C04_blocks_wellformed.

(* For every list of well-formed filtered archetypes and every task count T >= 1 the run is defined (no underflow, no
   out-of-range vector access, no empty array, enough fuel) and
     - there are T tasks, task k is handed task_size N T k positions,
     - the positions handed to tasks 0..T-1, concatenated, are exactly the selected (archetype, real index) pairs in
       order; they are pairwise different (so the tasks are pairwise disjoint and together cover everything),
     - every array is non-empty, lies inside one block (hence inside the archetype) and inside one storage chunk,
     - the i-th invocation of the run gets entity_index i and the i-th selected position (i = 0..N-1). *)
Theorem C04_tasks_cover : forall fas T, 0 < T -> Forall fa_wf fas ->
  exists per_task,
    run_arrays fas T = Ok per_task /\ length per_task = T /\
    flatten_arrays per_task = all_selected fas /\
    NoDup (flatten_arrays per_task) /\
    map (fun arrs => length (task_positions arrs)) per_task = map (task_size (total_count fas) T) (seq 0 T) /\
    Forall (Forall (array_good fas)) per_task /\
    visits_from 0 (concat per_task) = combine (seq 0 (total_count fas)) (all_selected fas).
Proof.
  intros fas T HT Hwf. destruct (tasks_cover fas T HT Hwf) as (per & H1 & H2 & H3 & H4 & H5 & H6 & H7).
  exists per. repeat split; try assumption.
  rewrite <- H5. apply map_ext. intros arrs. unfold task_positions, flatten_arrays. cbn [flat_map]. rewrite app_nil_r. reflexivity.
Qed.
Print Assumptions C04_tasks_cover.

(* the entity_index values of one run are 0, 1, ..., N-1 in this order, each once, and the entity with index i is the
   i-th selected one *)
Theorem C04_entity_index : forall fas T, 0 < T -> Forall fa_wf fas ->
  exists per_task, run_arrays fas T = Ok per_task /\
    map fst (visits_from 0 (concat per_task)) = seq 0 (total_count fas) /\
    map snd (visits_from 0 (concat per_task)) = all_selected fas.
Proof. exact entity_index_exact. Qed.
Print Assumptions C04_entity_index.

(* ---- the hypotheses are satisfiable, and the concrete evaluation kept from the earlier round ---- *)
Definition pair_eqb (a b : nat * nat) : bool := Nat.eqb (fst a) (fst b) && Nat.eqb (snd a) (snd b).
Fixpoint list_eqb (l1 l2 : list (nat * nat)) : bool :=
  match l1, l2 with [], [] => true | a :: t1, b :: t2 => pair_eqb a b && list_eqb t1 t2 | _, _ => false end.
Definition fa (blocks : list (nat * nat)) (size cap : nat) : farch :=
  {| fa_arch := 0; fa_blocks := blocks; fa_count := blocks_count blocks; fa_size := size; fa_cap := cap |}.
Definition fas_example : list farch := [fa [(0, 2); (4, 7)] 7 3; fa [(1, 2)] 5 3; fa [(0, 4); (6, 9)] 9 4].
Example C04_fas_example_wf : Forall fa_wf fas_example.
Proof. repeat constructor; vm_compute; lia. Qed.
Example C04_blocks_wellformed_example :
  filter_blocks 2 7 [true; false; true; true] = [(0, 2); (4, 7)] /\ length [true; false; true; true] = S ((7 - 1) / 2).
Proof. vm_compute. split; reflexivity. Qed.
Example C04_tasks_cover_examples :
  forallb (fun T => match run_arrays fas_example T with
                    | Ok per_task => list_eqb (flatten_arrays per_task) (all_selected fas_example)
                    | Err _ => false end) (seq 1 14) = true.
Proof. vm_compute. reflexivity. Qed.
Example C04_run_example :
  run_arrays fas_example 3 =
  Ok [[(0, 0, 2); (0, 4, 2); (0, 6, 1)]; [(1, 1, 1); (2, 0, 3)]; [(2, 3, 1); (2, 6, 2); (2, 8, 1)]].
  (* 13 selected entities, sizes 5/4/4; (4,7) is cut at the storage-chunk end 6, (0,4) at the task end, (6,9) at chunk end 8 *)
Proof. vm_compute. reflexivity. Qed.

(* ---- why the well-formedness of the blocks is needed: the statement of the earlier round, which only asked for
   fa_count = blocks_count, 0 < fa_count, 0 < fa_cap, is FALSE of the model.  Witnesses: blocks out of order make the
   unsigned subtraction `fst nb - idx` underflow; empty blocks give an empty array (the C++ loop would not advance);
   blocks reaching beyond the population are silently truncated (entities are skipped). *)
Definition C04_tasks_cover_statement_unguarded : Prop :=
  forall fas T, 0 < T -> Forall (fun a => fa_count a = blocks_count (fa_blocks a) /\ 0 < fa_count a /\ 0 < fa_cap a) fas ->
  exists per_task, run_arrays fas T = Ok per_task /\ flatten_arrays per_task = all_selected fas.
Theorem C04_unguarded_statement_false : ~ C04_tasks_cover_statement_unguarded.
Proof.
  intros H. destruct (H [fa [(3, 5); (0, 2)] 7 3] 1) as (per & E & _); [lia|repeat constructor|vm_compute in E; discriminate].
Qed.
Print Assumptions C04_unguarded_statement_false.
Example C04_witness_out_of_order : run_arrays [fa [(3, 5); (0, 2)] 7 3] 1 = Err Underflow.
Proof. vm_compute. reflexivity. Qed.
Example C04_witness_empty_blocks : run_arrays [fa [(0, 2); (2, 2); (2, 2); (3, 4)] 7 3] 1 = Err (Throw 20).
Proof. vm_compute. reflexivity. Qed.
Example C04_witness_beyond_population : run_arrays [fa [(0, 4)] 2 3] 1 = Ok [[(0, 0, 2)]].
Proof. vm_compute. reflexivity. Qed.

(* ================================================================================================================== *)
(* ENTITY LEVEL (proofs/JobFilterFull.v, JobVisits.v, JobEntity.v): what Manager.step RETURNS for a job run, on the
   states related to the abstract world MgrSpec by the invariant MInv -- hence on the final state of every script of
   the unlocked alphabet, also when job runs are interleaved with it.
   Vocabulary:
     step s (ORunJob j parallel tasks_override workers cap [] false) = Ok (s', RJob last arrays)
                          the run of job j without callback actions that unlocks at its end; arrays is the list of
                          (task, first entity_index, [(handle, [per request of j: Some cell | None])]) in the order
                          tasks 0..T-1 process them
     out_visits arrays    the (handle, cells) of every invocation of the callback, in that order
     out_indices arrays   the entity_index of every invocation, in that order
     jfull j              j_last j = WV_NULL \/ j_check j = 0   (first run, or no version filter)
     reqs_ok j            every component id named by j is below MASK_BITS
     spec_selected j e    the SPECIFICATION entity e has every component of job_required_mask j
     cell_ok e r oc       for the request r = (c, const?, required?): oc = Some v with (c, w) one of e's components and
                          cell_le w v (v is e's own value of c; an indeterminate specification value matches anything),
                          or oc = None and e lacks c (null for an absent optional component)
     visit_of_entity hs x j k v
                          the visit v carries the handle issued k-th (hnd hs k) and, request by request, cell_ok e
                          for the specification entity e = find_ent x k
     JReady s             every archetype has a positive version-chunk size, the command buffers are empty, the
                          default chunk configuration is in force (kept by the alphabet and by job runs; without it
                          the C++ divides by zero / flushes foreign commands) *)
Require Import Coq.NArith.NArith Coq.ZArith.ZArith.
From Mustache Require Import Manager MgrSpec Refine Palette.
From Mustache.proofs Require Import SkelInv ManagerInv ManagerMain VersionProofs JobFilterFull JobVisits JobEntity.

(* model level, every state with sane archetypes (no MInv needed): the run is defined for every parallel flag, task
   override, worker count and storage-chunk capacity cap >= 1, and the callback sees -- in this order -- the members
   0..population-1 of every non-empty archetype with the required components, in archetype order, each with the handle
   and the cells stored at its own slot; entity_index counts 0..N-1; the state changes in stamps / bookkeeping only *)
Theorem C04_run_job_model : forall s j parallel tov workers cap,
  jfull j -> 0 < cap -> run_ready s ->
  exists s1 s' last arrays,
    step s (ORunJob j parallel tov workers cap [] false) = Ok (s', RJob last arrays) /\
    stamps_only s s1 /\ (s' = s1 \/ s' = job_final s1) /\
    out_visits arrays = expected_visits j (archs s) /\
    out_indices arrays = seq 0 (length (out_visits arrays)) /\
    last = (match out_visits arrays with [] => j_last j | _ => wv s end).
Proof. exact run_job_model. Qed.
Print Assumptions C04_run_job_model.

(* the filter on a state satisfying the invariant, for a job that processes everything: Ok; version stamps are all that
   changes; the records are well-formed in the sense of C04_tasks_cover (so that theorem applies to them), one per
   non-empty archetype having the required components, fa_count = population, selecting the members 0..population-1 *)
Theorem C04_filter_wellformed : forall cis s hs al x j cap,
  MInv cis s hs al x -> JReady s -> jfull j -> 0 < cap ->
  exists s1 fas,
    job_filter s j = Ok (s1, fas) /\ stamps_only s s1 /\
    Forall fa_wf (map (with_cap cap) fas) /\ NoDup (map fa_arch fas) /\
    (forall fa, In fa fas -> exists a, nth_error (archs s) (fa_arch fa) = Some a /\ jmatch j a = true /\
                                       fa_count fa = length (am_ents a) /\ fa_size fa = length (am_ents a) /\
                                       selected_of_blocks (fa_blocks fa) = seq 0 (length (am_ents a))) /\
    (forall ai a, nth_error (archs s) ai = Some a -> jmatch j a = true -> exists fa, In fa fas /\ fa_arch fa = ai).
Proof. exact filter_on_reachable. Qed.
Print Assumptions C04_filter_wellformed.

(* A job WITHOUT version filter on a state satisfying the invariant: step returns Ok; there is a duplicate-free list
   ks of issue numbers that is EXACTLY the set of live specification entities having every required component, and the
   i-th invocation of the callback is the visit of entity ks[i]: its handle and its own cells (None for an absent
   optional component). Hence the multiset of visited handles is { hnd hs k | k selected }, each exactly once
   (NoDup, stated for the handles too); entity_index runs 0..N-1; the invariant holds again afterwards. *)
Theorem C04_entity_level : forall cis s hs al x j parallel tov workers cap,
  MInv cis s hs al x -> JReady s -> j_check j = 0%N -> reqs_ok j -> 0 < cap ->
  exists s' last arrays ks,
    step s (ORunJob j parallel tov workers cap [] false) = Ok (s', RJob last arrays) /\
    NoDup ks /\
    (forall k, In k ks <-> exists e, find_ent x k = Some e /\ spec_selected j e) /\
    Forall2 (visit_of_entity hs x j) ks (out_visits arrays) /\
    NoDup (map fst (out_visits arrays)) /\
    out_indices arrays = seq 0 (length ks) /\
    last = (match ks with [] => j_last j | _ => wv s end) /\
    MInv cis s' hs al x /\ JReady s'.
Proof. exact entity_level_nofilter. Qed.
Print Assumptions C04_entity_level.

(* the same for a job WITH a version filter (any check mask) on its FIRST run *)
Theorem C04_entity_level_first_filtered_run : forall cis s hs al x j parallel tov workers cap,
  MInv cis s hs al x -> JReady s -> j_last j = WV_NULL -> reqs_ok j -> 0 < cap ->
  exists s' last arrays ks,
    step s (ORunJob j parallel tov workers cap [] false) = Ok (s', RJob last arrays) /\
    NoDup ks /\
    (forall k, In k ks <-> exists e, find_ent x k = Some e /\ spec_selected j e) /\
    Forall2 (visit_of_entity hs x j) ks (out_visits arrays) /\
    NoDup (map fst (out_visits arrays)) /\
    out_indices arrays = seq 0 (length ks) /\
    last = (match ks with [] => WV_NULL | _ => wv s end) /\
    MInv cis s' hs al x /\ JReady s'.
Proof. exact entity_level_first_run. Qed.
Print Assumptions C04_entity_level_first_filtered_run.

(* the hypotheses MInv and JReady hold on the final state of every script of the unlocked alphabet (alpha_b: create,
   destroyNow, assign, removeComponent, write through getComponent) that stays inside the contract and runs without
   error, relating it to the abstract world xrun of the same script *)
Theorem C04_reachable_states : forall typed n cis ops s hs,
  cis_ok cis -> forallb (alpha_b cis) ops = true -> mrun typed n cis ops = Ok (s, hs) ->
  x_viol (xrun n cis ops) = 0 -> within (length hs) ->
  exists al, MInv cis s hs al (xrun n cis ops) /\ JReady s.
Proof. exact unlocked_scripts_inv. Qed.
Print Assumptions C04_reachable_states.

(* ... and of every such script with job runs interleaved (JRun: ANY job -- any filter, any history --, without
   callback actions; to the abstract world a job run means nothing: jx_step) *)
Theorem C04_scripts_with_job_runs : forall typed n cis ops s hs,
  cis_ok cis -> forallb (jalpha cis) ops = true -> jrun typed n cis ops = Ok (s, hs) ->
  x_viol (jxrun n cis ops) = 0 -> within (length hs) ->
  exists al, MInv cis s hs al (jxrun n cis ops) /\ JReady s.
Proof. exact scripts_inv. Qed.
Print Assumptions C04_scripts_with_job_runs.

(* C04 on scripts: after every such script, a job that processes everything (no filter, or first run) visits exactly the
   entities the abstract world of the script selects, each once, with its own components *)
Theorem C04_on_scripts : forall typed n cis ops s hs j parallel tov workers cap,
  cis_ok cis -> forallb (jalpha cis) ops = true -> jrun typed n cis ops = Ok (s, hs) ->
  x_viol (jxrun n cis ops) = 0 -> within (length hs) ->
  jfull j -> reqs_ok j -> 0 < cap ->
  exists s' last arrays ks,
    step s (ORunJob j parallel tov workers cap [] false) = Ok (s', RJob last arrays) /\
    NoDup ks /\
    (forall k, In k ks <-> exists e, find_ent (jxrun n cis ops) k = Some e /\ spec_selected j e) /\
    Forall2 (visit_of_entity hs (jxrun n cis ops) j) ks (out_visits arrays) /\
    NoDup (map fst (out_visits arrays)) /\
    out_indices arrays = seq 0 (length ks).
Proof. exact entity_level_on_scripts. Qed.
Print Assumptions C04_on_scripts.

(* ---- the hypotheses are satisfiable; a concrete run ---------------------------------------------------------------
   four archetypes {0,1} {0,1,2} {1} {0}; the job requires 0 and 1 and asks for 2 optionally, so two of them match.
   Entities are created, written, destroyed (swap-remove in {0,1}), moved by assign (swap-remove in {0,1}) and by
   removeComponent (swap-remove in {0,1,2}); an id is recycled.  Task override 3, storage-chunk capacity 2. *)
Definition c04_cis : list cinfo := [pal_info 0 0; pal_info 1 0; pal_info 2 0; pal_info 3 0; dyn_info 8 33; pal_info 6 0].
Lemma c04_cis_ok : cis_ok c04_cis.
Proof. unfold cis_ok, c04_cis. repeat constructor; simpl; intros; congruence. Qed.
Definition c04_job : job := {| j_reqs := [(0, true, true); (1, false, true); (2, true, false)]; j_check := 0%N; j_last := 5%N |}.
Definition c04_job_v : job := {| j_reqs := [(0, true, true); (1, false, true); (2, true, false)]; j_check := 1%N; j_last := WV_NULL |}.
Definition c04_part1 : list xop :=
  [XoCreate 0 3%N [] false; XoCreate 0 3%N [] false; XoCreate 0 3%N [] false; XoCreate 0 7%N [] false; XoCreate 0 7%N [] false;
   XoCreate 0 2%N [] false; XoCreate 0 3%N [] false;
   XoSet 0 0 10%Z; XoSet 1 0 11%Z; XoSet 2 1 12%Z; XoSet 3 2 13%Z; XoSet 4 0 14%Z; XoSet 6 1 16%Z; XoSet 5 1 15%Z].
Definition c04_part2 : list xop :=
  [XoDestroyNow 0 0; XoAssign 0 1 2 (Some 21%Z); XoRemove 0 3 2 true; XoCreate 0 3%N [] false; XoCreate 0 1%N [] false;
   XoCreate 0 3%N [] false].
Definition c04_script : list xop := c04_part1 ++ c04_part2.
(* the same script with a first run of the version-filtered job in the middle and a sequential run at the end *)
Definition c04_jscript : list jop :=
  map JOp c04_part1 ++ [JRun c04_job_v true 0 3 4] ++ map JOp c04_part2 ++ [JRun c04_job false 0 0 1].

Example C04_entity_level_hypotheses :
  cis_ok c04_cis /\ forallb (alpha_b c04_cis) c04_script = true /\ x_viol (xrun 2 c04_cis c04_script) = 0 /\
  j_check c04_job = 0%N /\ reqs_ok c04_job /\ j_last c04_job_v = WV_NULL /\ reqs_ok c04_job_v /\
  exists s hs al, mrun false 2 c04_cis c04_script = Ok (s, hs) /\ within (length hs) /\
                  MInv c04_cis s hs al (xrun 2 c04_cis c04_script) /\ JReady s.
Proof.
  split; [exact c04_cis_ok|]. split; [vm_compute; reflexivity|]. split; [vm_compute; reflexivity|].
  split; [reflexivity|]. split; [repeat constructor|]. split; [reflexivity|]. split; [repeat constructor|].
  assert (E : exists s hs, mrun false 2 c04_cis c04_script = Ok (s, hs) /\ within (length hs))
    by (eexists; eexists; split; [vm_compute; reflexivity|vm_compute; reflexivity]).
  destruct E as (s & hs & E & Hb).
  destruct (C04_reachable_states false 2 c04_cis c04_script s hs c04_cis_ok) as (al & HI & HJ);
    [vm_compute; reflexivity|exact E|vm_compute; reflexivity|exact Hb|].
  exists s, hs, al. auto.
Qed.

Example C04_on_scripts_hypotheses :
  cis_ok c04_cis /\ reqs_ok c04_job_v /\ 0 < 2 /\
  forallb (jalpha c04_cis) c04_jscript = true /\ x_viol (jxrun 2 c04_cis c04_jscript) = 0 /\ jfull c04_job_v /\
  exists s hs, jrun false 2 c04_cis c04_jscript = Ok (s, hs) /\ within (length hs).
Proof.
  split; [exact c04_cis_ok|]. split; [repeat constructor|]. split; [lia|].
  split; [vm_compute; reflexivity|]. split; [vm_compute; reflexivity|]. split; [left; reflexivity|].
  eexists; eexists; split; [vm_compute; reflexivity|vm_compute; reflexivity].
Qed.

(* what the model returns on the final state: tasks 0,1,2 get 3,2,2 entities; the population 5 of archetype {0,1} is cut
   at the storage-chunk ends 2 and 4 and at the task ends 3 and 5; entity_index 0..6; the issue numbers visited are
   6 2 3 7 9 (archetype {0,1}, in slot order after the swap-removes) 1 4 (archetype {0,1,2}) *)
Example C04_entity_level_example :
  match mrun false 2 c04_cis c04_script with
  | Ok (s, hs) =>
    match step s (ORunJob c04_job true 3 1 2 [] false) with
    | Ok (_, RJob last arrays) =>
      map (fun a => (am_mask a, length (am_ents a))) (archs s) = [(3%N, 5); (7%N, 2); (2%N, 1); (1%N, 1)] /\
      arrays =
        [(0, 0, [((6%N, 0%N), [Some None; Some (Some 16%Z); None]); ((2%N, 0%N), [Some None; Some (Some 12%Z); None])]);
         (0, 2, [((3%N, 0%N), [Some None; Some None; None])]);
         (1, 3, [((0%N, 1%N), [Some None; Some (Some 16%Z); None])]);
         (1, 4, [((8%N, 0%N), [Some None; Some None; None])]);
         (2, 5, [((1%N, 0%N), [Some (Some 11%Z); Some None; Some (Some 21%Z)]);
                 ((4%N, 0%N), [Some (Some 14%Z); Some None; Some (Some 1002%Z)])])] /\
      map fst (out_visits arrays) = map (fun k => nth k hs null_handle) [6; 2; 3; 7; 9; 1; 4] /\
      out_indices arrays = seq 0 7
    | _ => False
    end
  | Err _ => False
  end.
Proof. vm_compute. repeat split. Qed.

(* the specification side of the same script: the entities having components 0 and 1 are 2 4 6 1 3 7 9 *)
Example C04_entity_level_spec_example :
  map (fun e => (e_k e, e_comps e))
      (filter (fun e => has_comp (e_comps e) 0 && has_comp (e_comps e) 1) (x_ents (xrun 2 c04_cis c04_script))) =
  [(2, [(0, None); (1, Some 12%Z)]); (4, [(0, Some 14%Z); (1, None); (2, Some 1002%Z)]); (6, [(0, None); (1, Some 16%Z)]);
   (1, [(0, Some 11%Z); (1, None); (2, Some 21%Z)]); (3, [(0, None); (1, None)]); (7, [(0, None); (1, None)]);
   (9, [(0, None); (1, None)])].
Proof. vm_compute. reflexivity. Qed.

(* the version-filtered job on its first run after the script with interleaved job runs: the same visits *)
Example C04_first_filtered_run_example :
  match jrun false 2 c04_cis c04_jscript with
  | Ok (s, hs) =>
    match step s (ORunJob c04_job_v true 3 1 2 [] false) with
    | Ok (_, RJob last arrays) =>
      last = 2%N /\ map fst (out_visits arrays) = map (fun k => nth k hs null_handle) [6; 2; 3; 7; 9; 1; 4] /\
      out_indices arrays = seq 0 7
    | _ => False
    end
  | Err _ => False
  end.
Proof. vm_compute. repeat split. Qed.


(* the hypotheses of the model-level theorem and of the filter theorem on the same state *)
Example C04_run_job_model_hypotheses :
  jfull c04_job /\ jfull c04_job_v /\
  exists s hs, mrun false 2 c04_cis c04_script = Ok (s, hs) /\ run_ready s /\
    map (jmatch c04_job) (archs s) = [true; true; false; false].
Proof.
  split; [right; reflexivity|]. split; [left; reflexivity|].
  destruct C04_entity_level_hypotheses as (_ & _ & _ & _ & _ & _ & _ & s & hs & al & E & _ & HI & HJ).
  exists s, hs. split; [exact E|]. split; [eapply run_ready_of; eassumption|].
  revert E. clear. intros E.
  assert (E' : match mrun false 2 c04_cis c04_script with
               | Ok (s0, _) => map (jmatch c04_job) (archs s0) = [true; true; false; false] | Err _ => False end)
    by (vm_compute; reflexivity).
  rewrite E in E'. exact E'.
Qed.
