(* Systems: SystemManager (system_manager.cpp) and the per-system lifecycle automaton (system.cpp).
   NO PROOFS in this file. *)
Require Import Coq.Lists.List Coq.ZArith.ZArith Coq.Arith.Arith Coq.Bool.Bool.
From Mustache Require Import Res.
Import ListNotations.

Record scfg := { c_before : list nat; c_after : list nat; c_group : nat; c_prio : Z }.
Definition cfg_default : scfg := {| c_before := []; c_after := []; c_group := 0; c_prio := 0 |}.

Inductive sstate := Uninit | Inited | Configured | Stopped | Active | Paused.
Inductive cb := CbCreate | CbConfigure | CbStart | CbUpdate | CbPause | CbStop | CbResume | CbDestroy.

Record sys := {
  s_name : nat;
  s_user : scfg;       (* what the system's onConfigure writes into the SystemConfig it is handed *)
  s_cfg : scfg;        (* SystemInfo::config as the manager holds it *)
  s_state : sstate
}.

Record smst := {
  infos : list sys;                 (* systems_info, insertion order *)
  ordered : list nat;               (* ordered_systems, by name *)
  was_init : bool;
  gprio : list (nat * Z);           (* group_priorities; group 0 is the empty group name *)
  slog : list (nat * cb)            (* callbacks fired, most recent first *)
}.
Definition sm_init : smst := {| infos := []; ordered := []; was_init := false; gprio := []; slog := [] |}.

Definition state_eqb (a b : sstate) : bool :=
  match a, b with
  | Uninit, Uninit | Inited, Inited | Configured, Configured | Stopped, Stopped | Active, Active | Paused, Paused => true
  | _, _ => false
  end.

Definition with_infos s v := {| infos := v; ordered := ordered s; was_init := was_init s; gprio := gprio s; slog := slog s |}.
Definition with_ordered s v := {| infos := infos s; ordered := v; was_init := was_init s; gprio := gprio s; slog := slog s |}.
Definition with_init s v := {| infos := infos s; ordered := ordered s; was_init := v; gprio := gprio s; slog := slog s |}.
Definition with_gprio s v := {| infos := infos s; ordered := ordered s; was_init := was_init s; gprio := v; slog := slog s |}.
Definition log_cb s n c := {| infos := infos s; ordered := ordered s; was_init := was_init s; gprio := gprio s; slog := (n, c) :: slog s |}.

Definition set_sys (y : sys) (c : scfg) (st : sstate) : sys :=
  {| s_name := s_name y; s_user := s_user y; s_cfg := c; s_state := st |}.

Fixpoint find_sys (l : list sys) (n : nat) : option sys :=
  match l with [] => None | y :: t => if Nat.eqb (s_name y) n then Some y else find_sys t n end.
Fixpoint upd_sys (l : list sys) (n : nat) (f : sys -> sys) : list sys :=
  match l with [] => [] | y :: t => if Nat.eqb (s_name y) n then f y :: t else y :: upd_sys t n f end.
Definition mem (n : nat) (l : list nat) : bool := existsb (Nat.eqb n) l.
Definition add_set (l : list nat) (n : nat) : list nat := if mem n l then l else l ++ [n].

(* ---- the lifecycle automaton of ASystem (system.cpp:10-96): a guard that fails throws ---- *)
Definition transition (s : smst) (n : nat) (expected : sstate) (c : cb) (next : option sstate) : res smst :=
  match find_sys (infos s) n with
  | None => Err NullDeref
  | Some y =>
    if state_eqb (s_state y) expected then
      let s1 := log_cb s n c in
      Ok (match next with
          | Some st => with_infos s1 (upd_sys (infos s1) n (fun y => set_sys y (s_cfg y) st))
          | None => s1
          end)
    else Err (Throw 10)
  end.

Definition sys_state (s : smst) (n : nat) : option sstate :=
  match find_sys (infos s) n with Some y => Some (s_state y) | None => None end.

(* configure: the system's onConfigure overwrites the config it is handed *)
Definition do_configure (s : smst) (n : nat) : res smst :=
  do s1 <- transition s n Inited CbConfigure (Some Configured);
  Ok (with_infos s1 (upd_sys (infos s1) n (fun y => set_sys y (s_user y) (s_state y)))).

(* ASystem::destroy: pause and stop first when needed *)
Definition do_destroy (s : smst) (n : nat) : res smst :=
  do s1 <- match sys_state s n with Some Active => transition s n Active CbPause (Some Paused) | _ => Ok s end;
  do s2 <- match sys_state s1 n with Some Paused => transition s1 n Paused CbStop (Some Stopped) | _ => Ok s1 end;
  match find_sys (infos s2) n with
  | None => Err NullDeref
  | Some y => Ok (with_infos (log_cb s2 n CbDestroy) (upd_sys (infos s2) n (fun y => set_sys y (s_cfg y) Uninit)))
  end.

(* ---- reorderSystems (system_manager.cpp:111-175) ---- *)
Definition group_priority (s : smst) (g : nat) : Z :=
  match find (fun p => Nat.eqb (fst p) g) (gprio s) with Some p => snd p | None => 0%Z end.

(* fold update_before into the successors' update_after *)
Definition fold_before (l : list sys) : list sys :=
  fold_left (fun acc (y : sys) =>
      fold_left (fun acc2 b => upd_sys acc2 b (fun z =>
          set_sys z {| c_before := c_before (s_cfg z); c_after := add_set (c_after (s_cfg z)) (s_name y);
                       c_group := c_group (s_cfg z); c_prio := c_prio (s_cfg z) |} (s_state z)))
        (c_before (s_cfg y)) acc) l l.

(* "a goes before b" in the priority order: higher group priority, then higher priority *)
Definition key_gt (s : smst) (a b : sys) : bool :=
  let ga := group_priority s (c_group (s_cfg a)) in
  let gb := group_priority s (c_group (s_cfg b)) in
  if Z.eqb ga gb then Z.gtb (c_prio (s_cfg a)) (c_prio (s_cfg b)) else Z.gtb ga gb.

Fixpoint insert_sorted (s : smst) (y : sys) (l : list sys) : list sys :=
  match l with
  | [] => [y]
  | z :: t => if key_gt s y z then y :: l else z :: insert_sorted s y t
  end.
(* std::sort is not stable; for pairwise distinct keys every sorting algorithm gives this result *)
Definition sort_sys (s : smst) (l : list sys) : list sys := fold_right (insert_sorted s) [] l.

Definition can_place (unplaced : list nat) (y : sys) : bool :=
  forallb (fun d => negb (mem d unplaced)) (c_after (s_cfg y)).

Fixpoint take_first (unplaced : list nat) (l : list sys) : option (sys * list sys) :=
  match l with
  | [] => None
  | y :: t => if can_place unplaced y then Some (y, t)
              else match take_first unplaced t with Some (z, r) => Some (z, y :: r) | None => None end
  end.

Definition remove_name (l : list nat) (n : nat) : list nat := filter (fun x => negb (Nat.eqb x n)) l.

Fixpoint place_all (fuel : nat) (unplaced : list nat) (l : list sys) (acc : list nat) : res (list nat) :=
  match l with
  | [] => Ok (rev acc)
  | _ =>
    match fuel with
    | O => Err OutOfFuel
    | S f =>
      match take_first unplaced l with
      | None => Err (Throw 11)                       (* "Can not reorder systems" *)
      | Some (y, rest) => place_all f (remove_name unplaced (s_name y)) rest (s_name y :: acc)
      end
    end
  end.

Definition reorder (s : smst) : res smst :=
  let folded := fold_before (infos s) in
  let s1 := with_infos s folded in
  do o <- place_all (S (length folded)) (map s_name folded) (sort_sys s1 folded) [];
  Ok (with_ordered s1 o).

(* ---- SystemManager operations ---- *)
Inductive sop :=
| SAdd (n : nat) (user : scfg)
| SRemove (n : nat)
| SInit
| SUpdate
| SSetGroup (g : nat) (p : Z)
| STeardown
(* the user drives a system's lifecycle directly: ASystem::pause / resume / stop (system.cpp:54-84), guards as in `transition` *)
| SPause (n : nat)
| SResume (n : nat)
| SStop (n : nat).

Definition start_if_configured (s : smst) (n : nat) : res smst :=
  match sys_state s n with
  | Some Configured => transition s n Configured CbStart (Some Active)
  | _ => Ok s
  end.

Definition sm_step (s : smst) (o : sop) : res smst :=
  match o with
  | SAdd n user =>
    let y := {| s_name := n; s_user := user; s_cfg := cfg_default; s_state := Uninit |} in
    let s1 := with_infos s (infos s ++ [y]) in
    do s2 <- transition s1 n Uninit CbCreate (Some Inited);
    if was_init s2 then do s3 <- do_configure s2 n; reorder s3 else Ok s2
  | SRemove n =>
    match find_sys (infos s) n with
    | None => Ok s
    | Some _ =>
      let s1 := with_ordered (with_infos s (filter (fun y => negb (Nat.eqb (s_name y) n)) (infos s))) (remove_name (ordered s) n) in
      match reorder s1 with
      | Ok s2 => Ok s2
      | Err (Throw k) => Err (ThrowInNoexcept k)
      | Err e => Err e
      end
    end
  | SInit =>
    if was_init s then Ok s else
    let s1 := with_init s true in
    do s2 <- fold_res (fun st (y : sys) =>
               match sys_state st (s_name y) with Some Inited => do_configure st (s_name y) | _ => Ok st end) (infos s1) s1;
    do s3 <- reorder s2;
    fold_res start_if_configured (ordered s3) s3
  | SUpdate =>
    if negb (was_init s) then Ok s else
    fold_res (fun st n =>
        do st1 <- start_if_configured st n;
        match sys_state st1 n with
        | Some Active => transition st1 n Active CbUpdate None
        | _ => Ok st1
        end) (ordered s) s
  | SSetGroup g p => Ok (with_gprio s ((g, p) :: filter (fun x => negb (Nat.eqb (fst x) g)) (gprio s)))
  | STeardown => fold_res do_destroy (ordered s) s
  | SPause n => transition s n Active CbPause (Some Paused)
  | SResume n => transition s n Paused CbResume (Some Active)
  | SStop n => transition s n Paused CbStop (Some Stopped)
  end.

(* ---- the decidable order checker (used on the implementation's output when priorities tie) ---- *)
(* out is a valid result for the systems l: a permutation, constraints between present systems hold, and the system
   placed at each step has a key at least as large as every other system that was placeable at that step *)
Fixpoint check_order (s : smst) (unplaced : list nat) (l : list sys) (out : list nat) : bool :=
  match out with
  | [] => match l with [] => true | _ => false end
  | n :: rest =>
    match find_sys l n with
    | None => false
    | Some y =>
      can_place unplaced y &&
      forallb (fun z => negb (can_place unplaced z) || negb (key_gt s z y)) l &&
      check_order s (remove_name unplaced n) (filter (fun z => negb (Nat.eqb (s_name z) n)) l) rest
    end
  end.
