(* Dispatcher: the worker pool of utils/dispatch.cpp as a labelled transition system over the events the guarded
   schedule-point hook reports (C08, C06b).  One transition per mutex-protected block (queues, busy flags, the waiting
   counter, worker states), plus the unprotected reads of the barrier.  NO PROOFS in this file.

   Tasks are identified by queue and FIFO position: the k-th pop of a queue takes the k-th task submitted to it.
   Queue 0 is the parallel queue; queue k+1 is serial queue k.  Thread 0 is the (single) external thread. *)
Require Import Coq.Lists.List Coq.Arith.Arith Coq.Bool.Bool.
Import ListNotations.

Inductive wstate := WIdle | WWaiting | WRunning (q id : nat) | WExited.
Inductive hstate := HOut | HDraining (q : nat) | HRunning (q id : nat) | HBarrier (q obs : nat).

Record queue := { q_sub : nat; q_pop : nat; q_locked : bool; q_serial : bool; q_dropped : nat (* cleared at shutdown *) }.

Record dst := {
  queues : list queue;
  workers : list wstate;          (* worker k has thread id k+1 *)
  waiting : nat;                  (* threads_waiting *)
  helper : hstate;                (* the external thread inside wait() *)
  term : bool;
  finished : list (nat * nat);    (* (queue, id) *)
  joined : bool
}.

Definition d_init (nworkers nserial : nat) : dst :=
  {| queues := {| q_sub := 0; q_pop := 0; q_locked := false; q_serial := false; q_dropped := 0 |} ::
               repeat {| q_sub := 0; q_pop := 0; q_locked := false; q_serial := true; q_dropped := 0 |} nserial;
     workers := repeat WIdle nworkers; waiting := 0; helper := HOut; term := false; finished := []; joined := false |}.

Inductive event :=
| ESubmit (q : nat)                 (* 20 *)
| EWTop (t : nat)                   (* 1 *)
| EWWaitEnter (t : nat) (count : nat)   (* 2 *)
| EWWaitExit (t : nat)              (* 3 *)
| EWPop (t q : nat)                 (* 4 *)
| EWEnd (t q : nat)                 (* 5 *)
| EWExit (t : nat)                  (* 6: leaves the loop under the lock *)
| EWDone (t : nat)                  (* 7: the worker function returns *)
| EHEnter (q : nat)                 (* 9 *)
| EHEmpty (q : nat)                 (* 10 *)
| EHBusy (q : nat)                  (* 11 *)
| EHPop (q : nat)                   (* 12 *)
| EHEnd (q : nat)                   (* 13 *)
| EBarrierSpin                      (* 14, 16: an unsuccessful read *)
| EBarrierPass (q : nat)            (* 15, 17 *)
| ETerminate                        (* 21 *)
| EClear                            (* 22 *)
| EJoined.                          (* 23 *)

Fixpoint upd {A} (l : list A) (i : nat) (x : A) : list A :=
  match l, i with [], _ => [] | _ :: t, O => x :: t | h :: t, S i' => h :: upd t i' x end.

Definition set_q s v := {| queues := v; workers := workers s; waiting := waiting s; helper := helper s; term := term s; finished := finished s; joined := joined s |}.
Definition set_w s v := {| queues := queues s; workers := v; waiting := waiting s; helper := helper s; term := term s; finished := finished s; joined := joined s |}.
Definition set_wait s v := {| queues := queues s; workers := workers s; waiting := v; helper := helper s; term := term s; finished := finished s; joined := joined s |}.
Definition set_h s v := {| queues := queues s; workers := workers s; waiting := waiting s; helper := v; term := term s; finished := finished s; joined := joined s |}.
Definition set_term s := {| queues := queues s; workers := workers s; waiting := waiting s; helper := helper s; term := true; finished := finished s; joined := joined s |}.
Definition add_fin s q id := {| queues := queues s; workers := workers s; waiting := waiting s; helper := helper s; term := term s; finished := (q, id) :: finished s; joined := joined s |}.
Definition set_joined s := {| queues := queues s; workers := workers s; waiting := waiting s; helper := helper s; term := term s; finished := finished s; joined := true |}.

Definition q_nonempty (q : queue) : bool := Nat.ltb (q_pop q + q_dropped q) (q_sub q).
Definition q_runnable (q : queue) : bool := q_nonempty q && negb (q_locked q).     (* JobQueue::isOk *)

Definition pop_q (q : queue) : queue :=
  {| q_sub := q_sub q; q_pop := S (q_pop q); q_locked := q_serial q; q_serial := q_serial q; q_dropped := q_dropped q |}.
Definition end_q (q : queue) : queue :=
  {| q_sub := q_sub q; q_pop := q_pop q; q_locked := false; q_serial := q_serial q; q_dropped := q_dropped q |}.

Definition wstate_eqb (a b : wstate) : bool :=
  match a, b with
  | WIdle, WIdle | WWaiting, WWaiting | WExited, WExited => true
  | WRunning q i, WRunning q' i' => Nat.eqb q q' && Nat.eqb i i'
  | _, _ => false
  end.

Definition is_fin (s : dst) (q id : nat) : bool := existsb (fun p => Nat.eqb (fst p) q && Nat.eqb (snd p) id) (finished s).
Definition all_fin_below (s : dst) (q n : nat) : bool := forallb (fun id => is_fin s q id) (seq 0 n).

(* strict = the model of the code (the barrier passes only on waiting = number of workers / queue not busy);
   relaxed = what a recorded trace can be checked against: the unprotected read cannot be placed exactly in the
   trace, so its CONSEQUENCE is checked instead (every task submitted before the wait has finished) *)
Definition dstep (strict : bool) (s : dst) (e : event) : option dst :=
  match e with
  | ESubmit q =>
    match nth_error (queues s) q with
    | Some qu => Some (set_q s (upd (queues s) q {| q_sub := S (q_sub qu); q_pop := q_pop qu; q_locked := q_locked qu; q_serial := q_serial qu; q_dropped := q_dropped qu |}))
    | None => None
    end
  | EWTop t =>
    match nth_error (workers s) (pred t) with
    | Some WIdle => if Nat.eqb t 0 then None else Some s
    | _ => None
    end
  | EWWaitEnter t count =>
    match nth_error (workers s) (pred t) with
    | Some WIdle =>
      if negb (Nat.eqb t 0) && negb (existsb q_runnable (queues s)) && Nat.eqb count (S (waiting s))
      then Some (set_wait (set_w s (upd (workers s) (pred t) WWaiting)) (S (waiting s))) else None
    | _ => None
    end
  | EWWaitExit t =>
    match nth_error (workers s) (pred t) with
    | Some WWaiting => Some (set_wait (set_w s (upd (workers s) (pred t) WIdle)) (pred (waiting s)))
    | _ => None
    end
  | EWPop t q =>
    match nth_error (workers s) (pred t), nth_error (queues s) q with
    | Some WIdle, Some qu =>
      if negb (Nat.eqb t 0) && q_runnable qu
      then Some (set_q (set_w s (upd (workers s) (pred t) (WRunning q (q_pop qu)))) (upd (queues s) q (pop_q qu))) else None
    | _, _ => None
    end
  | EWEnd t q =>
    match nth_error (workers s) (pred t), nth_error (queues s) q with
    | Some (WRunning q' id), Some qu =>
      if Nat.eqb q q' then Some (add_fin (set_q (set_w s (upd (workers s) (pred t) WIdle)) (upd (queues s) q (end_q qu))) q id) else None
    | _, _ => None
    end
  | EWExit t =>
    match nth_error (workers s) (pred t) with
    | Some WIdle => if term s then Some (set_w s (upd (workers s) (pred t) WExited)) else None
    | _ => None
    end
  | EWDone t =>
    match nth_error (workers s) (pred t) with
    | Some WIdle | Some WExited => if term s && negb (Nat.eqb t 0) then Some (set_w s (upd (workers s) (pred t) WExited)) else None
    | _ => None
    end
  | EHEnter q =>
    match helper s, nth_error (queues s) q with
    | HOut, Some _ => Some (set_h s (HDraining q))
    | _, _ => None
    end
  | EHEmpty q =>
    match helper s, nth_error (queues s) q with
    | HDraining q', Some qu => if Nat.eqb q q' && negb (q_nonempty qu) then Some (set_h s (HBarrier q (q_sub qu - q_dropped qu))) else None
    | _, _ => None
    end
  | EHBusy q =>
    match helper s, nth_error (queues s) q with
    | HDraining q', Some qu => if Nat.eqb q q' && q_locked qu then Some s else None
    | _, _ => None
    end
  | EHPop q =>
    match helper s, nth_error (queues s) q with
    | HDraining q', Some qu =>
      if Nat.eqb q q' && q_runnable qu then Some (set_q (set_h s (HRunning q (q_pop qu))) (upd (queues s) q (pop_q qu))) else None
    | _, _ => None
    end
  | EHEnd q =>
    match helper s, nth_error (queues s) q with
    | HRunning q' id, Some qu => if Nat.eqb q q' then Some (add_fin (set_q (set_h s (HDraining q)) (upd (queues s) q (end_q qu))) q id) else None
    | _, _ => None
    end
  | EBarrierSpin => match helper s with HBarrier _ _ => Some s | _ => None end
  | EBarrierPass q =>
    match helper s, nth_error (queues s) q with
    | HBarrier q' obs, Some qu =>
      if negb (Nat.eqb q q') then None else
      if strict then
        (if q_serial qu then (if q_locked qu then None else Some (set_h s HOut))
         else (if Nat.eqb (waiting s) (length (workers s)) then Some (set_h s HOut) else None))
      else (if all_fin_below s q obs then Some (set_h s HOut) else None)
    | HDraining q', Some qu =>
      (* wait() leaves its loop without an emptiness observation when terminate is already set *)
      if Nat.eqb q q' && term s && negb strict then Some (set_h s HOut) else None
    | _, _ => None
    end
  | ETerminate => Some (set_term s)
  | EClear =>
    match nth_error (queues s) 0 with
    | Some qu => Some (set_q s (upd (queues s) 0 {| q_sub := q_sub qu; q_pop := q_pop qu; q_locked := q_locked qu; q_serial := q_serial qu;
                                                   q_dropped := q_sub qu - q_pop qu |}))
    | None => None
    end
  | EJoined => if forallb (fun w => wstate_eqb w WExited) (workers s) then Some (set_joined s) else None
  end.

Fixpoint drun (strict : bool) (s : dst) (tr : list event) : option dst :=
  match tr with
  | [] => Some s
  | e :: t => match dstep strict s e with Some s' => drun strict s' t | None => None end
  end.

(* index of the first event a trace is rejected at (for diagnostics) *)
Fixpoint first_reject (strict : bool) (s : dst) (tr : list event) (i : nat) : option nat :=
  match tr with
  | [] => None
  | e :: t => match dstep strict s e with Some s' => first_reject strict s' t (S i) | None => Some i end
  end.

(* parallelFor's index split (dispatch.hpp:68-89): task k gets [begin_k, begin_k + size_k) *)
Definition pf_tasks (size threads task_count : nat) : nat :=
  match task_count with O => if Nat.ltb size threads then size else threads | t => t end.
Fixpoint pf_ranges (ept extra : nat) (k todo start : nat) : list (nat * nat) :=
  match todo with
  | O => []
  | S todo' => let sz := if Nat.ltb k extra then S ept else ept in (start, sz) :: pf_ranges ept extra (S k) todo' (start + sz)
  end.
Definition parallel_for_ranges (first last threads task_count : nat) : list (nat * nat) :=
  let size := last - first in
  match size with
  | O => []
  | _ => let tc := pf_tasks size threads task_count in
         match tc with O => [] | _ => pf_ranges (size / tc) (size - tc * (size / tc)) 0 tc first end
  end.
