(* Skeleton: the membership skeleton of EntityManager (C01, parts of C09).
   Mirrors, on the current tree:
     createWithOutInit        entity_manager.hpp:677-696
     releaseEntityIdUnsafe    entity_manager.hpp:504-512
     createLocked             entity_manager.hpp:521-534
     isEntityValid            entity_manager.hpp:648-655
     destroy / destroyNow     entity_manager.hpp:721-755
     clearArchetype / update  entity_manager.cpp:91-116
     onLock/onUnlock/applyStorage/applyCommandPack  entity_manager.cpp:258-355, 400-430
     Archetype::insert/remove/internalMove (entity list part)  archetype.cpp:179-297
   Component data, shared components and dependencies are not in this model.
   NO PROOFS in this file. *)
Require Import Coq.Lists.List Coq.NArith.NArith Coq.Arith.Arith Coq.Bool.Bool.
From Mustache Require Import Res.
Import ListNotations.
Local Open Scope N_scope.

Definition VER_MOD : N := 16777216.        (* 2^24 *)
Definition NULL_ID : N := 1073741823.      (* 2^30 - 1 *)
Definition NULL_VER : N := 16777215.       (* 2^24 - 1 *)

Definition handle := (N * N)%type.          (* (id, version); the world id is fixed per manager *)
Record slot := { s_id : N; s_ver : N }.     (* id and version fields of entities_[i] *)
Record loc := { l_arch : option nat; l_idx : nat }.
Inductive cmd := CCreate (h : handle) (key : N) | CDestroy (h : handle) | CDestroyNow (h : handle).
Record arch := { a_key : N; a_ents : list handle }.

Record st := {
  slots : list slot;
  locs : list loc;
  next_slot : N;
  empty_slots : nat;
  archs : list arch;
  lockc : nat;
  next_eid : N;
  bufs : list (list cmd);
  marked : list handle;      (* std::set<Entity>: sorted by packed value, no duplicates *)
  nthreads : nat             (* Dispatcher::maxThreadCount(): number of command buffers *)
}.

Definition null_slot : slot := {| s_id := NULL_ID; s_ver := NULL_VER |}.
Definition default_loc : loc := {| l_arch := None; l_idx := 0 |}.

Definition init (nthr : nat) : st :=
  {| slots := []; locs := []; next_slot := 0; empty_slots := 0; archs := []; lockc := 0;
     next_eid := 0; bufs := []; marked := []; nthreads := nthr |}.

Definition handle_eqb (a b : handle) : bool := (fst a =? fst b) && (snd a =? snd b).
Definition is_null (h : handle) : bool := (fst h =? NULL_ID) && (snd h =? NULL_VER).

Definition is_valid (s : st) (h : handle) : bool :=
  if is_null h then false else
  match nth_error (slots s) (N.to_nat (fst h)) with
  | Some sl => s_ver sl =? snd h
  | None => false
  end.

(* setters *)
Definition set_slots s v := {| slots := v; locs := locs s; next_slot := next_slot s; empty_slots := empty_slots s; archs := archs s; lockc := lockc s; next_eid := next_eid s; bufs := bufs s; marked := marked s; nthreads := nthreads s |}.
Definition set_locs s v := {| slots := slots s; locs := v; next_slot := next_slot s; empty_slots := empty_slots s; archs := archs s; lockc := lockc s; next_eid := next_eid s; bufs := bufs s; marked := marked s; nthreads := nthreads s |}.
Definition set_free s ns es := {| slots := slots s; locs := locs s; next_slot := ns; empty_slots := es; archs := archs s; lockc := lockc s; next_eid := next_eid s; bufs := bufs s; marked := marked s; nthreads := nthreads s |}.
Definition set_archs s v := {| slots := slots s; locs := locs s; next_slot := next_slot s; empty_slots := empty_slots s; archs := v; lockc := lockc s; next_eid := next_eid s; bufs := bufs s; marked := marked s; nthreads := nthreads s |}.
Definition set_lock s v := {| slots := slots s; locs := locs s; next_slot := next_slot s; empty_slots := empty_slots s; archs := archs s; lockc := v; next_eid := next_eid s; bufs := bufs s; marked := marked s; nthreads := nthreads s |}.
Definition set_eid s v := {| slots := slots s; locs := locs s; next_slot := next_slot s; empty_slots := empty_slots s; archs := archs s; lockc := lockc s; next_eid := v; bufs := bufs s; marked := marked s; nthreads := nthreads s |}.
Definition set_bufs s v := {| slots := slots s; locs := locs s; next_slot := next_slot s; empty_slots := empty_slots s; archs := archs s; lockc := lockc s; next_eid := next_eid s; bufs := v; marked := marked s; nthreads := nthreads s |}.
Definition set_marked s v := {| slots := slots s; locs := locs s; next_slot := next_slot s; empty_slots := empty_slots s; archs := archs s; lockc := lockc s; next_eid := next_eid s; bufs := bufs s; marked := v; nthreads := nthreads s |}.

(* ---- archetype lookup (getArchetype without dependencies / shared) ---- *)
Fixpoint find_arch (l : list arch) (key : N) (i : nat) : option nat :=
  match l with
  | [] => None
  | a :: t => if a_key a =? key then Some i else find_arch t key (S i)
  end.

Definition get_arch (s : st) (key : N) : st * nat :=
  match find_arch (archs s) key 0 with
  | Some i => (s, i)
  | None => (set_archs s (archs s ++ [{| a_key := key; a_ents := [] |}]), length (archs s))
  end.

Definition update_location (s : st) (h : handle) (l : loc) : res st :=
  do ls <- upd_res (locs s) (N.to_nat (fst h)) l; Ok (set_locs s ls).

(* Archetype::insert (entity list part) + updateLocation *)
Definition arch_insert (s : st) (ai : nat) (h : handle) : res st :=
  do a <- nth_res (archs s) ai;
  let idx := length (a_ents a) in
  let s1 := set_archs s (upd (archs s) ai {| a_key := a_key a; a_ents := a_ents a ++ [h] |}) in
  update_location s1 h {| l_arch := Some ai; l_idx := idx |}.

(* Archetype::remove: swap-remove, fixing both locations *)
Definition arch_remove (s : st) (ai : nat) (idx : nat) (h : handle) : res st :=
  do a <- nth_res (archs s) ai;
  match length (a_ents a) with
  | O => Err Underflow
  | S last =>
    if Nat.eqb idx last then
      let s1 := set_archs s (upd (archs s) ai {| a_key := a_key a; a_ents := removelast (a_ents a) |}) in
      update_location s1 h default_loc
    else
      do src <- nth_res (a_ents a) last;
      do dst <- nth_res (a_ents a) idx;
      do s1 <- update_location s dst default_loc;
      do s2 <- update_location s1 src {| l_arch := Some ai; l_idx := idx |};
      Ok (set_archs s2 (upd (archs s2) ai {| a_key := a_key a; a_ents := removelast (upd (a_ents a) idx src) |}))
  end.

(* createWithOutInit, unlocked branch *)
Definition create_id (s : st) : res (st * handle) :=
  match empty_slots s with
  | O =>
    let id := N.of_nat (length (slots s)) in
    Ok (set_locs (set_slots s (slots s ++ [{| s_id := id; s_ver := 0 |}])) (locs s ++ [default_loc]), (id, 0))
  | S e =>
    let id := next_slot s in
    do sl <- nth_res (slots s) (N.to_nat id);
    let h := (id, s_ver sl) in
    let s1 := set_free s (s_id sl) e in
    let s2 := set_slots s1 (upd (slots s1) (N.to_nat id) {| s_id := id; s_ver := s_ver sl |}) in
    do ls <- upd_res (locs s2) (N.to_nat id) default_loc;
    Ok (set_locs s2 ls, h)
  end.

(* releaseEntityIdUnsafe *)
Definition release_id (s : st) (h : handle) : st :=
  let id := fst h in
  let i := N.to_nat id in
  let sl0 := if Nat.ltb i (length (slots s)) then slots s else resize (slots s) (S i) null_slot in
  let nxt := match empty_slots s with O => id + 1 | S _ => next_slot s end in
  let s1 := set_slots s (upd sl0 i {| s_id := nxt; s_ver := (snd h + 1) mod VER_MOD |}) in
  set_free s1 id (S (empty_slots s)).

(* destroyNow, unlocked branch (safe variant) *)
Definition destroy_now_unlocked (s : st) (h : handle) : res st :=
  if is_valid s h then
    do l <- nth_res (locs s) (N.to_nat (fst h));
    do s1 <- match l_arch l with
             | Some ai => arch_remove s ai (l_idx l) h
             | None => Ok s
             end;
    Ok (release_id s1 h)
  else Ok s.

(* std::set<Entity>::insert -- order of the packed value: version is the most significant field *)
Definition handle_ltb (a b : handle) : bool :=
  (snd a <? snd b) || ((snd a =? snd b) && (fst a <? fst b)).
Fixpoint set_insert (l : list handle) (h : handle) : list handle :=
  match l with
  | [] => [h]
  | x :: t => if handle_eqb x h then l else if handle_ltb h x then h :: l else x :: set_insert t h
  end.

(* clearArchetype *)
Definition clear_one (s : st) (h : handle) : res st :=
  let i := N.to_nat (fst h) in
  do l <- nth_res (locs s) i;
  do ls <- upd_res (locs s) i {| l_arch := None; l_idx := l_idx l |};
  let s1 := set_locs s ls in
  let nxt := match empty_slots s1 with O => fst h + 1 | S _ => next_slot s1 end in
  do sl <- upd_res (slots s1) i {| s_id := nxt; s_ver := (snd h + 1) mod VER_MOD |};
  Ok (set_free (set_slots s1 sl) (fst h) (S (empty_slots s1))).

Definition clear_arch (s : st) (ai : nat) : res st :=
  do a <- nth_res (archs s) ai;
  do s1 <- fold_res clear_one (a_ents a) s;
  Ok (set_archs s1 (upd (archs s1) ai {| a_key := a_key a; a_ents := [] |})).

(* ---- command buffers ---- *)
Definition cmd_handle (c : cmd) : handle :=
  match c with CCreate h _ => h | CDestroy h => h | CDestroyNow h => h end.

Definition push_cmd (s : st) (tid : nat) (c : cmd) : res st :=
  do b <- nth_res (bufs s) tid;
  Ok (set_bufs s (upd (bufs s) tid (b ++ [c]))).

(* createLocked *)
Definition create_locked (s : st) (tid : nat) (key : N) : res (st * handle) :=
  let id := next_eid s in
  let ver := match nth_error (slots s) (N.to_nat id) with
             | Some sl => (s_ver sl + 1) mod VER_MOD
             | None => 0
             end in
  let h := (id, ver) in
  do s1 <- push_cmd (set_eid s (id + 1)) tid (CCreate h key);
  Ok (s1, h).

(* the body loop of applyCommandPack over the commands after the first (create pack) or all (other pack);
   returns (state, finished_by_destroy_now) *)
Fixpoint pack_loop (create : bool) (h : handle) (cs : list cmd) (s : st) : res (st * bool) :=
  match cs with
  | [] => Ok (s, false)
  | c :: t =>
    match c with
    | CDestroyNow _ =>
      if create then Ok (release_id s h, true)
      else do s1 <- destroy_now_unlocked s h; Ok (s1, true)
    | CCreate _ _ => Err (Throw 1)
    | CDestroy h' => pack_loop create h t (set_marked s (set_insert (marked s) h'))
    end
  end.

(* applyCommandPack *)
Definition apply_pack (s : st) (p : list cmd) : res st :=
  match p with
  | [] => Ok s
  | CCreate h key :: t =>
    let i := N.to_nat (fst h) in
    let s1 := if Nat.ltb i (length (slots s)) then s
              else set_locs (set_slots s (resize (slots s) (S i) null_slot)) (resize (locs s) (S i) default_loc) in
    do sl <- upd_res (slots s1) i {| s_id := fst h; s_ver := snd h |};
    let s2 := set_slots s1 sl in
    do r <- pack_loop true h t s2;
    let '(s3, fin) := r in
    if fin then Ok s3 else
    let '(s4, ai) := get_arch s3 key in
    arch_insert s4 ai h
  | c :: _ =>
    let h := cmd_handle c in
    if is_valid s h then
      do r <- pack_loop false h p s; Ok (fst r)
    else Ok s
  end.

(* applyStorage: maximal runs of commands on the same entity *)
Fixpoint split_packs (cs : list cmd) (cur : list cmd) : list (list cmd) :=
  match cs with
  | [] => match cur with [] => [] | _ => [rev cur] end
  | c :: t =>
    match cur with
    | [] => split_packs t [c]
    | c0 :: _ => if handle_eqb (cmd_handle c0) (cmd_handle c) then split_packs t (c :: cur)
                 else rev cur :: split_packs t [c]
    end
  end.

Definition apply_storage (s : st) (b : list cmd) : res st :=
  fold_res apply_pack (split_packs b []) s.

Definition flush (s : st) : res st :=
  do s1 <- fold_res apply_storage (bufs s) s;
  Ok (set_bufs s1 (map (fun _ => []) (bufs s1))).

(* ---- operations ---- *)
Inductive op :=
| Create (tid : nat) (key : N)
| Destroy (tid : nat) (h : handle)
| DestroyNow (tid : nat) (h : handle)
| ClearArch (key : N)
| Update
| Lock
| Unlock.

Definition step (s : st) (o : op) : res (st * option handle) :=
  match o with
  | Create tid key =>
    match lockc s with
    | O =>
      let '(s1, ai) := get_arch s key in
      do r <- create_id s1;
      let '(s2, h) := r in
      do s3 <- arch_insert s2 ai h;
      Ok (s3, Some h)
    | S _ => do r <- create_locked s tid key; Ok (fst r, Some (snd r))
    end
  | Destroy tid h =>
    match lockc s with
    | O => Ok (set_marked s (set_insert (marked s) h), None)
    | S _ => do s1 <- push_cmd s tid (CDestroy h); Ok (s1, None)
    end
  | DestroyNow tid h =>
    match lockc s with
    | O => do s1 <- destroy_now_unlocked s h; Ok (s1, None)
    | S _ => do s1 <- push_cmd s tid (CDestroyNow h); Ok (s1, None)
    end
  | ClearArch key =>
    let '(s1, ai) := get_arch s key in
    do s2 <- clear_arch s1 ai; Ok (s2, None)
  | Update =>
    match lockc s with
    | O => do s1 <- fold_res destroy_now_unlocked (marked s) s; Ok (set_marked s1 [], None)
    | S _ => Err (Throw 2)
    end
  | Lock =>
    match lockc s with
    | O => Ok (set_eid (set_bufs (set_lock s 1) (resize (bufs s) (nthreads s) []))
                       (N.of_nat (length (slots s))), None)
    | S n => Ok (set_lock s (S (S n)), None)
    end
  | Unlock =>
    let s1 := set_lock s (pred (lockc s)) in
    match lockc s1 with
    | O => do s2 <- flush s1; Ok (s2, None)
    | S _ => Ok (s1, None)
    end
  end.

(* run a whole history, collecting the handles returned by creations *)
Fixpoint run (s : st) (ops : list op) : res (st * list handle) :=
  match ops with
  | [] => Ok (s, [])
  | o :: t =>
    do r <- step s o;
    let '(s1, oh) := r in
    do r2 <- run s1 t;
    let '(s2, hs) := r2 in
    Ok (s2, match oh with Some h => h :: hs | None => hs end)
  end.

(* free-list walk of length n starting at h (tier B prints it; the invariant is about it) *)
Fixpoint walk (n : nat) (h : N) (sl : list slot) : list N :=
  match n with
  | O => []
  | S n' => h :: walk n' (match nth_error sl (N.to_nat h) with Some x => s_id x | None => 0 end) sl
  end.

(* ---- script-level run: handles are named by issue number, as in the driver scripts ---- *)
Definition null_handle : handle := (NULL_ID, NULL_VER).
Definition resolve (issued : list handle) (k : nat) : handle := nth k issued null_handle.
