(* Events: EventManager (event_manager.hpp / .cpp). NO PROOFS in this file.
   Process-global: type name -> event id, in order of first registration (event_manager.cpp).
   Per manager: a table of slots indexed by event id (subscriptions_), each slot a list of receivers in
   subscription order.  registerEventType<T>() grows the table to id+1 when it is shorter and creates the slot
   when it is empty (event_manager.hpp:65-75); subscribe_/unsubscribe/post register first (96-112). *)
Require Import Coq.Lists.List Coq.Arith.Arith Coq.Bool.Bool.
Import ListNotations.

Definition recv := nat.
Record manager := { slots : list (option (list recv)); m_alive : bool }.
Record est := {
  type_ids : list nat;            (* type_map: event type (by palette number) in order of id *)
  mgrs : list manager
}.
Definition e_init : est := {| type_ids := []; mgrs := [] |}.

Fixpoint index_of (l : list nat) (x : nat) (i : nat) : option nat :=
  match l with [] => None | y :: t => if Nat.eqb x y then Some i else index_of t x (S i) end.

(* static EventId registerEventType(name) *)
Definition type_id (s : est) (ty : nat) : est * nat :=
  match index_of (type_ids s) ty 0 with
  | Some i => (s, i)
  | None => ({| type_ids := type_ids s ++ [ty]; mgrs := mgrs s |}, length (type_ids s))
  end.

Fixpoint upd {A} (l : list A) (i : nat) (x : A) : list A :=
  match l, i with [], _ => [] | _ :: t, O => x :: t | h :: t, S i' => h :: upd t i' x end.

(* registerEventType<T>() on one manager: grow-only resize, then create the slot if empty *)
Definition ensure_slot (sl : list (option (list recv))) (id : nat) : list (option (list recv)) :=
  let sl1 := if Nat.ltb id (length sl) then sl else sl ++ repeat None (S id - length sl) in
  match nth id sl1 None with
  | Some _ => sl1
  | None => upd sl1 id (Some [])
  end.

Definition slot_of (sl : list (option (list recv))) (id : nat) : list recv :=
  match nth id sl None with Some l => l | None => [] end.

Fixpoint remove_first (l : list recv) (r : recv) : list recv :=
  match l with [] => [] | x :: t => if Nat.eqb x r then t else x :: remove_first t r end.

Inductive eop :=
| ENewMgr
| EDelMgr (m : nat)
| ESub (m ty : nat) (r : recv)        (* subscribe receiver r (fresh) to type ty on manager m *)
| EUnsub (m ty : nat) (r : recv)      (* Receiver::unsubscribe(): m is the manager r was subscribed to *)
| EPost (m ty : nat).

Definition with_mgr (s : est) (m : nat) (f : manager -> manager) : est :=
  match nth_error (mgrs s) m with
  | Some mg => {| type_ids := type_ids s; mgrs := upd (mgrs s) m (f mg) |}
  | None => s
  end.

(* returns the new state and, for EPost, the receivers invoked, in order *)
Definition e_step (s : est) (o : eop) : est * list recv :=
  match o with
  | ENewMgr => ({| type_ids := type_ids s; mgrs := mgrs s ++ [{| slots := []; m_alive := true |}] |}, [])
  | EDelMgr m => (with_mgr s m (fun mg => {| slots := []; m_alive := false |}), [])
  | ESub m ty r =>
    let '(s1, id) := type_id s ty in
    (with_mgr s1 m (fun mg => let sl := ensure_slot (slots mg) id in
                              {| slots := upd sl id (Some (slot_of sl id ++ [r])); m_alive := m_alive mg |}), [])
  | EUnsub m ty r =>
    match nth_error (mgrs s) m with
    | Some mg =>
      if m_alive mg then
        let '(s1, id) := type_id s ty in
        (with_mgr s1 m (fun mg => let sl := ensure_slot (slots mg) id in
                                  {| slots := upd sl id (Some (remove_first (slot_of sl id) r)); m_alive := m_alive mg |}), [])
      else (s, [])                                   (* the weak pointer has expired: nothing to do *)
    | None => (s, [])
    end
  | EPost m ty =>
    let '(s1, id) := type_id s ty in
    let s2 := with_mgr s1 m (fun mg => {| slots := ensure_slot (slots mg) id; m_alive := m_alive mg |}) in
    (s2, match nth_error (mgrs s2) m with Some mg => slot_of (slots mg) id | None => [] end)
  end.

(* ---- the specification: who is subscribed to (manager, type), in subscription order ---- *)
Definition subs := list (nat * nat * list recv).
Fixpoint sget (sp : subs) (m ty : nat) : list recv :=
  match sp with
  | [] => []
  | (m', ty', l) :: t => if Nat.eqb m m' && Nat.eqb ty ty' then l else sget t m ty
  end.
Fixpoint sset (sp : subs) (m ty : nat) (l : list recv) : subs :=
  match sp with
  | [] => [(m, ty, l)]
  | (m', ty', l') :: t => if Nat.eqb m m' && Nat.eqb ty ty' then (m', ty', l) :: t else (m', ty', l') :: sset t m ty l
  end.
Definition sp_step (sp : subs) (alive : nat -> bool) (o : eop) : subs * list recv :=
  match o with
  | ENewMgr => (sp, [])
  | EDelMgr m => (filter (fun x => negb (Nat.eqb (fst (fst x)) m)) sp, [])
  | ESub m ty r => (sset sp m ty (sget sp m ty ++ [r]), [])
  | EUnsub m ty r => if alive m then (sset sp m ty (remove_first (sget sp m ty) r), []) else (sp, [])
  | EPost m ty => (sp, sget sp m ty)
  end.

(* the pinned (defective) registration, kept to state what went wrong: resize to exactly id+1 *)
Definition ensure_slot_pinned (sl : list (option (list recv))) (id : nat) : list (option (list recv)) :=
  match nth id sl None with
  | Some _ => sl
  | None => upd (firstn (S id) sl ++ repeat None (S id - length sl)) id (Some [])
  end.
