(* C03 -- every component instance is constructed once and destroyed once.
   Function-level theorems about the lifecycle event log of Manager.v (tied to the code by the tier-B correspondence
   of ./check C03), each for ALL states and inputs.  Proofs: proofs/LifecycleProofs.v.
   The log is reversed (emit conses): `log s' = rev evs ++ log s` says that evs are the new events in time order.
   Event lists used below (all defined in proofs/LifecycleProofs.v; `comps` is always `mitems mask`, duplicate-free):
     dtor_events cis ai slot comps   one EvD at (ai, c, slot) per c in comps whose type has ci_destroy && ci_ev
     ma_events cis ai src dst comps  one EvMA (ai,c,dst) <- (ai,c,src) per c whose type has ci_move && ci_ev
     br_events cis ai idx ent rm comps   one EvBR at (ai,c,idx) with handle ent per c in rm whose type has ci_br
     cd_events inf ai c slot h       construct_default: at most one EvC (ci_create && ci_ev), then at most one EvAA
     move_events ...                 per destination component: EvMC from the source cell, or cd_events, or nothing
     vacate_events cis ai idx last m dtor_events at idx if idx = last, else ma_events last -> idx ++ dtor_events at last
     clear_events cis ai a           per such component, EvD at slots 0 .. am_size a - 1 (nothing if a has no members)
     tmp_dtor_events cis k b         one EvD at PTmp k n per `AAssign _ cid n` of b whose type has ci_destroy && ci_ev *)
Require Import Coq.Lists.List Coq.NArith.NArith Coq.ZArith.ZArith Coq.Bool.Bool.
From Mustache Require Import Res Manager Palette.
From Mustache.proofs Require Import LifecycleProofs.
Import ListNotations.

(* ================================================================================================ *)
(* 1. temporaries parked in command buffers                                                          *)

(* (1a) recording an assign while locked appends exactly one temporary -- number `length tl` of buffer tid -- and the
   command naming it; one EvC at that temporary iff the constructor is not skipped and the type has a logging create *)
Theorem C03_assign_locked_creates_one_temporary : forall s tid h c sk s' n,
  assign_locked s tid h c sk = Ok (s', n) ->
  exists inf tl b,
    nth_error (cinfos s) c = Some inf /\ nth_error (tmps s) tid = Some tl /\ nth_error (bufs s) tid = Some b /\
    n = length tl /\
    tmps s' = upd (tmps s) tid (tl ++ [tmp_value inf sk]) /\
    bufs s' = upd (bufs s) tid (b ++ [AAssign h c n]) /\
    log s' = assign_ctor_events inf sk (PTmp (epoch s * 64 + tid) n) ++ log s /\
    cinfos s' = cinfos s /\ epoch s' = epoch s /\ archs s' = archs s.
Proof. exact assign_locked_spec. Qed.
Print Assumptions C03_assign_locked_creates_one_temporary.

(* (1b) applyCommandPack: the primary place of every event it emits is an archetype cell (temporaries occur only as
   the source of a move construction); it leaves buffers, temporaries, epoch and component table alone.
   In particular it never constructs or destroys a temporary. *)
Theorem C03_apply_pack_events_at_archetype_cells : forall tid s p s',
  apply_pack tid s p = Ok s' ->
  cinfos s' = cinfos s /\ epoch s' = epoch s /\ bufs s' = bufs s /\ tmps s' = tmps s /\
  exists evs, log s' = evs ++ log s /\ Forall arch_ev evs.
Proof. exact apply_pack_emits. Qed.
Print Assumptions C03_apply_pack_events_at_archetype_cells.

Theorem C03_apply_pack_no_temporary_lifecycle : forall tid s p s',
  apply_pack tid s p = Ok s' ->
  exists evs, log s' = evs ++ log s /\
    forall pal k n, ~ In (EvD pal (PTmp k n)) evs /\ ~ In (EvC pal (PTmp k n)) evs /\ ~ In (EvV pal (PTmp k n)) evs.
Proof. exact apply_pack_no_tmp_lifecycle. Qed.
Print Assumptions C03_apply_pack_no_temporary_lifecycle.

(* (1c) applyStorage of buffer b of thread tid: pack events pk (archetype cells only), then the destructor pass over
   the WHOLE buffer in buffer order -- applied pack or skipped pack (dead target) makes no difference *)
Theorem C03_apply_storage_destroys_buffer_temporaries : forall s tid b s',
  apply_storage s (tid, b) = Ok s' ->
  cinfos s' = cinfos s /\ epoch s' = epoch s /\ bufs s' = bufs s /\ tmps s' = tmps s /\
  exists pk, Forall arch_ev pk /\
    log s' = rev (tmp_dtor_events (cinfos s) (epoch s * 64 + tid) b) ++ pk ++ log s.
Proof. exact apply_storage_spec. Qed.
Print Assumptions C03_apply_storage_destroys_buffer_temporaries.

(* (1d, 2) flush: buffers and temporaries emptied, epoch advanced; its destructor events at temporaries are exactly
   the final passes, buffer after buffer *)
Theorem C03_flush_empties_buffers_and_advances_epoch : forall s s',
  flush s = Ok s' ->
  bufs s' = map (fun _ => []) (bufs s) /\ tmps s' = map (fun _ => []) (tmps s) /\
  epoch s' = S (epoch s) /\ cinfos s' = cinfos s /\
  exists evs, log s' = rev evs ++ log s /\
    filter is_tmp_dtor evs = flush_tmp_dtors (cinfos s) (epoch s) (combine (seq 0 (length (bufs s))) (bufs s)).
Proof. exact flush_spec. Qed.
Print Assumptions C03_flush_empties_buffers_and_advances_epoch.

(* (1e) CONCLUSION: a temporary parked in buffer tid is destroyed exactly once by the flush (if its type has a logging
   destroy function; never otherwise), whatever became of the entity it was recorded for *)
Theorem C03_flush_destroys_each_temporary_once : forall s s' tid b h cid n inf,
  tmps_wf s -> flush s = Ok s' ->
  nth_error (bufs s) tid = Some b -> In (AAssign h cid n) b -> nth_error (cinfos s) cid = Some inf ->
  exists evs, log s' = rev evs ++ log s /\
    filter (is_dtor_at (PTmp (epoch s * 64 + tid) n)) evs =
    if ci_destroy inf && ci_ev inf then [EvD (ci_pal inf) (PTmp (epoch s * 64 + tid) n)] else [].
Proof. exact flush_destroys_temporary_once_wf. Qed.
Print Assumptions C03_flush_destroys_each_temporary_once.

(* the numbering invariant tmps_wf (the assign commands of a buffer name temporaries 0,1,2,... of that buffer, one
   each) holds initially and is kept by every primitive that touches buffers: recording, lock, flush *)
Theorem C03_buffer_numbering_invariant :
  (forall n cis, tmps_wf (init n cis)) /\
  (forall s tid h c sk s' n, tmps_wf s -> assign_locked s tid h c sk = Ok (s', n) -> tmps_wf s') /\
  (forall s tid c s', (match c with AAssign _ _ _ => False | _ => True end) -> tmps_wf s -> push_cmd s tid c = Ok s' -> tmps_wf s') /\
  (forall s tid n v s', tmps_wf s -> write_tmp s tid n v = Ok s' -> tmps_wf s') /\
  (forall s, tmps_wf s -> tmps_wf (do_lock s)) /\
  (forall s s', tmps_wf s -> flush s = Ok s' -> tmps_wf s').
Proof.
  exact (conj tmps_wf_init (conj tmps_wf_assign_locked (conj tmps_wf_push_cmd (conj tmps_wf_write_tmp
         (conj tmps_wf_do_lock tmps_wf_flush))))).
Qed.
Print Assumptions C03_buffer_numbering_invariant.

(* (2) with at most 64 threads, places of temporaries of different lock periods (epochs) never coincide;
   within one period, different buffers never share a place *)
Theorem C03_temporary_places_of_different_epochs_differ : forall ep ep' tid tid' n n',
  tid < 64 -> tid' < 64 -> ep <> ep' -> PTmp (ep * 64 + tid) n <> PTmp (ep' * 64 + tid') n'.
Proof. exact tmp_places_distinct. Qed.
Print Assumptions C03_temporary_places_of_different_epochs_differ.

Theorem C03_temporary_places_of_different_buffers_differ : forall ep tid tid' n n',
  tid <> tid' -> PTmp (ep * 64 + tid) n <> PTmp (ep * 64 + tid') n'.
Proof. exact tmp_places_distinct_tid. Qed.
Print Assumptions C03_temporary_places_of_different_buffers_differ.

(* ================================================================================================ *)
(* 3. destruction of occupied slots                                                                 *)

Theorem C03_call_destructor_events : forall s ai slot s',
  call_destructor s ai slot = Ok s' ->
  exists a, nth_error (archs s) ai = Some a /\
    log s' = rev (dtor_events (cinfos s) ai slot (mitems (am_mask a))) ++ log s.
Proof. exact call_destructor_events. Qed.
Print Assumptions C03_call_destructor_events.

(* what dtor_events contains: exactly one EvD per component with a logging destroy function, and nothing else *)
Theorem C03_slot_destroyed_once_per_component : forall cis ai slot comps c inf,
  NoDup comps -> In c comps -> nth_error cis c = Some inf ->
  filter (is_dtor_at (PArch ai c slot)) (dtor_events cis ai slot comps) =
  if ci_destroy inf && ci_ev inf then [EvD (ci_pal inf) (PArch ai c slot)] else [].
Proof. exact dtor_events_once. Qed.
Print Assumptions C03_slot_destroyed_once_per_component.

Theorem C03_slot_destruction_emits_nothing_else : forall cis ai slot comps,
  Forall (fun e => exists pal c, e = EvD pal (PArch ai c slot) /\ In c comps) (dtor_events cis ai slot comps).
Proof. exact dtor_events_only. Qed.
Print Assumptions C03_slot_destruction_emits_nothing_else.

Theorem C03_mask_items_are_duplicate_free : forall m, NoDup (mitems m).
Proof. exact mitems_NoDup. Qed.
Print Assumptions C03_mask_items_are_duplicate_free.

(* Archetype::clear and clearArchetype *)
Theorem C03_arch_clear_events : forall s ai s',
  arch_clear s ai = Ok s' ->
  exists a, nth_error (archs s) ai = Some a /\ log s' = rev (clear_events (cinfos s) ai a) ++ log s.
Proof. exact arch_clear_events_log. Qed.
Print Assumptions C03_arch_clear_events.

Theorem C03_clear_archetype_events : forall s ai s',
  clear_archetype s ai = Ok s' ->
  exists a, nth_error (archs s) ai = Some a /\ log s' = rev (clear_events (cinfos s) ai a) ++ log s.
Proof. exact clear_archetype_events_log. Qed.
Print Assumptions C03_clear_archetype_events.

(* slots 0 .. am_size-1 of every component with a logging destroy function exactly once, nothing else *)
Theorem C03_clear_destroys_each_slot_once : forall cis ai a c i inf,
  am_ents a <> [] -> In c (mitems (am_mask a)) -> i < am_size a -> nth_error cis c = Some inf ->
  filter (is_dtor_at (PArch ai c i)) (clear_events cis ai a) =
  if ci_destroy inf && ci_ev inf then [EvD (ci_pal inf) (PArch ai c i)] else [].
Proof. exact clear_events_once. Qed.
Print Assumptions C03_clear_destroys_each_slot_once.

Theorem C03_clear_emits_nothing_else : forall cis ai a,
  Forall (fun e => exists pal c i, e = EvD pal (PArch ai c i) /\ In c (mitems (am_mask a)) /\ i < am_size a)
         (clear_events cis ai a).
Proof. exact clear_events_only. Qed.
Print Assumptions C03_clear_emits_nothing_else.

(* EntityManager::clear: each archetype cleared once, in index order, as it was before the call *)
Theorem C03_clear_all_events : forall s s',
  clear_all s = Ok s' ->
  log s' = rev (flat_map (arch_clear_events (cinfos s) (archs s)) (seq 0 (length (archs s)))) ++ log s.
Proof. exact clear_all_events_log. Qed.
Print Assumptions C03_clear_all_events.

(* ~World with possibly non-empty command buffers: archetypes cleared, then every parked temporary destroyed *)
Theorem C03_teardown_events : forall s s' r,
  step s OTeardown = Ok (s', r) ->
  log s' = rev (flush_tmp_dtors (cinfos s) (epoch s) (combine (seq 0 (length (bufs s))) (bufs s))) ++
           rev (flat_map (arch_clear_events (cinfos s) (archs s)) (seq 0 (length (archs s)))) ++ log s.
Proof. exact teardown_spec. Qed.
Print Assumptions C03_teardown_events.

(* what flush_tmp_dtors contains (shared by flush and teardown): each parked temporary exactly once *)
Theorem C03_parked_temporary_destroyed_once : forall cis ep bs tid b h cid n inf,
  nth_error bs tid = Some b -> NoDup (assign_nums b) -> In (AAssign h cid n) b -> nth_error cis cid = Some inf ->
  filter (is_dtor_at (PTmp (ep * 64 + tid) n)) (flush_tmp_dtors cis ep (combine (seq 0 (length bs)) bs)) =
  if ci_destroy inf && ci_ev inf then [EvD (ci_pal inf) (PTmp (ep * 64 + tid) n)] else [].
Proof. exact flush_tmp_dtors_once. Qed.
Print Assumptions C03_parked_temporary_destroyed_once.

(* ================================================================================================ *)
(* 4. moving an entity between archetypes                                                           *)

Theorem C03_internal_move_events : forall s ai src dst s',
  internal_move s ai src dst = Ok s' ->
  exists a, nth_error (archs s) ai = Some a /\
    log s' = rev (ma_events (cinfos s) ai src dst (mitems (am_mask a)) ++
                  dtor_events (cinfos s) ai src (mitems (am_mask a))) ++ log s.
Proof. exact internal_move_events_log. Qed.
Print Assumptions C03_internal_move_events.

(* arch_remove: beforeRemove only for components outside skip_on_remove; then the slot is vacated *)
Theorem C03_arch_remove_events : forall s ai idx h skip s',
  arch_remove s ai idx h skip = Ok s' ->
  exists a last, nth_error (archs s) ai = Some a /\ am_size a = S last /\
    log s' = rev (br_events (cinfos s) ai idx (br_ent (cinfos s) a idx h) (minter (am_mask a) (minverse skip)) (mitems (am_mask a)) ++
                  vacate_events (cinfos s) ai idx last (am_mask a)) ++ log s.
Proof. exact arch_remove_events_log. Qed.
Print Assumptions C03_arch_remove_events.

(* external_move of the entity at (prev, pidx) into the next free slot of archetype ai:
   per destination component -- present in the source: one EvMC from the source cell (iff ci_mctor && ci_ev);
   absent: construct_default unless in the skip mask; then beforeRemove for the source components that do NOT
   survive (not in the destination mask), then the source slot is vacated (swap with the last slot).
   All other archetypes are untouched. *)
Theorem C03_external_move_events : forall s ai h prev pidx skip s',
  external_move s ai h prev pidx skip = Ok s' ->
  exists a pa last pent, ai <> prev /\ nth_error (archs s) ai = Some a /\ nth_error (archs s) prev = Some pa /\
    am_size pa = S last /\ nth_error (am_ents pa) pidx = Some pent /\
    log s' = rev (move_events (cinfos s) ai (length (am_ents a)) prev pidx h skip (am_mask pa) (mitems (am_mask a)) ++
                  br_events (cinfos s) prev pidx pent (minter (am_mask pa) (minverse (am_mask a))) (mitems (am_mask pa)) ++
                  vacate_events (cinfos s) prev pidx last (am_mask pa)) ++ log s /\
    (forall i, i <> ai -> i <> prev -> nth_error (archs s') i = nth_error (archs s) i).
Proof. exact external_move_events_log. Qed.
Print Assumptions C03_external_move_events.

(* no event of an external move mentions a slot other than the new slot, the vacated slot and the last slot of the
   source archetype (the one swap-moved into the hole) *)
Theorem C03_external_move_touches_three_slots : forall cis ai idx prev pidx last h skip pm am pent,
  Forall (only_slots [(ai, idx); (prev, pidx); (prev, last)])
    (move_events cis ai idx prev pidx h skip pm (mitems am) ++
     br_events cis prev pidx pent (minter pm (minverse am)) (mitems pm) ++
     vacate_events cis prev pidx last pm).
Proof. exact external_move_events_slots. Qed.
Print Assumptions C03_external_move_touches_three_slots.

(* ================================================================================================ *)
(* Examples: the hypotheses are satisfiable on concrete states, and the event lists are what one expects.
   Components: 0 trivial, 1 instrumented (palette 2), 2 instrumented with afterAssign/beforeRemove (palette 3). *)
Ltac ex_tac := repeat (match goal with |- _ /\ _ => split; [vm_compute; reflexivity|] end); vm_compute; reflexivity.
Fixpoint run (s : mst) (ops : list op) : res mst :=
  match ops with [] => Ok s | o :: t => do r <- step s o; run (fst r) t end.
Definition get (r : res mst) : mst := match r with Ok s => s | Err _ => init 0 [] end.
Definition new_log (s s' : mst) : list event := firstn (length (log s') - length (log s)) (log s').
Definition cis3 : list cinfo := [pal_info 0 0; pal_info 2 0; pal_info 3 0].
Definition h (i : N) : handle := (i, 0%N).

(* archetype 0 = {0,1,2} with entities 0,1,2; archetype 1 = {1} with entity 3 *)
Definition sA : mst := get (run (init 2 cis3)
  [OCreate 0 7%N [] false; OCreate 0 7%N [] false; OCreate 0 7%N [] false; OCreate 0 2%N [] false]).
(* locked; thread 1 records an assign for entity 3, thread 0 a destroy of entity 1, thread 1 an assign with a value for
   entity 1 (dead by the time thread 1's buffer is applied), an assign of a component entity 0 already has, and a trivial one *)
Definition sB : mst := get (run sA
  [OLock; OAssign 1 (h 3) 2 ADefault false; ODestroyNow 0 (h 1); OAssign 1 (h 1) 2 (AValue 5%Z) true;
   OAssign 1 (h 0) 1 ADefault false; OAssign 1 (h 3) 0 ADefault false]).

Example C03_ex_states :
  map am_ents (archs sA) = [[h 0; h 1; h 2]; [h 3]] /\ map am_mask (archs sA) = [7%N; 2%N] /\
  bufs sB = [[ADestroyNow (h 1)]; [AAssign (h 3) 2 0; AAssign (h 1) 2 1; AAssign (h 0) 1 2; AAssign (h 3) 0 3]] /\
  tmps sB = [[]; [Some 1003%Z; Some 5%Z; Some 1002%Z; None]] /\ lockc sB = 1 /\ epoch sB = 0.
Proof. vm_compute. repeat split. Qed.

Example C03_ex_assign_locked : exists s',
  assign_locked sB 1 (h 2) 1 false = Ok (s', 4) /\ new_log sB s' = [EvC 2 (PTmp 1 4)].
Proof. eexists. ex_tac. Qed.

Example C03_ex_tmps_wf : tmps_wf sB.
Proof. unfold tmps_wf. vm_compute. repeat constructor. Qed.

(* the flush of sB: the temporary recorded for the dead entity 1 (number 1) is destroyed exactly once all the same *)
Example C03_ex_flush : exists s' b inf,
  flush sB = Ok s' /\ nth_error (bufs sB) 1 = Some b /\ In (AAssign (h 1) 2 1) b /\ nth_error (cinfos sB) 2 = Some inf /\
  is_valid sB (h 1) = true /\ is_valid s' (h 1) = false /\
  filter is_tmp_dtor (rev (new_log sB s')) = [EvD 3 (PTmp 1 0); EvD 3 (PTmp 1 1); EvD 2 (PTmp 1 2)] /\
  epoch s' = 1 /\ bufs s' = [[]; []] /\ tmps s' = [[]; []].
Proof.
  eexists. eexists. eexists. split; [vm_compute; reflexivity|]. split; [vm_compute; reflexivity|].
  split; [vm_compute; tauto|]. split; [vm_compute; reflexivity|]. vm_compute. repeat split.
Qed.

Example C03_ex_apply_pack : exists s',
  apply_pack 1 sB [AAssign (h 3) 2 0] = Ok s' /\
  new_log sB s' = [EvAA 3 (PArch 2 2 0) (h 3); EvMC 3 (PArch 2 2 0) (PTmp 1 0); EvD 2 (PArch 1 1 0); EvMC 2 (PArch 2 1 0) (PArch 1 1 0)].
Proof. eexists. ex_tac. Qed.

Example C03_ex_apply_storage : exists s', apply_storage sB (1, nth 1 (bufs sB) []) = Ok s'.
Proof. eexists. vm_compute. reflexivity. Qed.

Example C03_ex_call_destructor : exists s',
  call_destructor sA 0 2 = Ok s' /\ new_log sA s' = [EvD 3 (PArch 0 2 2); EvD 2 (PArch 0 1 2)].
Proof. eexists. ex_tac. Qed.

Example C03_ex_slot_once : NoDup (mitems 7%N) /\ In 1 (mitems 7%N) /\ nth_error cis3 1 = Some (pal_info 2 0).
Proof. split; [apply mitems_NoDup|]. vm_compute. tauto. Qed.

Example C03_ex_clear : exists s' s'' s''',
  arch_clear sA 0 = Ok s' /\ length (new_log sA s') = 6 /\
  clear_archetype sA 0 = Ok s'' /\ clear_all sA = Ok s''' /\ length (new_log sA s''') = 7.
Proof. eexists. eexists. eexists. ex_tac. Qed.

Example C03_ex_clear_once : exists a,
  nth_error (archs sA) 0 = Some a /\ am_ents a <> [] /\ In 2 (mitems (am_mask a)) /\ 1 < am_size a /\
  nth_error cis3 2 = Some (pal_info 3 0).
Proof. eexists. split; [vm_compute; reflexivity|]. vm_compute. repeat split; try discriminate; auto. Qed.

Example C03_ex_teardown : exists s' r,
  step sB OTeardown = Ok (s', r) /\
  filter is_tmp_dtor (rev (new_log sB s')) = [EvD 3 (PTmp 1 0); EvD 3 (PTmp 1 1); EvD 2 (PTmp 1 2)] /\
  length (new_log sB s') = 10.
Proof. eexists. eexists. ex_tac. Qed.

Example C03_ex_parked_once : exists b,
  nth_error (bufs sB) 1 = Some b /\ NoDup (assign_nums b) /\ In (AAssign (h 1) 2 1) b /\ nth_error cis3 2 = Some (pal_info 3 0).
Proof.
  eexists. split; [vm_compute; reflexivity|]. split; [|vm_compute; tauto].
  vm_compute. repeat constructor; simpl; intuition discriminate.
Qed.

(* entity 0 moves from archetype 0 = {0,1,2} (slot 0 of 3) to archetype 1 = {1}: component 1 is move-constructed,
   component 2 does not survive (beforeRemove), the last slot is swap-moved into the hole and then destroyed *)
Example C03_ex_external_move : exists s',
  external_move sA 1 (h 0) 0 0 0%N = Ok s' /\
  rev (new_log sA s') = [EvMC 2 (PArch 1 1 1) (PArch 0 1 0); EvBR 3 (PArch 0 2 0) (h 0);
                         EvMA 2 (PArch 0 1 0) (PArch 0 1 2); EvMA 3 (PArch 0 2 0) (PArch 0 2 2);
                         EvD 2 (PArch 0 1 2); EvD 3 (PArch 0 2 2)].
Proof. eexists. ex_tac. Qed.

Example C03_ex_arch_remove_internal_move : exists s' s'',
  arch_remove sA 0 1 (h 1) 0%N = Ok s' /\ length (new_log sA s') = 5 /\
  internal_move sA 0 2 0 = Ok s'' /\ length (new_log sA s'') = 4.
Proof. eexists. eexists. ex_tac. Qed.

(* ================================================================================================ *)
(* 5. HISTORY LEVEL: a whole script's event stream is a word of the per-place bracket language       *)
(* proofs/LifecycleLang.v: lc_step / lc_run / lc_ok / lc_live -- the Coq rendering of the Python oracle Lifecycle
   (lib/mgrcheck.py: feed, leaked) that judges the IMPLEMENTATION's event stream: events of palette numbers outside
   destroy_pals are ignored; C/V need a dead place and make it live; CP/MC need a dead destination and a live source;
   MA needs both live; D needs a live place and kills it; AA/BR are not bracket events.
   proofs/LifecycleHist.v: hrun = Refine.mrun with the events of every operation appended to a history (the driver
   prints the log after each operation and empties it: Refine.mstep); invariant HInv = ManagerInv.MInv + "the history
   is accepted and the checker's live set is the set of occupied cells of tracked components".
   Scripts: the unlocked alphabet of C02 (ManagerMain.alpha_b: create, destroyNow, assign typed/untyped with or
   without value, removeComponent typed/untyped, write through getComponent), same hypotheses as
   C02_unlocked_refines_on, plus lc_cis_ok on the component table (LifecycleLang.v; each clause is needed, see the
   counterexamples below):
     a logging type without destroy function does not share its palette number with a type that has one, and
     a logging type with a destroy function has a (logging) create function and move constructor.
   live_comp_place cis s hs x p: p = (archetype, component c, slot) where some live entity k of the SPECIFICATION
   state x has component c, the type of c is tracked, and (archetype, slot) is where the model locates handle k. *)
From Mustache Require Import MgrSpec Refine.
From Mustache.proofs Require Import ManagerInv ManagerMain LifecycleLang LifecycleHist.

(* the history run is the run of C02 with the history as an extra component *)
Theorem C03_history_run_is_mrun : forall typed n cis ops,
  (forall s hs hist, hrun typed n cis ops = Ok (s, hs, hist) -> mrun typed n cis ops = Ok (s, hs)) /\
  (forall s hs, mrun typed n cis ops = Ok (s, hs) -> exists hist, hrun typed n cis ops = Ok (s, hs, hist)).
Proof. intros typed n cis ops. split; [apply hrun_mrun|apply mrun_hrun]. Qed.
Print Assumptions C03_history_run_is_mrun.

(* (5a) the history is accepted by the bracket checker -- nothing constructed over a live instance, nothing destroyed,
   assigned or moved from that is not alive -- and the places alive at the end are exactly the cells of the tracked
   components of the live entities *)
Theorem C03_history_brackets : forall typed n cis ops s hs hist,
  cis_ok cis -> lc_cis_ok cis -> forallb (alpha_b cis) ops = true ->
  hrun typed n cis ops = Ok (s, hs, hist) -> x_viol (xrun n cis ops) = 0 -> (N.of_nat (length hs) < 16777000)%N ->
  lc_ok (destroy_pals cis) hist = true /\
  forall p, In p (lc_live (destroy_pals cis) hist) <-> live_comp_place cis s hs (xrun n cis ops) p.
Proof. exact history_brackets. Qed.
Print Assumptions C03_history_brackets.

(* (5b) world destruction after such a script: the history extended by the events of ~World is still accepted and
   NO place is alive afterwards: every instance was destroyed exactly once, nothing leaks *)
Theorem C03_history_teardown_no_leak : forall typed n cis ops s hs hist s' r,
  cis_ok cis -> lc_cis_ok cis -> forallb (alpha_b cis) ops = true ->
  hrun typed n cis ops = Ok (s, hs, hist) -> x_viol (xrun n cis ops) = 0 -> (N.of_nat (length hs) < 16777000)%N ->
  step s OTeardown = Ok (s', r) ->
  lc_ok (destroy_pals cis) (hist ++ rev (log s')) = true /\ lc_live (destroy_pals cis) (hist ++ rev (log s')) = [].
Proof. exact history_teardown. Qed.
Print Assumptions C03_history_teardown_no_leak.

(* per operation (the induction step): whatever the checker's live set L was, if it was the set of occupied tracked
   cells before the operation, the operation's events are accepted from L and lead to the set of occupied tracked
   cells after it *)
Theorem C03_operation_preserves_live_cells : forall cis typed s hs al x o s1 out L,
  MInv cis s hs al x -> lc_cis_ok cis -> alpha_b cis o = true -> x_viol x = 0 -> x_viol (x_step x o) = 0 ->
  step s (concretize typed hs o) = Ok (s1, out) ->
  (forall p, In p L <-> aplace cis (archs s) p) ->
  exists evs L', log s1 = rev evs ++ log s /\ bufs s1 = bufs s /\ tmps s1 = tmps s /\
    lc_run (destroy_pals cis) L evs = Some L' /\ forall p, In p L' <-> aplace cis (archs s1) p.
Proof. exact LStep. Qed.
Print Assumptions C03_operation_preserves_live_cells.

(* Archetype::insert, the function-level event list missing from section 4 *)
Theorem C03_arch_insert_events : forall s ai h skip s',
  arch_insert s ai h skip = Ok s' ->
  exists a, nth_error (archs s) ai = Some a /\
    log s' = rev (if (skip =? am_mask a)%N then [] else insert_events (cinfos s) ai (length (am_ents a)) h skip (mitems (am_mask a))) ++ log s.
Proof.
  intros s ai h0 skip s' H. destruct (arch_insert_tr _ _ _ _ _ H) as (a & Ha & T). exists a. split; [exact Ha|exact (tr_log _ _ _ _ T)].
Qed.
Print Assumptions C03_arch_insert_events.

(* a new member of archetype 1 = {1} of sA: one EvC at the new slot; with the whole mask skipped: nothing *)
Example C03_ex_arch_insert : exists s' s'',
  arch_insert sA 1 (h 2) 0%N = Ok s' /\ new_log sA s' = [EvC 2 (PArch 1 1 1)] /\
  arch_insert sA 1 (h 2) 2%N = Ok s'' /\ new_log sA s'' = [] /\
  insert_events (cinfos sA) 1 1 (h 2) 0%N (mitems 2%N) = [EvC 2 (PArch 1 1 1)].
Proof. do 2 eexists. ex_tac. Qed.

(* ---- non-vacuity -------------------------------------------------------------------------------- *)
(* components: 0 trivial, 1 instrumented (palette 2), 2 instrumented with afterAssign/beforeRemove (palette 3),
   3 described at run time with create+move+move_constructor+destroy (palette 8, flags 29),
   4 described at run time with create+default value and NO destroy function (palette 9: logs, is not tracked), 5 empty *)
Definition hx_cis : list cinfo := [pal_info 0 0; pal_info 2 0; pal_info 3 0; dyn_info 8 29; dyn_info 9 33; pal_info 6 0].

(* ids 2 and 3 are recycled; entities move between six archetypes; swap-removes happen on assign (entity 0 leaves
   slot 0 of three), on destroyNow (entity 2 leaves slot 0 of three) and on removeComponent; a typed assign constructs
   from a value (EvV); palette 3 fires afterAssign / beforeRemove; an unissued handle and an absent component occur *)
Definition hx_script : list xop :=
  [XoCreate 0 6%N [] false; XoCreate 0 6%N [] true; XoCreate 0 14%N [] false; XoCreate 0 6%N [] false;
   XoSet 0 1 41%Z; XoAssign 0 0 3 None; XoAssign 0 1 3 (Some 7%Z); XoDestroyNow 0 2; XoCreate 0 22%N [] false;
   XoRemove 0 0 2 false; XoAssign 0 3 4 None; XoSet 3 2 44%Z; XoDestroyNow 0 9; XoRemove 0 1 5 true; XoAssign 0 4 0 (Some 3%Z);
   XoAssign 0 3 0 None; XoDestroyNow 0 3; XoCreate 0 12%N [] false; XoRemove 0 1 1 true].

Lemma hx_cis_ok : cis_ok hx_cis /\ lc_cis_ok hx_cis.
Proof.
  split; [unfold cis_ok, hx_cis; repeat constructor; simpl; intros; congruence|].
  apply lc_cis_okb_ok. vm_compute. reflexivity.
Qed.

Definition count_ev (f : event -> bool) (l : list event) : nat := length (filter f l).
Definition is_ctor (e : event) : bool := match e with EvC _ _ | EvV _ _ | EvMC _ _ _ | EvCP _ _ _ => true | _ => false end.
Definition is_dtor (e : event) : bool := match e with EvD _ _ => true | _ => false end.
Definition is_ma (e : event) : bool := match e with EvMA _ _ _ => true | _ => false end.
Definition is_v (e : event) : bool := match e with EvV _ _ => true | _ => false end.

Example C03_history_nonvacuous :
  cis_ok hx_cis /\ lc_cis_ok hx_cis /\ forallb (alpha_b hx_cis) hx_script = true /\ x_viol (xrun 1 hx_cis hx_script) = 0 /\
  destroy_pals hx_cis = [2; 3; 8] /\
  (forall typed, exists s hs hist s' r,
     hrun typed 1 hx_cis hx_script = Ok (s, hs, hist) /\ (N.of_nat (length hs) < 16777000)%N /\
     hs = [(0, 0); (1, 0); (2, 0); (3, 0); (2, 1); (3, 1)]%N /\ map (is_valid s) hs = [true; true; false; false; true; true] /\
     map am_mask (archs s) = [6; 14; 22; 10; 23; 12]%N /\
     map am_ents (archs s) = [[]; []; []; [(0, 0)]; [(2, 1)]; [(3, 1); (1, 0)]]%N /\
     length hist = 68 /\ count_ev is_ma hist = 7 /\ count_ev is_v hist = (if typed then 1 else 0) /\
     lc_ok (destroy_pals hx_cis) hist = true /\
     lc_live (destroy_pals hx_cis) hist = [PArch 5 3 1; PArch 5 2 1; PArch 5 3 0; PArch 5 2 0; PArch 4 2 0; PArch 4 1 0; PArch 3 3 0; PArch 3 1 0] /\
     step s OTeardown = Ok (s', r) /\ count_ev is_dtor (rev (log s')) = 8 /\
     lc_live (destroy_pals hx_cis) (hist ++ rev (log s')) = []).
Proof.
  split; [exact (proj1 hx_cis_ok)|]. split; [exact (proj2 hx_cis_ok)|]. split; [vm_compute; reflexivity|].
  split; [vm_compute; reflexivity|]. split; [vm_compute; reflexivity|].
  intros typed. destruct typed; do 5 eexists; ex_tac.
Qed.

(* the hypotheses of the per-operation theorem on a reachable state: entity 0 sits in slot 0 of three of archetype
   {1,2}; an assign of the run-time described component 3 swap-removes it *)
Example C03_operation_nonvacuous : exists s hs hist al x s1 out,
  hrun true 1 hx_cis (firstn 5 hx_script) = Ok (s, hs, hist) /\ x = xrun 1 hx_cis (firstn 5 hx_script) /\
  MInv hx_cis s hs al x /\ alpha_b hx_cis (XoAssign 0 0 3 None) = true /\ x_viol x = 0 /\
  x_viol (x_step x (XoAssign 0 0 3 None)) = 0 /\
  step s (concretize true hs (XoAssign 0 0 3 None)) = Ok (s1, out) /\
  (forall p, In p (lc_live (destroy_pals hx_cis) hist) <-> aplace hx_cis (archs s) p).
Proof.
  assert (E6 : exists r, hrun true 1 hx_cis (firstn 5 hx_script ++ [XoAssign 0 0 3 None]) = Ok r) by (eexists; vm_compute; reflexivity).
  destruct E6 as (r6 & E6). apply hrun_snoc in E6. destruct E6 as (s & hs & hist & E & Hs).
  unfold hstep in Hs. apply bind_ok in Hs. destruct Hs as ((s1, out) & Hst & _).
  assert (Ha : forallb (alpha_b hx_cis) (firstn 5 hx_script) = true) by (vm_compute; reflexivity).
  assert (Hb : within (length hs)).
  { assert (El : length hs = 4) by (apply (f_equal (fun r => match r with Ok (_, hs0, _) => length hs0 | Err _ => 0 end)) in E;
      vm_compute in E; symmetry; exact E). rewrite El. vm_compute. reflexivity. }
  assert (Hv : x_viol (fold_left x_step (firstn 5 hx_script) (x_init 1 hx_cis)) = 0) by (vm_compute; reflexivity).
  pose proof E as E'. rewrite hrun_unfold in E'.
  destruct (HInv_run hx_cis true (firstn 5 hx_script) (init 1 hx_cis) [] [] (x_init 1 hx_cis) [] s hs hist
              (HInv_init 1 hx_cis) (proj1 hx_cis_ok) (proj2 hx_cis_ok) Ha eq_refl Hv E' Hb) as (al & [HI _ _ _ (L & Hr & HL)]).
  rewrite <- xrun_unfold in HI.
  exists s, hs, hist, al, (xrun 1 hx_cis (firstn 5 hx_script)), s1, out. split; [exact E|]. split; [reflexivity|]. split; [exact HI|].
  split; [vm_compute; reflexivity|]. split; [vm_compute; reflexivity|]. split; [vm_compute; reflexivity|]. split; [exact Hst|].
  unfold lc_live. rewrite Hr. exact HL.
Qed.

(* ---- each clause of lc_cis_ok is needed ---------------------------------------------------------- *)
Definition hist_of (cis : list cinfo) (ops : list xop) : list event :=
  match hrun false 1 cis ops with Ok (_, _, hist) => hist | Err _ => [] end.
Definition hist_td (cis : list cinfo) (ops : list xop) : list event :=
  match hrun false 1 cis ops with
  | Ok (s, _, hist) => match step s OTeardown with Ok (s', _) => hist ++ rev (log s') | Err _ => [] end
  | Err _ => [] end.

(* a type with a logging destroy function and no create function (flags 8+16): its destructor runs on a cell no
   constructor event was seen for *)
Example C03_destroy_without_create_is_rejected :
  let cis := [dyn_info 8 24] in let ops := [XoCreate 0 1%N [] false; XoDestroyNow 0 0] in
  cis_ok cis /\ forallb (alpha_b cis) ops = true /\ x_viol (xrun 1 cis ops) = 0 /\ refines_on false 1 cis ops = true /\
  hist_of cis ops = [EvD 8 (PArch 0 0 0)] /\ lc_ok (destroy_pals cis) (hist_of cis ops) = false.
Proof. split; [repeat constructor; simpl; intros; congruence|]. vm_compute. repeat split. Qed.

(* a type with create and destroy but no move constructor (flags 1+16): the instance is memcpy'd to the new
   archetype without an event, the old cell is destroyed, and the entity's destruction later hits a cell the checker
   never saw constructed *)
Example C03_destroy_without_move_constructor_is_rejected :
  let cis := [dyn_info 8 17; pal_info 0 0] in let ops := [XoCreate 0 1%N [] false; XoAssign 0 0 1 None; XoDestroyNow 0 0] in
  cis_ok cis /\ forallb (alpha_b cis) ops = true /\ x_viol (xrun 1 cis ops) = 0 /\ refines_on false 1 cis ops = true /\
  hist_of cis ops = [EvC 8 (PArch 0 0 0); EvD 8 (PArch 0 0 0); EvD 8 (PArch 1 0 0)] /\
  lc_ok (destroy_pals cis) (hist_of cis ops) = false.
Proof. split; [repeat constructor; simpl; intros; congruence|]. vm_compute. repeat split. Qed.

(* two types share palette number 8, one with a destroy function and one without: the constructor of the second is
   taken for a tracked event and its instance is reported as leaked after the world is gone *)
Example C03_shared_palette_number_reports_a_leak :
  let cis := [dyn_info 8 1; dyn_info 8 29] in let ops := [XoCreate 0 1%N [] false] in
  cis_ok cis /\ forallb (alpha_b cis) ops = true /\ x_viol (xrun 1 cis ops) = 0 /\
  lc_ok (destroy_pals cis) (hist_td cis ops) = true /\ lc_live (destroy_pals cis) (hist_td cis ops) = [PArch 0 0 0].
Proof. split; [repeat constructor; simpl; intros; congruence|]. vm_compute. repeat split. Qed.

(* ================================================================================================ *)
(* 6. HISTORY LEVEL with command buffers: the world is destroyed while LOCKED, with parked temporaries *)
(* proofs/LifecycleLocked.v.  After any script of the unlocked alphabet the manager is locked and ANY sequence of
   recording operations follows (lk_op: assign typed/untyped, default or value, through any handle -- alive, dead or
   never issued -- and any thread; removeComponent, destroy, destroyNow; nested lock), with no unlock; orun runs model
   operations and appends their events to the history.  Then ~World runs (OTeardown: archetypes first, then the
   command buffers).  The complete history is accepted by the bracket checker and no place stays alive: every cell
   and every temporary parked in a command buffer is destroyed exactly once.
   Sections closed by unlock (the flush moves temporaries into archetypes) are the subject of section 7 below: the
   checker accepts a flush only under the contract of the deferred interface stated there. *)
From Mustache.proofs Require Import LifecycleLocked.

Theorem C03_history_locked_teardown_no_leak : forall typed n cis ops s hs hist lops s2 hist2 s' r,
  cis_ok cis -> lc_cis_ok cis -> forallb (alpha_b cis) ops = true ->
  hrun typed n cis ops = Ok (s, hs, hist) -> x_viol (xrun n cis ops) = 0 -> (N.of_nat (length hs) < 16777000)%N ->
  forallb lk_op lops = true -> orun (OLock :: lops) (s, hist) = Ok (s2, hist2) ->
  step s2 OTeardown = Ok (s', r) ->
  lc_ok (destroy_pals cis) (hist2 ++ rev (log s')) = true /\ lc_live (destroy_pals cis) (hist2 ++ rev (log s')) = [].
Proof. exact locked_teardown. Qed.
Print Assumptions C03_history_locked_teardown_no_leak.

(* one recording operation: the invariant of a locked recording phase (LK: the live archetype cells are the occupied
   tracked cells, the live temporaries are those of the recorded assigns of tracked types) is kept and the operation's
   events are accepted *)
Theorem C03_recording_preserves_live_places : forall cis s L o s1 out,
  lc_cis_ok cis -> LK cis s L -> lk_op o = true -> step s o = Ok (s1, out) ->
  exists L', lc_run (destroy_pals cis) L (rev (log s1)) = Some L' /\ LK cis (set_log s1 []) L'.
Proof. exact LK_step. Qed.
Print Assumptions C03_recording_preserves_live_places.

(* two threads; after hx_script: thread 1 records an assign for entity (3,1), thread 0 a typed assign with a value for
   entity (0,0) and a destroyNow, the lock is nested, thread 1 records an assign through the dead handle (2,0), an
   assign of the untracked run-time type and a second typed assign of component 1 to the same entity *)
Definition hx_locked : list op :=
  [OAssign 1 (3, 1)%N 1 ADefault false; OAssign 0 (0, 0)%N 2 (AValue 5%Z) true; ODestroyNow 0 (1, 0)%N; OLock;
   OAssign 1 (2, 0)%N 3 (AValue 9%Z) false; ORemove 0 (3, 1)%N 2 false; OAssign 1 (3, 1)%N 4 ADefault false; ODestroy 1 (0, 0)%N;
   OAssign 1 (3, 1)%N 1 (AValue 8%Z) true].

Example C03_history_locked_nonvacuous :
  forallb lk_op hx_locked = true /\
  exists s hs hist s2 hist2 s' r,
    hrun true 2 hx_cis hx_script = Ok (s, hs, hist) /\ (N.of_nat (length hs) < 16777000)%N /\
    orun (OLock :: hx_locked) (s, hist) = Ok (s2, hist2) /\ lockc s2 = 2 /\
    bufs s2 = [[AAssign (0, 0) 2 0; ADestroyNow (1, 0); ARemove (3, 1) 2];
               [AAssign (3, 1) 1 0; AAssign (2, 0) 3 1; AAssign (3, 1) 4 2; ADestroy (0, 0); AAssign (3, 1) 1 3]]%N /\
    skipn (length hist) hist2 = [EvC 2 (PTmp 1 0); EvV 3 (PTmp 0 0); EvC 8 (PTmp 1 1); EvC 9 (PTmp 1 2); EvV 2 (PTmp 1 3)] /\
    firstn 4 (lc_live (destroy_pals hx_cis) hist2) = [PTmp 1 3; PTmp 1 1; PTmp 0 0; PTmp 1 0] /\
    step s2 OTeardown = Ok (s', r) /\
    filter is_tmp_dtor (rev (log s')) = [EvD 3 (PTmp 0 0); EvD 2 (PTmp 1 0); EvD 8 (PTmp 1 1); EvD 2 (PTmp 1 3)] /\
    count_ev is_dtor (rev (log s')) = 12 /\
    lc_ok (destroy_pals hx_cis) (hist2 ++ rev (log s')) = true /\ lc_live (destroy_pals hx_cis) (hist2 ++ rev (log s')) = [].
Proof. split; [vm_compute; reflexivity|]. do 7 eexists. ex_tac. Qed.

(* the hypotheses of the per-operation theorem: the state right after the first lock satisfies LK *)
Example C03_recording_nonvacuous : exists s hs hist L s1 out,
  hrun true 2 hx_cis hx_script = Ok (s, hs, hist) /\ LK hx_cis (set_log (do_lock s) []) L /\
  step (set_log (do_lock s) []) (OAssign 1 (3, 1)%N 1 ADefault false) = Ok (s1, out).
Proof.
  assert (E6 : exists r, orun [OLock; OAssign 1 (3, 1)%N 1 ADefault false]
                 (match hrun true 2 hx_cis hx_script with Ok (s, _, hist) => (s, hist) | Err _ => (init 0 [], []) end) = Ok r)
    by (eexists; vm_compute; reflexivity).
  destruct E6 as (r6 & E6).
  destruct (hrun true 2 hx_cis hx_script) as [[[s hs] hist]|] eqn:E; [|vm_compute in E6; discriminate].
  assert (Ha : forallb (alpha_b hx_cis) hx_script = true) by (vm_compute; reflexivity).
  assert (Hb : within (length hs)).
  { assert (El : length hs = 6) by (apply (f_equal (fun r => match r with Ok (_, hs0, _) => length hs0 | Err _ => 0 end)) in E;
      vm_compute in E; symmetry; exact E). rewrite El. vm_compute. reflexivity. }
  assert (Hv : x_viol (fold_left x_step hx_script (x_init 2 hx_cis)) = 0) by (vm_compute; reflexivity).
  pose proof E as E'. rewrite hrun_unfold in E'.
  destruct (HInv_run hx_cis true hx_script (init 2 hx_cis) [] [] (x_init 2 hx_cis) [] s hs hist
              (HInv_init 2 hx_cis) (proj1 hx_cis_ok) (proj2 hx_cis_ok) Ha eq_refl Hv E' Hb) as (al & [HI Hlog Hbufs Htmps (L & Hr & HL)]).
  unfold orun in E6. cbn [fold_res] in E6. apply bind_ok in E6. destruct E6 as (st1 & H1 & E6).
  unfold ostep in H1 at 1. cbn [step] in H1. cbv beta iota in H1. cbn [bind fst] in H1. inversion H1; subst st1; clear H1.
  apply bind_ok in E6. destruct E6 as (st2 & H2 & _). unfold ostep in H2. apply bind_ok in H2. destruct H2 as ((s1, out) & Hst & _).
  exists s, hs, hist, L, s1, out. split; [reflexivity|]. split; [|exact Hst].
  apply (LK_first hx_cis s hs al _ L HI Hlog Hbufs Htmps HL).
Qed.

(* ================================================================================================ *)
(* 7. HISTORY LEVEL with lock / unlock sections that are FLUSHED                                     *)
(* proofs/LifecycleFlushLang.v, LifecycleFlushPack.v, LifecycleFlushMain.v, LifecycleFlushSpec.v.
   Scripts over ManagerLockedMain.alphaL_b -- the alphabet of C05_locked_refines_on: creation, destroyNow, destroy,
   assign typed/untyped with or without value, removeComponent, write through getComponent, update, lock, unlock (nested
   or not), from any thread -- with the hypotheses of C05_locked_refines_on, lc_cis_ok on the component table, and the
   CONTRACT of the deferred interface that the bracket checker needs on top of x_viol = 0:
       within one pack (the consecutive commands one thread records on one entity in one locked section) no component
       is removed and assigned afterwards.
   It is a decidable hypothesis on the script in two forms:
       xra_script n cis ops     evaluated on the SPECIFICATION alone: at every unlock that flushes, no buffer of the
                                specification holds `remove c` followed by `assign c` within a run of commands on one entity;
       ra_script typed n cis ops  evaluated on the model's buffers (packs as applyCommandPack sees them; more permissive:
                                a command through a handle that was never issued splits a pack); implied by xra_script (7g).
   x_viol = 0 does NOT imply it (the specification applies the commands one at a time: remove, then assign is fine
   there) and without it the implementation move-constructs a parked temporary over a LIVE instance: see the three
   witnesses below (the bracket checker rejects the history although the refinement of C05 holds on them).  With it,
   x_viol = 0 gives exactly what the checker needs: within a pack every assigned component is new to the entity and is
   assigned once (7f; LifecycleFlushPack.pack_fresh_ok).
   The history is hrun (section 5: the log of every operation appended).  Live places:
       live_comp_place  the cells of the tracked components of the live entities of the SPECIFICATION state
                        (while locked: the state of the last flush -- recorded commands have not happened yet);
       parked cis s p   p = PTmp (epoch * 64 + thread) n is the temporary of a recorded assign command of a tracked type
                        in a command buffer of s (LifecycleLocked.tmp_live). *)
From Mustache.proofs Require Import ManagerPack ManagerLocked ManagerLockedMain LifecycleFlushLang LifecycleFlushPack LifecycleFlushMain LifecycleFlushSpec.

(* (7a) the whole history is accepted; the places alive are the cells of the tracked components of the live entities
   plus the parked temporaries; when the manager is not locked there are no parked temporaries *)
Theorem C03_history_flush : forall typed n cis ops s hs hist,
  cis_ok cis -> lc_cis_ok cis -> forallb (alphaL_b cis) ops = true ->
  hrun typed n cis ops = Ok (s, hs, hist) -> x_viol (xrun n cis ops) = 0 -> (N.of_nat (length hs) < 16777000)%N ->
  xra_script n cis ops = true ->
  lc_ok (destroy_pals cis) hist = true /\
  (forall p, In p (lc_live (destroy_pals cis) hist) <-> (live_comp_place cis s hs (xrun n cis ops) p \/ parked cis s p)) /\
  (lockc s = 0 -> forall p, In p (lc_live (destroy_pals cis) hist) <-> live_comp_place cis s hs (xrun n cis ops) p).
Proof. exact history_flush_spec. Qed.
Print Assumptions C03_history_flush.

(* (7b) world destruction after such a script, LOCKED OR NOT (buffers empty or not): nothing stays alive *)
Theorem C03_history_flush_teardown_no_leak : forall typed n cis ops s hs hist s' r,
  cis_ok cis -> lc_cis_ok cis -> forallb (alphaL_b cis) ops = true ->
  hrun typed n cis ops = Ok (s, hs, hist) -> x_viol (xrun n cis ops) = 0 -> (N.of_nat (length hs) < 16777000)%N ->
  xra_script n cis ops = true ->
  step s OTeardown = Ok (s', r) ->
  lc_ok (destroy_pals cis) (hist ++ rev (log s')) = true /\ lc_live (destroy_pals cis) (hist ++ rev (log s')) = [].
Proof. exact history_flush_teardown_spec. Qed.
Print Assumptions C03_history_flush_teardown_no_leak.

(* (7c) "at every point": the same after every prefix of the script, teardown included *)
Theorem C03_history_flush_every_point : forall typed n cis ops1 ops2 s hs hist,
  cis_ok cis -> lc_cis_ok cis -> forallb (alphaL_b cis) (ops1 ++ ops2) = true ->
  hrun typed n cis (ops1 ++ ops2) = Ok (s, hs, hist) -> x_viol (xrun n cis (ops1 ++ ops2)) = 0 ->
  (N.of_nat (length hs) < 16777000)%N -> xra_script n cis (ops1 ++ ops2) = true ->
  exists s1 hs1 hist1, hrun typed n cis ops1 = Ok (s1, hs1, hist1) /\
    lc_ok (destroy_pals cis) hist1 = true /\
    (forall p, In p (lc_live (destroy_pals cis) hist1) <-> (live_comp_place cis s1 hs1 (xrun n cis ops1) p \/ parked cis s1 p)) /\
    (lockc s1 = 0 -> forall p, In p (lc_live (destroy_pals cis) hist1) <-> live_comp_place cis s1 hs1 (xrun n cis ops1) p) /\
    (forall s' r, step s1 OTeardown = Ok (s', r) ->
       lc_ok (destroy_pals cis) (hist1 ++ rev (log s')) = true /\ lc_live (destroy_pals cis) (hist1 ++ rev (log s')) = []).
Proof. exact history_flush_every_point_spec. Qed.
Print Assumptions C03_history_flush_every_point.

(* (7d) the flush itself, from a state related to the specification (LR: the relation of C05): whatever the checker's
   live set L was, if it held the occupied tracked cells and the parked temporaries, the events of the flush are
   accepted from L and lead to the occupied tracked cells of the new state and NO temporary (LS .. (fun _ => False)) *)
Theorem C03_flush_preserves_live_places : forall cis s hs x s' L,
  LR cis s hs x -> cis_ok cis -> lc_cis_ok cis -> (N.of_nat (length hs) < 16777000)%N ->
  x_viol (x_flush (xw_lock x 0)) = x_viol x -> tmps_wf s -> packs_ok s = true ->
  flush (set_lock s 0) = Ok s' ->
  LS cis s (parked cis s) L ->
  exists evs L', log s' = rev evs ++ log s /\ lc_run (destroy_pals cis) L evs = Some L' /\ LS cis s' (fun _ => False) L'.
Proof. exact P_flush. Qed.
Print Assumptions C03_flush_preserves_live_places.

(* (7e) function level, all states: the last loop of applyCommandPack emits, per assign command of the pack in order,
   one move construction from the parked temporary into the entity's cell (types with a logging move constructor) and
   the afterAssign callback; it changes no member list; it fails unless every assigned component is in the final mask *)
Theorem C03_pack_assign_loop_events : forall cis tid h0 ai a idx p st s',
  cinfos st = cis -> fold_res (wr_step tid h0 ai a idx) p st = Ok s' ->
  log s' = rev (wr_events cis (epoch st * 64 + tid) h0 ai idx p) ++ log st /\
  (forall q, aplace cis (archs s') q <-> aplace cis (archs st) q) /\
  (forall c, In c (asg_cids p) -> mhas (am_mask a) c = true).
Proof.
  intros cis tid h0 ai a idx p st s' Hc H. destruct (wr_fold_tr cis tid h0 ai a idx p st s' Hc H) as (T & P & M).
  split; [exact (tr_log _ _ _ _ T)|]. split; [exact P|exact M].
Qed.
Print Assumptions C03_pack_assign_loop_events.

(* (7f) the contract: a pack in which every assign meets an entity without the component (what x_viol = 0 gives) and
   no component is assigned after it was removed, assigns every component at most once and only components that are
   new to the entity *)
Theorem C03_pack_contract : forall p fm, pack_fresh fm p = true -> ra_ok [] p = true -> pack_once fm p = true.
Proof. intros p fm Hf Hr. apply (fresh_ra_once p fm [] fm Hf Hr). auto. Qed.
Print Assumptions C03_pack_contract.

(* (7g) the contract checked on the specification implies the contract checked on the model's buffers ... *)
Theorem C03_spec_contract_implies_model_contract : forall typed n cis ops s hs hist,
  cis_ok cis -> lc_cis_ok cis -> forallb (alphaL_b cis) ops = true ->
  hrun typed n cis ops = Ok (s, hs, hist) -> x_viol (xrun n cis ops) = 0 -> (N.of_nat (length hs) < 16777000)%N ->
  xra_script n cis ops = true -> ra_script typed n cis ops = true.
Proof. exact xra_script_ra_script. Qed.
Print Assumptions C03_spec_contract_implies_model_contract.

(* (7h) ... and (7a), (7b) hold under the model-level contract as well *)
Theorem C03_history_flush_model_contract : forall typed n cis ops s hs hist,
  cis_ok cis -> lc_cis_ok cis -> forallb (alphaL_b cis) ops = true ->
  hrun typed n cis ops = Ok (s, hs, hist) -> x_viol (xrun n cis ops) = 0 -> (N.of_nat (length hs) < 16777000)%N ->
  ra_script typed n cis ops = true ->
  lc_ok (destroy_pals cis) hist = true /\
  (forall p, In p (lc_live (destroy_pals cis) hist) <-> (live_comp_place cis s hs (xrun n cis ops) p \/ parked cis s p)) /\
  (lockc s = 0 -> forall p, In p (lc_live (destroy_pals cis) hist) <-> live_comp_place cis s hs (xrun n cis ops) p) /\
  (forall s' r, step s OTeardown = Ok (s', r) ->
     lc_ok (destroy_pals cis) (hist ++ rev (log s')) = true /\ lc_live (destroy_pals cis) (hist ++ rev (log s')) = []).
Proof.
  intros typed n cis ops s hs hist Hok Hlok Ha Hrun Hv Hb Hra.
  destruct (history_flush typed n cis ops s hs hist Hok Hlok Ha Hrun Hv Hb Hra) as (A & B & C).
  split; [exact A|]. split; [exact B|]. split; [exact C|]. intros s' r Htd.
  exact (history_flush_teardown typed n cis ops s hs hist s' r Hok Hlok Ha Hrun Hv Hb Hra Htd).
Qed.
Print Assumptions C03_history_flush_model_contract.

(* ---- non-vacuity -------------------------------------------------------------------------------- *)
(* hx_cis (section 5): 1 instrumented (palette 2), 2 instrumented with callbacks (palette 3), 3 described at run time and
   tracked (palette 8), 4 described at run time, logging, not tracked (palette 9).  Two threads.
   Entities 0 = {1}, 1 = {2}, 2 = {}.  Locked: thread 0 assigns 2 to entity 0; thread 1 assigns 3 (typed, value 7) to
   entity 1, creates entity 3 = {1} and assigns 2 to it (one pack: creation + assign); nested lock; thread 0 destroys
   entity 2 at once; thread 1 assigns 1 to entity 2 (its pack comes after thread 0's buffer: the target is dead, the
   temporary is only destroyed); thread 0 assigns 3 to entity 0 (a second pack on it) and removes 2 from entity 1;
   nested unlock; unlock (flush).  Then unlocked operations, a second section with a destroy(), and update(). *)
Definition fx_script : list xop :=
  [XoCreate 0 2%N [] false; XoCreate 0 4%N [] false; XoCreate 0 0%N [] false;
   XoLock;
   XoAssign 0 0 2 None; XoAssign 1 1 3 (Some 7%Z); XoCreate 1 2%N [] false; XoAssign 1 3 2 None;
   XoLock;
   XoDestroyNow 0 2; XoAssign 1 2 1 None; XoAssign 0 0 3 None; XoRemove 0 1 2 false;
   XoUnlock; XoUnlock;
   XoAssign 0 1 1 (Some 5%Z); XoDestroyNow 0 0; XoCreate 0 6%N [] false; XoSet 3 1 9%Z;
   XoLock; XoAssign 0 3 3 None; XoDestroy 1 1; XoUnlock; XoUpdate].

Example C03_history_flush_nonvacuous :
  cis_ok hx_cis /\ lc_cis_ok hx_cis /\ forallb (alphaL_b hx_cis) fx_script = true /\ x_viol (xrun 2 hx_cis fx_script) = 0 /\
  xra_script 2 hx_cis fx_script = true /\
  (forall typed, ra_script typed 2 hx_cis fx_script = true /\ refines_on typed 2 hx_cis fx_script = true) /\
  exists s hs hist s' r,
     hrun true 2 hx_cis fx_script = Ok (s, hs, hist) /\ (N.of_nat (length hs) < 16777000)%N /\
     hs = [(0, 0); (1, 0); (2, 0); (3, 0); (0, 1)]%N /\ lockc s = 0 /\
     map am_mask (archs s) = [2; 4; 0; 6; 14; 8; 10]%N /\
     map am_ents (archs s) = [[]; []; []; [(0, 1)]; [(3, 0)]; []; []]%N /\
     length hist = 49 /\
     (* the flush of the first section: thread 0's packs, its temporaries destroyed, then thread 1's *)
     firstn 20 (skipn 8 hist) =
       [EvMC 2 (PArch 3 1 0) (PArch 0 1 0); EvD 2 (PArch 0 1 0); EvMC 3 (PArch 3 2 0) (PTmp 0 0); EvAA 3 (PArch 3 2 0) (0, 0)%N;
        EvMC 2 (PArch 4 1 0) (PArch 3 1 0); EvMC 3 (PArch 4 2 0) (PArch 3 2 0); EvD 2 (PArch 3 1 0); EvD 3 (PArch 3 2 0);
        EvMC 8 (PArch 4 3 0) (PTmp 0 1);
        EvBR 3 (PArch 1 2 0) (1, 0)%N; EvD 3 (PArch 1 2 0);
        EvD 3 (PTmp 0 0); EvD 8 (PTmp 0 1);
        EvMC 8 (PArch 5 3 0) (PTmp 1 0);
        EvC 2 (PArch 3 1 0); EvMC 3 (PArch 3 2 0) (PTmp 1 1); EvAA 3 (PArch 3 2 0) (3, 0)%N;
        EvD 8 (PTmp 1 0); EvD 3 (PTmp 1 1); EvD 2 (PTmp 1 2)] /\
     lc_ok (destroy_pals hx_cis) hist = true /\
     lc_live (destroy_pals hx_cis) hist = [PArch 4 3 0; PArch 4 2 0; PArch 4 1 0; PArch 3 2 0; PArch 3 1 0] /\
     step s OTeardown = Ok (s', r) /\ lc_live (destroy_pals hx_cis) (hist ++ rev (log s')) = [].
Proof.
  split; [exact (proj1 hx_cis_ok)|]. split; [exact (proj2 hx_cis_ok)|]. split; [vm_compute; reflexivity|].
  split; [vm_compute; reflexivity|]. split; [vm_compute; reflexivity|]. split; [intros typed; destruct typed; split; vm_compute; reflexivity|].
  do 5 eexists. ex_tac.
Qed.

(* teardown in the middle of the first section (after the nested unlock, before the flush): five parked temporaries
   (one of them for a dead target) and two occupied cells are alive; ~World destroys each of them once *)
Example C03_history_flush_teardown_locked_nonvacuous : exists s hs hist s' r,
  hrun true 2 hx_cis (firstn 14 fx_script) = Ok (s, hs, hist) /\ lockc s = 1 /\
  xra_script 2 hx_cis (firstn 14 fx_script) = true /\ x_viol (xrun 2 hx_cis (firstn 14 fx_script)) = 0 /\
  bufs s = [[AAssign (0, 0) 2 0; ADestroyNow (2, 0); AAssign (0, 0) 3 1; ARemove (1, 0) 2];
            [AAssign (1, 0) 3 0; ACreate (3, 0) true 2 si_null; AAssign (3, 0) 2 1; AAssign (2, 0) 1 2]]%N /\
  lc_live (destroy_pals hx_cis) hist = [PTmp 0 1; PTmp 1 2; PTmp 1 1; PTmp 1 0; PTmp 0 0; PArch 1 2 0; PArch 0 1 0] /\
  step s OTeardown = Ok (s', r) /\
  rev (log s') = [EvD 2 (PArch 0 1 0); EvD 3 (PArch 1 2 0); EvD 3 (PTmp 0 0); EvD 8 (PTmp 0 1); EvD 8 (PTmp 1 0); EvD 3 (PTmp 1 1); EvD 2 (PTmp 1 2)] /\
  lc_ok (destroy_pals hx_cis) (hist ++ rev (log s')) = true /\ lc_live (destroy_pals hx_cis) (hist ++ rev (log s')) = [].
Proof. do 5 eexists. ex_tac. Qed.

(* the hypotheses of the flush theorem (7d) on a reachable state: the state before the flushing unlock of fx_script *)
Example C03_flush_nonvacuous : exists s hs hist x L s',
  hrun true 2 hx_cis (firstn 14 fx_script) = Ok (s, hs, hist) /\ x = xrun 2 hx_cis (firstn 14 fx_script) /\
  LR hx_cis s hs x /\ x_viol (x_flush (xw_lock x 0)) = x_viol x /\ tmps_wf s /\ packs_ok s = true /\
  flush (set_lock s 0) = Ok s' /\ LS hx_cis s (parked hx_cis s) L /\ L = lc_live (destroy_pals hx_cis) hist.
Proof.
  assert (E15 : exists r, hrun true 2 hx_cis (firstn 14 fx_script ++ [XoUnlock]) = Ok r) by (eexists; vm_compute; reflexivity).
  destruct E15 as (r15 & E15). apply hrun_snoc in E15. destruct E15 as (s & hs & hist & E & Hs).
  assert (Ha : forallb (alphaL_b hx_cis) (firstn 14 fx_script) = true) by (vm_compute; reflexivity).
  assert (Hv : x_viol (xrun 2 hx_cis (firstn 14 fx_script)) = 0) by (vm_compute; reflexivity).
  assert (Hra : ra_script true 2 hx_cis (firstn 14 fx_script) = true) by (vm_compute; reflexivity).
  assert (El : length hs = 4 /\ lockc s = 1 /\ packs_ok s = true).
  { pose proof (f_equal (fun r => match r with Ok (s0, hs0, _) => (length hs0, lockc s0, packs_ok s0) | Err _ => (0, 0, false) end) E) as E'.
    vm_compute in E'. inversion E'. auto. }
  destruct El as (El & Elk & Epk).
  assert (Hb : (N.of_nat (length hs) < 16777000)%N) by (rewrite El; vm_compute; reflexivity).
  destruct (hrun_HL true 2 hx_cis _ s hs hist (proj1 hx_cis_ok) (proj2 hx_cis_ok) Ha E Hv Hb Hra) as [HR Hlog Hwf (L & Hr & HL)].
  unfold hstep in Hs. apply bind_ok in Hs. destruct Hs as ((s1, out) & Hst & _). cbn [concretize] in Hst.
  rewrite step_unlock_flush in Hst by (rewrite Elk; auto). apply bind_ok in Hst. destruct Hst as (s2 & Hfl & _).
  exists s, hs, hist, (xrun 2 hx_cis (firstn 14 fx_script)), L, s2.
  split; [exact E|]. split; [reflexivity|]. split; [exact HR|]. split; [vm_compute; reflexivity|]. split; [exact Hwf|]. split; [exact Epk|].
  split; [exact Hfl|]. split; [exact HL|]. unfold lc_live. rewrite Hr. reflexivity.
Qed.

(* (7e) on the state sB of section 2 ... the loop on a reachable mid-flush state is exercised by the scripts above; the
   contract (7f) on the packs of fx_script and on a pack that violates it *)
Example C03_pack_contract_nonvacuous :
  pack_fresh 2%N [AAssign (0, 0)%N 2 0] = true /\ ra_ok [] [AAssign (0, 0)%N 2 0] = true /\ pack_once 2%N [AAssign (0, 0)%N 2 0] = true /\
  pack_fresh 2%N [ARemove (0, 0)%N 1; AAssign (0, 0)%N 1 0] = true /\ ra_ok [] [ARemove (0, 0)%N 1; AAssign (0, 0)%N 1 0] = false /\
  pack_once 2%N [ARemove (0, 0)%N 1; AAssign (0, 0)%N 1 0] = false.
Proof. vm_compute. repeat split. Qed.

(* ---- the contract is needed: x_viol = 0 does not exclude these, C05's refinement holds on them, and the event stream
   shows a move construction over a live instance (the checker rejects it) ---- *)
Definition fx_cis : list cinfo := [pal_info 0 0; pal_info 2 0].
Definition hist_of2 (cis : list cinfo) (ops : list xop) : list event :=
  match hrun false 2 cis ops with Ok (_, _, hist) => hist | Err _ => [] end.

(* removeComponent then assign of the same component in one pack, on an entity that has it: the component set does not
   change, nothing is destroyed, and the temporary is move-constructed over the live cell *)
Example C03_remove_then_assign_constructs_over_live_instance :
  let ops := [XoCreate 0 2%N [] false; XoLock; XoRemove 0 0 1 false; XoAssign 0 0 1 None; XoUnlock] in
  cis_ok fx_cis /\ lc_cis_ok fx_cis /\ forallb (alphaL_b fx_cis) ops = true /\ x_viol (xrun 2 fx_cis ops) = 0 /\
  refines_on false 2 fx_cis ops = true /\ xra_script 2 fx_cis ops = false /\ ra_script false 2 fx_cis ops = false /\
  hist_of2 fx_cis ops = [EvC 2 (PArch 0 1 0); EvC 2 (PTmp 0 0); EvMC 2 (PArch 0 1 0) (PTmp 0 0); EvD 2 (PTmp 0 0)] /\
  lc_ok (destroy_pals fx_cis) (hist_of2 fx_cis ops) = false.
Proof.
  split; [unfold cis_ok, fx_cis; repeat constructor; simpl; intros; congruence|]. split; [apply lc_cis_okb_ok; vm_compute; reflexivity|].
  vm_compute. repeat split.
Qed.

(* the same with another assign in the pack: the entity moves, the cell is move-constructed from the old cell AND from
   the temporary *)
Example C03_remove_then_assign_constructs_twice :
  let ops := [XoCreate 0 2%N [] false; XoLock; XoRemove 0 0 1 false; XoAssign 0 0 1 None; XoAssign 0 0 0 None; XoUnlock] in
  forallb (alphaL_b fx_cis) ops = true /\ x_viol (xrun 2 fx_cis ops) = 0 /\
  refines_on false 2 fx_cis ops = true /\ xra_script 2 fx_cis ops = false /\ ra_script false 2 fx_cis ops = false /\
  hist_of2 fx_cis ops = [EvC 2 (PArch 0 1 0); EvC 2 (PTmp 0 0); EvMC 2 (PArch 1 1 0) (PArch 0 1 0); EvD 2 (PArch 0 1 0);
                         EvMC 2 (PArch 1 1 0) (PTmp 0 0); EvD 2 (PTmp 0 0)] /\
  lc_ok (destroy_pals fx_cis) (hist_of2 fx_cis ops) = false.
Proof. vm_compute. repeat split. Qed.

(* assign, remove, assign again in one pack on an entity without the component: two temporaries are move-constructed
   into the same cell *)
Example C03_assign_remove_assign_constructs_twice :
  let ops := [XoCreate 0 1%N [] false; XoLock; XoAssign 0 0 1 None; XoRemove 0 0 1 false; XoAssign 0 0 1 None; XoUnlock] in
  forallb (alphaL_b fx_cis) ops = true /\ x_viol (xrun 2 fx_cis ops) = 0 /\
  refines_on false 2 fx_cis ops = true /\ xra_script 2 fx_cis ops = false /\ ra_script false 2 fx_cis ops = false /\
  hist_of2 fx_cis ops = [EvC 2 (PTmp 0 0); EvC 2 (PTmp 0 1); EvMC 2 (PArch 1 1 0) (PTmp 0 0); EvMC 2 (PArch 1 1 0) (PTmp 0 1);
                         EvD 2 (PTmp 0 0); EvD 2 (PTmp 0 1)] /\
  lc_ok (destroy_pals fx_cis) (hist_of2 fx_cis ops) = false.
Proof. vm_compute. repeat split. Qed.

(* ... while the same commands in DIFFERENT packs (another entity's command in between) are fine: the removal is applied
   (the instance is destroyed) before the pack with the assign starts *)
Example C03_remove_and_assign_in_different_packs_is_accepted :
  let ops := [XoCreate 0 2%N [] false; XoCreate 0 0%N [] false; XoLock; XoRemove 0 0 1 false; XoAssign 0 1 0 None; XoAssign 0 0 1 None; XoUnlock] in
  forallb (alphaL_b fx_cis) ops = true /\ x_viol (xrun 2 fx_cis ops) = 0 /\ xra_script 2 fx_cis ops = true /\ ra_script false 2 fx_cis ops = true /\
  lc_ok (destroy_pals fx_cis) (hist_of2 fx_cis ops) = true /\
  lc_live (destroy_pals fx_cis) (hist_of2 fx_cis ops) = [PArch 0 1 0].
Proof. vm_compute. repeat split. Qed.

(* the model-level contract is more permissive: a command through a handle that was never issued (entity number 5) is
   recorded by the model through the null handle and splits the pack; the specification does not record it *)
Example C03_model_contract_is_more_permissive :
  let ops := [XoCreate 0 2%N [] false; XoLock; XoRemove 0 0 1 false; XoAssign 0 5 0 None; XoAssign 0 0 1 None; XoUnlock] in
  forallb (alphaL_b fx_cis) ops = true /\ x_viol (xrun 2 fx_cis ops) = 0 /\ xra_script 2 fx_cis ops = false /\ ra_script false 2 fx_cis ops = true /\
  hist_of2 fx_cis ops = [EvC 2 (PArch 0 1 0); EvC 2 (PTmp 0 1); EvD 2 (PArch 0 1 0); EvMC 2 (PArch 0 1 0) (PTmp 0 1); EvD 2 (PTmp 0 1)] /\
  lc_ok (destroy_pals fx_cis) (hist_of2 fx_cis ops) = true /\ lc_live (destroy_pals fx_cis) (hist_of2 fx_cis ops) = [PArch 0 1 0].
Proof. vm_compute. repeat split. Qed.

(* ================================================================================================ *)
(* 8. HISTORY LEVEL for the EXTENDED unlocked alphabet: clone, clear, clearArchetype, deferred destroy, builder edits *)
(* proofs/LifecycleExtLang.v, LifecycleExtOps.v, LifecycleExtMain.v.
   Scripts over ManagerExtMain.alpha_e -- the alphabet of C02_unlocked_ext_refines_on: everything of section 5 plus
   destroy() (deferred: the entity is destroyed by the next update()), update(), clearArchetype, clear(), clone and one
   builder edit (begin(e) / begin() .assign<..>(v)... .remove<..>()... .end()), all issued unlocked -- with the
   hypotheses of C02_unlocked_ext_refines_on plus lc_cis_ok on the component table (section 5).  The history is hrun
   (section 5).  The events of the new operations (function level, all states: 8d, 8e and section 3):
     update          each marked handle goes through the checked destroyNow: the events of section 4 (arch_remove) per
                     entity that is still alive, nothing for a stale request;
     clearArchetype  clear_events of that archetype (section 3): every occupied cell of a tracked component dies once;
     clear           the same for every archetype in index order;
     clone           clone_events: one EvCP (new last cell <- source cell) per component whose type logs; the checker
                     (lib/mgrcheck.py Lifecycle.feed, kind CP) wants the destination dead and the source alive and makes
                     the destination alive.  The model logs the copy of EVERY logging type (a type without clone function
                     makes cloneEntity fail, and the specification puts that clone out of contract), so clone needs NO
                     condition on the component table beyond lc_cis_ok (C03_clone_without_clone_function_is_out_of_contract);
     builder edit    on an entity: the external move of section 4 with the assigned components in the skip mask (their
                     cells are left unconstructed), then per assignment one EvV at that cell and the afterAssign callback;
                     on a new entity: Archetype::insert with every component skipped (no event), then the same.
   The contract of the builder (x_viol = 0: each component named at most once, none both assigned and removed, assigned
   components new to the entity) is what makes every skipped cell constructed exactly once. *)
From Mustache.proofs Require Import ManagerExtInv ManagerExtMain LifecycleExtLang LifecycleExtOps LifecycleExtMain.

(* (8a) the history is accepted by the bracket checker and the places alive at the end are exactly the cells of the
   tracked components of the live entities *)
Theorem C03_history_brackets_ext : forall typed n cis ops s hs hist,
  cis_ok cis -> lc_cis_ok cis -> forallb (alpha_e cis) ops = true ->
  hrun typed n cis ops = Ok (s, hs, hist) -> x_viol (xrun n cis ops) = 0 -> (N.of_nat (length hs) < 16777000)%N ->
  lc_ok (destroy_pals cis) hist = true /\
  forall p, In p (lc_live (destroy_pals cis) hist) <-> live_comp_place cis s hs (xrun n cis ops) p.
Proof. exact history_brackets_ext. Qed.
Print Assumptions C03_history_brackets_ext.

(* (8b) world destruction after such a script: nothing stays alive *)
Theorem C03_history_teardown_no_leak_ext : forall typed n cis ops s hs hist s' r,
  cis_ok cis -> lc_cis_ok cis -> forallb (alpha_e cis) ops = true ->
  hrun typed n cis ops = Ok (s, hs, hist) -> x_viol (xrun n cis ops) = 0 -> (N.of_nat (length hs) < 16777000)%N ->
  step s OTeardown = Ok (s', r) ->
  lc_ok (destroy_pals cis) (hist ++ rev (log s')) = true /\ lc_live (destroy_pals cis) (hist ++ rev (log s')) = [].
Proof. exact history_teardown_ext. Qed.
Print Assumptions C03_history_teardown_no_leak_ext.

(* (8c) "at every point": the same after every prefix of the script, teardown included *)
Theorem C03_history_every_point_ext : forall typed n cis ops1 ops2 s hs hist,
  cis_ok cis -> lc_cis_ok cis -> forallb (alpha_e cis) (ops1 ++ ops2) = true ->
  hrun typed n cis (ops1 ++ ops2) = Ok (s, hs, hist) -> x_viol (xrun n cis (ops1 ++ ops2)) = 0 ->
  (N.of_nat (length hs) < 16777000)%N ->
  exists s1 hs1 hist1, hrun typed n cis ops1 = Ok (s1, hs1, hist1) /\
    lc_ok (destroy_pals cis) hist1 = true /\
    (forall p, In p (lc_live (destroy_pals cis) hist1) <-> live_comp_place cis s1 hs1 (xrun n cis ops1) p) /\
    (forall s' r, step s1 OTeardown = Ok (s', r) ->
       lc_ok (destroy_pals cis) (hist1 ++ rev (log s')) = true /\ lc_live (destroy_pals cis) (hist1 ++ rev (log s')) = []).
Proof. exact history_every_point_ext. Qed.
Print Assumptions C03_history_every_point_ext.

(* (8d) per operation (the induction step) from a state related to the specification by the invariant of C02's extended
   refinement (MInvE): the operation's events are accepted from the set of occupied tracked cells and lead to the set of
   occupied tracked cells of the new state *)
Theorem C03_operation_preserves_live_cells_ext : forall cis typed s hs al x o s1 out L,
  MInvE cis s hs al x -> lc_cis_ok cis -> alpha_e cis o = true -> x_viol x = 0 -> x_viol (x_step x o) = 0 ->
  (N.of_nat (length hs) < 16777000)%N -> step s (concretize typed hs o) = Ok (s1, out) ->
  (forall p, In p L <-> aplace cis (archs s) p) ->
  exists evs L', log s1 = rev evs ++ log s /\ bufs s1 = bufs s /\ tmps s1 = tmps s /\
    lc_run (destroy_pals cis) L evs = Some L' /\ forall p, In p L' <-> aplace cis (archs s1) p.
Proof. exact LStepE. Qed.
Print Assumptions C03_operation_preserves_live_cells_ext.

(* (8e) function level, all states: Archetype::cloneEntity logs one copy construction per component whose type logs, from
   the source slot into the new last slot, and nothing else; initComponent<T>(x) logs one value construction (if the type
   logs) and the afterAssign callback at the cell the entity is located at *)
Theorem C03_clone_entity_events : forall s ai src dst sidx s',
  clone_entity s ai src dst sidx = Ok s' ->
  exists a, nth_error (archs s) ai = Some a /\
    log s' = rev (clone_events (cinfos s) ai (length (am_ents a)) sidx (mitems (am_mask a))) ++ log s.
Proof.
  intros s ai src dst sidx s' H. destruct (clone_entity_tr _ _ _ _ _ _ H) as (a & Ha & T). exists a. split; [exact Ha|exact (tr_log _ _ _ _ T)].
Qed.
Print Assumptions C03_clone_entity_events.

Theorem C03_init_component_events : forall s h0 c z s',
  init_component_arch s h0 c z = Ok s' ->
  exists inf l ai, nth_error (cinfos s) c = Some inf /\ nth_error (locs s) (N.to_nat (fst h0)) = Some l /\ l_arch l = Some ai /\
    log s' = rev ((if ci_ev inf then [EvV (ci_pal inf) (PArch ai c (l_idx l))] else []) ++
                  (if ci_aa inf then [EvAA (ci_pal inf) (PArch ai c (l_idx l)) h0] else [])) ++ log s.
Proof.
  intros s h0 c z s' H. destruct (init_component_tr [] _ _ _ _ _ H) as (inf & l & ai & A & B & C & T & _).
  exists inf, l, ai. split; [exact A|]. split; [exact B|]. split; [exact C|exact (tr_log _ _ _ _ T)].
Qed.
Print Assumptions C03_init_component_events.

(* ---- non-vacuity -------------------------------------------------------------------------------- *)
(* hx_cis (section 5): 0 trivial, 1 instrumented (palette 2), 2 instrumented with afterAssign/beforeRemove (palette 3),
   3 described at run time and tracked (palette 8).
   #0 #1 = {1,2}; #2 = clone of #0 (instrumented components of palettes 2 and 3: two EvCP); #3 = {0,3}; #4 = {1} with a
   deferred destroy (it is still written afterwards); a builder edit gives #3 the components 1 and 2 and takes 3 away
   (external move, EvD of palette 8, two EvV and one afterAssign); update applies the deferred destroy of #4;
   clearArchetype empties {1,2} with its three members #0 #1 #2 (six EvD); a builder creates #5 = {2,3}; #6 = clone of the
   edited #3; clear() destroys everything; life afterwards: #7 = {1,2} edited to {2,3}. *)
Definition ex_script : list xop :=
  [XoCreate 0 6%N [] false; XoCreate 0 6%N [] false; XoClone 0;
   XoCreate 0 9%N [] false;
   XoCreate 0 2%N [] false; XoDestroy 0 4; XoSet 4 1 5%Z;
   XoBuild 0 (Some 3) [(1, 11%Z); (2, 22%Z)] [3];
   XoUpdate;
   XoClearArch 6%N [];
   XoBuild 0 None [(2, 33%Z); (3, 9%Z)] [];
   XoClone 3;
   XoClear;
   XoCreate 0 6%N [] false; XoBuild 0 (Some 7) [(3, 1%Z)] [1]].

Example C03_history_ext_nonvacuous :
  cis_ok hx_cis /\ lc_cis_ok hx_cis /\ forallb (alpha_e hx_cis) ex_script = true /\ x_viol (xrun 1 hx_cis ex_script) = 0 /\
  (forall typed, refines_on typed 1 hx_cis ex_script = true) /\
  (* just before clear(): #3 (edited) and its clone #6 in archetype {0,1,2}, #5 in {2,3} *)
  (exists s hs hist s' r,
     hrun true 1 hx_cis (firstn 12 ex_script) = Ok (s, hs, hist) /\
     hs = [(0, 0); (1, 0); (2, 0); (3, 0); (4, 0); (2, 1); (1, 1)]%N /\
     map (is_valid s) hs = [false; false; false; true; false; true; true] /\
     map am_mask (archs s) = [6; 9; 2; 7; 12]%N /\
     map am_ents (archs s) = [[]; []; []; [(3, 0); (1, 1)]; [(2, 1)]]%N /\
     hist = [EvC 2 (PArch 0 1 0); EvC 3 (PArch 0 2 0); EvAA 3 (PArch 0 2 0) (0, 0)%N;
             EvC 2 (PArch 0 1 1); EvC 3 (PArch 0 2 1); EvAA 3 (PArch 0 2 1) (1, 0)%N;
             (* clone of #0 *)
             EvCP 2 (PArch 0 1 2) (PArch 0 1 0); EvCP 3 (PArch 0 2 2) (PArch 0 2 0);
             EvC 8 (PArch 1 3 0); EvC 2 (PArch 2 1 0);
             (* builder edit of #3: component 3 is not moved and dies with the vacated slot; 1 and 2 are constructed from values *)
             EvD 8 (PArch 1 3 0); EvV 2 (PArch 3 1 0); EvV 3 (PArch 3 2 0); EvAA 3 (PArch 3 2 0) (3, 0)%N;
             (* update: the deferred destroy of #4 *)
             EvD 2 (PArch 2 1 0);
             (* clearArchetype {1,2}: three members *)
             EvD 2 (PArch 0 1 0); EvD 2 (PArch 0 1 1); EvD 2 (PArch 0 1 2);
             EvD 3 (PArch 0 2 0); EvD 3 (PArch 0 2 1); EvD 3 (PArch 0 2 2);
             (* builder creation of #5 *)
             EvV 3 (PArch 4 2 0); EvAA 3 (PArch 4 2 0) (2, 1)%N; EvV 8 (PArch 4 3 0);
             (* clone of #3 *)
             EvCP 2 (PArch 3 1 1) (PArch 3 1 0); EvCP 3 (PArch 3 2 1) (PArch 3 2 0)] /\
     lc_ok (destroy_pals hx_cis) hist = true /\
     lc_live (destroy_pals hx_cis) hist = [PArch 3 2 1; PArch 3 1 1; PArch 4 3 0; PArch 4 2 0; PArch 3 2 0; PArch 3 1 0] /\
     step s OTeardown = Ok (s', r) /\ count_ev is_dtor (rev (log s')) = 6 /\
     lc_live (destroy_pals hx_cis) (hist ++ rev (log s')) = []) /\
  (* the whole script *)
  (forall typed, exists s hs hist s' r,
     hrun typed 1 hx_cis ex_script = Ok (s, hs, hist) /\ (N.of_nat (length hs) < 16777000)%N /\
     hs = [(0, 0); (1, 0); (2, 0); (3, 0); (4, 0); (2, 1); (1, 1); (2, 2)]%N /\
     map am_ents (archs s) = [[]; []; []; []; [(2, 2)]]%N /\
     length hist = 39 /\ count_ev is_dtor hist = 16 /\
     lc_ok (destroy_pals hx_cis) hist = true /\
     lc_live (destroy_pals hx_cis) hist = [PArch 4 3 0; PArch 4 2 0] /\
     step s OTeardown = Ok (s', r) /\ lc_live (destroy_pals hx_cis) (hist ++ rev (log s')) = []).
Proof.
  split; [exact (proj1 hx_cis_ok)|]. split; [exact (proj2 hx_cis_ok)|]. split; [vm_compute; reflexivity|].
  split; [vm_compute; reflexivity|]. split; [intros typed; destruct typed; vm_compute; reflexivity|].
  split; [do 5 eexists; ex_tac|]. intros typed. destruct typed; do 5 eexists; ex_tac.
Qed.

(* the hypotheses of the per-operation theorem (8d) on a reachable state: the state before the builder edit of #3 *)
Example C03_operation_ext_nonvacuous : exists s hs hist al x s1 out,
  hrun true 1 hx_cis (firstn 7 ex_script) = Ok (s, hs, hist) /\ x = xrun 1 hx_cis (firstn 7 ex_script) /\
  MInvE hx_cis s hs al x /\ alpha_e hx_cis (XoBuild 0 (Some 3) [(1, 11%Z); (2, 22%Z)] [3]) = true /\ x_viol x = 0 /\
  x_viol (x_step x (XoBuild 0 (Some 3) [(1, 11%Z); (2, 22%Z)] [3])) = 0 /\ (N.of_nat (length hs) < 16777000)%N /\
  step s (concretize true hs (XoBuild 0 (Some 3) [(1, 11%Z); (2, 22%Z)] [3])) = Ok (s1, out) /\
  (forall p, In p (lc_live (destroy_pals hx_cis) hist) <-> aplace hx_cis (archs s) p).
Proof.
  assert (E8 : exists r, hrun true 1 hx_cis (firstn 7 ex_script ++ [XoBuild 0 (Some 3) [(1, 11%Z); (2, 22%Z)] [3]]) = Ok r)
    by (eexists; vm_compute; reflexivity).
  destruct E8 as (r8 & E8). apply hrun_snoc in E8. destruct E8 as (s & hs & hist & E & Hs).
  unfold hstep in Hs. apply bind_ok in Hs. destruct Hs as ((s1, out) & Hst & _).
  assert (Ha : forallb (alpha_e hx_cis) (firstn 7 ex_script) = true) by (vm_compute; reflexivity).
  assert (Hb : within (length hs)).
  { assert (El : length hs = 5) by (apply (f_equal (fun r => match r with Ok (_, hs0, _) => length hs0 | Err _ => 0 end)) in E;
      vm_compute in E; symmetry; exact E). rewrite El. vm_compute. reflexivity. }
  assert (Hv : x_viol (xrun 1 hx_cis (firstn 7 ex_script)) = 0) by (vm_compute; reflexivity).
  destruct (hrun_HInvE true 1 hx_cis (firstn 7 ex_script) s hs hist (proj1 hx_cis_ok) (proj2 hx_cis_ok) Ha E Hv Hb)
    as (al & [HE _ _ _ (L & Hr & HL)]).
  exists s, hs, hist, al, (xrun 1 hx_cis (firstn 7 ex_script)), s1, out. split; [exact E|]. split; [reflexivity|]. split; [exact HE|].
  split; [vm_compute; reflexivity|]. split; [vm_compute; reflexivity|]. split; [vm_compute; reflexivity|]. split; [exact Hb|]. split; [exact Hst|].
  unfold lc_live. rewrite Hr. exact HL.
Qed.

(* (8e) on concrete states: the clone of entity 0 of sA (section 3: archetype 0 = {0,1,2} with three members) into a
   new fourth slot, and initComponent of component 1 of entity 3 *)
Example C03_ex_clone_entity : exists s1 d s',
  create_id sA = Ok (s1, d) /\ clone_entity s1 0 (h 0) d 0 = Ok s' /\
  rev (new_log s1 s') = [EvCP 2 (PArch 0 1 3) (PArch 0 1 0); EvCP 3 (PArch 0 2 3) (PArch 0 2 0)] /\
  clone_events (cinfos sA) 0 3 0 (mitems 7%N) = [EvCP 2 (PArch 0 1 3) (PArch 0 1 0); EvCP 3 (PArch 0 2 3) (PArch 0 2 0)].
Proof. do 3 eexists. ex_tac. Qed.

Example C03_ex_init_component : exists s',
  init_component_arch sA (h 3) 1 7%Z = Ok s' /\ new_log sA s' = [EvV 2 (PArch 1 1 0)].
Proof. eexists. ex_tac. Qed.

(* clone needs no condition on the component table: a run-time described type (no clone function; C interface) makes
   Archetype::cloneEntity fail in the model, and the specification counts that clone as out of contract *)
Example C03_clone_without_clone_function_is_out_of_contract :
  let ops := [XoCreate 0 8%N [] false; XoClone 0] in
  cis_ok hx_cis /\ forallb (alpha_e hx_cis) ops = true /\ x_viol (xrun 1 hx_cis ops) = 1 /\
  hrun true 1 hx_cis ops = Err EmptyFunction.
Proof. split; [exact (proj1 hx_cis_ok)|]. vm_compute. repeat split. Qed.
