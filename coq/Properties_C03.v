(* C03 -- every component instance is constructed once and destroyed once.
   Function-level theorems about the lifecycle event log of Manager.v (tied to the code by the tier-B correspondence
   of ./check C03), each for ALL states and inputs.  Proofs: proofs/LifecycleProofs.v.
   The log is reversed (emit conses): `log s' = rev evs ++ log s` says that evs are the new events in time order.
   Event lists used below (all defined in proofs/LifecycleProofs.v; `comps` is always `mitems mask`, duplicate-free):
     dtor_events cis ai slot comps   one EvD at (ai, c, slot) per c in comps whose type has ci_destroy && ci_ev
     ma_events cis ai src dst comps  one EvMA (ai,c,dst) <- (ai,c,src) per c whose type has ci_move && ci_ev
     br_events cis ai idx ent rm comps   one EvBR at (ai,c,idx) with handle ent per c in rm whose type has ci_br
     cd_events inf ai c slot h       construct_default: at most one EvC (ci_create && ci_ev), then at most one EvAA
     move_events ...                 per destination component: EvMC from the source cell, or cd_events, or nothing
     vacate_events cis ai idx last m dtor_events at idx if idx = last, else ma_events last -> idx ++ dtor_events at last
     clear_events cis ai a           per such component, EvD at slots 0 .. am_size a - 1 (nothing if a has no members)
     tmp_dtor_events cis k b         one EvD at PTmp k n per `AAssign _ cid n` of b whose type has ci_destroy && ci_ev *)
Require Import Coq.Lists.List Coq.NArith.NArith Coq.ZArith.ZArith Coq.Bool.Bool.
From Mustache Require Import Res Manager Palette.
From Mustache.proofs Require Import LifecycleProofs.
Import ListNotations.

(* ================================================================================================ *)
(* 1. temporaries parked in command buffers                                                          *)

(* (1a) recording an assign while locked appends exactly one temporary -- number `length tl` of buffer tid -- and the
   command naming it; one EvC at that temporary iff the constructor is not skipped and the type has a logging create *)
Theorem C03_assign_locked_creates_one_temporary : forall s tid h c sk s' n,
  assign_locked s tid h c sk = Ok (s', n) ->
  exists inf tl b,
    nth_error (cinfos s) c = Some inf /\ nth_error (tmps s) tid = Some tl /\ nth_error (bufs s) tid = Some b /\
    n = length tl /\
    tmps s' = upd (tmps s) tid (tl ++ [tmp_value inf sk]) /\
    bufs s' = upd (bufs s) tid (b ++ [AAssign h c n]) /\
    log s' = assign_ctor_events inf sk (PTmp (epoch s * 64 + tid) n) ++ log s /\
    cinfos s' = cinfos s /\ epoch s' = epoch s /\ archs s' = archs s.
Proof. exact assign_locked_spec. Qed.
Print Assumptions C03_assign_locked_creates_one_temporary.

(* (1b) applyCommandPack: the primary place of every event it emits is an archetype cell (temporaries occur only as
   the source of a move construction); it leaves buffers, temporaries, epoch and component table alone.
   In particular it never constructs or destroys a temporary. *)
Theorem C03_apply_pack_events_at_archetype_cells : forall tid s p s',
  apply_pack tid s p = Ok s' ->
  cinfos s' = cinfos s /\ epoch s' = epoch s /\ bufs s' = bufs s /\ tmps s' = tmps s /\
  exists evs, log s' = evs ++ log s /\ Forall arch_ev evs.
Proof. exact apply_pack_emits. Qed.
Print Assumptions C03_apply_pack_events_at_archetype_cells.

Theorem C03_apply_pack_no_temporary_lifecycle : forall tid s p s',
  apply_pack tid s p = Ok s' ->
  exists evs, log s' = evs ++ log s /\
    forall pal k n, ~ In (EvD pal (PTmp k n)) evs /\ ~ In (EvC pal (PTmp k n)) evs /\ ~ In (EvV pal (PTmp k n)) evs.
Proof. exact apply_pack_no_tmp_lifecycle. Qed.
Print Assumptions C03_apply_pack_no_temporary_lifecycle.

(* (1c) applyStorage of buffer b of thread tid: pack events pk (archetype cells only), then the destructor pass over
   the WHOLE buffer in buffer order -- applied pack or skipped pack (dead target) makes no difference *)
Theorem C03_apply_storage_destroys_buffer_temporaries : forall s tid b s',
  apply_storage s (tid, b) = Ok s' ->
  cinfos s' = cinfos s /\ epoch s' = epoch s /\ bufs s' = bufs s /\ tmps s' = tmps s /\
  exists pk, Forall arch_ev pk /\
    log s' = rev (tmp_dtor_events (cinfos s) (epoch s * 64 + tid) b) ++ pk ++ log s.
Proof. exact apply_storage_spec. Qed.
Print Assumptions C03_apply_storage_destroys_buffer_temporaries.

(* (1d, 2) flush: buffers and temporaries emptied, epoch advanced; its destructor events at temporaries are exactly
   the final passes, buffer after buffer *)
Theorem C03_flush_empties_buffers_and_advances_epoch : forall s s',
  flush s = Ok s' ->
  bufs s' = map (fun _ => []) (bufs s) /\ tmps s' = map (fun _ => []) (tmps s) /\
  epoch s' = S (epoch s) /\ cinfos s' = cinfos s /\
  exists evs, log s' = rev evs ++ log s /\
    filter is_tmp_dtor evs = flush_tmp_dtors (cinfos s) (epoch s) (combine (seq 0 (length (bufs s))) (bufs s)).
Proof. exact flush_spec. Qed.
Print Assumptions C03_flush_empties_buffers_and_advances_epoch.

(* (1e) CONCLUSION: a temporary parked in buffer tid is destroyed exactly once by the flush (if its type has a logging
   destroy function; never otherwise), whatever became of the entity it was recorded for *)
Theorem C03_flush_destroys_each_temporary_once : forall s s' tid b h cid n inf,
  tmps_wf s -> flush s = Ok s' ->
  nth_error (bufs s) tid = Some b -> In (AAssign h cid n) b -> nth_error (cinfos s) cid = Some inf ->
  exists evs, log s' = rev evs ++ log s /\
    filter (is_dtor_at (PTmp (epoch s * 64 + tid) n)) evs =
    if ci_destroy inf && ci_ev inf then [EvD (ci_pal inf) (PTmp (epoch s * 64 + tid) n)] else [].
Proof. exact flush_destroys_temporary_once_wf. Qed.
Print Assumptions C03_flush_destroys_each_temporary_once.

(* the numbering invariant tmps_wf (the assign commands of a buffer name temporaries 0,1,2,... of that buffer, one
   each) holds initially and is kept by every primitive that touches buffers: recording, lock, flush *)
Theorem C03_buffer_numbering_invariant :
  (forall n cis, tmps_wf (init n cis)) /\
  (forall s tid h c sk s' n, tmps_wf s -> assign_locked s tid h c sk = Ok (s', n) -> tmps_wf s') /\
  (forall s tid c s', (match c with AAssign _ _ _ => False | _ => True end) -> tmps_wf s -> push_cmd s tid c = Ok s' -> tmps_wf s') /\
  (forall s tid n v s', tmps_wf s -> write_tmp s tid n v = Ok s' -> tmps_wf s') /\
  (forall s, tmps_wf s -> tmps_wf (do_lock s)) /\
  (forall s s', tmps_wf s -> flush s = Ok s' -> tmps_wf s').
Proof.
  exact (conj tmps_wf_init (conj tmps_wf_assign_locked (conj tmps_wf_push_cmd (conj tmps_wf_write_tmp
         (conj tmps_wf_do_lock tmps_wf_flush))))).
Qed.
Print Assumptions C03_buffer_numbering_invariant.

(* (2) with at most 64 threads, places of temporaries of different lock periods (epochs) never coincide;
   within one period, different buffers never share a place *)
Theorem C03_temporary_places_of_different_epochs_differ : forall ep ep' tid tid' n n',
  tid < 64 -> tid' < 64 -> ep <> ep' -> PTmp (ep * 64 + tid) n <> PTmp (ep' * 64 + tid') n'.
Proof. exact tmp_places_distinct. Qed.
Print Assumptions C03_temporary_places_of_different_epochs_differ.

Theorem C03_temporary_places_of_different_buffers_differ : forall ep tid tid' n n',
  tid <> tid' -> PTmp (ep * 64 + tid) n <> PTmp (ep * 64 + tid') n'.
Proof. exact tmp_places_distinct_tid. Qed.
Print Assumptions C03_temporary_places_of_different_buffers_differ.

(* ================================================================================================ *)
(* 3. destruction of occupied slots                                                                 *)

Theorem C03_call_destructor_events : forall s ai slot s',
  call_destructor s ai slot = Ok s' ->
  exists a, nth_error (archs s) ai = Some a /\
    log s' = rev (dtor_events (cinfos s) ai slot (mitems (am_mask a))) ++ log s.
Proof. exact call_destructor_events. Qed.
Print Assumptions C03_call_destructor_events.

(* what dtor_events contains: exactly one EvD per component with a logging destroy function, and nothing else *)
Theorem C03_slot_destroyed_once_per_component : forall cis ai slot comps c inf,
  NoDup comps -> In c comps -> nth_error cis c = Some inf ->
  filter (is_dtor_at (PArch ai c slot)) (dtor_events cis ai slot comps) =
  if ci_destroy inf && ci_ev inf then [EvD (ci_pal inf) (PArch ai c slot)] else [].
Proof. exact dtor_events_once. Qed.
Print Assumptions C03_slot_destroyed_once_per_component.

Theorem C03_slot_destruction_emits_nothing_else : forall cis ai slot comps,
  Forall (fun e => exists pal c, e = EvD pal (PArch ai c slot) /\ In c comps) (dtor_events cis ai slot comps).
Proof. exact dtor_events_only. Qed.
Print Assumptions C03_slot_destruction_emits_nothing_else.

Theorem C03_mask_items_are_duplicate_free : forall m, NoDup (mitems m).
Proof. exact mitems_NoDup. Qed.
Print Assumptions C03_mask_items_are_duplicate_free.

(* Archetype::clear and clearArchetype *)
Theorem C03_arch_clear_events : forall s ai s',
  arch_clear s ai = Ok s' ->
  exists a, nth_error (archs s) ai = Some a /\ log s' = rev (clear_events (cinfos s) ai a) ++ log s.
Proof. exact arch_clear_events_log. Qed.
Print Assumptions C03_arch_clear_events.

Theorem C03_clear_archetype_events : forall s ai s',
  clear_archetype s ai = Ok s' ->
  exists a, nth_error (archs s) ai = Some a /\ log s' = rev (clear_events (cinfos s) ai a) ++ log s.
Proof. exact clear_archetype_events_log. Qed.
Print Assumptions C03_clear_archetype_events.

(* slots 0 .. am_size-1 of every component with a logging destroy function exactly once, nothing else *)
Theorem C03_clear_destroys_each_slot_once : forall cis ai a c i inf,
  am_ents a <> [] -> In c (mitems (am_mask a)) -> i < am_size a -> nth_error cis c = Some inf ->
  filter (is_dtor_at (PArch ai c i)) (clear_events cis ai a) =
  if ci_destroy inf && ci_ev inf then [EvD (ci_pal inf) (PArch ai c i)] else [].
Proof. exact clear_events_once. Qed.
Print Assumptions C03_clear_destroys_each_slot_once.

Theorem C03_clear_emits_nothing_else : forall cis ai a,
  Forall (fun e => exists pal c i, e = EvD pal (PArch ai c i) /\ In c (mitems (am_mask a)) /\ i < am_size a)
         (clear_events cis ai a).
Proof. exact clear_events_only. Qed.
Print Assumptions C03_clear_emits_nothing_else.

(* EntityManager::clear: each archetype cleared once, in index order, as it was before the call *)
Theorem C03_clear_all_events : forall s s',
  clear_all s = Ok s' ->
  log s' = rev (flat_map (arch_clear_events (cinfos s) (archs s)) (seq 0 (length (archs s)))) ++ log s.
Proof. exact clear_all_events_log. Qed.
Print Assumptions C03_clear_all_events.

(* ~World with possibly non-empty command buffers: archetypes cleared, then every parked temporary destroyed *)
Theorem C03_teardown_events : forall s s' r,
  step s OTeardown = Ok (s', r) ->
  log s' = rev (flush_tmp_dtors (cinfos s) (epoch s) (combine (seq 0 (length (bufs s))) (bufs s))) ++
           rev (flat_map (arch_clear_events (cinfos s) (archs s)) (seq 0 (length (archs s)))) ++ log s.
Proof. exact teardown_spec. Qed.
Print Assumptions C03_teardown_events.

(* what flush_tmp_dtors contains (shared by flush and teardown): each parked temporary exactly once *)
Theorem C03_parked_temporary_destroyed_once : forall cis ep bs tid b h cid n inf,
  nth_error bs tid = Some b -> NoDup (assign_nums b) -> In (AAssign h cid n) b -> nth_error cis cid = Some inf ->
  filter (is_dtor_at (PTmp (ep * 64 + tid) n)) (flush_tmp_dtors cis ep (combine (seq 0 (length bs)) bs)) =
  if ci_destroy inf && ci_ev inf then [EvD (ci_pal inf) (PTmp (ep * 64 + tid) n)] else [].
Proof. exact flush_tmp_dtors_once. Qed.
Print Assumptions C03_parked_temporary_destroyed_once.

(* ================================================================================================ *)
(* 4. moving an entity between archetypes                                                           *)

Theorem C03_internal_move_events : forall s ai src dst s',
  internal_move s ai src dst = Ok s' ->
  exists a, nth_error (archs s) ai = Some a /\
    log s' = rev (ma_events (cinfos s) ai src dst (mitems (am_mask a)) ++
                  dtor_events (cinfos s) ai src (mitems (am_mask a))) ++ log s.
Proof. exact internal_move_events_log. Qed.
Print Assumptions C03_internal_move_events.

(* arch_remove: beforeRemove only for components outside skip_on_remove; then the slot is vacated *)
Theorem C03_arch_remove_events : forall s ai idx h skip s',
  arch_remove s ai idx h skip = Ok s' ->
  exists a last, nth_error (archs s) ai = Some a /\ am_size a = S last /\
    log s' = rev (br_events (cinfos s) ai idx (br_ent (cinfos s) a idx h) (minter (am_mask a) (minverse skip)) (mitems (am_mask a)) ++
                  vacate_events (cinfos s) ai idx last (am_mask a)) ++ log s.
Proof. exact arch_remove_events_log. Qed.
Print Assumptions C03_arch_remove_events.

(* external_move of the entity at (prev, pidx) into the next free slot of archetype ai:
   per destination component -- present in the source: one EvMC from the source cell (iff ci_mctor && ci_ev);
   absent: construct_default unless in the skip mask; then beforeRemove for the source components that do NOT
   survive (not in the destination mask), then the source slot is vacated (swap with the last slot).
   All other archetypes are untouched. *)
Theorem C03_external_move_events : forall s ai h prev pidx skip s',
  external_move s ai h prev pidx skip = Ok s' ->
  exists a pa last pent, ai <> prev /\ nth_error (archs s) ai = Some a /\ nth_error (archs s) prev = Some pa /\
    am_size pa = S last /\ nth_error (am_ents pa) pidx = Some pent /\
    log s' = rev (move_events (cinfos s) ai (length (am_ents a)) prev pidx h skip (am_mask pa) (mitems (am_mask a)) ++
                  br_events (cinfos s) prev pidx pent (minter (am_mask pa) (minverse (am_mask a))) (mitems (am_mask pa)) ++
                  vacate_events (cinfos s) prev pidx last (am_mask pa)) ++ log s /\
    (forall i, i <> ai -> i <> prev -> nth_error (archs s') i = nth_error (archs s) i).
Proof. exact external_move_events_log. Qed.
Print Assumptions C03_external_move_events.

(* no event of an external move mentions a slot other than the new slot, the vacated slot and the last slot of the
   source archetype (the one swap-moved into the hole) *)
Theorem C03_external_move_touches_three_slots : forall cis ai idx prev pidx last h skip pm am pent,
  Forall (only_slots [(ai, idx); (prev, pidx); (prev, last)])
    (move_events cis ai idx prev pidx h skip pm (mitems am) ++
     br_events cis prev pidx pent (minter pm (minverse am)) (mitems pm) ++
     vacate_events cis prev pidx last pm).
Proof. exact external_move_events_slots. Qed.
Print Assumptions C03_external_move_touches_three_slots.

(* ================================================================================================ *)
(* Examples: the hypotheses are satisfiable on concrete states, and the event lists are what one expects.
   Components: 0 trivial, 1 instrumented (palette 2), 2 instrumented with afterAssign/beforeRemove (palette 3). *)
Ltac ex_tac := repeat (match goal with |- _ /\ _ => split; [vm_compute; reflexivity|] end); vm_compute; reflexivity.
Fixpoint run (s : mst) (ops : list op) : res mst :=
  match ops with [] => Ok s | o :: t => do r <- step s o; run (fst r) t end.
Definition get (r : res mst) : mst := match r with Ok s => s | Err _ => init 0 [] end.
Definition new_log (s s' : mst) : list event := firstn (length (log s') - length (log s)) (log s').
Definition cis3 : list cinfo := [pal_info 0 0; pal_info 2 0; pal_info 3 0].
Definition h (i : N) : handle := (i, 0%N).

(* archetype 0 = {0,1,2} with entities 0,1,2; archetype 1 = {1} with entity 3 *)
Definition sA : mst := get (run (init 2 cis3)
  [OCreate 0 7%N [] false; OCreate 0 7%N [] false; OCreate 0 7%N [] false; OCreate 0 2%N [] false]).
(* locked; thread 1 records an assign for entity 3, thread 0 a destroy of entity 1, thread 1 an assign with a value for
   entity 1 (dead by the time thread 1's buffer is applied), an assign of a component entity 0 already has, and a trivial one *)
Definition sB : mst := get (run sA
  [OLock; OAssign 1 (h 3) 2 ADefault false; ODestroyNow 0 (h 1); OAssign 1 (h 1) 2 (AValue 5%Z) true;
   OAssign 1 (h 0) 1 ADefault false; OAssign 1 (h 3) 0 ADefault false]).

Example C03_ex_states :
  map am_ents (archs sA) = [[h 0; h 1; h 2]; [h 3]] /\ map am_mask (archs sA) = [7%N; 2%N] /\
  bufs sB = [[ADestroyNow (h 1)]; [AAssign (h 3) 2 0; AAssign (h 1) 2 1; AAssign (h 0) 1 2; AAssign (h 3) 0 3]] /\
  tmps sB = [[]; [Some 1003%Z; Some 5%Z; Some 1002%Z; None]] /\ lockc sB = 1 /\ epoch sB = 0.
Proof. vm_compute. repeat split. Qed.

Example C03_ex_assign_locked : exists s',
  assign_locked sB 1 (h 2) 1 false = Ok (s', 4) /\ new_log sB s' = [EvC 2 (PTmp 1 4)].
Proof. eexists. ex_tac. Qed.

Example C03_ex_tmps_wf : tmps_wf sB.
Proof. unfold tmps_wf. vm_compute. repeat constructor. Qed.

(* the flush of sB: the temporary recorded for the dead entity 1 (number 1) is destroyed exactly once all the same *)
Example C03_ex_flush : exists s' b inf,
  flush sB = Ok s' /\ nth_error (bufs sB) 1 = Some b /\ In (AAssign (h 1) 2 1) b /\ nth_error (cinfos sB) 2 = Some inf /\
  is_valid sB (h 1) = true /\ is_valid s' (h 1) = false /\
  filter is_tmp_dtor (rev (new_log sB s')) = [EvD 3 (PTmp 1 0); EvD 3 (PTmp 1 1); EvD 2 (PTmp 1 2)] /\
  epoch s' = 1 /\ bufs s' = [[]; []] /\ tmps s' = [[]; []].
Proof.
  eexists. eexists. eexists. split; [vm_compute; reflexivity|]. split; [vm_compute; reflexivity|].
  split; [vm_compute; tauto|]. split; [vm_compute; reflexivity|]. vm_compute. repeat split.
Qed.

Example C03_ex_apply_pack : exists s',
  apply_pack 1 sB [AAssign (h 3) 2 0] = Ok s' /\
  new_log sB s' = [EvAA 3 (PArch 2 2 0) (h 3); EvMC 3 (PArch 2 2 0) (PTmp 1 0); EvD 2 (PArch 1 1 0); EvMC 2 (PArch 2 1 0) (PArch 1 1 0)].
Proof. eexists. ex_tac. Qed.

Example C03_ex_apply_storage : exists s', apply_storage sB (1, nth 1 (bufs sB) []) = Ok s'.
Proof. eexists. vm_compute. reflexivity. Qed.

Example C03_ex_call_destructor : exists s',
  call_destructor sA 0 2 = Ok s' /\ new_log sA s' = [EvD 3 (PArch 0 2 2); EvD 2 (PArch 0 1 2)].
Proof. eexists. ex_tac. Qed.

Example C03_ex_slot_once : NoDup (mitems 7%N) /\ In 1 (mitems 7%N) /\ nth_error cis3 1 = Some (pal_info 2 0).
Proof. split; [apply mitems_NoDup|]. vm_compute. tauto. Qed.

Example C03_ex_clear : exists s' s'' s''',
  arch_clear sA 0 = Ok s' /\ length (new_log sA s') = 6 /\
  clear_archetype sA 0 = Ok s'' /\ clear_all sA = Ok s''' /\ length (new_log sA s''') = 7.
Proof. eexists. eexists. eexists. ex_tac. Qed.

Example C03_ex_clear_once : exists a,
  nth_error (archs sA) 0 = Some a /\ am_ents a <> [] /\ In 2 (mitems (am_mask a)) /\ 1 < am_size a /\
  nth_error cis3 2 = Some (pal_info 3 0).
Proof. eexists. split; [vm_compute; reflexivity|]. vm_compute. repeat split; try discriminate; auto. Qed.

Example C03_ex_teardown : exists s' r,
  step sB OTeardown = Ok (s', r) /\
  filter is_tmp_dtor (rev (new_log sB s')) = [EvD 3 (PTmp 1 0); EvD 3 (PTmp 1 1); EvD 2 (PTmp 1 2)] /\
  length (new_log sB s') = 10.
Proof. eexists. eexists. ex_tac. Qed.

Example C03_ex_parked_once : exists b,
  nth_error (bufs sB) 1 = Some b /\ NoDup (assign_nums b) /\ In (AAssign (h 1) 2 1) b /\ nth_error cis3 2 = Some (pal_info 3 0).
Proof.
  eexists. split; [vm_compute; reflexivity|]. split; [|vm_compute; tauto].
  vm_compute. repeat constructor; simpl; intuition discriminate.
Qed.

(* entity 0 moves from archetype 0 = {0,1,2} (slot 0 of 3) to archetype 1 = {1}: component 1 is move-constructed,
   component 2 does not survive (beforeRemove), the last slot is swap-moved into the hole and then destroyed *)
Example C03_ex_external_move : exists s',
  external_move sA 1 (h 0) 0 0 0%N = Ok s' /\
  rev (new_log sA s') = [EvMC 2 (PArch 1 1 1) (PArch 0 1 0); EvBR 3 (PArch 0 2 0) (h 0);
                         EvMA 2 (PArch 0 1 0) (PArch 0 1 2); EvMA 3 (PArch 0 2 0) (PArch 0 2 2);
                         EvD 2 (PArch 0 1 2); EvD 3 (PArch 0 2 2)].
Proof. eexists. ex_tac. Qed.

Example C03_ex_arch_remove_internal_move : exists s' s'',
  arch_remove sA 0 1 (h 1) 0%N = Ok s' /\ length (new_log sA s') = 5 /\
  internal_move sA 0 2 0 = Ok s'' /\ length (new_log sA s'') = 4.
Proof. eexists. eexists. ex_tac. Qed.
