(* Palette: the component descriptions the em_driver registers (harness/em_driver.cpp), as cinfo records.
   0,1 trivial; 2 instrumented non-trivial; 3 instrumented with afterAssign/beforeRemove; 4 alignas(32) trivial;
   5 alignas(64) instrumented; 6 empty; 7 4096 bytes trivial; 8..11 described at run time by flag bits
   (1 create, 2 copy, 4 move, 8 move_constructor, 16 destroy, 32 default value); 12 one byte of trivial data;
   13 instrumented, constructible from the owning entity's handle as well as from nothing. *)
Require Import Coq.Lists.List Coq.NArith.NArith Coq.ZArith.ZArith Coq.Arith.Arith Coq.Bool.Bool.
From Mustache Require Import Res Manager.
Import ListNotations.

Definition trivial_info (pal : nat) (hasval : bool) : cinfo :=
  {| ci_pal := pal; ci_ev := false; ci_hasval := hasval; ci_create := None; ci_move := true; ci_mctor := true;
     ci_destroy := false; ci_default := None; ci_aa := false; ci_br := false; ci_clone := true; ci_copy := true |}.

Definition inst_info (pal : nat) (cb : bool) : cinfo :=
  {| ci_pal := pal; ci_ev := true; ci_hasval := true; ci_create := Some (Z.of_nat (1000 + pal)); ci_move := true; ci_mctor := true;
     ci_destroy := true; ci_default := None; ci_aa := cb; ci_br := cb; ci_clone := true; ci_copy := true |}.

Definition flag (f bit : nat) : bool := Nat.odd (f / bit).

Definition dyn_info (pal f : nat) : cinfo :=
  {| ci_pal := pal; ci_ev := true; ci_hasval := true;
     ci_create := if flag f 1 then Some (Z.of_nat (1000 + pal)) else None;
     ci_copy := flag f 2; ci_move := flag f 4; ci_mctor := flag f 8; ci_destroy := flag f 16;
     ci_default := if flag f 32 then Some (Z.of_nat (2000 + pal)) else None;
     ci_aa := false; ci_br := false; ci_clone := false |}.

Definition pal_info (pal flags : nat) : cinfo :=
  match pal with
  | 0 | 1 | 4 | 7 => trivial_info pal true
  | 6 => trivial_info pal false
  | 2 | 5 => inst_info pal false
  | 3 => inst_info pal true
  | 12 => trivial_info pal true
  | 13 => inst_info pal false
  | _ => dyn_info pal flags
  end.
