(* SkelRun: the Skeleton driven by the same scripts as the specification (handles by issue number). *)
Require Import Coq.Lists.List Coq.NArith.NArith Coq.Arith.Arith Coq.Bool.Bool.
From Mustache Require Import Res Skeleton SkelSpec.
Import ListNotations.

Definition concretize (issued : list handle) (o : sop) : op :=
  match o with
  | SoCreate tid key => Create tid key
  | SoDestroy tid k => Destroy tid (resolve issued k)
  | SoDestroyNow tid k => DestroyNow tid (resolve issued k)
  | SoClearArch key => ClearArch key
  | SoUpdate => Update
  | SoLock => Lock
  | SoUnlock => Unlock
  end.

Definition sstep (x : st * list handle) (o : sop) : res (st * list handle) :=
  let '(s, issued) := x in
  do r <- step s (concretize issued o);
  let '(s1, oh) := r in
  Ok (s1, match oh with Some h => issued ++ [h] | None => issued end).

Definition srun (n : nat) (ops : list sop) : res (st * list handle) :=
  fold_res sstep ops (init n, []).
