"""C02 -- component values follow their entity through every structural change."""
import vlib, mgrcheck
from gen import mgr

PROP = 'C02'
ASPECTS = {'valid', 'values', 'members'}


def run(tier, seed, replay=None):
    rng = vlib.Rng(seed)
    # the archetype lists hold every live entity exactly once also when a beforeRemove hook re-enters the library (shared with C03)
    rl = [l.rstrip('\n') for l in open(replay) if l.strip() and not l.startswith('#')] if replay else []
    if not replay or any(l.startswith('respawn') for l in rl):
        from checks import c03
        rs = [('replay', rl)] if replay else c03.respawn_scripts(rng.fork('respawn'), 40 if tier == 'quick' else 800)
        bad = c03.respawn_run(rs, 'C02-rs')
        if bad or replay:
            cov = {'rule': 're-entrant beforeRemove hook, implementation only', 'evaluations': len(rs), 'distinct_nontrivial': len(rs)}
            if not bad:
                return {'violations': [], 'coverage': cov, 'level': 'proof'}
            p = vlib.write_replay('C02', 'failing_script.txt', '# %s\n# at op %d (%s) of script %s\n%s\n' % (bad[3], bad[1], bad[2], bad[0], '\n'.join(bad[4])))
            return {'violations': [(p, '')], 'coverage': cov, 'level': 'proof'}
    n, maxops = (220, 60) if tier == 'quick' else (3000, 250)
    prof = dict(mgr.PROFILE_BASIC)
    prof['pals'] = [0, 1, 2, 3, 4, 5, 6, 7, 8, 9, 12, 13]
    prof['deps'] = 40          # declared dependencies in 40% of the scripts: a dependent component gained at a flush must be initialised
    scripts = mgr.corpus('C02') + [('g%d' % i, mgr.gen_script(rng.fork('c02-%d' % i), maxops, prof)) for i in range(n)]
    return mgrcheck.run_check(PROP, scripts, ASPECTS, replay=replay,
                              assumptions=['component payloads are modelled as one integer per instance',
                                           'run-time described components are coherent (a destroy function comes with create, move and move-construct functions)'])
