"""C02 -- component values follow their entity through every structural change."""
import vlib, mgrcheck
from gen import mgr

PROP = 'C02'
ASPECTS = {'valid', 'values', 'members'}


def run(tier, seed, replay=None):
    rng = vlib.Rng(seed)
    n, maxops = (220, 60) if tier == 'quick' else (3000, 250)
    prof = dict(mgr.PROFILE_BASIC)
    prof['pals'] = [0, 1, 2, 3, 4, 5, 6, 7, 8, 9, 12, 13]
    prof['deps'] = 40          # declared dependencies in 40% of the scripts: a dependent component gained at a flush must be initialised
    scripts = mgr.corpus('C02') + [('g%d' % i, mgr.gen_script(rng.fork('c02-%d' % i), maxops, prof)) for i in range(n)]
    return mgrcheck.run_check(PROP, scripts, ASPECTS, replay=replay,
                              assumptions=['component payloads are modelled as one integer per instance',
                                           'run-time described components are coherent (a destroy function comes with create, move and move-construct functions)'])
