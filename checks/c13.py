"""C13 -- declared component dependencies always hold."""
import vlib, mgrcheck
from gen import mgr

PROP = 'C13'
ASPECTS = {'valid', 'values', 'members'}


def typed_declaration_in_every_world():
    """the typed overload addDependency<Master, Dependents...>() declared anew in every world of the process (worlds alive together,
    and a world built after another one was destroyed): each of them gives the master's dependents (world_driver `probe`)"""
    import os, emcmp
    drv, err = vlib.build_driver('world_driver')
    if err:
        return None
    lines = ['new', 'probe 0', 'newdefault', 'probe 1', 'probe 0', 'del 0', 'new', 'probe 2', 'del 1', 'del 2', 'newshared', 'probe 3']
    io, _ = emcmp.run_driver(drv, emcmp.scripts_text([('typed_dep', lines)]), os.path.join(vlib.BUILD, 'work', PROP + '-w'))
    for name, blocks in emcmp.parse(io):
        for i, b in enumerate(blocks):
            r = (b['tags'].get('R') or ['R'])[0].split()
            if b['crash'] or (b['op'].startswith('probe') and r[1:] != ['probe', 'create=1', 'assign=1']):
                return ('world %s does not honour the typed declaration made on it (%s)' % (b['op'].split()[-1], b['crash'] or ' '.join(r[2:])), lines[:i + 1])
    return None


def run(tier, seed, replay=None):
    rng = vlib.Rng(seed)
    if not replay or any(l.startswith('probe') for l in open(replay)):
        bad = typed_declaration_in_every_world()
        if bad or replay:
            cov = {'rule': 'typed dependency declaration in several worlds of one process', 'evaluations': 1, 'distinct_nontrivial': 1}
            if not bad:
                return {'violations': [], 'coverage': cov, 'level': 'proof'}
            p = vlib.write_replay(PROP, 'failing_script.txt', '# %s\n# world_driver script\n%s\n' % (bad[0], '\n'.join(bad[1])))
            return {'violations': [(p, '')], 'coverage': cov, 'level': 'proof'}
    n, maxops = (220, 60) if tier == 'quick' else (3000, 250)
    prof = mgr.profile(PROP)
    scripts = mgr.corpus(PROP) + [('g%d' % i, mgr.gen_script(rng.fork(PROP + '-%d' % i), maxops, prof)) for i in range(n)]
    return mgrcheck.run_check(PROP, scripts, ASPECTS, replay=replay, assumptions=['component payloads are modelled as one integer per instance', 'locked-mode API calls from different threads are atomic with respect to each other (call-granularity interleavings; premise validated by the TSan run of C06)'])
