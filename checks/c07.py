"""C07 -- a version-filtered job never misses a component that was modified."""
import vlib, mgrcheck, jobcheck
from gen import mgr

PROP = 'C07'
ASPECTS = {'valid', 'values', 'members'}
JOB_ASPECTS = {'visits', 'nomiss'}


def run(tier, seed, replay=None):
    rng = vlib.Rng(seed)
    n, maxops = (200, 80) if tier == 'quick' else (1000, 200)
    prof = mgr.profile(PROP)
    scripts = mgr.corpus(PROP) + [('g%d' % i, mgr.gen_script(rng.fork(PROP + '-%d' % i), maxops, prof)) for i in range(n)]
    return mgrcheck.run_check(PROP, scripts, ASPECTS, replay=replay, assumptions=['component payloads are modelled as one integer per instance', 'user callbacks only read what they are handed', 'extraArchetypeFilterCheck / extraChunkFilterCheck are the defaults'],
                              extra_tier_a=lambda impl, sc: jobcheck.tier_a_jobs(impl, sc, JOB_ASPECTS))
