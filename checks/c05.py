"""C05 -- changes made while locked are isolated, then applied faithfully at unlock."""
import vlib, mgrcheck
from gen import mgr

PROP = 'C05'
ASPECTS = {'isolation', 'valid', 'values', 'members', 'sharedvals', 'tmpaddr'}


def concurrent_creation(tier, scripts=None, work=None):
    """real concurrency (not call-granularity): the workers of the dispatcher create entities at the same time while locked"""
    import os, re, emcmp
    drv, err = vlib.build_driver('em_driver')
    if err:
        return None, {'error': str(err)}
    rounds, per = (150, 40) if tier == 'quick' else (3000, 60)
    scripts = scripts or [('pc%d' % t, ['maxthreads %d' % mgr.MAXTHREADS, 'threads %d' % t, 'reg 0', 'update', 'pcreate %d %d' % (rounds, per), 'create 0 0', 'pcreate %d %d' % (rounds // 3, 7)])
               for t in (2, 3, 4, 8)]
    io, _ = emcmp.run_driver(drv, emcmp.scripts_text(scripts), os.path.join(vlib.BUILD, 'work', work or (PROP + '-pc')), timeout=1200)
    created = 0
    for name, blocks in emcmp.parse(io):
        for b in blocks:
            if b['crash']:
                return (name, 'implementation crashed: ' + b['crash'], dict(scripts)[name]), {}
            r = (b['tags'].get('R') or ['R'])[0]
            if 'pcreate' in r:
                kv = dict(re.findall(r'(\w+)=(\d+)', r))
                created += int(kv.get('created', 0))
                if int(kv['dup']) or int(kv['invalid']) or int(kv['miscount']):
                    return (name, 'entities created concurrently while locked: %s of %s handles returned twice, %s not alive after the unlock, %s round(s) with a wrong number of new members'
                            % (kv['dup'], kv['created'], kv['invalid'], kv['miscount']), dict(scripts)[name]), {}
    return None, {'concurrent_creation_stress': {'scripts': len(scripts), 'entities_created': created, 'workers': [2, 3, 4, 8]}}


def run(tier, seed, replay=None):
    rng = vlib.Rng(seed)
    rl = [l.rstrip('\n') for l in open(replay) if l.strip() and not l.startswith('#')] if replay else []
    only_pc = any(l.startswith('pcreate') for l in rl)
    bad, pc_cov = concurrent_creation(tier, [('replay', rl)] if only_pc else None) if (only_pc or not replay) else (None, {})
    if only_pc and not bad:
        return {'violations': [], 'coverage': dict(pc_cov, rule='replay of a concurrent-creation script', evaluations=1, distinct_nontrivial=1), 'level': 'proof'}
    if bad:
        p = vlib.write_replay(PROP, 'failing_script.txt', '# %s\n# script %s (a race: repeat the run if it passes once)\n%s\n' % (bad[1], bad[0], '\n'.join(bad[2])))
        return {'violations': [(p, '')], 'coverage': {'rule': 'concurrent creation stress failed before the script comparison ran', 'evaluations': 4, 'distinct_nontrivial': 4}, 'level': 'proof'}
    n, maxops = (220, 70) if tier == 'quick' else (3000, 300)
    prof = mgr.profile(PROP)
    scripts = mgr.corpus(PROP) + [('g%d' % i, mgr.gen_script(rng.fork(PROP + '-%d' % i), maxops, prof)) for i in range(n)]
    return mgrcheck.run_check(PROP, scripts, ASPECTS, replay=replay, extra_cov=pc_cov, assumptions=['component payloads are modelled as one integer per instance', 'locked-mode API calls from different threads are atomic with respect to each other (call-granularity interleavings; premise validated by the TSan run of C06)'])
