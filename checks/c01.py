"""C01 -- a handle is valid exactly while its entity is alive; recycled ids get fresh versions."""
import os
import vlib, proofcheck, emcmp
from gen import skel

PROP = 'C01'
TAGS_B = ['R', 'V', 'A', 'S', 'F', 'L', 'M', 'K', 'B']


def a_sets(block):
    """impl archetype lines -> {mask: sorted list of #k}"""
    d = {}
    for l in block['tags'].get('A', []):
        t = l.split()
        m = [x for x in t if x.startswith('m=')][0][2:]
        e = [x for x in t if x.startswith('e=')][0][2:]
        ks = [] if e == '-' else e.split(',')
        d.setdefault(m, []).extend(ks)
    return {m: sorted(v, key=lambda x: (len(x), x)) for m, v in d.items() if v}


def vline(b):
    v = b['tags'].get('V')
    if not v:
        return None
    t = v[0].split()
    return t[1] if len(t) > 1 else ''


def tier_a(impl, spec):
    """the property itself on the real code: validity of every issued handle = spec liveness; archetype member sets;
    every creation returns a handle never issued before."""
    out = []
    sd = {n: b for n, b in spec}
    for name, blocks in impl:
        sb = sd.get(name, [])
        seen_raw = {}
        for i, b in enumerate(blocks):
            if b['crash']:
                out.append(dict(script=name, opn=i, op=b['op'], what='implementation crashed: ' + b['crash']))
                break
            if i >= len(sb):
                break
            s = sb[i]
            if s['crash']:
                break
            iv = vline(b)
            sv = vline(s)
            if iv is not None and sv is not None and iv != sv:
                k = next((j for j in range(min(len(iv), len(sv))) if iv[j] != sv[j]), min(len(iv), len(sv)))
                out.append(dict(script=name, opn=i, op=b['op'],
                                what='handle #%d: isEntityValid=%s but the entity is %s' % (k, iv[k:k+1], 'alive' if sv[k:k+1] == '1' else 'not alive')))
                break
            if s['tags'].get('V') is not None and b['tags'].get('A') is not None:
                ia = a_sets(b)
                sa = {}
                for l in s['tags'].get('AS', []):
                    t = l.split()
                    sa[t[1][2:]] = t[2][2:].split(',')
                if ia != sa:
                    out.append(dict(script=name, opn=i, op=b['op'], what='archetype members %s, expected %s' % (ia, sa)))
                    break
            # freshness: raw (id:version) of every newly issued handle
            r = (b['tags'].get('R') or [''])[0].split()
            if len(r) >= 3 and r[1].startswith('#') and b['op'].startswith('create'):
                raw = r[2]
                if raw in seen_raw:
                    out.append(dict(script=name, opn=i, op=b['op'], what='creation returned %s again (first issued as %s)' % (raw, seen_raw[raw])))
                    break
                seen_raw[raw] = r[1]
    return out


def strip_raw(l):
    t = l.split()
    return ' '.join(t[:2])


def run(tier, seed, replay=None):
    rng = vlib.Rng(seed)
    # no two live entities carry the same handle, also when several threads create at the same time under one lock (real
    # concurrency, not a call-granularity interleaving): the stress of C05 judged for this property
    if not replay or any(l.startswith('pcreate') for l in open(replay)):
        from checks import c05
        rl = [l.rstrip('\n') for l in open(replay) if l.strip() and not l.startswith('#')] if replay else None
        bad, pc_cov = c05.concurrent_creation(tier, [('replay', rl)] if rl else None, work='C01-pc')
        if bad or replay:
            if not bad:
                return {'violations': [], 'coverage': dict(pc_cov, rule='replay of a concurrent-creation script', evaluations=1, distinct_nontrivial=1), 'level': 'proof'}
            p = vlib.write_replay(PROP, 'failing_script.txt', '# %s\n# script %s (a race: repeat the run if it passes once)\n%s\n' % (bad[1], bad[0], '\n'.join(bad[2])))
            return {'violations': [(p, '')], 'coverage': {'rule': 'concurrent creation stress failed before the script comparison ran', 'evaluations': 4, 'distinct_nontrivial': 4}, 'level': 'proof'}
    pr = proofcheck.prove(PROP)
    nscripts, maxops, maxthr = (250, 50, 4) if tier == "quick" else (2500, 200, 15)
    if replay:
        scripts = [(os.path.basename(replay), [l.rstrip('\n') for l in open(replay) if not l.startswith('#') and l.strip()])]
    else:
        scripts = skel.corpus() + [('g%d' % i, skel.gen_script(rng.fork('s%d' % i), maxops, maxthr)) for i in range(nscripts)]
    text = emcmp.scripts_text(scripts)
    cov = {'obligations': pr['obligations'], 'discharged': pr['discharged'], 'theorems': pr['theorems'],
           'checker_cmd': 'make -C coq Properties_C01.vo; em_driver vs extracted Skeleton (tier B) and SkelSpec (tier A)',
           'trusted_base': vlib.TRUSTED_BASE_COMMON}
    drv, err = vlib.build_driver('em_driver')
    runner, rerr = vlib.build_runner()
    if err or rerr:
        p = vlib.write_replay(PROP, 'build_error.txt', str(err or rerr))
        return {'violations': [(p, 'no-failing-input-found')], 'coverage': cov, 'level': 'proof'}
    wd = os.path.join(vlib.BUILD, 'work', PROP)
    iout, ierr = emcmp.run_driver(drv, text, wd)
    mout, _ = emcmp.run_runner(runner, 'skel', text)
    sout, _ = emcmp.run_runner(runner, 'skelspec', text)
    impl, model, spec = emcmp.parse(iout), emcmp.parse(mout), emcmp.parse(sout)
    fails_a = tier_a(impl, spec)
    div_b = emcmp.compare(impl, model, TAGS_B, extra_norm={'R': strip_raw})
    sd = dict(scripts)
    ops = sum(len(v) for v in sd.values())
    finals = set()
    for name, blocks in impl:
        if blocks:
            finals.add('\n'.join(blocks[-1]['tags'].get('V', []) + blocks[-1]['tags'].get('S', []) + blocks[-1]['tags'].get('F', [])))
    kinds = {}
    for ls in sd.values():
        for l in ls:
            k = l.split()[0]
            kinds[k] = kinds.get(k, 0) + 1
    cov.update({'evaluations': len(scripts), 'distinct_nontrivial': len(finals), 'ops': ops, 'ops_by_kind': kinds,
                'rule': 'random scripts over the C01 alphabet + corpus; distinct = distinct final (validity, slot table, free list) of the implementation',
                'tierA_failures': len(fails_a), 'tierB_divergences': len(div_b),
                'samples': [sd[scripts[0][0]], sd[scripts[-1][0]][:40]]})
    violations = []
    if fails_a:
        f = fails_a[0]
        lines = sd[f['script']][:]
        # shrink: keep the header, delta-debug the body while tier A still fails
        def fails(cand):
            t = emcmp.scripts_text([('shrink', cand)])
            io, _ = emcmp.run_driver(drv, t, wd, tag='shrink')
            so, _ = emcmp.run_runner(runner, 'skelspec', t)
            r = tier_a(emcmp.parse(io), emcmp.parse(so))
            return bool(r) and (('crashed' in r[0]['what']) == ('crashed' in f['what']))
        try:
            small = vlib.ddmin(lines, fails, budget=120)
        except Exception:
            small = lines
        p = vlib.write_replay(PROP, 'failing_script.txt', '# %s at op %d (%s)\n# minimised script:\n%s\n# original script:\n%s\n' % (f['what'], f['opn'], f['op'], '\n'.join(small), '\n'.join('# ' + x for x in lines)))
        violations.append((p, ''))
    elif not pr['ok'] or div_b:
        what = ['proof obligation broken: ' + x for x in pr['failed']]
        if div_b:
            d = div_b[0]
            what.append('correspondence Skeleton model vs implementation diverges: script %s op %d (%s) tag %s\n  impl : %s\n  model: %s' %
                        (d['script'], d['opn'], d['op'], d['tag'], d['impl'], d['model']))
            what.append('script:\n' + '\n'.join(sd.get(d['script'], [])))
        p = vlib.write_replay(PROP, 'broken_obligation.txt', '\n'.join(what) + '\n')
        violations.append((p, 'no-failing-input-found'))
    return {'violations': violations, 'known': [], 'coverage': cov, 'level': 'proof',
            'assumptions': ['locked-mode API calls from different threads are atomic with respect to each other (call-granularity interleavings); validated by the TSan run of C06',
                            'entity ids stay below 2^30 and no id is recycled 2^24-1 times (stated as hypotheses of the theorems)']}
