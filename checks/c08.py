"""C08 -- the dispatcher runs every submitted task exactly once and waits correctly."""
import os, re, subprocess
import vlib, proofcheck, emcmp

PROP = 'C08'


def gen_scenario(rng, max_threads):
    n = rng.pick([1, 2, 3, 4, max_threads, 0])
    lines = ['seed %d %d' % (rng.below(10 ** 6), rng.pick([0, 50, 200, 500])), 'disp %d' % n]
    nq = rng.below(3)
    for _ in range(nq):
        lines.append('queue')
    for _ in range(rng.range(3, 14)):
        c = rng.weighted([('par', 30), ('async', 20 if nq else 0), ('waitpar', 18), ('waitq', 12 if nq else 0), ('pfor', 10), ('sleep', 5), ('single', 6), ('touchother', 4)])
        if c == 'par':
            lines.append('par %d' % rng.range(1, 12))
        elif c == 'async':
            lines.append('async %d %d' % (rng.range(1, nq), rng.range(1, 6) if rng.chance(3, 4) else rng.range(30, 70)))   # also long backlogs
        elif c == 'waitpar':
            lines.append('waitpar')
        elif c == 'waitq':
            lines.append('waitq %d' % rng.range(1, nq))
        elif c == 'pfor':
            b = rng.below(20); e = b + rng.pick([0, 1, 2, 7, 33])
            lines.append('pfor %d %d%s' % (b, e, (' %d' % rng.range(1, 9)) if rng.chance(1, 3) else ''))
        elif c == 'touchother':
            lines.append('touchother %d' % rng.range(2, 10))
        elif c == 'sleep':
            lines.append('sleep %d' % rng.range(10, 400))
        elif c == 'single':
            if nq and rng.chance(1, 2):
                q = rng.range(1, nq)          # the mode is switched on behind a backlog of a serial queue, and submissions go on
                lines += ['async %d %d' % (q, rng.range(10, 50)), 'single 1', 'async %d %d' % (q, rng.range(1, 5)), 'single %d' % rng.below(2)]
            else:
                lines.append('single %d' % rng.below(2))       # also with work in flight
    if nq and rng.chance(1, 4):
        # leave a serial job pending with the workers parked, and destroy at once
        lines += ['waitpar', 'sleep %d' % rng.range(100, 400), 'async %d %d' % (rng.range(1, nq), rng.range(1, 3)), 'del']
        return lines
    if rng.chance(2, 3):
        lines.append('waitpar')
        for q in range(1, nq + 1):
            lines.append('waitq %d' % q)
    lines.append('del')
    return lines


CORPUS = [
    ('serial_helper', ['seed 3 300', 'disp 2', 'queue', 'async 1 6', 'waitq 1', 'async 1 3', 'waitq 1', 'del']),
    ('empty_range', ['seed 1 0', 'disp 2', 'pfor 5 5', 'pfor 0 1', 'del']),
    ('shutdown_pending', ['seed 9 500', 'disp 3', 'queue', 'par 40', 'async 1 10', 'del']),
    ('single_thread_mode', ['seed 2 0', 'disp 2', 'single 1', 'par 5', 'waitpar', 'single 0', 'par 5', 'waitpar', 'del']),
    # a long backlog of one serial queue served by workers and by the helping waiter at the same time
    ('serial_backlog_helper', ['seed 5 0', 'disp 3', 'queue', 'async 1 60', 'waitq 1', 'async 1 60', 'waitq 1', 'async 1 60', 'waitq 1', 'del']),
    ('serial_backlog_two_queues', ['seed 6 20', 'disp 4', 'queue', 'queue', 'async 1 50', 'async 2 50', 'par 8', 'waitq 2', 'waitq 1', 'waitpar', 'async 2 40', 'waitq 2', 'del']),
    # many short-lived dispatchers destroyed while their workers are still running or starting (lost wake-up at shutdown)
    ('destroy_busy_dispatchers', ['seed 7 0', 'churn 600 4', 'churn 600 2', 'churn 300 8', 'churn 600 1', 'disp 2', 'par 3', 'waitpar', 'del']),
    # single-thread mode switched on while a serial queue still has a backlog: later submissions stay behind the earlier ones
    ('async_in_single_mode_behind_backlog', ['seed 8 0', 'disp 2', 'queue', 'async 1 40', 'single 1', 'async 1 5', 'single 0', 'waitq 1', 'del']),
    ('async_in_single_mode_one_worker', ['seed 11 200', 'disp 1', 'queue', 'par 6', 'async 1 30', 'single 1', 'async 1 3', 'par 2', 'async 1 3', 'single 0', 'async 1 4', 'waitq 1', 'waitpar', 'del']),
    # destruction right after a submission to a serial queue, with the workers parked: the job is dropped, not run by a worker that
    # wakes up into the teardown
    ('destroy_with_parked_workers_and_serial_job', ['seed 12 0', 'disp 4', 'queue', 'waitpar', 'sleep 300', 'async 1 1', 'del']),
    ('destroy_with_parked_workers_and_serial_jobs_2', ['seed 13 0', 'disp 2', 'queue', 'queue', 'par 2', 'waitpar', 'sleep 300', 'async 2 3', 'async 1 2', 'del']),
    # two dispatchers alive: workers of the first ask the second for their thread id (0: not its threads) before any task of theirs
    # asked their own; afterwards every task still sees, from its own dispatcher, the id it was handed
    ('thread_ids_with_a_second_dispatcher', ['seed 14 0', 'disp 3', 'queue', 'touchother 12', 'par 12', 'waitpar', 'async 1 4', 'waitq 1', 'touchother 6', 'par 9', 'waitpar', 'del']),
    ('single_mode_with_work_in_flight', ['seed 4 400', 'disp 2', 'par 12', 'single 1', 'waitpar', 'par 3', 'single 0', 'par 9', 'single 1', 'pfor 0 9', 'waitpar', 'del']),
]


def tier_a(impl):
    out = []
    for name, blocks in impl:
        for i, b in enumerate(blocks):
            if b['crash']:
                out.append(dict(script=name, opn=i, op=b['op'], what='crashed or hung: ' + b['crash'])); break
            r = (b['tags'].get('R') or ['R'])[0]
            a = (b['tags'].get('A') or [''])[0]
            bad = None
            for m in re.finditer(r'(not_once|late|oob|twice|running_after|serial_order_violations|tid_clash|tid_out_of_range|tid_mismatch)=(\d+)', r + ' ' + a):
                if int(m.group(2)) != 0:
                    bad = '%s=%s' % (m.group(1), m.group(2))
            m = re.search(r'serial_max_concurrent=(\d+)', a)
            if m and int(m.group(1)) > 1:
                bad = 'two jobs of one serial queue ran concurrently (max %s)' % m.group(1)
            # teardown: a worker that has SEEN the terminate flag (schedule points 1 and 3 report what it read) runs nothing any more
            tr = (b['tags'].get('T') or [''])[0].split()[1:]
            knows = set()
            for tok in tr:
                f = tok.split(':')
                if len(f) != 4:
                    continue
                pt, th, q, v = (int(x) for x in f)
                if pt in (1, 3) and v == 1:
                    knows.add(th)
                if pt == 4 and th in knows and not bad:
                    bad = 'worker %d started a job of queue %d after it had seen the terminate flag (teardown runs nothing)' % (th, q)
            if bad:
                out.append(dict(script=name, opn=i, op=b['op'], what=bad)); break
    return out


def validate_traces(runner, impl, scripts):
    """tier B: every recorded trace must be a run of the Dispatcher LTS (relaxed barrier reads)"""
    sd = dict(scripts)
    bad = []
    n = 0
    for name, blocks in impl:
        tr = None
        for b in blocks:
            if b['tags'].get('T'):
                tr = b['tags']['T'][0]
        if tr is None:
            continue
        lines = sd[name]
        nw = next((int(l.split()[1]) for l in lines if l.startswith('disp ')), 1)
        if nw == 0:
            nw = (os.cpu_count() or 16) - 1
        nq = sum(1 for l in lines if l.strip() == 'queue')
        r = subprocess.run([runner, 'disptrace'], input=('init %d %d\n%s\n' % (nw, nq, tr)).encode(), stdout=subprocess.PIPE, timeout=300).stdout.decode()
        n += 1
        if not r.startswith('ACCEPT'):
            bad.append((name, r.strip(), len(tr.split()) - 1))
    return bad, n


def run(tier, seed, replay=None):
    rng = vlib.Rng(seed)
    pr = proofcheck.prove(PROP)
    n, maxthr = (60, 8) if tier == 'quick' else (1500, 32)
    if replay:
        scripts = [(os.path.basename(replay), [l.rstrip('\n') for l in open(replay) if l.strip() and not l.startswith('#')])]
    else:
        scripts = CORPUS + [('g%d' % i, gen_scenario(rng.fork('d%d' % i), maxthr)) for i in range(n)]
    cov = {'obligations': pr['obligations'], 'discharged': pr['discharged'], 'theorems': pr['theorems'],
           'checker_cmd': 'make -C coq Properties_C08.vo; disp_driver traces replayed through the extracted Dispatcher LTS',
           'trusted_base': vlib.TRUSTED_BASE_COMMON + ['the guarded schedule-point hook in dispatch.cpp reports every mutex-protected step; unprotected barrier reads cannot be placed exactly in a trace, their consequence is checked instead']}
    drv, err = vlib.build_driver('disp_driver')
    runner, rerr = vlib.build_runner()
    if err or rerr:
        p = vlib.write_replay(PROP, 'build_error.txt', str(err or rerr))
        return {'violations': [(p, 'no-failing-input-found')], 'coverage': cov, 'level': 'proof'}
    text = emcmp.scripts_text(scripts)
    wd = os.path.join(vlib.BUILD, 'work', PROP)
    io, _ = emcmp.run_driver(drv, text, wd, timeout=3000)
    impl = emcmp.parse(io)
    fa = tier_a(impl)
    badtr, ntr = validate_traces(runner, impl, scripts)
    sd = dict(scripts)
    events = sum(len(b['tags']['T'][0].split()) - 1 for n_, bl in impl for b in bl if b['tags'].get('T'))
    distinct = len(set(b['tags']['T'][0] for n_, bl in impl for b in bl if b['tags'].get('T')))
    cov.update({'evaluations': len(scripts), 'distinct_nontrivial': distinct, 'traces_validated_against_impl': ntr, 'trace_events': events,
                'rule': 'random scenarios (1..%d workers and the default, serial queues, parallelFor, shutdown with pending work) under seeded random yields at every schedule point; distinct = distinct recorded traces' % maxthr,
                'tierA_failures': len(fa), 'tierB_rejected_traces': len(badtr), 'samples': [scripts[0][1], scripts[-1][1]]})
    violations = []
    if fa:
        f = fa[0]
        p = vlib.write_replay(PROP, 'failing_scenario.txt', '# %s\n# at op %d (%s)\n%s\n' % (f['what'], f['opn'], f['op'], '\n'.join(sd[f['script']])))
        violations.append((p, ''))
    elif not pr['ok'] or badtr:
        what = ['proof obligation broken: ' + x for x in pr['failed']]
        if badtr:
            name, r, ln = badtr[0]
            what.append('a recorded trace (%d events) is not a run of the Dispatcher model: %s\nscenario %s:\n%s' % (ln, r, name, '\n'.join(sd[name])))
        p = vlib.write_replay(PROP, 'broken_obligation.txt', '\n'.join(what) + '\n')
        violations.append((p, 'no-failing-input-found'))
    return {'violations': violations, 'known': [], 'coverage': cov, 'level': 'proof',
            'assumptions': ['at most one external thread waits on / helps a dispatcher at a time', 'tasks terminate',
                            'sequential consistency at the granularity of mutex-protected blocks (the premise is checked by the ThreadSanitizer run of C06)',
                            'liveness: only the absence of a model deadlock is covered, fairness of the OS scheduler is assumed']}
