"""C15 -- events reach exactly the current subscribers, once, in any manager."""
import os
import vlib, proofcheck, emcmp

PROP = 'C15'


def gen_script(rng, nops):
    lines = ['mgr']
    nm, alive_m = 1, [0]
    nr, recvs = 0, []          # (id, manager, alive)
    where = {}                 # receiver -> manager it is subscribed to (None: unsubscribed)
    for _ in range(nops):
        idle = [r for r in recvs if where.get(r) is None or where.get(r) not in alive_m]
        c = rng.weighted([('mgr', 6), ('delmgr', 3 if len(alive_m) > 1 else 0), ('sub', 34 if alive_m else 0), ('unsub', 12 if recvs else 0),
                          ('delrecv', 8 if recvs else 0), ('post', 30 if alive_m else 0), ('resub', 10 if idle and alive_m else 0)])
        if c == 'resub':
            # the same receiver object subscribes again (to the same or another manager) after it was unsubscribed
            r = rng.pick(idle); m = rng.pick(alive_m); lines.append('resub %d %d' % (r, m)); where[r] = m
            continue
        if c == 'mgr':
            lines.append('mgr'); alive_m.append(nm); nm += 1
        elif c == 'delmgr':
            m = rng.pick(alive_m); alive_m.remove(m); lines.append('delmgr %d' % m)
        elif c == 'sub':
            m_ = rng.pick(alive_m); lines.append('sub %d %d' % (m_, rng.below(6))); recvs.append(nr); where[nr] = m_; nr += 1
        elif c == 'unsub':
            r_ = rng.pick(recvs); lines.append('unsub %d' % r_); where[r_] = None
        elif c == 'delrecv':
            r = rng.pick(recvs); recvs.remove(r); lines.append('delrecv %d' % r)
        elif c == 'post':
            lines.append('post %d %d' % (rng.pick(alive_m), rng.below(6)))
    for m in alive_m:
        for t in range(6):
            lines.append('post %d %d' % (m, t))
    return lines


CORPUS = [
    ('second_manager_opposite_order', ['mgr', 'sub 0 0', 'sub 0 1', 'post 0 0', 'post 0 1', 'mgr', 'sub 1 1', 'sub 1 0', 'sub 1 1', 'post 1 1', 'post 1 0', 'post 0 1', 'unsub 2', 'post 1 1']),
    ('post_before_subscribe', ['mgr', 'post 0 2', 'mgr', 'post 1 2', 'sub 1 2', 'post 1 2', 'post 0 2', 'sub 1 0', 'post 1 2', 'post 1 0']),
    ('receiver_outlives_manager', ['mgr', 'mgr', 'sub 0 0', 'sub 1 0', 'delmgr 0', 'unsub 0', 'delrecv 0', 'post 1 0', 'delrecv 1', 'post 1 0']),
]


def forwarding_run(rng, n, drv, only=None):
    """nested dispatch: receivers that post the same event type through another manager from inside their handler. Not in the Events
    model: judged against a direct reading of the property (every receiver of the manager posted through, once, in subscription
    order; a forwarded post delivers to the other manager's receivers at that point)"""
    scripts = only or []
    for i in range(0 if only else n):
        r = rng.fork('fw%d' % i)
        nm = r.range(2, 4)
        lines = ['mgr'] * nm
        for _ in range(r.range(4, 14)):
            m = r.below(nm); t = r.below(3)
            if m + 1 < nm and r.chance(1, 3):
                lines.append('subfwd %d %d %d' % (m, t, r.range(m + 1, nm - 1)))      # forward to a LATER manager only: no cycles
            else:
                lines.append('sub %d %d' % (m, t))
        for m in range(nm):
            for t in range(3):
                lines.append('post %d %d' % (m, t))
        scripts.append(('fw%d' % i, lines))
    io, _ = emcmp.run_driver(drv, emcmp.scripts_text(scripts), os.path.join(vlib.BUILD, 'work', PROP + '-fw'))
    for name, blocks in emcmp.parse(io):
        subs = {}; rid = 0
        for i, b in enumerate(blocks):
            t = b['op'].split()
            if b['crash']:
                return (name, i, b['op'], 'crashed: ' + b['crash'], dict(scripts)[name]), scripts
            if t[0] == 'sub':
                subs.setdefault((int(t[1]), int(t[2])), []).append((rid, None)); rid += 1
            elif t[0] == 'subfwd':
                subs.setdefault((int(t[1]), int(t[2])), []).append((rid, int(t[3]))); rid += 1
            elif t[0] == 'post':
                def deliver(m, ty):
                    out = []
                    for r_, fwd in subs.get((m, ty), []):
                        out.append('r%d' % r_)
                        if fwd is not None:
                            out += deliver(fwd, ty)
                    return out
                exp = deliver(int(t[1]), int(t[2]))
                got = (b['tags'].get('R') or ['R'])[0].split()[1:]
                if got != exp:
                    return (name, i, b['op'], 'delivered [%s], the subscriptions (with forwarding handlers) imply [%s]' % (' '.join(got), ' '.join(exp)), dict(scripts)[name]), scripts
    return None, scripts


def run(tier, seed, replay=None):
    rng = vlib.Rng(seed)
    rl = [l.rstrip('\n') for l in open(replay) if l.strip() and not l.startswith('#')] if replay else []
    if not replay or any(l.startswith('subfwd') for l in rl):
        drv_, err_ = vlib.build_driver('evt_driver')
        if not err_:
            bad, fs = forwarding_run(rng, 80 if tier == 'quick' else 1500, drv_, [('replay', rl)] if replay else None)
            if bad or replay:
                cov = {'rule': 'forwarding handlers (nested dispatch), implementation only', 'evaluations': len(fs), 'distinct_nontrivial': len(fs)}
                if not bad:
                    return {'violations': [], 'coverage': cov, 'level': 'proof'}
                p = vlib.write_replay(PROP, 'failing_script.txt', '# op %d (%s): %s\n%s\n' % (bad[1], bad[2], bad[3], '\n'.join(bad[4])))
                return {'violations': [(p, '')], 'coverage': cov, 'level': 'proof'}
    pr = proofcheck.prove(PROP)
    n, nops = (300, 40) if tier == 'quick' else (5000, 120)
    if replay:
        scripts = [(os.path.basename(replay), [l.rstrip('\n') for l in open(replay) if l.strip() and not l.startswith('#')])]
    else:
        scripts = CORPUS + [('g%d' % i, gen_script(rng.fork('e%d' % i), nops)) for i in range(n)]
    cov = {'obligations': pr['obligations'], 'discharged': pr['discharged'], 'theorems': pr['theorems'],
           'checker_cmd': 'make -C coq Properties_C15.vo; evt_driver vs extracted Events model (tier B) and subscription-map spec (tier A)',
           'trusted_base': vlib.TRUSTED_BASE_COMMON}
    drv, err = vlib.build_driver('evt_driver')
    runner, rerr = vlib.build_runner()
    if err or rerr:
        p = vlib.write_replay(PROP, 'build_error.txt', str(err or rerr))
        return {'violations': [(p, 'no-failing-input-found')], 'coverage': cov, 'level': 'proof'}
    text = emcmp.scripts_text(scripts)
    wd = os.path.join(vlib.BUILD, 'work', PROP)
    io, _ = emcmp.run_driver(drv, text, wd)
    mo, _ = emcmp.run_runner(runner, 'events', text)
    so, _ = emcmp.run_runner(runner, 'eventspec', text)
    impl, model, spec = emcmp.parse(io), emcmp.parse(mo), emcmp.parse(so)
    fa = emcmp.compare(impl, spec, ['R'])
    div = emcmp.compare(impl, model, ['R'])
    sd = dict(scripts)
    posts = sum(1 for v in sd.values() for l in v if l.startswith('post'))
    nontriv = set()
    for name, blocks in impl:
        for b in blocks:
            if b['op'].startswith('post') and len((b['tags'].get('R') or ['R'])[0].split()) > 1:
                nontriv.add((name, b['n']))
    cov.update({'evaluations': len(scripts), 'distinct_nontrivial': len(nontriv), 'posts': posts, 'ops': sum(len(v) for v in sd.values()),
                'rule': 'random scripts over managers/receivers/6 event types (two with names that are a prefix of one another); non-trivial = a post that delivered to at least one receiver',
                'tierA_failures': len(fa), 'tierB_divergences': len(div), 'samples': [scripts[0][1], scripts[-1][1][:30]]})
    violations = []
    if fa:
        f = fa[0]
        lines = sd[f['script']]
        def fails(cand):
            t = emcmp.scripts_text([('s', cand)])
            a, _ = emcmp.run_driver(drv, t, wd, tag='shrink'); b, _ = emcmp.run_runner(runner, 'eventspec', t)
            return bool(emcmp.compare(emcmp.parse(a), emcmp.parse(b), ['R']))
        small = vlib.ddmin(lines, fails, budget=120) if not replay else lines
        what = ('crashed: ' + f['impl']) if f['tag'] == 'CRASH' else 'delivered [%s], subscribed are [%s]' % (f['impl'], f['model'])
        p = vlib.write_replay(PROP, 'failing_script.txt', '# op %d (%s): %s\n%s\n' % (f['opn'], f['op'], what, '\n'.join(small)))
        violations.append((p, ''))
    elif not pr['ok'] or div:
        what = ['proof obligation broken: ' + x for x in pr['failed']]
        if div:
            d = div[0]
            what.append('correspondence Events model vs implementation diverges: script %s op %d (%s)\n  impl : %s\n  model: %s' % (d['script'], d['opn'], d['op'], d['impl'], d['model']))
        p = vlib.write_replay(PROP, 'broken_obligation.txt', '\n'.join(what) + '\n')
        violations.append((p, 'no-failing-input-found'))
    return {'violations': violations, 'known': [], 'coverage': cov, 'level': 'proof',
            'assumptions': ['handlers do not subscribe or unsubscribe re-entrantly during delivery (handlers that post through another manager are judged on the implementation output only)', 'posting through a destroyed manager is outside the contract']}
