"""C16 -- handle packing is lossless (K-T: theorems over the code translated from entity.hpp / id_deff.hpp)."""
import os, subprocess
import vlib, proofcheck

PROP = 'C16'
M64 = 2 ** 64


def gen_inputs(rng, tier):
    n_rand = 300 if tier == 'quick' else 20000
    lines = []
    ids = [0, 1, 2, 2 ** 29, 2 ** 30 - 2, 2 ** 30 - 1]
    vers = [0, 1, 2 ** 23, 2 ** 24 - 2, 2 ** 24 - 1]
    wids = [0, 1, 512, 1022, 1023]
    for i in ids:
        for v in vers:
            for w in wids:
                lines.append('pack %d %d %d' % (i, v, w))
    for _ in range(n_rand):
        lines.append('pack %d %d %d' % (rng.below(2 ** 30), rng.below(2 ** 24), rng.below(2 ** 10)))
    pats = [0, 1, M64 - 1, M64 - 2]
    for k in range(64):
        pats += [1 << k, (M64 - 1) ^ (1 << k), (1 << k) - 1]
    for _ in range(n_rand):
        pats.append(rng.next())
    for p in pats:
        lines.append('unpack %d' % p)
        lines.append('next %d' % p)
        lines.append('reset0 %d' % p)
        lines.append('setver %d %d' % (p, rng.below(2 ** 24)))
        lines.append('reset2 %d %d %d' % (p, rng.below(2 ** 30), rng.below(2 ** 24)))
        lines.append('reset1 %d %d' % (p, rng.below(2 ** 30)))
    for _ in range(n_rand):
        a = rng.pick(pats)
        b = rng.pick([a, a ^ (1 << rng.below(64)), rng.pick(pats)])
        lines.append('eq %d %d' % (a, b))
    aligns = [1, 2, 4, 8, 16, 32, 64, 3, 12, 24, 128, 4096]
    for a in aligns:
        for x in [0, 1, a - 1, a, a + 1, 2 * a - 1, 2 * a, 1000, 2 ** 32 - a, 2 ** 32 - 2 * a + 1]:
            if 0 <= x and x + a - 1 < 2 ** 32:
                lines.append('align %d %d' % (x, a))
        for _ in range(max(5, n_rand // 20)):
            lines.append('align %d %d' % (rng.below(2 ** 24), a))
    for cap in [0, 1, 2, 3, 4, 5, 7, 8, 1024, 16384, 2 ** 31]:
        for i in [0, 1, cap - 1 if cap else 0, cap, cap + 1, 2 * cap, 2 ** 32 - 2]:
            lines.append('split %d %d' % (i % 2 ** 32, cap))
        for _ in range(max(5, n_rand // 20)):
            lines.append('split %d %d' % (rng.below(2 ** 32 - 1), cap))
    return lines


def run_exe(exe, lines, args=()):
    p = subprocess.run([exe] + list(args), input=('\n'.join(lines) + '\n').encode(), stdout=subprocess.PIPE,
                       stderr=subprocess.PIPE, timeout=600)
    return p.stdout.decode().split('\n')[:len(lines)], p.returncode, p.stderr.decode()[-2000:]


def oracle(inp, out):
    """tier A: the property itself evaluated on what the real functions returned. Returns None or a message."""
    t = inp.split(); o = out.split()
    op = t[0]
    if not o or o[0] != op:
        return 'no output'
    a = [int(x) for x in t[1:]]; r = [int(x) for x in o[1:]]
    if op == 'pack':
        i, v, w = a
        if r[1:] != [i, v, w]:
            return 'fields read back %s, packed %s' % (r[1:], a)
        if r[0] != i | (w << 30) | (v << 40):
            return 'packed value is not the documented layout'
    elif op == 'unpack':
        h = a[0]
        exp = [h & (2 ** 30 - 1), (h >> 40) & (2 ** 24 - 1), (h >> 30) & 1023, 1 if h == M64 - 1 else 0]
        if r != exp:
            return 'fields %s, expected %s' % (r, exp)
    elif op == 'next':
        h = a[0]
        exp = (h & (2 ** 40 - 1)) | ((((h >> 40) + 1) % 2 ** 24) << 40)
        if r != [exp, exp]:
            return 'next version gives %s, expected %d' % (r, exp)
    elif op == 'setver':
        h, v = a
        if r[0] != (h & (2 ** 40 - 1)) | (v << 40):
            return 'setVersion changed other fields'
    elif op == 'reset2':
        h, i, v = a
        if r[0] != (h & (1023 << 30)) | i | (v << 40):
            return 'reset(id, version) wrong'
    elif op == 'reset1':
        h, i = a
        if r[0] != (h & ~(2 ** 30 - 1) & (M64 - 1)) | i:
            return 'reset(id) wrong'
    elif op == 'reset0':
        if r[0] != M64 - 1:
            return 'reset() is not null'
    elif op == 'eq':
        x, y = a
        if r != [1 if x == y else 0, 0 if x == y else 1, 1 if x < y else 0]:
            return 'comparison wrong'
    elif op == 'align':
        x, al = a
        if x + al - 1 < 2 ** 32:
            for rr in r:
                if not (rr % al == 0 and x <= rr < x + al):
                    return 'align-up of %d to %d gives %d' % (x, al, rr)
    elif op == 'split':
        i, cap = a
        if cap > 0:
            if not (i == r[0] * cap + r[1] and r[1] < cap):
                return 'split of %d by %d gives %s' % (i, cap, r)
        elif r != [2 ** 32 - 1, 2 ** 32 - 1]:
            return 'null capacity must give null indices'
    return None


def run(tier, seed, replay=None):
    rng = vlib.Rng(seed)
    violations, notes = [], []
    pr = proofcheck.prove(PROP)
    lines = [l.strip() for l in open(replay) if l.strip() and not l.startswith('#')] if replay else gen_inputs(rng, tier)
    drv, err = vlib.build_driver('leaf_driver')
    cov = {'obligations': pr['obligations'], 'discharged': pr['discharged'],
           'checker_cmd': 'tools/cxx2coq.py && make -C coq Properties_C16.vo (coqc 8.16.1); leaf_driver vs extracted generated code',
           'trusted_base': vlib.TRUSTED_BASE_COMMON + ['tools/cxx2coq.py and clang 14 JSON AST (validated by the leaf differential run)'],
           'theorems': pr['theorems'], 'translator': pr.get('translator', '')}
    if err:
        p = vlib.write_replay(PROP, 'build_error.txt', err)
        return {'violations': [(p, 'no-failing-input-found')], 'coverage': cov, 'level': 'proof'}
    impl, rc, se = run_exe(drv, lines)
    # tier A: property on the real code
    bad = [(l, o, m) for l, o in zip(lines, impl) for m in [oracle(l, o)] if m]
    # tier B: generated model vs real code (validates the translator)
    mism = []
    runner, rerr = vlib.build_runner()
    if runner:
        model, _, _ = run_exe(runner, lines, ['leaf'])
        mism = [(l, o, m) for l, o, m in zip(lines, impl, model) if o.strip() != m.strip()]
    else:
        notes.append(rerr)
    cov.update({'evaluations': len(lines), 'distinct_nontrivial': len(set(lines)),
                'rule': 'field boundaries, single bits, complements, random words; distinct input lines',
                'tierA_failures': len(bad), 'tierB_mismatches': len(mism),
                'samples': lines[:3] + lines[-3:]})
    if bad:
        l, o, m = bad[0]
        p = vlib.write_replay(PROP, 'failing_input.txt', '# %s\n# implementation printed: %s\n%s\n' % (m, o, l))
        violations.append((p, ''))
    elif not pr['ok'] or mism or not runner:
        what = []
        if not pr['ok']:
            what += ['proof obligation broken: ' + f for f in pr['failed']]
        if mism:
            what.append('correspondence (generated code vs real functions) differs on: %s | impl: %s | model: %s' % mism[0])
        if not runner:
            what.append('model runner did not build: ' + str(rerr)[:500])
        p = vlib.write_replay(PROP, 'broken_obligation.txt', '\n'.join(what) + '\n')
        violations.append((p, 'no-failing-input-found'))
    return {'violations': violations, 'known': [], 'coverage': cov, 'level': 'proof',
            'assumptions': ['C++ unsigned arithmetic wraps modulo 2^width (modelled by wrap/sub_w in CInt.v)',
                            'IndexLike::make truncates to uint32_t; toInt<uint64_t> zero-extends'] + notes}
