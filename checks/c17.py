"""C17 -- worlds are independent, however many a process creates."""
import os, re
import vlib, proofcheck, emcmp

PROP = 'C17'


def gen_script(rng, nops, max_live):
    lines = []
    nworlds = 0
    live = []
    handles = []       # (world, alive)
    gone = set()
    for _ in range(nops):
        c = rng.weighted([('new', 14 if len(live) < max_live else 0), ('del', 8 if live else 0), ('create', 30 if live else 0),
                          ('destroynow', 14 if handles else 0), ('update', 5 if live else 0), ('probe', 6 if live else 0), ('evprobe', 6 if live else 0), ('lockedforeign', 10 if len(live) > 1 and handles else 0), ('destroypair', 6 if len(live) > 1 and handles else 0)])
        if c in ('probe', 'evprobe'):
            lines.append('%s %d' % (c, rng.pick(live)))
            continue
        if c == 'new':
            lines.append(rng.weighted([('new', 5), ('newshared', 3), ('newdefault', 2)]))
            live.append(nworlds); nworlds += 1
        elif c == 'del':
            k = rng.pick(live); live.remove(k); lines.append('del %d' % k)
        elif c == 'create':
            k = rng.pick(live); lines.append('%s %d' % (rng.pick(['create', 'create', 'lockcreate']), k)); handles.append(k)
        elif c == 'destroynow':
            h = rng.below(len(handles))
            k = handles[h] if rng.chance(2, 3) or not live else rng.pick(live)       # sometimes through a foreign world
            # handles of worlds that no longer exist are outside the statement (a later world may reuse id and slots)
            if k in live and handles[h] in live:
                lines.append('destroynow %d %d' % (k, h))
        elif c == 'update':
            lines.append('update %d' % rng.pick(live))
        elif c == 'destroypair':
            own = [h for h, w in enumerate(handles) if w in live and h not in gone]
            if own:
                h = rng.pick(own)
                foreign = [g for g, w in enumerate(handles) if w in live and w != handles[h]]
                if foreign:
                    lines.append('destroypair %d %d %d %d' % (handles[h], h, rng.pick(foreign), rng.below(2)))
                    gone.add(h)
        elif c == 'lockedforeign':
            own = [h for h, w in enumerate(handles) if w in live]
            if own:
                h = rng.pick(own)
                foreign = [g for g, w in enumerate(handles) if w in live and w != handles[h]]
                if foreign:
                    lines.append('lockedforeign %d %d %d %d' % (handles[h], h, rng.pick(foreign), rng.below(3)))
    return lines


def churn_script(n, keep):
    """n sequential worlds (create, use, destroy) with `keep` long-lived ones alongside: crosses the 1024-id mark"""
    lines = []
    for i in range(keep):
        lines += ['new', 'create %d' % i]
    for i in range(n):
        k = keep + i
        lines += ['new', 'create %d' % k, 'create 0', 'del %d' % k]
    return lines


def burst_script(rounds, width):
    """rounds of `width` worlds alive at once next to one long-lived world, then all of them destroyed: many ids are free at the same
    moment, thousands of worlds in total; every new world must again get an id below 1024"""
    lines = ['new', 'create 0']
    k = 1
    for r in range(rounds):
        ks = list(range(k, k + width))
        for j in ks:
            lines.append('newdefault' if j % 3 else 'new')
        lines.append('create %d' % ks[0])
        lines.append('create 0')
        for j in ks:
            lines.append('del %d' % j)
        k += width
    return lines


def tier_a(impl):
    out = []
    for name, blocks in impl:
        handles = []         # owner world index per handle
        alive = []
        prev_x = {}
        fail = None
        for i, b in enumerate(blocks):
            if b['crash']:
                fail = 'implementation crashed: ' + b['crash']; break
            t = b['op'].split()
            r = (b['tags'].get('R') or ['R'])[0].split()
            target = None
            if t[0] in ('create', 'lockcreate') and len(r) > 1 and r[1].startswith('#'):
                handles.append(int(t[1])); alive.append(True); target = int(t[1])
            elif t[0] == 'destroynow':
                k, h = int(t[1]), int(t[2])
                if h < len(handles) and handles[h] == k:
                    alive[h] = False
                target = k
            elif t[0] in ('update', 'del'):
                target = int(t[1])
            elif t[0] == 'probe':
                target = int(t[1])
                if len(r) > 1 and r[1:] != ['probe', 'create=1', 'assign=1']:
                    fail = 'world w%s does not honour a dependency declared on it (%s): worlds do not behave identically' % (t[1], ' '.join(r[2:])); break
            elif t[0] == 'destroypair':
                target = int(t[1])
                if len(r) > 1:
                    if r[1:] != ['destroypair', 'alive=0']:
                        fail = "world w%s was asked to destroy its own entity #%s and a handle of another world (#%s) before one update: its own entity is still alive" % (t[1], t[2], t[3]); break
                    if int(t[2]) < len(alive):
                        alive[int(t[2])] = False
            elif t[0] == 'lockedforeign':
                target = int(t[1])
                if len(r) > 1 and r[1:] != ['lockedforeign', 'alive=1', 'c0=1', 'c1=1']:
                    fail = 'a locked section of w%s holding a command through its own handle #%s next to one through foreign handle #%s left #%s with %s (expected alive with both components)' % (t[1], t[2], t[3], t[2], ' '.join(r[2:])); break
            elif t[0] == 'evprobe':
                target = int(t[1])
                kv = dict(x.split('=') for x in r[2:] if '=' in x)
                if kv and (kv.get('own') != '1' or kv.get('foreign') != '0'):
                    fail = 'events of world w%s: its receiver heard %s of 1 own post and %s post(s) made through %s other live world(s)' % (t[1], kv.get('own'), kv.get('foreign'), kv.get('others')); break
            ids = {}
            for x in (b['tags'].get('I') or ['I'])[0].split()[1:]:
                w, v = x.split('=')
                ids[w] = int(v)
            if len(set(ids.values())) != len(ids):
                fail = 'two live worlds share an id: %s' % ids; break
            if any(v >= 1024 for v in ids.values()):
                fail = 'a live world has id %d, which does not fit the handle' % max(ids.values()); break
            cur_x = {}
            for l in b['tags'].get('X', []):
                p = l.split()
                w = int(p[1][1:]); bits = p[2] if len(p) > 2 and p[2] != '|' else ''
                cur_x[w] = l
                for h, ch in enumerate(bits):
                    if ch == '-':
                        continue
                    exp = '1' if (handles[h] == w and alive[h]) else '0'
                    if ch != exp:
                        fail = 'handle #%d (issued by w%d, %s) is reported %s by w%d' % (h, handles[h], 'alive' if alive[h] else 'destroyed',
                                                                                        'valid' if ch == '1' else 'invalid', w)
                        break
                if fail:
                    break
            if fail:
                break
            # frame: an operation on one world leaves the digest of every other live world unchanged
            for w, l in cur_x.items():
                if w != target and w in prev_x:
                    da = prev_x[w].split('|')[1]; db = l.split('|')[1]
                    if da != db and t[0] not in ('new', 'newshared', 'newdefault'):
                        fail = 'operation on w%s changed world w%d: %s -> %s' % (target, w, da.strip(), db.strip()); break
            if fail:
                break
            prev_x = cur_x
        if fail:
            out.append(dict(script=name, opn=i, op=b['op'], what=fail))
    return out


def run(tier, seed, replay=None):
    rng = vlib.Rng(seed)
    pr = proofcheck.prove(PROP)
    n, nops = (60, 60) if tier == 'quick' else (600, 200)
    if replay:
        scripts = [(os.path.basename(replay), [l.rstrip('\n') for l in open(replay) if l.strip() and not l.startswith('#')])]
    else:
        scripts = [('churn', churn_script(1100 if tier == 'quick' else 3000, 3)), ('burst', burst_script(130 if tier == 'quick' else 400, 24))]
        scripts += [('g%d' % i, gen_script(rng.fork('w%d' % i), nops, 6)) for i in range(n)]
    cov = {'obligations': pr['obligations'], 'discharged': pr['discharged'], 'theorems': pr['theorems'],
           'checker_cmd': 'make -C coq Properties_C17.vo; world_driver vs extracted Worlds allocator',
           'trusted_base': vlib.TRUSTED_BASE_COMMON}
    drv, err = vlib.build_driver('world_driver')
    runner, rerr = vlib.build_runner()
    if err or rerr:
        p = vlib.write_replay(PROP, 'build_error.txt', str(err or rerr))
        return {'violations': [(p, 'no-failing-input-found')], 'coverage': cov, 'level': 'proof'}
    text = emcmp.scripts_text(scripts)
    wd = os.path.join(vlib.BUILD, 'work', PROP)
    io, _ = emcmp.run_driver(drv, text, wd)
    mo, _ = emcmp.run_runner(runner, 'worlds', text)
    impl, model = emcmp.parse(io), emcmp.parse(mo)
    fa = tier_a(impl)
    div = emcmp.compare(impl, model, ['R', 'I'], extra_norm={'R': lambda l: ' '.join(l.split()[:3]) if l.startswith('R w') else 'R'})
    sd = dict(scripts)
    cov.update({'evaluations': len(scripts), 'distinct_nontrivial': len(set(tuple(v) for v in sd.values())),
                'ops': sum(len(v) for v in sd.values()), 'worlds_created': sum(1 for v in sd.values() for l in v if l.startswith('new')),
                'rule': 'random multi-world scripts + one script of >1024 sequential worlds; distinct = distinct scripts',
                'tierA_failures': len(fa), 'tierB_divergences': len(div), 'samples': [scripts[-1][1][:30]]})
    violations = []
    if fa:
        f = fa[0]
        p = vlib.write_replay(PROP, 'failing_script.txt', '# %s\n# at op %d (%s)\n%s\n' % (f['what'], f['opn'], f['op'], '\n'.join(sd[f['script']][:f['opn'] + 1])))
        violations.append((p, ''))
    elif not pr['ok'] or div:
        what = ['proof obligation broken: ' + x for x in pr['failed']]
        if div:
            d = div[0]
            what.append('correspondence Worlds model vs implementation diverges: script %s op %d (%s)\n  impl : %s\n  model: %s' % (d['script'], d['opn'], d['op'], d['impl'], d['model']))
        p = vlib.write_replay(PROP, 'broken_obligation.txt', '\n'.join(what) + '\n')
        violations.append((p, 'no-failing-input-found'))
    return {'violations': violations, 'known': [], 'coverage': cov, 'level': 'proof',
            'assumptions': ['world ids chosen explicitly by the caller are outside the statement', 'at most 1024 worlds alive at once']}
