"""C04 -- iteration visits each selected entity exactly once, with its own data."""
import vlib, mgrcheck, jobcheck
from gen import mgr

PROP = 'C04'
ASPECTS = {'valid', 'values', 'members'}
JOB_ASPECTS = {'visits'}


def shared_arg_scripts(rng, n):
    """typed job 4 takes a shared component by reference: `the shared values of its archetype` (not in the Manager model:
    judged on the implementation's own output only)"""
    out = []
    for i in range(n):
        r = rng.fork('sh%d' % i)
        lines = ['maxthreads %d' % mgr.MAXTHREADS, 'threads %d' % r.pick([1, 2, 3]), 'chunkcap %d' % r.pick([0, 2, 3, 5]), 'reg 0', 'reg 1', 'update']
        cnt = r.range(1, 14)
        for k in range(cnt):
            lines.append('create 0 0' + (' 1' if r.chance(1, 3) else ''))
            lines.append('set #%d 0 %d' % (k, 100 + k))
        for k in range(cnt):
            if r.chance(4, 5):
                lines.append('assignshared #%d 0 %d' % (k, r.pick([7, 7, 7, 8, 9])))
        alive = list(range(cnt))
        for _ in range(r.range(1, 4)):
            c = r.below(4)
            if c == 0 and alive:
                k = r.pick(alive); alive.remove(k)
                lines.append('destroynow 0 #%d' % k)
            elif c == 1 and alive:
                lines.append('assignshared #%d 0 %d' % (r.pick(alive), r.pick([7, 8, 9, 10])))     # unchecked entry point: live targets only
            elif c == 2 and alive:
                lines.append('removeshared #%d 0' % r.pick(alive))
            mode = r.below(2)
            lines.append('runtyped 4 %d%s' % (mode, (' %d' % r.range(1, 5)) if mode and r.chance(1, 2) else ''))
        out.append(('sh%d' % i, lines))
    return out


def shared_arg_run(scripts):
    import os, emcmp
    drv, err = vlib.build_driver('em_driver')
    if err:
        return [dict(script=scripts[0][0], opn=0, op='build', aspect='build', what=str(err))]
    io, _ = emcmp.run_driver(drv, emcmp.scripts_text(scripts), os.path.join(vlib.BUILD, 'work', PROP + '-sh'), timeout=1200)
    impl = emcmp.parse(io)
    fails = [dict(script=n_, opn=i, op=b['op'], aspect='crash', what='implementation crashed: ' + b['crash']) for n_, bl in impl for i, b in enumerate(bl) if b['crash']]
    return fails + jobcheck.tier_a_jobs(impl, scripts, JOB_ASPECTS)


def run(tier, seed, replay=None):
    rng = vlib.Rng(seed)
    rl = [l.rstrip('\n') for l in open(replay) if l.strip() and not l.startswith('#')] if replay else []
    only_sh = any(l.startswith('runtyped 4') for l in rl)
    sh_scripts = [('replay', rl)] if only_sh else ([] if replay else shared_arg_scripts(rng, 60 if tier == 'quick' else 1500))
    fa = shared_arg_run(sh_scripts) if sh_scripts else []
    if fa or only_sh:
        cov = {'rule': 'typed job with a shared-component argument, implementation only', 'evaluations': len(sh_scripts), 'distinct_nontrivial': len(sh_scripts)}
        if not fa:
            return {'violations': [], 'coverage': cov, 'level': 'proof'}
        f = fa[0]
        p = vlib.write_replay(PROP, 'failing_script.txt', '# %s: %s\n# at op %d (%s) of script %s\n%s\n' % (f['aspect'], f['what'], f['opn'], f['op'], f['script'], '\n'.join(dict(sh_scripts)[f['script']])))
        return {'violations': [(p, '')], 'coverage': cov, 'level': 'proof'}
    n, maxops = (200, 70) if tier == 'quick' else (1000, 200)
    prof = mgr.profile(PROP)
    scripts = mgr.corpus(PROP) + [('g%d' % i, mgr.gen_script(rng.fork(PROP + '-%d' % i), maxops, prof)) for i in range(n)]
    return mgrcheck.run_check(PROP, scripts, ASPECTS, replay=replay, assumptions=['component payloads are modelled as one integer per instance', 'user callbacks only read what they are handed', 'extraArchetypeFilterCheck / extraChunkFilterCheck are the defaults'],
                              extra_tier_a=lambda impl, sc: jobcheck.tier_a_jobs(impl, sc, JOB_ASPECTS),
                              extra_cov={'shared_argument_jobs': {'scripts': len(sh_scripts), 'judged': 'implementation output only (the Manager model has no shared arguments of jobs)'}})
