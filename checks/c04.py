"""C04 -- iteration visits each selected entity exactly once, with its own data."""
import vlib, mgrcheck, jobcheck
from gen import mgr

PROP = 'C04'
ASPECTS = {'valid', 'values', 'members'}
JOB_ASPECTS = {'visits'}


def run(tier, seed, replay=None):
    rng = vlib.Rng(seed)
    n, maxops = (200, 70) if tier == 'quick' else (3000, 250)
    prof = mgr.profile(PROP)
    scripts = mgr.corpus(PROP) + [('g%d' % i, mgr.gen_script(rng.fork(PROP + '-%d' % i), maxops, prof)) for i in range(n)]
    return mgrcheck.run_check(PROP, scripts, ASPECTS, replay=replay, assumptions=['component payloads are modelled as one integer per instance', 'user callbacks only read what they are handed', 'extraArchetypeFilterCheck / extraChunkFilterCheck are the defaults'],
                              extra_tier_a=lambda impl, sc: jobcheck.tier_a_jobs(impl, sc, JOB_ASPECTS))
