"""C03 -- every component instance is constructed once and destroyed once; callbacks once."""
import vlib, mgrcheck
from gen import mgr

PROP = 'C03'
ASPECTS = {'lifecycle', 'callbacks', 'valid'}


def respawn_scripts(rng, n):
    out = []
    for i in range(n):
        r = rng.fork('rs%d' % i)
        lines = ['maxthreads %d' % mgr.MAXTHREADS, 'threads 1', 'chunkcap %d' % r.pick([0, 2, 3]), 'reg 3', 'reg 0', 'reg 2', 'update']
        cnt = r.range(2, 7)
        for k in range(cnt):
            lines.append('create 0 3 0' + (' 2' if r.chance(1, 2) else ''))
            lines.append('set #%d 1 %d' % (k, 100 + k))
        alive = list(range(cnt)); nxt = cnt
        for _ in range(r.range(2, 6)):
            if not alive:
                break
            c = r.below(3)
            k = r.pick(alive)
            if c == 0:
                lines += ['respawn 1', 'destroynow 0 #%d' % k]; alive.remove(k); alive.append(nxt); nxt += 1
            elif c == 1:
                lines += ['respawn 1', 'remove 0 #%d 3' % k]; alive.append(nxt); nxt += 1
            else:
                lines.append('create 0 3 0'); alive.append(nxt); nxt += 1
        lines.append('create 0 3 0')
        out.append(('rs%d' % i, lines))
    return out


def respawn_run(scripts, work):
    """a beforeRemove hook that re-enters the library and creates an entity in the archetype the removal is happening in (unlocked).
    Not in the model: judged on the implementation's own output -- every live handle is listed exactly once by the archetypes, nothing
    else is listed, the lifecycle brackets hold, nothing is alive after teardown"""
    import os, emcmp
    drv, err = vlib.build_driver('em_driver')
    if err:
        return None
    io, _ = emcmp.run_driver(drv, emcmp.scripts_text(scripts), os.path.join(vlib.BUILD, 'work', work), timeout=600)
    for name, blocks in emcmp.parse(io):
        lc = mgrcheck.Lifecycle({2, 3, 5, 13})
        for i, b in enumerate(blocks):
            if b['crash']:
                return (name, i, b['op'], 'implementation crashed: ' + b['crash'], dict(scripts)[name])
            for el in b['tags'].get('E', []):
                for ev in el.split()[1:]:
                    m = lc.feed(ev)
                    if m:
                        return (name, i, b['op'], m + ' (event %s)' % ev, dict(scripts)[name])
            v = (b['tags'].get('V') or [None])[0]
            if v is None:
                if 'teardown' in b['op'] and lc.leaked():
                    return (name, i, b['op'], 'instances still alive after the world was destroyed: %s' % lc.leaked()[:4], dict(scripts)[name])
                continue
            bits = v.split()[1] if len(v.split()) > 1 else ''
            live = set('#%d' % k for k, ch in enumerate(bits) if ch == '1')
            listed = []
            for l in b['tags'].get('A', []):
                e = [x for x in l.split() if x.startswith('e=')][0][2:]
                listed += [] if e == '-' else e.split(',')
            if sorted(listed) != sorted(set(listed)) or set(listed) != live:
                return (name, i, b['op'], 'archetype lists hold %s, the live entities are %s' % (sorted(listed), sorted(live)), dict(scripts)[name])
    return None


def run(tier, seed, replay=None):
    rng = vlib.Rng(seed)
    rl = [l.rstrip('\n') for l in open(replay) if l.strip() and not l.startswith('#')] if replay else []
    if not replay or any(l.startswith('respawn') for l in rl):
        rs = [('replay', rl)] if replay else respawn_scripts(rng, 60 if tier == 'quick' else 1500)
        bad = respawn_run(rs, PROP + '-rs')
        if bad or replay:
            cov = {'rule': 're-entrant beforeRemove hook, implementation only', 'evaluations': len(rs), 'distinct_nontrivial': len(rs)}
            if not bad:
                return {'violations': [], 'coverage': cov, 'level': 'proof'}
            p = vlib.write_replay(PROP, 'failing_script.txt', '# %s\n# at op %d (%s) of script %s\n%s\n' % (bad[3], bad[1], bad[2], bad[0], '\n'.join(bad[4])))
            return {'violations': [(p, '')], 'coverage': cov, 'level': 'proof'}
    n, maxops = (220, 60) if tier == 'quick' else (3000, 250)
    prof = mgr.profile(PROP)
    scripts = mgr.corpus(PROP) + [('g%d' % i, mgr.gen_script(rng.fork(PROP + '-%d' % i), maxops, prof)) for i in range(n)]
    return mgrcheck.run_check(PROP, scripts, ASPECTS, replay=replay, assumptions=['component payloads are modelled as one integer per instance', 'locked-mode API calls from different threads are atomic with respect to each other (call-granularity interleavings; premise validated by the TSan run of C06)'])
