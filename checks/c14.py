"""C14 -- systems run in a constraint- and priority-respecting order; lifecycle is legal."""
import os
import vlib, proofcheck, emcmp

PROP = 'C14'
LEGAL = {   # lifecycle automaton of a system as the manager may drive it: state -> callback -> next state
    'uninit': {'create': 'inited'},
    'inited': {'configure': 'configured', 'destroy': 'uninit'},
    'configured': {'start': 'active', 'destroy': 'uninit'},
    'active': {'update': 'active', 'pause': 'paused'},
    'paused': {'resume': 'active', 'stop': 'stopped'},
    'stopped': {'start': 'active', 'destroy': 'uninit'},
}


def gen_script(rng, nops, distinct_keys):
    lines = []
    added, present = [], []
    used_keys = set()
    inited = False
    ngroups = 3
    lstate = {}                      # what the generator believes about each present system: configured / active / paused / stopped
    all_before = rng.chance(1, 2)    # scripts mixing 'after' and 'before' towards earlier systems may form cycles: one style per script
    def fresh_prio(g):
        for _ in range(50):
            p = rng.range(-5, 30)
            if not distinct_keys or (g, p) not in used_keys:
                used_keys.add((g, p))
                return p
        return rng.range(31, 1000)
    for _ in range(nops):
        act = [x for x in present if lstate.get(x) == 'active']
        pau = [x for x in present if lstate.get(x) == 'paused']
        c = rng.weighted([('add', 30 if len(added) < 12 else 0), ('remove', 8 if present else 0), ('init', 8), ('update', 25), ('setgroup', 0 if (distinct_keys or inited) else 6),
                          ('pause', 5 if act else 0), ('resume', 4 if pau else 0), ('stop', 2 if pau else 0)])
        if c == 'pause':
            n = rng.pick(act); lstate[n] = 'paused'; lines.append('pause %d' % n); continue
        if c == 'resume':
            n = rng.pick(pau); lstate[n] = 'active'; lines.append('resume %d' % n); continue
        if c == 'stop':
            n = rng.pick(pau); lstate[n] = 'stopped'; lines.append('stop %d' % n); continue
        if c == 'add':
            n = rng.pick([x for x in range(12) if x not in added])
            g = rng.below(ngroups) if not distinct_keys else 0
            p = fresh_prio(g)
            others = [x for x in range(12) if x != n]
            if rng.chance(17, 20):
                # constraints towards earlier-added systems in one direction per script half: no cycle can form;
                # references to systems that are never added are harmless and are included
                absent = [x for x in others if x not in added]
                if not all_before:
                    a = sorted(set(rng.pick(added) for _ in range(rng.below(3)))) if added else []
                    b = []
                else:
                    a = []
                    b = sorted(set(rng.pick(added) for _ in range(rng.below(3)))) if added and all_before else []
                if absent and rng.chance(1, 4):
                    a = sorted(set(a + [rng.pick(absent)]))
            else:
                b = sorted(set(rng.pick(others) for _ in range(rng.below(3))))
                a = sorted(set(rng.pick(others) for _ in range(rng.below(3))))
            tok = 'add %d p=%d' % (n, p)
            if g: tok += ' g=%d' % g
            if b: tok += ' b=' + ','.join(map(str, b))
            if a: tok += ' a=' + ','.join(map(str, a))
            lines.append(tok); added.append(n); present.append(n); lstate[n] = 'configured'
        elif c == 'remove':
            n = rng.pick(present); present.remove(n); lines.append('remove %d' % n)
        elif c == 'init':
            lines.append('init')
            if not inited:       # only the first init configures and starts; later ones do nothing
                for x in present:
                    if lstate.get(x) == 'configured':
                        lstate[x] = 'active'
            inited = True
        elif c == 'update':
            lines.append('update')
            if inited:
                for x in present:
                    if lstate.get(x) == 'configured':
                        lstate[x] = 'active'
        elif c == 'setgroup':
            lines.append('setgroup %d %d' % (rng.below(ngroups), rng.range(-3, 3)))
    lines += ['init', 'update', 'update', 'teardown']
    return lines


def tier_a(impl, scripts):
    out = []
    sd = dict(scripts)
    for name, blocks in impl:
        cfg, present, removed = {}, [], set()
        gprio = {}
        gsnap = {}
        state = {}
        inited = False
        fail = None
        for i, b in enumerate(blocks):
            if b['crash']:
                fail = 'implementation crashed: ' + b['crash']; break
            t = b['op'].split()
            thrown = 'THROW' in b['tags']
            if t[0] == 'add':
                n = int(t[1]); c = {'p': 0, 'g': 0, 'b': [], 'a': []}
                for tok in t[2:]:
                    k, v = tok.split('=')
                    c[k] = int(v) if k in 'pg' else [int(x) for x in v.split(',') if x]
                cfg[n] = c; present.append(n); state.setdefault(n, 'uninit')
            elif t[0] == 'remove':
                n = int(t[1])
                if n in present:
                    present.remove(n); removed.add(n)
            elif t[0] == 'setgroup':
                gprio[int(t[1])] = int(t[2])
            elif t[0] == 'init':
                inited = True
            # constraint graph among present systems: edge x -> y means y must run before x
            after = {x: set(y for y in cfg[x]['a'] if y in present) for x in present}
            for x in present:
                for y in cfg[x]['b']:
                    if y in present:
                        after[y].add(x)
            # cycle?
            color = {}
            def dfs(x):
                color[x] = 1
                for y in after[x]:
                    if color.get(y) == 1 or (y not in color and dfs(y)):
                        return True
                color[x] = 2
                return False
            cyc = any(x not in color and dfs(x) for x in present)
            reorders = (t[0] == 'init' and not any(bb['op'].split()[0] == 'init' for bb in blocks[:i])) or (t[0] in ('add', 'remove') and inited and (t[0] != 'remove' or True))
            if t[0] == 'remove' and int(t[1]) not in removed:
                reorders = False
            if reorders:
                gsnap = dict(gprio)      # group priorities take effect at the next reordering
            if thrown:
                if not (reorders and cyc):
                    fail = 'an exception was thrown although the constraints between present systems are not contradictory'
                break
            if reorders and cyc:
                fail = 'contradictory constraints (a cycle) produced a silent order instead of an exception'; break
            # lifecycle legality + removed systems never called
            ev = [x.split(':') for x in (b['tags'].get('E') or ['E'])[0].split()[1:]]
            for n_, cbn in ev:
                n_ = int(n_)
                if n_ in removed:
                    fail = 'removed system %d received %s' % (n_, cbn); break
                nxt = LEGAL[state[n_]].get(cbn)
                if nxt is None:
                    fail = 'system %d: callback %s in state %s is not a legal transition' % (n_, cbn, state[n_]); break
                state[n_] = nxt
            if fail:
                break
            if t[0] == 'update' and inited:
                ups = [int(n_) for n_, cbn in ev if cbn == 'update']
                active = [x for x in present if state[x] == 'active']
                if sorted(ups) != sorted(active):
                    fail = 'update ran %s, the active systems are %s' % (ups, sorted(active)); break
                pos = {x: k for k, x in enumerate(ups)}
                for x in ups:
                    for y in after[x]:
                        if y in pos and pos[y] > pos[x]:
                            fail = 'system %d ran before %d although it must run after it' % (x, y); break
                    if fail:
                        break
                if fail:
                    break
                key = lambda x: (gsnap.get(cfg[x]['g'], 0), cfg[x]['p'])
                # the order is over ALL present systems (also not yet active ones); judge the priority rule on the active ones
                # only when every present system is active (otherwise inactive systems interleave invisibly)
                if len(active) == len(present):
                    placed = set()
                    for k, x in enumerate(ups):
                        for y in ups[k + 1:]:
                            if after[y] <= placed and key(y) > key(x):
                                fail = 'system %d (priority %s) ran before %d (priority %s) although %d was already placeable' % (x, key(x), y, key(y), y)
                                break
                        if fail:
                            break
                        placed.add(x)
                if fail:
                    break
        if fail:
            out.append(dict(script=name, opn=i, op=b['op'], what=fail))
    return out


def run(tier, seed, replay=None):
    rng = vlib.Rng(seed)
    pr = proofcheck.prove(PROP)
    n, nops = (300, 25) if tier == 'quick' else (5000, 60)
    if replay:
        scripts = [(os.path.basename(replay), [l.rstrip('\n') for l in open(replay) if l.strip() and not l.startswith('#')])]
    else:
        scripts = [('g%d' % i, gen_script(rng.fork('s%d' % i), nops, distinct_keys=(i % 3 != 0))) for i in range(n)]
        scripts += [('cycle', ['add 1 a=2', 'add 2 a=1', 'init']), ('before_first_order', ['add 1 p=9', 'add 2 p=1 b=1', 'init', 'update', 'teardown']),
                    ('remove', ['add 1', 'add 2 p=3', 'add 3 p=2 a=2', 'init', 'update', 'remove 2', 'update', 'update', 'teardown'])]
    cov = {'obligations': pr['obligations'], 'discharged': pr['discharged'], 'theorems': pr['theorems'],
           'checker_cmd': 'make -C coq Properties_C14.vo; sys_driver vs extracted Systems model',
           'trusted_base': vlib.TRUSTED_BASE_COMMON}
    drv, err = vlib.build_driver('sys_driver')
    runner, rerr = vlib.build_runner()
    if err or rerr:
        p = vlib.write_replay(PROP, 'build_error.txt', str(err or rerr))
        return {'violations': [(p, 'no-failing-input-found')], 'coverage': cov, 'level': 'proof'}
    text = emcmp.scripts_text(scripts)
    wd = os.path.join(vlib.BUILD, 'work', PROP)
    io, _ = emcmp.run_driver(drv, text, wd)
    mo, _ = emcmp.run_runner(runner, 'systems', text)
    impl, model = emcmp.parse(io), emcmp.parse(mo)
    fa = tier_a(impl, scripts)
    # exact comparison only where the sort is deterministic (pairwise distinct priority keys): scripts g<i> with i % 3 != 0 and the corpus
    exact = [(n_, b) for n_, b in impl if not (n_.startswith('g') and int(n_[1:]) % 3 == 0)]
    div = emcmp.compare(exact, model, ['THROW', 'E', 'T'])
    sd = dict(scripts)
    orders = set()
    for name, blocks in impl:
        for b in blocks:
            if b['op'] == 'update':
                orders.add((b['tags'].get('E') or [''])[0])
    cov.update({'evaluations': len(scripts), 'distinct_nontrivial': len(orders), 'ops': sum(len(v) for v in sd.values()),
                'rule': 'random add/remove/init/update/setgroup scripts over 12 systems; distinct = distinct observed update orders',
                'tierA_failures': len(fa), 'tierB_divergences': len(div), 'samples': [scripts[0][1], scripts[1][1]]})
    violations = []
    if fa:
        f = fa[0]
        p = vlib.write_replay(PROP, 'failing_script.txt', '# %s\n# at op %d (%s)\n%s\n' % (f['what'], f['opn'], f['op'], '\n'.join(sd[f['script']][:f['opn'] + 1])))
        violations.append((p, ''))
    elif not pr['ok'] or div:
        what = ['proof obligation broken: ' + x for x in pr['failed']]
        if div:
            d = div[0]
            what.append('correspondence Systems model vs implementation diverges: script %s op %d (%s) tag %s\n  impl : %s\n  model: %s\nscript:\n%s' %
                        (d['script'], d['opn'], d['op'], d['tag'], d['impl'], d['model'], '\n'.join(sd[d['script']])))
        p = vlib.write_replay(PROP, 'broken_obligation.txt', '\n'.join(what) + '\n')
        violations.append((p, 'no-failing-input-found'))
    return {'violations': violations, 'known': [], 'coverage': cov, 'level': 'proof',
            'assumptions': ['std::sort is modelled as a sort; exact comparison with the model only for pairwise distinct priority keys',
                            'system names are unique; a removed system is not added again']}
