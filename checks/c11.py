"""C11 -- change detection is quiescent and chunk-precise."""
import os, re
import vlib, mgrcheck, jobcheck, emcmp
from gen import mgr

PROP = 'C11'
ASPECTS = {'valid', 'values', 'members'}
JOB_ASPECTS = {'nomiss', 'precise'}


def chunkcfg_scripts(rng, n):
    """sets of chunk-size functions (minimum only, maximum only, both, exact; applying to all or to some archetypes;
    consistent and contradictory), a default size, then creations in several archetypes"""
    out = []
    for i in range(n):
        r = rng.fork('cfg%d' % i)
        default = r.pick([1, 2, 3, 4, 8, 16, 1024])
        lines = ['maxthreads 16', 'threads 1', 'reg 0', 'reg 1', 'reg 2', 'verchunk %d' % default]
        for _ in range(r.range(1, 3)):
            mn = r.pick([0, 0, 2, 4, 8, 16]); mx = r.pick([0, 0, 2, 4, 8, 16, 32])
            if r.chance(1, 4):
                mx = mn
            pals = sorted(set(r.pick([0, 1, 2]) for _ in range(r.range(0, 2))))
            lines.append(('chunkfn %d %d %s' % (mn, mx, ' '.join(map(str, pals)))).rstrip())
        lines.append('update')
        for _ in range(r.range(2, 5)):
            cs = sorted(set(r.pick([0, 1, 2]) for _ in range(r.range(1, 3))))
            lines.append('create 0 ' + ' '.join(map(str, cs)))
        out.append(('cfg%d' % i, lines))
    return out


def chunkcfg_check(rng, n):
    """tier A for the configured version-chunk size: computed from the property text alone"""
    scripts = chunkcfg_scripts(rng, n)
    rn = mgrcheck.Runner(PROP)
    if rn.err:
        return dict(what='build error: %s' % rn.err, script='', lines=[]), 0, []
    impl, model, spec = rn.run(scripts, tag='chunkcfg')
    div = emcmp.compare(impl, model, ['A'])
    sd = dict(scripts)
    for name, blocks in impl:
        lines = sd[name]
        default = next(int(l.split()[1]) for l in lines if l.startswith('verchunk'))
        fns = [(int(t[1]), int(t[2]), set(map(int, t[3:]))) for t in (l.split() for l in lines) if t[0] == 'chunkfn']
        def expect(cs):
            ap = [(mn, mx) for mn, mx, fm in fns if fm <= set(cs)]
            lo = max([mn for mn, mx in ap] + [0])
            his = [mx for mn, mx in ap if mx > 0]
            hi = min(his) if his else 0
            if hi and hi < lo:
                return None
            c = max(default, lo)
            return min(c, hi) if hi else c
        for i, b in enumerate(blocks):
            t = b['op'].split()
            creating = t and t[0] == 'create'
            cs = [int(x) for x in t[2:]] if creating else []
            if b['crash']:
                if (creating and expect(cs) is None) or expect([]) is None:
                    break          # the contradictory configuration was rejected
                return dict(what='creating an archetype under a consistent chunk-size configuration failed: %s' % b['crash'], script=name, lines=lines[:i + 1]), len(scripts), div
            if creating:
                if expect(cs) is None:
                    return dict(what='a contradictory chunk-size configuration for components %s was accepted' % cs, script=name, lines=lines[:i + 1]), len(scripts), div
                for al in b['tags'].get('A', []):
                    f = dict(x.split('=', 1) for x in al.split()[2:])
                    m = [] if f['m'] == '-' else [int(x) for x in f['m'].split(',')]
                    if m == cs and int(f['cs']) != expect(cs):
                        return dict(what='archetype %s has version-chunk size %s, the configuration implies %d (default %d clamped by the largest minimum and the smallest maximum of the applying functions)' % (cs, f['cs'], expect(cs), default),
                                    script=name, lines=lines[:i + 1]), len(scripts), div
    return None, len(scripts), div


def filtered_jobs_run(rng, n, only=None):
    """jobs with a chunk filter of their own (extraChunkFilterCheck rejects odd version chunks) next to version-checked readers
    of what they write: a rejected chunk is neither processed nor stamped. Not in the Manager model: implementation output only"""
    import os, emcmp
    prof = mgr.profile(PROP)
    prof['verchunk'] = [1, 2, 3]
    prof['jobs'] = [{'reqs': [(0, 0)], 'check': [], 'xodd': True}, {'reqs': [(0, 1)], 'check': [0]}, {'reqs': [(0, 0), (1, 2)], 'check': [1], 'xodd': True},
                    {'reqs': [(1, 1)], 'check': [1]}, {'reqs': [(0, 1), (1, 1)], 'check': [0, 1]}]
    prof['weights'] = dict(prof['weights'], jobdo=0, runtyped=0, lockedrun=0, create=30, runjob=34)
    scripts = only or [('x%d' % i, mgr.gen_script(rng.fork('c11x-%d' % i), 70, prof)) for i in range(n)]
    drv, err = vlib.build_driver('em_driver')
    if err:
        return [dict(script=scripts[0][0], opn=0, op='build', aspect='build', what=str(err))], scripts
    io, _ = emcmp.run_driver(drv, emcmp.scripts_text(scripts), os.path.join(vlib.BUILD, 'work', PROP + '-x'), timeout=1200)
    impl = emcmp.parse(io)
    fails = [dict(script=n_, opn=i, op=b['op'], aspect='crash', what='implementation crashed: ' + b['crash']) for n_, bl in impl for i, b in enumerate(bl) if b['crash']]
    return fails + jobcheck.tier_a_jobs(impl, scripts, JOB_ASPECTS | {'visits'}), scripts


def run(tier, seed, replay=None):
    rng = vlib.Rng(seed)
    rl = [l.rstrip('\n') for l in open(replay) if l.strip() and not l.startswith('#')] if replay else []
    only_x = any(l.startswith('mkjob 3') or l.startswith('mkjob 2') for l in rl)
    if only_x or not replay:
        fx, xs = filtered_jobs_run(rng, 60 if tier == 'quick' else 1200, [('replay', rl)] if only_x else None)
        if fx or only_x:
            cov = {'rule': 'jobs with a chunk filter of their own, implementation only', 'evaluations': len(xs), 'distinct_nontrivial': len(xs)}
            if not fx:
                return {'violations': [], 'coverage': cov, 'level': 'proof'}
            f = fx[0]
            p = vlib.write_replay(PROP, 'failing_script.txt', '# %s: %s\n# at op %d (%s) of script %s\n%s\n' % (f['aspect'], f['what'], f['opn'], f['op'], f['script'], '\n'.join(dict(xs)[f['script']])))
            return {'violations': [(p, '')], 'coverage': cov, 'level': 'proof'}
    n, maxops = (200, 80) if tier == 'quick' else (1000, 200)
    prof = mgr.profile(PROP)
    scripts = mgr.corpus(PROP) + [('g%d' % i, mgr.gen_script(rng.fork(PROP + '-%d' % i), maxops, prof)) for i in range(n)]
    res = mgrcheck.run_check(PROP, scripts, ASPECTS, replay=replay, assumptions=['component payloads are modelled as one integer per instance', 'user callbacks only read what they are handed', 'extraArchetypeFilterCheck / extraChunkFilterCheck are the defaults in the model; jobs with a chunk filter of their own are judged on the implementation output only'],
                              extra_tier_a=lambda impl, sc: jobcheck.tier_a_jobs(impl, sc, JOB_ASPECTS))
    if replay or res['violations']:
        return res
    fail, ncfg, div = chunkcfg_check(rng, 150 if tier == 'quick' else 2000)
    res['coverage']['chunk_config_scripts'] = ncfg
    if fail:
        p = vlib.write_replay(PROP, 'failing_script.txt', '# %s\n# script %s\n%s\n' % (fail['what'], fail['script'], '\n'.join(fail['lines'])))
        res['violations'].append((p, ''))
    elif div:
        d = div[0]
        p = vlib.write_replay(PROP, 'broken_obligation.txt', 'correspondence Manager model vs implementation diverges on the configured chunk size: script %s op %d (%s)\n  impl : %s\n  model: %s\n' % (d['script'], d['opn'], d['op'], d['impl'], d['model']))
        res['violations'].append((p, 'no-failing-input-found'))
    return res
